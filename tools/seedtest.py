#!/usr/bin/env python3
"""Evaluate a seeded change produced by an independent agent.
  tools/seedtest.py <ID> [--dir /tmp/seed] [--also C02,C05] [--suffix b]
1. confirm in the agent's scratch worktree: builds, the 138 library tests pass, the demo fails with
   the change and passes without it;
2. apply the patch to /repo, run ./check <ID> (and the --also checks), undo it;
3. store patch, demo and meta.json under /verif/seeded/<ID>/."""
import json, os, shutil, subprocess, sys, time

ROOT = os.path.dirname(os.path.dirname(os.path.abspath(__file__)))

def sh(cmd, cwd=None, timeout=1800):
    r = subprocess.run(cmd, cwd=cwd, shell=True, capture_output=True, text=True, timeout=timeout,
                       env=dict(os.environ, CARGO_NET_OFFLINE="true"))
    return r.returncode, (r.stdout + r.stderr)

def main():
    pid = sys.argv[1]
    base = "/tmp/seed"
    also = []
    suffix = ""
    a = sys.argv[2:]
    while a:
        if a[0] == "--dir":
            base = a[1]; a = a[2:]
        elif a[0] == "--also":
            also = a[1].split(","); a = a[2:]
        elif a[0] == "--suffix":
            suffix = a[1]; a = a[2:]
        else:
            a = a[1:]
    wt = f"{base}/{pid}"
    out = f"{base}/{pid}_out"
    patch = f"{out}/patch.diff"
    meta = {"property": pid, "ran": [], "confirmed": {}}
    if not os.path.exists(patch) or os.path.getsize(patch) == 0:
        print("no patch"); return 2
    demo_cmd = open(f"{out}/demo_cmd.txt").read().strip().splitlines()[-1].strip()
    meta["demo_cmd"] = demo_cmd
    # -- 1. confirm the agent's claims in its worktree
    rc, o = sh("cargo build --workspace --offline", wt)
    meta["confirmed"]["builds"] = rc == 0
    rc, o = sh("cargo test --offline -p scad_tree -p scad_tree_math --lib 2>&1 | grep 'test result'", wt)
    meta["confirmed"]["suite"] = o.strip().splitlines()[:2]
    suite_ok = "138 passed; 0 failed" in o
    rc1, o1 = sh(demo_cmd, wt)
    meta["confirmed"]["demo_fails_with_change"] = rc1 != 0
    rcR, oR = sh(f"git apply -R --whitespace=nowarn {patch}", wt)
    rc2, o2 = sh(demo_cmd, wt)
    meta["confirmed"]["demo_passes_without_change"] = (rcR == 0 and rc2 == 0)
    sh(f"git apply --whitespace=nowarn {patch}", wt)
    ok = meta["confirmed"]["builds"] and suite_ok and rc1 != 0 and rcR == 0 and rc2 == 0
    meta["confirmed"]["all"] = ok
    print(pid, "claims confirmed:", ok, meta["confirmed"])
    # -- 2. run our checks against it
    rc, o = sh("git status --porcelain", "/repo")
    if o.strip():
        print("/repo is dirty, refusing"); return 2
    rc, o = sh(f"git apply --whitespace=nowarn {patch}", "/repo")
    if rc != 0:
        print("patch does not apply to /repo:", o[:500]); return 2
    results = {}
    try:
        for cid in [pid] + also:
            t0 = time.time()
            rc, o = sh(f"./check {cid} --tier quick", ROOT, timeout=3600)
            lines = [l for l in o.splitlines() if l.startswith(("VIOLATION", "OK ", "KNOWN-FINDING"))]
            detail = [l.strip() for l in o.splitlines() if "failing input" in l or "broken:" in l][:4]
            results[cid] = {"exit": rc, "verdict": lines[-1] if lines else o[-300:], "detail": detail,
                            "wall_s": round(time.time() - t0, 1)}
            meta["ran"].append(f"./check {cid} --tier quick  (patch applied to /repo)")
            print("  check", cid, "->", rc, (lines[-1] if lines else "")[:160])
            for d in detail[:2]:
                print("     ", d[:220])
    finally:
        sh("git checkout -- .", "/repo")
    meta["results"] = results
    meta["caught"] = results[pid]["exit"] == 1
    # -- 3. store
    dst = os.path.join(ROOT, "seeded", pid + suffix)
    os.makedirs(dst, exist_ok=True)
    shutil.copy(patch, dst)
    for f in os.listdir(out):
        if f not in ("patch.diff", "property.txt", "prompt.txt") and os.path.isfile(os.path.join(out, f)):
            shutil.copy(os.path.join(out, f), dst)
    notes = open(f"{out}/notes.md").read() if os.path.exists(f"{out}/notes.md") else ""
    meta["needs"] = notes[:1500]
    json.dump(meta, open(os.path.join(dst, "meta.json"), "w"), indent=1)
    return 0

if __name__ == "__main__":
    sys.exit(main())
