-- root of the library: every property module (and through them the model, specs and lemmas)
import ScadVerif.Props.C11
