-- root of the library: every property module (and through them the model, specs and lemmas)
import ScadVerif.Props.C01
import ScadVerif.Props.C02
import ScadVerif.Props.C09
import ScadVerif.Props.C10
import ScadVerif.Props.C11
import ScadVerif.Props.C12
import ScadVerif.Props.C03
import ScadVerif.Props.C07
import ScadVerif.Props.C08
import ScadVerif.Props.C04
import ScadVerif.Props.C05
import ScadVerif.Props.C14
import ScadVerif.Props.C16
import ScadVerif.Props.C15
import ScadVerif.Props.C17
import ScadVerif.Props.C19
import ScadVerif.Props.C18
