/-
Tie between the model's thread proportions and lead-in/lead-out interpolation (Model/Thread.lean) and
the transcription of `thread_height_from_pitch`, `d_min_from_d_maj_pitch` and the private `lerp` of
metric_thread.rs (`Gen/SrcMetricThread.lean`, regenerated on every run).  Obligations of C16.
The table is regenerated separately (Gen/ThreadTable.lean); the mesh builder and the part builders are
hand-modelled and tied by correspondence.
-/
import ScadVerif.Gen.SrcMetricThread
import ScadVerif.Model.Thread
set_option linter.unusedSectionVars false
namespace ScadVerif.TieThread
open ScadVerif

variable {α : Type} [Add α] [Sub α] [Mul α] [Div α] [Neg α] [OfNat α 0] [OfNat α 1]
  [OfNatCast α] [Trig α] [HasSqrt α] [HasAbs α] [Cmp α]
  [HasTrunc α]

theorem lerp (s e : Pt3 α) (n step : Nat) : Src.metric_thread.lerp s e n step = Thread.lerpSteps s e n step := rfl
theorem thread_height_from_pitch (pitch : α) :
    Src.metric_thread.thread_height_from_pitch pitch = Thread.threadHeight pitch := rfl
theorem d_min_from_d_maj_pitch (dMaj pitch : α) :
    Src.metric_thread.d_min_from_d_maj_pitch dMaj pitch = Thread.dMin dMaj pitch := rfl

end ScadVerif.TieThread
