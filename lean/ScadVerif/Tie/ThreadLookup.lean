/-
Tie between the model's table lookup (Model/Thread.lean: `lookup`, `lookupFrom`, a structural recursion
counting down to the next listed size) and the transcription of `m_table_lookup` from metric_thread.rs
(`Gen/SrcThreadLookup.lean`, regenerated on every run: the clamp to 2, the `loop { if contains_key { break }
m -= 1 }` as a bounded iteration, the final `table[&m]`).  Obligation of C16.  The table itself is
regenerated separately (Gen/ThreadTable.lean); that it has a row for M2 — so that the walk ends — is
decided over the regenerated table.
-/
import ScadVerif.Gen.SrcThreadLookup
import ScadVerif.Model.Thread
namespace ScadVerif.TieThreadLookup
open ScadVerif ScadVerif.Thread

theorem row2 : (findRow 2).isSome = true := by decide +kernel

/-- the walk from size `n ≥ 2`: enough fuel is `n − 1` -/
theorem walk : ∀ (fuel n : Nat), 2 ≤ n → n ≤ fuel + 1 →
    (Src.whileFuel (fun (_ : Int) => true)
      (fun (m : Int) => if Option.isSome (findRow (Int.toNat m)) then (m, true) else (m - 1, false))
      fuel (n : Int)).bind (fun m => findRow (Int.toNat m)) = lookupFrom n := by
  intro fuel
  induction fuel with
  | zero => intro n h2 hle; omega
  | succ f ih =>
    intro n h2 hle
    obtain ⟨k, rfl⟩ : ∃ k, n = k + 1 := ⟨n - 1, by omega⟩
    rw [Src.whileFuel, lookupFrom]
    simp only [if_true, Int.toNat_natCast]
    by_cases hs : (findRow (k + 1)).isSome = true
    · obtain ⟨r, hr⟩ := Option.isSome_iff_exists.mp hs
      simp only [hr, Option.isSome_some, if_true, Option.bind_some, Int.toNat_natCast]
    · have hr : findRow (k + 1) = none := by
        cases h : findRow (k + 1) with
        | none => rfl
        | some r => rw [h] at hs; exact absurd rfl hs
      have hk : 2 ≤ k := by
        rcases Nat.lt_or_ge k 2 with hlt | hge
        · have h21 : k + 1 = 2 := by omega
          rw [h21] at hr
          have h2' := row2
          rw [hr] at h2'
          exact absurd h2' (by decide)
        · exact hge
      simp only [hr, Option.isSome_none, Bool.false_eq_true, if_false]
      have hc : ((k + 1 : Nat) : Int) - 1 = (k : Int) := by omega
      rw [hc]
      exact ih k hk (by omega)

theorem m_table_lookup (m : Int) : Src.metric_thread.m_table_lookup m = Thread.lookup m := by
  unfold Src.metric_thread.m_table_lookup Thread.lookup
  simp only
  by_cases h : m < 2
  · simp only [h, decide_true, if_true]
    exact walk 2 2 (by omega) (by omega)
  · simp only [h, decide_false, Bool.false_eq_true, if_false]
    obtain ⟨n, rfl⟩ : ∃ n : Nat, m = n := ⟨m.toNat, by omega⟩
    simp only [Int.toNat_natCast]
    exact walk n n (by omega) (by omega)

end ScadVerif.TieThreadLookup
