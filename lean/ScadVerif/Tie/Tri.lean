/-
Tie between the model's two predicates of the ear-clipping loop (Model/Tri.lean `isCcw`, `inTriangle`)
and the transcription of `is_ccw` / `in_triangle` from triangulate.rs (`Gen/SrcTriangulate.lean`,
regenerated on every run).  Obligations of C03 (and of C04, C05, whose caps come from the same loop).
The loop itself (`triangulate`, the 2D/3D entry points) is hand-modelled and tied by correspondence.
-/
import ScadVerif.Gen.SrcTriangulate
import ScadVerif.Model.Tri
set_option linter.unusedSectionVars false
namespace ScadVerif.TieTri
open ScadVerif

variable {α : Type} [Add α] [Sub α] [Mul α] [Div α] [Neg α] [OfNat α 0] [OfNat α 1]
  [OfNatCast α] [Trig α] [HasSqrt α] [HasAbs α] [Cmp α]

theorem is_ccw (a b c : Nat × Pt2 α) : Src.triangulate.is_ccw [a, b, c] = Tri.isCcw a.2 b.2 c.2 := rfl
theorem in_triangle (p a b c : Nat × Pt2 α) :
    Src.triangulate.in_triangle p a b c = Tri.inTriangle p.2 a.2 b.2 c.2 := rfl

end ScadVerif.TieTri
