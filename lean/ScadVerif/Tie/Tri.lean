/-
Tie between the model's two predicates of the ear-clipping loop (Model/Tri.lean `isCcw`, `inTriangle`)
and the transcription of `is_ccw` / `in_triangle` from triangulate.rs (`Gen/SrcTriangulate.lean`,
regenerated on every run).  Obligations of C03 (and of C04, C05, whose caps come from the same loop).
The 2D entry points are transcribed as well (the loop `triangulate` named directly); the loop itself and
the 3D entry points are hand-modelled and tied by correspondence.
-/
import ScadVerif.Gen.SrcTriangulate
import ScadVerif.Model.Tri
set_option linter.unusedSectionVars false
namespace ScadVerif.TieTri
open ScadVerif

variable {α : Type} [Add α] [Sub α] [Mul α] [Div α] [Neg α] [OfNat α 0] [OfNat α 1]
  [OfNatCast α] [Trig α] [HasSqrt α] [HasAbs α] [Cmp α]

theorem is_ccw (a b c : Nat × Pt2 α) : Src.triangulate.is_ccw [a, b, c] = Tri.isCcw a.2 b.2 c.2 := rfl
theorem in_triangle (p a b c : Nat × Pt2 α) :
    Src.triangulate.in_triangle p a b c = Tri.inTriangle p.2 a.2 b.2 c.2 := rfl

/-! ### the 2D entry points: `assert!(n > 3)`, index the vertices, (reverse,) run the loop -/
theorem zip_map_eta {β γ : Type} (l : List (β × γ)) : l.map (fun iv => (iv.1, iv.2)) = l := by
  induction l with
  | nil => rfl
  | cons a t ih => simp
theorem triangulate2d (vs : List (Pt2 α)) : Src.triangulate.triangulate2d vs = Tri.triangulate2d vs := by
  unfold Src.triangulate.triangulate2d Tri.triangulate2d Tri.indexed
  by_cases h : 3 < vs.length <;> simp [h, zip_map_eta]
theorem triangulate2d_rev (vs : List (Pt2 α)) :
    Src.triangulate.triangulate2d_rev vs = Tri.triangulate2dRev vs := by
  unfold Src.triangulate.triangulate2d_rev Tri.triangulate2dRev Tri.indexed
  by_cases h : 3 < vs.length <;> simp [h, zip_map_eta]

end ScadVerif.TieTri
