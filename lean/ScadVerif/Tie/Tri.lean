/-
Tie between the model's two predicates of the ear-clipping loop (Model/Tri.lean `isCcw`, `inTriangle`)
and the transcription of `is_ccw` / `in_triangle` from triangulate.rs (`Gen/SrcTriangulate.lean`,
regenerated on every run).  Obligations of C03 (and of C04, C05, whose caps come from the same loop).
The 2D and 3D entry points are transcribed as well (the private loop `triangulate` named directly, with
its own index panics explicit: `Tri.triangulateChecked`); the loop itself is hand-modelled and tied by
correspondence.
-/
import Mathlib.Tactic.SplitIfs
import ScadVerif.Gen.SrcTriangulate
import ScadVerif.Model.Tri
set_option linter.unusedSectionVars false
namespace ScadVerif.TieTri
open ScadVerif

variable {α : Type} [Add α] [Sub α] [Mul α] [Div α] [Neg α] [OfNat α 0] [OfNat α 1]
  [OfNatCast α] [Trig α] [HasSqrt α] [HasAbs α] [Cmp α]

theorem is_ccw (a b c : Nat × Pt2 α) : Src.triangulate.is_ccw [a, b, c] = Tri.isCcw a.2 b.2 c.2 := rfl
theorem in_triangle (p a b c : Nat × Pt2 α) :
    Src.triangulate.in_triangle p a b c = Tri.inTriangle p.2 a.2 b.2 c.2 := rfl

/-! ### the 2D entry points: `assert!(n > 3)`, index the vertices, (reverse,) run the loop -/
theorem zip_map_eta {β γ : Type} (l : List (β × γ)) : l.map (fun iv => (iv.1, iv.2)) = l := by
  induction l with
  | nil => rfl
  | cons a t ih => simp
theorem checked_of_length (poly : Tri.Poly α) (h : 2 ≤ poly.length) :
    Tri.triangulateChecked poly = some (Tri.triangulate poly) := by
  unfold Tri.triangulateChecked
  rw [if_neg (by omega)]
theorem indexed_eq (vs : List (Pt2 α)) :
    ([] : Tri.Poly α) ++ List.map (fun (iv : Nat × Pt2 α) => (iv.1, iv.2)) (List.zip (List.range vs.length) vs)
      = Tri.indexed vs := by
  simp [Tri.indexed, zip_map_eta]
theorem indexed_length (vs : List (Pt2 α)) : (Tri.indexed vs).length = vs.length := by simp [Tri.indexed]

theorem triangulate2d (vs : List (Pt2 α)) : Src.triangulate.triangulate2d vs = Tri.triangulate2d vs := by
  unfold Src.triangulate.triangulate2d Tri.triangulate2d
  by_cases h : 3 < vs.length
  · simp only [h, decide_true, Bool.not_true, Bool.false_eq_true, if_false, if_true, gt_iff_lt]
    show Tri.triangulateChecked (([] : Tri.Poly α) ++ _) = _
    rw [indexed_eq, checked_of_length _ (by rw [indexed_length]; omega)]
  · simp [h]
theorem triangulate2d_rev (vs : List (Pt2 α)) :
    Src.triangulate.triangulate2d_rev vs = Tri.triangulate2dRev vs := by
  unfold Src.triangulate.triangulate2d_rev Tri.triangulate2dRev
  by_cases h : 3 < vs.length
  · simp only [h, decide_true, Bool.not_true, Bool.false_eq_true, if_false, if_true, gt_iff_lt]
    show Tri.triangulateChecked (List.reverse (([] : Tri.Poly α) ++ _)) = _
    rw [indexed_eq, checked_of_length _ (by rw [List.length_reverse, indexed_length]; omega)]
  · simp [h]

/-! ### the 3D entry points: classify the normal by its dominant axis, project, run the loop -/
theorem indexed3_eq (vs : List (Pt3 α)) (f : Pt3 α → Pt2 α) :
    ([] : Tri.Poly α) ++ List.map (fun (iv : Nat × Pt3 α) => (iv.1, f iv.2)) (List.zip (List.range vs.length) vs)
      = Tri.indexed (vs.map f) := by
  simp only [Tri.indexed, List.nil_append, List.length_map]
  rw [List.zip_map_right]
  rfl

theorem proj_case (vs : List (Pt3 α)) (f : Pt3 α → Pt2 α) (h : 3 < vs.length) :
    Tri.triangulateChecked (([] : Tri.Poly α) ++
        List.map (fun (iv : Nat × Pt3 α) => (iv.1, f iv.2)) (List.zip (List.range vs.length) vs))
      = some (Tri.triangulate (Tri.indexed (vs.map f))) := by
  rw [indexed3_eq, checked_of_length _ (by rw [indexed_length, List.length_map]; omega)]
theorem proj_case_rev (vs : List (Pt3 α)) (f : Pt3 α → Pt2 α) (h : 3 < vs.length) :
    Tri.triangulateChecked (List.reverse (([] : Tri.Poly α) ++
        List.map (fun (iv : Nat × Pt3 α) => (iv.1, f iv.2)) (List.zip (List.range vs.length) vs)))
      = some (Tri.triangulate (Tri.indexed (vs.map f)).reverse) := by
  rw [indexed3_eq, checked_of_length _ (by rw [List.length_reverse, indexed_length, List.length_map]; omega)]

theorem triangulate3d (vs : List (Pt3 α)) (nml : Pt3 α) :
    Src.triangulate.triangulate3d vs nml = Tri.triangulate3d vs nml := by
  unfold Src.triangulate.triangulate3d Tri.triangulate3d Tri.classify
  by_cases h : 3 < vs.length
  · simp only [h, decide_true, Bool.not_true, Bool.false_eq_true, if_false, if_true]
    cases (Cmp.leb (HasAbs.abs nml.y) (HasAbs.abs nml.x) && Cmp.leb (HasAbs.abs nml.z) (HasAbs.abs nml.x))
    · cases (Cmp.leb (HasAbs.abs nml.x) (HasAbs.abs nml.y) && Cmp.leb (HasAbs.abs nml.z) (HasAbs.abs nml.y))
      · cases (Cmp.leb (HasAbs.abs nml.x) (HasAbs.abs nml.z) && Cmp.leb (HasAbs.abs nml.y) (HasAbs.abs nml.z))
        · rfl
        · cases (Cmp.leb 0 nml.z)
          · simp only [Nat.reduceEqDiff, decide_true, decide_false, if_true, if_false, Bool.false_eq_true]; exact proj_case vs (fun v => ⟨-v.x, v.y⟩) h
          · simp only [Nat.reduceEqDiff, decide_true, decide_false, if_true, if_false, Bool.false_eq_true]; exact proj_case vs (fun v => ⟨v.x, v.y⟩) h
      · cases (Cmp.leb 0 nml.y)
        · simp only [Nat.reduceEqDiff, decide_true, decide_false, if_true, if_false, Bool.false_eq_true]; exact proj_case vs (fun v => ⟨v.x, v.z⟩) h
        · simp only [Nat.reduceEqDiff, decide_true, decide_false, if_true, if_false, Bool.false_eq_true]; exact proj_case vs (fun v => ⟨-v.x, v.z⟩) h
    · cases (Cmp.leb 0 nml.x)
      · simp only [Nat.reduceEqDiff, decide_true, decide_false, if_true, if_false, Bool.false_eq_true]; exact proj_case vs (fun v => ⟨-v.y, v.z⟩) h
      · simp only [Nat.reduceEqDiff, decide_true, decide_false, if_true, if_false, Bool.false_eq_true]; exact proj_case vs (fun v => ⟨v.y, v.z⟩) h
  · simp [h]

theorem triangulate3d_rev (vs : List (Pt3 α)) (nml : Pt3 α) :
    Src.triangulate.triangulate3d_rev vs nml = Tri.triangulate3dRev vs nml := by
  unfold Src.triangulate.triangulate3d_rev Tri.triangulate3dRev Tri.classify
  by_cases h : 3 < vs.length
  · simp only [h, decide_true, Bool.not_true, Bool.false_eq_true, if_false, if_true]
    cases (Cmp.leb (HasAbs.abs nml.y) (HasAbs.abs nml.x) && Cmp.leb (HasAbs.abs nml.z) (HasAbs.abs nml.x))
    · cases (Cmp.leb (HasAbs.abs nml.x) (HasAbs.abs nml.y) && Cmp.leb (HasAbs.abs nml.z) (HasAbs.abs nml.y))
      · cases (Cmp.leb (HasAbs.abs nml.x) (HasAbs.abs nml.z) && Cmp.leb (HasAbs.abs nml.y) (HasAbs.abs nml.z))
        · rfl
        · cases (Cmp.leb 0 nml.z)
          · simp only [Nat.reduceEqDiff, decide_true, decide_false, if_true, if_false, Bool.false_eq_true]; exact proj_case_rev vs (fun v => ⟨-v.x, v.y⟩) h
          · simp only [Nat.reduceEqDiff, decide_true, decide_false, if_true, if_false, Bool.false_eq_true]; exact proj_case_rev vs (fun v => ⟨v.x, v.y⟩) h
      · cases (Cmp.leb 0 nml.y)
        · simp only [Nat.reduceEqDiff, decide_true, decide_false, if_true, if_false, Bool.false_eq_true]; exact proj_case_rev vs (fun v => ⟨v.x, v.z⟩) h
        · simp only [Nat.reduceEqDiff, decide_true, decide_false, if_true, if_false, Bool.false_eq_true]; exact proj_case_rev vs (fun v => ⟨-v.x, v.z⟩) h
    · cases (Cmp.leb 0 nml.x)
      · simp only [Nat.reduceEqDiff, decide_true, decide_false, if_true, if_false, Bool.false_eq_true]; exact proj_case_rev vs (fun v => ⟨-v.y, v.z⟩) h
      · simp only [Nat.reduceEqDiff, decide_true, decide_false, if_true, if_false, Bool.false_eq_true]; exact proj_case_rev vs (fun v => ⟨v.y, v.z⟩) h
  · simp [h]

end ScadVerif.TieTri
