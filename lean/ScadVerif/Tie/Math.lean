/-
Tie between the hand-written model and the source of scad_tree_math.

`Gen/MathSrc.lean` is regenerated from pt2.rs, pt3.rs, pt4.rs, mt4.rs and lib.rs on every run
(translator/gen_mathsrc.py), one Lean definition per Rust function.  Every theorem below states
that such a transcription *is* the model's definition, for every argument and every scalar type.
The property theorems (Props/C05, C09, C10, C11, C12) are about the model's definitions; through
these equalities they are about the transcribed source.  A change to the Rust that alters what a
function computes changes the generated definition and the corresponding theorem here stops
checking.

Proof method: `rfl` (the two sides unfold to the same term), otherwise structure extensionality
and `rfl` per component.  Nothing here uses any algebraic law of the scalar type: the equalities
hold for `Float` as well as for `ℝ`.
-/
import ScadVerif.Gen.MathSrc
set_option linter.unusedSectionVars false
namespace ScadVerif.Tie
open ScadVerif

variable {α : Type} [Add α] [Sub α] [Mul α] [Div α] [Neg α] [OfNat α 0] [OfNat α 1]
  [OfNatCast α] [Trig α] [HasSqrt α] [HasAbs α] [Cmp α]

/-! ### lib.rs -/
theorem dsin (d : α) : Src.dsin d = ScadVerif.dsin d := rfl
theorem dcos (d : α) : Src.dcos d = ScadVerif.dcos d := rfl
theorem dtan (d : α) : Src.dtan d = ScadVerif.dtan d := rfl
theorem dasin (x : α) : Src.dasin x = ScadVerif.dasin x := rfl
theorem dacos (x : α) : Src.dacos x = ScadVerif.dacos x := rfl
theorem datan (x : α) : Src.datan x = ScadVerif.datan x := rfl
theorem approx_eq (a b e : α) : Src.approx_eq a b e = approxEq a b e := rfl

/-! ### pt2.rs -/
theorem Pt2_new (x y : α) : Src.Pt2.new x y = ⟨x, y⟩ := rfl
theorem Pt2_add (a b : Pt2 α) : Src.Pt2.add a b = a + b := rfl
theorem Pt2_sub (a b : Pt2 α) : Src.Pt2.sub a b = a - b := rfl
theorem Pt2_mul (a : Pt2 α) (k : α) : Src.Pt2.mul_f64 a k = a * k := rfl
theorem Pt2_div (a : Pt2 α) (k : α) : Src.Pt2.div_f64 a k = a / k := rfl
theorem Pt2_neg (a : Pt2 α) : Src.Pt2.neg a = -a := rfl
theorem Pt2_add_assign (a b : Pt2 α) : Src.Pt2.add_assign a b = a + b := rfl
theorem Pt2_sub_assign (a b : Pt2 α) : Src.Pt2.sub_assign a b = a - b := rfl
theorem Pt2_mul_assign (a : Pt2 α) (k : α) : Src.Pt2.mul_assign_f64 a k = a * k := rfl
theorem Pt2_div_assign (a : Pt2 α) (k : α) : Src.Pt2.div_assign_f64 a k = a / k := rfl
theorem Pt2_index (a : Pt2 α) (i : Nat) : Src.Pt2.index a i = Pt2.get? a i := by
  rcases i with _|_|i <;> rfl
theorem Pt2_index_set (a : Pt2 α) (i : Nat) (v : α) : Src.Pt2.index_set a i v = Pt2.set? a i v := by
  rcases i with _|_|i <;> rfl
theorem Pt2_dot (a b : Pt2 α) : Src.Pt2.dot a b = Pt2.dot a b := rfl
theorem Pt2_len2 (a : Pt2 α) : Src.Pt2.len2 a = Pt2.len2 a := rfl
theorem Pt2_len (a : Pt2 α) : Src.Pt2.len a = Pt2.len a := rfl
theorem Pt2_normalize (a : Pt2 α) : Src.Pt2.normalize a = Pt2.normalize a := rfl
theorem Pt2_normalized (a : Pt2 α) : Src.Pt2.normalized a = Pt2.normalized a := rfl
theorem Pt2_rotated (a : Pt2 α) (d : α) : Src.Pt2.rotated a d = Pt2.rotated a d := rfl
theorem Pt2_rotate (a : Pt2 α) (d : α) : Src.Pt2.rotate a d = Pt2.rotated a d := rfl
theorem Pt2_lerp (a b : Pt2 α) (t : α) : Src.Pt2.lerp a b t = Pt2.lerp a b t := rfl
theorem Pt2_to_xz (a : Pt2 α) : Src.Pt2.to_xz a = Pt2.toXz a := rfl
theorem Pt2_as_pt3 (a : Pt2 α) (z : α) : Src.Pt2.as_pt3 a z = Pt2.asPt3 a z := rfl
theorem Pt2s_translate (ps : List (Pt2 α)) (d : Pt2 α) : Src.Pt2s.translate ps d = Pt2s.translate ps d := rfl
theorem Pt2s_rotate (ps : List (Pt2 α)) (d : α) : Src.Pt2s.rotate ps d = Pt2s.rotate ps d := rfl

/-! ### pt3.rs -/
theorem Pt3_new (x y z : α) : Src.Pt3.new x y z = ⟨x, y, z⟩ := rfl
theorem Pt3_add (a b : Pt3 α) : Src.Pt3.add a b = a + b := rfl
theorem Pt3_sub (a b : Pt3 α) : Src.Pt3.sub a b = a - b := rfl
theorem Pt3_mul (a : Pt3 α) (k : α) : Src.Pt3.mul_f64 a k = a * k := rfl
theorem Pt3_div (a : Pt3 α) (k : α) : Src.Pt3.div_f64 a k = a / k := rfl
theorem Pt3_neg (a : Pt3 α) : Src.Pt3.neg a = -a := rfl
theorem Pt3_add_assign (a b : Pt3 α) : Src.Pt3.add_assign a b = a + b := rfl
theorem Pt3_sub_assign (a b : Pt3 α) : Src.Pt3.sub_assign a b = a - b := rfl
theorem Pt3_mul_assign (a : Pt3 α) (k : α) : Src.Pt3.mul_assign_f64 a k = a * k := rfl
theorem Pt3_div_assign (a : Pt3 α) (k : α) : Src.Pt3.div_assign_f64 a k = a / k := rfl
theorem Pt3_index (a : Pt3 α) (i : Nat) : Src.Pt3.index a i = Pt3.get? a i := by
  rcases i with _|_|_|i <;> rfl
theorem Pt3_index_set (a : Pt3 α) (i : Nat) (v : α) : Src.Pt3.index_set a i v = Pt3.set? a i v := by
  rcases i with _|_|_|i <;> rfl
theorem Pt3_dot (a b : Pt3 α) : Src.Pt3.dot a b = Pt3.dot a b := rfl
theorem Pt3_cross (a b : Pt3 α) : Src.Pt3.cross a b = Pt3.cross a b := rfl
theorem Pt3_len2 (a : Pt3 α) : Src.Pt3.len2 a = Pt3.len2 a := rfl
theorem Pt3_len (a : Pt3 α) : Src.Pt3.len a = Pt3.len a := rfl
theorem Pt3_normalize (a : Pt3 α) : Src.Pt3.normalize a = Pt3.normalize a := rfl
theorem Pt3_normalized (a : Pt3 α) : Src.Pt3.normalized a = Pt3.normalized a := rfl
theorem Pt3_rotated_x (a : Pt3 α) (d : α) : Src.Pt3.rotated_x a d = Pt3.rotatedX a d := rfl
theorem Pt3_rotated_y (a : Pt3 α) (d : α) : Src.Pt3.rotated_y a d = Pt3.rotatedY a d := rfl
theorem Pt3_rotated_z (a : Pt3 α) (d : α) : Src.Pt3.rotated_z a d = Pt3.rotatedZ a d := rfl
theorem Pt3_rotate_x (a : Pt3 α) (d : α) : Src.Pt3.rotate_x a d = Pt3.rotatedX a d := rfl
theorem Pt3_rotate_y (a : Pt3 α) (d : α) : Src.Pt3.rotate_y a d = Pt3.rotatedY a d := rfl
theorem Pt3_rotate_z (a : Pt3 α) (d : α) : Src.Pt3.rotate_z a d = Pt3.rotatedZ a d := rfl
theorem Pt3_lerp (a b : Pt3 α) (t : α) : Src.Pt3.lerp a b t = Pt3.lerp a b t := rfl
theorem Pt3_as_pt4 (a : Pt3 α) (w : α) : Src.Pt3.as_pt4 a w = Pt3.asPt4 a w := rfl
theorem Pt3s_from_pt2s (ps : List (Pt2 α)) (z : α) : Src.Pt3s.from_pt2s ps z = Pt3s.fromPt2s ps z := by
  simp only [Src.Pt3s.from_pt2s, Pt3s.fromPt2s, List.nil_append]; rfl
theorem Pt3s_translate (ps : List (Pt3 α)) (d : Pt3 α) : Src.Pt3s.translate ps d = Pt3s.translate ps d := rfl
theorem Pt3s_rotate_x (ps : List (Pt3 α)) (d : α) : Src.Pt3s.rotate_x ps d = Pt3s.rotateX ps d := rfl
theorem Pt3s_rotate_y (ps : List (Pt3 α)) (d : α) : Src.Pt3s.rotate_y ps d = Pt3s.rotateY ps d := rfl
theorem Pt3s_rotate_z (ps : List (Pt3 α)) (d : α) : Src.Pt3s.rotate_z ps d = Pt3s.rotateZ ps d := rfl
theorem Pt3s_apply_matrix (ps : List (Pt3 α)) (m : Mt4 α) : Src.Pt3s.apply_matrix ps m = Mt4.applyMatrix ps m := rfl

/-! ### pt4.rs -/
theorem Pt4_new (x y z w : α) : Src.Pt4.new x y z w = ⟨x, y, z, w⟩ := rfl
theorem Pt4_add (a b : Pt4 α) : Src.Pt4.add a b = a + b := rfl
theorem Pt4_sub (a b : Pt4 α) : Src.Pt4.sub a b = a - b := rfl
theorem Pt4_mul (a : Pt4 α) (k : α) : Src.Pt4.mul_f64 a k = a * k := rfl
theorem Pt4_div (a : Pt4 α) (k : α) : Src.Pt4.div_f64 a k = a / k := rfl
theorem Pt4_neg (a : Pt4 α) : Src.Pt4.neg a = -a := rfl
theorem Pt4_add_assign (a b : Pt4 α) : Src.Pt4.add_assign a b = a + b := rfl
theorem Pt4_sub_assign (a b : Pt4 α) : Src.Pt4.sub_assign a b = a - b := rfl
theorem Pt4_mul_assign (a : Pt4 α) (k : α) : Src.Pt4.mul_assign_f64 a k = a * k := rfl
theorem Pt4_div_assign (a : Pt4 α) (k : α) : Src.Pt4.div_assign_f64 a k = a / k := rfl
theorem Pt4_index (a : Pt4 α) (i : Nat) : Src.Pt4.index a i = Pt4.get? a i := by
  rcases i with _|_|_|_|i <;> rfl
theorem Pt4_index_set (a : Pt4 α) (i : Nat) (v : α) : Src.Pt4.index_set a i v = Pt4.set? a i v := by
  rcases i with _|_|_|_|i <;> rfl
theorem Pt4_dot (a b : Pt4 α) : Src.Pt4.dot a b = Pt4.dot a b := rfl
theorem Pt4_cross (a b : Pt4 α) : Src.Pt4.cross a b = Pt4.cross a b := rfl
theorem Pt4_len2 (a : Pt4 α) : Src.Pt4.len2 a = Pt4.len2 a := rfl
theorem Pt4_len (a : Pt4 α) : Src.Pt4.len a = Pt4.len a := rfl
theorem Pt4_normalize (a : Pt4 α) : Src.Pt4.normalize a = Pt4.normalize a := rfl
theorem Pt4_normalized (a : Pt4 α) : Src.Pt4.normalized a = Pt4.normalized a := rfl
theorem Pt4_lerp (a b : Pt4 α) (t : α) : Src.Pt4.lerp a b t = Pt4.lerp a b t := rfl
theorem Pt4_as_pt3 (a : Pt4 α) : Src.Pt4.as_pt3 a = Pt4.asPt3 a := rfl

/-! ### mt4.rs -/
theorem dot4 (a b : Pt4 α) : Src.dot4 a b = Pt4.dot4 a b := rfl
theorem Mt4_new (x y z w : Pt4 α) : Src.Mt4.new x y z w = ⟨x, y, z, w⟩ := rfl
theorem Mt4_transposed (m : Mt4 α) : Src.Mt4.transposed m = Mt4.transposed m := rfl
theorem Mt4_identity : (Src.Mt4.identity : Mt4 α) = Mt4.identity := rfl
theorem Mt4_scale_matrix (x y z : α) : Src.Mt4.scale_matrix x y z = Mt4.scaleMatrix x y z := rfl
theorem Mt4_translate_matrix (x y z : α) : Src.Mt4.translate_matrix x y z = Mt4.translateMatrix x y z := rfl
theorem Mt4_rot_x_matrix (d : α) : Src.Mt4.rot_x_matrix d = Mt4.rotXMatrix d := rfl
theorem Mt4_rot_y_matrix (d : α) : Src.Mt4.rot_y_matrix d = Mt4.rotYMatrix d := rfl
theorem Mt4_rot_z_matrix (d : α) : Src.Mt4.rot_z_matrix d = Mt4.rotZMatrix d := rfl
theorem Mt4_rot_vec (x y z d : α) : Src.Mt4.rot_vec x y z d = Mt4.rotVec x y z d := rfl
theorem Mt4_mul_Pt4 (m : Mt4 α) (p : Pt4 α) : Src.Mt4.mul_Pt4 m p = m * p := rfl
theorem Mt4_mul_Pt3 (m : Mt4 α) (p : Pt3 α) : Src.Mt4.mul_Pt3 m p = Mt4.mulPt3 m p := rfl
theorem Mt4_mul_Mt4 (a b : Mt4 α) : Src.Mt4.mul_Mt4 a b = a * b := rfl
theorem Mt4_look_at_matrix_lh (eye center up : Pt3 α) :
    Src.Mt4.look_at_matrix_lh eye center up = Mt4.lookAtLh eye center up := rfl
theorem Mt4_index (m : Mt4 α) (i : Nat) : Src.Mt4.index m i = Mt4.get? m i := by
  rcases i with _|_|_|_|_|_|_|_|_|_|_|_|_|_|_|_|i <;> first | rfl | (simp [Src.Mt4.index, Mt4.get?])
theorem Mt4_index_set (m : Mt4 α) (i : Nat) (v : α) : Src.Mt4.index_set m i v = Mt4.set? m i v := by
  rcases i with _|_|_|_|_|_|_|_|_|_|_|_|_|_|_|_|i <;> first | rfl | (simp [Src.Mt4.index_set, Mt4.set?])

end ScadVerif.Tie
