/-
What each documented macro form means as an OpenSCAD call (DESIGN §5/C06), transcribed by hand
from the OpenSCAD manual and the macro documentation:

* a named slot `name=$x` is OpenSCAD's parameter `name` (`d` a diameter, stored as half;
  `r`/`r1`/`r2`/`h`/`center`/`$fa`…), a positional slot is the parameter its documented name says,
  and positional slots keep OpenSCAD's relative order;
* a single size applies to every axis, a single radius/diameter to both ends of a cylinder;
* omitted parameters take OpenSCAD's defaults: convexity 1, size 10, font "Liberation Sans",
  halign left, valign baseline, spacing 1, direction ltr, language "en", script "latin",
  center/cut/invert/chamfer/auto false, twist 0, scale 1, angle 360, `$fa/$fs/$fn`/slices/paths/alpha unset.

`expectedFields a` is the field-by-field expression the arm must build; `ArmOK` compares.
-/
import ScadVerif.Model.Macro
namespace ScadVerif.Spec.MacroMeaning
open ScadVerif ScadVerif.Macro

def has (a : Arm) (n : List Char) : Option Nat := a.mvNames.idxOf? n
def optMv (a : Arm) (n : List Char) : Tmpl := match has a n with | some i => .some_ (.mv i) | none => .none_
def dflt (a : Arm) (n : List Char) (d : Tmpl) : Tmpl := match has a n with | some i => .mv i | none => d
def strOr (a : Arm) (n : List Char) (d : List Char) : Tmpl :=
  match has a n with | some i => .toStr (.mv i) | none => .strLit d
def xyz (a : Arm) : Option Tmpl := do
  pure (.pt [.mv (← has a c!"x"), .mv (← has a c!"y"), .mv (← has a c!"z")])
def num (n d : Nat) : Tmpl := .numLit n d
def radiusOf (a : Arm) (r d : List Char) : Option Tmpl :=
  match has a r, has a d with
  | some i, none => some (.mv i)
  | none, some j => some (.half (.mv j))
  | _, _ => none

-- replace let-bound locals by the metavariable they hold
mutual
def norm (lets : List Nat) : Tmpl → Tmpl
  | .loc k => .mv (lets.getD k 0)
  | .some_ t => .some_ (norm lets t)
  | .pt ts => .pt (normList lets ts)
  | .tuple ts => .tuple (normList lets ts)
  | .half t => .half (norm lets t)
  | .toStr t => .toStr (norm lets t)
  | .field t f => .field (norm lets t) f
  | t => t
def normList (lets : List Nat) : List Tmpl → List Tmpl
  | [] => []
  | t :: ts => norm lets t :: normList lets ts
end

def expectedFields (a : Arm) : Option (List (List Char × Tmpl)) :=
  let m := a.macroName
  let fa := optMv a c!"fa"; let fs := optMv a c!"fs"; let fn := optMv a c!"fn"
  let cv := dflt a c!"convexity" (.natLit 1)
  if m = c!"union" ∨ m = c!"difference" ∨ m = c!"intersection" ∨ m = c!"hull" then some []
  else if m = c!"circle" ∨ m = c!"sphere" then do
    pure [(c!"radius", ← radiusOf a c!"r" c!"dia"), (c!"fa", fa), (c!"fs", fs), (c!"fn_", fn)]
  else if m = c!"square" then do
    let size ← match has a c!"size", has a c!"x", has a c!"y" with
      | some i, none, none => some (Tmpl.pt [.mv i, .mv i])
      | none, some x, some y => some (Tmpl.pt [.mv x, .mv y])
      | _, _, _ => none
    pure [(c!"size", size), (c!"center", dflt a c!"center" (.boolLit false))]
  else if m = c!"cube" then do
    let size ← match has a c!"size" with
      | some i => some (Tmpl.pt [.mv i, .mv i, .mv i])
      | none => xyz a
    pure [(c!"size", size), (c!"center", dflt a c!"center" (.boolLit false))]
  else if m = c!"polygon" then do
    pure [(c!"points", .mv (← has a c!"points")), (c!"paths", optMv a c!"paths"), (c!"convexity", cv)]
  else if m = c!"polyhedron" then do
    pure [(c!"points", .mv (← has a c!"points")), (c!"faces", .mv (← has a c!"faces")), (c!"convexity", cv)]
  else if m = c!"text" then
    match has a c!"params" with
    | some p =>
      some ([c!"text", c!"size", c!"font", c!"halign", c!"valign", c!"spacing", c!"direction", c!"language",
        c!"script", c!"fn_"].map fun f => (f, Tmpl.field (.mv p) f))
    | none => do
      pure [(c!"text", .toStr (.mv (← has a c!"text"))), (c!"size", dflt a c!"size" (num 100 1)),
        (c!"font", strOr a c!"font" c!"Liberation Sans"), (c!"halign", dflt a c!"halign" (.enumLit c!"left")),
        (c!"valign", dflt a c!"valign" (.enumLit c!"baseline")), (c!"spacing", dflt a c!"spacing" (num 10 1)),
        (c!"direction", dflt a c!"direction" (.enumLit c!"ltr")), (c!"language", strOr a c!"language" c!"en"),
        (c!"script", strOr a c!"script" c!"latin"), (c!"fn_", fn)]
  else if m = c!"import" then do
    pure [(c!"file", .toStr (.mv (← has a c!"file"))), (c!"convexity", cv)]
  else if m = c!"projection" then some [(c!"cut", dflt a c!"cut" (.boolLit false))]
  else if m = c!"cylinder" then do
    let r1 ← match has a c!"radius1", has a c!"diameter1", has a c!"radius", has a c!"diameter" with
      | some i, none, none, none => some (Tmpl.mv i)
      | none, some i, none, none => some (Tmpl.half (.mv i))
      | none, none, some i, none => some (Tmpl.mv i)
      | none, none, none, some i => some (Tmpl.half (.mv i))
      | _, _, _, _ => none
    let r2 ← match has a c!"radius2", has a c!"diameter2", has a c!"radius", has a c!"diameter" with
      | some i, none, none, none => some (Tmpl.mv i)
      | none, some i, none, none => some (Tmpl.half (.mv i))
      | none, none, some i, none => some (Tmpl.mv i)
      | none, none, none, some i => some (Tmpl.half (.mv i))
      | _, _, _, _ => none
    pure [(c!"height", .mv (← has a c!"height")), (c!"radius1", r1), (c!"radius2", r2),
      (c!"center", dflt a c!"center" (.boolLit false)), (c!"fa", fa), (c!"fs", fs), (c!"fn_", fn)]
  else if m = c!"linear_extrude" then do
    let scale := match has a c!"scale", has a c!"scale_x", has a c!"scale_y" with
      | some i, _, _ => Tmpl.pt [.mv i, .mv i]
      | none, some x, some y => Tmpl.pt [.mv x, .mv y]
      | _, _, _ => Tmpl.pt [num 10 1, num 10 1]
    pure [(c!"height", .mv (← has a c!"height")), (c!"center", dflt a c!"center" (.boolLit false)),
      (c!"convexity", cv), (c!"twist", dflt a c!"twist" (num 0 1)), (c!"scale", scale),
      (c!"slices", optMv a c!"slices"), (c!"fn_", fn)]
  else if m = c!"rotate_extrude" then
    some [(c!"angle", dflt a c!"angle" (num 3600 1)), (c!"convexity", cv), (c!"fa", fa), (c!"fs", fs), (c!"fn_", fn)]
  else if m = c!"surface" then do
    pure [(c!"file", .toStr (.mv (← has a c!"file"))), (c!"center", dflt a c!"center" (.boolLit false)),
      (c!"invert", dflt a c!"invert" (.boolLit false)), (c!"convexity", cv)]
  else if m = c!"translate" ∨ m = c!"scale" ∨ m = c!"mirror" then do pure [(c!"v", ← xyz a)]
  else if m = c!"rotate" then
    match has a c!"a", xyz a with
    | some i, none => some [(c!"a", .some_ (.mv i)), (c!"a_is_scalar", .boolLit true), (c!"v", .pt [num 0 1, num 0 1, num 0 1])]
    | some i, some v => some [(c!"a", .some_ (.mv i)), (c!"a_is_scalar", .boolLit false), (c!"v", v)]
    | none, some v => some [(c!"a", .none_), (c!"a_is_scalar", .boolLit false), (c!"v", v)]
    | none, none => none
  else if m = c!"resize" then do
    let ns ← xyz a
    match has a c!"auto_x", has a c!"auto_y", has a c!"auto_z" with
    | some x, some y, some z =>
      pure [(c!"newsize", ns), (c!"auto", .boolLit false), (c!"auto_is_vec", .boolLit true),
        (c!"autovec", .tuple [.mv x, .mv y, .mv z]), (c!"convexity", cv)]
    | none, none, none =>
      pure [(c!"newsize", ns), (c!"auto", dflt a c!"auto" (.boolLit false)), (c!"auto_is_vec", .boolLit false),
        (c!"autovec", .tuple [.boolLit false, .boolLit false, .boolLit false]), (c!"convexity", cv)]
    | _, _, _ => none
  else if m = c!"color" then
    let rgba := match has a c!"r", has a c!"g", has a c!"b", has a c!"a" with
      | some r, some g, some b, some al => Tmpl.some_ (.pt [.mv r, .mv g, .mv b, .mv al])
      | _, _, _, _ => Tmpl.none_
    let hex := match has a c!"hex" with | some i => Tmpl.some_ (.toStr (.mv i)) | none => Tmpl.none_
    some [(c!"rgba", rgba), (c!"color", optMv a c!"color"), (c!"hex", hex), (c!"alpha", optMv a c!"alpha")]
  else if m = c!"offset" then
    some [(c!"r", optMv a c!"r"), (c!"delta", optMv a c!"delta"), (c!"chamfer", dflt a c!"chamfer" (.boolLit false))]
  else if m = c!"minkowski" then some [(c!"convexity", cv)]
  else none

/-- OpenSCAD's parameter for a named slot `name = …` (as the metavariable names it may carry) -/
def namedSlot (name : List Char) : List (List (List Char)) :=
  if name = c!"d" then [[c!"dia"], [c!"diameter"]]
  else if name = c!"r" then [[c!"r"], [c!"radius"]]
  else if name = c!"h" then [[c!"height"]]
  else if name = c!"d1" then [[c!"diameter1"]]
  else if name = c!"d2" then [[c!"diameter2"]]
  else if name = c!"r1" then [[c!"radius1"]]
  else if name = c!"r2" then [[c!"radius2"]]
  else if name = c!"scale" then [[c!"scale"], [c!"scale_x", c!"scale_y"]]
  else if name = c!"v" ∨ name = c!"newsize" then [[c!"x", c!"y", c!"z"]]
  else if name = c!"a" then [[c!"a"], [c!"x", c!"y", c!"z"]]
  else if name = c!"auto" then [[c!"auto"], [c!"auto_x", c!"auto_y", c!"auto_z"]]
  else if name = c!"c" then [[c!"color"]]
  else if name = c!"text_params" then [[c!"params"]]
  else [[name]]    -- fa fs fn center height convexity twist slices angle alpha delta chamfer cut points faces file invert

/-- OpenSCAD's positional parameter order of each module, in the metavariable names of the source -/
def positionalOrder (m : List Char) : List (List Char) :=
  if m = c!"circle" ∨ m = c!"sphere" ∨ m = c!"offset" then [c!"r"]
  else if m = c!"square" then [c!"size", c!"x", c!"y", c!"center"]
  else if m = c!"cube" then [c!"size", c!"x", c!"y", c!"z", c!"center"]
  else if m = c!"polygon" then [c!"points", c!"paths", c!"convexity"]
  else if m = c!"polyhedron" then [c!"points", c!"faces", c!"convexity"]
  else if m = c!"text" then [c!"text", c!"size", c!"font", c!"halign", c!"valign", c!"spacing", c!"direction",
    c!"language", c!"script", c!"fn"]
  else if m = c!"import" ∨ m = c!"surface" then [c!"file", c!"convexity"]
  else if m = c!"cylinder" then [c!"height", c!"radius", c!"radius1", c!"radius2", c!"center"]
  else if m = c!"linear_extrude" then [c!"height"]
  else if m = c!"translate" ∨ m = c!"scale" ∨ m = c!"mirror" then [c!"x", c!"y", c!"z"]
  else if m = c!"rotate" then [c!"a", c!"x", c!"y", c!"z"]
  else if m = c!"resize" then [c!"x", c!"y", c!"z", c!"auto", c!"auto_x", c!"auto_y", c!"auto_z", c!"convexity"]
  else if m = c!"color" then [c!"r", c!"g", c!"b", c!"a", c!"hex"]
  else if m = c!"minkowski" then [c!"convexity"]
  else []

def isSubseq : List (List Char) → List (List Char) → Bool
  | [], _ => true
  | _ :: _, [] => false
  | x :: xs, y :: ys => if x == y then isSubseq xs ys else isSubseq (x :: xs) ys

/-- scanner state of the matcher walk -/
inductive Mode where
  | normal
  | sawName (n : List Char)
  | sawEq (n : List Char)
  | group (n : List Char) (names : List (List Char))

def isPunct (s : List Char) : Bool := s == [','] || s == ['['] || s == [']'] || s == ['=']

/-- walk the matcher: named slots carry the right metavariables, positional ones are collected -/
def scanPattern (a : Arm) : List PTok → Mode → List (List Char) → Option (List (List Char))
  | [], .normal, acc => some acc
  | [], _, _ => none
  | t :: rest, mode, acc =>
    match mode, t with
    | .normal, .lit s => if isPunct s then scanPattern a rest .normal acc else scanPattern a rest (.sawName s) acc
    | .normal, .mv i => scanPattern a rest .normal (acc ++ [a.mvNames.getD i []])
    | .normal, .children => if rest.isEmpty then some acc else none
    | .sawName n, .lit s => if s == ['='] then scanPattern a rest (.sawEq n) acc else none
    | .sawEq n, .mv i =>
      if (namedSlot n).contains [a.mvNames.getD i []] then scanPattern a rest .normal acc else none
    | .sawEq n, .lit s => if s == ['['] then scanPattern a rest (.group n []) acc else none
    | .group n names, .mv i => scanPattern a rest (.group n (names ++ [a.mvNames.getD i []])) acc
    | .group n names, .lit s =>
      if s == [','] then scanPattern a rest (.group n names) acc
      else if s == [']'] then (if (namedSlot n).contains names then scanPattern a rest .normal acc else none)
      else none
    | _, _ => none

/-- the arm builds the node its OpenSCAD spelling denotes, evaluating every argument once -/
def ArmOK (a : Arm) : Bool :=
  a.usesOnce &&
  (match expectedFields a with
   | some want =>
     a.fields.length == want.length &&
     (a.fields.zip want).all fun (got, w) => got.1 == w.1 && norm a.lets got.2 == w.2
   | none => false) &&
  (match scanPattern a a.pattern .normal [] with
   | some pos => isSubseq pos (positionalOrder a.macroName)
   | none => false) &&
  (a.hasChildren == a.pattern.contains .children)

/-- meaning only (without the evaluate-once requirement) -/
def ArmMeaningOK (a : Arm) : Bool :=
  (match expectedFields a with
   | some want =>
     a.fields.length == want.length &&
     (a.fields.zip want).all fun (got, w) => got.1 == w.1 && norm a.lets got.2 == w.2
   | none => false) &&
  (match scanPattern a a.pattern .normal [] with
   | some pos => isSubseq pos (positionalOrder a.macroName)
   | none => false)

end ScadVerif.Spec.MacroMeaning
