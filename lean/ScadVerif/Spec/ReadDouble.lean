/-
Reading a decimal numeral as an IEEE-754 binary64 value with correct rounding
(round to nearest, ties to even) — what OpenSCAD's lexer (strtod / boost lexical_cast) does.
Exact integer arithmetic on `Nat`; result is the bit pattern.
-/
import ScadVerif.Spec.OpenScad
namespace ScadVerif.Spec

/-- nearest double to `n / d` (n, d > 0) as (biased exponent, mantissa), or `none` on overflow -/
def nearestDouble (n d : Nat) : Option (Nat × Nat) :=
  if n = 0 then some (0, 0) else
  -- candidate exponent e with 2^52 ≤ n / (d·2^e) < 2^53
  let quot (e : Int) : Nat × Nat :=      -- (floor, remainder·) of n·2^(-e) / d
    if e < 0 then
      let num := n <<< e.natAbs
      (num / d, num % d)
    else
      let den := d <<< e.toNat
      (n / den, n % den)
  let denOf (e : Int) : Nat := if e < 0 then d else d <<< e.toNat
  let e0 : Int := (Nat.log2 n : Int) - (Nat.log2 d : Int) - 52
  -- adjust so that the quotient has exactly 53 bits
  let e1 : Int := if (quot e0).1 ≥ 2 ^ 53 then e0 + 1 else if (quot e0).1 < 2 ^ 52 then e0 - 1 else e0
  let e2 : Int := if (quot e1).1 ≥ 2 ^ 53 then e1 + 1 else if (quot e1).1 < 2 ^ 52 then e1 - 1 else e1
  -- subnormal range: the exponent cannot go below -1074
  let e : Int := if e2 < -1074 then -1074 else e2
  let (q, r) := quot e
  let den := denOf e
  let q' := if 2 * r > den then q + 1 else if 2 * r = den then (if q % 2 = 1 then q + 1 else q) else q
  let (q'', e') := if q' = 2 ^ 53 then (2 ^ 52, e + 1) else (q', e)
  if q'' ≥ 2 ^ 52 then
    let biased := e' + 1075
    if biased ≥ 2047 then none else some (biased.toNat, q'' - 2 ^ 52)
  else some (0, q'')

/-- the numeral grammar of `IsNumeral` read as a double; `none` if not a numeral or on overflow -/
def readDouble (cs : List Char) : Option UInt64 :=
  if !IsNumeral cs then none else
  let (neg, body) := match cs with | '-' :: r => (true, r) | r => (false, r)
  let ip := body.takeWhile isDigit
  let fp := match body.dropWhile isDigit with | '.' :: f => f | _ => []
  let digits := ip ++ fp
  let n := digits.foldl (fun a c => a * 10 + (c.toNat - '0'.toNat)) 0
  let d := 10 ^ fp.length
  match nearestDouble n d with
  | none => none
  | some (be, m) =>
    let bits := be * 2 ^ 52 + m + (if neg then 2 ^ 63 else 0)
    some bits.toUInt64

end ScadVerif.Spec
