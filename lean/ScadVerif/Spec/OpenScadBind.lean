/-
Argument binding and meaning of the 25 built-in modules the library emits, transcribed by hand
from the OpenSCAD user manual (DESIGN §3.2): positional parameter order, named parameters,
`$fa/$fs/$fn` as named special variables, scalar-or-vector forms, colour names (case-insensitive
SVG keywords), alignment/direction keywords.  `decodeOp` reads a parsed statement back into the
library's own node type; it is strict: an unknown or duplicated parameter name, a positional
argument after a named one, a value of the wrong shape or an integer OpenSCAD's number type
(a double) cannot hold exactly all yield `none`.
-/
import ScadVerif.Model.Scad
import ScadVerif.Spec.OpenScad
import ScadVerif.Spec.SvgColours
namespace ScadVerif.Spec
open ScadVerif

/-- positional parameter names of the built-ins -/
def signature (name : List Char) : Option (List (List Char)) :=
  if name = c!"union" ∨ name = c!"difference" ∨ name = c!"intersection" ∨ name = c!"hull" then some []
  else if name = c!"circle" then some [c!"r"]
  else if name = c!"square" then some [c!"size", c!"center"]
  else if name = c!"polygon" then some [c!"points", c!"paths", c!"convexity"]
  else if name = c!"text" then some [c!"text", c!"size", c!"font", c!"halign", c!"valign", c!"spacing",
      c!"direction", c!"language", c!"script"]
  else if name = c!"import" then some [c!"file", c!"layer", c!"convexity"]
  else if name = c!"projection" then some [c!"cut"]
  else if name = c!"sphere" then some [c!"r"]
  else if name = c!"cube" then some [c!"size", c!"center"]
  else if name = c!"cylinder" then some [c!"h", c!"r1", c!"r2", c!"center"]
  else if name = c!"polyhedron" then some [c!"points", c!"faces", c!"convexity"]
  else if name = c!"linear_extrude" then some [c!"height", c!"center", c!"convexity", c!"twist", c!"slices", c!"scale"]
  else if name = c!"rotate_extrude" then some [c!"angle", c!"convexity"]
  else if name = c!"surface" then some [c!"file", c!"center", c!"convexity", c!"invert"]
  else if name = c!"translate" then some [c!"v"]
  else if name = c!"rotate" then some [c!"a", c!"v"]
  else if name = c!"scale" then some [c!"v"]
  else if name = c!"resize" then some [c!"newsize", c!"auto", c!"convexity"]
  else if name = c!"mirror" then some [c!"v"]
  else if name = c!"color" then some [c!"c", c!"alpha"]
  else if name = c!"offset" then some [c!"r", c!"delta", c!"chamfer"]
  else if name = c!"minkowski" then some [c!"convexity"]
  else none

/-- every parameter name a built-in accepts (positional ones plus named-only ones) -/
def accepted (name : List Char) : List (List Char) :=
  (signature name).getD [] ++
  (if name = c!"circle" ∨ name = c!"sphere" ∨ name = c!"cylinder" ∨ name = c!"rotate_extrude"
    then [c!"$fa", c!"$fs", c!"$fn"] else []) ++
  (if name = c!"text" ∨ name = c!"linear_extrude" then [c!"$fn"] else [])

abbrev Env := List (List Char × Val)

/-- bind arguments to parameter names: positional first (in signature order), then named -/
def bindArgs (sig : List (List Char)) : List PArg → Bool → Env → Option Env
  | [], _, env => some env
  | ⟨none, v⟩ :: rest, seenNamed, env =>
    if seenNamed then none else
    match sig with
    | [] => none
    | p :: sig' => (bindArgs sig' rest false (env ++ [(p, v)]))
  | ⟨some n, v⟩ :: rest, _, env =>
    if env.any (·.1 = n) then none else bindArgs (sig.filter (· ≠ n)) rest true (env ++ [(n, v)])

def Env.get (env : Env) (n : List Char) : Option Val := (env.find? (·.1 = n)).map (·.2)

section Decode
variable {ν : Type} (readNum : List Char → Option ν) (zero : ν)

/-- a `u64` survives OpenSCAD's number type only if a double holds it exactly -/
def exactInDouble (n : Nat) : Bool :=
  let k := Nat.log2 n
  k ≤ 52 || n % 2 ^ (k - 52) = 0

def readNat (txt : List Char) : Option Nat :=
  if txt.isEmpty || !txt.all isDigit then none else
  let n := txt.foldl (fun a c => a * 10 + (c.toNat - '0'.toNat)) 0
  if exactInDouble n then some n else none

def vNum? : Val → Option ν | .num t => readNum t | _ => none
def vNat? : Val → Option Nat | .num t => readNat t | _ => none
def vBool? : Val → Option Bool | .bool b => some b | _ => none
def vStr? : Val → Option (List Char) | .str s => some s | _ => none
def vPt2? : Val → Option (Pt2 ν)
  | .vec [a, b] => do pure ⟨← vNum? readNum a, ← vNum? readNum b⟩
  | _ => none
def vPt3? : Val → Option (Pt3 ν)
  | .vec [a, b, c] => do pure ⟨← vNum? readNum a, ← vNum? readNum b, ← vNum? readNum c⟩
  | _ => none
def vPt4? : Val → Option (Pt4 ν)
  | .vec [a, b, c, d] => do pure ⟨← vNum? readNum a, ← vNum? readNum b, ← vNum? readNum c, ← vNum? readNum d⟩
  | _ => none
def vList? {β} (f : Val → Option β) : Val → Option (List β)
  | .vec items => items.mapM f
  | _ => none

def req (env : Env) (n : List Char) : Option Val := env.get n
/-- optional numeric parameter: absent ↦ `some none`, ill-typed ↦ `none` -/
def optNum (env : Env) (n : List Char) : Option (Option ν) :=
  match env.get n with | none => some none | some v => (vNum? readNum v).map some
def optNat' (env : Env) (n : List Char) : Option (Option Nat) :=
  match env.get n with | none => some none | some v => (vNat? v).map some

def halignKw : List (List Char) := [c!"left", c!"center", c!"right"]
def valignKw : List (List Char) := [c!"top", c!"center", c!"baseline", c!"bottom"]
def directionKw : List (List Char) := [c!"ltr", c!"rtl", c!"ttb", c!"btt"]

def decodeOp (name : List Char) (args : List PArg) : Option (ScadOp ν) := do
  let sig ← signature name
  let env ← bindArgs sig args false []
  -- no unknown parameter names
  if !(env.all fun (n, _) => (accepted name).contains n) then none
  if name = c!"union" then (if env.isEmpty then some .union else none)
  else if name = c!"difference" then (if env.isEmpty then some .difference else none)
  else if name = c!"intersection" then (if env.isEmpty then some .intersection else none)
  else if name = c!"hull" then (if env.isEmpty then some .hull else none)
  else if name = c!"circle" then
    pure (.circle (← vNum? readNum (← req env c!"r")) (← optNum readNum env c!"$fa") (← optNum readNum env c!"$fs")
      (← optNat' env c!"$fn"))
  else if name = c!"sphere" then
    pure (.sphere (← vNum? readNum (← req env c!"r")) (← optNum readNum env c!"$fa") (← optNum readNum env c!"$fs")
      (← optNat' env c!"$fn"))
  else if name = c!"square" then
    pure (.square (← vPt2? readNum (← req env c!"size")) (← vBool? (← req env c!"center")))
  else if name = c!"cube" then
    pure (.cube (← vPt3? readNum (← req env c!"size")) (← vBool? (← req env c!"center")))
  else if name = c!"polygon" then
    let paths ← (match ← req env c!"paths" with
      | .undef => some none
      | v => (vList? (vList? vNat?) v).map some)
    pure (.polygon (← vList? (vPt2? readNum) (← req env c!"points")) paths (← vNat? (← req env c!"convexity")))
  else if name = c!"polyhedron" then
    pure (.polyhedron (← vList? (vPt3? readNum) (← req env c!"points"))
      (← vList? (vList? vNat?) (← req env c!"faces")) (← vNat? (← req env c!"convexity")))
  else if name = c!"text" then
    let h ← vStr? (← req env c!"halign"); let v ← vStr? (← req env c!"valign")
    let d ← vStr? (← req env c!"direction")
    if !(halignKw.contains h && valignKw.contains v && directionKw.contains d) then none
    pure (.text (← vStr? (← req env c!"text")) (← vNum? readNum (← req env c!"size"))
      (← vStr? (← req env c!"font")) h v (← vNum? readNum (← req env c!"spacing")) d
      (← vStr? (← req env c!"language")) (← vStr? (← req env c!"script")) (← optNat' env c!"$fn"))
  else if name = c!"import" then
    if (env.get c!"layer").isSome then none
    pure (.import_ (← vStr? (← req env c!"file")) (← vNat? (← req env c!"convexity")))
  else if name = c!"projection" then pure (.projection (← vBool? (← req env c!"cut")))
  else if name = c!"cylinder" then
    pure (.cylinder (← vNum? readNum (← req env c!"h")) (← vNum? readNum (← req env c!"r1"))
      (← vNum? readNum (← req env c!"r2")) (← vBool? (← req env c!"center"))
      (← optNum readNum env c!"$fa") (← optNum readNum env c!"$fs") (← optNat' env c!"$fn"))
  else if name = c!"linear_extrude" then
    pure (.linearExtrude (← vNum? readNum (← req env c!"height")) (← vBool? (← req env c!"center"))
      (← vNat? (← req env c!"convexity")) (← vNum? readNum (← req env c!"twist"))
      (← vPt2? readNum (← req env c!"scale")) (← optNat' env c!"slices") (← optNat' env c!"$fn"))
  else if name = c!"rotate_extrude" then
    pure (.rotateExtrude (← vNum? readNum (← req env c!"angle")) (← vNat? (← req env c!"convexity"))
      (← optNum readNum env c!"$fa") (← optNum readNum env c!"$fs") (← optNat' env c!"$fn"))
  else if name = c!"surface" then
    pure (.surface (← vStr? (← req env c!"file")) (← vBool? (← req env c!"center"))
      (← vBool? (← req env c!"invert")) (← vNat? (← req env c!"convexity")))
  else if name = c!"translate" then pure (.translate (← vPt3? readNum (← req env c!"v")))
  else if name = c!"scale" then pure (.scale (← vPt3? readNum (← req env c!"v")))
  else if name = c!"mirror" then pure (.mirror (← vPt3? readNum (← req env c!"v")))
  else if name = c!"rotate" then
    match ← req env c!"a", env.get c!"v" with
    | .num t, none => pure (.rotate (some (← readNum t)) true ⟨zero, zero, zero⟩)
    | .num t, some v => pure (.rotate (some (← readNum t)) false (← vPt3? readNum v))
    | a, none => pure (.rotate none false (← vPt3? readNum a))
    | _, some _ => none
  else if name = c!"resize" then
    let ns ← vPt3? readNum (← req env c!"newsize")
    let cv ← vNat? (← req env c!"convexity")
    match ← req env c!"auto" with
    | .bool b => pure (.resize ns b false (false, false, false) cv)
    | .vec [.bool x, .bool y, .bool z] => pure (.resize ns false true (x, y, z) cv)
    | _ => none
  else if name = c!"color" then
    let alpha ← optNum readNum env c!"alpha"
    match ← req env c!"c" with
    | .str s =>
      match s with
      | '#' :: _ => if alpha.isSome then none else pure (.color none none (some s) none)
      | _ => if knownColour s then pure (.color none (some s) none alpha) else none
    | v => if alpha.isSome then none else pure (.color (some (← vPt4? readNum v)) none none none)
  else if name = c!"offset" then
    match env.get c!"r", env.get c!"delta" with
    | some r, none =>
      if (env.get c!"chamfer").isSome then none else pure (.offset (some (← vNum? readNum r)) none false)
    | none, some d => pure (.offset none (some (← vNum? readNum d)) (← vBool? (← req env c!"chamfer")))
    | _, _ => none
  else if name = c!"minkowski" then pure (.minkowski (← vNat? (← req env c!"convexity")))
  else none

mutual
/-- read a parsed statement back as a tree -/
def decodeStmt : Stmt → Option (Scad ν)
  | .mk name args body => do
    let op ← decodeOp readNum zero name args
    match body with
    | none => if op.isPrimitive then pure (.mk op .nil) else none
    | some b => if op.isPrimitive then none else pure (.mk op (← decodeStmts b))
def decodeStmts : StmtList → Option (ScadList ν)
  | .nil => some .nil
  | .cons h t => do pure (.cons (← decodeStmt h) (← decodeStmts t))
end

end Decode

/-! ### OpenSCAD's defaults for omitted parameters
The library's emitter writes every parameter, so the round-trip theorems never need a default.  The
*oracle* that reads text produced by the implementation applies them first: a parameter that is not
bound takes the value OpenSCAD documents for it, so an emitter that leaves out `center=false` is not
reported, one that leaves out `center=true` is. -/
def one : Val := .num c!"1"
def defaultsOf (name : List Char) : List (List Char × Val) :=
  if name = c!"circle" ∨ name = c!"sphere" then [(c!"r", one)]
  else if name = c!"square" then [(c!"size", .vec [one, one]), (c!"center", .bool false)]
  else if name = c!"cube" then [(c!"size", .vec [one, one, one]), (c!"center", .bool false)]
  else if name = c!"cylinder" then [(c!"h", one), (c!"r1", one), (c!"r2", one), (c!"center", .bool false)]
  else if name = c!"polygon" then [(c!"paths", .undef), (c!"convexity", one)]
  else if name = c!"polyhedron" then [(c!"convexity", one)]
  else if name = c!"text" then [(c!"size", .num c!"10"), (c!"font", .str c!"Liberation Sans"), (c!"halign", .str c!"left"),
      (c!"valign", .str c!"baseline"), (c!"spacing", one), (c!"direction", .str c!"ltr"), (c!"language", .str c!"en"),
      (c!"script", .str c!"latin")]
  else if name = c!"import" then [(c!"convexity", one)]
  else if name = c!"projection" then [(c!"cut", .bool false)]
  else if name = c!"linear_extrude" then [(c!"center", .bool false), (c!"convexity", one), (c!"twist", .num c!"0"),
      (c!"scale", .vec [one, one])]
  else if name = c!"rotate_extrude" then [(c!"angle", .num c!"360"), (c!"convexity", one)]
  else if name = c!"surface" then [(c!"center", .bool false), (c!"invert", .bool false), (c!"convexity", one)]
  else if name = c!"resize" then [(c!"auto", .bool false), (c!"convexity", one)]
  else if name = c!"minkowski" then [(c!"convexity", one)]
  else []

/-- append `name = default` for every documented default whose parameter the arguments leave unbound
(`offset` takes `chamfer = false` only in its `delta` form) -/
def completeArgs (name : List Char) (args : List PArg) : List PArg :=
  match signature name with
  | none => args
  | some sig =>
    match bindArgs sig args false [] with
    | none => args
    | some env =>
      let ds := if name = c!"offset" then
          (if (env.get c!"delta").isSome then [(c!"chamfer", Val.bool false)] else [])
        else defaultsOf name
      args ++ (ds.filter fun (k, _) => (env.get k).isNone).map fun (k, v) => ⟨some k, v⟩

mutual
def completeStmt : Stmt → Stmt
  | .mk name args body => .mk name (completeArgs name args) (match body with | none => none | some b => some (completeStmts b))
def completeStmts : StmtList → StmtList
  | .nil => .nil
  | .cons h t => .cons (completeStmt h) (completeStmts t)
end

/-- shape of a statement / tree: operation names and children, in order -/
inductive Shape where
  | node (name : List Char) (children : List Shape)
deriving Repr, BEq

mutual
def Stmt.shape : Stmt → Shape
  | .mk n _ none => .node n []
  | .mk n _ (some b) => .node n (StmtList.shapes b)
def StmtList.shapes : StmtList → List Shape
  | .nil => []
  | .cons h t => h.shape :: t.shapes
end

end ScadVerif.Spec
