/-
Reference rotations: what OpenSCAD's `rotate([a,0,0])`, `rotate([0,a,0])`, `rotate([0,0,a])`
and `rotate(a, v)` do to a point — the standard right-handed (counter-clockwise seen from the
tip of the axis) rotations, written on a (cos, sin) pair; Rodrigues' formula for a unit axis.
Transcribed by hand from the OpenSCAD manual (DESIGN §3.2).
-/
import ScadVerif.Model.Pt
namespace ScadVerif.Spec
variable {α : Type} [Add α] [Sub α] [Mul α] [Neg α] [OfNat α 1]

def rotX (c s : α) (p : Pt3 α) : Pt3 α := ⟨p.x, c * p.y - s * p.z, s * p.y + c * p.z⟩
def rotY (c s : α) (p : Pt3 α) : Pt3 α := ⟨c * p.x + s * p.z, p.y, -(s * p.x) + c * p.z⟩
def rotZ (c s : α) (p : Pt3 α) : Pt3 α := ⟨c * p.x - s * p.y, s * p.x + c * p.y, p.z⟩
def rot2 (c s : α) (p : Pt2 α) : Pt2 α := ⟨c * p.x - s * p.y, s * p.x + c * p.y⟩

/-- Rodrigues: p·cosθ + (k × p)·sinθ + k·(k·p)·(1 − cosθ) -/
def rodrigues (k : Pt3 α) (c s : α) (p : Pt3 α) : Pt3 α :=
  let kxp : Pt3 α := ⟨k.y * p.z - k.z * p.y, k.z * p.x - k.x * p.z, k.x * p.y - k.y * p.x⟩
  let kp : α := k.x * p.x + k.y * p.y + k.z * p.z
  ⟨p.x * c + kxp.x * s + k.x * kp * (1 - c),
   p.y * c + kxp.y * s + k.y * kp * (1 - c),
   p.z * c + kxp.z * s + k.z * kp * (1 - c)⟩

end ScadVerif.Spec

namespace ScadVerif.Spec
/-- the three columns of the linear part of a 4×4 matrix -/
structure Mt4Cols (α : Type) where
  a : Pt3 α
  b : Pt3 α
  c : Pt3 α
/-- the linear part of `m` (its first three columns a, b, c) is a proper rotation:
orthonormal columns and determinant a·(b×c) = 1 -/
def IsProperRotation {α : Type} [Add α] [Sub α] [Mul α] [OfNat α 0] [OfNat α 1] (m : Mt4Cols α) : Prop :=
  m.a.dot m.a = 1 ∧ m.b.dot m.b = 1 ∧ m.c.dot m.c = 1 ∧
  m.a.dot m.b = 0 ∧ m.a.dot m.c = 0 ∧ m.b.dot m.c = 0 ∧ m.a.dot (m.b.cross m.c) = 1
end ScadVerif.Spec
