/-
A hand transcription of the part of OpenSCAD's surface syntax the library emits
(DESIGN §3.2; there is no OpenSCAD binary in the sandbox to validate it against):

  program   := stmt*
  stmt      := ident '(' args ')' ( ';' | '{' stmt* '}' | stmt )
  args      := ε | arg (',' arg)*
  arg       := ident '=' value | value
  value     := number | string | 'true' | 'false' | 'undef' | '[' (value (',' value)*)? ']'
  number    := '-'? digit+ ('.' digit+)?          (lexer.l also allows exponents; never emitted)
  ident     := ('$' | letter | '_') (letter | digit | '_')*
  string    := '"' ( [^\\\n"] | \\ \" \n \t \r | \x[0-7]H | \uHHHH | \UHHHHHH )* '"'   (lexer.l cond_string)

White space (space, tab, CR, LF) is skipped before every token.  A leading '-' is folded into the
numeral (OpenSCAD lexes it as unary minus; on a literal the value is the same).  NUL is rejected
inside strings.  Scanner-less recursive descent; the recursive functions take fuel.
-/
import ScadVerif.Model.Chars
namespace ScadVerif.Spec

def isWs (c : Char) : Bool := c = ' ' || c = '\n' || c = '\t' || c = '\r'
def isDigit (c : Char) : Bool := '0' ≤ c && c ≤ '9'
def isLetter (c : Char) : Bool := ('a' ≤ c && c ≤ 'z') || ('A' ≤ c && c ≤ 'Z')
def isIdStart (c : Char) : Bool := isLetter c || c = '_' || c = '$'
def isIdChar (c : Char) : Bool := isLetter c || isDigit c || c = '_'
def hexVal (c : Char) : Option Nat :=
  if '0' ≤ c ∧ c ≤ '9' then some (c.toNat - '0'.toNat)
  else if 'a' ≤ c ∧ c ≤ 'f' then some (c.toNat - 'a'.toNat + 10)
  else if 'A' ≤ c ∧ c ≤ 'F' then some (c.toNat - 'A'.toNat + 10)
  else none

def skipWs (cs : List Char) : List Char := cs.dropWhile isWs

/-- a numeral as Rust's `Display` prints finite numbers: `-?digits(.digits)?` -/
def numBody : List Char → List Char
  | '-' :: r => r
  | r => r
/-- `.digits` with at least one digit -/
def isFraction : List Char → Bool
  | '.' :: fr => !fr.isEmpty && fr.all isDigit
  | _ => false
def IsNumeral (cs : List Char) : Bool :=
  let body := numBody cs
  let ip := body.takeWhile isDigit
  let rest := body.dropWhile isDigit
  !ip.isEmpty && (rest.isEmpty || isFraction rest)

inductive Val where
  | num (txt : List Char)
  | bool (b : Bool)
  | str (s : List Char)
  | undef
  | vec (items : List Val)
deriving Repr, BEq

structure PArg where
  name : Option (List Char)
  val : Val
deriving Repr, BEq

mutual
inductive Stmt where
  | mk (name : List Char) (args : List PArg) (body : Option StmtList)
inductive StmtList where
  | nil
  | cons (h : Stmt) (t : StmtList)
end

def StmtList.toList : StmtList → List Stmt
  | .nil => []
  | .cons h t => h :: t.toList
def StmtList.ofList : List Stmt → StmtList
  | [] => .nil
  | h :: t => .cons h (StmtList.ofList t)
def Stmt.name : Stmt → List Char | .mk n _ _ => n
def Stmt.args : Stmt → List PArg | .mk _ a _ => a
def Stmt.body : Stmt → Option StmtList | .mk _ _ b => b

/-! ### lexical classes -/
/-- identifier at the head of the input (after white space) -/
def pIdent (cs : List Char) : Option (List Char × List Char) :=
  match skipWs cs with
  | c :: rest =>
    if isIdStart c then some (c :: rest.takeWhile isIdChar, rest.dropWhile isIdChar) else none
  | [] => none

/-- unsigned digits with an optional fraction -/
def pUnsigned (cs : List Char) : Option (List Char × List Char) :=
  let ip := cs.takeWhile isDigit
  let r := cs.dropWhile isDigit
  if ip.isEmpty then none else
  match r with
  | '.' :: r' =>
    let fp := r'.takeWhile isDigit
    if fp.isEmpty then some (ip, r) else some (ip ++ '.' :: fp, r'.dropWhile isDigit)
  | _ => some (ip, r)

def pNumber (cs : List Char) : Option (List Char × List Char) :=
  match skipWs cs with
  | '-' :: r => (pUnsigned r).map fun (t, rest) => ('-' :: t, rest)
  | r => pUnsigned r

/-- body of a string literal after the opening quote -/
def pStrBody : List Char → Option (List Char × List Char)
  | [] => none
  | '"' :: rest => some ([], rest)
  | '\\' :: 'n' :: rest => (pStrBody rest).map fun (s, r) => ('\n' :: s, r)
  | '\\' :: 't' :: rest => (pStrBody rest).map fun (s, r) => ('\t' :: s, r)
  | '\\' :: 'r' :: rest => (pStrBody rest).map fun (s, r) => ('\r' :: s, r)
  | '\\' :: '\\' :: rest => (pStrBody rest).map fun (s, r) => ('\\' :: s, r)
  | '\\' :: '"' :: rest => (pStrBody rest).map fun (s, r) => ('"' :: s, r)
  | '\\' :: 'x' :: a :: b :: rest =>
    match hexVal a, hexVal b with
    | some h, some l =>
      if h < 8 then
        let v := h * 16 + l
        (pStrBody rest).map fun (s, r) => ((if v = 0 then ' ' else Char.ofNat v) :: s, r)
      else none
    | _, _ => none
  | '\\' :: 'u' :: a :: b :: c :: d :: rest =>
    match hexVal a, hexVal b, hexVal c, hexVal d with
    | some a, some b, some c, some d =>
      (pStrBody rest).map fun (s, r) => (Char.ofNat (((a * 16 + b) * 16 + c) * 16 + d) :: s, r)
    | _, _, _, _ => none
  | '\\' :: 'U' :: a :: b :: c :: d :: e :: f :: rest =>
    match hexVal a, hexVal b, hexVal c, hexVal d, hexVal e, hexVal f with
    | some a, some b, some c, some d, some e, some f =>
      (pStrBody rest).map fun (s, r) =>
        (Char.ofNat (((((a * 16 + b) * 16 + c) * 16 + d) * 16 + e) * 16 + f) :: s, r)
    | _, _, _, _, _, _ => none
  | '\\' :: _ => none
  | '\n' :: _ => none
  | c :: rest => if c = '\x00' then none else (pStrBody rest).map fun (s, r) => (c :: s, r)

/-! ### values -/
mutual
def pValue : Nat → List Char → Option (Val × List Char)
  | 0, _ => none
  | fuel + 1, cs =>
    match skipWs cs with
    | '"' :: rest => (pStrBody rest).map fun (s, r) => (.str s, r)
    | '[' :: rest =>
      match skipWs rest with
      | ']' :: r => some (.vec [], r)
      | _ => (pItems fuel rest).map fun (vs, r) => (.vec vs, r)
    | c :: rest =>
      if isDigit c || c = '-' then (pNumber (c :: rest)).map fun (t, r) => (.num t, r)
      else
        match pIdent (c :: rest) with
        | some (w, r) =>
          if w = c!"true" then some (.bool true, r)
          else if w = c!"false" then some (.bool false, r)
          else if w = c!"undef" then some (.undef, r)
          else none
        | none => none
    | [] => none
/-- one or more values separated by commas, then `]` -/
def pItems : Nat → List Char → Option (List Val × List Char)
  | 0, _ => none
  | fuel + 1, cs =>
    match pValue fuel cs with
    | none => none
    | some (v, r) =>
      match skipWs r with
      | ',' :: r' => (pItems fuel r').map fun (vs, r'') => (v :: vs, r'')
      | ']' :: r' => some ([v], r')
      | _ => none
end

/-- one argument: `name = value` or `value` -/
def pArg (fuel : Nat) (cs : List Char) : Option (PArg × List Char) :=
  match pIdent cs with
  | some (w, r) =>
    match skipWs r with
    | '=' :: r' => (pValue fuel r').map fun (v, r'') => (⟨some w, v⟩, r'')
    | _ => (pValue fuel cs).map fun (v, r'') => (⟨none, v⟩, r'')
  | none => (pValue fuel cs).map fun (v, r'') => (⟨none, v⟩, r'')

/-- arguments after `(` up to and including `)` -/
def pArgs : Nat → Nat → List Char → Option (List PArg × List Char)
  | 0, _, _ => none
  | n + 1, fuel, cs =>
    match skipWs cs with
    | ')' :: r => some ([], r)
    | _ =>
      match pArg fuel cs with
      | none => none
      | some (a, r) =>
        match skipWs r with
        | ',' :: r' =>
          -- a trailing comma before `)` is not accepted here
          (match skipWs r' with
           | ')' :: _ => none
           | _ => (pArgs n fuel r').map fun (as, r'') => (a :: as, r''))
        | ')' :: r' => some ([a], r')
        | _ => none

/-! ### statements -/
mutual
def pStmt : Nat → List Char → Option (Stmt × List Char)
  | 0, _ => none
  | fuel + 1, cs =>
    match pIdent cs with
    | none => none
    | some (name, r) =>
      match skipWs r with
      | '(' :: r1 =>
        match pArgs (r1.length + 1) (r1.length + 1) r1 with
        | none => none
        | some (args, r2) =>
          match skipWs r2 with
          | ';' :: r3 => some (.mk name args none, r3)
          | '{' :: r3 => (pBlock fuel r3).map fun (b, r4) => (.mk name args (some b), r4)
          | _ => (pStmt fuel r2).map fun (s, r4) => (.mk name args (some (.cons s .nil)), r4)
      | _ => none
/-- statements up to and including the closing `}` -/
def pBlock : Nat → List Char → Option (StmtList × List Char)
  | 0, _ => none
  | fuel + 1, cs =>
    match skipWs cs with
    | '}' :: r => some (.nil, r)
    | _ =>
      match pStmt fuel cs with
      | none => none
      | some (s, r) => (pBlock fuel r).map fun (b, r') => (.cons s b, r')
end

/-- a whole program: statements until the end of input -/
def pProgramAux : Nat → List Char → Option (List Stmt)
  | 0, _ => none
  | fuel + 1, cs =>
    match skipWs cs with
    | [] => some []
    | _ =>
      match pStmt (cs.length + 1) cs with
      | none => none
      | some (s, r) => (pProgramAux fuel r).map (s :: ·)

def parseProgram (cs : List Char) : Option (List Stmt) := pProgramAux (cs.length + 1) cs

/-! ### files: assignments of special variables followed by statements -/
inductive Top where
  | assign (name : List Char) (v : Val)
  | stmt (s : Stmt)

/-- `ident = value ;` or a statement -/
def pTop (cs : List Char) : Option (Top × List Char) :=
  match pIdent cs with
  | none => none
  | some (w, r) =>
    match skipWs r with
    | '=' :: r1 =>
      match pValue (r1.length + 1) r1 with
      | none => none
      | some (v, r2) =>
        match skipWs r2 with
        | ';' :: r3 => some (.assign w v, r3)
        | _ => none
    | _ => (pStmt (cs.length + 1) cs).map fun (s, r') => (.stmt s, r')

def pFileAux : Nat → List Char → Option (List Top)
  | 0, _ => none
  | fuel + 1, cs =>
    match skipWs cs with
    | [] => some []
    | _ =>
      match pTop cs with
      | none => none
      | some (t, r) => (pFileAux fuel r).map (t :: ·)

def parseFile (cs : List Char) : Option (List Top) := pFileAux (cs.length + 1) cs

/-- balanced braces, never negative (outside string literals the emitter writes no braces) -/
def braceDepthOK (cs : List Char) : Bool :=
  let rec go (cs : List Char) (depth : Nat) (inStr : Bool) (esc : Bool) : Bool :=
    match cs with
    | [] => depth = 0 && !inStr
    | c :: r =>
      if inStr then
        if esc then go r depth true false
        else if c = '\\' then go r depth true true
        else if c = '"' then go r depth false false
        else go r depth true false
      else if c = '"' then go r depth true false
      else if c = '{' then go r (depth + 1) false false
      else if c = '}' then (if depth = 0 then false else go r (depth - 1) false false)
      else go r depth false false
  go cs 0 false false

end ScadVerif.Spec
