/-
The reference Mersenne Twister MT19937 (Matsumoto & Nishimura 1998) as a sequence, transcribed
from the paper with its constants (w, n, m, r) = (32, 624, 397, 31), a = 0x9908B0DF,
(u, s, b, t, c, l) = (11, 7, 0x9D2C5680, 15, 0xEFC60000, 18).  Seeding is the multiplicative
recurrence x₀ = seed, xᵢ = 6069·xᵢ₋₁ mod 2³² that the library documents (the mtwister port it
follows; the 1998 reference code used 69069) — property C19 names the multiplier 6069.

  x_{k+n} = x_{k+m} ⊕ ((x_k^upper | x_{k+1}^lower) · A),     output_k = temper(x_{k+n})

The sequence is presented as a sliding window of n consecutive values, so that the recurrence
holds by definition and the stream is directly executable.
-/
namespace ScadVerif.Spec.MT

def n : Nat := 624
def m : Nat := 397
def upperMask : UInt32 := 0x80000000
def lowerMask : UInt32 := 0x7fffffff
def matrixA : UInt32 := 0x9908b0df
def seedMul : UInt32 := 6069

/-- (x_k^u | x_{k+1}^l) · A -/
def twist (u l : UInt32) : UInt32 :=
  let y := (u &&& upperMask) ||| (l &&& lowerMask)
  (y >>> 1) ^^^ (if y &&& 1 = 0 then 0 else matrixA)

def temper (y : UInt32) : UInt32 :=
  let y := y ^^^ (y >>> 11)
  let y := y ^^^ ((y <<< 7) &&& 0x9d2c5680)
  let y := y ^^^ ((y <<< 15) &&& 0xefc60000)
  y ^^^ (y >>> 18)

/-- x₀ … x_{n−1} -/
def seedWindow (seed : UInt32) : List UInt32 :=
  (List.range (n - 1)).foldl (fun w _ => w ++ [seedMul * w.getLastD 0]) [seed]

/-- slide the window by one: drop x_k, append x_{k+n} -/
def step (w : List UInt32) : List UInt32 :=
  w.tail ++ [w.getD m 0 ^^^ twist (w.getD 0 0) (w.getD 1 0)]

/-- the window [x_k, …, x_{k+n−1}] -/
def window (seed : UInt32) : Nat → List UInt32
  | 0 => seedWindow seed
  | k + 1 => step (window seed k)

/-- x_k -/
def x (seed : UInt32) (k : Nat) : UInt32 := (window seed k).headD 0

/-- the k-th 32-bit output -/
def output (seed : UInt32) (k : Nat) : UInt32 := temper (x seed (k + n))

/-- the first `count` outputs, computed by sliding (executable in the driver) -/
def stream (seed : UInt32) (count : Nat) : List UInt32 :=
  let w0 := (List.range n).foldl (fun w _ => step w) (seedWindow seed)   -- window n
  ((List.range count).foldl (fun (acc : List UInt32 × List UInt32) _ =>
    (temper (acc.2.headD 0) :: acc.1, step acc.2)) ([], w0)).1.reverse

/-- the outputs that follow a state whose 624 cells are `w` and whose read position is `index`:
the cells from `index` on are tempered as they stand, then the recurrence takes over
(the reference recurrence started from an arbitrary window) -/
def streamFrom (w : List UInt32) (index count : Nat) : List UInt32 :=
  -- window k = [x_k … x_{k+n-1}], x_i = w[i] for i < n; output j is temper x_{index + j}
  let w0 := (List.range index).foldl (fun w _ => step w) w
  ((List.range count).foldl (fun (acc : List UInt32 × List UInt32) _ =>
    (temper (acc.2.headD 0) :: acc.1, step acc.2)) ([], w0)).1.reverse

end ScadVerif.Spec.MT
