/-
Specification predicates for polygons, triangulations and meshes (DESIGN §3.2), as computable
`Bool`/value functions so that the driver can evaluate them on the implementation's outputs.

* `area2`            twice the signed (shoelace) area; negative for clockwise outlines
* `simpleB`          no two non-adjacent edges meet (O(n²) segment test)
* directed edges     a face (v₀ … vₖ) has the directed edges (v₀,v₁) … (vₖ,v₀)
* `closedOriented`   every index valid, every face has ≥ 3 pairwise distinct vertices, every directed
                     edge occurs in exactly one face and its reverse in exactly one other face
* `tilingEdges`      the triangles' directed edges are the polygon's boundary edges once each, plus
                     interior diagonals each used once in both directions
* `signedVolumeCW`   enclosed volume under the clockwise-outside convention
-/
import ScadVerif.Model.Pt
namespace ScadVerif.Spec
variable {α : Type} [Add α] [Sub α] [Mul α] [Div α] [Neg α] [OfNat α 0] [OfNat α 1]

/-- twice the signed area of a closed outline -/
def area2 (ps : List (Pt2 α)) : α :=
  match ps with
  | [] => 0
  | p0 :: _ =>
    let rec go : List (Pt2 α) → α
      | [] => 0
      | [q] => q.x * p0.y - p0.x * q.y
      | a :: b :: rest => (a.x * b.y - b.x * a.y) + go (b :: rest)
    go ps

def cross3 (a b c : Pt2 α) : α := (b.x - a.x) * (c.y - a.y) - (c.x - a.x) * (b.y - a.y)

/-- directed edges of one face -/
def faceEdges (f : List Nat) : List (Nat × Nat) :=
  match f with
  | [] => []
  | v0 :: _ =>
    let rec go : List Nat → List (Nat × Nat)
      | [] => []
      | [a] => [(a, v0)]
      | a :: b :: rest => (a, b) :: go (b :: rest)
    go f

def allEdges (faces : List (List Nat)) : List (Nat × Nat) := faces.flatMap faceEdges

def edgeKey (m : Nat) (e : Nat × Nat) : Nat := e.1 * m + e.2

/-- sorted list has no two equal neighbours -/
def sortedNodup : List Nat → Bool
  | a :: b :: rest => a != b && sortedNodup (b :: rest)
  | _ => true

def pairwiseDistinct (l : List Nat) : Bool :=
  sortedNodup (l.mergeSort (· ≤ ·))

/-- closed, consistently oriented surface -/
def closedOriented (nPoints : Nat) (faces : List (List Nat)) : Bool :=
  let m := nPoints + 1
  let es := allEdges faces
  let keys := (es.map (edgeKey m)).mergeSort (· ≤ ·)
  let revKeys := (es.map fun e => edgeKey m (e.2, e.1)).mergeSort (· ≤ ·)
  faces.all (fun f => f.length ≥ 3 && f.all (· < nPoints) && pairwiseDistinct f) &&
  sortedNodup keys && keys == revKeys

/-- which part of `closedOriented` fails (for reports) -/
def closedOrientedWhy (nPoints : Nat) (faces : List (List Nat)) : String :=
  let m := nPoints + 1
  let es := allEdges faces
  let keys := (es.map (edgeKey m)).mergeSort (· ≤ ·)
  let revKeys := (es.map fun e => edgeKey m (e.2, e.1)).mergeSort (· ≤ ·)
  if !(faces.all fun f => f.all (· < nPoints)) then "face_index_out_of_range"
  else if !(faces.all fun f => f.length ≥ 3 && pairwiseDistinct f) then "face_with_fewer_than_three_distinct_vertices"
  else if !sortedNodup keys then "directed_edge_used_by_two_faces"
  else if keys != revKeys then "edge_without_reverse_partner"
  else "ok"

/-- triangles as index triples -/
def triples : List Nat → List (List Nat)
  | a :: b :: c :: rest => [a, b, c] :: triples rest
  | _ => []

/-- the directed edges of the triangles are: every boundary edge of the n-gon exactly once
(in list direction if `sameWinding`, reversed otherwise) and every other edge once in each
direction -/
def tilingEdges (n : Nat) (tris : List Nat) (sameWinding : Bool) : Bool :=
  let m := n + 1
  let es := allEdges (triples tris)
  let boundary := (List.range n).map fun i =>
    if sameWinding then (i, (i + 1) % n) else ((i + 1) % n, i)
  let bkeys := boundary.map (edgeKey m)
  let keys := (es.map (edgeKey m)).mergeSort (· ≤ ·)
  -- remove the boundary edges (each must be present exactly once); the rest must pair up
  let bsorted := bkeys.mergeSort (· ≤ ·)
  let rec diff : List Nat → List Nat → Option (List Nat)   -- multiset difference of sorted lists
    | xs, [] => some xs
    | [], _ :: _ => none
    | x :: xs, b :: bs =>
      if x = b then diff xs bs else if x < b then (diff xs (b :: bs)).map (x :: ·) else none
  match diff keys bsorted with
  | none => false
  | some inner =>
    let innerRev := (inner.map fun k => edgeKey m (k % m, k / m)).mergeSort (· ≤ ·)
    sortedNodup keys && inner == innerRev && !(inner.any fun k => bsorted.contains (edgeKey m (k % m, k / m)))

/-- six times the signed volume with counter-clockwise-outside orientation of a fan-triangulated
face list; the library's convention is clockwise-outside, so its volume is the negative -/
def sixVolumeCCWAt (p : Nat → Pt3 α) (faces : List (List Nat)) : α :=
  faces.foldl (fun acc f =>
    match f with
    | v0 :: rest =>
      let a := p v0
      let rec fan : List Nat → α
        | b :: c :: more => Pt3.dot a (Pt3.cross (p b) (p c)) + fan (c :: more)
        | _ => 0
      acc + fan rest
    | [] => acc) 0

def sixVolumeCCW (pts : List (Pt3 α)) (faces : List (List Nat)) : α :=
  sixVolumeCCWAt (fun i => pts.getD i ⟨0, 0, 0⟩) faces

def signedVolumeCW (pts : List (Pt3 α)) (faces : List (List Nat)) [OfNatCast α] : α :=
  -(sixVolumeCCW pts faces) / lit 6

end ScadVerif.Spec
