/-
From "every directed edge is matched by its reverse" to the oracle's full `closedOriented` Boolean for
capped strips whose caps are fans (what the ear-clipping loop emits on strictly convex outlines):
no directed edge occurs twice in a fan, a cap never repeats a forward ring edge of the strip it closes,
hence the whole face list of a linear extrusion of a convex outline has every directed edge once.
-/
import ScadVerif.Lemmas.MeshLemmas
namespace ScadVerif.FanClosed
open ScadVerif ScadVerif.Spec ScadVerif.Dim3 ScadVerif.Tri ScadVerif.TriLemmas ScadVerif.MeshLemmas

abbrev Edge := MeshLemmas.Edge

/-- the fan from `L` over consecutive pairs of `q` -/
def fan2 (L : V ℝ) : Poly ℝ → List (Tri3 ℝ)
  | a :: b :: rest => (L, a, b) :: fan2 L (b :: rest)
  | _ => []

theorem fanAux_eq_fan2 (L : V ℝ) : ∀ poly : Poly ℝ, fanAux L poly = fan2 L poly.dropLast
  | [] => rfl
  | [_] => rfl
  | [_, _] => rfl
  | a :: b :: c :: rest => by
    have ih := fanAux_eq_fan2 L (b :: c :: rest)
    simp only [fanAux, List.dropLast_cons_cons, fan2] at ih ⊢
    rw [ih]

/-- where the edges of a fan come from -/
theorem fan2_edge_kind (L : V ℝ) : ∀ (q : Poly ℝ) (e : Edge), e ∈ runEdges (fan2 L q) →
    (e.1 = L.1 ∧ e.2 ∈ lab q) ∨ (e.1 ∈ lab q ∧ e.2 ∈ lab q) ∨ (e.1 ∈ lab q.tail ∧ e.2 = L.1)
  | [], e, h => by simp [fan2, runEdges] at h
  | [_], e, h => by simp [fan2, runEdges] at h
  | a :: b :: rest, e, h => by
    simp only [fan2, runEdges, List.flatMap_cons, List.mem_append, triEdges, List.mem_cons,
      List.not_mem_nil, or_false] at h
    rcases h with (rfl | rfl | rfl) | h
    · left; simp [lab]
    · right; left; simp [lab]
    · right; right; simp [lab]
    · have ih := fan2_edge_kind L (b :: rest) e (by simpa [runEdges] using h)
      rcases ih with ⟨h1, h2⟩ | ⟨h1, h2⟩ | ⟨h1, h2⟩
      · left; exact ⟨h1, by simp only [lab, List.map_cons, List.mem_cons] at h2 ⊢; tauto⟩
      · right; left
        simp only [lab, List.map_cons, List.mem_cons] at h1 h2 ⊢
        exact ⟨by tauto, by tauto⟩
      · right; right
        simp only [lab, List.tail_cons, List.map_cons, List.mem_cons] at h1 ⊢
        exact ⟨by tauto, h2⟩

/-- **no directed edge occurs twice in a fan** over distinct labels with the apex not among them -/
theorem fan2_nodup (L : V ℝ) : ∀ (q : Poly ℝ), (L.1 :: lab q).Nodup → (runEdges (fan2 L q)).Nodup
  | [], _ => by simp [fan2, runEdges]
  | [_], _ => by simp [fan2, runEdges]
  | a :: b :: rest, hnd => by
    have hnd' : (L.1 :: lab (b :: rest)).Nodup := by
      simp only [lab, List.map_cons, List.nodup_cons, List.mem_cons, not_or] at hnd ⊢
      exact ⟨⟨hnd.1.2.1, hnd.1.2.2⟩, hnd.2.2.1, hnd.2.2.2⟩
    have ih := fan2_nodup L (b :: rest) hnd'
    simp only [lab, List.map_cons, List.nodup_cons, List.mem_cons, not_or] at hnd
    obtain ⟨⟨hLa, hLb, hLr⟩, ⟨hab, har⟩, hbr, _⟩ := hnd
    have kind := fan2_edge_kind L (b :: rest)
    simp only [fan2, runEdges, List.flatMap_cons, triEdges, List.cons_append, List.nil_append,
      List.nodup_cons, List.mem_cons, not_or]
    refine ⟨⟨?_, ?_, ?_⟩, ⟨?_, ?_⟩, ?_, ?_⟩
    · intro h; exact hLa (Prod.mk.inj h).1
    · intro h; exact hLb (Prod.mk.inj h).1
    · intro h
      rcases kind _ h with ⟨_, h2⟩ | ⟨h1, _⟩ | ⟨h1, _⟩
      · simp only [lab, List.map_cons, List.mem_cons] at h2; rcases h2 with h2 | h2
        · exact hab h2
        · exact har h2
      · simp only [lab, List.map_cons, List.mem_cons] at h1; rcases h1 with h1 | h1
        · exact hLb h1
        · exact hLr h1
      · simp only [lab, List.tail_cons] at h1; exact hLr h1
    · intro h; exact hab (Prod.mk.inj h).1
    · intro h
      rcases kind _ h with ⟨h1, _⟩ | ⟨h1, _⟩ | ⟨h1, _⟩
      · exact hLa h1.symm
      · simp only [lab, List.map_cons, List.mem_cons] at h1; rcases h1 with h1 | h1
        · exact hab h1
        · exact har h1
      · simp only [lab, List.tail_cons] at h1; exact har h1
    · intro h
      rcases kind _ h with ⟨h1, _⟩ | ⟨_, h2⟩ | ⟨h1, _⟩
      · exact hLb h1.symm
      · simp only [lab, List.map_cons, List.mem_cons] at h2; rcases h2 with h2 | h2
        · exact hLb h2
        · exact hLr h2
      · simp only [lab, List.tail_cons] at h1; exact hbr h1
    · simpa [runEdges] using ih

/-- labels used by a fan -/
theorem fan2_edge_labels (L : V ℝ) (q : Poly ℝ) (e : Edge) (h : e ∈ runEdges (fan2 L q)) :
    (e.1 = L.1 ∨ e.1 ∈ lab q) ∧ (e.2 = L.1 ∨ e.2 ∈ lab q) := by
  rcases fan2_edge_kind L q e h with ⟨h1, h2⟩ | ⟨h1, h2⟩ | ⟨h1, h2⟩
  · exact ⟨Or.inl h1, Or.inr h2⟩
  · exact ⟨Or.inr h1, Or.inr h2⟩
  · exact ⟨Or.inr (by cases q with | nil => simp [lab] at h1 | cons a t => simp only [lab, List.tail_cons, List.map_cons, List.mem_cons] at h1 ⊢; exact Or.inr h1), Or.inl h2⟩

/-! ### a cap never repeats a ring edge in the direction the strip uses -/
/-- if `X ++ R` pairs up under reversal, `X` and `R` have no repeated edge and `R` contains no
edge together with its reverse, then no edge of `R` is in `X` -/
theorem cap_avoids_ring (X R : List Edge) (hX : X.Nodup) (hR : R.Nodup)
    (hRR : ∀ e ∈ R, e.swap ∉ R) (hcl : EdgeClosed (X ++ R)) : ∀ e ∈ R, e ∉ X := by
  intro e heR heX
  unfold EdgeClosed at hcl
  have hc := hcl.count_eq e
  rw [MeshLemmas.count_map_swap, List.count_append, List.count_append] at hc
  have h1 : X.count e = 1 := List.count_eq_one_of_mem hX heX
  have h2 : R.count e = 1 := List.count_eq_one_of_mem hR heR
  have h3 : R.count e.swap = 0 := List.count_eq_zero.mpr (hRR e heR)
  have h4 : X.count e.swap ≤ 1 := List.nodup_iff_count_le_one.mp hX _
  omega

theorem swap_ring_no_pair (n r : Nat) (hn : 3 ≤ n) : ∀ e ∈ (ringF n r).map Prod.swap, e.swap ∉ (ringF n r).map Prod.swap := by
  intro e he he2
  rw [mem_map_swap] at he he2
  simp only [Prod.swap_swap] at he2
  exact ringF_swap_disjoint n r hn e.swap he (by simpa using he2)

/-- **every directed edge of a capped strip occurs once**: caps `X` (ring 0, vertices below `n`) and
`Y` (ring 1, vertices in `[n, 2n)`) without repeated edges whose edges pair up with the ring
(backwards resp. forwards), glued to the strip between ring 0 and ring 1 -/
theorem capped_strip_nodup (n : Nat) (hn : 3 ≤ n) (X Y : List Edge)
    (hX : X.Nodup) (hY : Y.Nodup)
    (hXv : ∀ e ∈ X, e.1 < n ∧ e.2 < n) (hYv : ∀ e ∈ Y, n ≤ e.1 ∧ n ≤ e.2)
    (hXc : EdgeClosed (X ++ ringF n 0)) (hYc : EdgeClosed (Y ++ (ringF n 1).map Prod.swap)) :
    (X ++ Y ++ allEdges (strip n 0 1)).Nodup := by
  have hXR := cap_avoids_ring X (ringF n 0) hX (ringF_nodup n 0)
    (fun e h1 h2 => ringF_swap_disjoint n 0 hn e h1 h2) hXc
  have hYR := cap_avoids_ring Y ((ringF n 1).map Prod.swap) hY (nodup_map_swap _ (ringF_nodup n 1))
    (swap_ring_no_pair n 1 hn) hYc
  rw [List.nodup_append, List.nodup_append]
  refine ⟨⟨hX, hY, ?_⟩, strip_edges_nodup n 0 1 (by omega), ?_⟩
  · intro a ha b hb hab
    subst hab
    have := hXv a ha; have := hYv a hb; omega
  · intro a ha b hb hab
    subst hab
    have hs := (strip_edges n 0 1).mem_iff.mp hb
    simp only [List.mem_append] at hs
    rcases List.mem_append.mp ha with ha | ha
    · have hv := hXv a ha
      rcases hs with ((hs | hs) | hs) | hs
      · exact hXR a hs ha
      · have := ups_mem n 0 1 a hs; unfold InRing at this; omega
      · rw [mem_map_swap] at hs
        have := ringF_mem n 1 a.swap hs; unfold InRing at this
        simp only [Prod.fst_swap, Prod.snd_swap] at this; omega
      · rw [mem_map_swap] at hs
        have := ups_mem n 0 1 a.swap hs; unfold InRing at this
        simp only [Prod.fst_swap, Prod.snd_swap] at this; omega
    · have hv := hYv a ha
      rcases hs with ((hs | hs) | hs) | hs
      · have := ringF_mem n 0 a hs; unfold InRing at this; omega
      · have := ups_mem n 0 1 a hs; unfold InRing at this; omega
      · exact hYR a hs ha
      · rw [mem_map_swap] at hs
        have := ups_mem n 0 1 a.swap hs; unfold InRing at this
        simp only [Prod.fst_swap, Prod.snd_swap] at this; omega

/-! ### the two caps of a convex outline -/
theorem getLast_not_mem_dropLast : ∀ (l : List Nat), l.Nodup → ∀ x, l.getLast? = some x → x ∉ l.dropLast
  | [], _, x, h => by simp at h
  | [a], _, x, _ => by simp
  | a :: b :: rest, hnd, x, h => by
    have hnd' : (b :: rest).Nodup := (List.nodup_cons.mp hnd).2
    have h' : (b :: rest).getLast? = some x := by simpa [List.getLast?_cons_cons] using h
    have ih := getLast_not_mem_dropLast (b :: rest) hnd' x h'
    rw [List.dropLast_cons_cons, List.mem_cons, not_or]
    refine ⟨?_, ih⟩
    intro hxa
    subst hxa
    have : x ∈ b :: rest := List.mem_of_getLast? h'
    exact (List.nodup_cons.mp hnd).1 this

theorem lab_dropLast (poly : Poly ℝ) : lab poly.dropLast = (lab poly).dropLast := by
  simp [lab, List.map_dropLast]

theorem vAt_last_lab (poly : Poly ℝ) (h : poly ≠ []) :
    (lab poly).getLast? = some (vAt poly (poly.length - 1)).1 := by
  have hl : (lab poly).length = poly.length := by simp [lab]
  rw [List.getLast?_eq_getElem?, hl, ← lab_getD]
  have : poly.length - 1 < (lab poly).length := by
    rw [hl]; exact Nat.sub_lt (List.length_pos_iff.mpr h) (by omega)
  rw [List.getD_eq_getElem?_getD, List.getElem?_eq_getElem this]; rfl

/-- the edges of the fan the loop emits on a list with distinct labels occur once each, and use only
labels of the list -/
theorem fanAux_nodup (poly : Poly ℝ) (hn : poly ≠ []) (hnd : (lab poly).Nodup) :
    (runEdges (fanAux (vAt poly (poly.length - 1)) poly)).Nodup ∧
    ∀ e ∈ runEdges (fanAux (vAt poly (poly.length - 1)) poly), e.1 ∈ lab poly ∧ e.2 ∈ lab poly := by
  rw [fanAux_eq_fan2]
  have hlast := vAt_last_lab poly hn
  have hL : (vAt poly (poly.length - 1)).1 ∈ lab poly := List.mem_of_getLast? hlast
  constructor
  · apply fan2_nodup
    rw [List.nodup_cons, lab_dropLast]
    exact ⟨getLast_not_mem_dropLast _ hnd _ hlast, hnd.sublist (List.dropLast_sublist _)⟩
  · intro e he
    have := fan2_edge_labels _ _ e he
    rw [lab_dropLast] at this
    have sub : ∀ x, x ∈ (lab poly).dropLast → x ∈ lab poly := fun x hx => List.mem_of_mem_dropLast hx
    exact ⟨this.1.elim (fun h => h ▸ hL) (sub _), this.2.elim (fun h => h ▸ hL) (sub _)⟩

/-! ### faces with pairwise distinct vertices -/
theorem fan2_tri_nodup (L : V ℝ) : ∀ (q : Poly ℝ), (L.1 :: lab q).Nodup → ∀ t ∈ fan2 L q, (triLabels t).Nodup
  | [], _, t, h => by simp [fan2] at h
  | [_], _, t, h => by simp [fan2] at h
  | a :: b :: rest, hnd, t, h => by
    simp only [fan2, List.mem_cons] at h
    rcases h with rfl | h
    · simp only [lab, List.map_cons, List.nodup_cons, List.mem_cons, not_or] at hnd
      simp only [triLabels, List.nodup_cons, List.mem_cons, List.not_mem_nil, or_false, not_or,
        List.nodup_nil, and_true, not_false_eq_true]
      exact ⟨⟨hnd.1.1, hnd.1.2.1⟩, hnd.2.1.1⟩
    · apply fan2_tri_nodup L (b :: rest) _ t h
      simp only [lab, List.map_cons, List.nodup_cons, List.mem_cons, not_or] at hnd ⊢
      exact ⟨⟨hnd.1.2.1, hnd.1.2.2⟩, hnd.2.2.1, hnd.2.2.2⟩

theorem triFaces_labels_faces (off : Nat) : ∀ ts : List (Tri3 ℝ),
    triFaces off (labels ts) = ts.map fun t => (triLabels t).map (· + off)
  | [] => by simp [labels, triFaces]
  | t :: ts => by
    have ih := triFaces_labels_faces off ts
    simp only [labels, List.flatMap_cons, triLabels, List.cons_append, List.nil_append, triFaces,
      List.map_cons, List.map_nil] at ih ⊢
    rw [ih]

theorem fanAux_faces_nodup (poly : Poly ℝ) (hn : poly ≠ []) (hnd : (lab poly).Nodup) (off : Nat) :
    ∀ f ∈ triFaces off (labels (fanAux (vAt poly (poly.length - 1)) poly)), f.Nodup := by
  rw [fanAux_eq_fan2, triFaces_labels_faces]
  intro f hf
  simp only [List.mem_map] at hf
  obtain ⟨t, ht, rfl⟩ := hf
  have hlast := vAt_last_lab poly hn
  have := fan2_tri_nodup _ poly.dropLast (by
    rw [List.nodup_cons, lab_dropLast]
    exact ⟨getLast_not_mem_dropLast _ hnd _ hlast, hnd.sublist (List.dropLast_sublist _)⟩) t ht
  exact this.map (fun a b h => by simpa using h)

theorem strip_faces_nodup (n lo hi : Nat) (hn : 2 ≤ n) (h : lo ≠ hi) : ∀ f ∈ strip n lo hi, f.Nodup := by
  intro f hf
  simp only [strip, List.mem_map, List.mem_range] at hf
  obtain ⟨i, hi', rfl⟩ := hf
  have hm : (i + 1) % n < n := Nat.mod_lt _ (by omega)
  have hne : (i + 1) % n ≠ i := by
    by_cases hlt : i + 1 < n
    · rw [Nat.mod_eq_of_lt hlt]; omega
    · have : i + 1 = n := by omega
      rw [this, Nat.mod_self]; omega
  have h1 : lo * n + n ≤ hi * n ∨ hi * n + n ≤ lo * n := by
    rcases Nat.lt_or_gt_of_ne h with h | h
    · left; calc lo * n + n = (lo + 1) * n := by rw [Nat.succ_mul]
        _ ≤ hi * n := Nat.mul_le_mul_right _ h
    · right; calc hi * n + n = (hi + 1) * n := by rw [Nat.succ_mul]
        _ ≤ lo * n := Nat.mul_le_mul_right _ h
  simp only [List.nodup_cons, List.mem_cons, List.not_mem_nil, or_false, not_or, List.nodup_nil, and_true,
    not_false_eq_true]
  refine ⟨⟨?_, ?_, ?_⟩, ⟨?_, ?_⟩, ?_⟩ <;> omega

theorem shift_inj (o : Nat) (a b : Edge) (h : shift o a = shift o b) : a = b := by
  unfold shift at h
  have h1 := congrArg Prod.fst h
  have h2 := congrArg Prod.snd h
  simp only at h1 h2
  exact Prod.ext (by omega) (by omega)

theorem nodup_shift (o : Nat) (l : List Edge) (h : l.Nodup) : (l.map (shift o)).Nodup :=
  h.map (fun a b hab => shift_inj o a b hab)

end ScadVerif.FanClosed
