/-
Reading printed values back: the decoder of Spec/OpenScadBind.lean applied to the statement form
of a printed header recovers the parameters.
-/
import ScadVerif.Lemmas.Parser
namespace ScadVerif.DecodeLemmas
open ScadVerif ScadVerif.Spec ScadVerif.ParserLemmas

theorem readNat_natDigits (n : Nat) (h : exactInDouble n = true) : readNat (natDigits n) = some n := by
  have hd : (natDigits n).all isDigit = true := by
    rw [List.all_eq_true]; intro c hc
    exact isDigit_of_charIsDigit c (Nat.isDigit_of_mem_toDigits (by decide) (by decide) hc)
  have hne : (natDigits n).isEmpty = false := by
    cases h' : natDigits n with
    | nil => exact absurd h' Nat.toDigits_ne_nil
    | cons _ _ => rfl
  have hf : (natDigits n).foldl (fun a c => a * 10 + (c.toNat - '0'.toNat)) 0 = n := by
    have := Nat.ofDigitChars_toDigits (b := 10) (n := n) (by decide) (by decide)
    rw [Nat.ofDigitChars_eq_foldl] at this
    have e : (fun (a : Nat) (c : Char) => a * 10 + (c.toNat - '0'.toNat)) =
        (fun sofar c => 10 * sofar + (c.toNat - '0'.toNat)) := by
      funext a c; rw [Nat.mul_comm]
    rw [natDigits, e]; exact this
  simp only [readNat, hne, hd, Bool.not_true, Bool.or_self, Bool.false_eq_true, if_false, hf, h, if_true]

section
variable {ν : Type} (showNum : ν → List Char) (readNum : List Char → Option ν)
variable (hread : ∀ x, readNum (showNum x) = some x)
include hread

theorem vNum_back (x : ν) : vNum? readNum (toVal (vNum showNum x)) = some x := by
  simp [vNum, toVal, vNum?, hread]
omit hread in
theorem vNat_back (n : Nat) (h : exactInDouble n = true) : vNat? (toVal (vNat n)) = some n := by
  simp [vNat, toVal, vNat?, readNat_natDigits n h]
theorem vPt2_back (p : Pt2 ν) : vPt2? readNum (toVal (vPt2 showNum p)) = some p := by
  simp [vPt2, toVal, toVals, vPt2?, vNum_back showNum readNum hread]
theorem vPt3_back (p : Pt3 ν) : vPt3? readNum (toVal (vPt3 showNum p)) = some p := by
  simp [vPt3, toVal, toVals, vPt3?, vNum_back showNum readNum hread]
theorem vPt4_back (p : Pt4 ν) : vPt4? readNum (toVal (vPt4 showNum p)) = some p := by
  simp [vPt4, toVal, toVals, vPt4?, vNum_back showNum readNum hread]

omit hread in
theorem toVals_map {β : Type} (f : β → Value) (l : List β) : toVals (l.map f) = l.map fun x => toVal (f x) := by
  induction l with
  | nil => rfl
  | cons a t ih => simp [toVals, ih]

omit hread in
theorem mapM_back {β : Type} (g : Val → Option β) (f : β → Val) (l : List β) (h : ∀ x ∈ l, g (f x) = some x) :
    (l.map f).mapM g = some l := by
  induction l with
  | nil => rfl
  | cons a t ih =>
    simp only [List.map_cons, List.mapM_cons, Option.bind_eq_bind, Option.pure_def]
    rw [h a (by simp), ih (fun x hx => h x (by simp [hx]))]
    rfl

theorem vPt2s_back (ps : List (Pt2 ν)) : vList? (vPt2? readNum) (toVal (vPt2s showNum ps)) = some ps := by
  simp only [vPt2s, toVal, toVals_map, vList?]
  exact mapM_back _ _ ps fun p _ => vPt2_back showNum readNum hread p
theorem vPt3s_back (ps : List (Pt3 ν)) : vList? (vPt3? readNum) (toVal (vPt3s showNum ps)) = some ps := by
  simp only [vPt3s, toVal, toVals_map, vList?]
  exact mapM_back _ _ ps fun p _ => vPt3_back showNum readNum hread p
omit hread in
theorem vIndices_back (is : List Nat) (h : ∀ n ∈ is, exactInDouble n = true) :
    vList? vNat? (toVal (vIndices is)) = some is := by
  simp only [vIndices, toVal, toVals_map, vList?]
  exact mapM_back _ _ is fun n hn => vNat_back n (h n hn)
omit hread in
theorem vPaths_back (ps : List (List Nat)) (h : ∀ p ∈ ps, ∀ n ∈ p, exactInDouble n = true) :
    vList? (vList? vNat?) (toVal (vPaths ps)) = some ps := by
  simp only [vPaths, toVal, toVals_map, vList?]
  exact mapM_back _ _ ps fun p hp => vIndices_back p (h p hp)

end
end ScadVerif.DecodeLemmas
