/-
Refinement of the in-place MersenneTwister model (Model/Rng.lean) to the reference sequence
(Spec/MT19937.lean).
-/
import Mathlib.Tactic.Ring
import Mathlib.Tactic.Set
import ScadVerif.Model.Rng
import ScadVerif.Spec.MT19937
namespace ScadVerif.MTRefine
open ScadVerif ScadVerif.Rng ScadVerif.Spec.MT

/-! ### constants of the source are the paper's -/
theorem consts_match :
    Gen.mtN = n ∧ Gen.mtM = m ∧ Gen.mtUpper = upperMask ∧ Gen.mtLower = lowerMask ∧
    Gen.mtMatrixA = matrixA ∧ Gen.mtSeedMul = seedMul ∧ Gen.mtMaskB = 0x9d2c5680 ∧ Gen.mtMaskC = 0xefc60000 ∧
    Gen.mtShiftU = 11 ∧ Gen.mtShiftS = 7 ∧ Gen.mtShiftT = 15 ∧ Gen.mtShiftL = 18 := by decide

theorem twist_eq (u l : UInt32) : Rng.twist u l = Spec.MT.twist u l := rfl
theorem temper_eq (y : UInt32) : Rng.temper y = Spec.MT.temper y := rfl

/-! ### the sliding window -/
theorem getD_append_left' (l₁ l₂ : List UInt32) (i : Nat) (h : i < l₁.length) :
    (l₁ ++ l₂).getD i 0 = l₁.getD i 0 := by
  simp [List.getD_eq_getElem?_getD, List.getElem?_append_left h]
theorem getD_append_right' (l₁ l₂ : List UInt32) (i : Nat) (h : l₁.length ≤ i) :
    (l₁ ++ l₂).getD i 0 = l₂.getD (i - l₁.length) 0 := by
  simp [List.getD_eq_getElem?_getD, List.getElem?_append_right h]
theorem n_val : n = 624 := rfl
theorem m_val : m = 397 := rfl
theorem step_length (w : List UInt32) (h : w.length = n) : (step w).length = n := by
  simp [step, h, n]

theorem seedWindow_aux (seed : UInt32) (k : Nat) :
    let w := (List.range k).foldl (fun w _ => w ++ [seedMul * w.getLastD 0]) [seed]
    w.length = k + 1 ∧ w.getD 0 0 = seed ∧ ∀ j, j < k → w.getD (j + 1) 0 = seedMul * w.getD j 0 := by
  induction k with
  | zero => simp
  | succ k ih =>
    obtain ⟨hl, h0, hj⟩ := ih
    rw [List.range_succ, List.foldl_append]
    simp only [List.foldl_cons, List.foldl_nil]
    set w := (List.range k).foldl (fun w _ => w ++ [seedMul * w.getLastD 0]) [seed] with hw
    have hne : w ≠ [] := by intro h; rw [h] at hl; simp at hl
    refine ⟨by simp [hl], ?_, ?_⟩
    · rw [getD_append_left' _ _ _ (by omega)]; exact h0
    · intro j hjk
      by_cases hjlt : j < k
      · rw [getD_append_left' _ _ _ (by omega), getD_append_left' _ _ _ (by omega)]; exact hj j hjlt
      · have hje : j = k := by omega
        subst hje
        rw [getD_append_right' _ _ _ (by omega), getD_append_left' _ _ _ (by omega)]
        have hlast : w.getLastD 0 = w.getD j 0 := by
          rw [List.getLastD_eq_getLast?, List.getLast?_eq_getElem?, List.getD_eq_getElem?_getD]
          simp [hl]
        rw [hlast]; simp [hl]

theorem seedWindow_length (seed : UInt32) : (seedWindow seed).length = n := by
  have := (seedWindow_aux seed (n - 1)).1
  simpa [seedWindow, n] using this
theorem seedWindow_zero (seed : UInt32) : (seedWindow seed).getD 0 0 = seed :=
  (seedWindow_aux seed (n - 1)).2.1
theorem seedWindow_succ (seed : UInt32) (j : Nat) (h : j < n - 1) :
    (seedWindow seed).getD (j + 1) 0 = seedMul * (seedWindow seed).getD j 0 :=
  (seedWindow_aux seed (n - 1)).2.2 j h

theorem window_length (seed : UInt32) (k : Nat) : (window seed k).length = n := by
  induction k with
  | zero => exact seedWindow_length seed
  | succ k ih => exact step_length _ ih

theorem step_getD_lt (w : List UInt32) (h : w.length = n) (i : Nat) (hi : i < n - 1) :
    (step w).getD i 0 = w.getD (i + 1) 0 := by
  cases w with
  | nil => simp [n] at h
  | cons a t =>
    simp only [step, List.tail_cons]
    have ht : t.length = n - 1 := by simp at h; omega
    rw [getD_append_left' _ _ _ (by omega)]
    simp [List.getD_cons_succ]
theorem step_getD_last (w : List UInt32) (h : w.length = n) :
    (step w).getD (n - 1) 0 = w.getD m 0 ^^^ Spec.MT.twist (w.getD 0 0) (w.getD 1 0) := by
  cases w with
  | nil => simp [n] at h
  | cons a t =>
    simp only [step, List.tail_cons]
    have ht : t.length = n - 1 := by simp at h; omega
    rw [getD_append_right' _ _ _ (by omega)]
    simp [ht]

/-- cell i of window k is x_{k+i} -/
theorem window_getD (seed : UInt32) (k i : Nat) (hi : i < n) :
    (window seed k).getD i 0 = x seed (k + i) := by
  induction i generalizing k with
  | zero => simp [x, List.getD_eq_getElem?_getD, List.headD_eq_head?_getD, List.head?_eq_getElem?]
  | succ i ih =>
    have h1 : (window seed (k + 1)).getD i 0 = (window seed k).getD (i + 1) 0 :=
      step_getD_lt _ (window_length seed k) i (by omega)
    rw [← h1, ih (k + 1) (by omega)]
    congr 1; omega

/-- the defining recurrence x_{k+n} = x_{k+m} ⊕ twist(x_k, x_{k+1}) -/
theorem x_rec (seed : UInt32) (k : Nat) :
    x seed (k + n) = x seed (k + m) ^^^ Spec.MT.twist (x seed k) (x seed (k + 1)) := by
  have h1 : (window seed (k + 1)).getD (n - 1) 0 = x seed (k + 1 + (n - 1)) :=
    window_getD seed (k + 1) (n - 1) (by simp [n])
  have h2 := step_getD_last (window seed k) (window_length seed k)
  have e : k + 1 + (n - 1) = k + n := by rw [n_val]
  rw [e] at h1
  rw [← h1]
  show (step (window seed k)).getD (n - 1) 0 = _
  rw [h2, window_getD seed k m (by simp [n, m]), window_getD seed k 0 (by simp [n]),
    window_getD seed k 1 (by simp [n])]
  simp
theorem x_zero (seed : UInt32) : x seed 0 = seed := by
  have := window_getD seed 0 0 (by simp [n])
  simp at this
  rw [← this]; exact seedWindow_zero seed
theorem x_seed_succ (seed : UInt32) (j : Nat) (h : j < n - 1) : x seed (j + 1) = seedMul * x seed j := by
  have h1 := window_getD seed 0 (j + 1) (by omega)
  have h2 := window_getD seed 0 j (by omega)
  simp only [Nat.zero_add] at h1 h2
  rw [← h1, ← h2]
  exact seedWindow_succ seed j h

/-! ### arrays -/
theorem rd_wr (b : Array UInt32) (k i : Nat) (v : UInt32) (hk : k < b.size) :
    rd (wr b k v) i = if i = k then v else rd b i := by
  unfold rd wr
  by_cases h : i = k
  · subst h; simp [Array.getD_eq_getD_getElem?, hk]
  · simp [Array.getD_eq_getD_getElem?, Array.getElem?_setIfInBounds, h, Ne.symm h]
theorem size_wr (b : Array UInt32) (k : Nat) (v : UInt32) : (wr b k v).size = b.size := by simp [wr]

/-- cells below `K` already hold block `base + 624`, the others still block `base` -/
def Inv (seed : UInt32) (b : Array UInt32) (base K : Nat) : Prop :=
  b.size = 624 ∧ ∀ i, i < 624 → rd b i = if i < K then x seed (base + 624 + i) else x seed (base + i)

theorem inv_step (seed : UInt32) (b : Array UInt32) (base K : Nat) (v : UInt32) (hK : K < 624)
    (h : Inv seed b base K) (hv : v = x seed (base + 624 + K)) : Inv seed (wr b K v) base (K + 1) := by
  obtain ⟨hs, hc⟩ := h
  refine ⟨by rw [size_wr]; exact hs, fun i hi => ?_⟩
  rw [rd_wr _ _ _ _ (by omega)]
  by_cases hik : i = K
  · subst hik; rw [if_pos rfl, if_pos (by omega)]; exact hv
  · rw [if_neg hik, hc i hi]
    by_cases hlt : i < K
    · rw [if_pos hlt, if_pos (by omega)]
    · rw [if_neg hlt, if_neg (by omega)]

/-- the value written at `kk` from the three operands -/
theorem newval (seed : UInt32) (base kk : Nat) (a c d : UInt32)
    (ha : a = x seed (base + kk + 397)) (hc : c = x seed (base + kk)) (hd : d = x seed (base + kk + 1)) :
    a ^^^ Rng.twist c d = x seed (base + 624 + kk) := by
  have := x_rec seed (base + kk)
  rw [n_val, m_val] at this
  rw [twist_eq, ha, hc, hd, ← this]; exact congrArg (x seed) (by omega)

def body1 (b : Array UInt32) (kk : Nat) : Array UInt32 :=
  wr b kk (rd b (kk + 397) ^^^ Rng.twist (rd b kk) (rd b (kk + 1)))
def body2 (b : Array UInt32) (j : Nat) : Array UInt32 :=
  wr b (j + 227) (rd b (j + 227 + 397 - 624) ^^^ Rng.twist (rd b (j + 227)) (rd b (j + 227 + 1)))

theorem regen_eq (b : Array UInt32) :
    regen b =
      let b2 := (List.range 396).foldl body2 ((List.range 227).foldl body1 b)
      wr b2 623 (rd b2 396 ^^^ Rng.twist (rd b2 623) (rd b2 0)) := rfl

theorem loop1 (seed : UInt32) (b : Array UInt32) (base : Nat) (h : Inv seed b base 0) :
    ∀ K, K ≤ 227 → Inv seed ((List.range K).foldl body1 b) base K := by
  intro K
  induction K with
  | zero => intro _; simpa using h
  | succ K ih =>
    intro hK
    have ih := ih (by omega)
    rw [List.range_succ, List.foldl_append]
    simp only [List.foldl_cons, List.foldl_nil, body1]
    apply inv_step seed _ base K _ (by omega) ih
    obtain ⟨_, hc⟩ := ih
    apply newval seed base K
    · rw [hc (K + 397) (by omega), if_neg (by omega)]; exact congrArg (x seed) (by omega)
    · rw [hc K (by omega), if_neg (by omega)]
    · rw [hc (K + 1) (by omega), if_neg (by omega)]; exact congrArg (x seed) (by omega)

theorem loop2 (seed : UInt32) (b : Array UInt32) (base : Nat) (h : Inv seed b base 227) :
    ∀ J, J ≤ 396 → Inv seed ((List.range J).foldl body2 b) base (J + 227) := by
  intro J
  induction J with
  | zero => intro _; simpa using h
  | succ J ih =>
    intro hJ
    have ih := ih (by omega)
    rw [List.range_succ, List.foldl_append]
    simp only [List.foldl_cons, List.foldl_nil, body2]
    have e : J + 1 + 227 = J + 227 + 1 := by omega
    rw [e]
    apply inv_step seed _ base (J + 227) _ (by omega) ih
    obtain ⟨_, hc⟩ := ih
    apply newval seed base (J + 227)
    · rw [hc (J + 227 + 397 - 624) (by omega), if_pos (by omega)]; exact congrArg (x seed) (by omega)
    · rw [hc (J + 227) (by omega), if_neg (by omega)]
    · rw [hc (J + 227 + 1) (by omega), if_neg (by omega)]; exact congrArg (x seed) (by omega)

theorem regen_inv (seed : UInt32) (b : Array UInt32) (base : Nat) (h : Inv seed b base 0) :
    Inv seed (regen b) base 624 := by
  rw [regen_eq]
  have i1 := loop1 seed b base h 227 (le_refl _)
  have i2 := loop2 seed _ base i1 396 (le_refl _)
  have e : 396 + 227 = 623 := rfl
  rw [e] at i2
  simp only []
  have i3 := inv_step seed _ base 623
    (rd ((List.range 396).foldl body2 ((List.range 227).foldl body1 b)) 396 ^^^
      Rng.twist (rd ((List.range 396).foldl body2 ((List.range 227).foldl body1 b)) 623)
        (rd ((List.range 396).foldl body2 ((List.range 227).foldl body1 b)) 0)) (by omega) i2 (by
    obtain ⟨_, hc⟩ := i2
    apply newval seed base 623
    · rw [hc 396 (by omega), if_pos (by omega)]
    · rw [hc 623 (by omega), if_neg (by omega)]
    · rw [hc 0 (by omega), if_pos (by omega)])
  exact i3

/-- a fully regenerated buffer is the un-regenerated buffer of the next block -/
theorem inv_shift (seed : UInt32) (b : Array UInt32) (base : Nat) (h : Inv seed b base 624) :
    Inv seed b (base + 624) 0 := by
  obtain ⟨hs, hc⟩ := h
  refine ⟨hs, fun i hi => ?_⟩
  rw [hc i hi, if_pos hi, if_neg (by omega)]


/-! ### seeding -/
def seedBody (b : Array UInt32) (j : Nat) : Array UInt32 := wr b (j + 1) (Gen.mtSeedMul * rd b j)

theorem withSeed_eq (seed : UInt32) :
    withSeed seed = ⟨(List.range 623).foldl seedBody ((Array.replicate 624 0).setIfInBounds 0 seed), 624⟩ := rfl

theorem seed_loop (seed : UInt32) :
    ∀ J, J ≤ 623 →
      ((List.range J).foldl seedBody ((Array.replicate 624 (0 : UInt32)).setIfInBounds 0 seed)).size = 624 ∧
      ∀ i, i ≤ J → rd ((List.range J).foldl seedBody ((Array.replicate 624 (0 : UInt32)).setIfInBounds 0 seed)) i
        = x seed i := by
  intro J
  induction J with
  | zero =>
    intro _
    refine ⟨by simp, fun i hi => ?_⟩
    have : i = 0 := by omega
    subst this
    simp [rd, x_zero, Array.getD_eq_getD_getElem?]
  | succ J ih =>
    intro hJ
    obtain ⟨hs, hc⟩ := ih (by omega)
    rw [List.range_succ, List.foldl_append]
    simp only [List.foldl_cons, List.foldl_nil, seedBody]
    refine ⟨by rw [size_wr]; exact hs, fun i hi => ?_⟩
    rw [rd_wr _ _ _ _ (by omega)]
    by_cases h : i = J + 1
    · subst h
      rw [if_pos rfl, hc J (le_refl _), x_seed_succ seed J (by rw [n_val]; omega)]
      rfl
    · rw [if_neg h]; exact hc i (by omega)

theorem inv_of_cells (seed : UInt32) (b : Array UInt32) (hs : b.size = 624)
    (hc : ∀ i, i ≤ 623 → rd b i = x seed i) : Inv seed b 0 0 := by
  refine ⟨hs, fun i hi => ?_⟩
  rw [if_neg (by omega), hc i (by omega)]; exact congrArg (x seed) (by omega)

/-- the seeded buffer, named so that its 623-step fold is never unfolded by unification -/
def seededBuf (seed : UInt32) : Array UInt32 :=
  (List.range 623).foldl seedBody ((Array.replicate 624 0).setIfInBounds 0 seed)

theorem withSeed_eq' (seed : UInt32) : withSeed seed = ⟨seededBuf seed, 624⟩ := rfl

theorem seededBuf_inv (seed : UInt32) : Inv seed (seededBuf seed) 0 0 := by
  obtain ⟨hs, hc⟩ := seed_loop seed 623 (le_refl _)
  exact inv_of_cells seed _ hs hc

-- from here on the 623-step fold must never be unfolded by the unifier
attribute [irreducible] seededBuf
attribute [local irreducible] Rng.regen

/-! ### the stream -/
/-- the generator is about to output x_pos (tempered) -/
def Good (seed : UInt32) (mt : MT) (pos : Nat) : Prop :=
  ∃ base, base + mt.index = pos ∧ mt.index ≤ 624 ∧ Inv seed mt.buf base 0

set_option maxRecDepth 8000 in
theorem next_good (seed : UInt32) (mt : MT) (pos : Nat) (h : Good seed mt pos) :
    (next mt).1 = Spec.MT.temper (x seed pos) ∧ Good seed (next mt).2 (pos + 1) := by
  obtain ⟨base, hp, hi, hinv⟩ := h
  have hN : Gen.mtN = 624 := rfl
  unfold next
  rw [hN]
  by_cases hge : mt.index ≥ 624
  · have hidx : mt.index = 624 := by omega
    rw [if_pos hge]
    have hr := inv_shift seed _ base (regen_inv seed mt.buf base hinv)
    simp only []
    unfold Good
    refine ⟨?_, base + 624, ?_, ?_, ?_⟩
    rotate_left 3
    · show Inv seed (regen mt.buf) (base + 624) 0
      exact hr
    · rw [temper_eq, hr.2 0 (by omega), if_neg (by omega)]
      exact congrArg (fun k => Spec.MT.temper (x seed k)) (by omega)
    · show base + 624 + (0 + 1) = pos + 1
      omega
    · show 0 + 1 ≤ 624
      omega
  · rw [if_neg hge]
    simp only []
    unfold Good
    refine ⟨?_, base, ?_, ?_, ?_⟩
    rotate_left 3
    · show Inv seed mt.buf base 0
      exact hinv
    · rw [temper_eq, hinv.2 mt.index (by omega), if_neg (by omega), hp]
    · show base + (mt.index + 1) = pos + 1
      omega
    · show mt.index + 1 ≤ 624
      omega

theorem withSeed_good (seed : UInt32) : Good seed (withSeed seed) 624 := by
  rw [withSeed_eq']
  unfold Good
  refine ⟨0, ?_, ?_, ?_⟩
  · show 0 + 624 = 624
    rfl
  · show 624 ≤ 624
    exact Nat.le_refl _
  · show Inv seed (seededBuf seed) 0 0
    exact seededBuf_inv seed

theorem outputs_good (seed : UInt32) (count : Nat) :
    ∀ (mt : MT) (pos : Nat), Good seed mt pos →
      outputs count mt = (List.range count).map fun t => Spec.MT.temper (x seed (pos + t)) := by
  induction count with
  | zero => intro _ _ _; rfl
  | succ c ih =>
    intro mt pos h
    obtain ⟨h1, h2⟩ := next_good seed mt pos h
    rw [outputs]
    simp only []
    rw [h1, ih _ _ h2, List.range_succ_eq_map, List.map_cons, List.map_map]
    congr 1
    apply List.map_congr_left
    intro t _
    simp only [Function.comp]
    exact congrArg (fun k => Spec.MT.temper (x seed k)) (by omega)

end ScadVerif.MTRefine
