/-
The brace counter of Spec/OpenScad.lean (`braceDepthOK`) on emitted text: every syntactic class the
emitter prints is neutral, every tree is balanced.
-/
import ScadVerif.Lemmas.Parser
namespace ScadVerif.BraceLemmas
open ScadVerif ScadVerif.Spec ScadVerif.ParserLemmas

/-- a run of text that leaves the brace counter where it was, outside any string literal -/
def Neutral (s : List Char) : Prop :=
  ∀ rest d, braceDepthOK.go (s ++ rest) d false false = braceDepthOK.go rest d false false

theorem neutral_nil : Neutral [] := fun _ _ => rfl
theorem neutral_append {a b : List Char} (ha : Neutral a) (hb : Neutral b) : Neutral (a ++ b) := by
  intro rest d; rw [List.append_assoc, ha, hb]

/-- a character that is neither a quote nor a brace -/
def Plain (c : Char) : Prop := c ≠ '"' ∧ c ≠ '{' ∧ c ≠ '}'
instance : DecidablePred Plain := fun c => by unfold Plain; infer_instance

theorem neutral_plain : ∀ s : List Char, (∀ c ∈ s, Plain c) → Neutral s
  | [], _ => neutral_nil
  | c :: t, h => by
    intro rest d
    obtain ⟨h1, h2, h3⟩ := h c (by simp)
    have := neutral_plain t (fun x hx => h x (by simp [hx])) rest d
    simp only [List.cons_append]
    rw [braceDepthOK.go]
    simp only [Bool.false_eq_true, if_false, h1, h2, h3]
    exact this

/-- inside a string literal: the escaped text followed by the closing quote ends the literal -/
theorem inString_escape : ∀ (s rest : List Char) (d : Nat),
    braceDepthOK.go (escape s ++ '"' :: rest) d true false = braceDepthOK.go rest d false false
  | [], rest, d => by
    simp only [escape, List.flatMap_nil, List.nil_append]
    rw [braceDepthOK.go]; simp
  | c :: t, rest, d => by
    have ih := inString_escape t rest d
    have e : escape (c :: t) ++ '"' :: rest = escapeChar c ++ (escape t ++ '"' :: rest) := by simp [escape]
    rw [e]
    unfold escapeChar
    by_cases h1 : c = '\\'
    · subst h1; simp only [if_true, List.cons_append, List.nil_append]
      rw [braceDepthOK.go]; simp only [if_true, Bool.false_eq_true, if_false]
      rw [braceDepthOK.go]; simp only [if_true]; exact ih
    by_cases h2 : c = '"'
    · subst h2; simp only [h1, if_false, if_true, List.cons_append, List.nil_append]
      rw [braceDepthOK.go]; simp only [if_true, Bool.false_eq_true, if_false]
      rw [braceDepthOK.go]; simp only [if_true]; exact ih
    by_cases h3 : c = '\n'
    · subst h3; simp only [h1, h2, if_false, if_true, List.cons_append, List.nil_append]
      rw [braceDepthOK.go]; simp only [if_true, Bool.false_eq_true, if_false]
      rw [braceDepthOK.go]; simp only [if_true]; exact ih
    by_cases h4 : c = '\t'
    · subst h4; simp only [h1, h2, h3, if_false, if_true, List.cons_append, List.nil_append]
      rw [braceDepthOK.go]; simp only [if_true, Bool.false_eq_true, if_false]
      rw [braceDepthOK.go]; simp only [if_true]; exact ih
    by_cases h5 : c = '\r'
    · subst h5; simp only [h1, h2, h3, h4, if_false, if_true, List.cons_append, List.nil_append]
      rw [braceDepthOK.go]; simp only [if_true, Bool.false_eq_true, if_false]
      rw [braceDepthOK.go]; simp only [if_true]; exact ih
    simp only [h1, h2, h3, h4, h5, if_false, List.cons_append, List.nil_append]
    rw [braceDepthOK.go]; simp only [if_true, Bool.false_eq_true, if_false, h1, h2]; exact ih

theorem neutral_str (s : List Char) : Neutral ('"' :: (escape s ++ ['"'])) := by
  intro rest d
  simp only [List.cons_append, List.append_assoc, List.nil_append]
  rw [braceDepthOK.go]
  simp only [Bool.false_eq_true, if_false, if_true]
  exact inString_escape s rest d


theorem plain_of_idChar (c : Char) (h : isIdChar c = true ∨ isIdStart c = true) : Plain c := by
  refine ⟨?_, ?_, ?_⟩ <;> (intro he; subst he; rcases h with h | h <;> revert h <;> decide)
theorem plain_of_digit (c : Char) (h : isDigit c = true) : Plain c := by
  refine ⟨?_, ?_, ?_⟩ <;> (intro he; subst he; revert h; decide)

theorem neutral_ident (n : List Char) (h : IsIdent n = true) : Neutral n := by
  apply neutral_plain
  cases n with
  | nil => simp [IsIdent] at h
  | cons a t =>
    simp only [IsIdent, Bool.and_eq_true, List.all_eq_true] at h
    intro c hc
    rcases List.mem_cons.mp hc with rfl | hc
    · exact plain_of_idChar _ (Or.inr h.1)
    · exact plain_of_idChar _ (Or.inl (h.2 c hc))

theorem neutral_numeral (t : List Char) (h : IsNumeral t = true) : Neutral t := by
  apply neutral_plain
  have hu : ∀ body, IsUnsigned body → ∀ c ∈ body, Plain c := by
    intro body ⟨ip, fr, _, hip, hfr, hb⟩ c hc
    rw [List.all_eq_true] at hip hfr
    rcases hb with rfl | ⟨_, rfl⟩
    · exact plain_of_digit c (hip c hc)
    · rcases List.mem_append.mp hc with hc | hc
      · exact plain_of_digit c (hip c hc)
      · rcases List.mem_cons.mp hc with rfl | hc
        · exact ⟨by decide, by decide, by decide⟩
        · exact plain_of_digit c (hfr c hc)
  rcases isNumeral_cases t h with ⟨body, rfl, hb⟩ | ⟨hb, _⟩
  · intro c hc
    rcases List.mem_cons.mp hc with rfl | hc
    · exact ⟨by decide, by decide, by decide⟩
    · exact hu body hb c hc
  · exact hu t hb

theorem neutral_chars (s : List Char) (h : ∀ c ∈ s, Plain c) : Neutral s := neutral_plain s h

mutual
theorem neutral_value : (v : Value) → ValueOK v → Neutral (flatten v.pieces)
  | .num t, h => by simpa [Value.pieces, flatten, Piece.chars, Tok.chars] using neutral_numeral t h
  | .bool b, _ => by
    cases b <;> (simp only [Value.pieces, flatten, List.flatMap_cons, List.flatMap_nil, Piece.chars, Tok.chars,
      List.append_nil, Bool.false_eq_true, if_false, if_true]; exact neutral_plain _ (by decide))
  | .str s, _ => by simpa [Value.pieces, flatten, Piece.chars, Tok.chars] using neutral_str s
  | .undef, _ => by
    simp only [Value.pieces, flatten, List.flatMap_cons, List.flatMap_nil, Piece.chars, Tok.chars, List.append_nil]
    exact neutral_plain _ (by decide)
  | .vec sp items, h => by
    have := neutral_values sp items h
    simp only [Value.pieces, flatten_cons, flatten_append, flatten_nil, Piece.chars, Tok.chars, List.append_nil]
    exact neutral_append (neutral_plain ['['] (by decide)) (neutral_append this (neutral_plain [']'] (by decide)))
theorem neutral_values : (sp : Bool) → (vs : List Value) → ValuesOK vs → Neutral (flatten (Value.piecesList sp vs))
  | _, [], _ => by simpa [Value.piecesList, flatten] using neutral_nil
  | _, [v], h => by simpa [Value.piecesList] using neutral_value v h.1
  | sp, v :: w :: rest, h => by
    have h1 := neutral_value v h.1
    have h2 := neutral_values sp (w :: rest) h.2
    simp only [Value.piecesList, flatten_append, flatten_cons, Piece.chars, Tok.chars]
    refine neutral_append h1 (neutral_append (neutral_plain [','] (by decide)) (neutral_append ?_ h2))
    cases sp
    · simpa [flatten] using neutral_nil
    · simpa [flatten, Piece.chars] using neutral_plain [' '] (by decide)
end

theorem neutral_arg (a : Arg) (h : ArgOK a) : Neutral (flatten a.pieces) := by
  cases a with
  | named n v =>
    simp only [Arg.pieces, flatten_cons, Piece.chars, Tok.chars]
    exact neutral_append (neutral_ident n h.1) (neutral_append (neutral_plain ['='] (by decide)) (neutral_value v h.2))
  | pos v => simpa [Arg.pieces] using neutral_value v h

theorem neutral_args : (as : List Arg) → (∀ a ∈ as, ArgOK a) → Neutral (flatten (argsPieces as))
  | [], _ => by simpa [argsPieces, flatten] using neutral_nil
  | [a], h => by simpa [argsPieces] using neutral_arg a (h a (by simp))
  | a :: b :: tl, h => by
    have h1 := neutral_arg a (h a (by simp))
    have h2 := neutral_args (b :: tl) (fun x hx => h x (by simp [hx]))
    simp only [argsPieces, flatten_append, flatten_cons, Piece.chars, Tok.chars]
    exact neutral_append h1 (neutral_append (neutral_plain [','] (by decide))
      (neutral_append (neutral_plain [' '] (by decide)) h2))


section Trees
variable {ν : Type} (showNum : ν → List Char)

theorem neutral_header (h : Header) (hok : HeaderOK h) :
    Neutral (h.name ++ '(' :: (flatten (argsPieces h.args) ++ [')'])) := by
  refine neutral_append (neutral_ident h.name hok.1) ?_
  have : ('(' :: (flatten (argsPieces h.args) ++ [')'])) = ['('] ++ (flatten (argsPieces h.args) ++ [')']) := rfl
  rw [this]
  exact neutral_append (neutral_plain ['('] (by decide))
    (neutral_append (neutral_args h.args hok.2) (neutral_plain [')'] (by decide)))

mutual
/-- **every emitted tree is brace-balanced**: scanning it leaves the block depth unchanged and ends
outside any string literal -/
theorem neutral_tree : (t : Scad ν) → TreeOK showNum t → Neutral (flatten (t.pieces showNum))
  | .mk op cs, ⟨⟨h, hh, hok⟩, hprim, hcs⟩ => by
    have hhd := neutral_header h hok
    cases hp : op.isPrimitive with
    | true =>
      have := hprim hp; subst this
      intro rest d
      rw [prim_text showNum op h hh hp rest]
      have e : h.name ++ '(' :: (flatten (argsPieces h.args) ++ ')' :: ';' :: '\n' :: rest) =
          (h.name ++ '(' :: (flatten (argsPieces h.args) ++ [')'])) ++ ([';', '\n'] ++ rest) := by simp
      rw [e, hhd, neutral_plain [';', '\n'] (by decide)]
    | false =>
      have hch := neutral_trees cs hcs
      intro rest d
      rw [block_text showNum op cs h hh hp rest]
      have e : h.name ++ '(' :: (flatten (argsPieces h.args) ++ ')' :: ' ' :: '{' :: '\n' ::
          (flatten (ScadList.pieces showNum cs) ++ '}' :: '\n' :: rest)) =
          (h.name ++ '(' :: (flatten (argsPieces h.args) ++ [')'])) ++ ([' '] ++ ('{' :: (['\n'] ++
            (flatten (ScadList.pieces showNum cs) ++ ('}' :: (['\n'] ++ rest)))))) := by simp
      rw [e, hhd, neutral_plain [' '] (by decide)]
      rw [braceDepthOK.go]
      simp only [Bool.false_eq_true, if_false, show ('{' : Char) ≠ '"' by decide, if_true]
      rw [neutral_plain ['\n'] (by decide), hch]
      rw [braceDepthOK.go]
      simp only [Bool.false_eq_true, if_false, show ('}' : Char) ≠ '"' by decide, show ('}' : Char) ≠ '{' by decide,
        if_true, Nat.add_sub_cancel, show d + 1 ≠ 0 by omega]
      rw [neutral_plain ['\n'] (by decide)]
theorem neutral_trees : (cs : ScadList ν) → TreesOK showNum cs → Neutral (flatten (ScadList.pieces showNum cs))
  | .nil, _ => by simpa [ScadList.pieces, flatten] using neutral_nil
  | .cons t ts, ⟨h1, h2⟩ => by
    simp only [ScadList.pieces, flatten_append]
    exact neutral_append (neutral_tree t h1) (neutral_trees ts h2)
end

theorem neutral_emitAll : (ts : List (Scad ν)) → (∀ t ∈ ts, TreeOK showNum t) → Neutral (emitAll showNum ts)
  | [], _ => by simpa [emitAll] using neutral_nil
  | t :: ts, h => by
    rw [emitAll_cons]
    exact neutral_append (neutral_tree showNum t (h t (by simp))) (neutral_emitAll ts (fun x hx => h x (by simp [hx])))

end Trees

end ScadVerif.BraceLemmas
