/- helper lemmas about lengths and normalisation over ℝ -/
import ScadVerif.Lemmas.RealInst
import ScadVerif.Model.Mt4
namespace ScadVerif
open Real

theorem Pt3.len2_eq (a : Pt3 ℝ) : a.len2 = a.x ^ 2 + a.y ^ 2 + a.z ^ 2 := by
  simp [Pt3.len2, Pt3.dot]; ring
theorem Pt3.len2_nonneg (a : Pt3 ℝ) : 0 ≤ a.len2 := by rw [Pt3.len2_eq]; positivity
theorem Pt3.len_sq (a : Pt3 ℝ) : a.len ^ 2 = a.len2 := by
  simp [Pt3.len, Real.sq_sqrt (Pt3.len2_nonneg a)]
theorem Pt3.len2_pos {a : Pt3 ℝ} (h : a ≠ ⟨0, 0, 0⟩) : 0 < a.len2 := by
  rw [Pt3.len2_eq]
  rcases a with ⟨x, y, z⟩
  have : x ≠ 0 ∨ y ≠ 0 ∨ z ≠ 0 := by
    by_contra hc; push Not at hc; exact h (by rw [hc.1, hc.2.1, hc.2.2])
  rcases this with hx | hy | hz
  · have := sq_pos_of_ne_zero hx (a := x); positivity
  · have := sq_pos_of_ne_zero hy (a := y); positivity
  · have := sq_pos_of_ne_zero hz (a := z); positivity
theorem Pt3.len_pos {a : Pt3 ℝ} (h : a ≠ ⟨0, 0, 0⟩) : 0 < a.len := by
  simpa [Pt3.len] using Real.sqrt_pos.mpr (Pt3.len2_pos h)
theorem Pt3.normalized_len2 {a : Pt3 ℝ} (h : a ≠ ⟨0, 0, 0⟩) : a.normalized.len2 = 1 := by
  have hl := Pt3.len_pos h
  have h2 := Pt3.len_sq a
  rw [Pt3.len2_eq] at h2
  simp only [Pt3.normalized, Pt3.len2, Pt3.dot]
  field_simp
  nlinarith [h2]
/-- `normalized a = a / |a|` componentwise -/
theorem Pt3.normalized_comp (a : Pt3 ℝ) :
    a.normalized = ⟨a.x / a.len, a.y / a.len, a.z / a.len⟩ := rfl

theorem Pt2.len2_eq (a : Pt2 ℝ) : a.len2 = a.x ^ 2 + a.y ^ 2 := by
  simp [Pt2.len2, Pt2.dot]; ring
theorem Pt2.len2_nonneg (a : Pt2 ℝ) : 0 ≤ a.len2 := by rw [Pt2.len2_eq]; positivity
theorem Pt2.len_sq (a : Pt2 ℝ) : a.len ^ 2 = a.len2 := by
  simp [Pt2.len, Real.sq_sqrt (Pt2.len2_nonneg a)]
theorem Pt2.len2_pos {a : Pt2 ℝ} (h : a ≠ ⟨0, 0⟩) : 0 < a.len2 := by
  rw [Pt2.len2_eq]
  rcases a with ⟨x, y⟩
  have : x ≠ 0 ∨ y ≠ 0 := by
    by_contra hc; push Not at hc; exact h (by rw [hc.1, hc.2])
  rcases this with hx | hy
  · have := sq_pos_of_ne_zero hx (a := x); positivity
  · have := sq_pos_of_ne_zero hy (a := y); positivity
theorem Pt2.len_pos {a : Pt2 ℝ} (h : a ≠ ⟨0, 0⟩) : 0 < a.len := by
  simpa [Pt2.len] using Real.sqrt_pos.mpr (Pt2.len2_pos h)
theorem Pt2.normalized_len2 {a : Pt2 ℝ} (h : a ≠ ⟨0, 0⟩) : a.normalized.len2 = 1 := by
  have hl := Pt2.len_pos h
  have h2 := Pt2.len_sq a
  rw [Pt2.len2_eq] at h2
  simp only [Pt2.normalized, Pt2.len2, Pt2.dot]
  field_simp
  nlinarith [h2]

end ScadVerif
