/-
Invariants of the ear-clipping loop of Model/Tri.lean (the model of scad_tree::triangulate).

`clipRun` is the loop with its ghost state made explicit: it returns the emitted triangles as
triples of (label, point) vertices together with the residual polygon.  `clip_eq` shows that
the model's `clip` (which returns the flat label list, as the Rust code does) is its projection.
Every invariant is then an instance of one induction principle, `clipRun_inv`.
-/
import Mathlib.Data.List.Perm.Basic
import ScadVerif.Lemmas.RealInst
import ScadVerif.Model.Tri
import ScadVerif.Spec.Mesh
namespace ScadVerif.TriLemmas
open ScadVerif ScadVerif.Tri

section Generic
variable {α : Type} [Add α] [Sub α] [Mul α] [Div α] [Neg α] [OfNat α 0] [OfNat α 1] [Cmp α]

abbrev V (α : Type) := Nat × Pt2 α
abbrev Tri3 (α : Type) := V α × V α × V α

def vAt (poly : Poly α) (i : Nat) : V α := poly.getD i (0, ⟨0, 0⟩)
theorem idx_eq (poly : Poly α) (i : Nat) : idx poly i = (vAt poly i).1 := rfl
theorem pt_eq (poly : Poly α) (i : Nat) : pt poly i = (vAt poly i).2 := rfl

/-- the triangle cut off at vertex `e` -/
def earAt (poly : Poly α) (e : Nat) : Tri3 α :=
  (vAt poly (prevIdx poly.length e), vAt poly e, vAt poly (nextIdx poly.length e))

/-- the clipping loop with the emitted triangles and the residual polygon made explicit -/
def clipRun : Nat → Poly α → Bool → List (Tri3 α) → List (Tri3 α) × Poly α
  | 0, poly, _, acc => (acc, poly)
  | fuel + 1, poly, ccw, acc =>
    if poly.length < 3 then (acc, poly) else
    match findEar poly ccw with
    | none => (acc, poly)
    | some e => clipRun fuel (poly.eraseIdx e) ccw (acc ++ [earAt poly e])

def triLabels (t : Tri3 α) : List Nat := [t.1.1, t.2.1.1, t.2.2.1]
def labels (ts : List (Tri3 α)) : List Nat := ts.flatMap triLabels

theorem labels_append (a b : List (Tri3 α)) : labels (a ++ b) = labels a ++ labels b := by
  simp [labels]

/-- the model's `clip` is the label projection of `clipRun` -/
theorem clip_eq (fuel : Nat) (poly : Poly α) (ccw : Bool) (acc : List (Tri3 α)) :
    clip fuel poly ccw (labels acc) = labels (clipRun fuel poly ccw acc).1 := by
  induction fuel generalizing poly acc with
  | zero => simp [clip, clipRun]
  | succ f ih =>
    simp only [clip, clipRun]
    split
    · rfl
    · cases h : findEar poly ccw with
      | none => rfl
      | some e =>
        simp only []
        have := ih (poly.eraseIdx e) (acc ++ [earAt poly e])
        rw [labels_append] at this
        simpa [labels, triLabels, earAt, idx_eq] using this

/-- **induction principle for the loop**: a relation between emitted triangles and current polygon
that holds initially and is preserved by cutting any ear the scan can return holds at the end -/
theorem clipRun_inv (Inv : List (Tri3 α) → Poly α → Prop) (ccw : Bool)
    (step : ∀ acc poly e, 3 ≤ poly.length → findEar poly ccw = some e → Inv acc poly →
      Inv (acc ++ [earAt poly e]) (poly.eraseIdx e))
    (fuel : Nat) (poly : Poly α) (acc : List (Tri3 α)) (h0 : Inv acc poly) :
    Inv (clipRun fuel poly ccw acc).1 (clipRun fuel poly ccw acc).2 := by
  induction fuel generalizing poly acc with
  | zero => simpa [clipRun] using h0
  | succ f ih =>
    simp only [clipRun]
    split
    · exact h0
    · rename_i hlen
      cases h : findEar poly ccw with
      | none => exact h0
      | some e => exact ih _ _ (step acc poly e (by omega) h h0)

/-! ### what the scan returns -/
theorem findIdxFrom_some {β : Type} (g : Nat → Bool) (l : List β) (k e : Nat)
    (h : findIdxFrom l k (fun i _ => g i) = some e) :
    k ≤ e ∧ e < k + l.length ∧ g e = true ∧ ∀ j, k ≤ j → j < e → g j = false := by
  induction l generalizing k with
  | nil => simp [findIdxFrom] at h
  | cons x xs ih =>
    simp only [findIdxFrom] at h
    split at h
    · rename_i hg
      injection h with h; subst h
      exact ⟨Nat.le_refl _, by simp, hg, fun j h1 h2 => by omega⟩
    · rename_i hg
      obtain ⟨h1, h2, h3, h4⟩ := ih (k + 1) h
      refine ⟨by omega, by simp only [List.length_cons]; omega, h3, fun j hj1 hj2 => ?_⟩
      by_cases hjk : j = k
      · subst hjk; simpa using hg
      · exact h4 j (by omega) hj2

theorem findEar_some (poly : Poly α) (ccw : Bool) (e : Nat) (h : findEar poly ccw = some e) :
    e < poly.length ∧ isEar poly ccw e = true ∧ ∀ j, j < e → isEar poly ccw j = false := by
  obtain ⟨_, h2, h3, h4⟩ := findIdxFrom_some (fun i => isEar poly ccw i) poly 0 e h
  exact ⟨by omega, h3, fun j hj => h4 j (Nat.zero_le _) hj⟩

/-- an ear turns like the reference orientation -/
theorem isEar_orient (poly : Poly α) (ccw : Bool) (i : Nat) (h : isEar poly ccw i = true) :
    isCcw (pt poly (prevIdx poly.length i)) (pt poly i) (pt poly (nextIdx poly.length i)) = ccw := by
  unfold isEar at h
  simp only [] at h
  split at h
  · simp at h
  · rename_i hne
    simpa using hne

theorem prevIdx_lt (n i : Nat) (h : i < n) : prevIdx n i < n := by
  unfold prevIdx; split <;> omega
theorem nextIdx_lt (n i : Nat) (h : i < n) : nextIdx n i < n := by
  unfold nextIdx; split <;> omega

theorem vAt_mem (poly : Poly α) (i : Nat) (h : i < poly.length) : vAt poly i ∈ poly := by
  unfold vAt
  rw [List.getD_eq_getElem?_getD, List.getElem?_eq_getElem h]
  simp

/-! ### counting -/
/-- triangles emitted plus vertices left is constant -/
theorem clipRun_count (fuel : Nat) (poly : Poly α) (ccw : Bool) (acc : List (Tri3 α)) :
    (clipRun fuel poly ccw acc).1.length + (clipRun fuel poly ccw acc).2.length =
      acc.length + poly.length := by
  refine clipRun_inv (fun a p => a.length + p.length = acc.length + poly.length) ccw ?_ fuel poly acc rfl
  intro a p e hlen hear hinv
  have he := (findEar_some p ccw e hear).1
  simp only [List.length_append, List.length_singleton, List.length_eraseIdx, he, if_true]
  omega

/-- the residual polygon never drops below two vertices -/
theorem clipRun_residual_ge (fuel : Nat) (poly : Poly α) (ccw : Bool) (acc : List (Tri3 α))
    (h : 2 ≤ poly.length) : 2 ≤ (clipRun fuel poly ccw acc).2.length := by
  refine clipRun_inv (fun _ p => 2 ≤ p.length) ccw ?_ fuel poly acc h
  intro a p e hlen hear _
  have he := (findEar_some p ccw e hear).1
  simp only [List.length_eraseIdx, he, if_true]; omega

/-- every emitted vertex is a vertex (label and point together) of the input polygon, and the
residual polygon is a sub-list of the input -/
theorem clipRun_mem (fuel : Nat) (poly : Poly α) (ccw : Bool) :
    (∀ t ∈ (clipRun fuel poly ccw []).1, t.1 ∈ poly ∧ t.2.1 ∈ poly ∧ t.2.2 ∈ poly) ∧
      (clipRun fuel poly ccw []).2.Sublist poly := by
  refine clipRun_inv (fun a p => (∀ t ∈ a, t.1 ∈ poly ∧ t.2.1 ∈ poly ∧ t.2.2 ∈ poly) ∧ p.Sublist poly)
    ccw ?_ fuel poly [] ⟨by simp, List.Sublist.refl _⟩
  intro a p e hlen hear ⟨h1, h2⟩
  have he := (findEar_some p ccw e hear).1
  refine ⟨?_, (List.eraseIdx_sublist p e).trans h2⟩
  intro t ht
  rcases List.mem_append.mp ht with ht | ht
  · exact h1 t ht
  · simp only [List.mem_singleton] at ht
    subst ht
    exact ⟨h2.subset (vAt_mem p _ (prevIdx_lt _ _ he)), h2.subset (vAt_mem p _ he),
      h2.subset (vAt_mem p _ (nextIdx_lt _ _ he))⟩

/-- every emitted triangle turns like the reference orientation -/
theorem clipRun_orient (fuel : Nat) (poly : Poly α) (ccw : Bool) :
    ∀ t ∈ (clipRun fuel poly ccw []).1, isCcw t.1.2 t.2.1.2 t.2.2.2 = ccw := by
  refine clipRun_inv (fun a _ => ∀ t ∈ a, isCcw t.1.2 t.2.1.2 t.2.2.2 = ccw) ccw ?_ fuel poly []
    (by simp)
  intro a p e hlen hear h1 t ht
  rcases List.mem_append.mp ht with ht | ht
  · exact h1 t ht
  · simp only [List.mem_singleton] at ht
    subst ht
    exact isEar_orient p ccw e (findEar_some p ccw e hear).2.1

end Generic

/-! ### area conservation (exact arithmetic) -/
section Area
open ScadVerif.Spec

def d0 : Pt2 ℝ := ⟨0, 0⟩
def cross2 (u v : Pt2 ℝ) : ℝ := u.x * v.y - v.x * u.y
/-- open chain sum of the shoelace formula -/
def chain : List (Pt2 ℝ) → ℝ
  | a :: b :: rest => cross2 a b + chain (b :: rest)
  | _ => 0

theorem cross3_eq (a b c : Pt2 ℝ) : Spec.cross3 a b c = cross2 a b + cross2 b c - cross2 a c := by
  simp only [Spec.cross3, cross2]; ring
theorem tri_cross3_eq (a b c : Pt2 ℝ) : Tri.cross3 a b c = Spec.cross3 a b c := rfl

theorem getD_eraseIdx {β : Type} (l : List β) (e i : Nat) (d : β) :
    (l.eraseIdx e).getD i d = if i < e then l.getD i d else l.getD (i + 1) d := by
  simp only [List.getD_eq_getElem?_getD, List.getElem?_eraseIdx]
  split <;> rfl

theorem area2_go (p0 : Pt2 ℝ) : ∀ l : List (Pt2 ℝ), l ≠ [] →
    area2.go p0 l = chain l + cross2 (l.getD (l.length - 1) d0) p0
  | [], h => absurd rfl h
  | [q], _ => by simp [area2.go, chain, cross2]
  | a :: b :: rest, _ => by
    have ih := area2_go p0 (b :: rest) (by simp)
    simp only [area2.go, chain, ih, cross2, List.length_cons]
    have : (a :: b :: rest).getD (rest.length + 1 + 1 - 1) d0 = (b :: rest).getD (rest.length + 1 - 1) d0 := by
      simp [List.getD_cons_succ]
    rw [this]; ring

/-- `area2` as open chain plus closing edge, by position -/
theorem area2_eq (l : List (Pt2 ℝ)) :
    area2 l = chain l + cross2 (l.getD (l.length - 1) d0) (l.getD 0 d0) := by
  cases l with
  | nil => simp [area2, chain, cross2, d0]
  | cons p0 rest =>
    simp only [area2]
    rw [area2_go p0 (p0 :: rest) (by simp)]
    simp

theorem chain_erase_interior : ∀ (l : List (Pt2 ℝ)) (e : Nat), 0 < e → e + 1 < l.length →
    chain l = chain (l.eraseIdx e) +
      Spec.cross3 (l.getD (e - 1) d0) (l.getD e d0) (l.getD (e + 1) d0)
  | [], e, _, h => by simp at h
  | [_], e, _, h => by simp at h
  | x :: y :: ys, e, he, hlen => by
    cases e with
    | zero => omega
    | succ e' =>
      cases e' with
      | zero =>
        cases ys with
        | nil => simp at hlen
        | cons c rest =>
          simp only [chain, List.eraseIdx_cons_succ, List.eraseIdx_cons_zero, cross3_eq]
          simp; ring
      | succ e'' =>
        have ih := chain_erase_interior (y :: ys) (e'' + 1) (by omega) (by simp at hlen ⊢; omega)
        simp only [List.eraseIdx_cons_succ] at ih ⊢
        cases hys : ys.eraseIdx e'' with
        | nil =>
          -- impossible: ys has at least e''+2 elements
          have : (ys.eraseIdx e'').length = ys.length - 1 := by
            rw [List.length_eraseIdx]; simp at hlen; simp; omega
          rw [hys] at this; simp at hlen this; omega
        | cons z zs =>
          rw [hys] at ih
          simp only [chain] at ih ⊢
          rw [ih]
          simp [List.getD_cons_succ]; ring

theorem chain_erase_last : ∀ (l : List (Pt2 ℝ)), 2 ≤ l.length →
    chain l = chain (l.eraseIdx (l.length - 1)) +
      cross2 (l.getD (l.length - 2) d0) (l.getD (l.length - 1) d0)
  | [], h => by simp at h
  | [_], h => by simp at h
  | [x, y], _ => by simp [chain]
  | x :: y :: z :: r, _ => by
    have ih := chain_erase_last (y :: z :: r) (by simp)
    simp only [List.length_cons] at ih ⊢
    have e1 : r.length + 1 + 1 + 1 - 1 = (r.length + 1 + 1 - 1) + 1 := by omega
    have e2 : r.length + 1 + 1 + 1 - 2 = (r.length + 1 + 1 - 2) + 1 := by omega
    rw [e1, e2, List.eraseIdx_cons_succ, List.getD_cons_succ, List.getD_cons_succ]
    have e3 : r.length + 1 + 1 - 1 = r.length + 1 := by omega
    rw [e3] at ih ⊢
    rw [List.eraseIdx_cons_succ] at ih ⊢
    simp only [chain] at ih ⊢
    rw [ih]; ring


/-- **cutting a vertex changes twice the signed area by the cut triangle's** -/
theorem area2_eraseIdx (l : List (Pt2 ℝ)) (e : Nat) (hn : 3 ≤ l.length) (he : e < l.length) :
    area2 l = area2 (l.eraseIdx e) +
      Spec.cross3 (l.getD (prevIdx l.length e) d0) (l.getD e d0) (l.getD (nextIdx l.length e) d0) := by
  have hlen : (l.eraseIdx e).length = l.length - 1 := by rw [List.length_eraseIdx]; simp [he]
  rw [area2_eq l, area2_eq (l.eraseIdx e), hlen]
  by_cases h0 : e = 0
  · subst h0
    match l, hn with
    | p0 :: p1 :: rest, _ =>
      simp only [prevIdx, nextIdx, if_true, List.length_cons, List.eraseIdx_cons_zero, chain, cross3_eq]
      have hn1 : rest.length + 1 + 1 - 1 = rest.length + 1 := by omega
      have hn2 : rest.length + 1 - 1 = rest.length := by omega
      have hne : ¬ (0 = rest.length + 1) := by omega
      simp only [hn1, hn2, hne, if_false, List.getD_cons_succ, List.getD_cons_zero, Nat.zero_add]
      ring
  · by_cases hl : e = l.length - 1
    · have h2 := chain_erase_last l (by omega)
      rw [← hl] at h2
      have hp : prevIdx l.length e = l.length - 2 := by unfold prevIdx; simp [h0]; omega
      have hnx : nextIdx l.length e = 0 := by unfold nextIdx; simp [hl]
      rw [hp, hnx, h2, getD_eraseIdx, getD_eraseIdx]
      have c1 : l.length - 1 - 1 < e := by omega
      have c2 : 0 < e := by omega
      simp only [c1, c2, if_true, cross3_eq]
      have : l.length - 1 - 1 = l.length - 2 := by omega
      rw [this, hl]; ring
    · have h2 := chain_erase_interior l e (by omega) (by omega)
      have hp : prevIdx l.length e = e - 1 := by unfold prevIdx; simp [h0]
      have hnx : nextIdx l.length e = e + 1 := by unfold nextIdx; simp [hl]
      rw [hp, hnx, h2, getD_eraseIdx, getD_eraseIdx]
      have c1 : ¬ (l.length - 1 - 1 < e) := by omega
      have c2 : 0 < e := by omega
      simp only [c1, c2, if_true, if_false]
      have : l.length - 1 - 1 + 1 = l.length - 1 := by omega
      rw [this]; ring

/-- points of a labelled polygon -/
def pts (poly : Poly ℝ) : List (Pt2 ℝ) := poly.map (·.2)

theorem pts_getD (poly : Poly ℝ) (i : Nat) : (pts poly).getD i d0 = pt poly i := by
  simp only [pts, pt, List.getD_eq_getElem?_getD, List.getElem?_map]
  cases poly[i]? <;> rfl

theorem pts_eraseIdx (poly : Poly ℝ) (e : Nat) : pts (poly.eraseIdx e) = (pts poly).eraseIdx e := by
  simp [pts, List.eraseIdx_map]

def triArea2 (t : Tri3 ℝ) : ℝ := Spec.cross3 t.1.2 t.2.1.2 t.2.2.2

/-- **area conservation**: twice the signed area of the input polygon is that of the emitted
triangles plus that of the residual polygon, at every point of the run -/
theorem clipRun_area (fuel : Nat) (poly : Poly ℝ) (ccw : Bool) :
    area2 (pts poly) =
      ((clipRun fuel poly ccw []).1.map triArea2).sum + area2 (pts (clipRun fuel poly ccw []).2) := by
  refine clipRun_inv (fun a p => area2 (pts poly) = (a.map triArea2).sum + area2 (pts p)) ccw ?_
    fuel poly [] (by simp)
  intro a p e hlen hear hinv
  have he := (findEar_some p ccw e hear).1
  have := area2_eraseIdx (pts p) e (by simpa [pts] using hlen) (by simpa [pts] using he)
  rw [hinv, this, pts_eraseIdx]
  simp only [List.map_append, List.sum_append, List.map_cons, List.map_nil, List.sum_cons, List.sum_nil,
    triArea2, earAt, pts_getD, ← pt_eq]
  have hl : (pts p).length = p.length := by simp [pts]
  rw [hl]; ring

/-- a polygon of fewer than three vertices encloses nothing -/
theorem area2_short (l : List (Pt2 ℝ)) (h : l.length < 3) : area2 l = 0 := by
  match l, h with
  | [], _ => simp [area2]
  | [a], _ => simp [area2, area2.go]
  | [a, b], _ => simp [area2, area2.go]

end Area
/-! ### directed edges of the emitted triangles -/
abbrev Edge := Nat × Nat

/-- consecutive pairs of a list (open chain) -/
def chainE : List Nat → List Edge
  | a :: b :: rest => (a, b) :: chainE (b :: rest)
  | _ => []
/-- consecutive pairs of a cyclic list: the chain plus the closing pair -/
def ringE (l : List Nat) : List Edge := chainE l ++ [(l.getD (l.length - 1) 0, l.getD 0 0)]

theorem chainE_erase_interior : ∀ (l : List Nat) (e : Nat), 0 < e → e + 1 < l.length →
    ((l.getD (e - 1) 0, l.getD (e + 1) 0) :: chainE l).Perm
      ((l.getD (e - 1) 0, l.getD e 0) :: (l.getD e 0, l.getD (e + 1) 0) :: chainE (l.eraseIdx e))
  | [], e, _, h => by simp at h
  | [_], e, _, h => by simp at h
  | x :: y :: ys, e, he, hlen => by
    cases e with
    | zero => omega
    | succ e' =>
      cases e' with
      | zero =>
        cases ys with
        | nil => simp at hlen
        | cons c rest =>
          simp only [chainE, List.eraseIdx_cons_succ, List.eraseIdx_cons_zero]
          simp only [Nat.zero_add, Nat.sub_self, List.getD_cons_zero, List.getD_cons_succ]
          -- (x,c) :: (x,y) :: (y,c) :: rest'  ~  (x,y) :: (y,c) :: (x,c) :: rest'
          exact (List.Perm.swap _ _ _).trans ((List.Perm.swap _ _ _).cons _)
      | succ e'' =>
        have ih := chainE_erase_interior (y :: ys) (e'' + 1) (by omega) (by simp at hlen ⊢; omega)
        simp only [List.eraseIdx_cons_succ] at ih ⊢
        cases hys : ys.eraseIdx e'' with
        | nil =>
          have : (ys.eraseIdx e'').length = ys.length - 1 := by
            rw [List.length_eraseIdx]; simp at hlen; simp; omega
          rw [hys] at this; simp at hlen this; omega
        | cons z zs =>
          rw [hys] at ih
          simp only [chainE] at ih ⊢
          simp only [Nat.add_sub_cancel, List.getD_cons_succ] at ih ⊢
          -- A :: P :: C ~ P :: A :: C ~ P :: A' :: B' :: R ~ A' :: P :: B' :: R ~ A' :: B' :: P :: R
          exact (List.Perm.swap _ _ _).trans ((List.Perm.cons _ ih).trans
            ((List.Perm.swap _ _ _).trans ((List.Perm.swap _ _ _).cons _)))


theorem chainE_erase_last : ∀ (l : List Nat), 2 ≤ l.length →
    (chainE l).Perm ((l.getD (l.length - 2) 0, l.getD (l.length - 1) 0) :: chainE (l.eraseIdx (l.length - 1)))
  | [], h => by simp at h
  | [_], h => by simp at h
  | [x, y], _ => by simp [chainE]
  | x :: y :: z :: r, _ => by
    have ih := chainE_erase_last (y :: z :: r) (by simp)
    simp only [List.length_cons] at ih ⊢
    have e1 : r.length + 1 + 1 + 1 - 1 = (r.length + 1 + 1 - 1) + 1 := by omega
    have e2 : r.length + 1 + 1 + 1 - 2 = (r.length + 1 + 1 - 2) + 1 := by omega
    rw [e1, e2, List.eraseIdx_cons_succ, List.getD_cons_succ, List.getD_cons_succ]
    have e3 : r.length + 1 + 1 - 1 = r.length + 1 := by omega
    rw [e3] at ih ⊢
    rw [List.eraseIdx_cons_succ] at ih ⊢
    simp only [chainE] at ih ⊢
    exact (List.Perm.cons _ ih).trans (List.Perm.swap _ _ _)

theorem ringE_length (l : List Nat) : (ringE l).length = (chainE l).length + 1 := by simp [ringE]

/-- **cutting vertex `e` out of a cyclic list**: the ring loses the two edges at `e` and gains the
chord between its neighbours -/
theorem ringE_eraseIdx (l : List Nat) (e : Nat) (hn : 3 ≤ l.length) (he : e < l.length) :
    ((l.getD (prevIdx l.length e) 0, l.getD (nextIdx l.length e) 0) :: ringE l).Perm
      ((l.getD (prevIdx l.length e) 0, l.getD e 0) :: (l.getD e 0, l.getD (nextIdx l.length e) 0) ::
        ringE (l.eraseIdx e)) := by
  have hlen : (l.eraseIdx e).length = l.length - 1 := by rw [List.length_eraseIdx]; simp [he]
  unfold ringE
  rw [hlen]
  by_cases h0 : e = 0
  · subst h0
    match l, hn with
    | p0 :: p1 :: rest, _ =>
      have hn1 : rest.length + 1 + 1 - 1 = rest.length + 1 := by omega
      have hn2 : rest.length + 1 - 1 = rest.length := by omega
      have hne : ¬ (0 = rest.length + 1) := by omega
      simp only [prevIdx, nextIdx, if_true, List.length_cons, List.eraseIdx_cons_zero, chainE, hn1, hn2, hne,
        if_false, List.getD_cons_succ, List.getD_cons_zero, Nat.zero_add, List.cons_append]
      -- (L,p1) :: (p0,p1) :: (C ++ [(L,p0)]) ~ (L,p0) :: (p0,p1) :: (C ++ [(L,p1)])
      rw [List.perm_iff_count]
      intro x
      simp only [List.count_cons, List.count_append, List.count_nil]
      omega
  · by_cases hl : e = l.length - 1
    · have h2 := chainE_erase_last l (by omega)
      rw [← hl] at h2
      have hp : prevIdx l.length e = l.length - 2 := by unfold prevIdx; simp [h0]; omega
      have hnx : nextIdx l.length e = 0 := by unfold nextIdx; simp [hl]
      rw [hp, hnx, TriLemmas.getD_eraseIdx, TriLemmas.getD_eraseIdx]
      have c1 : l.length - 1 - 1 < e := by omega
      have c2 : 0 < e := by omega
      simp only [c1, c2, if_true]
      have e1 : l.length - 1 - 1 = l.length - 2 := by omega
      rw [e1]
      rw [hl] at h2 ⊢
      rw [List.perm_iff_count] at h2 ⊢
      intro x
      have := h2 x
      simp only [List.count_cons, List.count_append, List.count_nil] at this ⊢
      omega
    · have h2 := chainE_erase_interior l e (by omega) (by omega)
      have hp : prevIdx l.length e = e - 1 := by unfold prevIdx; simp [h0]
      have hnx : nextIdx l.length e = e + 1 := by unfold nextIdx; simp [hl]
      rw [hp, hnx, TriLemmas.getD_eraseIdx, TriLemmas.getD_eraseIdx]
      have c1 : ¬ (l.length - 1 - 1 < e) := by omega
      have c2 : 0 < e := by omega
      simp only [c1, c2, if_true, if_false]
      have e1 : l.length - 1 - 1 + 1 = l.length - 1 := by omega
      rw [e1]
      rw [List.perm_iff_count] at h2 ⊢
      intro x
      have := h2 x
      simp only [List.count_cons, List.count_append, List.count_nil] at this ⊢
      omega


/-! ### the edge certificate of a run -/
section Cert
set_option linter.unusedSectionVars false
variable {α : Type} [Add α] [Sub α] [Mul α] [Div α] [Neg α] [OfNat α 0] [OfNat α 1] [Cmp α]

/-- the labels of a polygon, in order -/
def lab (poly : Poly α) : List Nat := poly.map (·.1)
/-- the three directed edges of an emitted triangle, by label -/
def triEdges (t : Tri3 α) : List Edge := [(t.1.1, t.2.1.1), (t.2.1.1, t.2.2.1), (t.2.2.1, t.1.1)]
def runEdges (ts : List (Tri3 α)) : List Edge := ts.flatMap triEdges

theorem lab_getD (poly : Poly α) (i : Nat) : (lab poly).getD i 0 = (vAt poly i).1 := by
  simp only [lab, vAt, List.getD_eq_getElem?_getD, List.getElem?_map]
  cases poly[i]? <;> rfl
theorem lab_eraseIdx (poly : Poly α) (e : Nat) : lab (poly.eraseIdx e) = (lab poly).eraseIdx e := by
  simp [lab, List.eraseIdx_map]
theorem lab_length (poly : Poly α) : (lab poly).length = poly.length := by simp [lab]

theorem count_map_swap (l : List Edge) (e : Edge) : (l.map Prod.swap).count e = l.count e.swap := by
  induction l with
  | nil => simp
  | cons a t ih =>
    simp only [List.map_cons, List.count_cons, ih]
    congr 1
    by_cases h : a = e.swap
    · subst h; simp
    · have : ¬ (a.swap = e) := fun h' => h (by rw [← h']; simp)
      simp [h, this]

/-- **edge invariant of the loop**: the edges of the emitted triangles together with the boundary of
what is left are the input boundary plus diagonals, each diagonal in both directions -/
theorem clipRun_edges (fuel : Nat) (poly : Poly α) (ccw : Bool) :
    ∃ D : List Edge, (runEdges (clipRun fuel poly ccw []).1 ++ ringE (lab (clipRun fuel poly ccw []).2)).Perm
      (ringE (lab poly) ++ D ++ D.map Prod.swap) := by
  refine clipRun_inv (fun a p => ∃ D : List Edge, (runEdges a ++ ringE (lab p)).Perm
      (ringE (lab poly) ++ D ++ D.map Prod.swap)) ccw ?_ fuel poly [] ⟨[], by simp [runEdges]⟩
  intro a p e hlen hear ⟨D, hD⟩
  have he := (findEar_some p ccw e hear).1
  have hr := ringE_eraseIdx (lab p) e (by rw [lab_length]; exact hlen) (by rw [lab_length]; exact he)
  rw [lab_length] at hr
  refine ⟨((lab p).getD (prevIdx p.length e) 0, (lab p).getD (nextIdx p.length e) 0) :: D, ?_⟩
  rw [List.perm_iff_count] at hD hr ⊢
  intro x
  have h1 := hD x
  have h2 := hr x
  simp only [runEdges, List.flatMap_append, List.flatMap_cons, List.flatMap_nil, List.append_nil, triEdges,
    earAt, ← lab_getD, lab_eraseIdx, List.count_append, List.count_cons, List.count_nil, List.map_cons,
    Prod.swap_prod_mk] at h1 h2 ⊢
  omega

theorem ringE_pair (x y : Nat) : ringE [x, y] = [(x, y), (y, x)] := by simp [ringE, chainE]

/-- a multiset of directed edges in which every edge has its reverse equally often -/
def RevClosed (es : List Edge) : Prop := (es.map Prod.swap).Perm es

/-- **complete runs have the ring as their boundary**: when the loop leaves two vertices, the directed
edges of the emitted triangles, together with the input boundary reversed, pair up — every edge of
the triangles is either a boundary edge (used once, in list direction) or is matched by its reverse.
This is the edge half of the tiling certificate, for every input, needing only that the run is
complete. -/
theorem complete_run_boundary (fuel : Nat) (poly : Poly α) (ccw : Bool)
    (hc : (clipRun fuel poly ccw []).2.length = 2) :
    RevClosed (runEdges (clipRun fuel poly ccw []).1 ++ (ringE (lab poly)).map Prod.swap) := by
  obtain ⟨D, hD⟩ := clipRun_edges fuel poly ccw
  obtain ⟨u, v, huv⟩ := List.length_eq_two.mp hc
  have hring : ringE (lab (clipRun fuel poly ccw []).2) = [(u.1, v.1), (v.1, u.1)] := by
    rw [huv]; simp [lab, ringE_pair]
  rw [hring] at hD
  unfold RevClosed
  rw [List.perm_iff_count] at hD ⊢
  intro x
  have h1 := hD x
  have h2 := hD x.swap
  have e1 : ((u.1, v.1) == x.swap) = ((v.1, u.1) == x) := by
    cases x; simp [Prod.swap, Prod.ext_iff, eq_comm, and_comm]
  have e2 : ((v.1, u.1) == x.swap) = ((u.1, v.1) == x) := by
    cases x; simp [Prod.swap, Prod.ext_iff, eq_comm, and_comm]
  simp only [List.count_append, List.count_cons, List.count_nil, List.map_append, count_map_swap,
    Prod.swap_swap, e1, e2] at h1 h2 ⊢
  omega

end Cert

/-! ### convex polygons: the loop completes -/
/-- `x` has the sign of the orientation `ccw` -/
def Oriented (ccw : Bool) (x : ℝ) : Prop := if ccw then 0 < x else x < 0

/-- points in strictly convex position, listed counter-clockwise (`ccw = true`) or clockwise: every
triple taken in list order turns that way -/
def ConvexPos (ccw : Bool) (l : List (Pt2 ℝ)) : Prop :=
  ∀ i j k, i < j → j < k → k < l.length → Oriented ccw (Tri.cross3 (l.getD i d0) (l.getD j d0) (l.getD k d0))

theorem cross3_rot (a b c : Pt2 ℝ) : Tri.cross3 b c a = Tri.cross3 a b c := by
  simp only [Tri.cross3]; ring
theorem cross3_swap (a b c : Pt2 ℝ) : Tri.cross3 a c b = -Tri.cross3 a b c := by
  simp only [Tri.cross3]; ring

theorem isCcw_of_oriented (ccw : Bool) (a b c : Pt2 ℝ) (h : Oriented ccw (Tri.cross3 a b c)) :
    isCcw a b c = ccw := by
  cases ccw
  · simp only [Oriented, Bool.false_eq_true, if_false] at h
    simp only [isCcw]
    rw [Bool.eq_false_iff]; intro hc
    have : 0 < Tri.cross3 a b c := by simpa using hc
    linarith
  · simp only [Oriented, if_true] at h
    simpa [isCcw] using h

/-- a point strictly on the far side of the chord `a c` (seen from `b`) is not in triangle `a b c` -/
theorem inTriangle_false (ccw : Bool) (p a b c : Pt2 ℝ) (habc : Oriented ccw (Tri.cross3 a b c))
    (hp : Oriented ccw (Tri.cross3 c p a)) : inTriangle p a b c = false := by
  have hden : (b.y - c.y) * (a.x - c.x) + (c.x - b.x) * (a.y - c.y) = Tri.cross3 a b c := by
    simp only [Tri.cross3]; ring
  have hnb : (c.y - a.y) * (p.x - c.x) + (a.x - c.x) * (p.y - c.y) = -Tri.cross3 c p a := by
    simp only [Tri.cross3]; ring
  unfold inTriangle
  simp only [hden, hnb]
  have hne : Tri.cross3 a b c ≠ 0 := by
    cases ccw <;> simp only [Oriented, Bool.false_eq_true, if_false, if_true] at habc <;> linarith
  have hneq : Cmp.eqb (Tri.cross3 a b c) 0 = false := by
    rw [Bool.eq_false_iff]; intro hc; exact hne (by simpa using hc)
  simp only [hneq, Bool.false_eq_true, if_false]
  have hbeta : 1 / Tri.cross3 a b c * -Tri.cross3 c p a < 0 := by
    cases ccw <;> simp only [Oriented, Bool.false_eq_true, if_false, if_true] at habc hp
    · have h1 : 1 / Tri.cross3 a b c < 0 := one_div_neg.mpr habc
      have h2 : 0 < -Tri.cross3 c p a := by linarith
      exact mul_neg_of_neg_of_pos h1 h2
    · have h1 : 0 < 1 / Tri.cross3 a b c := one_div_pos.mpr habc
      have h2 : -Tri.cross3 c p a < 0 := by linarith
      exact mul_neg_of_pos_of_neg h1 h2
  have hb : Cmp.ltb (1 / Tri.cross3 a b c * -Tri.cross3 c p a) 0 = true := by simpa using hbeta
  rw [hb]
  split <;> rfl


theorem anyIdx_false {β : Type} (f : Nat → β → Bool) : ∀ (l : List β) (k : Nat),
    (∀ i (hi : i < l.length), f (k + i) l[i] = false) → anyIdx l k f = false
  | [], _, _ => rfl
  | x :: xs, k, h => by
    simp only [anyIdx, Bool.or_eq_false_iff]
    refine ⟨by have := h 0 (by simp); simpa using this, anyIdx_false f xs (k + 1) fun i hi => ?_⟩
    have := h (i + 1) (by simpa using hi)
    simpa [Nat.add_assoc, Nat.add_comm 1 i] using this

theorem pt_getD (poly : Poly ℝ) (i : Nat) (hi : i < poly.length) : (poly[i]).2 = (pts poly).getD i d0 := by
  simp [pts, List.getD_eq_getElem?_getD, hi]

/-- **in a convex polygon the first vertex is an ear under the scan rule** -/
theorem convex_isEar_zero (ccw : Bool) (poly : Poly ℝ) (hn : 3 ≤ poly.length) (hc : ConvexPos ccw (pts poly)) :
    isEar poly ccw 0 = true := by
  have hl : (pts poly).length = poly.length := by simp [pts]
  have hp : prevIdx poly.length 0 = poly.length - 1 := by simp [prevIdx]
  have hx : nextIdx poly.length 0 = 1 := by unfold nextIdx; rw [if_neg (by omega)]
  have habc : Oriented ccw (Tri.cross3 (pt poly (poly.length - 1)) (pt poly 0) (pt poly 1)) := by
    rw [← pts_getD, ← pts_getD, ← pts_getD, ← cross3_rot]
    exact hc 0 1 (poly.length - 1) (by omega) (by omega) (by omega)
  unfold isEar
  simp only [hp, hx]
  rw [isCcw_of_oriented ccw _ _ _ habc]
  simp only [bne_self_eq_false, Bool.false_eq_true, if_false, Bool.not_eq_true']
  apply anyIdx_false
  intro j hj
  simp only [Nat.zero_add]
  by_cases h1 : j = 0
  · subst h1; simp
  by_cases h2 : j = poly.length - 1
  · simp [h2]
  by_cases h3 : j = 1
  · simp [h3]
  have hin : inTriangle (poly[j]).2 (pt poly (poly.length - 1)) (pt poly 0) (pt poly 1) = false := by
    apply inTriangle_false ccw _ _ _ _ habc
    rw [pt_getD poly j hj, ← pts_getD, ← pts_getD]
    exact hc 1 j (poly.length - 1) (by omega) (by omega) (by omega)
  simp [hin]

theorem convex_findEar (ccw : Bool) (poly : Poly ℝ) (hn : 3 ≤ poly.length) (hc : ConvexPos ccw (pts poly)) :
    findEar poly ccw = some 0 := by
  have h := convex_isEar_zero ccw poly hn hc
  cases hp : poly with
  | nil => rw [hp] at hn; simp at hn
  | cons x xs =>
    rw [hp] at h
    simp [findEar, findIdxFrom, h]

theorem convex_tail (ccw : Bool) (l : List (Pt2 ℝ)) (hc : ConvexPos ccw l) : ConvexPos ccw (l.eraseIdx 0) := by
  cases l with
  | nil => exact hc
  | cons a t =>
    intro i j k hij hjk hk
    have := hc (i + 1) (j + 1) (k + 1) (by omega) (by omega) (by simpa using hk)
    simpa [List.getD_cons_succ] using this

/-- **the loop completes on every convex polygon** -/
theorem convex_run_complete (ccw : Bool) : ∀ (fuel : Nat) (poly : Poly ℝ) (acc : List (Tri3 ℝ)),
    ConvexPos ccw (pts poly) → 2 ≤ poly.length → poly.length ≤ fuel + 2 →
    (clipRun fuel poly ccw acc).2.length = 2
  | 0, poly, acc, _, h2, hf => by
    simp only [clipRun]; omega
  | fuel + 1, poly, acc, hc, h2, hf => by
    simp only [clipRun]
    split
    · rename_i hlt; simp only []; omega
    · rename_i hlen
      rw [convex_findEar ccw poly (by omega) hc]
      simp only []
      apply convex_run_complete ccw fuel
      · rw [pts_eraseIdx]; exact convex_tail ccw _ hc
      · rw [List.length_eraseIdx, if_pos (by omega)]; omega
      · rw [List.length_eraseIdx, if_pos (by omega)]; omega


theorem foldIdx_index {β γ : Type} (step : Nat × γ → Nat → β → Nat × γ)
    (hstep : ∀ acc i v, (step acc i v).1 = acc.1 ∨ (step acc i v).1 = i) :
    ∀ (l : List β) (k : Nat) (acc : Nat × γ),
      (foldIdx l k step acc).1 = acc.1 ∨ (k ≤ (foldIdx l k step acc).1 ∧ (foldIdx l k step acc).1 < k + l.length)
  | [], _, _ => Or.inl rfl
  | x :: xs, k, acc => by
    simp only [foldIdx]
    rcases foldIdx_index step hstep xs (k + 1) (step acc k x) with h | ⟨h1, h2⟩
    · rcases hstep acc k x with h' | h'
      · left; rw [h, h']
      · right; rw [h, h']; simp
    · right; exact ⟨by omega, by simp only [List.length_cons]; omega⟩

theorem leftmost_lt (poly : Poly ℝ) (hn : 1 ≤ poly.length) : leftmost poly < poly.length := by
  unfold leftmost
  simp only []
  have := foldIdx_index (β := Nat × Pt2 ℝ) (γ := Pt2 ℝ)
    (fun acc i v => if Cmp.ltb v.2.x acc.2.x || (Cmp.eqb v.2.x acc.2.x && Cmp.ltb v.2.y acc.2.y) then (i, v.2) else acc)
    (by intro acc i v; split <;> simp) poly 0 (0, pt poly 0)
  rcases this with h | ⟨_, h⟩
  · rw [h]; exact hn
  · simpa using h

/-- a convex polygon turns its own way at every vertex, in particular at the left-most one -/
theorem convex_refCcw (ccw : Bool) (poly : Poly ℝ) (hn : 3 ≤ poly.length) (hc : ConvexPos ccw (pts poly)) :
    refCcw poly = ccw := by
  have hpl : (pts poly).length = poly.length := by simp [pts]
  unfold refCcw
  simp only []
  have hi := leftmost_lt poly (by omega)
  generalize leftmost poly = i at hi
  apply isCcw_of_oriented
  rw [← pts_getD, ← pts_getD, ← pts_getD]
  by_cases h0 : i = 0
  · subst h0
    have hp : prevIdx poly.length 0 = poly.length - 1 := by simp [prevIdx]
    have hx : nextIdx poly.length 0 = 1 := by unfold nextIdx; rw [if_neg (by omega)]
    rw [hp, hx, ← cross3_rot]
    exact hc 0 1 (poly.length - 1) (by omega) (by omega) (by omega)
  · by_cases hl : i = poly.length - 1
    · have hp : prevIdx poly.length i = poly.length - 2 := by unfold prevIdx; rw [if_neg h0]; omega
      have hx : nextIdx poly.length i = 0 := by unfold nextIdx; rw [if_pos hl]
      rw [hp, hx, hl, cross3_rot]
      exact hc 0 (poly.length - 2) (poly.length - 1) (by omega) (by omega) (by omega)
    · have hp : prevIdx poly.length i = i - 1 := by unfold prevIdx; rw [if_neg h0]
      have hx : nextIdx poly.length i = i + 1 := by unfold nextIdx; rw [if_neg hl]
      rw [hp, hx]
      exact hc (i - 1) i (i + 1) (by omega) (by omega) (by omega)

/-- **C03 on convex polygons**: `triangulate` emits exactly n-2 triangles -/
theorem triangulate_convex_complete (ccw : Bool) (poly : Poly ℝ) (hn : 3 ≤ poly.length)
    (hc : ConvexPos ccw (pts poly)) : (triangulate poly).length = 3 * (poly.length - 2) := by
  have hr := convex_refCcw ccw poly hn hc
  have hres := convex_run_complete ccw poly.length poly [] hc (by omega) (by omega)
  have h1 := clip_eq poly.length poly ccw ([] : List (Tri3 ℝ))
  have h2 := clipRun_count poly.length poly ccw ([] : List (Tri3 ℝ))
  simp only [labels, List.flatMap_nil, List.length_nil, Nat.zero_add] at h1 h2
  unfold triangulate
  rw [hr, h1]
  have hl : ∀ ts : List (Tri3 ℝ), (ts.flatMap triLabels).length = 3 * ts.length := by
    intro ts
    induction ts with
    | nil => rfl
    | cons t ts ih => simp [triLabels] at ih ⊢; omega
  rw [hl]; omega


/-! ### convex polygons: the output is a fan -/
/-- the fan from vertex `L` over the consecutive pairs of a list (all but the last pair) -/
def fanAux (L : V ℝ) : Poly ℝ → List (Tri3 ℝ)
  | a :: b :: c :: rest => (L, a, b) :: fanAux L (b :: c :: rest)
  | _ => []

theorem vAt_last_eraseIdx (poly : Poly ℝ) (h : 3 ≤ poly.length) :
    vAt (poly.eraseIdx 0) ((poly.eraseIdx 0).length - 1) = vAt poly (poly.length - 1) := by
  match poly, h with
  | a :: b :: c :: rest, _ =>
    simp only [List.eraseIdx_cons_zero, List.length_cons, vAt]
    have : rest.length + 1 + 1 + 1 - 1 = (rest.length + 1 + 1 - 1) + 1 := by omega
    rw [this, List.getD_cons_succ]

/-- **on a convex polygon the loop emits the fan from the last vertex**, in order -/
theorem convex_run_fan (ccw : Bool) : ∀ (fuel : Nat) (poly : Poly ℝ) (acc : List (Tri3 ℝ)),
    ConvexPos ccw (pts poly) → poly.length ≤ fuel + 2 →
    (clipRun fuel poly ccw acc).1 = acc ++ fanAux (vAt poly (poly.length - 1)) poly
  | 0, poly, acc, _, hf => by
    have : fanAux (vAt poly (poly.length - 1)) poly = [] := by
      match poly, hf with
      | [], _ => rfl
      | [_], _ => rfl
      | [_, _], _ => rfl
    simp [clipRun, this]
  | fuel + 1, poly, acc, hc, hf => by
    simp only [clipRun]
    split
    · rename_i hlt
      have : fanAux (vAt poly (poly.length - 1)) poly = [] := by
        match poly, hlt with
        | [], _ => rfl
        | [_], _ => rfl
        | [_, _], _ => rfl
        | a :: b :: c :: r, h => exact absurd h (by simp)
      simp [this]
    · rename_i hlen
      have hn : 3 ≤ poly.length := by omega
      rw [convex_findEar ccw poly hn hc]
      simp only []
      rw [convex_run_fan ccw fuel (poly.eraseIdx 0) _ (by rw [pts_eraseIdx]; exact convex_tail ccw _ hc)
        (by rw [List.length_eraseIdx, if_pos (by omega)]; omega), vAt_last_eraseIdx poly hn]
      match poly, hn with
      | a :: b :: c :: rest, _ =>
        have h1 : ¬ (0 = rest.length + 1 + 1 + 1 - 1) := by omega
        simp only [List.eraseIdx_cons_zero, List.append_assoc, List.singleton_append, fanAux, earAt, prevIdx,
          nextIdx, List.length_cons, if_true, vAt, List.getD_cons_zero, h1, if_false, Nat.zero_add,
          List.getD_cons_succ]

/-- **C03 on convex polygons, functionally**: the output is exactly the fan `(lₙ₋₁, lₖ, lₖ₊₁)`,
`k = 0 … n-3`, of the vertex labels -/
theorem triangulate_convex_fan (ccw : Bool) (poly : Poly ℝ) (hn : 3 ≤ poly.length) (hc : ConvexPos ccw (pts poly)) :
    triangulate poly = labels (fanAux (vAt poly (poly.length - 1)) poly) := by
  have hr := convex_refCcw ccw poly hn hc
  have h1 := clip_eq poly.length poly ccw ([] : List (Tri3 ℝ))
  have h2 := convex_run_fan ccw poly.length poly [] hc (by omega)
  simp only [labels, List.flatMap_nil, List.nil_append] at h1 h2
  unfold triangulate
  rw [hr, h1, h2]; rfl


end ScadVerif.TriLemmas
