/-
Structural invariants of the thread-mesh builder (Model/Thread.lean `threadMesh`): a fold over
`range (nSteps-1)` that appends one ring of four points and eight triangles per step.
-/
import ScadVerif.Lemmas.RealInst
import ScadVerif.Model.Thread
import ScadVerif.Props.C10
namespace ScadVerif.ThreadLemmas
open ScadVerif ScadVerif.Thread

noncomputable instance : HasTrunc ℝ := ⟨fun x => ⌊x⌋₊⟩

/-- invariant of a fold over `range n`, indexed by the number of steps done -/
theorem foldl_range_inv {σ : Type} (P : Nat → σ → Prop) (f : σ → Nat → σ) (init : σ) (n : Nat)
    (h0 : P 0 init) (hstep : ∀ k st, k < n → P k st → P (k + 1) (f st k)) :
    P n ((List.range n).foldl f init) := by
  induction n with
  | zero => simpa using h0
  | succ m ih =>
    rw [List.range_succ, List.foldl_append]
    simp only [List.foldl_cons, List.foldl_nil]
    exact hstep m _ (by omega) (ih (fun k st hk => hstep k st (by omega)))

theorem stepFaces_length (left : Bool) (o : Nat) : (stepFaces left o).length = 8 := by
  cases left <;> rfl
theorem stepFaces_bound (left : Bool) (o : Nat) : ∀ f ∈ stepFaces left o, f.length = 3 ∧ ∀ v ∈ f, v < o + 8 := by
  intro f hf
  cases left <;> simp only [stepFaces, Bool.false_eq_true, if_false, if_true, List.mem_cons, List.not_mem_nil,
    or_false] at hf <;>
  · rcases hf with rfl | rfl | rfl | rfl | rfl | rfl | rfl | rfl <;>
      (refine ⟨rfl, ?_⟩; intro v hv; simp only [List.mem_cons, List.not_mem_nil, or_false] at hv;
       rcases hv with rfl | rfl | rfl <;> omega)

/-- the structural facts of a thread mesh that do not depend on the geometry -/
structure MeshShape (m : Mesh ℝ) (nSteps : Nat) (dMin : ℝ) : Prop where
  points : m.points.length = 4 * nSteps
  faces : m.faces.length = 8 * nSteps - 4
  tri : ∀ f ∈ m.faces, f.length = 3
  valid : ∀ f ∈ m.faces, ∀ v ∈ f, v < m.points.length
  start0 : m.points[0]?.map (·.x) = some (dMin / 2)
  startZ : m.points[2]? = some ⟨dMin / 2, 0, 0⟩

/-- loop invariant of the thread builder after `k` steps -/
def Inv (p0 p2 : Pt3 ℝ) (k : Nat) (st : St ℝ) : Prop :=
  st.points.length = 4 + 4 * k ∧ st.faces.length = 2 + 8 * k ∧
  (∀ f ∈ st.faces, f.length = 3 ∧ ∀ v ∈ f, v < 4 + 4 * k) ∧
  st.points[0]? = some p0 ∧ st.points[2]? = some p2

theorem inv_step (p0 p2 : Pt3 ℝ) (k : Nat) (st : St ℝ) (left : Bool) (ring : List (Pt3 ℝ)) (hr : ring.length = 4)
    (h : Inv p0 p2 k st) (st' : St ℝ) (hp : st'.points = st.points ++ ring)
    (hf : st'.faces = st.faces ++ stepFaces left (k * 4)) : Inv p0 p2 (k + 1) st' := by
  obtain ⟨h1, h2, h3, h4, h5⟩ := h
  refine ⟨by rw [hp, List.length_append, h1, hr]; omega,
    by rw [hf, List.length_append, h2, stepFaces_length]; omega, ?_, ?_, ?_⟩
  · intro f hfm
    rw [hf] at hfm
    rcases List.mem_append.mp hfm with hfm | hfm
    · obtain ⟨a, b⟩ := h3 f hfm
      exact ⟨a, fun v hv => by have := b v hv; omega⟩
    · obtain ⟨a, b⟩ := stepFaces_bound left (k * 4) f hfm
      exact ⟨a, fun v hv => by have := b v hv; omega⟩
  · rw [hp, List.getElem?_append_left (by omega)]; exact h4
  · rw [hp, List.getElem?_append_left (by omega)]; exact h5

theorem ring4_length (c s z : ℝ) (a b d e : Pt3 ℝ) : (ring4 c s z a b d e).length = 4 := rfl

theorem threadMesh_shape (dMin dMaj pitch length : ℝ) (segments : Nat) (li lo : ℝ) (left : Bool) (m : Mesh ℝ)
    (h : threadMesh dMin dMaj pitch length segments li lo left = some m) :
    ∃ nSteps, 2 ≤ nSteps ∧ MeshShape m nSteps dMin := by
  unfold threadMesh at h
  simp only [] at h
  split at h
  · simp at h
  · rename_i hcond
    injection h with h
    generalize hst : List.foldl _ _ (List.range _) = st at h
    generalize hn : HasTrunc.trunc ((length - lit 7 / lit 10 * pitch) / pitch * cast segments) = nSteps at *
    have hn2 : 2 ≤ nSteps := by
      simp only [Bool.or_eq_true, decide_eq_true_eq, not_or, not_lt] at hcond
      exact hcond.1
    have hinv : Inv ⟨dMin / lit 2, 0, lit 3 / lit 4 * pitch⟩ ⟨dMin / lit 2, 0, 0⟩ (nSteps - 1) st := by
      rw [← hst]
      apply foldl_range_inv (Inv ⟨dMin / lit 2, 0, lit 3 / lit 4 * pitch⟩ ⟨dMin / lit 2, 0, 0⟩)
      · refine ⟨rfl, by cases left <;> rfl, ?_, rfl, rfl⟩
        intro f hf
        cases left <;> simp only [Bool.false_eq_true, if_false, if_true, List.mem_cons, List.not_mem_nil,
          or_false] at hf <;>
        · rcases hf with rfl | rfl <;>
            (refine ⟨rfl, ?_⟩; intro v hv; simp only [List.mem_cons, List.not_mem_nil, or_false] at hv;
             rcases hv with rfl | rfl | rfl <;> omega)
      · intro k s hk hi
        split
        · exact inv_step _ _ k s left _ (ring4_length ..) hi _ rfl rfl
        · split
          · exact inv_step _ _ k s left _ (ring4_length ..) hi _ rfl rfl
          · exact inv_step _ _ k s left _ (ring4_length ..) hi _ rfl rfl
    obtain ⟨h1, h2, h3, h4, h5⟩ := hinv
    subst h
    refine ⟨nSteps, hn2, ?_⟩
    have hk : 4 + 4 * (nSteps - 1) = 4 * nSteps := by omega
    refine ⟨by simp only [h1]; omega, ?_, ?_, ?_, ?_, ?_⟩
    · simp only [List.length_append, h2]
      cases left <;> simp <;> omega
    · intro f hf
      simp only [List.mem_append] at hf
      rcases hf with hf | hf
      · exact (h3 f hf).1
      · cases left <;> simp only [Bool.false_eq_true, if_false, if_true, List.mem_cons, List.not_mem_nil,
          or_false] at hf <;> rcases hf with rfl | rfl <;> rfl
    · intro f hf v hv
      simp only [List.mem_append] at hf
      simp only [h1]
      rcases hf with hf | hf
      · exact (h3 f hf).2 v hv
      · cases left <;> simp only [Bool.false_eq_true, if_false, if_true, List.mem_cons, List.not_mem_nil,
          or_false] at hf <;> rcases hf with rfl | rfl <;>
          (simp only [List.mem_cons, List.not_mem_nil, or_false] at hv; rcases hv with rfl | rfl | rfl <;> omega)
    · simp [h4]
    · simpa using h5

/-! ### radii -/
/-- x-coordinate of the interpolated profile point stays between the end points' -/
theorem lerp_x_between (s e : Pt3 ℝ) (n step : Nat) (a b : ℝ) (hs : a ≤ s.x ∧ s.x ≤ b) (he : a ≤ e.x ∧ e.x ≤ b)
    (hstep : n = 0 ∨ step ≤ n) : a ≤ (lerpSteps s e n step).x ∧ (lerpSteps s e n step).x ≤ b := by
  have hx : (lerpSteps s e n step).x = s.x + (e.x - s.x) / (n : ℝ) * (step : ℝ) := by
    simp only [lerpSteps, cast_eq_natCast]
    rfl
  rw [hx]
  by_cases hn : n = 0
  · subst hn
    simp; exact hs
  · have hstep : step ≤ n := by rcases hstep with h | h; exact absurd h hn; exact h
    have hnpos : (0 : ℝ) < n := by exact_mod_cast Nat.pos_of_ne_zero hn
    have ht0 : (0 : ℝ) ≤ (step : ℝ) / n := by positivity
    have ht1 : (step : ℝ) / n ≤ 1 := by rw [div_le_one hnpos]; exact_mod_cast hstep
    have e1 : s.x + (e.x - s.x) / (n : ℝ) * (step : ℝ) = s.x * (1 - (step : ℝ) / n) + e.x * ((step : ℝ) / n) := by
      field_simp; ring
    rw [e1]
    constructor <;> nlinarith [hs.1, hs.2, he.1, he.2]

theorem lerp_y_zero (s e : Pt3 ℝ) (n step : Nat) (hs : s.y = 0) (he : e.y = 0) : (lerpSteps s e n step).y = 0 := by
  have hy : (lerpSteps s e n step).y = s.y + (e.y - s.y) / (n : ℝ) * (step : ℝ) := by
    simp only [lerpSteps, cast_eq_natCast]
    rfl
  rw [hy, hs, he]; simp

/-- a ring point keeps the radius |x| of its profile point -/
theorem ring_radius (c s x : ℝ) (h : c * c + s * s = 1) : (c * x) ^ 2 + (s * x) ^ 2 = x ^ 2 := by
  have : (c * x) ^ 2 + (s * x) ^ 2 = (c * c + s * s) * x ^ 2 := by ring
  rw [this, h, one_mul]


/-- radius invariant of the thread builder -/
def RInv (a b : ℝ) (st : St ℝ) : Prop :=
  (a ≤ st.in1.x ∧ st.in1.x ≤ b) ∧ (a ≤ st.in3.x ∧ st.in3.x ≤ b) ∧
  (a ≤ st.out1.x ∧ st.out1.x ≤ b) ∧ (a ≤ st.out3.x ∧ st.out3.x ≤ b) ∧
  ∀ p ∈ st.points, a ^ 2 ≤ p.x ^ 2 + p.y ^ 2 ∧ p.x ^ 2 + p.y ^ 2 ≤ b ^ 2

theorem ring4_radii (a b : ℝ) (ha : 0 ≤ a) (c s z : ℝ) (hcs : c * c + s * s = 1) (p0 p1 p2 p3 : Pt3 ℝ)
    (h0 : a ≤ p0.x ∧ p0.x ≤ b) (h1 : a ≤ p1.x ∧ p1.x ≤ b) (h2 : a ≤ p2.x ∧ p2.x ≤ b) (h3 : a ≤ p3.x ∧ p3.x ≤ b) :
    ∀ p ∈ ring4 c s z p0 p1 p2 p3, a ^ 2 ≤ p.x ^ 2 + p.y ^ 2 ∧ p.x ^ 2 + p.y ^ 2 ≤ b ^ 2 := by
  intro p hp
  simp only [ring4, List.mem_cons, List.not_mem_nil, or_false] at hp
  have key : ∀ x : ℝ, a ≤ x → x ≤ b → a ^ 2 ≤ (c * x) ^ 2 + (s * x) ^ 2 ∧ (c * x) ^ 2 + (s * x) ^ 2 ≤ b ^ 2 := by
    intro x hx1 hx2
    rw [ring_radius c s x hcs]
    constructor <;> nlinarith
  rcases hp with rfl | rfl | rfl | rfl
  · exact key _ h0.1 h0.2
  · exact key _ h1.1 h1.2
  · exact key _ h2.1 h2.2
  · exact key _ h3.1 h3.2

theorem rinv_step (a b : ℝ) (ha : 0 ≤ a) (st : St ℝ) (hi : RInv a b st) (c sn z : ℝ) (hcs : c * c + sn * sn = 1)
    (p0 p1 p2 p3 i1 i3 o1 o3 : Pt3 ℝ) (l1 l2 : Nat) (fs : List (List Nat))
    (h0 : a ≤ p0.x ∧ p0.x ≤ b) (h1 : a ≤ p1.x ∧ p1.x ≤ b) (h2 : a ≤ p2.x ∧ p2.x ≤ b) (h3 : a ≤ p3.x ∧ p3.x ≤ b)
    (hi1 : a ≤ i1.x ∧ i1.x ≤ b) (hi3 : a ≤ i3.x ∧ i3.x ≤ b) (ho1 : a ≤ o1.x ∧ o1.x ≤ b) (ho3 : a ≤ o3.x ∧ o3.x ≤ b) :
    RInv a b ⟨l1, l2, i1, i3, o1, o3, st.points ++ ring4 c sn z p0 p1 p2 p3, fs⟩ := by
  refine ⟨hi1, hi3, ho1, ho3, ?_⟩
  intro p hp
  rcases List.mem_append.mp hp with hp | hp
  · exact hi.2.2.2.2 p hp
  · exact ring4_radii a b ha c sn z hcs p0 p1 p2 p3 h0 h1 h2 h3 p hp

/-- **every vertex of the thread mesh lies between the minor and the major radius** (for
0 ≤ d_min ≤ d_maj and a lead-in angle ≥ 0) -/
theorem threadMesh_radii (dMin dMaj pitch length : ℝ) (segments : Nat) (li lo : ℝ) (left : Bool) (m : Mesh ℝ)
    (h : threadMesh dMin dMaj pitch length segments li lo left = some m)
    (h0 : 0 ≤ dMin) (h1 : dMin ≤ dMaj) (hli : 0 ≤ li) :
    ∀ p ∈ m.points, (dMin / 2) ^ 2 ≤ p.x ^ 2 + p.y ^ 2 ∧ p.x ^ 2 + p.y ^ 2 ≤ (dMaj / 2) ^ 2 := by
  have e2 : (lit 2 : ℝ) = 2 := by simp
  have ha : 0 ≤ dMin / 2 := by linarith
  have hab : dMin / 2 ≤ dMaj / 2 := by linarith
  unfold threadMesh at h
  simp only [] at h
  split at h
  · simp at h
  · injection h with h
    generalize hst : List.foldl _ _ (List.range _) = st at h
    have hnIn : 2 ≤ HasTrunc.trunc ((cast segments : ℝ) * li / lit 360 + lit 2) := by
      show 2 ≤ ⌊(cast segments : ℝ) * li / lit 360 + lit 2⌋₊
      apply Nat.le_floor
      have : 0 ≤ (cast segments : ℝ) * li / lit 360 := by
        simp only [cast_eq_natCast]; positivity
      simp only [cast_eq_natCast] at this ⊢; push_cast; linarith
    generalize HasTrunc.trunc ((cast segments : ℝ) * li / lit 360 + lit 2) = nIn at *
    generalize HasTrunc.trunc ((cast segments : ℝ) * lo / lit 360) = nOut at *
    have bA : dMin / 2 ≤ (⟨dMin / lit 2, 0, lit 7 / lit 16 * pitch⟩ : Pt3 ℝ).x ∧
        (⟨dMin / lit 2, 0, lit 7 / lit 16 * pitch⟩ : Pt3 ℝ).x ≤ dMaj / 2 := by simp only [e2]; exact ⟨le_refl _, hab⟩
    have bB : ∀ z : ℝ, dMin / 2 ≤ (⟨dMaj / lit 2, 0, z⟩ : Pt3 ℝ).x ∧ (⟨dMaj / lit 2, 0, z⟩ : Pt3 ℝ).x ≤ dMaj / 2 := by
      intro z; simp only [e2]; exact ⟨hab, le_refl _⟩
    have bC : ∀ z : ℝ, dMin / 2 ≤ (⟨dMin / lit 2, 0, z⟩ : Pt3 ℝ).x ∧ (⟨dMin / lit 2, 0, z⟩ : Pt3 ℝ).x ≤ dMaj / 2 := by
      intro z; simp only [e2]; exact ⟨le_refl _, hab⟩
    have hinv : RInv (dMin / 2) (dMaj / 2) st := by
      rw [← hst]
      apply foldl_range_inv (fun _ st => RInv (dMin / 2) (dMaj / 2) st)
      · refine ⟨lerp_x_between _ _ _ _ _ _ (bC _) (bB _) (Or.inr hnIn), lerp_x_between _ _ _ _ _ _ (bC _) (bB _) (Or.inr hnIn),
          bB _, bB _, ?_⟩
        intro p hp
        simp only [List.mem_cons, List.not_mem_nil, or_false] at hp
        have key : ∀ q : Pt3 ℝ, q.y = 0 → dMin / 2 ≤ q.x → q.x ≤ dMaj / 2 →
            (dMin / 2) ^ 2 ≤ q.x ^ 2 + q.y ^ 2 ∧ q.x ^ 2 + q.y ^ 2 ≤ (dMaj / 2) ^ 2 := by
          intro q hy hx1 hx2; rw [hy]; constructor <;> nlinarith
        have hl1 := lerp_x_between (⟨dMin / lit 2, 0, lit 7 / lit 16 * pitch⟩ : Pt3 ℝ) ⟨dMaj / lit 2, 0, lit 7 / lit 16 * pitch⟩
          nIn 2 _ _ (bC _) (bB _) (Or.inr hnIn)
        have hl3 := lerp_x_between (⟨dMin / lit 2, 0, lit 5 / lit 16 * pitch⟩ : Pt3 ℝ) ⟨dMaj / lit 2, 0, lit 5 / lit 16 * pitch⟩
          nIn 2 _ _ (bC _) (bB _) (Or.inr hnIn)
        rcases hp with rfl | rfl | rfl | rfl
        · exact key _ rfl (bC _).1 (bC _).2
        · exact key _ (lerp_y_zero _ _ _ _ rfl rfl) hl1.1 hl1.2
        · exact key _ rfl (bC _).1 (bC _).2
        · exact key _ (lerp_y_zero _ _ _ _ rfl rfl) hl3.1 hl3.2
      · intro k s hk hi
        have hcs : ∀ t : ℝ, dcos t * dcos t + dsin t * dsin t = 1 := C10.cs_unit
        have hin1 := lerp_x_between (⟨dMin / lit 2, 0, lit 7 / lit 16 * pitch⟩ : Pt3 ℝ) ⟨dMaj / lit 2, 0, lit 7 / lit 16 * pitch⟩
          nIn 2 _ _ (bC _) (bB _) (Or.inr hnIn)
        have hin3 := lerp_x_between (⟨dMin / lit 2, 0, lit 5 / lit 16 * pitch⟩ : Pt3 ℝ) ⟨dMaj / lit 2, 0, lit 5 / lit 16 * pitch⟩
          nIn 2 _ _ (bC _) (bB _) (Or.inr hnIn)
        have hout1 := lerp_x_between (⟨dMin / lit 2, 0, lit 7 / lit 16 * pitch⟩ : Pt3 ℝ) ⟨dMaj / lit 2, 0, lit 7 / lit 16 * pitch⟩
          nOut 1 _ _ (bC _) (bB _) (by omega)
        have hout3 := lerp_x_between (⟨dMin / lit 2, 0, lit 5 / lit 16 * pitch⟩ : Pt3 ℝ) ⟨dMaj / lit 2, 0, lit 5 / lit 16 * pitch⟩
          nOut 1 _ _ (bC _) (bB _) (by omega)
        split
        · rename_i hc1
          have hlt : s.leadInStep < nIn := by
            simp only [Bool.and_eq_true, decide_eq_true_eq] at hc1; exact hc1.1
          exact rinv_step _ _ ha s hi _ _ _ (hcs _) _ _ _ _ _ _ _ _ _ _ _ (bC _) hi.1 (bC _) hi.2.1
            (lerp_x_between _ _ _ _ _ _ hin1 (bB _) (Or.inr (by omega)))
            (lerp_x_between _ _ _ _ _ _ hin3 (bB _) (Or.inr (by omega))) hi.2.2.1 hi.2.2.2.1
        · split
          · exact rinv_step _ _ ha s hi _ _ _ (hcs _) _ _ _ _ _ _ _ _ _ _ _ (bC _) hi.2.2.1 (bC _) hi.2.2.2.1
              hi.1 hi.2.1
              (lerp_x_between _ _ _ _ _ _ (bB _) hout1 (Or.inr (by omega)))
              (lerp_x_between _ _ _ _ _ _ (bB _) hout3 (Or.inr (by omega)))
          · exact rinv_step _ _ ha s hi _ _ _ (hcs _) _ _ _ _ _ _ _ _ _ _ _ (bC _) (bB _) (bC _) (bB _)
              hi.1 hi.2.1 hi.2.2.1 hi.2.2.2.1
    obtain ⟨_, _, _, _, hp⟩ := hinv
    subst h
    exact hp


/-! ### the helix -/
/-- the root-line vertex (profile point `tp2`) written by step `j`: on the minor radius, turned by
`±(j+1)·360/segments` degrees and lifted by `j·zStep` -/
noncomputable def rootPoint (dMin : ℝ) (segments : Nat) (left : Bool) (zStep : ℝ) (j : Nat) : Pt3 ℝ :=
  let a0 : ℝ := (lit 360 : ℝ) / cast segments * cast (j + 1)
  let a := if left then a0 * (-1) else a0
  ⟨dcos a * (dMin / lit 2), dsin a * (dMin / lit 2), zStep * cast j + 0⟩

/-- helix invariant: after `k` steps, for every `j < k` the point with index `4(j+1)+2` is `rootPoint j` -/
def HInv (dMin : ℝ) (segments : Nat) (left : Bool) (zStep : ℝ) (k : Nat) (st : St ℝ) : Prop :=
  st.points.length = 4 + 4 * k ∧ ∀ j, j < k → st.points[4 * (j + 1) + 2]? = some (rootPoint dMin segments left zStep j)

theorem hinv_step (dMin : ℝ) (segments : Nat) (left : Bool) (zStep : ℝ) (k : Nat) (st st' : St ℝ)
    (h : HInv dMin segments left zStep k st) (p0 p1 p3 : Pt3 ℝ)
    (hp : st'.points = st.points ++ ring4
      (dcos (if left then (lit 360 : ℝ) / cast segments * cast (k + 1) * (-1) else (lit 360 : ℝ) / cast segments * cast (k + 1)))
      (dsin (if left then (lit 360 : ℝ) / cast segments * cast (k + 1) * (-1) else (lit 360 : ℝ) / cast segments * cast (k + 1)))
      (zStep * cast k) p0 p1 ⟨dMin / lit 2, 0, 0⟩ p3) :
    HInv dMin segments left zStep (k + 1) st' := by
  obtain ⟨h1, h2⟩ := h
  refine ⟨by rw [hp, List.length_append, h1]; simp [ring4]; omega, ?_⟩
  intro j hj
  rw [hp]
  by_cases hjk : j < k
  · rw [List.getElem?_append_left (by omega)]; exact h2 j hjk
  · have : j = k := by omega
    subst this
    rw [List.getElem?_append_right (by omega)]
    have e : 4 * (j + 1) + 2 - st.points.length = 2 := by omega
    rw [e]
    simp [ring4, rootPoint]


/-- **the thread is a helix of the right hand**: the root-line vertex written by step `j` sits at angle
`+(j+1)·360/segments` degrees for a right-hand thread and `−(j+1)·360/segments` for a left-hand one, at
height `j · zStep`, where `zStep = threadLength / nSteps`: the thread turns counter-clockwise going up
when right-handed, clockwise when left-handed, by one step angle per `zStep` of height -/
theorem threadMesh_helix (dMin dMaj pitch length : ℝ) (segments : Nat) (li lo : ℝ) (left : Bool) (m : Mesh ℝ)
    (h : threadMesh dMin dMaj pitch length segments li lo left = some m) :
    ∃ nSteps, 2 ≤ nSteps ∧
      nSteps = HasTrunc.trunc ((length - lit 7 / lit 10 * pitch) / pitch * (cast segments : ℝ)) ∧
      ∀ j, j < nSteps - 1 → m.points[4 * (j + 1) + 2]? =
        some (rootPoint dMin segments left ((length - lit 7 / lit 10 * pitch) / (cast nSteps : ℝ)) j) := by
  unfold threadMesh at h
  simp only [] at h
  split at h
  · simp at h
  · rename_i hcond
    injection h with h
    generalize hst : List.foldl _ _ (List.range _) = st at h
    generalize hn : HasTrunc.trunc ((length - lit 7 / lit 10 * pitch) / pitch * cast segments) = nSteps at *
    have hn2 : 2 ≤ nSteps := by
      simp only [Bool.or_eq_true, decide_eq_true_eq, not_or, not_lt] at hcond
      exact hcond.1
    have hinv : HInv dMin segments left ((length - lit 7 / lit 10 * pitch) / (cast nSteps : ℝ)) (nSteps - 1) st := by
      rw [← hst]
      apply foldl_range_inv (HInv dMin segments left ((length - lit 7 / lit 10 * pitch) / (cast nSteps : ℝ)))
      · exact ⟨rfl, fun j hj => by omega⟩
      · intro k s hk hi
        split
        · exact hinv_step _ _ _ _ k s _ hi _ _ _ rfl
        · split
          · exact hinv_step _ _ _ _ k s _ hi _ _ _ rfl
          · exact hinv_step _ _ _ _ k s _ hi _ _ _ rfl
    subst h
    exact ⟨nSteps, hn2, rfl, hinv.2⟩

/-- one revolution (`segments` steps) lifts the thread by one pitch, up to the rounding of the step
count: `pitch ≤ segments · zStep < pitch · (1 + 1/nSteps)` -/
theorem pitch_per_turn (pitch threadLength : ℝ) (segments : Nat) (hp : 0 < pitch) (hs : 0 < segments)
    (nSteps : Nat) (hn : nSteps = ⌊threadLength / pitch * (segments : ℝ)⌋₊) (hpos : 1 ≤ nSteps) :
    pitch ≤ (segments : ℝ) * (threadLength / (nSteps : ℝ)) ∧
      (segments : ℝ) * (threadLength / (nSteps : ℝ)) * (nSteps : ℝ) < pitch * ((nSteps : ℝ) + 1) := by
  have hN : (0 : ℝ) < nSteps := by exact_mod_cast hpos
  set x : ℝ := threadLength / pitch * (segments : ℝ) with hx
  have hx0 : 0 ≤ x := by
    by_contra hneg
    have : ⌊x⌋₊ = 0 := Nat.floor_of_nonpos (le_of_lt (not_le.mp hneg))
    omega
  have hfl : (nSteps : ℝ) ≤ x := by rw [hn]; exact Nat.floor_le hx0
  have hfu : x < (nSteps : ℝ) + 1 := by rw [hn]; exact Nat.lt_floor_add_one x
  have hxp : (segments : ℝ) * threadLength = pitch * x := by rw [hx]; field_simp
  constructor
  · rw [mul_div_assoc', le_div_iff₀ hN, hxp]; nlinarith
  · rw [mul_div_assoc', div_mul_cancel₀ _ (ne_of_gt hN), hxp]; nlinarith


end ScadVerif.ThreadLemmas
