/-
Structural invariants of the thread-mesh builder (Model/Thread.lean `threadMesh`): a fold over
`range (nSteps-1)` that appends one ring of four points and eight triangles per step.
-/
import ScadVerif.Lemmas.RealInst
import ScadVerif.Model.Thread
namespace ScadVerif.ThreadLemmas
open ScadVerif ScadVerif.Thread

noncomputable instance : HasTrunc ℝ := ⟨fun x => ⌊x⌋₊⟩

/-- invariant of a fold over `range n`, indexed by the number of steps done -/
theorem foldl_range_inv {σ : Type} (P : Nat → σ → Prop) (f : σ → Nat → σ) (init : σ) (n : Nat)
    (h0 : P 0 init) (hstep : ∀ k st, k < n → P k st → P (k + 1) (f st k)) :
    P n ((List.range n).foldl f init) := by
  induction n with
  | zero => simpa using h0
  | succ m ih =>
    rw [List.range_succ, List.foldl_append]
    simp only [List.foldl_cons, List.foldl_nil]
    exact hstep m _ (by omega) (ih (fun k st hk => hstep k st (by omega)))

theorem stepFaces_length (left : Bool) (o : Nat) : (stepFaces left o).length = 8 := by
  cases left <;> rfl
theorem stepFaces_bound (left : Bool) (o : Nat) : ∀ f ∈ stepFaces left o, f.length = 3 ∧ ∀ v ∈ f, v < o + 8 := by
  intro f hf
  cases left <;> simp only [stepFaces, Bool.false_eq_true, if_false, if_true, List.mem_cons, List.not_mem_nil,
    or_false] at hf <;>
  · rcases hf with rfl | rfl | rfl | rfl | rfl | rfl | rfl | rfl <;>
      (refine ⟨rfl, ?_⟩; intro v hv; simp only [List.mem_cons, List.not_mem_nil, or_false] at hv;
       rcases hv with rfl | rfl | rfl <;> omega)

/-- the structural facts of a thread mesh that do not depend on the geometry -/
structure MeshShape (m : Mesh ℝ) (nSteps : Nat) (dMin : ℝ) : Prop where
  points : m.points.length = 4 * nSteps
  faces : m.faces.length = 8 * nSteps - 4
  tri : ∀ f ∈ m.faces, f.length = 3
  valid : ∀ f ∈ m.faces, ∀ v ∈ f, v < m.points.length
  start0 : m.points[0]?.map (·.x) = some (dMin / 2)
  startZ : m.points[2]? = some ⟨dMin / 2, 0, 0⟩

/-- loop invariant of the thread builder after `k` steps -/
def Inv (p0 p2 : Pt3 ℝ) (k : Nat) (st : St ℝ) : Prop :=
  st.points.length = 4 + 4 * k ∧ st.faces.length = 2 + 8 * k ∧
  (∀ f ∈ st.faces, f.length = 3 ∧ ∀ v ∈ f, v < 4 + 4 * k) ∧
  st.points[0]? = some p0 ∧ st.points[2]? = some p2

theorem inv_step (p0 p2 : Pt3 ℝ) (k : Nat) (st : St ℝ) (left : Bool) (ring : List (Pt3 ℝ)) (hr : ring.length = 4)
    (h : Inv p0 p2 k st) (st' : St ℝ) (hp : st'.points = st.points ++ ring)
    (hf : st'.faces = st.faces ++ stepFaces left (k * 4)) : Inv p0 p2 (k + 1) st' := by
  obtain ⟨h1, h2, h3, h4, h5⟩ := h
  refine ⟨by rw [hp, List.length_append, h1, hr]; omega,
    by rw [hf, List.length_append, h2, stepFaces_length]; omega, ?_, ?_, ?_⟩
  · intro f hfm
    rw [hf] at hfm
    rcases List.mem_append.mp hfm with hfm | hfm
    · obtain ⟨a, b⟩ := h3 f hfm
      exact ⟨a, fun v hv => by have := b v hv; omega⟩
    · obtain ⟨a, b⟩ := stepFaces_bound left (k * 4) f hfm
      exact ⟨a, fun v hv => by have := b v hv; omega⟩
  · rw [hp, List.getElem?_append_left (by omega)]; exact h4
  · rw [hp, List.getElem?_append_left (by omega)]; exact h5

theorem ring4_length (c s z : ℝ) (a b d e : Pt3 ℝ) : (ring4 c s z a b d e).length = 4 := rfl

theorem threadMesh_shape (dMin dMaj pitch length : ℝ) (segments : Nat) (li lo : ℝ) (left : Bool) (m : Mesh ℝ)
    (h : threadMesh dMin dMaj pitch length segments li lo left = some m) :
    ∃ nSteps, 2 ≤ nSteps ∧ MeshShape m nSteps dMin := by
  unfold threadMesh at h
  simp only [] at h
  split at h
  · simp at h
  · rename_i hcond
    injection h with h
    generalize hst : List.foldl _ _ (List.range _) = st at h
    generalize hn : HasTrunc.trunc ((length - lit 7 / lit 10 * pitch) / pitch * cast segments) = nSteps at *
    have hn2 : 2 ≤ nSteps := by
      simp only [Bool.or_eq_true, decide_eq_true_eq, not_or, not_lt] at hcond
      exact hcond.1
    have hinv : Inv ⟨dMin / lit 2, 0, lit 3 / lit 4 * pitch⟩ ⟨dMin / lit 2, 0, 0⟩ (nSteps - 1) st := by
      rw [← hst]
      apply foldl_range_inv (Inv ⟨dMin / lit 2, 0, lit 3 / lit 4 * pitch⟩ ⟨dMin / lit 2, 0, 0⟩)
      · refine ⟨rfl, by cases left <;> rfl, ?_, rfl, rfl⟩
        intro f hf
        cases left <;> simp only [Bool.false_eq_true, if_false, if_true, List.mem_cons, List.not_mem_nil,
          or_false] at hf <;>
        · rcases hf with rfl | rfl <;>
            (refine ⟨rfl, ?_⟩; intro v hv; simp only [List.mem_cons, List.not_mem_nil, or_false] at hv;
             rcases hv with rfl | rfl | rfl <;> omega)
      · intro k s hk hi
        split
        · exact inv_step _ _ k s left _ (ring4_length ..) hi _ rfl rfl
        · split
          · exact inv_step _ _ k s left _ (ring4_length ..) hi _ rfl rfl
          · exact inv_step _ _ k s left _ (ring4_length ..) hi _ rfl rfl
    obtain ⟨h1, h2, h3, h4, h5⟩ := hinv
    subst h
    refine ⟨nSteps, hn2, ?_⟩
    have hk : 4 + 4 * (nSteps - 1) = 4 * nSteps := by omega
    refine ⟨by simp only [h1]; omega, ?_, ?_, ?_, ?_, ?_⟩
    · simp only [List.length_append, h2]
      cases left <;> simp <;> omega
    · intro f hf
      simp only [List.mem_append] at hf
      rcases hf with hf | hf
      · exact (h3 f hf).1
      · cases left <;> simp only [Bool.false_eq_true, if_false, if_true, List.mem_cons, List.not_mem_nil,
          or_false] at hf <;> rcases hf with rfl | rfl <;> rfl
    · intro f hf v hv
      simp only [List.mem_append] at hf
      simp only [h1]
      rcases hf with hf | hf
      · exact (h3 f hf).2 v hv
      · cases left <;> simp only [Bool.false_eq_true, if_false, if_true, List.mem_cons, List.not_mem_nil,
          or_false] at hf <;> rcases hf with rfl | rfl <;>
          (simp only [List.mem_cons, List.not_mem_nil, or_false] at hv; rcases hv with rfl | rfl | rfl <;> omega)
    · simp [h4]
    · simpa using h5

end ScadVerif.ThreadLemmas
