/-
The thread mesh of `threaded_cylinder` is a closed, consistently oriented surface — for every
number of steps, both hands.

The face list is: two start triangles on ring 0, eight triangles between ring k and ring k+1 for
every step k, two end triangles on the last ring.  Rings have four vertices (4k … 4k+3) and the
section is traversed 0 → 1 → 3 → 2 → 0.  Everything is a shifted copy of three concrete blocks, so
the block-level facts are decided on the blocks at offset 0 and transported by `shift`.
-/
import ScadVerif.Lemmas.MeshLemmas
import ScadVerif.Lemmas.ThreadLemmas
namespace ScadVerif.ThreadClosed
open ScadVerif ScadVerif.Spec ScadVerif.Thread ScadVerif.MeshLemmas ScadVerif.ThreadLemmas

/-! ### the face list -/
def startFaces (left : Bool) : List (List Nat) :=
  if left then [[2, 1, 0], [3, 1, 2]] else [[0, 1, 2], [2, 1, 3]]
def endFaces (left : Bool) (o : Nat) : List (List Nat) :=
  if left then [[5 + o, 7 + o, 6 + o], [4 + o, 5 + o, 6 + o]] else [[6 + o, 7 + o, 5 + o], [6 + o, 5 + o, 4 + o]]
def body (left : Bool) (k : Nat) : List (List Nat) := (List.range k).flatMap fun j => stepFaces left (j * 4)
/-- all faces of a thread mesh with `n` rings -/
def threadFaces (left : Bool) (n : Nat) : List (List Nat) :=
  startFaces left ++ body left (n - 1) ++ endFaces left ((n - 2) * 4)

theorem body_succ (left : Bool) (k : Nat) : body left (k + 1) = body left k ++ stepFaces left (k * 4) := by
  simp [body, List.range_succ]

/-! ### blocks as shifted copies of the blocks at offset 0 -/
def E0 (left : Bool) : List Edge := allEdges (stepFaces left 0)
def S0 (left : Bool) : List Edge := allEdges (startFaces left)
def T0 (left : Bool) : List Edge := allEdges (endFaces left 0)

theorem step_edges (left : Bool) (o : Nat) : allEdges (stepFaces left o) = (E0 left).map (shift o) := by
  cases left <;> simp [E0, stepFaces, allEdges, faceEdges_tri, shift]
theorem end_edges (left : Bool) (o : Nat) : allEdges (endFaces left o) = (T0 left).map (shift o) := by
  cases left <;> simp [T0, endFaces, allEdges, faceEdges_tri, shift]

/-- the section cycle of the ring at offset 0 -/
def cyc0 : List Edge := [(0, 1), (1, 3), (3, 2), (2, 0)]
def cyc (o : Nat) : List Edge := cyc0.map (shift o)
/-- the edges between two consecutive rings, one direction each -/
def X0 : List Edge := [(1, 5), (5, 3), (3, 7), (0, 4), (4, 1), (2, 6), (6, 0), (7, 2)]

theorem shift_shift (a b : Nat) (l : List Edge) : (l.map (shift a)).map (shift b) = l.map (shift (a + b)) := by
  simp [List.map_map, Function.comp_def, shift, Nat.add_assoc]

theorem cyc_succ (o : Nat) : cyc (o + 4) = (cyc0.map (shift 4)).map (shift o) := by
  rw [shift_shift, cyc, Nat.add_comm]

/-- right-handed step at offset 0: lower ring backwards, upper ring forwards, the rest both ways -/
theorem E0_false_perm :
    (E0 false).Perm (cyc0.map Prod.swap ++ cyc0.map (shift 4) ++ X0 ++ X0.map Prod.swap) := by decide
theorem S0_false_perm : (S0 false).Perm (cyc0 ++ [(1, 2)] ++ [(1, 2)].map Prod.swap) := by decide
theorem T0_false_perm :
    (T0 false).Perm ((cyc0.map (shift 4)).map Prod.swap ++ [(5, 6)] ++ [(5, 6)].map Prod.swap) := by decide
/-- the left-handed blocks are the right-handed ones with every face reversed -/
theorem E0_true_perm : (E0 true).Perm ((E0 false).map Prod.swap) := by decide
theorem S0_true_perm : (S0 true).Perm ((S0 false).map Prod.swap) := by decide
theorem T0_true_perm : (T0 true).Perm ((T0 false).map Prod.swap) := by decide

theorem step_false_perm (o : Nat) : (allEdges (stepFaces false o)).Perm
    ((cyc o).map Prod.swap ++ cyc (o + 4) ++ X0.map (shift o) ++ (X0.map (shift o)).map Prod.swap) := by
  rw [step_edges, cyc_succ]
  refine (E0_false_perm.map (shift o)).trans ?_
  simp only [List.map_append, cyc, shift_swap]
  exact List.Perm.refl _

/-! ### every directed edge is matched by its reverse (right-handed, then left-handed) -/
theorem startBody_closed : ∀ k,
    EdgeClosed (allEdges (startFaces false ++ body false k) ++ (cyc (k * 4)).map Prod.swap)
  | 0 => by
    have : allEdges (startFaces false ++ body false 0) ++ (cyc (0 * 4)).map Prod.swap =
        S0 false ++ cyc0.map Prod.swap := by
      simp [body, S0, cyc, shift, cyc0]
    rw [this]
    unfold EdgeClosed
    decide
  | k + 1 => by
    have ih := startBody_closed k
    have hs := step_false_perm (k * 4)
    have hk : (k + 1) * 4 = k * 4 + 4 := by omega
    unfold EdgeClosed at ih ⊢
    rw [List.perm_iff_count] at ih ⊢
    intro e
    have ih1 := ih e
    have ih2 := ih e.swap
    have hs1 := hs.count_eq e
    have hs2 := hs.count_eq e.swap
    rw [hk]
    simp only [body_succ, ← List.append_assoc, allEdges_append', List.map_append, List.count_append,
      count_map_swap, Prod.swap_swap] at ih1 ih2 hs1 hs2 ⊢
    omega

theorem threadFaces_false_closed (n : Nat) (hn : 2 ≤ n) : EdgeClosed (allEdges (threadFaces false n)) := by
  have hb := startBody_closed (n - 1)
  have he : (allEdges (endFaces false ((n - 2) * 4))).Perm
      ((cyc ((n - 1) * 4)).map Prod.swap ++ [(5, 6)].map (shift ((n - 2) * 4)) ++
        ([(5, 6)].map (shift ((n - 2) * 4))).map Prod.swap) := by
    rw [end_edges]
    refine (T0_false_perm.map (shift ((n - 2) * 4))).trans ?_
    have : (n - 1) * 4 = (n - 2) * 4 + 4 := by omega
    rw [this, cyc_succ]
    simp only [List.map_append, shift_swap]
    exact List.Perm.refl _
  unfold threadFaces
  unfold EdgeClosed at hb ⊢
  rw [List.perm_iff_count] at hb ⊢
  intro e
  have h1 := hb e
  have h2 := hb e.swap
  have e1 := he.count_eq e
  have e2 := he.count_eq e.swap
  simp only [allEdges_append', List.map_append, List.count_append, count_map_swap, Prod.swap_swap] at h1 h2 e1 e2 ⊢
  omega

/-- reversing every face swaps every edge -/
theorem body_true_perm : ∀ k, (allEdges (body true k)).Perm ((allEdges (body false k)).map Prod.swap)
  | 0 => by simp [body, allEdges]
  | k + 1 => by
    rw [body_succ, body_succ, allEdges_append', allEdges_append', List.map_append]
    refine (body_true_perm k).append ?_
    rw [step_edges, step_edges, shift_swap]
    exact E0_true_perm.map _

theorem threadFaces_true_perm (n : Nat) :
    (allEdges (threadFaces true n)).Perm ((allEdges (threadFaces false n)).map Prod.swap) := by
  unfold threadFaces
  simp only [allEdges_append', List.map_append]
  refine (List.Perm.append ?_ (body_true_perm _)).append ?_
  · exact S0_true_perm
  · rw [end_edges, end_edges, shift_swap]
    exact T0_true_perm.map _

theorem edgeClosed_swap (es : List Edge) (h : EdgeClosed es) : EdgeClosed (es.map Prod.swap) := by
  unfold EdgeClosed at h ⊢
  exact h.map _

theorem edgeClosed_perm (a b : List Edge) (hp : a.Perm b) (h : EdgeClosed b) : EdgeClosed a := by
  unfold EdgeClosed at h ⊢
  exact (hp.map _).trans (h.trans hp.symm)

theorem threadFaces_closed (left : Bool) (n : Nat) (hn : 2 ≤ n) : EdgeClosed (allEdges (threadFaces left n)) := by
  cases left
  · exact threadFaces_false_closed n hn
  · exact edgeClosed_perm _ _ (threadFaces_true_perm n) (edgeClosed_swap _ (threadFaces_false_closed n hn))

/-! ### no directed edge occurs twice -/
theorem E0_bounds : ∀ e ∈ E0 false, e.1 < 8 ∧ e.2 < 8 := by decide
theorem S0_bounds : ∀ e ∈ S0 false, e.1 < 4 ∧ e.2 < 4 := by decide
theorem T0_bounds : ∀ e ∈ T0 false, 4 ≤ e.1 ∧ 4 ≤ e.2 := by decide
theorem E0_nodup : (E0 false).Nodup := by decide
theorem S0_nodup : (S0 false).Nodup := by decide
theorem T0_nodup : (T0 false).Nodup := by decide
/-- consecutive steps share a ring but no directed edge -/
theorem E0_shift4_disjoint : ∀ a ∈ E0 false, ∀ b ∈ E0 false, a ≠ shift 4 b := by decide
theorem S0_E0_disjoint : ∀ a ∈ S0 false, a ∉ E0 false := by decide
theorem T0_E0_disjoint : ∀ a ∈ T0 false, a ∉ E0 false := by decide

theorem shift_inj (o : Nat) (a b : Edge) (h : shift o a = shift o b) : a = b := by
  unfold shift at h
  have h1 := congrArg Prod.fst h
  have h2 := congrArg Prod.snd h
  simp only at h1 h2
  exact Prod.ext (by omega) (by omega)

theorem nodup_shift (o : Nat) (l : List Edge) (h : l.Nodup) : (l.map (shift o)).Nodup :=
  h.map (fun a b hab => shift_inj o a b hab)

theorem steps_disjoint (j k : Nat) (hjk : j < k) (e : Edge)
    (h1 : e ∈ (E0 false).map (shift (j * 4))) (h2 : e ∈ (E0 false).map (shift (k * 4))) : False := by
  simp only [List.mem_map] at h1 h2
  obtain ⟨a, ha, rfl⟩ := h1
  obtain ⟨b, hb, hab⟩ := h2
  by_cases hk : k = j + 1
  · subst hk
    apply E0_shift4_disjoint a ha b hb
    unfold shift at hab ⊢
    have h1 := congrArg Prod.fst hab
    have h2 := congrArg Prod.snd hab
    simp only at h1 h2
    exact Prod.ext (by simp only; omega) (by simp only; omega)
  · have := (E0_bounds a ha).1
    unfold shift at hab
    have h1 := congrArg Prod.fst hab
    simp only at h1
    omega

theorem body_false_nodup (k : Nat) : (allEdges (body false k)).Nodup := by
  unfold body
  rw [allEdges_flatMap, List.nodup_flatMap]
  constructor
  · intro j _
    rw [step_edges]
    exact nodup_shift _ _ E0_nodup
  · have hp : (List.range k).Pairwise (· < ·) := List.pairwise_lt_range
    refine List.Pairwise.imp ?_ hp
    intro j k' hjk
    simp only [Function.onFun]
    rw [List.disjoint_left]
    intro e h1 h2
    rw [step_edges] at h1 h2
    exact steps_disjoint j k' hjk e h1 h2

theorem mem_body_edges (k : Nat) (e : Edge) (h : e ∈ allEdges (body false k)) :
    ∃ j < k, e ∈ (E0 false).map (shift (j * 4)) := by
  unfold body at h
  rw [allEdges_flatMap, List.mem_flatMap] at h
  obtain ⟨j, hj, he⟩ := h
  rw [step_edges] at he
  exact ⟨j, List.mem_range.mp hj, he⟩

theorem threadFaces_false_nodup (n : Nat) (hn : 2 ≤ n) : (allEdges (threadFaces false n)).Nodup := by
  unfold threadFaces
  rw [allEdges_append', allEdges_append', List.nodup_append, List.nodup_append]
  refine ⟨⟨S0_nodup, body_false_nodup _, ?_⟩, ?_, ?_⟩
  · -- start vs steps
    intro a ha b hb hab
    subst hab
    obtain ⟨j, _, hj⟩ := mem_body_edges _ _ hb
    simp only [List.mem_map] at hj
    obtain ⟨c, hc, hca⟩ := hj
    by_cases hj0 : j = 0
    · subst hj0
      have : c = a := by
        unfold shift at hca; rw [← hca]; simp
      subst this
      exact S0_E0_disjoint c ha hc
    · have := (S0_bounds a ha).1
      unfold shift at hca
      have h1 := congrArg Prod.fst hca
      simp only at h1
      omega
  · rw [end_edges]
    exact nodup_shift _ _ T0_nodup
  · -- (start and steps) vs end
    intro a ha b hb hab
    subst hab
    rw [end_edges] at hb
    simp only [List.mem_map] at hb
    obtain ⟨t, ht, hta⟩ := hb
    have htb := T0_bounds t ht
    rcases List.mem_append.mp ha with ha | ha
    · have := (S0_bounds a ha).1
      unfold shift at hta
      have h1 := congrArg Prod.fst hta
      simp only at h1
      omega
    · obtain ⟨j, hjlt, hj⟩ := mem_body_edges _ _ ha
      simp only [List.mem_map] at hj
      obtain ⟨c, hc, hca⟩ := hj
      by_cases hjn : j = n - 2
      · subst hjn
        have : c = t := shift_inj _ _ _ (hca.trans hta.symm)
        subst this
        exact T0_E0_disjoint c ht hc
      · have := (E0_bounds c hc).1
        unfold shift at hta hca
        have h1 := congrArg Prod.fst hta
        have h2 := congrArg Prod.fst hca
        simp only at h1 h2
        omega

theorem threadFaces_nodup (left : Bool) (n : Nat) (hn : 2 ≤ n) : (allEdges (threadFaces left n)).Nodup := by
  cases left
  · exact threadFaces_false_nodup n hn
  · exact (threadFaces_true_perm n).nodup_iff.mpr (nodup_map_swap _ (threadFaces_false_nodup n hn))

/-! ### faces are triangles of three distinct valid vertices -/
theorem threadFaces_faces (left : Bool) (n : Nat) (hn : 2 ≤ n) :
    ∀ f ∈ threadFaces left n, 3 ≤ f.length ∧ (∀ v ∈ f, v < 4 * n) ∧ f.Nodup := by
  intro f hf
  unfold threadFaces at hf
  rcases List.mem_append.mp hf with hf | hf
  · rcases List.mem_append.mp hf with hf | hf
    · cases left <;> simp only [startFaces, Bool.false_eq_true, if_false, if_true, List.mem_cons,
        List.not_mem_nil, or_false] at hf <;> rcases hf with rfl | rfl <;>
        (refine ⟨by simp, ?_, by simp⟩; intro v hv; simp only [List.mem_cons, List.not_mem_nil, or_false] at hv;
         rcases hv with rfl | rfl | rfl <;> omega)
    · unfold body at hf
      rw [List.mem_flatMap] at hf
      obtain ⟨j, hj, hfj⟩ := hf
      have hj' := List.mem_range.mp hj
      cases left <;> simp only [stepFaces, Bool.false_eq_true, if_false, if_true, List.mem_cons,
        List.not_mem_nil, or_false] at hfj <;>
        rcases hfj with rfl | rfl | rfl | rfl | rfl | rfl | rfl | rfl <;>
        (refine ⟨by simp, ?_, by simp⟩; intro v hv;
         simp only [List.mem_cons, List.not_mem_nil, or_false] at hv;
         rcases hv with rfl | rfl | rfl <;> omega)
  · cases left <;> simp only [endFaces, Bool.false_eq_true, if_false, if_true, List.mem_cons,
      List.not_mem_nil, or_false] at hf <;> rcases hf with rfl | rfl <;>
      (refine ⟨by simp, ?_, by simp⟩; intro v hv;
       simp only [List.mem_cons, List.not_mem_nil, or_false] at hv;
       rcases hv with rfl | rfl | rfl <;> omega)

/-- **the face list of a thread mesh with `n ≥ 2` rings is a closed, consistently oriented surface**
(the Boolean the oracle evaluates), for both hands -/
theorem threadFaces_closedOriented (left : Bool) (n : Nat) (hn : 2 ≤ n) :
    closedOriented (4 * n) (threadFaces left n) = true :=
  closedOriented_of (4 * n) _ (threadFaces_faces left n hn) (threadFaces_nodup left n hn)
    (threadFaces_closed left n hn)

/-! ### the builder produces exactly this face list -/
theorem threadMesh_faces (dMin dMaj pitch length : ℝ) (segments : Nat) (li lo : ℝ) (left : Bool) (m : Mesh ℝ)
    (h : threadMesh dMin dMaj pitch length segments li lo left = some m) :
    ∃ n, 2 ≤ n ∧ m.faces = threadFaces left n ∧ m.points.length = 4 * n := by
  obtain ⟨n', hn', hshape⟩ := threadMesh_shape dMin dMaj pitch length segments li lo left m h
  unfold threadMesh at h
  simp only [] at h
  split at h
  · simp at h
  · rename_i hcond
    injection h with h
    generalize hst : List.foldl _ _ (List.range _) = st at h
    generalize hn : HasTrunc.trunc ((length - lit 7 / lit 10 * pitch) / pitch * cast segments) = nSteps at *
    have hn2 : 2 ≤ nSteps := by
      simp only [Bool.or_eq_true, decide_eq_true_eq, not_or, not_lt] at hcond
      exact hcond.1
    have hinv : st.faces = startFaces left ++ body left (nSteps - 1) := by
      rw [← hst]
      apply foldl_range_inv (fun k (s : St ℝ) => s.faces = startFaces left ++ body left k)
      · simp [body, startFaces]
      · intro k s _ hi
        rw [body_succ, ← List.append_assoc, ← hi]
        split
        · rfl
        · split <;> rfl
    subst h
    refine ⟨nSteps, hn2, ?_, ?_⟩
    · simp only [hinv, threadFaces, endFaces]
    · have h1 := hshape.points
      have h2 := hshape.faces
      have hb : ∀ k, (body left k).length = 8 * k := by
        intro k
        induction k with
        | zero => simp [body]
        | succ k ih => rw [body_succ, List.length_append, ih, stepFaces_length]; omega
      have hs : (startFaces left).length = 2 := by cases left <;> rfl
      have he : ∀ o, (if left = true then [[5 + o, 7 + o, 6 + o], [4 + o, 5 + o, 6 + o]]
          else [[6 + o, 7 + o, 5 + o], [6 + o, 5 + o, 4 + o]] : List (List Nat)).length = 2 := by
        intro o; cases left <;> rfl
      dsimp only at h1 h2 ⊢
      simp only [hinv, List.length_append, hb, hs, he] at h2
      omega

/-- **every thread mesh is a closed, consistently oriented surface**: whenever the builder returns a
mesh — every diameter, pitch, length, segment count, lead-in and lead-out angle, both hands — its face
list satisfies `closedOriented` against its own point list -/
theorem threadMesh_closedOriented (dMin dMaj pitch length : ℝ) (segments : Nat) (li lo : ℝ) (left : Bool)
    (m : Mesh ℝ) (h : threadMesh dMin dMaj pitch length segments li lo left = some m) :
    closedOriented m.points.length m.faces = true := by
  obtain ⟨n, hn, hf, hp⟩ := threadMesh_faces dMin dMaj pitch length segments li lo left m h
  rw [hf, hp]
  exact threadFaces_closedOriented left n hn

end ScadVerif.ThreadClosed
