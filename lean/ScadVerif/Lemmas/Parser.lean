/-
Consumption lemmas for the scanner-less OpenSCAD parser of Spec/OpenScad.lean: each syntactic
class, printed the way the emitter prints it and followed by a suitable continuation, is
consumed exactly and yields the expected abstract syntax.
-/
import ScadVerif.Spec.OpenScadBind
namespace ScadVerif.ParserLemmas
open ScadVerif ScadVerif.Spec

/-! ### white space -/
theorem skipWs_cons_of_not_ws (c : Char) (r : List Char) (h : isWs c = false) : skipWs (c :: r) = c :: r := by
  simp [skipWs, List.dropWhile, h]
theorem skipWs_space (r : List Char) : skipWs (' ' :: r) = skipWs r := by
  simp [skipWs, List.dropWhile, isWs]
theorem skipWs_newline (r : List Char) : skipWs ('\n' :: r) = skipWs r := by
  simp [skipWs, List.dropWhile, isWs]

/-- continuation after a value: `,` `)` or `]` -/
def Delim (rest : List Char) : Prop := ∃ c r, rest = c :: r ∧ (c = ',' ∨ c = ')' ∨ c = ']' ∨ c = ';')

theorem Delim.not_digit {rest : List Char} (h : Delim rest) :
    ∃ c r, rest = c :: r ∧ isDigit c = false ∧ c ≠ '.' ∧ isIdChar c = false ∧ isWs c = false := by
  obtain ⟨c, r, rfl, hc⟩ := h
  refine ⟨c, r, rfl, ?_⟩
  rcases hc with rfl | rfl | rfl | rfl <;> decide

/-! ### takeWhile / dropWhile over an append -/
theorem takeWhile_append_stop {p : Char → Bool} (a : List Char) (c : Char) (r : List Char)
    (ha : a.all p = true) (hc : p c = false) : (a ++ c :: r).takeWhile p = a := by
  induction a with
  | nil => simp [List.takeWhile, hc]
  | cons x xs ih =>
    simp only [List.all_cons, Bool.and_eq_true] at ha
    simp [List.takeWhile, ha.1, ih ha.2]
theorem dropWhile_append_stop {p : Char → Bool} (a : List Char) (c : Char) (r : List Char)
    (ha : a.all p = true) (hc : p c = false) : (a ++ c :: r).dropWhile p = c :: r := by
  induction a with
  | nil => simp [List.dropWhile, hc]
  | cons x xs ih =>
    simp only [List.all_cons, Bool.and_eq_true] at ha
    simp [List.dropWhile, ha.1, ih ha.2]

/-! ### identifiers -/
/-- a valid identifier -/
def IsIdent (s : List Char) : Bool :=
  match s with
  | [] => false
  | c :: r => isIdStart c && r.all isIdChar

theorem not_ws_of_idStart (a : Char) (h : isIdStart a = true) : isWs a = false := by
  cases hw : isWs a with
  | false => rfl
  | true =>
    simp only [isWs, Bool.or_eq_true, decide_eq_true_eq] at hw
    rcases hw with ((rfl | rfl) | rfl) | rfl <;> revert h <;> decide
theorem not_ws_of_digit (a : Char) (h : isDigit a = true) : isWs a = false := by
  cases hw : isWs a with
  | false => rfl
  | true =>
    simp only [isWs, Bool.or_eq_true, decide_eq_true_eq] at hw
    rcases hw with ((rfl | rfl) | rfl) | rfl <;> revert h <;> decide

theorem pIdent_ident (name : List Char) (c : Char) (rest : List Char)
    (hn : IsIdent name = true) (hc : isIdChar c = false) :
    pIdent (name ++ c :: rest) = some (name, c :: rest) := by
  cases name with
  | nil => simp [IsIdent] at hn
  | cons a t =>
    simp only [IsIdent, Bool.and_eq_true] at hn
    have hws : isWs a = false := not_ws_of_idStart a hn.1
    simp only [pIdent, List.cons_append, skipWs_cons_of_not_ws _ _ hws, hn.1, if_true]
    rw [takeWhile_append_stop t c rest hn.2 hc, dropWhile_append_stop t c rest hn.2 hc]


/-! ### numerals -/
/-- unsigned numeral body: digits, optionally `.` and more digits -/
def IsUnsigned (body : List Char) : Prop :=
  ∃ ip fr : List Char, ip ≠ [] ∧ ip.all isDigit = true ∧ fr.all isDigit = true ∧
    (body = ip ∨ (fr ≠ [] ∧ body = ip ++ '.' :: fr))

theorem takeWhile_all (p : Char → Bool) (l : List Char) : (l.takeWhile p).all p = true := by
  induction l with
  | nil => rfl
  | cons x xs ih =>
    simp only [List.takeWhile]
    split
    · rename_i hx; simp [hx, ih]
    · rfl

theorem isUnsigned_of (body : List Char)
    (h : (!(body.takeWhile isDigit).isEmpty && ((body.dropWhile isDigit).isEmpty ||
      isFraction (body.dropWhile isDigit))) = true) :
    IsUnsigned body := by
  have hsplit : body.takeWhile isDigit ++ body.dropWhile isDigit = body := List.takeWhile_append_dropWhile
  have hall : (body.takeWhile isDigit).all isDigit = true := takeWhile_all _ _
  simp only [Bool.and_eq_true, Bool.not_eq_true', Bool.or_eq_true] at h
  obtain ⟨hne, hrest⟩ := h
  have hne' : body.takeWhile isDigit ≠ [] := by
    intro hc; rw [hc] at hne; simp at hne
  rcases hrest with hempty | hfrac
  · refine ⟨body.takeWhile isDigit, [], hne', hall, rfl, Or.inl ?_⟩
    have : body.dropWhile isDigit = [] := by simpa using hempty
    rw [this, List.append_nil] at hsplit; exact hsplit.symm
  · cases hd : body.dropWhile isDigit with
    | nil => rw [hd] at hfrac; simp [isFraction] at hfrac
    | cons c fr =>
      rw [hd] at hfrac
      by_cases hc : c = '.'
      · subst hc
        simp only [isFraction, Bool.and_eq_true, Bool.not_eq_true'] at hfrac
        refine ⟨body.takeWhile isDigit, fr, hne', hall, hfrac.2, Or.inr ⟨?_, ?_⟩⟩
        · intro he; rw [he] at hfrac; simp at hfrac
        · have := hsplit; rw [hd] at this; exact this.symm
      · exfalso
        unfold isFraction at hfrac
        split at hfrac
        · rename_i heq; injection heq with h1 _; exact absurd h1 hc
        · simp at hfrac

theorem numBody_neg (r : List Char) : numBody ('-' :: r) = r := rfl
theorem numBody_of_ne (c : Char) (r : List Char) (h : c ≠ '-') : numBody (c :: r) = c :: r := by
  unfold numBody
  split
  · rename_i heq; injection heq with h1 _; exact absurd h1 h
  · rfl

theorem isNumeral_cases (cs : List Char) (h : IsNumeral cs = true) :
    (∃ body, cs = '-' :: body ∧ IsUnsigned body) ∨ (IsUnsigned cs ∧ cs.head? ≠ some '-') := by
  unfold IsNumeral at h
  cases cs with
  | nil => simp [numBody] at h
  | cons c r =>
    by_cases hc : c = '-'
    · subst hc
      left
      simp only [numBody_neg] at h
      exact ⟨r, rfl, isUnsigned_of r h⟩
    · right
      simp only [numBody_of_ne c r hc] at h
      exact ⟨isUnsigned_of (c :: r) h, by simp [hc]⟩

theorem pUnsigned_body (body : List Char) (c : Char) (rest : List Char) (h : IsUnsigned body)
    (hd : isDigit c = false) (hdot : c ≠ '.') :
    pUnsigned (body ++ c :: rest) = some (body, c :: rest) := by
  obtain ⟨ip, fr, hne, hip, hfr, hb⟩ := h
  have hdotd : isDigit '.' = false := by decide
  rcases hb with hb | ⟨hfrne, hb⟩
  · rw [hb]
    unfold pUnsigned
    simp only [takeWhile_append_stop ip c rest hip hd, dropWhile_append_stop ip c rest hip hd]
    have : ip.isEmpty = false := by cases ip <;> simp_all
    simp only [this, Bool.false_eq_true, if_false]
    split
    · rename_i heq; injection heq with h1 _; exact absurd h1 hdot
    · rfl
  · rw [hb]
    unfold pUnsigned
    have e : ip ++ '.' :: fr ++ c :: rest = ip ++ '.' :: (fr ++ c :: rest) := by simp
    rw [e]
    simp only [takeWhile_append_stop ip '.' _ hip hdotd, dropWhile_append_stop ip '.' _ hip hdotd]
    have : ip.isEmpty = false := by cases ip <;> simp_all
    simp only [this, takeWhile_append_stop fr c rest hfr hd, dropWhile_append_stop fr c rest hfr hd]
    have : fr.isEmpty = false := by cases fr <;> simp_all
    simp [this]

theorem unsigned_head (body : List Char) (h : IsUnsigned body) :
    ∃ d t, body = d :: t ∧ isDigit d = true := by
  obtain ⟨ip, fr, hne, hip, _, hb⟩ := h
  cases ip with
  | nil => exact absurd rfl hne
  | cons d t =>
    simp only [List.all_cons, Bool.and_eq_true] at hip
    rcases hb with rfl | ⟨_, rfl⟩
    · exact ⟨d, t, rfl, hip.1⟩
    · exact ⟨d, t ++ '.' :: fr, by simp, hip.1⟩

/-- a numeral followed by a delimiter is read back as itself -/
theorem pNumber_numeral (cs : List Char) (rest : List Char) (h : IsNumeral cs = true) (hr : Delim rest) :
    pNumber (cs ++ rest) = some (cs, rest) := by
  obtain ⟨c, r, rfl, hd, hdot, _, _⟩ := hr.not_digit
  rcases isNumeral_cases cs h with ⟨body, rfl, hb⟩ | ⟨hb, hhead⟩
  · unfold pNumber
    have hws : isWs '-' = false := by decide
    simp only [List.cons_append, skipWs_cons_of_not_ws _ _ hws, pUnsigned_body body c r hb hd hdot,
      Option.map_some]
  · obtain ⟨d, t, rfl, hdig⟩ := unsigned_head cs hb
    have hws : isWs d = false := not_ws_of_digit d hdig
    have hneg : d ≠ '-' := by intro he; subst he; revert hdig; decide
    unfold pNumber
    simp only [List.cons_append, skipWs_cons_of_not_ws _ _ hws]
    have := pUnsigned_body (d :: t) c r hb hd hdot
    simp only [List.cons_append] at this
    split
    · rename_i heq; injection heq with h1 _; exact absurd h1 hneg
    · exact this


/-! ### strings -/
def NoNul (s : List Char) : Prop := ∀ c ∈ s, c ≠ '\x00'

theorem pStrBody_escapeChar (c : Char) (hc : c ≠ '\x00') (tail : List Char) :
    pStrBody (escapeChar c ++ tail) = (pStrBody tail).map fun (s, r) => (c :: s, r) := by
  unfold escapeChar
  by_cases h1 : c = '\\'
  · subst h1; simp [pStrBody]
  by_cases h2 : c = '"'
  · subst h2; simp [pStrBody]
  by_cases h3 : c = '\n'
  · subst h3; simp [pStrBody]
  by_cases h4 : c = '\t'
  · subst h4; simp [pStrBody]
  by_cases h5 : c = '\r'
  · subst h5; simp [pStrBody]
  simp only [h1, h2, h3, h4, h5, if_false, List.cons_append, List.nil_append]
  rw [pStrBody]
  · simp [hc]
  all_goals first | exact h2 | exact h1 | exact h3 | (intros; simp_all)

theorem pStrBody_escape (s rest : List Char) (h : NoNul s) :
    pStrBody (escape s ++ '"' :: rest) = some (s, rest) := by
  induction s with
  | nil => simp [escape, pStrBody]
  | cons c s ih =>
    have hs : NoNul s := fun d hd => h d (List.mem_cons_of_mem _ hd)
    have hc : c ≠ '\x00' := h c (List.mem_cons_self ..)
    have e : escape (c :: s) ++ '"' :: rest = escapeChar c ++ (escape s ++ '"' :: rest) := by
      simp [escape]
    rw [e, pStrBody_escapeChar c hc, ih hs]; rfl

/-! ### values -/
mutual
def toVal : Value → Val
  | .num t => .num t
  | .bool b => .bool b
  | .str s => .str s
  | .undef => .undef
  | .vec _ items => .vec (toVals items)
def toVals : List Value → List Val
  | [] => []
  | v :: vs => toVal v :: toVals vs
end

mutual
def ValueOK : Value → Prop
  | .num t => IsNumeral t = true
  | .bool _ => True
  | .str s => NoNul s
  | .undef => True
  | .vec _ items => ValuesOK items
def ValuesOK : List Value → Prop
  | [] => True
  | v :: vs => ValueOK v ∧ ValuesOK vs
end

mutual
def vsize : Value → Nat
  | .vec _ items => 1 + vsizes items
  | _ => 1
def vsizes : List Value → Nat
  | [] => 0
  | v :: vs => 1 + vsize v + vsizes vs
end

theorem flatten_append (a b : List Piece) : flatten (a ++ b) = flatten a ++ flatten b := by
  simp [flatten]
theorem flatten_cons (p : Piece) (ps : List Piece) : flatten (p :: ps) = p.chars ++ flatten ps := by
  simp [flatten]
theorem flatten_nil : flatten [] = [] := rfl

theorem true_ident : IsIdent c!"true" = true := by decide
theorem false_ident : IsIdent c!"false" = true := by decide
theorem undef_ident : IsIdent c!"undef" = true := by decide

/-- the first character of a numeral is `-` or a digit -/
theorem numeral_head (t : List Char) (h : IsNumeral t = true) :
    ∃ c r, t = c :: r ∧ (isDigit c = true ∨ c = '-') := by
  rcases isNumeral_cases t h with ⟨body, rfl, _⟩ | ⟨hb, _⟩
  · exact ⟨'-', body, rfl, Or.inr rfl⟩
  · obtain ⟨d, r, rfl, hd⟩ := unsigned_head t hb
    exact ⟨d, r, rfl, Or.inl hd⟩

theorem pValue_skip_space (fuel : Nat) (cs : List Char) : pValue fuel (' ' :: cs) = pValue fuel cs := by
  cases fuel with
  | zero => simp [pValue]
  | succ f => simp only [pValue, skipWs_space]
theorem pItems_skip_space (fuel : Nat) (cs : List Char) : pItems fuel (' ' :: cs) = pItems fuel cs := by
  cases fuel with
  | zero => simp [pItems]
  | succ f => simp only [pItems, pValue_skip_space]

/-- the printed form of a value starts with a character that is neither white space nor `]` -/
theorem value_head (v : Value) (hok : ValueOK v) :
    ∃ c r, flatten v.pieces = c :: r ∧ c ≠ ']' ∧ isWs c = false := by
  cases v with
  | num t =>
    obtain ⟨c, r, rfl, hc⟩ := numeral_head t hok
    refine ⟨c, r, by simp [Value.pieces, flatten, Piece.chars, Tok.chars], ?_, ?_⟩
    · rcases hc with hd | rfl
      · intro he; subst he; revert hd; decide
      · decide
    · rcases hc with hd | rfl
      · exact not_ws_of_digit c hd
      · decide
  | bool b =>
    cases b
    · exact ⟨'f', c!"alse", by simp [Value.pieces, flatten, Piece.chars, Tok.chars], by decide, by decide⟩
    · exact ⟨'t', c!"rue", by simp [Value.pieces, flatten, Piece.chars, Tok.chars], by decide, by decide⟩
  | str s => exact ⟨'"', escape s ++ ['"'], by simp [Value.pieces, flatten, Piece.chars, Tok.chars], by decide, by decide⟩
  | undef => exact ⟨'u', c!"ndef", by simp [Value.pieces, flatten, Piece.chars, Tok.chars], by decide, by decide⟩
  | vec sp items =>
    exact ⟨'[', flatten (Value.piecesList sp items ++ [Piece.tok Tok.rbrack]),
      by simp [Value.pieces, flatten, Piece.chars, Tok.chars], by decide, by decide⟩

theorem piecesList_head (sp : Bool) (v : Value) (vs : List Value) (rest : List Char) (hok : ValuesOK (v :: vs)) :
    ∃ c r, flatten (Value.piecesList sp (v :: vs)) ++ ']' :: rest = c :: r ∧ c ≠ ']' ∧ isWs c = false := by
  obtain ⟨c, r, he, h1, h2⟩ := value_head v hok.1
  cases vs with
  | nil => exact ⟨c, r ++ ']' :: rest, by simp [Value.piecesList, he], h1, h2⟩
  | cons w ws =>
    refine ⟨c, r ++ (flatten (Piece.tok Tok.comma :: ((if sp then [Piece.ws [' ']] else []) ++
      Value.piecesList sp (w :: ws))) ++ ']' :: rest), ?_, h1, h2⟩
    simp only [Value.piecesList, flatten_append, he, List.cons_append, List.append_assoc]

/-- how `pValue` dispatches on the first non-blank character -/
theorem pValue_num_head (f : Nat) (c : Char) (cs : List Char) (h : isDigit c = true ∨ c = '-') :
    pValue (f + 1) (c :: cs) = (pNumber (c :: cs)).map fun (t, r) => (Val.num t, r) := by
  have hws : isWs c = false := by
    rcases h with hd | rfl
    · exact not_ws_of_digit c hd
    · decide
  have hq : c ≠ '"' := by
    rcases h with hd | rfl
    · intro he; subst he; revert hd; decide
    · decide
  have hb : c ≠ '[' := by
    rcases h with hd | rfl
    · intro he; subst he; revert hd; decide
    · decide
  have hcond : (isDigit c || decide (c = '-')) = true := by
    rcases h with hd | rfl <;> simp_all
  unfold pValue
  rw [skipWs_cons_of_not_ws _ _ hws]
  split
  · rename_i heq; injection heq with h1 _; exact absurd h1 hq
  · rename_i heq; injection heq with h1 _; exact absurd h1 hb
  · rename_i c' rest' _ _ heq
    injection heq with h1 h2
    subst h1; subst h2
    simp only [hcond, if_true]
  · rename_i heq; simp at heq

theorem pValue_word (f : Nat) (w : List Char) (d : Char) (r : List Char) (hw : IsIdent w = true)
    (hfirst : ∃ c t, w = c :: t ∧ isLetter c = true) (hd : isIdChar d = false) :
    pValue (f + 1) (w ++ d :: r) =
      (if w = c!"true" then some (Val.bool true, d :: r)
       else if w = c!"false" then some (Val.bool false, d :: r)
       else if w = c!"undef" then some (Val.undef, d :: r) else none) := by
  obtain ⟨c, t, rfl, hl⟩ := hfirst
  have hid := pIdent_ident (c :: t) d r hw hd
  have hstart : isIdStart c = true := by simp [isIdStart, hl]
  have hws : isWs c = false := not_ws_of_idStart c hstart
  have hnd : isDigit c = false := by
    simp only [isLetter, Bool.or_eq_true, Bool.and_eq_true, decide_eq_true_eq] at hl
    cases hdg : isDigit c with
    | false => rfl
    | true =>
      simp only [isDigit, Bool.and_eq_true, decide_eq_true_eq] at hdg
      rcases hl with ⟨h1, h2⟩ | ⟨h1, h2⟩
      · exact absurd (Char.le_trans h1 hdg.2) (by decide)
      · exact absurd (Char.le_trans h1 hdg.2) (by decide)
  have hq : c ≠ '"' := by intro he; subst he; revert hl; decide
  have hb : c ≠ '[' := by intro he; subst he; revert hl; decide
  have hm : c ≠ '-' := by intro he; subst he; revert hl; decide
  unfold pValue
  simp only [List.cons_append] at hid ⊢
  rw [skipWs_cons_of_not_ws _ _ hws]
  split
  · rename_i heq; injection heq with h1 _; exact absurd h1 hq
  · rename_i heq; injection heq with h1 _; exact absurd h1 hb
  · rename_i c' rest' _ _ heq
    injection heq with h1 h2
    subst h1; subst h2
    have hcond : (isDigit c || decide (c = '-')) = false := by simp [hnd, hm]
    simp only [hcond, Bool.false_eq_true, if_false, hid]
  · rename_i heq; simp at heq

theorem pValue_str_head (f : Nat) (cs : List Char) :
    pValue (f + 1) ('"' :: cs) = (pStrBody cs).map fun (s, r) => (Val.str s, r) := by
  unfold pValue
  rw [skipWs_cons_of_not_ws _ _ (by decide)]
  rfl

theorem pValue_vec_head (f : Nat) (cs : List Char) :
    pValue (f + 1) ('[' :: cs) =
      (match skipWs cs with
       | ']' :: r => some (Val.vec [], r)
       | _ => (pItems f cs).map fun (vs, r) => (Val.vec vs, r)) := by
  unfold pValue
  rw [skipWs_cons_of_not_ws _ _ (by decide)]
  rfl

mutual
theorem pValue_pieces : (v : Value) → (rest : List Char) → (fuel : Nat) → ValueOK v → Delim rest → vsize v ≤ fuel →
    pValue fuel (flatten v.pieces ++ rest) = some (toVal v, rest)
  | .num t, rest, fuel, hok, hr, hf => by
    cases fuel with
    | zero => simp [vsize] at hf
    | succ f =>
      obtain ⟨c, r, rfl, hc⟩ := numeral_head t hok
      have hnum := pNumber_numeral (c :: r) rest hok hr
      simp only [Value.pieces, flatten_cons, flatten_nil, Piece.chars, Tok.chars, List.append_nil]
      simp only [List.cons_append] at hnum ⊢
      rw [pValue_num_head f c _ hc, hnum]; rfl
  | .bool b, rest, fuel, _, hr, hf => by
    cases fuel with
    | zero => simp [vsize] at hf
    | succ f =>
      obtain ⟨d, r, rfl, _, _, hid, _⟩ := hr.not_digit
      cases b
      · simp only [Value.pieces, flatten_cons, flatten_nil, Piece.chars, Tok.chars, List.append_nil,
          Bool.false_eq_true, if_false]
        rw [pValue_word f c!"false" d r false_ident ⟨'f', c!"alse", rfl, by decide⟩ hid]
        simp [toVal]
      · simp only [Value.pieces, flatten_cons, flatten_nil, Piece.chars, Tok.chars, List.append_nil, if_true]
        rw [pValue_word f c!"true" d r true_ident ⟨'t', c!"rue", rfl, by decide⟩ hid]
        simp [toVal]
  | .str s, rest, fuel, hok, _, hf => by
    cases fuel with
    | zero => simp [vsize] at hf
    | succ f =>
      simp only [Value.pieces, flatten_cons, flatten_nil, Piece.chars, Tok.chars, List.append_nil,
        List.cons_append, List.append_assoc, List.nil_append]
      rw [pValue_str_head, pStrBody_escape s rest hok]; rfl
  | .undef, rest, fuel, _, hr, hf => by
    cases fuel with
    | zero => simp [vsize] at hf
    | succ f =>
      obtain ⟨d, r, rfl, _, _, hid, _⟩ := hr.not_digit
      simp only [Value.pieces, flatten_cons, flatten_nil, Piece.chars, Tok.chars, List.append_nil]
      rw [pValue_word f c!"undef" d r undef_ident ⟨'u', c!"ndef", rfl, by decide⟩ hid]
      simp [toVal]
  | .vec sp items, rest, fuel, hok, _, hf => by
    cases fuel with
    | zero => simp [vsize] at hf
    | succ f =>
      simp only [Value.pieces, flatten_cons, flatten_append, flatten_nil, Piece.chars, Tok.chars, List.append_nil,
        List.cons_append, List.nil_append, List.append_assoc]
      rw [pValue_vec_head]
      cases items with
      | nil =>
        simp only [Value.piecesList, flatten_nil, List.nil_append]
        rw [skipWs_cons_of_not_ws _ _ (by decide)]
        simp [toVal, toVals]
      | cons v vs =>
        have hitems := pItems_pieces sp v vs rest f hok (by simp only [vsize] at hf; omega)
        obtain ⟨c, r, he, hne, hws⟩ := piecesList_head sp v vs rest hok
        rw [he, skipWs_cons_of_not_ws _ _ hws]
        split
        · rename_i heq; injection heq with h1 _; exact absurd h1 hne
        · rw [← he, hitems]; simp [toVal]
theorem pItems_pieces : (sp : Bool) → (v : Value) → (vs : List Value) → (rest : List Char) → (fuel : Nat) →
    ValuesOK (v :: vs) → vsizes (v :: vs) ≤ fuel →
    pItems fuel (flatten (Value.piecesList sp (v :: vs)) ++ ']' :: rest) = some (toVals (v :: vs), rest)
  | sp, v, [], rest, fuel, hok, hf => by
    cases fuel with
    | zero => simp [vsizes] at hf
    | succ f =>
      have hv := pValue_pieces v (']' :: rest) f hok.1 ⟨']', rest, rfl, Or.inr (Or.inr (Or.inl rfl))⟩
        (by simp only [vsizes] at hf; omega)
      simp only [Value.piecesList, pItems, hv]
      rw [skipWs_cons_of_not_ws _ _ (by decide)]
      simp [toVals]
  | sp, v, w :: ws, rest, fuel, hok, hf => by
    cases fuel with
    | zero => simp [vsizes] at hf
    | succ f =>
      have hrec := pItems_pieces sp w ws rest f hok.2 (by simp only [vsizes] at hf ⊢; omega)
      cases sp
      · have hv := pValue_pieces v (',' :: (flatten (Value.piecesList false (w :: ws)) ++ ']' :: rest)) f hok.1
          ⟨',', _, rfl, Or.inl rfl⟩ (by simp only [vsizes] at hf; omega)
        simp only [Value.piecesList, flatten_append, flatten_cons, Piece.chars, Tok.chars, Bool.false_eq_true,
          if_false, List.nil_append, List.append_assoc, List.cons_append, pItems, hv]
        rw [skipWs_cons_of_not_ws _ _ (by decide)]
        simp only []
        rw [hrec]; simp [toVals]
      · have hv := pValue_pieces v (',' :: ' ' :: (flatten (Value.piecesList true (w :: ws)) ++ ']' :: rest)) f hok.1
          ⟨',', _, rfl, Or.inl rfl⟩ (by simp only [vsizes] at hf; omega)
        have hsp : pItems f (' ' :: (flatten (Value.piecesList true (w :: ws)) ++ ']' :: rest)) =
            pItems f (flatten (Value.piecesList true (w :: ws)) ++ ']' :: rest) := pItems_skip_space _ _
        simp only [Value.piecesList, flatten_append, flatten_cons, Piece.chars, Tok.chars, if_true,
          List.nil_append, List.append_assoc, List.cons_append, pItems, hv]
        rw [skipWs_cons_of_not_ws _ _ (by decide)]
        simp only []
        rw [hsp, hrec]; simp [toVals]
end

/-! ### skipping white space in front of every syntactic class -/
theorem skipWs_idem (cs : List Char) : skipWs (skipWs cs) = skipWs cs := by
  induction cs with
  | nil => rfl
  | cons c t ih =>
    cases h : isWs c with
    | true => simpa [skipWs, List.dropWhile, h] using ih
    | false => simp [skipWs, List.dropWhile, h]
theorem skipWs_of_ws (c : Char) (cs : List Char) (h : isWs c = true) : skipWs (c :: cs) = skipWs cs := by
  simp [skipWs, List.dropWhile, h]
theorem pIdent_skipWs (cs : List Char) : pIdent (skipWs cs) = pIdent cs := by
  simp only [pIdent, skipWs_idem]
theorem pValue_skipWs (fuel : Nat) (cs : List Char) : pValue fuel (skipWs cs) = pValue fuel cs := by
  cases fuel with
  | zero => simp [pValue]
  | succ f => simp only [pValue, skipWs_idem]
theorem pArg_skipWs (fuel : Nat) (cs : List Char) : pArg fuel (skipWs cs) = pArg fuel cs := by
  simp only [pArg, pIdent_skipWs, pValue_skipWs]
theorem pArgs_skipWs (n fuel : Nat) (cs : List Char) : pArgs n fuel (skipWs cs) = pArgs n fuel cs := by
  cases n with
  | zero => simp [pArgs]
  | succ k => simp only [pArgs, skipWs_idem, pArg_skipWs]
theorem pStmt_skipWs (fuel : Nat) (cs : List Char) : pStmt fuel (skipWs cs) = pStmt fuel cs := by
  cases fuel with
  | zero => simp [pStmt]
  | succ f => simp only [pStmt, pIdent_skipWs]
theorem pBlock_skipWs (fuel : Nat) (cs : List Char) : pBlock fuel (skipWs cs) = pBlock fuel cs := by
  cases fuel with
  | zero => simp [pBlock]
  | succ f => simp only [pBlock, skipWs_idem, pStmt_skipWs]

/-! ### arguments -/
def toPArg : Arg → PArg
  | .named n v => ⟨some n, toVal v⟩
  | .pos v => ⟨none, toVal v⟩
def ArgOK : Arg → Prop
  | .named n v => IsIdent n = true ∧ ValueOK v
  | .pos v => ValueOK v
def asize : Arg → Nat
  | .named _ v => vsize v
  | .pos v => vsize v

theorem isDigit_not_letter (c : Char) (h : isDigit c = true) : isLetter c = false := by
  cases hl : isLetter c with
  | false => rfl
  | true =>
    simp only [isLetter, Bool.or_eq_true, Bool.and_eq_true, decide_eq_true_eq] at hl
    simp only [isDigit, Bool.and_eq_true, decide_eq_true_eq] at h
    rcases hl with ⟨h1, _⟩ | ⟨h1, _⟩
    · exact absurd (Char.le_trans h1 h.2) (by decide)
    · exact absurd (Char.le_trans h1 h.2) (by decide)
theorem isDigit_not_idStart (c : Char) (h : isDigit c = true) : isIdStart c = false := by
  have hl := isDigit_not_letter c h
  have h1 : c ≠ '_' := by intro he; subst he; revert h; decide
  have h2 : c ≠ '$' := by intro he; subst he; revert h; decide
  simp [isIdStart, hl, h1, h2]

theorem pIdent_none (c : Char) (cs : List Char) (hws : isWs c = false) (hid : isIdStart c = false) :
    pIdent (c :: cs) = none := by
  simp [pIdent, skipWs_cons_of_not_ws _ _ hws, hid]

theorem pArg_of_pIdent_none (fuel : Nat) (cs : List Char) (h : pIdent cs = none) :
    pArg fuel cs = (pValue fuel cs).map fun (v, r) => (⟨none, v⟩, r) := by
  simp only [pArg, h]
theorem pArg_of_pIdent_delim (fuel : Nat) (cs w : List Char) (d : Char) (r : List Char)
    (h : pIdent cs = some (w, d :: r)) (hws : isWs d = false) (hd : d ≠ '=') :
    pArg fuel cs = (pValue fuel cs).map fun (v, r) => (⟨none, v⟩, r) := by
  simp only [pArg, h, skipWs_cons_of_not_ws _ _ hws]
  split
  · rename_i heq; injection heq with h1 _; exact absurd h1 hd
  · rfl

theorem pArg_pos (v : Value) (rest : List Char) (fuel : Nat) (hok : ValueOK v) (hr : Delim rest)
    (hf : vsize v ≤ fuel) : pArg fuel (flatten v.pieces ++ rest) = some (⟨none, toVal v⟩, rest) := by
  have hv := pValue_pieces v rest fuel hok hr hf
  obtain ⟨d, r, rfl, _, _, hid, hws⟩ := hr.not_digit
  have hde : d ≠ '=' := by
    obtain ⟨c', r', he, hc'⟩ := hr
    injection he with h1 _
    subst h1
    rcases hc' with rfl | rfl | rfl | rfl <;> decide
  have key : pArg fuel (flatten v.pieces ++ d :: r) =
      (pValue fuel (flatten v.pieces ++ d :: r)).map fun (v, r) => (⟨none, v⟩, r) := by
    cases v with
    | num t =>
      obtain ⟨c, t', rfl, hc⟩ := numeral_head t hok
      apply pArg_of_pIdent_none
      simp only [Value.pieces, flatten_cons, flatten_nil, Piece.chars, Tok.chars, List.append_nil, List.cons_append]
      rcases hc with hdg | rfl
      · exact pIdent_none c _ (not_ws_of_digit c hdg) (isDigit_not_idStart c hdg)
      · exact pIdent_none '-' _ (by decide) (by decide)
    | str s =>
      apply pArg_of_pIdent_none
      simp only [Value.pieces, flatten_cons, flatten_nil, Piece.chars, Tok.chars, List.append_nil, List.cons_append]
      exact pIdent_none '"' _ (by decide) (by decide)
    | vec sp items =>
      apply pArg_of_pIdent_none
      simp only [Value.pieces, flatten_cons, flatten_nil, Piece.chars, Tok.chars, List.append_nil, List.cons_append]
      exact pIdent_none '[' _ (by decide) (by decide)
    | bool b =>
      cases b
      · apply pArg_of_pIdent_delim fuel _ c!"false" d r _ hws hde
        simpa [Value.pieces, flatten, Piece.chars, Tok.chars] using pIdent_ident c!"false" d r false_ident hid
      · apply pArg_of_pIdent_delim fuel _ c!"true" d r _ hws hde
        simpa [Value.pieces, flatten, Piece.chars, Tok.chars] using pIdent_ident c!"true" d r true_ident hid
    | undef =>
      apply pArg_of_pIdent_delim fuel _ c!"undef" d r _ hws hde
      simpa [Value.pieces, flatten, Piece.chars, Tok.chars] using pIdent_ident c!"undef" d r undef_ident hid
  rw [key, hv]; rfl

theorem pArg_named (n : List Char) (v : Value) (rest : List Char) (fuel : Nat) (hn : IsIdent n = true)
    (hok : ValueOK v) (hr : Delim rest) (hf : vsize v ≤ fuel) :
    pArg fuel (n ++ '=' :: (flatten v.pieces ++ rest)) = some (⟨some n, toVal v⟩, rest) := by
  have hv := pValue_pieces v rest fuel hok hr hf
  have hid := pIdent_ident n '=' (flatten v.pieces ++ rest) hn (by decide)
  simp only [pArg, hid, skipWs_cons_of_not_ws '=' _ (by decide), hv]; rfl

theorem pArg_pieces (a : Arg) (rest : List Char) (fuel : Nat) (hok : ArgOK a) (hr : Delim rest)
    (hf : asize a ≤ fuel) : pArg fuel (flatten a.pieces ++ rest) = some (toPArg a, rest) := by
  cases a with
  | named n v =>
    simpa [Arg.pieces, flatten_cons, Piece.chars, Tok.chars, toPArg] using
      pArg_named n v rest fuel hok.1 hok.2 hr hf
  | pos v => simpa [Arg.pieces, toPArg] using pArg_pos v rest fuel hok hr hf

/-- the printed form of a value does not start with white space or `)` -/
theorem value_head_paren (v : Value) (hok : ValueOK v) :
    ∃ c r, flatten v.pieces = c :: r ∧ c ≠ ')' ∧ isWs c = false := by
  cases v with
  | num t =>
    obtain ⟨c, r, rfl, hc⟩ := numeral_head t hok
    refine ⟨c, r, by simp [Value.pieces, flatten, Piece.chars, Tok.chars], ?_, ?_⟩
    · rcases hc with hd | rfl
      · intro he; subst he; revert hd; decide
      · decide
    · rcases hc with hd | rfl
      · exact not_ws_of_digit c hd
      · decide
  | bool b =>
    cases b
    · exact ⟨'f', c!"alse", by simp [Value.pieces, flatten, Piece.chars, Tok.chars], by decide, by decide⟩
    · exact ⟨'t', c!"rue", by simp [Value.pieces, flatten, Piece.chars, Tok.chars], by decide, by decide⟩
  | str s => exact ⟨'"', escape s ++ ['"'], by simp [Value.pieces, flatten, Piece.chars, Tok.chars], by decide, by decide⟩
  | undef => exact ⟨'u', c!"ndef", by simp [Value.pieces, flatten, Piece.chars, Tok.chars], by decide, by decide⟩
  | vec sp items =>
    exact ⟨'[', flatten (Value.piecesList sp items ++ [Piece.tok Tok.rbrack]),
      by simp [Value.pieces, flatten, Piece.chars, Tok.chars], by decide, by decide⟩

theorem ident_head (n : List Char) (h : IsIdent n = true) :
    ∃ c r, n = c :: r ∧ isIdStart c = true := by
  cases n with
  | nil => simp [IsIdent] at h
  | cons c r =>
    simp only [IsIdent, Bool.and_eq_true] at h
    exact ⟨c, r, rfl, h.1⟩

theorem idStart_ne (c : Char) (h : isIdStart c = true) : c ≠ ')' ∧ c ≠ '}' := by
  constructor <;> (intro he; subst he; revert h; decide)

theorem arg_head (a : Arg) (hok : ArgOK a) : ∃ c r, flatten a.pieces = c :: r ∧ c ≠ ')' ∧ isWs c = false := by
  cases a with
  | named n v =>
    obtain ⟨c, r, rfl, hc⟩ := ident_head n hok.1
    exact ⟨c, r ++ '=' :: flatten v.pieces, by simp [Arg.pieces, flatten_cons, Piece.chars, Tok.chars],
      (idStart_ne c hc).1, not_ws_of_idStart c hc⟩
  | pos v => simpa [Arg.pieces] using value_head_paren v hok

theorem pArgs_pieces : (as : List Arg) → (rest : List Char) → (n fuel : Nat) → (∀ a ∈ as, ArgOK a) →
    (∀ a ∈ as, asize a ≤ fuel) → as.length < n →
    pArgs n fuel (flatten (argsPieces as) ++ ')' :: rest) = some (as.map toPArg, rest)
  | [], rest, n, fuel, _, _, hn => by
    cases n with
    | zero => omega
    | succ k => simp [argsPieces, flatten_nil, pArgs, skipWs_cons_of_not_ws ')' rest (by decide)]
  | [a], rest, n, fuel, hok, hf, hn => by
    cases n with
    | zero => omega
    | succ k =>
      have ha := pArg_pieces a (')' :: rest) fuel (hok a (by simp)) ⟨')', rest, rfl, Or.inr (Or.inl rfl)⟩
        (hf a (by simp))
      obtain ⟨c, r, he, hne, hws⟩ := arg_head a (hok a (by simp))
      simp only [argsPieces, pArgs]
      rw [he, List.cons_append, skipWs_cons_of_not_ws _ _ hws]
      split
      · rename_i heq; injection heq with h1 _; exact absurd h1 hne
      · rw [← List.cons_append, ← he, ha]
        simp [skipWs_cons_of_not_ws ')' rest (by decide)]
  | a :: b :: tl, rest, n, fuel, hok, hf, hn => by
    cases n with
    | zero => omega
    | succ k =>
      have hrec := pArgs_pieces (b :: tl) rest k fuel (fun x hx => hok x (by simp [hx]))
        (fun x hx => hf x (by simp [hx])) (by simp at hn ⊢; omega)
      have ha := pArg_pieces a (',' :: ' ' :: (flatten (argsPieces (b :: tl)) ++ ')' :: rest)) fuel
        (hok a (by simp)) ⟨',', _, rfl, Or.inl rfl⟩ (hf a (by simp))
      obtain ⟨c, r, he, hne, hws⟩ := arg_head a (hok a (by simp))
      have hb : ∃ c' r', flatten (argsPieces (b :: tl)) ++ ')' :: rest = c' :: r' ∧ c' ≠ ')' ∧ isWs c' = false := by
        obtain ⟨c', r', he', hne', hws'⟩ := arg_head b (hok b (by simp))
        cases tl with
        | nil => exact ⟨c', r' ++ ')' :: rest, by simp [argsPieces, he'], hne', hws'⟩
        | cons t ts =>
          exact ⟨c', r' ++ (flatten (Piece.tok Tok.comma :: Piece.ws [' '] :: argsPieces (t :: ts)) ++ ')' :: rest),
            by simp [argsPieces, flatten_append, he'], hne', hws'⟩
      obtain ⟨c', r', he', hne', hws'⟩ := hb
      have hsp : pArgs k fuel (' ' :: (flatten (argsPieces (b :: tl)) ++ ')' :: rest)) =
          pArgs k fuel (flatten (argsPieces (b :: tl)) ++ ')' :: rest) := by
        rw [← pArgs_skipWs, skipWs_space, pArgs_skipWs]
      simp only [argsPieces, flatten_append, flatten_cons, Piece.chars, Tok.chars, List.append_assoc,
        List.cons_append, List.nil_append, pArgs]
      rw [he, List.cons_append, skipWs_cons_of_not_ws _ _ hws]
      split
      · rename_i heq; injection heq with h1 _; exact absurd h1 hne
      · rw [← List.cons_append, ← he, ha]
        simp only [skipWs_cons_of_not_ws ',' _ (by decide), skipWs_space]
        rw [he', skipWs_cons_of_not_ws _ _ hws']
        split
        · rename_i heq; injection heq with h1 _; exact absurd h1 hne'
        · rw [← he', hsp, hrec]; simp

/-! ### size bounds: fuel derived from the text length suffices -/
mutual
theorem vsize_le : (v : Value) → ValueOK v → vsize v ≤ (flatten v.pieces).length
  | .num t, hok => by
    obtain ⟨c, r, rfl, _⟩ := numeral_head t hok
    simp [vsize, Value.pieces, flatten, Piece.chars, Tok.chars]
  | .bool b, _ => by cases b <;> simp [vsize, Value.pieces, flatten, Piece.chars, Tok.chars]
  | .str s, _ => by simp [vsize, Value.pieces, flatten, Piece.chars, Tok.chars]
  | .undef, _ => by simp [vsize, Value.pieces, flatten, Piece.chars, Tok.chars]
  | .vec sp items, hok => by
    have := vsizes_le sp items hok
    simp only [vsize, Value.pieces, flatten_cons, flatten_append, flatten_nil, Piece.chars, Tok.chars,
      List.length_cons, List.length_append, List.length_nil]
    omega
theorem vsizes_le : (sp : Bool) → (vs : List Value) → ValuesOK vs →
    vsizes vs ≤ (flatten (Value.piecesList sp vs)).length + 1
  | _, [], _ => by simp [vsizes]
  | sp, [v], hok => by
    have := vsize_le v hok.1
    simp only [vsizes, Value.piecesList, Nat.add_zero]; omega
  | sp, v :: w :: rest, hok => by
    have h1 := vsize_le v hok.1
    have h2 := vsizes_le sp (w :: rest) hok.2
    simp only [vsizes] at h2 ⊢
    simp only [Value.piecesList, flatten_append, flatten_cons, Piece.chars, Tok.chars, List.length_append,
      List.length_cons, List.length_nil]
    omega
end

theorem asize_le (a : Arg) (hok : ArgOK a) : asize a ≤ (flatten a.pieces).length := by
  cases a with
  | named n v =>
    have := vsize_le v hok.2
    simp only [asize, Arg.pieces, flatten_cons, Piece.chars, Tok.chars, List.length_append, List.length_cons]
    omega
  | pos v => simpa [asize, Arg.pieces] using vsize_le v hok
theorem arg_length_pos (a : Arg) (hok : ArgOK a) : 1 ≤ (flatten a.pieces).length := by
  obtain ⟨c, r, he, _⟩ := arg_head a hok
  simp [he]

theorem args_bounds : (as : List Arg) → (∀ a ∈ as, ArgOK a) →
    as.length ≤ (flatten (argsPieces as)).length ∧ ∀ a ∈ as, asize a ≤ (flatten (argsPieces as)).length
  | [], _ => by simp
  | [a], hok => by
    have h1 := arg_length_pos a (hok a (by simp))
    have h2 := asize_le a (hok a (by simp))
    refine ⟨by simpa [argsPieces] using h1, ?_⟩
    intro x hx
    simp only [List.mem_singleton] at hx
    subst hx
    simpa [argsPieces] using h2
  | a :: b :: tl, hok => by
    have h1 := arg_length_pos a (hok a (by simp))
    have h2 := asize_le a (hok a (by simp))
    have ⟨r1, r2⟩ := args_bounds (b :: tl) (fun x hx => hok x (by simp [hx]))
    simp only [argsPieces, flatten_append, flatten_cons, Piece.chars, Tok.chars, List.length_append,
      List.length_cons, List.length_nil]
    refine ⟨by simp only [List.length_cons] at r1 ⊢; omega, ?_⟩
    intro x hx
    rcases List.mem_cons.mp hx with rfl | hx
    · omega
    · have := r2 x hx; omega

/-! ### statements and blocks -/
section Stmts
variable {ν : Type} (showNum : ν → List Char)

mutual
def toStmt : Scad ν → Stmt
  | .mk op cs =>
    match op.header showNum with
    | some h => .mk h.name (h.args.map toPArg) (if op.isPrimitive then none else some (toStmts cs))
    | none => .mk [] [] none
def toStmts : ScadList ν → StmtList
  | .nil => .nil
  | .cons h t => .cons (toStmt h) (toStmts t)
end

def HeaderOK (h : Header) : Prop := IsIdent h.name = true ∧ ∀ a ∈ h.args, ArgOK a

/- a tree whose every node prints a call, whose names are identifiers, whose values are printable,
and whose primitives have no children -/
mutual
def TreeOK : Scad ν → Prop
  | .mk op cs =>
    (∃ h, op.header showNum = some h ∧ HeaderOK h) ∧ (op.isPrimitive = true → cs = .nil) ∧ TreesOK cs
def TreesOK : ScadList ν → Prop
  | .nil => True
  | .cons h t => TreeOK h ∧ TreesOK t
end

mutual
def tsize : Scad ν → Nat
  | .mk _ cs => 2 + tsizes cs
def tsizes : ScadList ν → Nat
  | .nil => 0
  | .cons h t => tsize h + tsizes t
end

theorem prim_text (op : ScadOp ν) (h : Header) (hh : op.header showNum = some h)
    (hp : op.isPrimitive = true) (rest : List Char) :
    flatten (Scad.pieces showNum (.mk op .nil)) ++ rest =
      h.name ++ '(' :: (flatten (argsPieces h.args) ++ ')' :: ';' :: '\n' :: rest) := by
  simp [Scad.pieces, ScadList.pieces, hh, hp, Header.pieces, flatten_append, flatten_cons, Piece.chars,
    Tok.chars, flatten_nil]

theorem block_text (op : ScadOp ν) (cs : ScadList ν) (h : Header) (hh : op.header showNum = some h)
    (hp : op.isPrimitive = false) (rest : List Char) :
    flatten (Scad.pieces showNum (.mk op cs)) ++ rest =
      h.name ++ '(' :: (flatten (argsPieces h.args) ++ ')' :: ' ' :: '{' :: '\n' ::
        (flatten (ScadList.pieces showNum cs) ++ '}' :: '\n' :: rest)) := by
  simp [Scad.pieces, hh, hp, Header.pieces, flatten_append, flatten_cons, Piece.chars,
    Tok.chars, flatten_nil]

theorem tree_head (t : Scad ν) (hok : TreeOK showNum t) :
    ∃ c r, flatten (t.pieces showNum) = c :: r ∧ isIdStart c = true := by
  cases t with
  | mk op cs =>
    obtain ⟨⟨h, hh, hname, _⟩, hprim, _⟩ := hok
    obtain ⟨c, r, hn, hc⟩ := ident_head h.name hname
    cases hp : op.isPrimitive with
    | true =>
      have := hprim hp; subst this
      have := prim_text showNum op h hh hp []
      rw [List.append_nil, hn] at this
      exact ⟨c, _, this, hc⟩
    | false =>
      have := block_text showNum op cs h hh hp []
      rw [List.append_nil, hn] at this
      exact ⟨c, _, this, hc⟩

theorem args_fuel (as : List Arg) (hok : ∀ a ∈ as, ArgOK a) (L : List Char) :
    (∀ a ∈ as, asize a ≤ (flatten (argsPieces as) ++ L).length + 1) ∧
      as.length < (flatten (argsPieces as) ++ L).length + 1 := by
  have ⟨h1, h2⟩ := args_bounds as hok
  refine ⟨fun a ha => ?_, ?_⟩
  · have := h2 a ha; simp only [List.length_append]; omega
  · simp only [List.length_append]; omega

mutual
theorem pStmt_pieces : (t : Scad ν) → (rest : List Char) → (fuel : Nat) → TreeOK showNum t → tsize t ≤ fuel →
    pStmt fuel (flatten (t.pieces showNum) ++ rest) = some (toStmt showNum t, '\n' :: rest)
  | .mk op cs, rest, fuel, hok, hf => by
    obtain ⟨⟨h, hh, hname, hargs⟩, hprim, hcs⟩ := hok
    cases fuel with
    | zero => simp [tsize] at hf
    | succ f =>
      cases hp : op.isPrimitive with
      | true =>
        have := hprim hp; subst this
        rw [prim_text showNum op h hh hp rest]
        have hid := pIdent_ident h.name '(' (flatten (argsPieces h.args) ++ ')' :: ';' :: '\n' :: rest) hname
          (by decide)
        have ⟨b1, b2⟩ := args_fuel h.args hargs (')' :: ';' :: '\n' :: rest)
        have hargs' := pArgs_pieces h.args (';' :: '\n' :: rest) _ _ hargs b1 b2
        simp only [pStmt, hid, skipWs_cons_of_not_ws '(' _ (by decide), hargs',
          skipWs_cons_of_not_ws ';' _ (by decide)]
        simp [toStmt, hh, hp]
      | false =>
        rw [block_text showNum op cs h hh hp rest]
        have hid := pIdent_ident h.name '(' (flatten (argsPieces h.args) ++ ')' :: ' ' :: '{' :: '\n' ::
          (flatten (ScadList.pieces showNum cs) ++ '}' :: '\n' :: rest)) hname (by decide)
        have ⟨b1, b2⟩ := args_fuel h.args hargs (')' :: ' ' :: '{' :: '\n' ::
          (flatten (ScadList.pieces showNum cs) ++ '}' :: '\n' :: rest))
        have hargs' := pArgs_pieces h.args (' ' :: '{' :: '\n' ::
          (flatten (ScadList.pieces showNum cs) ++ '}' :: '\n' :: rest)) _ _ hargs b1 b2
        have hblock := pBlock_pieces cs ('\n' :: rest) f hcs (by simp only [tsize] at hf; omega)
        have hnl : pBlock f ('\n' :: (flatten (ScadList.pieces showNum cs) ++ '}' :: '\n' :: rest)) =
            pBlock f (flatten (ScadList.pieces showNum cs) ++ '}' :: '\n' :: rest) := by
          rw [← pBlock_skipWs, skipWs_newline, pBlock_skipWs]
        simp only [pStmt, hid, skipWs_cons_of_not_ws '(' _ (by decide), hargs', skipWs_space,
          skipWs_cons_of_not_ws '{' _ (by decide), hnl, hblock]
        simp [toStmt, hh, hp]
theorem pBlock_pieces : (cs : ScadList ν) → (rest : List Char) → (fuel : Nat) → TreesOK showNum cs →
    tsizes cs < fuel →
    pBlock fuel (flatten (ScadList.pieces showNum cs) ++ '}' :: rest) = some (toStmts showNum cs, rest)
  | .nil, rest, fuel, _, hf => by
    cases fuel with
    | zero => omega
    | succ f => simp [ScadList.pieces, flatten_nil, pBlock, skipWs_cons_of_not_ws '}' rest (by decide), toStmts]
  | .cons t ts, rest, fuel, hok, hf => by
    cases fuel with
    | zero => omega
    | succ f =>
      have ht2 : 2 ≤ tsize t := by cases t; simp [tsize]
      have hstmt := pStmt_pieces t (flatten (ScadList.pieces showNum ts) ++ '}' :: rest) f hok.1
        (by simp only [tsizes] at hf; omega)
      have hrec := pBlock_pieces ts rest f hok.2 (by simp only [tsizes] at hf; omega)
      obtain ⟨c, r, he, hc⟩ := tree_head showNum t hok.1
      have hnl : pBlock f ('\n' :: (flatten (ScadList.pieces showNum ts) ++ '}' :: rest)) =
          pBlock f (flatten (ScadList.pieces showNum ts) ++ '}' :: rest) := by
        rw [← pBlock_skipWs, skipWs_newline, pBlock_skipWs]
      simp only [ScadList.pieces, flatten_append, List.append_assoc, pBlock]
      rw [he, List.cons_append, skipWs_cons_of_not_ws _ _ (not_ws_of_idStart c hc)]
      split
      · rename_i heq; injection heq with h1 _; exact absurd h1 (idStart_ne c hc).2
      · rw [← List.cons_append, ← he, hstmt]
        simp only [hnl, hrec]
        simp [toStmts]
end

/-! ### whole programs -/
mutual
theorem tsize_le : (t : Scad ν) → TreeOK showNum t → tsize t ≤ (flatten (t.pieces showNum)).length
  | .mk op cs, hok => by
    obtain ⟨⟨h, hh, _, _⟩, hprim, hcs⟩ := hok
    cases hp : op.isPrimitive with
    | true =>
      have := hprim hp; subst this
      have := congrArg List.length (prim_text showNum op h hh hp [])
      simp only [List.append_nil, List.length_append, List.length_cons] at this
      simp only [tsize, tsizes]; omega
    | false =>
      have h1 := tsizes_le cs hcs
      have := congrArg List.length (block_text showNum op cs h hh hp [])
      simp only [List.append_nil, List.length_append, List.length_cons] at this
      simp only [tsize]; omega
theorem tsizes_le : (cs : ScadList ν) → TreesOK showNum cs →
    tsizes cs ≤ (flatten (ScadList.pieces showNum cs)).length
  | .nil, _ => by simp [tsizes]
  | .cons t ts, hok => by
    have h1 := tsize_le t hok.1
    have h2 := tsizes_le ts hok.2
    simp only [tsizes, ScadList.pieces, flatten_append, List.length_append]; omega
end

theorem skipWs_all_ws (w : List Char) (h : w.all isWs = true) (cs : List Char) :
    skipWs (w ++ cs) = skipWs cs := by
  induction w with
  | nil => rfl
  | cons a t ih =>
    simp only [List.all_cons, Bool.and_eq_true] at h
    rw [List.cons_append, skipWs_of_ws _ _ h.1, ih h.2]

theorem emitAll_cons (t : Scad ν) (ts : List (Scad ν)) :
    emitAll showNum (t :: ts) = flatten (t.pieces showNum) ++ emitAll showNum ts := by
  simp [emitAll, Scad.emit]

theorem pProgramAux_emitAll : (ts : List (Scad ν)) → (k : Nat) → (∀ t ∈ ts, TreeOK showNum t) → ts.length < k →
    (w : List Char) → w.all isWs = true →
    pProgramAux k (w ++ emitAll showNum ts) = some (ts.map (toStmt showNum))
  | [], k, _, hk, w, hw => by
    cases k with
    | zero => omega
    | succ k' =>
      have : skipWs (w ++ emitAll showNum ([] : List (Scad ν))) = [] := by
        rw [skipWs_all_ws w hw]; rfl
      simp [pProgramAux, this]
  | t :: ts, k, hok, hk, w, hw => by
    cases k with
    | zero => omega
    | succ k' =>
      obtain ⟨c, r, he, hc⟩ := tree_head showNum t (hok t (by simp))
      have hsk : skipWs (w ++ emitAll showNum (t :: ts)) = emitAll showNum (t :: ts) := by
        rw [skipWs_all_ws w hw, emitAll_cons, he, List.cons_append,
          skipWs_cons_of_not_ws _ _ (not_ws_of_idStart c hc)]
      have hne : ∃ c' r', skipWs (w ++ emitAll showNum (t :: ts)) = c' :: r' := by
        rw [hsk, emitAll_cons, he]; exact ⟨c, _, rfl⟩
      obtain ⟨c', r', hcr⟩ := hne
      have hsz := tsize_le showNum t (hok t (by simp))
      have hstmt : pStmt ((w ++ emitAll showNum (t :: ts)).length + 1) (w ++ emitAll showNum (t :: ts)) =
          some (toStmt showNum t, '\n' :: emitAll showNum ts) := by
        rw [← pStmt_skipWs, hsk, emitAll_cons]
        apply pStmt_pieces showNum t _ _ (hok t (by simp))
        simp only [List.length_append]; omega
      have hrec := pProgramAux_emitAll ts k' (fun x hx => hok x (by simp [hx]))
        (by simp only [List.length_cons] at hk; omega) ['\n'] (by decide)
      simp only [pProgramAux, hcr, hstmt]
      simp only [List.singleton_append] at hrec
      rw [hrec]; simp

/-- **the emitter's output parses to the statement form of the trees** -/
theorem parseProgram_emitAll (ts : List (Scad ν)) (hok : ∀ t ∈ ts, TreeOK showNum t) :
    parseProgram (emitAll showNum ts) = some (ts.map (toStmt showNum)) := by
  have hlen : ts.length ≤ (emitAll showNum ts).length := by
    induction ts with
    | nil => simp
    | cons t ts ih =>
      have h1 := tsize_le showNum t (hok t (by simp))
      have h2 : 2 ≤ tsize t := by cases t; simp [tsize]
      have := ih (fun x hx => hok x (by simp [hx]))
      rw [emitAll_cons, List.length_append, List.length_cons]; omega
  have := pProgramAux_emitAll showNum ts ((emitAll showNum ts).length + 1) hok (by omega) [] (by decide)
  simpa [parseProgram] using this

/-! ### every operation's header is printable -/
def _root_.ScadVerif.ScadOp.strings : ScadOp ν → List (List Char)
  | .text t _ f h v _ d l s _ => [t, f, h, v, d, l, s]
  | .import_ f _ => [f]
  | .surface f _ _ _ => [f]
  | .color _ c h _ => c.toList ++ h.toList
  | _ => []

theorem isDigit_of_charIsDigit (c : Char) (h : c.isDigit = true) : isDigit c = true := by
  simp only [Char.isDigit, Bool.and_eq_true, decide_eq_true_eq] at h
  simp only [isDigit, Bool.and_eq_true, decide_eq_true_eq]
  exact ⟨by simpa [Char.le_def] using h.1, by simpa [Char.le_def] using h.2⟩

theorem dropWhile_all (p : Char → Bool) (l : List Char) (h : l.all p = true) : l.dropWhile p = [] := by
  induction l with
  | nil => rfl
  | cons a t ih =>
    simp only [List.all_cons, Bool.and_eq_true] at h
    simp [List.dropWhile, h.1, ih h.2]
theorem takeWhile_all_eq (p : Char → Bool) (l : List Char) (h : l.all p = true) : l.takeWhile p = l := by
  induction l with
  | nil => rfl
  | cons a t ih =>
    simp only [List.all_cons, Bool.and_eq_true] at h
    simp [List.takeWhile, h.1, ih h.2]

theorem isNumeral_of_digits (ds : List Char) (hne : ds ≠ []) (h : ds.all isDigit = true) :
    IsNumeral ds = true := by
  cases ds with
  | nil => exact absurd rfl hne
  | cons c r =>
    have hc : c ≠ '-' := by
      simp only [List.all_cons, Bool.and_eq_true] at h
      intro he; subst he; exact absurd h.1 (by decide)
    simp only [IsNumeral, numBody_of_ne c r hc, takeWhile_all_eq _ _ h, dropWhile_all _ _ h]
    simp

theorem natDigits_numeral (n : Nat) : IsNumeral (natDigits n) = true := by
  apply isNumeral_of_digits _ Nat.toDigits_ne_nil
  rw [List.all_eq_true]
  intro c hc
  exact isDigit_of_charIsDigit c (Nat.isDigit_of_mem_toDigits (by decide) (by decide) hc)

theorem valuesOK_iff (l : List Value) : ValuesOK l ↔ ∀ v ∈ l, ValueOK v := by
  induction l with
  | nil => simp [ValuesOK]
  | cons a t ih => simp [ValuesOK, ih]

section HeaderOK
variable (hnum : ∀ x, IsNumeral (showNum x) = true)
include hnum

theorem vNum_ok (x : ν) : ValueOK (vNum showNum x) := by simp [vNum, ValueOK, hnum]
omit hnum in
theorem vNat_ok (n : Nat) : ValueOK (vNat n) := by simp [vNat, ValueOK, natDigits_numeral]
theorem vPt2_ok (p : Pt2 ν) : ValueOK (vPt2 showNum p) := by simp [vPt2, ValueOK, ValuesOK, vNum, hnum]
theorem vPt3_ok (p : Pt3 ν) : ValueOK (vPt3 showNum p) := by simp [vPt3, ValueOK, ValuesOK, vNum, hnum]
theorem vPt4_ok (p : Pt4 ν) : ValueOK (vPt4 showNum p) := by simp [vPt4, ValueOK, ValuesOK, vNum, hnum]
theorem vPt2s_ok (ps : List (Pt2 ν)) : ValueOK (vPt2s showNum ps) := by
  simp only [vPt2s, ValueOK, valuesOK_iff, List.mem_map]
  rintro v ⟨p, _, rfl⟩; exact vPt2_ok showNum hnum p
theorem vPt3s_ok (ps : List (Pt3 ν)) : ValueOK (vPt3s showNum ps) := by
  simp only [vPt3s, ValueOK, valuesOK_iff, List.mem_map]
  rintro v ⟨p, _, rfl⟩; exact vPt3_ok showNum hnum p
omit hnum in
theorem vIndices_ok (is : List Nat) : ValueOK (vIndices is) := by
  simp only [vIndices, ValueOK, valuesOK_iff, List.mem_map]
  rintro v ⟨p, _, rfl⟩; exact vNat_ok p
omit hnum in
theorem vPaths_ok (ps : List (List Nat)) : ValueOK (vPaths ps) := by
  simp only [vPaths, ValueOK, valuesOK_iff, List.mem_map]
  rintro v ⟨p, _, rfl⟩; exact vIndices_ok p

theorem faFsFn_ok (fa fs : Option ν) (fn : Option Nat) : ∀ a ∈ faFsFn showNum fa fs fn, ArgOK a := by
  have h1 : IsIdent c!"$fa" = true := by decide
  have h2 : IsIdent c!"$fs" = true := by decide
  have h3 : IsIdent c!"$fn" = true := by decide
  have := vNum_ok showNum hnum
  have := vNat_ok
  cases fa <;> cases fs <;> cases fn <;> simp_all [faFsFn, ArgOK]
omit hnum in
theorem optNat_ok (name : List Char) (hn : IsIdent name = true) (o : Option Nat) :
    ∀ a ∈ optNat name o, ArgOK a := by
  cases o <;> simp [optNat, ArgOK, hn, vNat_ok]

omit hnum in
theorem named_ok (n : List Char) (v : Value) (h1 : IsIdent n = true) (h2 : ValueOK v) : ArgOK (.named n v) :=
  ⟨h1, h2⟩

set_option hygiene false in
local macro "hdr_args" : tactic => `(tactic| (
  simp only [List.forall_mem_cons, List.forall_mem_append, List.cons_append, List.nil_append,
    List.not_mem_nil, false_imp_iff, implies_true, and_true]
  and_intros
  all_goals first
    | decide
    | exact f1 _ _ _
    | exact f2 _ (by decide) _
    | exact n1 _ | exact n2 _ | exact n3 _ | exact n4 _ | exact n5 _ | exact n6 _ | exact n7 _
    | exact n8 _ | exact True.intro
    | (apply hs; simp [ScadOp.strings])))

theorem header_ok (op : ScadOp ν) (hs : ∀ s ∈ op.strings, NoNul s) (h : Header)
    (hh : op.header showNum = some h) : HeaderOK h := by
  have n1 := vNum_ok showNum hnum
  have n2 := vNat_ok
  have n3 := vPt2_ok showNum hnum
  have n4 := vPt3_ok showNum hnum
  have n5 := vPt4_ok showNum hnum
  have n6 := vPt2s_ok showNum hnum
  have n7 := vPt3s_ok showNum hnum
  have n8 := vPaths_ok
  have f1 := faFsFn_ok showNum hnum
  have f2 := optNat_ok
  cases op <;> simp only [ScadOp.header] at hh
  case union | difference | intersection | hull =>
    injection hh with hh; subst hh; exact ⟨by decide, by simp⟩
  case polygon points paths convexity =>
    injection hh with hh; subst hh
    refine ⟨by dsimp only; decide, ?_⟩
    cases paths <;> (dsimp only; hdr_args)
  case rotate a sc v =>
    cases a with
    | none =>
      injection hh with hh; subst hh
      refine ⟨by dsimp only; decide, ?_⟩
      dsimp only; hdr_args
    | some a =>
      cases sc
      · simp only [if_false, Bool.false_eq_true] at hh
        injection hh with hh; subst hh
        refine ⟨by dsimp only; decide, ?_⟩
        dsimp only; hdr_args
      · simp only [if_true] at hh
        injection hh with hh; subst hh
        refine ⟨by dsimp only; decide, ?_⟩
        dsimp only; hdr_args
  case resize ns au isv av cv =>
    injection hh with hh; subst hh
    refine ⟨by dsimp only; decide, ?_⟩
    cases isv <;> (simp only [if_true, if_false, Bool.false_eq_true]; hdr_args)
  case color rgba col hex alpha =>
    cases rgba with
    | some c =>
      injection hh with hh; subst hh
      refine ⟨by dsimp only; decide, ?_⟩
      dsimp only; hdr_args
    | none =>
      cases col with
      | some c =>
        injection hh with hh; subst hh
        refine ⟨by dsimp only; decide, ?_⟩
        cases alpha <;> (dsimp only; hdr_args)
      | none =>
        cases hex with
        | some x =>
          injection hh with hh; subst hh
          refine ⟨by dsimp only; decide, ?_⟩
          dsimp only; hdr_args
        | none => simp at hh
  case offset r d ch =>
    cases r with
    | some r =>
      injection hh with hh; subst hh
      refine ⟨by dsimp only; decide, ?_⟩
      dsimp only; hdr_args
    | none =>
      cases d with
      | some d =>
        injection hh with hh; subst hh
        refine ⟨by dsimp only; decide, ?_⟩
        dsimp only; hdr_args
      | none => simp at hh
  all_goals
    injection hh with hh; subst hh
    refine ⟨by dsimp only; decide, ?_⟩
    dsimp only
    hdr_args

end HeaderOK
/-! ### files: global settings, then the trees -/
theorem pIdent_ws_prefix (w cs : List Char) (hw : w.all isWs = true) : pIdent (w ++ cs) = pIdent cs := by
  rw [← pIdent_skipWs, skipWs_all_ws w hw, pIdent_skipWs]

theorem pTop_assign (w name t rest : List Char) (hw : w.all isWs = true) (hn : IsIdent name = true)
    (ht : IsNumeral t = true) :
    pTop (w ++ (name ++ '=' :: (t ++ ';' :: rest))) = some (.assign name (.num t), rest) := by
  have hid := pIdent_ident name '=' (t ++ ';' :: rest) hn (by decide)
  have hv := pValue_pieces (.num t) (';' :: rest) ((t ++ ';' :: rest).length + 1) ht
    ⟨';', rest, rfl, Or.inr (Or.inr (Or.inr rfl))⟩ (by simp [vsize])
  simp only [Value.pieces, flatten_cons, flatten_nil, Piece.chars, Tok.chars, List.append_nil] at hv
  simp only [pTop, pIdent_ws_prefix w _ hw, hid, skipWs_cons_of_not_ws '=' _ (by decide), hv,
    skipWs_cons_of_not_ws ';' _ (by decide)]
  rfl

theorem pTop_stmt (w : List Char) (hw : w.all isWs = true) (t : Scad ν) (hok : TreeOK showNum t)
    (rest : List Char) :
    pTop (w ++ (flatten (t.pieces showNum) ++ rest)) = some (.stmt (toStmt showNum t), '\n' :: rest) := by
  cases t with
  | mk op cs =>
    obtain ⟨⟨h, hh, hname, hargs⟩, hprim, hcs⟩ := hok
    have hok' : TreeOK showNum (.mk op cs) := ⟨⟨h, hh, hname, hargs⟩, hprim, hcs⟩
    have hsz := tsize_le showNum _ hok'
    obtain ⟨c, r0, he, hc⟩ := tree_head showNum _ hok'
    have hsk : skipWs (w ++ (flatten (Scad.pieces showNum (.mk op cs)) ++ rest)) =
        flatten (Scad.pieces showNum (.mk op cs)) ++ rest := by
      rw [skipWs_all_ws w hw, he, List.cons_append, skipWs_cons_of_not_ws _ _ (not_ws_of_idStart c hc)]
    have hstmt : pStmt ((w ++ (flatten (Scad.pieces showNum (.mk op cs)) ++ rest)).length + 1)
        (w ++ (flatten (Scad.pieces showNum (.mk op cs)) ++ rest)) =
        some (toStmt showNum (.mk op cs), '\n' :: rest) := by
      rw [← pStmt_skipWs, hsk]
      apply pStmt_pieces showNum (.mk op cs) rest _ hok'
      simp only [List.length_append]; omega
    have hid : ∃ r, pIdent (flatten (Scad.pieces showNum (.mk op cs)) ++ rest) = some (h.name, '(' :: r) := by
      cases hp : op.isPrimitive with
      | true =>
        have := hprim hp; subst this
        rw [prim_text showNum op h hh hp rest]
        exact ⟨_, pIdent_ident h.name '(' _ hname (by decide)⟩
      | false =>
        rw [block_text showNum op cs h hh hp rest]
        exact ⟨_, pIdent_ident h.name '(' _ hname (by decide)⟩
    obtain ⟨r, hid⟩ := hid
    simp only [pTop, pIdent_ws_prefix w _ hw, hid, skipWs_cons_of_not_ws '(' _ (by decide), hstmt]
    rfl

/-- the statements part of a file -/
theorem pFileAux_emitAll : (ts : List (Scad ν)) → (k : Nat) → (∀ t ∈ ts, TreeOK showNum t) → ts.length < k →
    (w : List Char) → w.all isWs = true →
    pFileAux k (w ++ emitAll showNum ts) = some (ts.map fun t => Top.stmt (toStmt showNum t))
  | [], k, _, hk, w, hw => by
    cases k with
    | zero => omega
    | succ k' =>
      have : skipWs (w ++ emitAll showNum ([] : List (Scad ν))) = [] := by
        rw [skipWs_all_ws w hw]; rfl
      simp [pFileAux, this]
  | t :: ts, k, hok, hk, w, hw => by
    cases k with
    | zero => omega
    | succ k' =>
      obtain ⟨c, r, he, hc⟩ := tree_head showNum t (hok t (by simp))
      have hne : ∃ c' r', skipWs (w ++ emitAll showNum (t :: ts)) = c' :: r' := by
        rw [skipWs_all_ws w hw, emitAll_cons, he, List.cons_append,
          skipWs_cons_of_not_ws _ _ (not_ws_of_idStart c hc)]
        exact ⟨c, _, rfl⟩
      obtain ⟨c', r', hcr⟩ := hne
      have htop := pTop_stmt showNum w hw t (hok t (by simp)) (emitAll showNum ts)
      rw [← emitAll_cons] at htop
      have hrec := pFileAux_emitAll ts k' (fun x hx => hok x (by simp [hx]))
        (by simp only [List.length_cons] at hk; omega) ['\n'] (by decide)
      simp only [pFileAux, hcr, htop]
      simp only [List.singleton_append] at hrec
      rw [hrec]; simp

theorem length_le_emitAll (ts : List (Scad ν)) (hok : ∀ t ∈ ts, TreeOK showNum t) :
    2 * ts.length ≤ (emitAll showNum ts).length := by
  induction ts with
  | nil => simp
  | cons t ts ih =>
    have h1 := tsize_le showNum t (hok t (by simp))
    have h2 : 2 ≤ tsize t := by cases t; simp [tsize]
    have := ih (fun x hx => hok x (by simp [hx]))
    rw [emitAll_cons, List.length_append, List.length_cons]; omega

theorem pFileAux_assign_step (k : Nat) (w name t rest : List Char) (hw : w.all isWs = true)
    (hn : IsIdent name = true) (ht : IsNumeral t = true) :
    pFileAux (k + 1) (w ++ (name ++ '=' :: (t ++ ';' :: rest))) =
      (pFileAux k rest).map (Top.assign name (.num t) :: ·) := by
  obtain ⟨c, r, rfl, hc⟩ := ident_head name hn
  have htop := pTop_assign w (c :: r) t rest hw hn ht
  simp only [pFileAux, htop]
  simp only [skipWs_all_ws w hw, List.cons_append, skipWs_cons_of_not_ws _ _ (not_ws_of_idStart c hc)]

end Stmts

end ScadVerif.ParserLemmas
