/-
Instances of the model's scalar classes for the types the theorems talk about.
-/
import Mathlib.Analysis.SpecialFunctions.Trigonometric.Arctan
import Mathlib.Tactic.Ring
import Mathlib.Tactic.FieldSimp
import Mathlib.Tactic.LinearCombination
import Mathlib.Tactic.IntervalCases
import Mathlib.Tactic.NormNum
import ScadVerif.Model.Scalar
namespace ScadVerif

/-- `n as f64` read in a semiring: the canonical embedding of `ℕ`. -/
instance (priority := low) instOfNatCastOfNatCast {α : Type} [NatCast α] : OfNatCast α := ⟨Nat.cast⟩

@[simp] theorem cast_eq_natCast {α : Type} [NatCast α] (n : Nat) :
    (OfNatCast.cast n : α) = (n : α) := rfl

noncomputable instance : Trig ℝ where
  sin := Real.sin
  cos := Real.cos
  tan := Real.tan
  asin := Real.arcsin
  acos := Real.arccos
  atan := Real.arctan
  pi := Real.pi

noncomputable instance : HasSqrt ℝ := ⟨Real.sqrt⟩
noncomputable instance : HasAbs ℝ := ⟨fun x => |x|⟩

open Classical in
noncomputable instance : Cmp ℝ where
  ltb a b := decide (a < b)
  leb a b := decide (a ≤ b)
  eqb a b := decide (a = b)

@[simp] theorem ltb_real (a b : ℝ) : (Cmp.ltb a b = true) ↔ a < b := by simp [Cmp.ltb]
@[simp] theorem leb_real (a b : ℝ) : (Cmp.leb a b = true) ↔ a ≤ b := by simp [Cmp.leb]
@[simp] theorem eqb_real (a b : ℝ) : (Cmp.eqb a b = true) ↔ a = b := by simp [Cmp.eqb]

@[simp] theorem sqrt_real (x : ℝ) : (HasSqrt.sqrt x : ℝ) = Real.sqrt x := rfl
@[simp] theorem abs_real (x : ℝ) : (HasAbs.abs x : ℝ) = |x| := rfl
@[simp] theorem sin_real (x : ℝ) : (Trig.sin x : ℝ) = Real.sin x := rfl
@[simp] theorem cos_real (x : ℝ) : (Trig.cos x : ℝ) = Real.cos x := rfl
@[simp] theorem tan_real (x : ℝ) : (Trig.tan x : ℝ) = Real.tan x := rfl
@[simp] theorem asin_real (x : ℝ) : (Trig.asin x : ℝ) = Real.arcsin x := rfl
@[simp] theorem acos_real (x : ℝ) : (Trig.acos x : ℝ) = Real.arccos x := rfl
@[simp] theorem atan_real (x : ℝ) : (Trig.atan x : ℝ) = Real.arctan x := rfl
@[simp] theorem pi_real : (Trig.pi : ℝ) = Real.pi := rfl


/-- the Boolean equality test of the scalar type decides equality -/
class LawfulEqb (α : Type) [Cmp α] : Prop where
  eqb_iff : ∀ a b : α, Cmp.eqb a b = true ↔ a = b

instance : LawfulEqb ℝ := ⟨eqb_real⟩
instance : LawfulEqb Int := ⟨by intro a b; simp [Cmp.eqb]⟩

end ScadVerif
