/-
Directed-edge structure of the quad strips the mesh builders emit, and the gluing argument that
makes a capped strip a closed surface (at the level of edge multisets).
-/
import Mathlib.Data.List.Rotate
import Mathlib.Data.List.Perm.Basic
import ScadVerif.Model.Dim3
import ScadVerif.Spec.Mesh
namespace ScadVerif.MeshLemmas
open ScadVerif ScadVerif.Spec ScadVerif.Dim3

abbrev Edge := Nat × Nat

/-- the directed boundary edges of ring `r` (n consecutive indices), in list direction -/
def ringF (n r : Nat) : List Edge := (List.range n).map fun i => (r * n + i, r * n + (i + 1) % n)
/-- the edges from ring `lo` up to ring `hi` -/
def ups (n lo hi : Nat) : List Edge := (List.range n).map fun j => (lo * n + j, hi * n + j)

theorem faceEdges_quad (a b c d : Nat) : faceEdges [a, b, c, d] = [(a, b), (b, c), (c, d), (d, a)] := by
  simp [faceEdges, faceEdges.go]
theorem faceEdges_tri (a b c : Nat) : faceEdges [a, b, c] = [(a, b), (b, c), (c, a)] := by
  simp [faceEdges, faceEdges.go]

theorem succ_mod_perm (n : Nat) : ((List.range n).map fun i => (i + 1) % n).Perm (List.range n) := by
  have : ((List.range n).map fun i => (i + 1) % n) = (List.range n).rotate 1 := by
    apply List.ext_getElem
    · simp
    · intro i h1 h2
      simp [List.getElem_rotate]
  rw [this]; exact List.rotate_perm _ _

theorem flatMap4_perm {β γ : Type} (l : List β) (f g h k : β → γ) :
    (l.flatMap fun i => [f i, g i, h i, k i]).Perm (l.map f ++ l.map g ++ l.map h ++ l.map k) := by
  induction l with
  | nil => simp
  | cons x xs ih =>
    simp only [List.flatMap_cons, List.map_cons, List.cons_append, List.nil_append, List.append_assoc]
    refine List.Perm.cons _ ?_
    -- move g x, h x, k x to their places
    have ih' := ih
    simp only [List.append_assoc] at ih'
    calc g x :: h x :: k x :: (xs.flatMap fun i => [f i, g i, h i, k i])
        |>.Perm (g x :: h x :: k x :: (xs.map f ++ (xs.map g ++ (xs.map h ++ xs.map k)))) :=
          (ih'.cons _).cons _ |>.cons _
      _ |>.Perm (xs.map f ++ g x :: (xs.map g ++ h x :: (xs.map h ++ k x :: xs.map k))) := by
          refine List.Perm.trans ?_ (List.perm_middle.symm)
          refine List.Perm.cons _ ?_
          refine List.Perm.trans ?_ (List.Perm.append_left _ List.perm_middle.symm)
          refine List.Perm.trans ?_ List.perm_middle.symm
          refine List.Perm.cons _ ?_
          refine List.Perm.trans ?_ (List.Perm.append_left _ (List.Perm.append_left _ List.perm_middle.symm))
          refine List.Perm.trans ?_ (List.Perm.append_left _ List.perm_middle.symm)
          refine List.Perm.trans ?_ List.perm_middle.symm
          exact List.Perm.refl _

/-- **the directed edges of a quad strip**: ring `lo` forwards, ring `hi` backwards, and every
vertical edge once up and once down -/
theorem strip_edges (n lo hi : Nat) :
    (allEdges (strip n lo hi)).Perm
      (ringF n lo ++ ups n lo hi ++ (ringF n hi).map Prod.swap ++ (ups n lo hi).map Prod.swap) := by
  have h1 : allEdges (strip n lo hi) = (List.range n).flatMap fun i =>
      [(lo * n + i, lo * n + (i + 1) % n), (lo * n + (i + 1) % n, hi * n + (i + 1) % n),
       (hi * n + (i + 1) % n, hi * n + i), (hi * n + i, lo * n + i)] := by
    simp [allEdges, strip, List.flatMap_map, faceEdges_quad]
  rw [h1]
  refine (flatMap4_perm _ _ _ _ _).trans ?_
  have hup : ((List.range n).map fun i => (lo * n + (i + 1) % n, hi * n + (i + 1) % n)).Perm (ups n lo hi) := by
    have : ((List.range n).map fun i => (lo * n + (i + 1) % n, hi * n + (i + 1) % n)) =
        ((List.range n).map fun i => (i + 1) % n).map fun j => (lo * n + j, hi * n + j) := by
      simp [List.map_map, Function.comp_def]
    rw [this]; exact (succ_mod_perm n).map _
  have e3 : ((List.range n).map fun i => (hi * n + (i + 1) % n, hi * n + i)) = (ringF n hi).map Prod.swap := by
    simp [ringF, List.map_map, Function.comp_def]
  have e4 : ((List.range n).map fun i => (hi * n + i, lo * n + i)) = (ups n lo hi).map Prod.swap := by
    simp [ups, List.map_map, Function.comp_def]
  rw [e3, e4]
  exact ((List.Perm.refl _).append hup).append (List.Perm.refl _) |>.append (List.Perm.refl _)

/-- a multiset of directed edges in which every edge has its reverse equally often -/
def EdgeClosed (es : List Edge) : Prop := (es.map Prod.swap).Perm es

theorem swap_swap_map (l : List Edge) : (l.map Prod.swap).map Prod.swap = l := by
  simp [List.map_map, Function.comp_def]

theorem edgeClosed_of_halves (x es : List Edge) (h : es.Perm (x ++ x.map Prod.swap)) : EdgeClosed es := by
  unfold EdgeClosed
  refine (h.map _).trans (List.Perm.trans ?_ h.symm)
  rw [List.map_append, swap_swap_map]
  exact List.perm_append_comm

/-- **gluing**: a quad strip whose lower ring is closed by a cap that uses the ring edges backwards
and whose upper ring is closed by a cap that uses them forwards — each cap otherwise using every
one of its edges in both directions — has every directed edge matched by its reverse -/
theorem capped_strip_closed (n lo hi : Nat) (capLo capHi dLo dHi : List Edge)
    (hlo : capLo.Perm ((ringF n lo).map Prod.swap ++ dLo ++ dLo.map Prod.swap))
    (hhi : capHi.Perm (ringF n hi ++ dHi ++ dHi.map Prod.swap)) :
    EdgeClosed (capLo ++ capHi ++ allEdges (strip n lo hi)) := by
  apply edgeClosed_of_halves (ringF n lo ++ ups n lo hi ++ dLo ++ dHi ++ ringF n hi)
  refine ((hlo.append hhi).append (strip_edges n lo hi)).trans ?_
  simp only [List.map_append, List.append_assoc]
  -- both sides are the same ten blocks in a different order
  apply List.perm_iff_count.mpr
  intro e
  simp only [List.count_append]
  omega

/-- every index of a strip lies in one of its two rings -/
theorem strip_indices (n lo hi : Nat) : ∀ f ∈ strip n lo hi, ∀ v ∈ f, v < (max lo hi + 1) * n := by
  intro f hf v hv
  simp only [strip, List.mem_map, List.mem_range] at hf
  obtain ⟨i, hi', rfl⟩ := hf
  have hm : (i + 1) % n < n := Nat.mod_lt _ (by omega)
  have h1 : lo * n + n ≤ (max lo hi + 1) * n := by
    have : lo + 1 ≤ max lo hi + 1 := by omega
    calc lo * n + n = (lo + 1) * n := (Nat.succ_mul lo n).symm
      _ ≤ (max lo hi + 1) * n := Nat.mul_le_mul_right _ this
  have h2 : hi * n + n ≤ (max lo hi + 1) * n := by
    have : hi + 1 ≤ max lo hi + 1 := by omega
    calc hi * n + n = (hi + 1) * n := (Nat.succ_mul hi n).symm
      _ ≤ (max lo hi + 1) * n := Nat.mul_le_mul_right _ this
  simp only [List.mem_cons, List.not_mem_nil, or_false] at hv
  rcases hv with rfl | rfl | rfl | rfl <;> omega

/-- each quad of a strip has four distinct vertices when the rings differ and n ≥ 2 -/
theorem strip_quads (n lo hi : Nat) : ∀ f ∈ strip n lo hi, f.length = 4 := by
  intro f hf
  simp only [strip, List.mem_map] at hf
  obtain ⟨i, _, rfl⟩ := hf
  rfl

theorem triFaces_indices (off bound : Nat) : ∀ (l : List Nat), (∀ i ∈ l, i < bound) →
    ∀ f ∈ triFaces off l, ∀ v ∈ f, v < bound + off
  | [], _, f, hf, _, _ => by simp [triFaces] at hf
  | [_], _, f, hf, _, _ => by simp [triFaces] at hf
  | [_, _], _, f, hf, _, _ => by simp [triFaces] at hf
  | a :: b :: c :: rest, h, f, hf, v, hv => by
    simp only [triFaces, List.mem_cons] at hf
    rcases hf with rfl | hf
    · simp only [List.mem_cons, List.not_mem_nil, or_false] at hv
      have ha := h a (by simp); have hb := h b (by simp); have hc := h c (by simp)
      rcases hv with rfl | rfl | rfl <;> omega
    · exact triFaces_indices off bound rest (fun i hi => h i (by simp [hi])) f hf v hv

theorem triFaces_tri (off : Nat) : ∀ (l : List Nat), ∀ f ∈ triFaces off l, f.length = 3
  | [], f, hf => by simp [triFaces] at hf
  | [_], f, hf => by simp [triFaces] at hf
  | [_, _], f, hf => by simp [triFaces] at hf
  | a :: b :: c :: rest, f, hf => by
    simp only [triFaces, List.mem_cons] at hf
    rcases hf with rfl | hf
    · rfl
    · exact triFaces_tri off rest f hf

end ScadVerif.MeshLemmas
