/-
Directed-edge structure of the quad strips the mesh builders emit, and the gluing argument that
makes a capped strip a closed surface (at the level of edge multisets).
-/
import Mathlib.Data.List.Rotate
import Mathlib.Data.List.Nodup
import Mathlib.Data.List.Perm.Basic
import ScadVerif.Model.Dim3
import ScadVerif.Spec.Mesh
import ScadVerif.Lemmas.TriLemmas
namespace ScadVerif.MeshLemmas
open ScadVerif ScadVerif.Spec ScadVerif.Dim3 ScadVerif.Dim3.Polyhedron ScadVerif.Tri ScadVerif.TriLemmas

abbrev Edge := Nat × Nat

/-- the directed boundary edges of ring `r` (n consecutive indices), in list direction -/
def ringF (n r : Nat) : List Edge := (List.range n).map fun i => (r * n + i, r * n + (i + 1) % n)
/-- the edges from ring `lo` up to ring `hi` -/
def ups (n lo hi : Nat) : List Edge := (List.range n).map fun j => (lo * n + j, hi * n + j)

theorem faceEdges_quad (a b c d : Nat) : faceEdges [a, b, c, d] = [(a, b), (b, c), (c, d), (d, a)] := by
  simp [faceEdges, faceEdges.go]
theorem faceEdges_tri (a b c : Nat) : faceEdges [a, b, c] = [(a, b), (b, c), (c, a)] := by
  simp [faceEdges, faceEdges.go]

theorem succ_mod_perm (n : Nat) : ((List.range n).map fun i => (i + 1) % n).Perm (List.range n) := by
  have : ((List.range n).map fun i => (i + 1) % n) = (List.range n).rotate 1 := by
    apply List.ext_getElem
    · simp
    · intro i h1 h2
      simp [List.getElem_rotate]
  rw [this]; exact List.rotate_perm _ _

theorem flatMap4_perm {β γ : Type} (l : List β) (f g h k : β → γ) :
    (l.flatMap fun i => [f i, g i, h i, k i]).Perm (l.map f ++ l.map g ++ l.map h ++ l.map k) := by
  induction l with
  | nil => simp
  | cons x xs ih =>
    simp only [List.flatMap_cons, List.map_cons, List.cons_append, List.nil_append, List.append_assoc]
    refine List.Perm.cons _ ?_
    -- move g x, h x, k x to their places
    have ih' := ih
    simp only [List.append_assoc] at ih'
    calc g x :: h x :: k x :: (xs.flatMap fun i => [f i, g i, h i, k i])
        |>.Perm (g x :: h x :: k x :: (xs.map f ++ (xs.map g ++ (xs.map h ++ xs.map k)))) :=
          (ih'.cons _).cons _ |>.cons _
      _ |>.Perm (xs.map f ++ g x :: (xs.map g ++ h x :: (xs.map h ++ k x :: xs.map k))) := by
          refine List.Perm.trans ?_ (List.perm_middle.symm)
          refine List.Perm.cons _ ?_
          refine List.Perm.trans ?_ (List.Perm.append_left _ List.perm_middle.symm)
          refine List.Perm.trans ?_ List.perm_middle.symm
          refine List.Perm.cons _ ?_
          refine List.Perm.trans ?_ (List.Perm.append_left _ (List.Perm.append_left _ List.perm_middle.symm))
          refine List.Perm.trans ?_ (List.Perm.append_left _ List.perm_middle.symm)
          refine List.Perm.trans ?_ List.perm_middle.symm
          exact List.Perm.refl _

/-- **the directed edges of a quad strip**: ring `lo` forwards, ring `hi` backwards, and every
vertical edge once up and once down -/
theorem strip_edges (n lo hi : Nat) :
    (allEdges (strip n lo hi)).Perm
      (ringF n lo ++ ups n lo hi ++ (ringF n hi).map Prod.swap ++ (ups n lo hi).map Prod.swap) := by
  have h1 : allEdges (strip n lo hi) = (List.range n).flatMap fun i =>
      [(lo * n + i, lo * n + (i + 1) % n), (lo * n + (i + 1) % n, hi * n + (i + 1) % n),
       (hi * n + (i + 1) % n, hi * n + i), (hi * n + i, lo * n + i)] := by
    simp [allEdges, strip, List.flatMap_map, faceEdges_quad]
  rw [h1]
  refine (flatMap4_perm _ _ _ _ _).trans ?_
  have hup : ((List.range n).map fun i => (lo * n + (i + 1) % n, hi * n + (i + 1) % n)).Perm (ups n lo hi) := by
    have : ((List.range n).map fun i => (lo * n + (i + 1) % n, hi * n + (i + 1) % n)) =
        ((List.range n).map fun i => (i + 1) % n).map fun j => (lo * n + j, hi * n + j) := by
      simp [List.map_map, Function.comp_def]
    rw [this]; exact (succ_mod_perm n).map _
  have e3 : ((List.range n).map fun i => (hi * n + (i + 1) % n, hi * n + i)) = (ringF n hi).map Prod.swap := by
    simp [ringF, List.map_map, Function.comp_def]
  have e4 : ((List.range n).map fun i => (hi * n + i, lo * n + i)) = (ups n lo hi).map Prod.swap := by
    simp [ups, List.map_map, Function.comp_def]
  rw [e3, e4]
  exact ((List.Perm.refl _).append hup).append (List.Perm.refl _) |>.append (List.Perm.refl _)

/-- a multiset of directed edges in which every edge has its reverse equally often -/
def EdgeClosed (es : List Edge) : Prop := (es.map Prod.swap).Perm es

theorem swap_swap_map (l : List Edge) : (l.map Prod.swap).map Prod.swap = l := by
  simp [List.map_map, Function.comp_def]

theorem edgeClosed_of_halves (x es : List Edge) (h : es.Perm (x ++ x.map Prod.swap)) : EdgeClosed es := by
  unfold EdgeClosed
  refine (h.map _).trans (List.Perm.trans ?_ h.symm)
  rw [List.map_append, swap_swap_map]
  exact List.perm_append_comm

/-- **gluing**: a quad strip whose lower ring is closed by a cap that uses the ring edges backwards
and whose upper ring is closed by a cap that uses them forwards — each cap otherwise using every
one of its edges in both directions — has every directed edge matched by its reverse -/
theorem capped_strip_closed (n lo hi : Nat) (capLo capHi dLo dHi : List Edge)
    (hlo : capLo.Perm ((ringF n lo).map Prod.swap ++ dLo ++ dLo.map Prod.swap))
    (hhi : capHi.Perm (ringF n hi ++ dHi ++ dHi.map Prod.swap)) :
    EdgeClosed (capLo ++ capHi ++ allEdges (strip n lo hi)) := by
  apply edgeClosed_of_halves (ringF n lo ++ ups n lo hi ++ dLo ++ dHi ++ ringF n hi)
  refine ((hlo.append hhi).append (strip_edges n lo hi)).trans ?_
  simp only [List.map_append, List.append_assoc]
  -- both sides are the same ten blocks in a different order
  apply List.perm_iff_count.mpr
  intro e
  simp only [List.count_append]
  omega

/-- every index of a strip lies in one of its two rings -/
theorem strip_indices (n lo hi : Nat) : ∀ f ∈ strip n lo hi, ∀ v ∈ f, v < (max lo hi + 1) * n := by
  intro f hf v hv
  simp only [strip, List.mem_map, List.mem_range] at hf
  obtain ⟨i, hi', rfl⟩ := hf
  have hm : (i + 1) % n < n := Nat.mod_lt _ (by omega)
  have h1 : lo * n + n ≤ (max lo hi + 1) * n := by
    have : lo + 1 ≤ max lo hi + 1 := by omega
    calc lo * n + n = (lo + 1) * n := (Nat.succ_mul lo n).symm
      _ ≤ (max lo hi + 1) * n := Nat.mul_le_mul_right _ this
  have h2 : hi * n + n ≤ (max lo hi + 1) * n := by
    have : hi + 1 ≤ max lo hi + 1 := by omega
    calc hi * n + n = (hi + 1) * n := (Nat.succ_mul hi n).symm
      _ ≤ (max lo hi + 1) * n := Nat.mul_le_mul_right _ this
  simp only [List.mem_cons, List.not_mem_nil, or_false] at hv
  rcases hv with rfl | rfl | rfl | rfl <;> omega

/-- each quad of a strip has four distinct vertices when the rings differ and n ≥ 2 -/
theorem strip_quads (n lo hi : Nat) : ∀ f ∈ strip n lo hi, f.length = 4 := by
  intro f hf
  simp only [strip, List.mem_map] at hf
  obtain ⟨i, _, rfl⟩ := hf
  rfl

theorem triFaces_indices (off bound : Nat) : ∀ (l : List Nat), (∀ i ∈ l, i < bound) →
    ∀ f ∈ triFaces off l, ∀ v ∈ f, v < bound + off
  | [], _, f, hf, _, _ => by simp [triFaces] at hf
  | [_], _, f, hf, _, _ => by simp [triFaces] at hf
  | [_, _], _, f, hf, _, _ => by simp [triFaces] at hf
  | a :: b :: c :: rest, h, f, hf, v, hv => by
    simp only [triFaces, List.mem_cons] at hf
    rcases hf with rfl | hf
    · simp only [List.mem_cons, List.not_mem_nil, or_false] at hv
      have ha := h a (by simp); have hb := h b (by simp); have hc := h c (by simp)
      rcases hv with rfl | rfl | rfl <;> omega
    · exact triFaces_indices off bound rest (fun i hi => h i (by simp [hi])) f hf v hv

theorem triFaces_tri (off : Nat) : ∀ (l : List Nat), ∀ f ∈ triFaces off l, f.length = 3
  | [], f, hf => by simp [triFaces] at hf
  | [_], f, hf => by simp [triFaces] at hf
  | [_, _], f, hf => by simp [triFaces] at hf
  | a :: b :: c :: rest, f, hf => by
    simp only [triFaces, List.mem_cons] at hf
    rcases hf with rfl | hf
    · rfl
    · exact triFaces_tri off rest f hf

/-! ### no directed edge twice -/

/-- index `v` belongs to ring `r` -/
def InRing (n r v : Nat) : Prop := r * n ≤ v ∧ v < r * n + n

theorem rings_disjoint (n lo hi v : Nat) (h : lo ≠ hi) : ¬(InRing n lo v ∧ InRing n hi v) := by
  rintro ⟨⟨a1, a2⟩, ⟨b1, b2⟩⟩
  rcases Nat.lt_or_gt_of_ne h with hlt | hlt
  · have : (lo + 1) * n ≤ hi * n := Nat.mul_le_mul_right _ hlt
    rw [Nat.succ_mul] at this; omega
  · have : (hi + 1) * n ≤ lo * n := Nat.mul_le_mul_right _ hlt
    rw [Nat.succ_mul] at this; omega

theorem ringF_mem (n r : Nat) (e : Edge) (h : e ∈ ringF n r) : InRing n r e.1 ∧ InRing n r e.2 := by
  simp only [ringF, List.mem_map, List.mem_range] at h
  obtain ⟨i, hi, rfl⟩ := h
  have : (i + 1) % n < n := Nat.mod_lt _ (by omega)
  exact ⟨⟨by omega, by omega⟩, ⟨by omega, by omega⟩⟩
theorem ups_mem (n lo hi : Nat) (e : Edge) (h : e ∈ ups n lo hi) : InRing n lo e.1 ∧ InRing n hi e.2 := by
  simp only [ups, List.mem_map, List.mem_range] at h
  obtain ⟨i, hi', rfl⟩ := h
  exact ⟨⟨by omega, by omega⟩, ⟨by omega, by omega⟩⟩

theorem ringF_nodup (n r : Nat) : (ringF n r).Nodup := by
  unfold ringF
  refine List.Nodup.map_on ?_ List.nodup_range
  intro a _ b _ h
  simp only [Prod.mk.injEq] at h
  omega
theorem ups_nodup (n lo hi : Nat) : (ups n lo hi).Nodup := by
  unfold ups
  refine List.Nodup.map_on ?_ List.nodup_range
  intro a _ b _ h
  simp only [Prod.mk.injEq] at h
  omega

theorem nodup_map_swap (l : List Edge) (h : l.Nodup) : (l.map Prod.swap).Nodup :=
  h.map (fun a b hab => by have := congrArg Prod.swap hab; simpa using this)

theorem mem_map_swap (l : List Edge) (e : Edge) : e ∈ l.map Prod.swap ↔ e.swap ∈ l := by
  constructor
  · intro h
    obtain ⟨x, hx, rfl⟩ := List.mem_map.mp h
    simpa using hx
  · intro h
    exact List.mem_map.mpr ⟨e.swap, h, by simp⟩

/-- **in a quad strip between two different rings no directed edge occurs twice** -/
theorem strip_edges_nodup (n lo hi : Nat) (h : lo ≠ hi) : (allEdges (strip n lo hi)).Nodup := by
  rw [(strip_edges n lo hi).nodup_iff]
  have hd := fun v => rings_disjoint n lo hi v h
  rw [List.nodup_append, List.nodup_append, List.nodup_append]
  refine ⟨⟨⟨ringF_nodup n lo, ups_nodup n lo hi, ?_⟩, nodup_map_swap _ (ringF_nodup n hi), ?_⟩,
    nodup_map_swap _ (ups_nodup n lo hi), ?_⟩
  · intro a ha b hb hab
    subst hab
    exact hd a.2 ⟨(ringF_mem n lo a ha).2, (ups_mem n lo hi a hb).2⟩
  · intro a ha b hb hab
    subst hab
    rw [mem_map_swap] at hb
    have hb' := ringF_mem n hi _ hb
    simp only [Prod.fst_swap, Prod.snd_swap] at hb'
    rcases List.mem_append.mp ha with ha | ha
    · exact hd a.1 ⟨(ringF_mem n lo a ha).1, hb'.2⟩
    · exact hd a.1 ⟨(ups_mem n lo hi a ha).1, hb'.2⟩
  · intro a ha b hb hab
    subst hab
    rw [mem_map_swap] at hb
    have hb' := ups_mem n lo hi _ hb
    simp only [Prod.fst_swap, Prod.snd_swap] at hb'
    rcases List.mem_append.mp ha with ha | ha
    · rcases List.mem_append.mp ha with ha | ha
      · exact hd a.1 ⟨(ringF_mem n lo a ha).1, hb'.2⟩
      · exact hd a.1 ⟨(ups_mem n lo hi a ha).1, hb'.2⟩
    · rw [mem_map_swap] at ha
      have ha' := ringF_mem n hi _ ha
      simp only [Prod.fst_swap, Prod.snd_swap] at ha'
      exact hd a.2 ⟨hb'.1, ha'.1⟩


/-! ### revolve strips -/

/-- the directed edges of a revolve strip: the reverse orientation of `strip` -/
theorem stripRev_edges (n lo hi : Nat) :
    (allEdges (stripRev n lo hi)).Perm
      (ups n lo hi ++ ringF n hi ++ (ups n lo hi).map Prod.swap ++ (ringF n lo).map Prod.swap) := by
  have h1 : allEdges (stripRev n lo hi) = (List.range n).flatMap fun i =>
      [(lo * n + i, hi * n + i), (hi * n + i, hi * n + (i + 1) % n),
       (hi * n + (i + 1) % n, lo * n + (i + 1) % n), (lo * n + (i + 1) % n, lo * n + i)] := by
    simp [allEdges, stripRev, List.flatMap_map, faceEdges_quad]
  rw [h1]
  refine (flatMap4_perm _ _ _ _ _).trans ?_
  have hdown : ((List.range n).map fun i => (hi * n + (i + 1) % n, lo * n + (i + 1) % n)).Perm
      ((ups n lo hi).map Prod.swap) := by
    have : ((List.range n).map fun i => (hi * n + (i + 1) % n, lo * n + (i + 1) % n)) =
        ((List.range n).map fun i => (i + 1) % n).map fun j => (hi * n + j, lo * n + j) := by
      simp [List.map_map, Function.comp_def]
    rw [this]
    have e : (ups n lo hi).map Prod.swap = (List.range n).map fun j => (hi * n + j, lo * n + j) := by
      simp [ups, List.map_map, Function.comp_def]
    rw [e]; exact (succ_mod_perm n).map _
  have e4 : ((List.range n).map fun i => (lo * n + (i + 1) % n, lo * n + i)) = (ringF n lo).map Prod.swap := by
    simp [ringF, List.map_map, Function.comp_def]
  rw [e4]
  exact ((List.Perm.refl _).append (List.Perm.refl _)).append hdown |>.append (List.Perm.refl _)

/-- consecutive revolve strips `0→1, 1→2, …, (k-1)→k` -/
def revolveBody (n k : Nat) : List (List Nat) := (List.range k).flatMap fun j => stripRev n j (j + 1)

theorem allEdges_append' (a b : List (List Nat)) : allEdges (a ++ b) = allEdges a ++ allEdges b := by
  simp [allEdges]

theorem revolveBody_succ (n k : Nat) : revolveBody n (k + 1) = revolveBody n k ++ stripRev n k (k + 1) := by
  simp [revolveBody, List.range_succ]

theorem count_map_swap (l : List Edge) (e : Edge) : (l.map Prod.swap).count e = l.count e.swap := by
  induction l with
  | nil => simp
  | cons a t ih =>
    simp only [List.map_cons, List.count_cons, ih]
    congr 1
    by_cases h : a = e.swap
    · subst h; simp
    · have : ¬ (a.swap = e) := fun h' => h (by rw [← h']; simp)
      simp [h, this]

/-- **telescoping**: the inner rings of consecutive revolve strips cancel; together with ring 0
forwards and ring k backwards (what the two caps, or the closing strip, contribute) every directed
edge is matched by its reverse -/
theorem revolveBody_closed (n : Nat) : ∀ k,
    EdgeClosed (allEdges (revolveBody n k) ++ ringF n 0 ++ (ringF n k).map Prod.swap)
  | 0 => by
    apply edgeClosed_of_halves (ringF n 0)
    simp [revolveBody, allEdges]
  | k + 1 => by
    have ih := revolveBody_closed n k
    have hs := stripRev_edges n k (k + 1)
    unfold EdgeClosed at ih ⊢
    rw [List.perm_iff_count] at ih ⊢
    intro e
    have ih1 := ih e
    have ih2 := ih e.swap
    have hs1 := hs.count_eq e
    have hs2 := hs.count_eq e.swap
    simp only [revolveBody_succ, allEdges_append', List.map_append, List.count_append, count_map_swap,
      Prod.swap_swap] at ih1 ih2 hs1 hs2 ⊢
    omega

/-- the closing strip of a full revolve is the revolve strip from the last ring back to ring 0 -/
theorem closing_strip (n s : Nat) :
    ((List.range n).map fun i => [(s - 1) * n + i, i, (i + 1) % n, (s - 1) * n + (i + 1) % n]) =
      stripRev n (s - 1) 0 := by
  simp [stripRev]

/-- **a full (360°) revolve is closed**: for every profile size and segment count, every directed edge
of the face list is matched by its reverse — no caps, no conditions -/
theorem fullRevolve_closed (n s : Nat) :
    EdgeClosed (allEdges (revolveBody n (s - 1) ++
      (List.range n).map fun i => [(s - 1) * n + i, i, (i + 1) % n, (s - 1) * n + (i + 1) % n])) := by
  rw [closing_strip, allEdges_append']
  have hb := revolveBody_closed n (s - 1)
  have hs := stripRev_edges n (s - 1) 0
  unfold EdgeClosed at hb ⊢
  rw [List.perm_iff_count] at hb ⊢
  intro e
  have h1 := hb e
  have h2 := hb e.swap
  have hs1 := hs.count_eq e
  have hs2 := hs.count_eq e.swap
  simp only [List.map_append, List.count_append, count_map_swap, Prod.swap_swap] at h1 h2 hs1 hs2 ⊢
  omega

/-- **a partial revolve is closed when its two caps tile their rings** (start cap: ring 0 forwards,
end cap: ring k backwards) -/
theorem partialRevolve_closed (n k : Nat) (capStart capEnd dS dE : List Edge)
    (hS : capStart.Perm (ringF n 0 ++ dS ++ dS.map Prod.swap))
    (hE : capEnd.Perm ((ringF n k).map Prod.swap ++ dE ++ dE.map Prod.swap)) :
    EdgeClosed (capStart ++ allEdges (revolveBody n k) ++ capEnd) := by
  have hb := revolveBody_closed n k
  unfold EdgeClosed at hb ⊢
  rw [List.perm_iff_count] at hb ⊢
  intro e
  have h1 := hb e
  have h2 := hb e.swap
  have s1 := hS.count_eq e
  have s2 := hS.count_eq e.swap
  have e1 := hE.count_eq e
  have e2 := hE.count_eq e.swap
  simp only [List.map_append, List.count_append, count_map_swap, Prod.swap_swap] at h1 h2 s1 s2 e1 e2 ⊢
  omega


/-! ### sweep strips -/


/-- consecutive sweep strips `0→1, …, (k-1)→k` -/
def sweepBody (n k : Nat) : List (List Nat) := (List.range k).flatMap fun j => strip n j (j + 1)
theorem sweepBody_succ (n k : Nat) : sweepBody n (k + 1) = sweepBody n k ++ strip n k (k + 1) := by
  simp [sweepBody, List.range_succ]

/-- telescoping for sweep strips: open at ring 0 (forwards) and ring k (backwards) -/
theorem sweepBody_closed (n : Nat) : ∀ k,
    EdgeClosed (allEdges (sweepBody n k) ++ (ringF n 0).map Prod.swap ++ ringF n k)
  | 0 => by
    apply edgeClosed_of_halves ((ringF n 0).map Prod.swap)
    simp [sweepBody, allEdges, swap_swap_map]
  | k + 1 => by
    have ih := sweepBody_closed n k
    have hs := strip_edges n k (k + 1)
    unfold EdgeClosed at ih ⊢
    rw [List.perm_iff_count] at ih ⊢
    intro e
    have ih1 := ih e
    have ih2 := ih e.swap
    have hs1 := hs.count_eq e
    have hs2 := hs.count_eq e.swap
    simp only [sweepBody_succ, allEdges_append', List.map_append, List.count_append, count_map_swap,
      Prod.swap_swap] at ih1 ih2 hs1 hs2 ⊢
    omega

theorem closing_sweep_strip (n l : Nat) :
    ((List.range n).map fun i => [(l - 1) * n + i, (l - 1) * n + (i + 1) % n, (i + 1) % n, i]) =
      strip n (l - 1) 0 := by
  simp [strip]

/-- **a closed sweep is closed**, for every profile size and path length — unconditionally -/
theorem closedSweep_closed (n l : Nat) :
    EdgeClosed (allEdges (sweepBody n (l - 1) ++
      (List.range n).map fun i => [(l - 1) * n + i, (l - 1) * n + (i + 1) % n, (i + 1) % n, i])) := by
  rw [closing_sweep_strip, allEdges_append']
  have hb := sweepBody_closed n (l - 1)
  have hs := strip_edges n (l - 1) 0
  unfold EdgeClosed at hb ⊢
  rw [List.perm_iff_count] at hb ⊢
  intro e
  have h1 := hb e
  have h2 := hb e.swap
  have hs1 := hs.count_eq e
  have hs2 := hs.count_eq e.swap
  simp only [List.map_append, List.count_append, count_map_swap, Prod.swap_swap] at h1 h2 hs1 hs2 ⊢
  omega

/-- an open sweep is closed when its caps tile their rings (start: ring 0 backwards, end: ring k
forwards) -/
theorem openSweep_closed (n k : Nat) (capStart capEnd dS dE : List Edge)
    (hS : capStart.Perm ((ringF n 0).map Prod.swap ++ dS ++ dS.map Prod.swap))
    (hE : capEnd.Perm (ringF n k ++ dE ++ dE.map Prod.swap)) :
    EdgeClosed (capStart ++ allEdges (sweepBody n k) ++ capEnd) := by
  have hb := sweepBody_closed n k
  unfold EdgeClosed at hb ⊢
  rw [List.perm_iff_count] at hb ⊢
  intro e
  have h1 := hb e
  have h2 := hb e.swap
  have s1 := hS.count_eq e
  have s2 := hS.count_eq e.swap
  have e1 := hE.count_eq e
  have e2 := hE.count_eq e.swap
  simp only [List.map_append, List.count_append, count_map_swap, Prod.swap_swap] at h1 h2 s1 s2 e1 e2 ⊢
  omega


/-! ### boundaries of polygons and of complete triangulation runs -/
theorem chainE_range' : ∀ (k s : Nat), chainE (List.range' s (k + 1)) = (List.range' s k).map fun i => (i, i + 1)
  | 0, s => by simp [chainE, List.range']
  | k + 1, s => by
    have ih := chainE_range' k (s + 1)
    simp only [List.range'_succ] at ih ⊢
    simp only [chainE, List.map_cons]
    rw [ih]

/-- the boundary of the polygon `0, 1, …, n-1` is ring 0 -/
theorem ringE_range (n : Nat) (hn : 1 ≤ n) : ringE (List.range n) = ringF n 0 := by
  obtain ⟨k, rfl⟩ : ∃ k, n = k + 1 := ⟨n - 1, by omega⟩
  unfold ringE ringF
  rw [List.range_eq_range', chainE_range']
  simp only [List.length_range', Nat.add_sub_cancel, Nat.zero_mul, Nat.zero_add]
  have h1 : (List.range' 0 (k + 1)).getD k 0 = k := by simp [List.getD_eq_getElem?_getD]
  have h2 : (List.range' 0 (k + 1)).getD 0 0 = 0 := by simp [List.getD_eq_getElem?_getD, List.range'_succ]
  rw [h1, h2, ← List.range_eq_range', ← List.range_eq_range', List.range_succ, List.map_append]
  congr 1
  · apply List.map_congr_left
    intro i hi
    simp only [List.mem_range] at hi
    rw [Nat.mod_eq_of_lt (by omega)]
  · simp

theorem chainE_append_singleton : ∀ (l : List Nat) (x : Nat), l ≠ [] →
    chainE (l ++ [x]) = chainE l ++ [(l.getD (l.length - 1) 0, x)]
  | [], _, h => absurd rfl h
  | [a], x, _ => by simp [chainE]
  | a :: b :: rest, x, _ => by
    have ih := chainE_append_singleton (b :: rest) x (by simp)
    simp only [List.cons_append, chainE] at ih ⊢
    rw [ih]
    simp

theorem getD_reverse_last (l : List Nat) (h : l ≠ []) : l.reverse.getD (l.reverse.length - 1) 0 = l.getD 0 0 := by
  cases l with
  | nil => exact absurd rfl h
  | cons a t => simp [List.getD_eq_getElem?_getD]
theorem getD_reverse_zero (l : List Nat) (h : l ≠ []) : l.reverse.getD 0 0 = l.getD (l.length - 1) 0 := by
  have hl : 0 < l.length := List.length_pos_iff.mpr h
  simp only [List.getD_eq_getElem?_getD]
  rw [List.getElem?_reverse (by simpa using hl)]
  simp

theorem swap_beq (a b : Nat) (x : Edge) : ((b, a) == x) = ((a, b) == x.swap) := by
  cases x; simp [Prod.swap, eq_comm, and_comm]

theorem chainE_reverse_count (l : List Nat) (x : Edge) : (chainE l.reverse).count x = (chainE l).count x.swap := by
  induction l with
  | nil => simp [chainE]
  | cons a t ih =>
    cases t with
    | nil => simp [chainE]
    | cons b r =>
      rw [List.reverse_cons, chainE_append_singleton _ _ (by simp), getD_reverse_last _ (by simp)]
      simp only [chainE, List.getD_cons_zero, List.count_append, List.count_cons, List.count_nil, ih,
        swap_beq a b x]
      omega

/-- reversing a polygon reverses its boundary -/
theorem ringE_reverse_count (l : List Nat) (hl : l ≠ []) (x : Edge) :
    (ringE l.reverse).count x = (ringE l).count x.swap := by
  unfold ringE
  rw [getD_reverse_last l hl, getD_reverse_zero l hl]
  simp only [List.count_append, List.count_cons, List.count_nil, chainE_reverse_count,
    swap_beq (l.getD (l.length - 1) 0) (l.getD 0 0) x]


/-! ### caps produced by complete triangulation runs -/
section Caps
set_option linter.unusedSectionVars false
variable {α : Type} [Add α] [Sub α] [Mul α] [Div α] [Neg α] [OfNat α 0] [OfNat α 1] [Cmp α]

theorem lab_indexed (vs : List (Pt2 α)) : lab (indexed vs) = List.range vs.length := by
  unfold lab indexed
  rw [List.map_fst_zip]; simp

def shift (off : Nat) (e : Edge) : Edge := (e.1 + off, e.2 + off)

theorem triFaces_labels (off : Nat) : ∀ ts : List (Tri3 α),
    allEdges (triFaces off (labels ts)) = (runEdges ts).map (shift off)
  | [] => by simp [labels, triFaces, allEdges, runEdges]
  | t :: ts => by
    have ih := triFaces_labels off ts
    simp only [labels, List.flatMap_cons, triLabels, List.cons_append, List.nil_append, triFaces, allEdges,
      runEdges, triEdges, List.map_append, List.map_cons, List.map_nil, faceEdges_tri, shift] at ih ⊢
    rw [ih]

theorem ringF_shift (n r : Nat) : (ringF n r).map (shift n) = ringF n (r + 1) := by
  simp only [ringF, List.map_map]
  apply List.map_congr_left
  intro i _
  simp only [Function.comp, shift, Nat.succ_mul]
  apply Prod.ext <;> (simp only []; omega)

theorem shift_swap (k : Nat) (l : List Edge) : (l.map (shift k)).map Prod.swap = (l.map Prod.swap).map (shift k) := by
  simp [List.map_map, Function.comp_def, shift]

theorem edgeClosed_shift (k : Nat) (es : List Edge) (h : EdgeClosed es) : EdgeClosed (es.map (shift k)) := by
  unfold EdgeClosed at h ⊢
  rw [shift_swap]; exact h.map _

/-- a complete run (n-2 triangles) leaves two vertices -/
theorem complete_residual (poly : Poly α) (ccw : Bool) (hn : 2 ≤ poly.length)
    (hc : (clip poly.length poly ccw []).length = 3 * (poly.length - 2)) :
    (clipRun poly.length poly ccw []).2.length = 2 := by
  have h1 := clip_eq poly.length poly ccw ([] : List (Tri3 α))
  simp only [labels, List.flatMap_nil] at h1
  have h2 := clipRun_count poly.length poly ccw ([] : List (Tri3 α))
  have h3 := clipRun_residual_ge poly.length poly ccw ([] : List (Tri3 α)) hn
  have hl : (clip poly.length poly ccw []).length = 3 * (clipRun poly.length poly ccw []).1.length := by
    rw [h1]
    induction (clipRun poly.length poly ccw []).1 with
    | nil => rfl
    | cons t ts ih => simp [labels, triLabels] at ih ⊢; omega
  simp only [List.length_nil, Nat.zero_add] at h2
  omega

/-- **top cap**: a complete `triangulate2d` run, offset to ring 1, has ring 1 (forwards) as its
boundary -/
theorem cap_forward (vs : List (Pt2 α)) (off : Nat) (hn : 2 ≤ vs.length)
    (hc : (triangulate (indexed vs)).length = 3 * (vs.length - 2)) :
    EdgeClosed (allEdges (triFaces off (triangulate (indexed vs))) ++
      ((ringF vs.length 0).map (shift off)).map Prod.swap) := by
  have hlen : (indexed vs).length = vs.length := by simp [indexed]
  have hres := complete_residual (indexed vs) (refCcw (indexed vs)) (by omega)
    (by simpa [triangulate, hlen] using hc)
  have hb := complete_run_boundary (indexed vs).length (indexed vs) (refCcw (indexed vs)) hres
  have he := clip_eq (indexed vs).length (indexed vs) (refCcw (indexed vs)) ([] : List (Tri3 α))
  simp only [labels, List.flatMap_nil] at he
  unfold triangulate
  rw [he]
  have := triFaces_labels (α := α) off (clipRun (indexed vs).length (indexed vs) (refCcw (indexed vs)) []).1
  simp only [labels] at this
  rw [this, lab_indexed, ringE_range _ (by omega)] at *
  have hs := edgeClosed_shift off _ hb
  rw [List.map_append] at hs
  rw [shift_swap]
  exact hs

/-- **bottom cap**: a complete `triangulate2d_rev` run has ring 0 *backwards* as its boundary -/
theorem cap_backward (vs : List (Pt2 α)) (hn : 2 ≤ vs.length)
    (hc : (triangulate (indexed vs).reverse).length = 3 * (vs.length - 2)) :
    EdgeClosed (allEdges (triFaces 0 (triangulate (indexed vs).reverse)) ++ ringF vs.length 0) := by
  have hlen : (indexed vs).reverse.length = vs.length := by simp [indexed]
  have hres := complete_residual (indexed vs).reverse (refCcw (indexed vs).reverse) (by rw [hlen]; exact hn)
    (by rw [hlen]; simpa [triangulate, hlen] using hc)
  have hb := complete_run_boundary (indexed vs).reverse.length (indexed vs).reverse
    (refCcw (indexed vs).reverse) hres
  have he := clip_eq (indexed vs).reverse.length (indexed vs).reverse (refCcw (indexed vs).reverse)
    ([] : List (Tri3 α))
  simp only [labels, List.flatMap_nil] at he
  unfold triangulate
  rw [he]
  have := triFaces_labels (α := α) 0
    (clipRun (indexed vs).reverse.length (indexed vs).reverse (refCcw (indexed vs).reverse) []).1
  simp only [labels] at this ⊢
  rw [this]
  have hlab : lab (indexed vs).reverse = (List.range vs.length).reverse := by
    rw [← lab_indexed vs]; simp [lab]
  have hne : List.range vs.length ≠ [] := by
    intro h; have := congrArg List.length h; rw [List.length_range, List.length_nil] at this; omega
  unfold RevClosed at hb
  unfold EdgeClosed
  rw [List.perm_iff_count] at hb ⊢
  intro x
  have h1 := hb x
  have hr1 := ringE_reverse_count (List.range vs.length) hne x
  have hr2 := ringE_reverse_count (List.range vs.length) hne x.swap
  rw [ringE_range _ (by omega)] at hr1 hr2
  have hshift : ∀ l : List Edge, l.map (shift 0) = l := by
    intro l
    conv_rhs => rw [← List.map_id l]
    apply List.map_congr_left
    intro e _
    cases e; simp [shift]
  simp only [hlab, List.map_append, List.count_append, TriLemmas.count_map_swap, Prod.swap_swap, hshift] at h1 hr1 hr2 ⊢
  omega

/-- gluing with caps given by their boundaries -/
theorem capped_strip_closed' (n lo hi : Nat) (capLo capHi : List Edge)
    (hlo : EdgeClosed (capLo ++ ringF n lo)) (hhi : EdgeClosed (capHi ++ (ringF n hi).map Prod.swap)) :
    EdgeClosed (capLo ++ capHi ++ allEdges (strip n lo hi)) := by
  have hs := strip_edges n lo hi
  unfold EdgeClosed at hlo hhi ⊢
  rw [List.perm_iff_count] at hlo hhi ⊢
  intro x
  have a1 := hlo x
  have b1 := hhi x
  have s1 := hs.count_eq x
  have s2 := hs.count_eq x.swap
  simp only [List.map_append, List.count_append, count_map_swap, Prod.swap_swap] at a1 b1 s1 s2 ⊢
  omega

end Caps

/-! ### no directed edge twice in a whole revolve / closed sweep; the oracle's Boolean -/
theorem inRing_unique (n a b v : Nat) (ha : InRing n a v) (hb : InRing n b v) : a = b := by
  by_contra hne
  exact rings_disjoint n a b v hne ⟨ha, hb⟩

/-- in a ring of at least three vertices no directed boundary edge is the reverse of another -/
theorem ringF_swap_disjoint (n r : Nat) (hn : 3 ≤ n) (e : Edge) (h1 : e ∈ ringF n r) (h2 : e.swap ∈ ringF n r) : False := by
  simp only [ringF, List.mem_map, List.mem_range] at h1 h2
  obtain ⟨i, hi, rfl⟩ := h1
  obtain ⟨k, hk, hke⟩ := h2
  simp only [Prod.swap_prod_mk, Prod.mk.injEq] at hke
  have e1 : k = (i + 1) % n := by omega
  have e2 : (k + 1) % n = i := by omega
  by_cases hi1 : i + 1 < n
  · rw [Nat.mod_eq_of_lt hi1] at e1
    subst e1
    by_cases hi2 : i + 1 + 1 < n
    · rw [Nat.mod_eq_of_lt hi2] at e2; omega
    · have : i + 1 + 1 = n := by omega
      rw [this, Nat.mod_self] at e2; omega
  · have : i + 1 = n := by omega
    rw [this, Nat.mod_self] at e1
    subst e1
    rw [Nat.mod_eq_of_lt (by omega)] at e2; omega

/-- the directed edges of a revolve strip, by kind -/
theorem stripRev_edge_kind (n lo hi : Nat) (e : Edge) (h : e ∈ allEdges (stripRev n lo hi)) :
    (InRing n lo e.1 ∧ InRing n hi e.2) ∨ (e ∈ ringF n hi) ∨ (InRing n hi e.1 ∧ InRing n lo e.2) ∨
      (e.swap ∈ ringF n lo) := by
  have := (stripRev_edges n lo hi).subset h
  simp only [List.mem_append] at this
  rcases this with ((h1 | h2) | h3) | h4
  · exact Or.inl (ups_mem n lo hi e h1)
  · exact Or.inr (Or.inl h2)
  · rw [mem_map_swap] at h3
    have := ups_mem n lo hi _ h3
    exact Or.inr (Or.inr (Or.inl ⟨this.2, this.1⟩))
  · rw [mem_map_swap] at h4
    exact Or.inr (Or.inr (Or.inr h4))

theorem stripRev_edges_nodup (n lo hi : Nat) (h : lo ≠ hi) : (allEdges (stripRev n lo hi)).Nodup := by
  rw [(stripRev_edges n lo hi).nodup_iff]
  have hd := fun v => rings_disjoint n lo hi v h
  rw [List.nodup_append, List.nodup_append, List.nodup_append]
  refine ⟨⟨⟨ups_nodup n lo hi, ringF_nodup n hi, ?_⟩, nodup_map_swap _ (ups_nodup n lo hi), ?_⟩,
    nodup_map_swap _ (ringF_nodup n lo), ?_⟩
  · intro a ha b hb hab
    subst hab
    exact hd a.1 ⟨(ups_mem n lo hi a ha).1, (ringF_mem n hi a hb).1⟩
  · intro a ha b hb hab
    subst hab
    rw [mem_map_swap] at hb
    have hb' := ups_mem n lo hi _ hb
    simp only [Prod.fst_swap, Prod.snd_swap] at hb'
    rcases List.mem_append.mp ha with ha | ha
    · exact hd a.1 ⟨(ups_mem n lo hi a ha).1, hb'.2⟩
    · exact hd a.2 ⟨hb'.1, (ringF_mem n hi a ha).2⟩
  · intro a ha b hb hab
    subst hab
    rw [mem_map_swap] at hb
    have hb' := ringF_mem n lo _ hb
    simp only [Prod.fst_swap, Prod.snd_swap] at hb'
    rcases List.mem_append.mp ha with ha | ha
    · rcases List.mem_append.mp ha with ha | ha
      · exact hd a.2 ⟨hb'.1, (ups_mem n lo hi a ha).2⟩
      · exact hd a.1 ⟨hb'.2, (ringF_mem n hi a ha).1⟩
    · rw [mem_map_swap] at ha
      have ha' := ups_mem n lo hi _ ha
      simp only [Prod.fst_swap, Prod.snd_swap] at ha'
      exact hd a.1 ⟨hb'.2, ha'.2⟩


/-- ring indices of the two endpoints of an edge of a revolve strip -/
theorem stripRev_edge_rings (n lo hi : Nat) (e : Edge) (h : e ∈ allEdges (stripRev n lo hi)) :
    ∃ r1 r2, InRing n r1 e.1 ∧ InRing n r2 e.2 ∧
      ((r1 = lo ∧ r2 = hi) ∨ (r1 = hi ∧ r2 = hi ∧ e ∈ ringF n hi) ∨ (r1 = hi ∧ r2 = lo) ∨
        (r1 = lo ∧ r2 = lo ∧ e.swap ∈ ringF n lo)) := by
  rcases stripRev_edge_kind n lo hi e h with h1 | h2 | h3 | h4
  · exact ⟨lo, hi, h1.1, h1.2, Or.inl ⟨rfl, rfl⟩⟩
  · have := ringF_mem n hi e h2
    exact ⟨hi, hi, this.1, this.2, Or.inr (Or.inl ⟨rfl, rfl, h2⟩)⟩
  · exact ⟨hi, lo, h3.1, h3.2, Or.inr (Or.inr (Or.inl ⟨rfl, rfl⟩))⟩
  · have := ringF_mem n lo _ h4
    simp only [Prod.fst_swap, Prod.snd_swap] at this
    exact ⟨lo, lo, this.2, this.1, Or.inr (Or.inr (Or.inr ⟨rfl, rfl, h4⟩))⟩

/-- two different strips of a full revolve share no directed edge -/
theorem revolve_strips_disjoint (n seg j k : Nat) (hn : 3 ≤ n) (hseg : 3 ≤ seg) (hjk : j < k) (hk : k < seg)
    (e : Edge) (h1 : e ∈ allEdges (stripRev n j ((j + 1) % seg)))
    (h2 : e ∈ allEdges (stripRev n k ((k + 1) % seg))) : False := by
  have hj' : (j + 1) % seg = j + 1 := Nat.mod_eq_of_lt (by omega)
  rw [hj'] at h1
  obtain ⟨a1, a2, ha1, ha2, hA⟩ := stripRev_edge_rings n j (j + 1) e h1
  obtain ⟨b1, b2, hb1, hb2, hB⟩ := stripRev_edge_rings n k ((k + 1) % seg) e h2
  have e1 := inRing_unique n a1 b1 e.1 ha1 hb1
  have e2 := inRing_unique n a2 b2 e.2 ha2 hb2
  by_cases hk1 : k + 1 < seg
  · rw [Nat.mod_eq_of_lt hk1] at hB
    rcases hA with ⟨p1, p2⟩ | ⟨p1, p2, pm⟩ | ⟨p1, p2⟩ | ⟨p1, p2, pm⟩ <;>
    rcases hB with ⟨q1, q2⟩ | ⟨q1, q2, qm⟩ | ⟨q1, q2⟩ | ⟨q1, q2, qm⟩ <;>
    first
    | omega
    | (have hjk' : j + 1 = k := by omega
       subst hjk'
       exact ringF_swap_disjoint n (j + 1) hn e pm qm)
  · have hk2 : k + 1 = seg := by omega
    rw [hk2, Nat.mod_self] at hB
    rcases hA with ⟨p1, p2⟩ | ⟨p1, p2, pm⟩ | ⟨p1, p2⟩ | ⟨p1, p2, pm⟩ <;>
    rcases hB with ⟨q1, q2⟩ | ⟨q1, q2, qm⟩ | ⟨q1, q2⟩ | ⟨q1, q2, qm⟩ <;>
    first
    | omega
    | (have hjk' : j + 1 = k := by omega
       subst hjk'
       exact ringF_swap_disjoint n (j + 1) hn e pm qm)
    | (have hj0 : j = 0 := by omega
       subst hj0
       have : (e.swap).swap ∈ ringF n 0 := by simpa using qm
       exact ringF_swap_disjoint n 0 hn e.swap pm this)


/-- the strips of a full revolve, uniformly: strip `j` joins ring `j` to ring `(j+1) mod segments` -/
def fullStrips (n seg : Nat) : List (List Nat) := (List.range seg).flatMap fun j => stripRev n j ((j + 1) % seg)

theorem fullStrips_eq (n seg : Nat) (hseg : 1 ≤ seg) :
    revolveBody n (seg - 1) ++ stripRev n (seg - 1) 0 = fullStrips n seg := by
  unfold fullStrips revolveBody
  have hs : seg = (seg - 1) + 1 := by omega
  conv_rhs => rw [hs, List.range_succ, List.flatMap_append]
  congr 1
  · apply List.flatMap_congr
    intro j hj
    simp only [List.mem_range] at hj
    rw [← hs, Nat.mod_eq_of_lt (by omega)]
  · simp only [List.flatMap_cons, List.flatMap_nil, List.append_nil]
    rw [Nat.mod_self]

theorem allEdges_flatMap {β : Type} (l : List β) (f : β → List (List Nat)) :
    allEdges (l.flatMap f) = l.flatMap fun x => allEdges (f x) := by
  simp [allEdges, List.flatMap_assoc]

/-- **no directed edge occurs twice in a full revolve** (profiles of at least three points, at least
three segments) -/
theorem fullStrips_nodup (n seg : Nat) (hn : 3 ≤ n) (hseg : 3 ≤ seg) : (allEdges (fullStrips n seg)).Nodup := by
  unfold fullStrips
  rw [allEdges_flatMap, List.nodup_flatMap]
  constructor
  · intro j hj
    simp only [List.mem_range] at hj
    apply stripRev_edges_nodup
    by_cases h : j + 1 < seg
    · rw [Nat.mod_eq_of_lt h]; omega
    · have : j + 1 = seg := by omega
      rw [this, Nat.mod_self]; omega
  · have hp : (List.range seg).Pairwise (· < ·) := List.pairwise_lt_range
    refine List.Pairwise.imp_of_mem ?_ hp
    intro j k hj hk hjk
    simp only [List.mem_range] at hk
    simp only [Function.onFun]
    rw [List.disjoint_left]
    intro e h1 h2
    exact revolve_strips_disjoint n seg j k hn hseg hjk hk e h1 h2


/-! ### from edge multisets to the oracle's Boolean -/
theorem sortedNodup_of_nodup : ∀ l : List Nat, l.Nodup → sortedNodup l = true
  | [], _ => rfl
  | [_], _ => rfl
  | a :: b :: rest, h => by
    simp only [sortedNodup, Bool.and_eq_true, bne_iff_ne, ne_eq]
    refine ⟨?_, sortedNodup_of_nodup (b :: rest) (List.nodup_cons.mp h).2⟩
    intro hab; subst hab
    exact (List.nodup_cons.mp h).1 (by simp)

theorem le_trans' : ∀ a b c : Nat, decide (a ≤ b) = true → decide (b ≤ c) = true → decide (a ≤ c) = true := by
  intro a b c h1 h2; simp only [decide_eq_true_eq] at *; omega
theorem le_total' : ∀ a b : Nat, (decide (a ≤ b) || decide (b ≤ a)) = true := by
  intro a b; simp only [Bool.or_eq_true, decide_eq_true_eq]; omega

theorem mergeSort_eq_of_perm (l₁ l₂ : List Nat) (h : l₁.Perm l₂) :
    l₁.mergeSort (· ≤ ·) = l₂.mergeSort (· ≤ ·) := by
  apply List.Perm.eq_of_pairwise (le := fun a b => decide (a ≤ b) = true)
  · intro a b _ _ h1 h2; simp only [decide_eq_true_eq] at h1 h2; omega
  · exact List.pairwise_mergeSort le_trans' le_total' l₁
  · exact List.pairwise_mergeSort le_trans' le_total' l₂
  · exact (List.mergeSort_perm l₁ _).trans (h.trans (List.mergeSort_perm l₂ _).symm)

theorem edgeKey_inj (m : Nat) (e f : Edge) (he : e.2 < m) (hf : f.2 < m) (h : edgeKey m e = edgeKey m f) : e = f := by
  unfold edgeKey at h
  have h1 : (e.1 * m + e.2) / m = (f.1 * m + f.2) / m := by rw [h]
  have h2 : (e.1 * m + e.2) % m = (f.1 * m + f.2) % m := by rw [h]
  have hm : 0 < m := by omega
  rw [Nat.mul_comm e.1, Nat.mul_comm f.1, Nat.mul_add_div hm, Nat.mul_add_div hm,
    Nat.div_eq_of_lt he, Nat.div_eq_of_lt hf] at h1
  rw [Nat.mul_comm e.1, Nat.mul_comm f.1, Nat.mul_add_mod, Nat.mul_add_mod, Nat.mod_eq_of_lt he,
    Nat.mod_eq_of_lt hf] at h2
  exact Prod.ext (by omega) h2

/-- every endpoint of every edge of a face list is a vertex of some face -/
theorem mem_allEdges (faces : List (List Nat)) (e : Edge) (h : e ∈ allEdges faces) :
    ∃ f ∈ faces, e.1 ∈ f ∧ e.2 ∈ f := by
  simp only [allEdges, List.mem_flatMap] at h
  obtain ⟨f, hf, he⟩ := h
  refine ⟨f, hf, ?_⟩
  cases f with
  | nil => simp [faceEdges] at he
  | cons v0 rest =>
    have : ∀ (l : List Nat) (e : Edge), e ∈ faceEdges.go v0 l → (e.1 ∈ l) ∧ (e.2 ∈ l ∨ e.2 = v0) := by
      intro l
      induction l with
      | nil => intro e he; simp [faceEdges.go] at he
      | cons a t ih =>
        intro e he
        cases t with
        | nil =>
          simp only [faceEdges.go, List.mem_singleton] at he
          subst he; simp
        | cons b t' =>
          simp only [faceEdges.go, List.mem_cons] at he
          rcases he with rfl | he
          · simp
          · have := ih e he
            exact ⟨by simp [this.1], by rcases this.2 with h | h <;> simp_all⟩
    have := this (v0 :: rest) e (by simpa [faceEdges] using he)
    exact ⟨this.1, by rcases this.2 with h | h; exact h; simp [h]⟩

/-- **from the edge-multiset statements to the oracle's Boolean**: a face list with valid indices,
faces of at least three distinct vertices, no directed edge twice, and every directed edge matched
by its reverse satisfies `closedOriented` — the predicate the Lean oracle evaluates on every mesh -/
theorem closedOriented_of (n : Nat) (faces : List (List Nat))
    (hv : ∀ f ∈ faces, 3 ≤ f.length ∧ (∀ v ∈ f, v < n) ∧ f.Nodup)
    (hnd : (allEdges faces).Nodup) (hcl : EdgeClosed (allEdges faces)) :
    closedOriented n faces = true := by
  unfold closedOriented
  simp only [Bool.and_eq_true, List.all_eq_true, decide_eq_true_eq, beq_iff_eq]
  refine ⟨⟨?_, ?_⟩, ?_⟩
  · intro f hf
    obtain ⟨h3, hlt, hnd'⟩ := hv f hf
    refine ⟨⟨h3, fun v hvm => hlt v hvm⟩, ?_⟩
    unfold pairwiseDistinct
    exact sortedNodup_of_nodup _ ((List.mergeSort_perm f _).nodup_iff.mpr hnd')
  · apply sortedNodup_of_nodup
    rw [(List.mergeSort_perm _ _).nodup_iff]
    apply List.Nodup.map_on _ hnd
    intro e he f hf hk
    obtain ⟨fe, hfe, _, he2⟩ := mem_allEdges faces e he
    obtain ⟨ff, hff, _, hf2⟩ := mem_allEdges faces f hf
    exact edgeKey_inj (n + 1) e f (by have := (hv fe hfe).2.1 _ he2; omega)
      (by have := (hv ff hff).2.1 _ hf2; omega) hk
  · apply mergeSort_eq_of_perm
    have : (allEdges faces).map (fun e => edgeKey (n + 1) (e.2, e.1)) =
        ((allEdges faces).map Prod.swap).map (edgeKey (n + 1)) := by
      simp [List.map_map, Function.comp_def]
    rw [this]
    exact (hcl.map _).symm


/-! ### sweep strips are revolve strips read backwards -/
theorem strip_swap_perm (n lo hi : Nat) :
    (allEdges (strip n lo hi)).Perm ((allEdges (stripRev n lo hi)).map Prod.swap) := by
  refine (strip_edges n lo hi).trans (List.Perm.trans ?_ ((stripRev_edges n lo hi).map _).symm)
  simp only [List.map_append, swap_swap_map]
  rw [List.perm_iff_count]
  intro x
  simp only [List.count_append]
  omega

/-- the strips of a closed sweep, uniformly -/
def closedStrips (n len : Nat) : List (List Nat) := (List.range len).flatMap fun j => strip n j ((j + 1) % len)

theorem closedStrips_eq (n len : Nat) (hl : 1 ≤ len) :
    sweepBody n (len - 1) ++ strip n (len - 1) 0 = closedStrips n len := by
  unfold closedStrips sweepBody
  have hs : len = (len - 1) + 1 := by omega
  conv_rhs => rw [hs, List.range_succ, List.flatMap_append]
  congr 1
  · apply List.flatMap_congr
    intro j hj
    simp only [List.mem_range] at hj
    rw [← hs, Nat.mod_eq_of_lt (by omega)]
  · simp only [List.flatMap_cons, List.flatMap_nil, List.append_nil]
    rw [Nat.mod_self]

theorem closedStrips_nodup (n len : Nat) (hn : 3 ≤ n) (hl : 3 ≤ len) : (allEdges (closedStrips n len)).Nodup := by
  unfold closedStrips
  rw [allEdges_flatMap, List.nodup_flatMap]
  constructor
  · intro j hj
    simp only [List.mem_range] at hj
    apply strip_edges_nodup
    by_cases h : j + 1 < len
    · rw [Nat.mod_eq_of_lt h]; omega
    · have : j + 1 = len := by omega
      rw [this, Nat.mod_self]; omega
  · have hp : (List.range len).Pairwise (· < ·) := List.pairwise_lt_range
    refine List.Pairwise.imp_of_mem ?_ hp
    intro j k hj hk hjk
    simp only [List.mem_range] at hk
    simp only [Function.onFun]
    rw [List.disjoint_left]
    intro e h1 h2
    have g1 := (strip_swap_perm n j ((j + 1) % len)).subset h1
    have g2 := (strip_swap_perm n k ((k + 1) % len)).subset h2
    rw [mem_map_swap] at g1 g2
    exact revolve_strips_disjoint n len j k hn hl hjk hk e.swap g1 g2


end ScadVerif.MeshLemmas
