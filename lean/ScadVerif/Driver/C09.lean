import ScadVerif.Driver.Proto
namespace ScadVerif.Driver.C09
open ScadVerif ScadVerif.Driver

def mtList (m : Mt4 Float) : List Float :=
  [m.x.x, m.x.y, m.x.z, m.x.w, m.y.x, m.y.y, m.y.z, m.y.w, m.z.x, m.z.y, m.z.z, m.z.w, m.w.x, m.w.y, m.w.z, m.w.w]
def norm (m : Mt4 Float) : Float := (mtList m).foldl (fun a x => fmax a x.abs) F!(0.0)
def mtClose (a b : Mt4 Float) (tol : Float) : Bool :=
  ((mtList a).zip (mtList b)).all fun (x, y) => (x - y).abs ≤ tol
def mtSame (a b : Mt4 Float) : Bool := ((mtList a).zip (mtList b)).all fun (x, y) => x == y
def p4Close (a b : Pt4 Float) (tol : Float) : Bool :=
  (a.x - b.x).abs ≤ tol && (a.y - b.y).abs ≤ tol && (a.z - b.z).abs ≤ tol && (a.w - b.w).abs ≤ tol
def p4Same (a b : Pt4 Float) : Bool := a.x == b.x && a.y == b.y && a.z == b.z && a.w == b.w
def pnorm (p : Pt4 Float) : Float := fmax (fmax p.x.abs p.y.abs) (fmax p.z.abs p.w.abs)

def hMm : Handler := fun args impl => do
  let ((a, b, p), _) ← (do let a ← mt4; let b ← mt4; let p ← pt4; pure (a, b, p) : P _).run args
  let i : Mt4 Float := Mt4.identity
  let model : Res := [
    ("ab", oMt4 (a * b)), ("abp", oPt4 ((a * b) * p)), ("a_bp", oPt4 (a * (b * p))),
    ("ia", oMt4 (i * a)), ("ai", oMt4 (a * i)), ("ip", oPt4 (i * p)),
    ("tt", oMt4 a.transposed.transposed), ("t", oMt4 a.transposed),
    ("t_ab", oMt4 (a * b).transposed), ("tb_ta", oMt4 (b.transposed * a.transposed)),
    ("ap", oPt4 (a * p)), ("ap3", oPt3 (Mt4.mulPt3 a p.asPt3))]
  let mut fails : List String := []
  let na := F!(1.0) + norm a; let nb := F!(1.0) + norm b; let np := F!(1.0) + pnorm p
  let eps := F!(1e-13)
  let abp ← impl.parse "abp" pt4; let a_bp ← impl.parse "a_bp" pt4
  if !(p4Close abp a_bp (F!(64.0) * eps * na * nb * np)) then fails := fails ++ ["mul_vec_assoc:(A*B)*p!=A*(B*p)"]
  -- against the true matrix product (the model's product is proved to be it: Props/C09)
  let ab ← impl.parse "ab" mt4
  if !(mtClose ab (a * b) (F!(64.0) * eps * na * nb)) then fails := fails ++ ["mul_is_matrix_product"]
  let ap ← impl.parse "ap" pt4
  if !(p4Close ap (a * p) (F!(64.0) * eps * na * np)) then fails := fails ++ ["mul_vec_is_matrix_vector_product"]
  let ia ← impl.parse "ia" mt4; let ai ← impl.parse "ai" mt4; let ip ← impl.parse "ip" pt4
  if !(mtSame ia a) then fails := fails ++ ["identity_left_neutral"]
  if !(mtSame ai a) then fails := fails ++ ["identity_right_neutral"]
  if !(p4Same ip p) then fails := fails ++ ["identity_fixes_points"]
  let tt ← impl.parse "tt" mt4
  if !(mtSame tt a) then fails := fails ++ ["transposed_twice"]
  let t ← impl.parse "t" mt4
  if !(mtSame t ⟨⟨a.x.x, a.y.x, a.z.x, a.w.x⟩, ⟨a.x.y, a.y.y, a.z.y, a.w.y⟩, ⟨a.x.z, a.y.z, a.z.z, a.w.z⟩, ⟨a.x.w, a.y.w, a.z.w, a.w.w⟩⟩) then
    fails := fails ++ ["transposed_entries"]
  let t_ab ← impl.parse "t_ab" mt4; let tb_ta ← impl.parse "tb_ta" mt4
  if !(mtClose t_ab tb_ta (F!(64.0) * eps * na * nb)) then fails := fails ++ ["transposed_mul"]
  pure (model, fails)

def hTr : Handler := fun args impl => do
  let ((t, p, w), _) ← (do let t ← pt3; let p ← pt3; let w ← f64; pure (t, p, w) : P _).run args
  let m : Mt4 Float := Mt4.translateMatrix t.x t.y t.z
  let s : Mt4 Float := Mt4.scaleMatrix t.x t.y t.z
  let model : Res := [("tm", oMt4 m), ("sm", oMt4 s),
    ("pt", oPt4 (m * p.asPt4 1)), ("dir", oPt4 (m * p.asPt4 0)), ("gen", oPt4 (m * p.asPt4 w)),
    ("sc", oPt4 (s * p.asPt4 w)), ("tm_sm", oMt4 (m * s)), ("sm_tm", oMt4 (s * m))]
  let mut fails : List String := []
  let pt ← impl.parse "pt" pt4
  if !(p4Same pt ⟨p.x + t.x, p.y + t.y, p.z + t.z, F!(1.0)⟩) then
    fails := fails ++ [s!"translate_moves_point:got=({fmtF pt.x},{fmtF pt.y},{fmtF pt.z},{fmtF pt.w})"]
  let dir ← impl.parse "dir" pt4
  if !(p4Same dir ⟨p.x, p.y, p.z, F!(0.0)⟩) then fails := fails ++ ["translate_leaves_direction"]
  let sc ← impl.parse "sc" pt4
  if !(p4Same sc ⟨p.x * t.x, p.y * t.y, p.z * t.z, w⟩) then fails := fails ++ ["scale_per_axis"]
  let gen ← impl.parse "gen" pt4
  let tol := F!(1e-12) * (F!(1.0) + pnorm (p.asPt4 w)) * (F!(1.0) + pnorm (t.asPt4 1))
  if !(p4Close gen ⟨p.x + w * t.x, p.y + w * t.y, p.z + w * t.z, w⟩ tol) then
    fails := fails ++ ["translate_homogeneous"]
  pure (model, fails)

def optMt4 (o : Option (Mt4 Float)) : List String := match o with | some m => "o+" :: oMt4 m | none => ["o-"]

def hInv : Handler := fun args impl => do
  let ((a, sing), _) ← (do let a ← mt4; let s ← bool; pure (a, s) : P _).run args
  let inv := a.inverse
  let model : Res := ("inv", optMt4 inv) :: (match inv with
    | some n => [("a_inv", oMt4 (a * n)), ("inv_a", oMt4 (n * a))]
    | none => [])
  let mut fails : List String := []
  let r ← impl.parse "inv" (opt mt4)
  match r with
  | none =>
    -- None only for a zero determinant
    if !(a.det == F!(0.0)) then fails := fails ++ ["inverse_none_but_det_nonzero"]
  | some n =>
    if sing then fails := fails ++ ["inverse_some_for_singular_matrix"]
    let i : Mt4 Float := Mt4.identity
    let tol := F!(1e-12) * (F!(1.0) + norm a) * (F!(1.0) + norm n) * F!(64.0)
    -- products computed with the reference product on the implementation's inverse
    if !(mtClose (a * n) i tol && mtClose (n * a) i tol) then fails := fails ++ ["inverse_is_not_two_sided_inverse"]
    if !sing then
      let ai ← impl.parse "a_inv" mt4; let ia ← impl.parse "inv_a" mt4
      if !(mtClose ai i tol && mtClose ia i tol) then fails := fails ++ ["A*inverse(A)!=identity"]
  pure (model, fails)

def hIdx : Handler := fun args impl => do
  let ((a, i, v), _) ← (do let a ← mt4; let i ← nat; let v ← f64; pure (a, i, v) : P _).run args
  let model : Res := [
    ("get", match a.get? i with | some x => [oF x] | none => ["PANIC"]),
    ("set", match a.set? i v with | some m => oMt4 m | none => ["PANIC"])]
  let mut fails : List String := []
  if i < 16 then
    let g ← impl.parse "get" f64
    if !(g == (mtList a).getD i F!(0.0)) then fails := fails ++ ["index_column_major_read"]
    let s ← impl.parse "set" mt4
    let expect := (mtList a).set i v
    if !(((mtList s).zip expect).all fun (x, y) => x == y) then fails := fails ++ ["index_column_major_write"]
  else
    if !(impl.isPanic "get" && impl.isPanic "set") then fails := fails ++ ["index_out_of_range_must_panic"]
  pure (model, fails)

def hApply : Handler := fun args impl => do
  let ((a, ps), _) ← (do let a ← mt4; let ps ← listOf pt3; pure (a, ps) : P _).run args
  let mp := Mt4.applyMatrix ps a
  let faces := "L2 L3 u0 u1 u2 L4 u2 u1 u0 u3".splitOn " "
  let model : Res := [("pts", oList oPt3 mp), ("poly_pts", oList oPt3 mp), ("poly_faces", faces)]
  let mut fails : List String := []
  let r ← impl.parse "pts" (listOf pt3)
  let rp ← impl.parse "poly_pts" (listOf pt3)
  if r.length ≠ ps.length || rp.length ≠ ps.length then fails := fails ++ ["apply_matrix_length"]
  else
    let tol := F!(1e-12) * (F!(1.0) + norm a)
    for (p, q) in ps.zip r do
      let e := a * p.asPt4 1
      let sc := tol * (F!(1.0) + fmax (fmax p.x.abs p.y.abs) p.z.abs)
      if !((q.x - e.x).abs ≤ sc && (q.y - e.y).abs ≤ sc && (q.z - e.z).abs ≤ sc) then
        fails := fails ++ ["apply_matrix_full_affine_map"]; break
    if impl.find "pts" ≠ impl.find "poly_pts" then fails := fails ++ ["polyhedron_apply_matrix_differs"]
  if impl.find "poly_faces" ≠ some faces then fails := fails ++ ["polyhedron_faces_touched"]
  pure (model, fails)

def handlers : List (String × Handler) :=
  [("mm", hMm), ("tr", hTr), ("inv", hInv), ("idx", hIdx), ("apply", hApply)]
end ScadVerif.Driver.C09
