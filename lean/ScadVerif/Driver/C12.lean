import ScadVerif.Driver.Proto
namespace ScadVerif.Driver.C12
open ScadVerif ScadVerif.Driver

def hTrig : Handler := fun args impl => do
  let (x, _) ← f64.run args
  let model : Res := [
    ("dsin", [oF (dsin x)]), ("dcos", [oF (dcos x)]), ("dtan", [oF (dtan x)]),
    ("dasin", [oF (dasin x)]), ("dacos", [oF (dacos x)]), ("datan", [oF (datan x)]),
    ("rt_asin", [oF (dasin (dsin x))]), ("rt_acos", [oF (dacos (dcos x))]),
    ("rt_atan", [oF (datan (dtan x))])]
  let mut fails : List String := []
  let rad := x * (floatPi / F!(180.0))
  let s ← impl.parse "dsin" f64; let c ← impl.parse "dcos" f64; let t ← impl.parse "dtan" f64
  if !(close s (Float.sin rad) F!(1e-12)) then fails := fails ++ ["dsin_is_sine_of_degrees"]
  if !(close c (Float.cos rad) F!(1e-12)) then fails := fails ++ ["dcos_is_cosine_of_degrees"]
  if !(close t (Float.tan rad) F!(1e-9) || (Float.tan rad).abs > F!(1e8)) then fails := fails ++ ["dtan_is_tangent_of_degrees"]
  -- inverse functions return degrees: feed them back through Lean's own sine/cosine/tangent
  if x.abs ≤ F!(1.0) then
    let a ← impl.parse "dasin" f64
    if !(a.abs ≤ F!(90.0000001) && close (Float.sin (a * (floatPi / F!(180.0)))) x F!(1e-9)) then
      fails := fails ++ [s!"dasin_returns_degrees:dasin({fmtF x})={fmtF a}"]
    let b ← impl.parse "dacos" f64
    if !(-F!(1e-7) ≤ b && b ≤ F!(180.0000001) && close (Float.cos (b * (floatPi / F!(180.0)))) x F!(1e-9)) then
      fails := fails ++ [s!"dacos_returns_degrees:dacos({fmtF x})={fmtF b}"]
  let d ← impl.parse "datan" f64
  if x.abs ≤ F!(1e6) then
    if !(d.abs ≤ F!(90.0000001) && close (Float.tan (d * (floatPi / F!(180.0)))) x F!(1e-6)) then
      fails := fails ++ [s!"datan_returns_degrees:datan({fmtF x})={fmtF d}"]
  -- round trips on the stated intervals (tolerance: conditioning near the interval ends)
  let tol := F!(1e-6)
  if -F!(90.0) ≤ x && x ≤ F!(90.0) then
    let r ← impl.parse "rt_asin" f64
    if !((r - x).abs ≤ tol) then fails := fails ++ [s!"dasin_dsin_roundtrip:a={fmtF x}:got={fmtF r}"]
  if F!(0.0) ≤ x && x ≤ F!(180.0) then
    let r ← impl.parse "rt_acos" f64
    if !((r - x).abs ≤ tol) then fails := fails ++ [s!"dacos_dcos_roundtrip:a={fmtF x}:got={fmtF r}"]
  if -F!(89.999) < x && x < F!(89.999) then
    let r ← impl.parse "rt_atan" f64
    if !((r - x).abs ≤ tol) then fails := fails ++ [s!"datan_dtan_roundtrip:a={fmtF x}:got={fmtF r}"]
  pure (model, fails)

def hApprox : Handler := fun args impl => do
  let ((a, b, e), _) ← (do let a ← f64; let b ← f64; let e ← f64; pure (a, b, e) : P _).run args
  let model : Res := [("approx", [oB (approxEq a b e)])]
  let r ← impl.parse "approx" bool
  let fails := if r == decide ((a - b).abs < e) then [] else ["approx_eq_iff_abs_lt_eps"]
  pure (model, fails)

def handlers : List (String × Handler) := [("trig", hTrig), ("approx", hApprox)]
end ScadVerif.Driver.C12
