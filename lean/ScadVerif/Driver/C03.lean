import ScadVerif.Driver.Geo
namespace ScadVerif.Driver.C03
open ScadVerif ScadVerif.Driver ScadVerif.Spec

def optIdx (o : Option (List Nat)) : List String :=
  match o with | some l => oList (fun n => [oU n]) l | none => ["PANIC"]

/-- orthonormal-ish basis (u, v) of the plane with normal `n`, u × v ∥ n -/
def planeBasis (n : Pt3 Float) : Pt3 Float × Pt3 Float :=
  let a : Pt3 Float := if n.x.abs ≤ n.y.abs && n.x.abs ≤ n.z.abs then ⟨1, 0, 0⟩
    else if n.y.abs ≤ n.z.abs then ⟨0, 1, 0⟩ else ⟨0, 0, 1⟩
  let u := (Pt3.cross a n).normalized
  let v := (Pt3.cross n u).normalized
  (u, v)

def project3 (n : Pt3 Float) (ps : List (Pt3 Float)) : List (Pt2 Float) :=
  let (u, v) := planeBasis n
  let o := ps.headD ⟨0, 0, 0⟩
  ps.map fun p => ⟨(Pt3.sub p o).dot u, (Pt3.sub p o).dot v⟩

/-- the tiling certificate evaluated on an implementation result.
`sameWinding`: triangles must be wound like the input (else the other way). -/
def tilingCert (poly0 : List (Pt2 Float)) (tris : List Nat) (sameWinding : Bool) : List String := Id.run do
  -- work relative to the first vertex: the shoelace sums lose all precision far from the origin
  let o := poly0.headD ⟨0, 0⟩
  let poly := poly0.map fun p => (⟨p.x - o.x, p.y - o.y⟩ : Pt2 Float)
  let n := poly.length
  let arr := poly.toArray
  let mut fails : List String := []
  if tris.length ≠ 3 * (n - 2) then
    return [s!"triangle_count:{tris.length / 3}_of_{n - 2}"]
  if !(tris.all (· < n)) then return ["index_out_of_range"]
  let a2 := area2 poly
  let scale2 := poly.foldl (fun m p => fmax m (fmax p.x.abs p.y.abs)) F!(0.0)
  let scale2 := scale2 * scale2
  let want : Float := if sameWinding then a2 else -a2
  let mut sum : Float := F!(0.0)
  let mut abssum : Float := F!(0.0)
  for t in triples tris do
    match t with
    | [i, j, k] =>
      let c := cross3 arr[i]! arr[j]! arr[k]!
      sum := sum + c
      abssum := abssum + c.abs
      if c * want < F!(0.0) && c.abs > F!(1e-9) * a2.abs / n.toFloat then
        fails := fails ++ ["triangle_wound_against_input"]
    | _ => pure ()
  if !(tilingEdges n tris sameWinding) then fails := fails ++ ["edges_do_not_tile_polygon"]
  if !((sum - want).abs ≤ F!(1e-9) * (abssum + a2.abs) + F!(1e-300)) then fails := fails ++ ["areas_do_not_sum_to_polygon_area"]
  -- no overlap: with all triangles wound one way and signed areas summing to the polygon's area
  -- the unsigned areas sum to it too
  if !((abssum - a2.abs).abs ≤ F!(1e-9) * (abssum + a2.abs) + F!(1e-300)) then fails := fails ++ ["triangles_overlap"]
  let _ := scale2
  return fails.eraseDups

def h2d (rev : Bool) : Handler := fun args impl => do
  let (ps, _) ← (listOf pt2).run args
  let model : Res := [("idx", optIdx (if rev then Tri.triangulate2dRev ps else Tri.triangulate2d ps))]
  if ps.length ≤ 3 then
    return (model, if impl.isPanic "idx" then [] else ["SKIP:fewer_than_four_vertices"])
  if impl.isPanic "idx" then return (model, ["triangulation_panicked"])
  let tris ← impl.parse "idx" (listOf nat)
  pure (model, labelDegenerate ps (tilingCert ps tris (!rev)))

def h3d (rev : Bool) : Handler := fun args impl => do
  let ((ps, nml), _) ← (do let ps ← listOf pt3; let n ← pt3; pure (ps, n) : P _).run args
  let model : Res := [("idx", optIdx (if rev then Tri.triangulate3dRev ps nml else Tri.triangulate3d ps nml))]
  if ps.length ≤ 3 then
    return (model, if impl.isPanic "idx" then [] else ["SKIP:fewer_than_four_vertices"])
  if impl.isPanic "idx" then return (model, ["triangulation_panicked"])
  let tris ← impl.parse "idx" (listOf nat)
  let p2 := project3 nml ps
  pure (model, labelDegenerate p2 (tilingCert p2 tris (!rev)))

def handlers : List (String × Handler) :=
  [("tri2d", h2d false), ("tri2d_rev", h2d true), ("tri3d", h3d false), ("tri3d_rev", h3d true)]
end ScadVerif.Driver.C03
