import ScadVerif.Driver.Tree
namespace ScadVerif.Driver.C13
open ScadVerif ScadVerif.Driver ScadVerif.Spec

def pSettings : P (Settings FNum) := do
  let k ← tok
  match k with
  | "gnone" => pure .none
  | "gfa" => return .fa (← fnum)
  | "gfs" => return .fs (← fnum)
  | "gfafs" => return .faFs (← fnum) (← fnum)
  | "gfn" => return .fn (← nat)
  | _ => throw s!"bad settings token {k}"

def wantAssigns : Settings FNum → List (List Char × List Char)
  | .none => []
  | .fa a => [(c!"$fa", a.txt)]
  | .fs s => [(c!"$fs", s.txt)]
  | .faFs a s => [(c!"$fa", a.txt), (c!"$fs", s.txt)]
  | .fn n => [(c!"$fn", natDigits n)]

/-- `file <settings> L<n> tree*` or `save tree` ↦ `@bytes s…` `@format s…` `@existed b` -/
def handle (isSave : Bool) : Handler := fun args impl => do
  let ((g, ts), _) ← (do
    if isSave then
      let t ← tree; pure (Settings.none, [t])
    else
      let g ← pSettings; let ts ← listOf tree; pure (g, ts) : P _).run args
  let text := if isSave then saveContent FNum.show (ts.headD (Scad.node .union [])) else fileContent FNum.show g ts
  let bytesTok := oStr (String.ofList text)
  -- `format!` on the calling thread covers the children only
  let fmtTok := oStr (String.ofList (emitAll FNum.show ts))
  let model : Res := [("bytes", [bytesTok]), ("format", [fmtTok])]
  if impl.isPanic "bytes" then return (model, ["saving_panicked"])
  let mut fails : List String := []
  let bytes ← impl.parse "bytes" str
  let fmt ← impl.parse "format" str
  -- exactly: settings, then the text format!() gives for each child in order, nothing else
  let settingsText := String.ofList (g.lines FNum.show)
  if bytes != settingsText ++ fmt then fails := fails ++ ["file_is_not_settings_plus_format_of_children"]
  if !ts.all scadWF then return (model, fails)
  match parseFile bytes.toList with
  | none => fails := fails ++ ["file_does_not_parse_as_openscad"]
  | some tops =>
    let assigns := tops.filterMap fun t => match t with | .assign n (.num v) => some (n, v) | _ => none
    let stmts := tops.filterMap fun t => match t with | .stmt s => some s | _ => none
    if assigns != wantAssigns g then fails := fails ++ ["global_settings_differ"]
    if tops.length ≠ assigns.length + stmts.length then fails := fails ++ ["unexpected_top_level_item"]
    if stmts.map (fun s => some s.shape) != ts.map scadShape then fails := fails ++ ["top_level_statements_are_not_the_children"]
    -- settings come first
    match tops.drop assigns.length |>.find? (fun t => match t with | .assign .. => true | _ => false) with
    | some _ => fails := fails ++ ["setting_after_a_statement"]
    | none => pure ()
  pure (model, fails)

def handlers : List (String × Handler) := [("file", handle false), ("save", handle true)]
end ScadVerif.Driver.C13
