import ScadVerif.Driver.Proto
namespace ScadVerif.Driver.C11
open ScadVerif ScadVerif.Driver

def optF (o : Option Float) : List String := match o with | some x => [oF x] | none => ["PANIC"]
def optPt2 (o : Option (Pt2 Float)) : List String := match o with | some x => oPt2 x | none => ["PANIC"]
def optPt3 (o : Option (Pt3 Float)) : List String := match o with | some x => oPt3 x | none => ["PANIC"]
def optPt4 (o : Option (Pt4 Float)) : List String := match o with | some x => oPt4 x | none => ["PANIC"]

/-- oracle helper: two groups of the impl result must be bit-identical -/
def sameGroup (r : Res) (a b : String) : List String :=
  if r.find a = r.find b then [] else [s!"assign_form_differs:{a}!={b}"]

def mag2 (a : Pt2 Float) : Float := fmax a.x.abs a.y.abs
def mag3 (a : Pt3 Float) : Float := fmax (fmax a.x.abs a.y.abs) a.z.abs

def hPt2 : Handler := fun args impl => do
  let ((a, b, k, t, i, v), _) ← (do
    let a ← pt2; let b ← pt2; let k ← f64; let t ← f64; let i ← nat; let v ← f64
    pure (a, b, k, t, i, v) : P _).run args
  let model : Res := [
    ("add", oPt2 (a + b)), ("sub", oPt2 (a - b)), ("mul", oPt2 (a * k)), ("div", oPt2 (a / k)),
    ("neg", oPt2 (-a)),
    ("add_assign", oPt2 (a + b)), ("sub_assign", oPt2 (a - b)), ("mul_assign", oPt2 (a * k)),
    ("div_assign", oPt2 (a / k)),
    ("dot", [oF (a.dot b)]), ("len2", [oF a.len2]), ("len", [oF a.len]),
    ("normalized", oPt2 a.normalized), ("normalize", oPt2 a.normalize),
    ("lerp", oPt2 (a.lerp b t)), ("lerp0", oPt2 (a.lerp b 0)), ("lerp1", oPt2 (a.lerp b 1)),
    ("to_xz", oPt3 a.toXz), ("as_pt3", oPt3 (a.asPt3 v)),
    ("get", optF (a.get? i)), ("set", optPt2 (a.set? i v))]
  -- oracles on the implementation's own outputs
  let mut fails : List String := []
  fails := fails ++ sameGroup impl "add" "add_assign" ++ sameGroup impl "sub" "sub_assign"
    ++ sameGroup impl "mul" "mul_assign" ++ sameGroup impl "div" "div_assign"
  let ng ← impl.parse "neg" pt2
  if !(ng.x == -a.x && ng.y == -a.y) then fails := fails ++ ["neg_componentwise"]
  let ad ← impl.parse "add" pt2
  if !(ad.x == a.x + b.x && ad.y == a.y + b.y) then fails := fails ++ ["add_componentwise"]
  let sb ← impl.parse "sub" pt2
  if !(sb.x == a.x - b.x && sb.y == a.y - b.y) then fails := fails ++ ["sub_componentwise"]
  let ml ← impl.parse "mul" pt2
  if !(ml.x == a.x * k && ml.y == a.y * k) then fails := fails ++ ["mul_componentwise"]
  let dv ← impl.parse "div" pt2
  if !(dv.x == a.x / k && dv.y == a.y / k) then fails := fails ++ ["div_componentwise"]
  let l0 ← impl.parse "lerp0" pt2
  if !(l0.x == a.x && l0.y == a.y) then fails := fails ++ ["lerp_zero"]
  let l1 ← impl.parse "lerp1" pt2
  let sc := F!(1e-12) * (F!(1.0) + mag2 a + mag2 b)
  if !((l1.x - b.x).abs ≤ sc && (l1.y - b.y).abs ≤ sc) then fails := fails ++ ["lerp_one"]
  let nz ← impl.parse "normalized" pt2
  if mag2 a > F!(0.0) then
    if !(close (nz.x * nz.x + nz.y * nz.y) F!(1.0) F!(1e-12)) then fails := fails ++ ["normalized_len"]
    if !((a.x * nz.y - a.y * nz.x).abs ≤ F!(1e-12) * mag2 a && a.x * nz.x + a.y * nz.y > F!(0.0)) then
      fails := fails ++ ["normalized_direction"]
  let tx ← impl.parse "to_xz" pt3
  if !(tx.x == a.x && tx.y == F!(0.0) && tx.z == a.y) then fails := fails ++ ["to_xz_slots"]
  let ap ← impl.parse "as_pt3" pt3
  if !(ap.x == a.x && ap.y == a.y && ap.z == v) then fails := fails ++ ["as_pt3_slots"]
  if i < 2 then
    let g ← impl.parse "get" f64
    if !(g == (if i = 0 then a.x else a.y)) then fails := fails ++ ["index_read"]
    let s ← impl.parse "set" pt2
    if !(s.x == (if i = 0 then v else a.x) && s.y == (if i = 1 then v else a.y)) then
      fails := fails ++ ["index_write"]
  else
    if !(impl.isPanic "get" && impl.isPanic "set") then fails := fails ++ ["index_out_of_range_must_panic"]
  pure (model, fails)

def hPt3 : Handler := fun args impl => do
  let ((a, b, k, t, i, v), _) ← (do
    let a ← pt3; let b ← pt3; let k ← f64; let t ← f64; let i ← nat; let v ← f64
    pure (a, b, k, t, i, v) : P _).run args
  let model : Res := [
    ("add", oPt3 (a + b)), ("sub", oPt3 (a - b)), ("mul", oPt3 (a * k)), ("div", oPt3 (a / k)),
    ("neg", oPt3 (-a)),
    ("add_assign", oPt3 (a + b)), ("sub_assign", oPt3 (a - b)), ("mul_assign", oPt3 (a * k)),
    ("div_assign", oPt3 (a / k)),
    ("dot", [oF (a.dot b)]), ("cross", oPt3 (a.cross b)), ("len2", [oF a.len2]), ("len", [oF a.len]),
    ("normalized", oPt3 a.normalized), ("normalize", oPt3 a.normalize),
    ("lerp", oPt3 (a.lerp b t)), ("lerp0", oPt3 (a.lerp b 0)), ("lerp1", oPt3 (a.lerp b 1)),
    ("as_pt4", oPt4 (a.asPt4 v)),
    ("get", optF (a.get? i)), ("set", optPt3 (a.set? i v))]
  let mut fails : List String := []
  fails := fails ++ sameGroup impl "add" "add_assign" ++ sameGroup impl "sub" "sub_assign"
    ++ sameGroup impl "mul" "mul_assign" ++ sameGroup impl "div" "div_assign"
  let ng ← impl.parse "neg" pt3
  if !(ng.x == -a.x && ng.y == -a.y && ng.z == -a.z) then fails := fails ++ ["neg_componentwise"]
  let ad ← impl.parse "add" pt3
  if !(ad.x == a.x + b.x && ad.y == a.y + b.y && ad.z == a.z + b.z) then fails := fails ++ ["add_componentwise"]
  let sb ← impl.parse "sub" pt3
  if !(sb.x == a.x - b.x && sb.y == a.y - b.y && sb.z == a.z - b.z) then fails := fails ++ ["sub_componentwise"]
  let ml ← impl.parse "mul" pt3
  if !(ml.x == a.x * k && ml.y == a.y * k && ml.z == a.z * k) then fails := fails ++ ["mul_componentwise"]
  let dv ← impl.parse "div" pt3
  if !(dv.x == a.x / k && dv.y == a.y / k && dv.z == a.z / k) then fails := fails ++ ["div_componentwise"]
  let cr ← impl.parse "cross" pt3
  let m := (F!(1.0) + mag3 a) * (F!(1.0) + mag3 b)
  if !((cr.dot a).abs ≤ F!(1e-12) * m * (F!(1.0) + mag3 a) && (cr.dot b).abs ≤ F!(1e-12) * m * (F!(1.0) + mag3 b)) then
    fails := fails ++ ["cross_perpendicular"]
  if !(close cr.len2 (a.len2 * b.len2 - a.dot b * a.dot b) F!(1e-9) ||
       (cr.len2 - (a.len2 * b.len2 - a.dot b * a.dot b)).abs ≤ F!(1e-10) * a.len2 * b.len2) then
    fails := fails ++ ["cross_lagrange"]
  let l0 ← impl.parse "lerp0" pt3
  if !(l0.x == a.x && l0.y == a.y && l0.z == a.z) then fails := fails ++ ["lerp_zero"]
  let l1 ← impl.parse "lerp1" pt3
  let sc := F!(1e-12) * (F!(1.0) + mag3 a + mag3 b)
  if !((l1.x - b.x).abs ≤ sc && (l1.y - b.y).abs ≤ sc && (l1.z - b.z).abs ≤ sc) then
    fails := fails ++ ["lerp_one"]
  let nz ← impl.parse "normalized" pt3
  if mag3 a > F!(0.0) then
    if !(close nz.len2 F!(1.0) F!(1e-12)) then fails := fails ++ ["normalized_len"]
    if !(mag3 (a.cross nz) ≤ F!(1e-12) * mag3 a && a.dot nz > F!(0.0)) then
      fails := fails ++ ["normalized_direction"]
  let ap ← impl.parse "as_pt4" pt4
  if !(ap.x == a.x && ap.y == a.y && ap.z == a.z && ap.w == v) then fails := fails ++ ["as_pt4_slots"]
  if i < 3 then
    let g ← impl.parse "get" f64
    if !(g == (if i = 0 then a.x else if i = 1 then a.y else a.z)) then fails := fails ++ ["index_read"]
    let s ← impl.parse "set" pt3
    if !(s.x == (if i = 0 then v else a.x) && s.y == (if i = 1 then v else a.y)
        && s.z == (if i = 2 then v else a.z)) then fails := fails ++ ["index_write"]
  else
    if !(impl.isPanic "get" && impl.isPanic "set") then fails := fails ++ ["index_out_of_range_must_panic"]
  pure (model, fails)

def hPt4 : Handler := fun args impl => do
  let ((a, b, k, t, i, v), _) ← (do
    let a ← pt4; let b ← pt4; let k ← f64; let t ← f64; let i ← nat; let v ← f64
    pure (a, b, k, t, i, v) : P _).run args
  let model : Res := [
    ("add", oPt4 (a + b)), ("sub", oPt4 (a - b)), ("mul", oPt4 (a * k)), ("div", oPt4 (a / k)),
    ("neg", oPt4 (-a)),
    ("add_assign", oPt4 (a + b)), ("sub_assign", oPt4 (a - b)), ("mul_assign", oPt4 (a * k)),
    ("div_assign", oPt4 (a / k)),
    ("dot", [oF (a.dot b)]), ("cross", oPt4 (a.cross b)), ("len2", [oF a.len2]), ("len", [oF a.len]),
    ("normalized", oPt4 a.normalized), ("normalize", oPt4 a.normalize),
    ("lerp", oPt4 (a.lerp b t)), ("lerp0", oPt4 (a.lerp b 0)), ("lerp1", oPt4 (a.lerp b 1)),
    ("as_pt3", oPt3 a.asPt3),
    ("get", optF (a.get? i)), ("set", optPt4 (a.set? i v))]
  let mut fails : List String := []
  fails := fails ++ sameGroup impl "add" "add_assign" ++ sameGroup impl "sub" "sub_assign"
    ++ sameGroup impl "mul" "mul_assign" ++ sameGroup impl "div" "div_assign"
  let ng ← impl.parse "neg" pt4
  if !(ng.x == -a.x && ng.y == -a.y && ng.z == -a.z && ng.w == -a.w) then fails := fails ++ ["neg_componentwise"]
  let ad ← impl.parse "add" pt4
  if !(ad.x == a.x + b.x && ad.y == a.y + b.y && ad.z == a.z + b.z && ad.w == a.w + b.w) then
    fails := fails ++ ["add_componentwise"]
  let sb ← impl.parse "sub" pt4
  if !(sb.x == a.x - b.x && sb.y == a.y - b.y && sb.z == a.z - b.z && sb.w == a.w - b.w) then
    fails := fails ++ ["sub_componentwise"]
  let ml ← impl.parse "mul" pt4
  if !(ml.x == a.x * k && ml.y == a.y * k && ml.z == a.z * k && ml.w == a.w * k) then
    fails := fails ++ ["mul_componentwise"]
  let dv ← impl.parse "div" pt4
  if !(dv.x == a.x / k && dv.y == a.y / k && dv.z == a.z / k && dv.w == a.w / k) then
    fails := fails ++ ["div_componentwise"]
  let a3 := a.asPt3; let b3 := b.asPt3
  let d ← impl.parse "dot" f64
  if !(close d (a3.dot b3) F!(1e-12)) then fails := fails ++ ["dot_is_xyz_dot"]
  let cr ← impl.parse "cross" pt4
  let m := (F!(1.0) + mag3 a3) * (F!(1.0) + mag3 b3)
  if !((cr.asPt3.dot a3).abs ≤ F!(1e-12) * m * (F!(1.0) + mag3 a3) && (cr.asPt3.dot b3).abs ≤ F!(1e-12) * m * (F!(1.0) + mag3 b3)
       && cr.w == F!(0.0)) then
    fails := fails ++ ["cross_perpendicular_xyz"]
  let l0 ← impl.parse "lerp0" pt4
  if !(l0.x == a.x && l0.y == a.y && l0.z == a.z && l0.w == a.w) then fails := fails ++ ["lerp_zero"]
  let nz ← impl.parse "normalized" pt4
  if mag3 a3 > F!(0.0) then
    if !(close nz.asPt3.len2 F!(1.0) F!(1e-12)) then fails := fails ++ ["normalized_len_xyz"]
    if !(mag3 (a3.cross nz.asPt3) ≤ F!(1e-12) * mag3 a3 && a3.dot nz.asPt3 > F!(0.0)) then
      fails := fails ++ ["normalized_direction"]
  let ap ← impl.parse "as_pt3" pt3
  if !(ap.x == a.x && ap.y == a.y && ap.z == a.z) then fails := fails ++ ["as_pt3_slots"]
  if i < 4 then
    let g ← impl.parse "get" f64
    if !(g == (if i = 0 then a.x else if i = 1 then a.y else if i = 2 then a.z else a.w)) then
      fails := fails ++ ["index_read"]
    let s ← impl.parse "set" pt4
    if !(s.x == (if i = 0 then v else a.x) && s.y == (if i = 1 then v else a.y)
        && s.z == (if i = 2 then v else a.z) && s.w == (if i = 3 then v else a.w)) then
      fails := fails ++ ["index_write"]
  else
    if !(impl.isPanic "get" && impl.isPanic "set") then fails := fails ++ ["index_out_of_range_must_panic"]
  pure (model, fails)

/-- list wrappers: `pts2 <list> d deg`, `pts3 <list> d z` -/
def hPts2 : Handler := fun args impl => do
  let ((ps, d), _) ← (do let ps ← listOf pt2; let d ← pt2; pure (ps, d) : P _).run args
  let model : Res := [("translate", oList oPt2 (Pt2s.translate ps d))]
  let tr ← impl.parse "translate" (listOf pt2)
  let mut fails : List String := []
  if tr.length ≠ ps.length then fails := fails ++ ["translate_length"]
  else
    for (p, q) in ps.zip tr do
      if !(q.x == p.x + d.x && q.y == p.y + d.y) then fails := fails ++ ["translate_every_element"]; break
  pure (model, fails)

def hPts3 : Handler := fun args impl => do
  let ((ps, d, ps2, z), _) ← (do
    let ps ← listOf pt3; let d ← pt3; let ps2 ← listOf pt2; let z ← f64
    pure (ps, d, ps2, z) : P _).run args
  let model : Res := [("translate", oList oPt3 (Pt3s.translate ps d)),
                      ("from_pt2s", oList oPt3 (Pt3s.fromPt2s ps2 z))]
  let tr ← impl.parse "translate" (listOf pt3)
  let fp ← impl.parse "from_pt2s" (listOf pt3)
  let mut fails : List String := []
  if tr.length ≠ ps.length then fails := fails ++ ["translate_length"]
  else
    for (p, q) in ps.zip tr do
      if !(q.x == p.x + d.x && q.y == p.y + d.y && q.z == p.z + d.z) then
        fails := fails ++ ["translate_every_element"]; break
  if fp.length ≠ ps2.length then fails := fails ++ ["from_pt2s_length"]
  else
    for (p, q) in ps2.zip fp do
      if !(q.x == p.x && q.y == p.y && q.z == z) then fails := fails ++ ["from_pt2s_slots"]; break
  pure (model, fails)

def handlers : List (String × Handler) :=
  [("pt2", hPt2), ("pt3", hPt3), ("pt4", hPt4), ("pts2", hPts2), ("pts3", hPts3)]

end ScadVerif.Driver.C11
