/- Trees with plain `Float` numbers: reading the harness dump and writing the model's tree in the
same token format (C14–C18). -/
import ScadVerif.Driver.Tree
namespace ScadVerif.Driver
open ScadVerif

def paths' : P (List (List Nat)) := listOf (listOf nat)

def opFieldsF (n : String) : P (ScadOp Float) :=
  if n = "Union" then pure ScadOp.union
  else if n = "Difference" then pure ScadOp.difference
  else if n = "Intersection" then pure ScadOp.intersection
  else if n = "Hull" then pure ScadOp.hull
  else if n = "Circle" then do return ScadOp.circle (← f64) (← opt f64) (← opt f64) (← opt nat)
  else if n = "Sphere" then do return ScadOp.sphere (← f64) (← opt f64) (← opt f64) (← opt nat)
  else if n = "Square" then do return ScadOp.square (← pt2) (← bool)
  else if n = "Cube" then do return ScadOp.cube (← pt3) (← bool)
  else if n = "Polygon" then do return ScadOp.polygon (← listOf pt2) (← opt paths') (← nat)
  else if n = "Text" then do
    let t ← strChars; let sz ← f64; let font ← strChars; let h ← kname; let v ← kname
    let sp ← f64; let d ← kname; let lang ← strChars; let scr ← strChars; let fn ← opt nat
    return ScadOp.text t sz font h v sp d lang scr fn
  else if n = "Import" then do return ScadOp.import_ (← strChars) (← nat)
  else if n = "Projection" then do return ScadOp.projection (← bool)
  else if n = "Cylinder" then do
    return ScadOp.cylinder (← f64) (← f64) (← f64) (← bool) (← opt f64) (← opt f64) (← opt nat)
  else if n = "Polyhedron" then do return ScadOp.polyhedron (← listOf pt3) (← paths') (← nat)
  else if n = "LinearExtrude" then do
    return ScadOp.linearExtrude (← f64) (← bool) (← nat) (← f64) (← pt2) (← opt nat) (← opt nat)
  else if n = "RotateExtrude" then do
    return ScadOp.rotateExtrude (← f64) (← nat) (← opt f64) (← opt f64) (← opt nat)
  else if n = "Surface" then do return ScadOp.surface (← strChars) (← bool) (← bool) (← nat)
  else if n = "Translate" then do return ScadOp.translate (← pt3)
  else if n = "Rotate" then do return ScadOp.rotate (← opt f64) (← bool) (← pt3)
  else if n = "Scale" then do return ScadOp.scale (← pt3)
  else if n = "Resize" then do
    let ns ← pt3; let a ← bool; let iv ← bool; let x ← bool; let y ← bool; let z ← bool; let c ← nat
    return ScadOp.resize ns a iv (x, y, z) c
  else if n = "Mirror" then do return ScadOp.mirror (← pt3)
  else if n = "Color" then do return ScadOp.color (← opt pt4) (← opt kname) (← opt strChars) (← opt f64)
  else if n = "Offset" then do return ScadOp.offset (← opt f64) (← opt f64) (← bool)
  else if n = "Minkowski" then do return ScadOp.minkowski (← nat)
  else throw s!"unknown op {n}"

partial def treeF : P (Scad Float) := do
  let cs ← tagged 'N'
  let op ← opFieldsF (String.ofList cs)
  let kids ← listOf treeF
  pure (Scad.node op kids)

def oOptF (o : Option Float) : List String := match o with | some x => ["o+", oF x] | none => ["o-"]
def oOptU (o : Option Nat) : List String := match o with | some x => ["o+", oU x] | none => ["o-"]
def oChars (s : List Char) : String := oStr (String.ofList s)
def oKw (s : List Char) : String := "k" ++ String.ofList s
def oPaths (p : List (List Nat)) : List String := oList (fun f => oList (fun n => [oU n]) f) p

def oOp : ScadOp Float → List String
  | .union => ["NUnion"] | .difference => ["NDifference"] | .intersection => ["NIntersection"] | .hull => ["NHull"]
  | .circle r fa fs fn => ["NCircle", oF r] ++ oOptF fa ++ oOptF fs ++ oOptU fn
  | .sphere r fa fs fn => ["NSphere", oF r] ++ oOptF fa ++ oOptF fs ++ oOptU fn
  | .square s c => "NSquare" :: oPt2 s ++ [oB c]
  | .cube s c => "NCube" :: oPt3 s ++ [oB c]
  | .polygon pts paths cv => "NPolygon" :: oList oPt2 pts ++
      (match paths with | some p => "o+" :: oPaths p | none => ["o-"]) ++ [oU cv]
  | .text t sz font h v sp d lang scr fn =>
    ["NText", oChars t, oF sz, oChars font, oKw h, oKw v, oF sp, oKw d, oChars lang, oChars scr] ++ oOptU fn
  | .import_ f cv => ["NImport", oChars f, oU cv]
  | .projection c => ["NProjection", oB c]
  | .cylinder h r1 r2 c fa fs fn => ["NCylinder", oF h, oF r1, oF r2, oB c] ++ oOptF fa ++ oOptF fs ++ oOptU fn
  | .polyhedron pts faces cv => "NPolyhedron" :: oList oPt3 pts ++ oPaths faces ++ [oU cv]
  | .linearExtrude h c cv tw sc sl fn => ["NLinearExtrude", oF h, oB c, oU cv, oF tw] ++ oPt2 sc ++ oOptU sl ++ oOptU fn
  | .rotateExtrude a cv fa fs fn => ["NRotateExtrude", oF a, oU cv] ++ oOptF fa ++ oOptF fs ++ oOptU fn
  | .surface f c i cv => ["NSurface", oChars f, oB c, oB i, oU cv]
  | .translate v => "NTranslate" :: oPt3 v
  | .rotate a sc v => "NRotate" :: oOptF a ++ [oB sc] ++ oPt3 v
  | .scale v => "NScale" :: oPt3 v
  | .resize ns a iv av cv => "NResize" :: oPt3 ns ++ [oB a, oB iv, oB av.1, oB av.2.1, oB av.2.2, oU cv]
  | .mirror v => "NMirror" :: oPt3 v
  | .color rgba col hex alpha =>
    "NColor" :: (match rgba with | some p => "o+" :: oPt4 p | none => ["o-"]) ++
      (match col with | some c => ["o+", oKw c] | none => ["o-"]) ++
      (match hex with | some h => ["o+", oChars h] | none => ["o-"]) ++ oOptF alpha
  | .offset r d ch => "NOffset" :: oOptF r ++ oOptF d ++ [oB ch]
  | .minkowski cv => ["NMinkowski", oU cv]

mutual
def oTree : Scad Float → List String
  | .mk op cs => oOp op ++ [s!"L{cs.toList.length}"] ++ oTrees cs
def oTrees : ScadList Float → List String
  | .nil => []
  | .cons h t => oTree h ++ oTrees t
end

def optTree (o : Option (Scad Float)) : List String := match o with | some t => oTree t | none => ["PANIC"]

mutual
/-- the first `Polyhedron` leaf of a tree in pre-order -/
def firstPoly : Scad Float → Option (List (Pt3 Float) × List (List Nat))
  | .mk (.polyhedron p f _) _ => some (p, f)
  | .mk _ cs => firstPolyL cs
def firstPolyL : ScadList Float → Option (List (Pt3 Float) × List (List Nat))
  | .nil => none
  | .cons h t => match firstPoly h with | some r => some r | none => firstPolyL t
end

mutual
/-- all `Polyhedron` leaves -/
def allPolys : Scad Float → List (List (Pt3 Float) × List (List Nat))
  | .mk (.polyhedron p f _) cs => (p, f) :: allPolysL cs
  | .mk _ cs => allPolysL cs
def allPolysL : ScadList Float → List (List (Pt3 Float) × List (List Nat))
  | .nil => []
  | .cons h t => allPolys h ++ allPolysL t
end

end ScadVerif.Driver
