import ScadVerif.Driver.Proto
import ScadVerif.Spec.Rotation
namespace ScadVerif.Driver.C10
open ScadVerif ScadVerif.Driver

def p3Close (a b : Pt3 Float) (tol : Float) : Bool :=
  (a.x - b.x).abs ≤ tol && (a.y - b.y).abs ≤ tol && (a.z - b.z).abs ≤ tol
def mag3 (a : Pt3 Float) : Float := fmax (fmax a.x.abs a.y.abs) a.z.abs
def show3 (a : Pt3 Float) : String := s!"({fmtF a.x},{fmtF a.y},{fmtF a.z})"

structure Axis where
  name : String
  rotated : Pt3 Float → Float → Pt3 Float
  matrix : Float → Mt4 Float
  ax : Pt3 Float
  spec : Float → Float → Pt3 Float → Pt3 Float

def axes : List Axis := [
  ⟨"x", Pt3.rotatedX, Mt4.rotXMatrix, ⟨1, 0, 0⟩, Spec.rotX⟩,
  ⟨"y", Pt3.rotatedY, Mt4.rotYMatrix, ⟨0, 1, 0⟩, Spec.rotY⟩,
  ⟨"z", Pt3.rotatedZ, Mt4.rotZMatrix, ⟨0, 0, 1⟩, Spec.rotZ⟩]

def hRot : Handler := fun args impl => do
  let ((p, deg, deg2, k), _) ← (do
    let p ← pt3; let d ← f64; let d2 ← f64; let k ← pt3; pure (p, d, d2, k) : P _).run args
  let q : Pt3 Float := ⟨p.z, p.x, p.y⟩
  let mut model : Res := []
  for a in axes do
    let n := a.name
    model := model ++ [
      (n ++ "_pt", oPt3 (a.rotated p deg)), (n ++ "_inplace", oPt3 (a.rotated p deg)),
      (n ++ "_list", oList oPt3 [a.rotated p deg, a.rotated q deg]),
      (n ++ "_poly", oList oPt3 [a.rotated p deg, a.rotated q deg]),
      (n ++ "_mat", oPt4 (a.matrix deg * p.asPt4 1)), (n ++ "_mat3", oPt3 (Mt4.mulPt3 (a.matrix deg) p)),
      (n ++ "_vec", oPt4 (Mt4.rotVec a.ax.x a.ax.y a.ax.z deg * p.asPt4 1)),
      (n ++ "_a_b", oPt3 (a.rotated (a.rotated p deg) deg2)), (n ++ "_sum", oPt3 (a.rotated p (deg + deg2))),
      (n ++ "_back", oPt3 (a.rotated (a.rotated p deg) (-deg)))]
  let km := Mt4.rotVec k.x k.y k.z deg
  let kp := km * p.asPt4 1
  let p2 : Pt2 Float := ⟨p.x, p.y⟩
  model := model ++ [("k_mat", oMt4 km), ("k_vec", oPt4 kp),
    ("k_back", oPt4 (Mt4.rotVec k.x k.y k.z (-deg) * kp)),
    ("r2", oPt2 (p2.rotated deg)), ("r2_inplace", oPt2 (p2.rotated deg)),
    ("r2_list", oList oPt2 [p2.rotated deg, (⟨p.y, p.z⟩ : Pt2 Float).rotated deg])]
  -- oracles: every route against the reference right-handed rotation, and against each other
  let mut fails : List String := []
  let c := dcos deg; let s := dsin deg
  let tol := F!(1e-12) * (F!(1.0) + mag3 p)
  for a in axes do
    let n := a.name
    let want := a.spec c s p
    let r ← impl.parse (n ++ "_pt") pt3
    if !(p3Close r want tol) then
      fails := fails ++ [s!"rotated_{n}_is_right_handed_rotation:got={show3 r}:want={show3 want}"]
    let m ← impl.parse (n ++ "_mat") pt4
    if !(p3Close m.asPt3 want tol && m.w == F!(1.0)) then fails := fails ++ [s!"rot_{n}_matrix_is_right_handed_rotation"]
    let m3 ← impl.parse (n ++ "_mat3") pt3
    if !(p3Close m3 want tol) then fails := fails ++ [s!"rot_{n}_matrix_times_pt3"]
    let v ← impl.parse (n ++ "_vec") pt4
    if !(p3Close v.asPt3 want tol) then
      fails := fails ++ [s!"rot_vec_about_{n}_axis_is_right_handed_rotation:got={show3 v.asPt3}:want={show3 want}"]
    if impl.find (n ++ "_inplace") ≠ impl.find (n ++ "_pt") then fails := fails ++ [s!"rotate_{n}_inplace_differs"]
    let l ← impl.parse (n ++ "_list") (listOf pt3)
    let pl ← impl.parse (n ++ "_poly") (listOf pt3)
    match l, pl with
    | [l0, l1], [p0, p1] =>
      if !(l0 == r && p0 == r && p3Close l1 (a.spec c s q) tol && l1 == p1) then
        fails := fails ++ [s!"list_or_polyhedron_rotate_{n}_differs"]
    | _, _ => fails := fails ++ [s!"list_rotate_{n}_changes_length"]
    -- isometry, composition, inverse
    if !(close r.len2 p.len2 F!(1e-12)) then fails := fails ++ [s!"rotate_{n}_preserves_length"]
    let ab ← impl.parse (n ++ "_a_b") pt3; let sm ← impl.parse (n ++ "_sum") pt3
    if !(p3Close ab sm (F!(1e-9) * (F!(1.0) + mag3 p))) then fails := fails ++ [s!"rotate_{n}_a_then_b_is_a_plus_b"]
    let bk ← impl.parse (n ++ "_back") pt3
    if !(p3Close bk p (F!(1e-11) * (F!(1.0) + mag3 p))) then fails := fails ++ [s!"rotate_{n}_minus_a_undoes_a"]
  let kv ← impl.parse "k_vec" pt4
  let want := Spec.rodrigues k c s p
  if !(p3Close kv.asPt3 want (F!(1e-11) * (F!(1.0) + mag3 p))) then
    fails := fails ++ [s!"rot_vec_is_rodrigues:axis={show3 k}:got={show3 kv.asPt3}:want={show3 want}"]
  if !(close kv.asPt3.len2 p.len2 F!(1e-10)) then fails := fails ++ ["rot_vec_preserves_length"]
  let kb ← impl.parse "k_back" pt4
  if !(p3Close kb.asPt3 p (F!(1e-10) * (F!(1.0) + mag3 p))) then fails := fails ++ ["rot_vec_minus_a_undoes_a"]
  let r2 ← impl.parse "r2" pt2
  let w2 := Spec.rot2 c s p2
  if !((r2.x - w2.x).abs ≤ tol && (r2.y - w2.y).abs ≤ tol) then fails := fails ++ ["pt2_rotated_is_ccw_rotation"]
  if impl.find "r2_inplace" ≠ impl.find "r2" then fails := fails ++ ["pt2_rotate_inplace_differs"]
  let l2 ← impl.parse "r2_list" (listOf pt2)
  match l2 with
  | [a0, _] => if !(a0.x == r2.x && a0.y == r2.y) then fails := fails ++ ["pt2s_rotate_differs"]
  | _ => fails := fails ++ ["pt2s_rotate_changes_length"]
  pure (model, fails)

def hLook : Handler := fun args impl => do
  let ((eye, center, up), _) ← (do let e ← pt3; let c ← pt3; let u ← pt3; pure (e, c, u) : P _).run args
  let model : Res := [("m", oMt4 (Mt4.lookAtLh eye center up))]
  let m ← impl.parse "m" mt4
  let a := m.x.asPt3; let b := m.y.asPt3; let c := m.z.asPt3
  let f := (Pt3.sub center eye).normalized
  let mut fails : List String := []
  let tol := F!(1e-9)
  -- is this a case the property covers?  up not (nearly) parallel to f, or up = +Z and exactly vertical
  let w := Pt3.cross up.normalized f
  let vertical := up.x == F!(0.0) && up.y == F!(0.0) && up.z > F!(0.0) && center.x == eye.x && center.y == eye.y
  if mag3 w < F!(1e-6) && !vertical then
    return (model, ["SKIP:up_nearly_parallel"])
  if !((a.dot a - F!(1.0)).abs ≤ tol && (b.dot b - F!(1.0)).abs ≤ tol && (c.dot c - F!(1.0)).abs ≤ tol
      && (a.dot b).abs ≤ tol && (a.dot c).abs ≤ tol && (b.dot c).abs ≤ tol) then
    fails := fails ++ ["look_at_columns_orthonormal"]
  if !((a.dot (b.cross c) - F!(1.0)).abs ≤ tol) then fails := fails ++ ["look_at_determinant_one"]
  if !(p3Close c f tol) then fails := fails ++ [s!"look_at_takes_z_to_direction:got={show3 c}:want={show3 f}"]
  if !((a.dot up.normalized).abs ≤ tol) then fails := fails ++ ["look_at_x_perpendicular_to_up"]
  pure (model, fails)

def handlers : List (String × Handler) := [("rot", hRot), ("look", hLook)]
end ScadVerif.Driver.C10
