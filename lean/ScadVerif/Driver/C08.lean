import ScadVerif.Driver.Geo
namespace ScadVerif.Driver.C08
open ScadVerif ScadVerif.Driver

def same2 (a b : Pt2 Float) : Bool := a.x == b.x && a.y == b.y
def same3 (a b : Pt3 Float) : Bool := a.x == b.x && a.y == b.y && a.z == b.z
def mag2 (p : Pt2 Float) : Float := fmax p.x.abs p.y.abs
def mag3 (p : Pt3 Float) : Float := fmax (fmax p.x.abs p.y.abs) p.z.abs
def lerp3 (a b : Pt3 Float) (t : Float) : Pt3 Float := ⟨a.x + (b.x - a.x) * t, a.y + (b.y - a.y) * t, a.z + (b.z - a.z) * t⟩

/-- de Casteljau in 3D (2D points are lifted with z = 0) -/
def casteljau (ctrl : List (Pt3 Float)) (t : Float) : Pt3 Float :=
  let rec go (fuel : Nat) (ps : List (Pt3 Float)) : Pt3 Float :=
    match fuel, ps with
    | _, [p] => p
    | 0, _ => ⟨0, 0, 0⟩
    | f + 1, ps => go f ((ps.zip (ps.drop 1)).map fun (a, b) => lerp3 a b t)
  go ctrl.length ctrl

/-- oracle of one curve: count, exact end points, de Casteljau points, control box -/
def curveOracle (ctrl : List (Pt3 Float)) (seg : Nat) (pts : List (Pt3 Float)) : List String := Id.run do
  let mut fails : List String := []
  if pts.length ≠ seg + 1 then return [s!"point_count:{pts.length}_want_{seg + 1}"]
  let s := ctrl.headD ⟨0, 0, 0⟩; let e := ctrl.getLastD ⟨0, 0, 0⟩
  if !(same3 (pts.headD ⟨1, 1, 1⟩) s) then fails := fails ++ ["first_point_is_not_start"]
  if !(same3 (pts.getLastD ⟨1, 1, 1⟩) e) then fails := fails ++ [s!"last_point_is_not_end:segments={seg}"]
  let scale := ctrl.foldl (fun m p => fmax m (mag3 p)) F!(1e-300)
  let lo (f : Pt3 Float → Float) := ctrl.foldl (fun m p => if f p < m then f p else m) F!(1e300)
  let hi (f : Pt3 Float → Float) := ctrl.foldl (fun m p => fmax m (f p)) (-F!(1e300))
  let mut k := 0
  for p in pts do
    let t := k.toFloat / seg.toFloat
    let w := casteljau ctrl t
    let tol := F!(1e-12) * scale
    if !((p.x - w.x).abs ≤ tol && (p.y - w.y).abs ≤ tol && (p.z - w.z).abs ≤ tol) then
      fails := fails ++ ["not_the_de_casteljau_point_at_i_over_segments"]; break
    if !(lo (·.x) - tol ≤ p.x && p.x ≤ hi (·.x) + tol && lo (·.y) - tol ≤ p.y && p.y ≤ hi (·.y) + tol
        && lo (·.z) - tol ≤ p.z && p.z ≤ hi (·.z) + tol) then
      fails := fails ++ ["outside_control_hull_box"]; break
    k := k + 1
  return fails

def lift (p : Pt2 Float) : Pt3 Float := ⟨p.x, p.y, 0⟩

/-- `quad2|cubic2 ctrl… seg` : free function, struct, and the 3D function on lifted input -/
def hCurve2 (cubic : Bool) : Handler := fun args impl => do
  let ((ctrl, seg), _) ← (do
    let n := if cubic then 4 else 3
    let mut c : List (Pt2 Float) := []
    for _ in [0:n] do c := c ++ [← pt2]
    let s ← nat
    pure (c, s) : P _).run args
  let g (i : Nat) := ctrl.getD i ⟨0, 0⟩
  let m2 := if cubic then Dim2.cubicBezier (g 0) (g 1) (g 2) (g 3) seg else Dim2.quadraticBezier (g 0) (g 1) (g 2) seg
  let m3 := if cubic then Dim3.cubicBezier (lift (g 0)) (lift (g 1)) (lift (g 2)) (lift (g 3)) seg
            else Dim3.quadraticBezier (lift (g 0)) (lift (g 1)) (lift (g 2)) seg
  let model : Res := [("free", oList oPt2 m2), ("struct", oList oPt2 m2), ("lifted3d", oList oPt3 m3)]
  let pts ← impl.parse "free" (listOf pt2)
  let l3 ← impl.parse "lifted3d" (listOf pt3)
  let mut fails := curveOracle (ctrl.map lift) seg (pts.map lift)
  if impl.find "struct" ≠ impl.find "free" then fails := fails ++ ["struct_differs_from_free_function"]
  if l3.length ≠ pts.length || !((l3.zip pts).all fun (a, b) => a.x == b.x && a.y == b.y && a.z == F!(0.0)) then
    fails := fails ++ ["3d_version_differs_on_planar_input"]
  pure (model, fails)

def hCurve3 (cubic : Bool) : Handler := fun args impl => do
  let ((ctrl, seg), _) ← (do
    let n := if cubic then 4 else 3
    let mut c : List (Pt3 Float) := []
    for _ in [0:n] do c := c ++ [← pt3]
    let s ← nat
    pure (c, s) : P _).run args
  let g (i : Nat) := ctrl.getD i ⟨0, 0, 0⟩
  let m3 := if cubic then Dim3.cubicBezier (g 0) (g 1) (g 2) (g 3) seg else Dim3.quadraticBezier (g 0) (g 1) (g 2) seg
  let model : Res := [("free", oList oPt3 m3), ("struct", oList oPt3 m3)]
  let pts ← impl.parse "free" (listOf pt3)
  let mut fails := curveOracle ctrl seg pts
  if impl.find "struct" ≠ impl.find "free" then fails := fails ++ ["struct_differs_from_free_function"]
  pure (model, fails)

/-! chains: `chain2 start c1 c2 end seg L<k> (len c2 end seg)* closeFlag [len c2 startLen seg]` -/
structure Add2 where
  len : Float
  c2 : Pt2 Float
  e : Pt2 Float
  seg : Nat

def curveToks2 (c : Dim2.Cubic Float) : List String :=
  oPt2 c.start ++ oPt2 c.control1 ++ oPt2 c.control2 ++ oPt2 c.end_ ++ [oU c.segments]
def pCurve2 : P (Dim2.Cubic Float) := do return ⟨← pt2, ← pt2, ← pt2, ← pt2, ← nat⟩

/-- chain oracle on the implementation's curves and points (2D lifted to 3D) -/
def chainOracleRaw (curves : List (Pt3 Float × Pt3 Float × Pt3 Float × Pt3 Float × Nat)) (closed : Bool)
    (pts : List (Pt3 Float)) (knots : List (Pt3 Float)) (lens : List Float) : List String := Id.run do
  let mut fails : List String := []
  let arr := curves.toArray
  let n := arr.size
  -- consecutive curves share their end point exactly; tangent direction continuous at each joint
  for i in [0:n] do
    let (_, _, c2, e, _) := arr[i]!
    let j := if i + 1 < n then some (i + 1) else if closed then some 0 else none
    match j with
    | none => pure ()
    | some j =>
      let (s', c1', _, _, _) := arr[j]!
      if !(same3 s' e) then fails := fails ++ ["consecutive_curves_do_not_share_end_point"]
      let tin := Pt3.sub e c2; let tout := Pt3.sub c1' s'
      let len := lens.getD j F!(1.0)
      -- the angle between the two tangents, relative to their lengths.  Both tangents are differences of
      -- stored points and carry an absolute error of about one ulp of the points' magnitude each, which
      -- turns into an angular error of that over the tangent's length; a handle so short that this
      -- angular uncertainty reaches 0.1 rad does not define a direction in doubles and is not judged
      let u := F!(2.3e-16)
      let eIn := F!(8.0) * u * (mag3 e + mag3 c2) / mag3 tin
      let eOut := F!(8.0) * u * (mag3 s' + mag3 c1') / mag3 tout
      let tolAng := F!(1e-9) + eIn + eOut
      if mag3 tin > F!(0.0) && mag3 tout > F!(0.0) && tolAng < F!(0.1) && len != F!(0.0) then
        let sinA := mag3 (Pt3.cross tin tout) / (mag3 tin * mag3 tout)
        let cosA := (Pt3.dot tin tout) / (mag3 tin * mag3 tout)
        if !(sinA ≤ tolAng && (if len > F!(0.0) then cosA > F!(0.0) else cosA < F!(0.0))) then
          fails := fails ++ [s!"tangent_not_continuous_at_joint:{j}"]
  -- points: passes through every knot in order, each joint once, closed chain does not repeat its first point
  let total := curves.foldl (fun a c => a + c.2.2.2.2) 0
  let want := if closed then total else total + 1
  if pts.length ≠ want then fails := fails ++ [s!"chain_point_count:{pts.length}_want_{want}"]
  else
    let parr := pts.toArray
    let mut pos := 0
    let mut k := 0
    for kn in knots do
      if pos < parr.size then
        if !(same3 parr[pos]! kn) then fails := fails ++ [s!"chain_misses_knot:{k}"]
      pos := pos + (arr.getD k (kn, kn, kn, kn, 0)).2.2.2.2
      k := k + 1
    -- "a closed chain does not repeat its first point": the sample count above already says so; the
    -- value test below is an independent look at the data, valid unless the chain legitimately visits
    -- its first point again (an interior knot equal to it, or a closing curve that stands still)
    if closed && pts.length ≥ 2 then
      let first := pts.headD ⟨1, 1, 1⟩
      let revisits := (pts.drop 1).dropLast.any (same3 · first) || (knots.drop 1).any (same3 · first)
      if same3 (pts.getLastD ⟨0, 0, 0⟩) first && total > 0 && !revisits then
        fails := fails ++ ["closed_chain_repeats_first_point"]
  return fails.eraseDups

/-- a curve whose second control point sits on its end point has no tangent direction there: the
next curve's first handle is `normalized(0)` = NaN (known finding) — label such histories -/
def chainOracle (curves : List (Pt3 Float × Pt3 Float × Pt3 Float × Pt3 Float × Nat)) (closed : Bool)
    (pts : List (Pt3 Float)) (knots : List (Pt3 Float)) (lens : List Float) : List String :=
  let fails := chainOracleRaw curves closed pts knots lens
  let n := curves.length
  let degenerate := (curves.zipIdx.any fun ((_, _, c2, e, _), i) => same3 c2 e && (i + 1 < n || closed))
  if degenerate then fails.map ("zero_length_incoming_handle:" ++ ·) else fails

def hChain2 : Handler := fun args impl => do
  let ((first, adds, close), _) ← (do
    let first ← pCurve2
    let adds ← listOf (do return (⟨← f64, ← pt2, ← pt2, ← nat⟩ : Add2))
    let close ← opt (do
      let len ← f64; let c2 ← pt2; let sl ← f64; let sg ← nat
      pure (len, c2, sl, sg))
    pure (first, adds, close) : P _).run args
  let ch0 := Dim2.Chain.new first.start first.control1 first.control2 first.end_ first.segments
  let ch1 := adds.foldl (fun ch a => Dim2.Chain.add ch a.len a.c2 a.e a.seg) ch0
  let ch := match close with
    | some (len, c2, sl, sg) => Dim2.Chain.close ch1 len c2 sl sg
    | none => ch1
  let model : Res := [("curves", s!"L{ch.curves.length}" :: ch.curves.flatMap curveToks2),
                      ("pts", oList oPt2 ch.genPoints)]
  let curves ← impl.parse "curves" (listOf pCurve2)
  let pts ← impl.parse "pts" (listOf pt2)
  let knots := first.start :: first.end_ :: adds.map (·.e)
  let lens := (match close with | some (_, _, sl, _) => sl | none => F!(1.0)) :: adds.map (·.len) ++
    (match close with | some (len, _, _, _) => [len] | none => [])
  let fails := chainOracle (curves.map fun c => (lift c.start, lift c.control1, lift c.control2, lift c.end_, c.segments))
    close.isSome (pts.map lift) (knots.map lift) lens
  pure (model, fails)

structure Add3 where
  len : Float
  c2 : Pt3 Float
  e : Pt3 Float
  seg : Nat
def curveToks3 (c : Dim3.Cubic Float) : List String :=
  oPt3 c.start ++ oPt3 c.control1 ++ oPt3 c.control2 ++ oPt3 c.end_ ++ [oU c.segments]
def pCurve3 : P (Dim3.Cubic Float) := do return ⟨← pt3, ← pt3, ← pt3, ← pt3, ← nat⟩

def hChain3 : Handler := fun args impl => do
  let ((first, adds, close), _) ← (do
    let first ← pCurve3
    let adds ← listOf (do return (⟨← f64, ← pt3, ← pt3, ← nat⟩ : Add3))
    let close ← opt (do
      let len ← f64; let c2 ← pt3; let sl ← f64; let sg ← nat
      pure (len, c2, sl, sg))
    pure (first, adds, close) : P _).run args
  let ch0 := Dim3.Chain.new first.start first.control1 first.control2 first.end_ first.segments
  let ch1 := adds.foldl (fun ch a => Dim3.Chain.add ch a.len a.c2 a.e a.seg) ch0
  let ch := match close with
    | some (len, c2, sl, sg) => Dim3.Chain.close ch1 len c2 sl sg
    | none => ch1
  let model : Res := [("curves", s!"L{ch.curves.length}" :: ch.curves.flatMap curveToks3),
                      ("pts", oList oPt3 ch.genPoints)]
  let curves ← impl.parse "curves" (listOf pCurve3)
  let pts ← impl.parse "pts" (listOf pt3)
  let knots := first.start :: first.end_ :: adds.map (·.e)
  let lens := (match close with | some (_, _, sl, _) => sl | none => F!(1.0)) :: adds.map (·.len) ++
    (match close with | some (len, _, _, _) => [len] | none => [])
  let fails := chainOracle (curves.map fun c => (c.start, c.control1, c.control2, c.end_, c.segments))
    close.isSome pts knots lens
  pure (model, fails)

def hStar : Handler := fun args impl => do
  let ((n, ir, ih, or_, oh, seg), _) ← (do
    let n ← nat; let ir ← f64; let ih ← f64; let o ← f64; let oh ← f64; let s ← nat
    pure (n, ir, ih, o, oh, s) : P _).run args
  let m := Dim2.bezierStar n ir ih or_ oh seg
  let model : Res := [("free", optPts2 m), ("struct", optPts2 m)]
  let mut fails : List String := []
  if impl.find "free" ≠ impl.find "struct" then fails := fails ++ ["bezier_star_differs_from_BezierStar_gen_points"]
  if !impl.isPanic "free" then
    let pts ← impl.parse "free" (listOf pt2)
    if pts.length ≠ 2 * n * seg then fails := fails ++ [s!"bezier_star_point_count:{pts.length}_want_{2 * n * seg}"]
  pure (model, fails)

def handlers : List (String × Handler) :=
  [("quad2", hCurve2 false), ("cubic2", hCurve2 true), ("quad3", hCurve3 false), ("cubic3", hCurve3 true),
   ("chain2", hChain2), ("chain3", hChain3), ("bstar", hStar)]
end ScadVerif.Driver.C08
