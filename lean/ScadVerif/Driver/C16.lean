import ScadVerif.Driver.TreeF
import ScadVerif.Driver.Geo
import ScadVerif.Model.Parts
namespace ScadVerif.Driver.C16
open ScadVerif ScadVerif.Driver ScadVerif.Spec

def rowToks (r : Gen.ThreadRow) : List String :=
  let (p, e, i, w, c) := (Parts.rowVals r : Float × Float × Float × Float × Float)
  [oF p, oF e, oF i, oF w, oF c]

/-- spec of the lookup: the row of the largest listed key ≤ max(m, 2) -/
def specLookup (m : Int) : Option Gen.ThreadRow :=
  let m' : Nat := if m < 2 then 2 else m.toNat
  (Gen.threadTable.filter (·.key ≤ m')).getLast?

def hLookup : Handler := fun args impl => do
  let (m, _) ← int.run args
  let model : Res := [("row", match Thread.lookup m with | some r => rowToks r | none => ["PANIC"])]
  let mut fails : List String := []
  match specLookup m with
  | none => fails := fails ++ ["table_has_no_key_up_to_2"]
  | some r => if impl.find "row" ≠ some (rowToks r) then fails := fails ++ [s!"lookup_is_not_next_smaller_listed_size:m={m}"]
  pure (model, fails)

def hTable : Handler := fun _ impl => do
  let model : Res := [("rows", s!"L{Gen.threadTable.length}" :: Gen.threadTable.flatMap fun r => oU r.key :: rowToks r)]
  let rows ← impl.parse "rows" (listOf (do
    let k ← nat; let p ← f64; let e ← f64; let i ← f64; let w ← f64; let c ← f64; pure (k, p, e, i, w, c)))
  let mut fails : List String := []
  for (k, p, e, i, _, c) in rows do
    if !(i > e) then fails := fails ++ [s!"internal_thread_not_larger_than_external:M{k}"]
    if !(p > F!(0.0) && e > F!(0.0) && p < e) then fails := fails ++ [s!"pitch_or_diameter_not_positive:M{k}"]
    if !(c > F!(1.0)) then fails := fails ++ [s!"chamfer_size_not_above_oversize_1:M{k}"]
  if !(rows.any (·.1 == 2)) then fails := fails ++ ["table_lacks_M2"]
  pure (model, fails)

/-- geometric oracle of a thread mesh against minor/major radius, pitch and hand -/
def threadOracle (pts : List (Pt3 Float)) (fs : List (List Nat)) (rMin rMaj pitch : Float) (segments : Nat) (left : Bool) :
    List String := Id.run do
  let mut fails : List String := meshOracle pts fs true
  let arr := pts.toArray
  let n := arr.size
  if n < 8 || n % 4 ≠ 0 then return fails ++ ["thread_point_count"]
  let tol := F!(1e-9) * (F!(1.0) + rMaj)
  let mut minz := F!(1e300)
  let mut radiiOk := true
  for p in arr do
    let r := (p.x * p.x + p.y * p.y).sqrt
    if !(rMin - tol ≤ r && r ≤ rMaj + tol) then radiiOk := false
    if p.z < minz then minz := p.z
  if !radiiOk then fails := fails ++ ["vertex_outside_minor_major_radius"]
  if !(minz == F!(0.0)) then fails := fails ++ [s!"thread_does_not_start_at_z0:{fmtF minz}"]
  -- ring k is vertices 4k..4k+3; vertex 4k+2 is the root point at the step's base height
  let rings := n / 4
  -- advance per revolution: z(ring k + segments) - z(ring k)
  if rings > segments + 2 then
    let dz := arr[4 * (segments + 1) + 2]!.z - arr[4 * 1 + 2]!.z
    let nSteps := rings
    if !(pitch * (F!(1.0) - F!(1e-9)) ≤ dz && dz ≤ pitch * (F!(1.0) + F!(1.0) / nSteps.toFloat) * (F!(1.0) + F!(1e-9))) then
      fails := fails ++ [s!"does_not_advance_one_pitch_per_revolution:dz={fmtF dz}:pitch={fmtF pitch}"]
  -- hand: going up, the angle of the root point turns counter-clockwise (right) / clockwise (left)
  let mut handOk := true
  let mut upOk := true
  for k in [1:rings - 1] do
    let a := arr[4 * k + 2]!; let b := arr[4 * (k + 1) + 2]!
    let cr := a.x * b.y - a.y * b.x
    if segments ≥ 3 then
      if left then
        if !(cr < F!(0.0)) then handOk := false
      else
        if !(cr > F!(0.0)) then handOk := false
    if !(b.z ≥ a.z) then upOk := false
  if !handOk then fails := fails ++ [if left then "left_hand_thread_does_not_turn_clockwise_going_up" else "right_hand_thread_does_not_turn_counter_clockwise_going_up"]
  if !upOk then fails := fails ++ ["thread_height_not_monotone"]
  return fails

def hTcyl : Handler := fun args impl => do
  let ((dMin, dMaj, pitch, length, seg, li, lo, left, center), _) ← (do
    let a ← f64; let b ← f64; let c ← f64; let d ← f64; let s ← nat; let li ← f64; let lo ← f64
    let l ← bool; let ce ← bool
    pure (a, b, c, d, s, li, lo, l, ce) : P _).run args
  let model : Res := [("tree", optTree (Thread.threadedCylinder dMin dMaj pitch length seg li lo left center))]
  if impl.isPanic "tree" then return (model, ["builder_panicked"])
  let t ← impl.parse "tree" treeF
  match firstPoly t with
  | none => pure (model, ["no_thread_mesh_in_result"])
  | some (pts, fs) =>
    let mut fails := threadOracle pts fs (dMin / F!(2.0)) (dMaj / F!(2.0)) pitch seg left
    -- the core rod is a closed outward cylinder too
    match (allPolys t).drop 1 with
    | (rp, rf) :: _ => fails := fails ++ (meshOracle rp rf true).map ("core_rod:" ++ ·)
    | [] => fails := fails ++ ["no_core_rod"]
    pure (model, fails)

/-- geometric oracle on the points alone (long threads): radii, start, pitch at *every* revolution, hand -/
def threadPointsOracle (pts : Array (Pt3 Float)) (nFaces : Nat) (rMin rMaj pitch _length : Float) (segments : Nat)
    (left : Bool) : List String := Id.run do
  let n := pts.size
  if n < 8 || n % 4 ≠ 0 then return ["thread_point_count"]
  let rings := n / 4
  let mut fails : List String := []
  if nFaces ≠ 8 * rings - 4 then fails := fails ++ [s!"thread_face_count:{nFaces}_for_{rings}_rings"]
  let tol := F!(1e-9) * (F!(1.0) + rMaj)
  let mut minz := F!(1e300)
  let mut radiiOk := true
  for p in pts do
    let r := (p.x * p.x + p.y * p.y).sqrt
    if !(rMin - tol ≤ r && r ≤ rMaj + tol) then radiiOk := false
    if p.z < minz then minz := p.z
  if !radiiOk then fails := fails ++ ["vertex_outside_minor_major_radius"]
  if !(minz == F!(0.0)) then fails := fails ++ [s!"thread_does_not_start_at_z0:{fmtF minz}"]
  let mut pitchOk := true
  let mut worst := F!(0.0)
  for k in [1:rings - segments] do
    let dz := pts[4 * (k + segments) + 2]!.z - pts[4 * k + 2]!.z
    if !(pitch * (F!(1.0) - F!(1e-9)) ≤ dz && dz ≤ pitch * (F!(1.0) + F!(1.0) / rings.toFloat) * (F!(1.0) + F!(1e-9))) then
      pitchOk := false; worst := dz
  if !pitchOk then fails := fails ++ [s!"does_not_advance_one_pitch_per_revolution:dz={fmtF worst}:pitch={fmtF pitch}"]
  let mut handOk := true
  let mut upOk := true
  for k in [1:rings - 1] do
    let a := pts[4 * k + 2]!; let b := pts[4 * (k + 1) + 2]!
    let cr := a.x * b.y - a.y * b.x
    if segments ≥ 3 then
      if left then
        if !(cr < F!(0.0)) then handOk := false
      else
        if !(cr > F!(0.0)) then handOk := false
    if !(b.z ≥ a.z) then upOk := false
  if !handOk then fails := fails ++ [if left then "left_hand_thread_does_not_turn_clockwise_going_up" else "right_hand_thread_does_not_turn_counter_clockwise_going_up"]
  if !upOk then fails := fails ++ ["thread_height_not_monotone"]
  return fails

/-- `tcylbig …` — oracle only: the implementation's points are echoed as the "model" answer -/
def hTcylBig : Handler := fun args impl => do
  let ((dMin, dMaj, pitch, length, seg, _li, _lo, left), _) ← (do
    let a ← f64; let b ← f64; let c ← f64; let d ← f64; let s ← nat; let li ← f64; let lo ← f64
    let l ← bool
    pure (a, b, c, d, s, li, lo, l) : P _).run args
  let model : Res := [("pts", (impl.find "pts").getD ["PANIC"])]
  if impl.isPanic "pts" then return (model, ["builder_panicked"])
  let (nf, pts) ← impl.parse "pts" (do let nf ← nat; let ps ← listOf pt3; pure (nf, ps))
  pure (model, threadPointsOracle pts.toArray nf (dMin / F!(2.0)) (dMaj / F!(2.0)) pitch length seg left)

/-- is `centred` exactly `translate([0,0,-h/2]) { uncentred }`? (token-level: exact floats) -/
def centredIsTranslate (un ce : Res → Option (List String)) (impl : Res) (h : Float) : List String :=
  match un impl, ce impl with
  | some u, some c =>
    let want := ["NTranslate", oF F!(0.0), oF F!(0.0), oF (-h / F!(2.0)), "L1"] ++ u
    if c == want then [] else
      -- same sub-parts under one extra translation?  say what differs
      if c.length == want.length then ["centred_part_differs_inside:extra_or_missing_internal_shift"]
      else ["centred_part_is_not_translate_of_uncentred"]
  | _, _ => ["missing_tree"]

inductive Kind | rod | tap | bolt | nut
deriving DecidableEq

/-- `rod|tap|bolt|nut …` : both centre settings in one case -/
def hPart (kind : Kind) (forC14 : Bool) : Handler := fun args impl => do
  let ((m, length, head, seg, li, lo, chamf, left), _) ← (do
    let m ← int; let len ← f64; let head ← f64; let s ← nat; let li ← f64; let lo ← f64
    let ch ← bool; let l ← bool
    pure (m, len, head, s, li, lo, ch, l) : P _).run args
  let build (center : Bool) : Option (Scad Float) :=
    match kind with
    | .rod => Parts.threadedRod m length seg li lo left center
    | .tap => Parts.tap m length seg left center
    | .bolt => Parts.hexBolt m length head seg li chamf left center
    | .nut => Parts.hexNut m length seg chamf left center
  let model : Res := [("uncentred", optTree (build false)), ("centred", optTree (build true))]
  if impl.isPanic "uncentred" || impl.isPanic "centred" then return (model, ["builder_panicked"])
  if forC14 then
    let total := match kind with | .bolt => head + length | _ => length
    pure (model, centredIsTranslate (·.find "uncentred") (·.find "centred") impl total)
  else
    let t ← impl.parse "uncentred" treeF
    -- the thread mesh is the first polyhedron, except in a nut where the hex blank comes first
    let thread := if kind == .nut then (allPolys t)[1]? else firstPoly t
    match Thread.lookup m, thread with
    | some r, some (pts, fs) =>
      let (p, e, i, _, _) := (Parts.rowVals r : Float × Float × Float × Float × Float)
      let dMaj := if kind == .rod || kind == .bolt then e else i
      let dMinV : Float := Thread.dMin dMaj p
      -- ISO proportion: minor = major − 2·(5/8)·(√3/2)·pitch
      let iso := dMaj - F!(2.0) * (F!(5.0) / F!(8.0)) * ((F!(3.0)).sqrt / F!(2.0)) * p
      let mut fails := threadOracle pts fs (iso / F!(2.0)) (dMaj / F!(2.0)) p seg left
      if !(close dMinV iso F!(1e-12)) then fails := fails ++ ["minor_diameter_not_iso"]
      pure (model, fails)
    | _, _ => pure (model, ["no_thread_mesh_or_no_table_row"])

def hCylChamfer (forC14 : Bool) : Handler := fun args impl => do
  let ((size, over, radius, height, seg), _) ← (do
    let a ← f64; let b ← f64; let c ← f64; let d ← f64; let s ← nat; pure (a, b, c, d, s) : P _).run args
  let build (center : Bool) : Scad Float := Parts.externalCylinderChamfer size over radius height seg center
  let model : Res := [("uncentred", oTree (build false)), ("centred", oTree (build true))]
  if forC14 then
    pure (model, centredIsTranslate (·.find "uncentred") (·.find "centred") impl height)
  else pure (model, [])

def handlers : List (String × Handler) :=
  [("lookup", hLookup), ("table", hTable), ("tcyl", hTcyl), ("tcylbig", hTcylBig), ("rod", hPart .rod false), ("tap", hPart .tap false),
   ("bolt", hPart .bolt false), ("nut", hPart .nut false), ("cylchamfer", hCylChamfer false)]
def handlersC14 : List (String × Handler) :=
  [("rod", hPart .rod true), ("tap", hPart .tap true), ("bolt", hPart .bolt true), ("nut", hPart .nut true),
   ("cylchamfer", hCylChamfer true)]
end ScadVerif.Driver.C16
