import ScadVerif.Driver.Geo
namespace ScadVerif.Driver.C07
open ScadVerif ScadVerif.Driver ScadVerif.Spec

def len2 (p : Pt2 Float) : Float := (p.x * p.x + p.y * p.y).sqrt

/-- outline checks common to the closed generators: clockwise, simple, extrudes outward -/
def outlineOracle (pts : List (Pt2 Float)) (impl : Res) (wantSimple : Bool) : Except String (List String) := do
  let mut fails : List String := []
  if pts.length ≥ 3 then
    if !(area2 pts < F!(0.0)) then fails := fails ++ ["outline_not_clockwise"]
    if wantSimple && pts.length ≤ 600 && !simpleB pts then fails := fails ++ ["outline_not_simple"]
  if pts.length ≥ 4 then
    if impl.isPanic "mesh_pts" then fails := fails ++ ["linear_extrude_panicked"]
    else
      let mp ← impl.parse "mesh_pts" (listOf pt3)
      let mf ← impl.parse "mesh_faces" faces
      fails := fails ++ labelDegenerate pts ((meshOracle mp mf true).map ("extrusion:" ++ ·))
  pure fails

def extrudeRes (pts : Option (List (Pt2 Float))) : Res :=
  match pts with
  | some p =>
    if p.length ≥ 4 then
      (meshRes (Dim3.Polyhedron.linearExtrude p 1)).map fun (n, t) => ("mesh_" ++ n, t)
    else []
  | none => []

def hArc : Handler := fun args impl => do
  let ((start, deg, seg), _) ← (do let s ← pt2; let d ← f64; let n ← nat; pure (s, d, n) : P _).run args
  let m := Dim2.arc start deg seg
  let model : Res := [("pts", optPts2 m)]
  if deg > F!(360.0) then
    return (model, if impl.isPanic "pts" then [] else ["arc_over_360_must_panic"])
  if impl.isPanic "pts" then return (model, ["arc_panicked"])
  let pts ← impl.parse "pts" (listOf pt2)
  let mut fails : List String := []
  let want := if deg == F!(360.0) then seg else seg + 1
  if pts.length ≠ want then fails := fails ++ [s!"arc_point_count:{pts.length}_want_{want}"]
  let r0 := len2 start
  let step := deg / seg.toFloat
  let mut k := 0
  for p in pts do
    if !((len2 p - r0).abs ≤ F!(1e-12) * (F!(1.0) + r0)) then fails := fails ++ ["arc_radius_not_kept"]; break
    -- advances by degrees/segments, clockwise for positive degrees
    let a := -(k.toFloat * step)
    let c := dcos a; let s := dsin a
    let wx := start.x * c - start.y * s; let wy := start.x * s + start.y * c
    if !((p.x - wx).abs ≤ F!(1e-9) * (F!(1.0) + r0) && (p.y - wy).abs ≤ F!(1e-9) * (F!(1.0) + r0)) then
      fails := fails ++ ["arc_step_not_degrees_over_segments_clockwise"]; break
    k := k + 1
  pure (model, fails)

/-- `circle`, `inscribed`, `circumscribed` -/
def hRound (kind : String) : Handler := fun args impl => do
  let ((n, r), _) ← (do let n ← nat; let r ← f64; pure (n, r) : P _).run args
  let m := match kind with
    | "circle" => Dim2.circle r n
    | "inscribed" => Dim2.inscribedPolygon n r
    | _ => Dim2.circumscribedPolygon n r
  let model : Res := ("pts", optPts2 m) :: extrudeRes m
  if impl.isPanic "pts" then return (model, ["generator_panicked"])
  let pts ← impl.parse "pts" (listOf pt2)
  let mut fails : List String := []
  if pts.length ≠ n then fails := fails ++ [s!"point_count:{pts.length}_want_{n}"]
  if kind == "circumscribed" then
    -- every edge line is tangent to the circle of radius r
    let arr := pts.toArray
    for i in [0:arr.size] do
      let a := arr[i]!; let b := arr[(i + 1) % arr.size]!
      let d := (a.x * b.y - b.x * a.y).abs / len2 ⟨b.x - a.x, b.y - a.y⟩
      if !((d - r).abs ≤ F!(1e-9) * (F!(1.0) + r)) then fails := fails ++ ["edge_not_tangent_to_radius"]; break
  else
    for p in pts do
      if !((len2 p - r).abs ≤ F!(1e-12) * (F!(1.0) + r)) then fails := fails ++ ["corner_not_on_radius"]; break
  if n ≥ 3 then fails := fails ++ (← outlineOracle pts impl true)
  pure (model, fails)

def hRect : Handler := fun args impl => do
  let ((w, h, r, seg, center), _) ← (do
    let w ← f64; let h ← f64; let r ← f64; let s ← nat; let c ← bool; pure (w, h, r, s, c) : P _).run args
  let m := Dim2.roundedRect w h r seg center
  let model : Res := ("pts", optPts2 m) :: extrudeRes m
  if impl.isPanic "pts" then return (model, ["generator_panicked"])
  let pts ← impl.parse "pts" (listOf pt2)
  let mut fails : List String := []
  if pts.length ≠ 4 * (seg + 1) then fails := fails ++ [s!"point_count:{pts.length}_want_{4 * (seg + 1)}"]
  let ox := if center then -w / F!(2.0) else F!(0.0)
  let oy := if center then -h / F!(2.0) else F!(0.0)
  let tol := F!(1e-9) * (F!(1.0) + w + h)
  let mut minx := F!(1e300); let mut maxx := -F!(1e300); let mut miny := F!(1e300); let mut maxy := -F!(1e300)
  for p in pts do
    let x := p.x - ox; let y := p.y - oy
    if x < minx then minx := x
    if x > maxx then maxx := x
    if y < miny then miny := y
    if y > maxy then maxy := y
    -- on a corner arc of the given radius about an inset corner
    let cx := if x < w / F!(2.0) then r else w - r
    let cy := if y < h / F!(2.0) then r else h - r
    if !((len2 ⟨x - cx, y - cy⟩ - r).abs ≤ tol) then fails := fails ++ ["corner_arc_radius"]; break
  if !(minx ≥ -tol && maxx ≤ w + tol && miny ≥ -tol && maxy ≤ h + tol) then fails := fails ++ ["outside_its_box"]
  if !(minx.abs ≤ tol && (maxx - w).abs ≤ tol && miny.abs ≤ tol && (maxy - h).abs ≤ tol) then
    fails := fails ++ ["does_not_touch_all_four_sides"]
  fails := fails ++ (← outlineOracle pts impl true)
  pure (model, fails.eraseDups)

def hChamfer : Handler := fun args impl => do
  let ((size, over), _) ← (do let s ← f64; let o ← f64; pure (s, o) : P _).run args
  let m := some (Dim2.chamfer size over)
  let model : Res := ("pts", optPts2 m) :: (if over > F!(0.0) then extrudeRes m else [])
  let pts ← impl.parse "pts" (listOf pt2)
  let mut fails : List String := []
  if pts.length ≠ 7 then fails := fails ++ ["point_count"]
  if over > F!(0.0) then
    let fs ← outlineOracle pts impl true
    fails := fails ++ (if over ≥ size then fs.map ("oversize_not_below_size:" ++ ·) else fs)
  pure (model, fails)

def hStar : Handler := fun args impl => do
  let ((n, inner, outer), _) ← (do let n ← nat; let i ← f64; let o ← f64; pure (n, i, o) : P _).run args
  let m := some (Dim2.star n inner outer)
  let model : Res := ("pts", optPts2 m) :: extrudeRes m
  let pts ← impl.parse "pts" (listOf pt2)
  let mut fails : List String := []
  if pts.length ≠ 2 * n then fails := fails ++ ["point_count"]
  let mut k := 0
  for p in pts do
    let want := if k % 2 == 0 then inner else outer
    if !((len2 p - want).abs ≤ F!(1e-12) * (F!(1.0) + want)) then fails := fails ++ ["star_radius"]; break
    k := k + 1
  if n ≥ 2 then fails := fails ++ (← outlineOracle pts impl (n ≥ 2))
  pure (model, fails)

def handlers : List (String × Handler) :=
  [("arc", hArc), ("circle", hRound "circle"), ("inscribed", hRound "inscribed"),
   ("circumscribed", hRound "circumscribed"), ("rounded_rect", hRect), ("chamfer", hChamfer), ("star", hStar)]
end ScadVerif.Driver.C07
