import ScadVerif.Driver.C03
namespace ScadVerif.Driver.C04
open ScadVerif ScadVerif.Driver ScadVerif.Spec

def mag3 (p : Pt3 Float) : Float := fmax (fmax p.x.abs p.y.abs) p.z.abs
def dist3 (a b : Pt3 Float) : Float := (Pt3.sub a b).len
def same3 (a b : Pt3 Float) : Bool := a.x == b.x && a.y == b.y && a.z == b.z

/-- cap check: `tris` (face list, indices minus `off`) must be a tiling certificate of the 2D
profile, wound like it (`same`) or the other way -/
def capOracle (name : String) (profile : List (Pt2 Float)) (capFaces : List (List Nat)) (off : Nat) (same : Bool) : List String :=
  if capFaces.any (fun f => f.length ≠ 3 || f.any (· < off)) then
    labelDegenerate profile [s!"{name}_cap_malformed"] else
  let tris := capFaces.flatMap fun f => f.map (· - off)
  (labelDegenerate profile (C03.tilingCert profile tris same)).map fun e => s!"{name}_cap:{e}"

/-- which oracle set: 4 = closed/oriented/outward (C04), 5 = placement and caps (C05) -/
def result (which : Nat) (c4 c5 : List String) : List String := if which == 4 then c4 else c5

def parseMesh (impl : Res) : Except String (Option (List (Pt3 Float) × List (List Nat))) :=
  if impl.isPanic "pts" then pure none else do
    let p ← impl.parse "pts" (listOf pt3)
    let f ← impl.parse "faces" faces
    pure (some (p, f))

def hLinear (which : Nat) : Handler := fun args impl => do
  let ((ps, h), _) ← (do let p ← listOf pt2; let h ← f64; pure (p, h) : P _).run args
  let model := meshRes (Dim3.Polyhedron.linearExtrude ps h)
  if ps.length ≤ 3 then return (model, if impl.isPanic "pts" then [] else ["SKIP:small"])
  match ← parseMesh impl with
  | none => pure (model, ["builder_panicked"])
  | some (pts, fs) =>
    let n := ps.length
    let c4 := labelDegenerate ps (meshOracle pts fs (h > F!(0.0)))
    let mut c5 : List String := []
    if pts.length ≠ 2 * n then c5 := c5 ++ ["point_count"]
    else
      if !((ps.zip (pts.take n)).all fun (p, q) => q.x == p.x && q.y == p.y && q.z == F!(0.0)) then
        c5 := c5 ++ ["profile_not_unchanged_at_z0"]
      if !((ps.zip (pts.drop n)).all fun (p, q) => q.x == p.x && q.y == p.y && q.z == h) then
        c5 := c5 ++ ["profile_not_unchanged_at_height"]
      c5 := c5 ++ capOracle "bottom" ps (fs.take (n - 2)) 0 false
      c5 := c5 ++ capOracle "top" ps ((fs.drop (n - 2)).take (n - 2)) n true
      -- volume = profile area × height
      let a := pts.toArray
      let vol := -(sixVolumeCCWAt (fun i => a.getD i ⟨0, 0, 0⟩) fs) / F!(6.0)
      let o := ps.headD ⟨0, 0⟩
      let area := (area2 (ps.map fun p => (⟨p.x - o.x, p.y - o.y⟩ : Pt2 Float))).abs / F!(2.0)
      let scale := ps.foldl (fun m p => fmax m (fmax p.x.abs p.y.abs)) F!(1e-300)
      if closedOriented pts.length fs && !((vol - area * h).abs ≤ F!(1e-9) * (scale * scale * h.abs + area * h.abs)) then
        c5 := c5 ++ [s!"volume_is_not_area_times_height:{fmtF vol}_vs_{fmtF (area * h)}"]
    pure (model, result which c4 c5)

def hLoft (which : Nat) : Handler := fun args impl => do
  let ((lo, up, h), _) ← (do let a ← listOf pt2; let b ← listOf pt2; let h ← f64; pure (a, b, h) : P _).run args
  let model := meshRes (Dim3.Polyhedron.loft lo up h)
  if lo.length ≠ up.length then
    return (model, if impl.isPanic "pts" then [] else ["loft_length_mismatch_must_panic"])
  if lo.length ≤ 3 then return (model, if impl.isPanic "pts" then [] else ["SKIP:small"])
  match ← parseMesh impl with
  | none => pure (model, ["builder_panicked"])
  | some (pts, fs) =>
    let n := lo.length
    let c4 := labelDegenerate up (labelDegenerate lo (meshOracle pts fs (h > F!(0.0))))
    let mut c5 : List String := []
    if pts.length ≠ 2 * n then c5 := c5 ++ ["point_count"]
    else
      if !((lo.zip (pts.take n)).all fun (p, q) => q.x == p.x && q.y == p.y && q.z == F!(0.0)) then
        c5 := c5 ++ ["lower_profile_not_unchanged_at_z0"]
      if !((up.zip (pts.drop n)).all fun (p, q) => q.x == p.x && q.y == p.y && q.z == h) then
        c5 := c5 ++ ["upper_profile_not_unchanged_at_height"]
      c5 := c5 ++ capOracle "bottom" lo (fs.take (n - 2)) 0 false
      c5 := c5 ++ capOracle "top" up ((fs.drop (n - 2)).take (n - 2)) n true
    pure (model, result which c4 c5)

def hCylinder (which : Nat) : Handler := fun args impl => do
  let ((r, h, seg), _) ← (do let r ← f64; let h ← f64; let s ← nat; pure (r, h, s) : P _).run args
  let model := meshRes (Dim3.Polyhedron.cylinder r h seg)
  if seg ≤ 3 then return (model, if impl.isPanic "pts" then [] else ["SKIP:small"])
  match ← parseMesh impl with
  | none => pure (model, ["builder_panicked"])
  | some (pts, fs) =>
    let c4 := meshOracle pts fs (h > F!(0.0) && r > F!(0.0))
    let mut c5 : List String := []
    if pts.length ≠ 2 * seg then c5 := c5 ++ ["point_count"]
    else
      let tol := F!(1e-12) * (F!(1.0) + r.abs)
      if !((pts.take seg).all fun q => q.z == F!(0.0) && ((q.x * q.x + q.y * q.y).sqrt - r.abs).abs ≤ tol) then
        c5 := c5 ++ ["bottom_ring_not_on_radius_at_z0"]
      if !((pts.drop seg).all fun q => q.z == h && ((q.x * q.x + q.y * q.y).sqrt - r.abs).abs ≤ tol) then
        c5 := c5 ++ ["top_ring_not_on_radius_at_height"]
    pure (model, result which c4 c5)

def hRevolve (which : Nat) : Handler := fun args impl => do
  let ((ps, deg, seg, volOk), _) ← (do
    let p ← listOf pt2; let d ← f64; let s ← nat; let v ← bool; pure (p, d, s, v) : P _).run args
  let model := meshRes (Dim3.Polyhedron.rotateExtrude ps deg seg)
  let admissible := F!(0.0) < deg && deg ≤ F!(360.0) && seg ≥ 3 && ps.length > 3
  if !admissible then
    return (model, if impl.isPanic "pts" || !(F!(0.0) ≤ deg && deg ≤ F!(360.0) && seg ≥ 3) then [] else ["SKIP:outside_quantifier"])
  match ← parseMesh impl with
  | none => pure (model, [s!"builder_panicked:degrees={fmtF deg}"])
  | some (pts, fs) =>
    let n := ps.length
    let closed := deg == F!(360.0)
    let c4 := labelDegenerate ps (meshOracle pts fs volOk)
    let mut c5 : List String := []
    let rings := if closed then seg else seg + 1
    if pts.length ≠ rings * n then c5 := c5 ++ [s!"point_count:{pts.length}_want_{rings * n}"]
    else
      let a := deg / seg.toFloat
      let parr := pts.toArray
      let prof := ps.toArray
      let mut bad := false
      for k in [0:rings] do
        let c := dcos (a * k.toFloat); let s := dsin (a * k.toFloat)
        for i in [0:n] do
          let p := prof[i]!; let q := parr[k * n + i]!
          let tol := F!(1e-9) * (F!(1.0) + p.x.abs + p.y.abs)
          if !((q.x - p.x * c).abs ≤ tol && (q.y - p.x * s).abs ≤ tol && q.z == p.y) then bad := true
      if bad then c5 := c5 ++ ["ring_not_in_half_plane_at_k_times_degrees_over_segments"]
      if !closed then
        c5 := c5 ++ capOracle "start" ps (fs.take (n - 2)) 0 true
        c5 := c5 ++ capOracle "end" ps (fs.drop (fs.length - (n - 2))) (seg * n) false
    pure (model, result which c4 c5)

def hSweep (which : Nat) : Handler := fun args impl => do
  let ((ps, path, twist, closed, volOk), _) ← (do
    let p ← listOf pt2; let pa ← listOf pt3; let t ← f64; let c ← bool; let v ← bool
    pure (p, pa, t, c, v) : P _).run args
  let model := meshRes (Dim3.Polyhedron.sweep ps path twist closed)
  if ps.length ≤ 3 || path.length < 2 then return (model, if impl.isPanic "pts" then [] else ["SKIP:small"])
  match ← parseMesh impl with
  | none => pure (model, ["builder_panicked"])
  | some (pts, fs) =>
    let n := ps.length
    let len := path.length
    let c4 := labelDegenerate ps (meshOracle pts fs volOk)
    let mut c5 : List String := []
    if pts.length ≠ len * n then c5 := c5 ++ ["point_count"]
    else
      let parr := pts.toArray
      let prof := ps.toArray
      let pa := path.toArray
      let scale := ps.foldl (fun m p => fmax m (fmax p.x.abs p.y.abs)) F!(1e-300)
      let mut rigid := true; let mut perp := true; let mut twisted := true; let mut proper := true
      let a2 := area2 ps
      -- ring k is turned about the local direction by k times the per-step twist, measured in the frame
      -- whose x axis is `up × f` (up = +Z) and whose y axis is `f × x`
      let ta := if closed then twist / len.toFloat else twist / (len - 1).toFloat
      for k in [0:len] do
        -- local path direction: chord between the neighbouring path points
        let prev := if k == 0 then (if closed then pa[len - 1]! else pa[0]!) else pa[k - 1]!
        let next := if k == len - 1 then (if closed then pa[0]! else pa[len - 1]!) else pa[k + 1]!
        let f := (Pt3.sub next prev).normalized
        -- orientation: the ring's area vector (sum of cross products about the path point) is the
        -- profile's signed area times the travel direction for a proper rigid copy, minus that for a
        -- mirror image — also where the frame test below has no reference (vertical directions)
        let mut av : Pt3 Float := ⟨F!(0.0), F!(0.0), F!(0.0)⟩
        for i in [0:n] do
          let u := Pt3.sub parr[k * n + i]! pa[k]!
          let v := Pt3.sub parr[k * n + (i + 1) % n]! pa[k]!
          av := Pt3.add av (Pt3.cross u v)
        let want := Pt3.smul f a2
        if !(dist3 av want ≤ F!(1e-7) * (a2.abs + scale * scale + F!(1e-300))) then proper := false
        for i in [0:n] do
          let q := parr[k * n + i]!
          let j := (i + 1) % n
          let q2 := parr[k * n + j]!
          let d := dist3 q q2
          let p := prof[i]!; let p2 := prof[j]!
          let d0 := ((p.x - p2.x) * (p.x - p2.x) + (p.y - p2.y) * (p.y - p2.y)).sqrt
          if !((d - d0).abs ≤ F!(1e-9) * (F!(1.0) + scale)) then rigid := false
          -- distance from the path point equals the profile point's distance from the origin
          let r := dist3 q pa[k]!
          let r0 := (p.x * p.x + p.y * p.y).sqrt
          if !((r - r0).abs ≤ F!(1e-9) * (F!(1.0) + scale + mag3 pa[k]!)) then rigid := false
          if !((Pt3.dot (Pt3.sub q pa[k]!) f).abs ≤ F!(1e-9) * (F!(1.0) + scale + mag3 pa[k]!)) then perp := false
          let sx := Pt3.cross ⟨F!(0.0), F!(0.0), F!(1.0)⟩ f
          if sx.len > F!(1e-6) then
            let sx := sx.normalized
            let uy := Pt3.cross f sx
            let rel := Pt3.sub q pa[k]!
            let a := ta * k.toFloat
            let wx := p.x * dcos a - p.y * dsin a
            let wy := p.x * dsin a + p.y * dcos a
            let tolT := F!(1e-7) * (F!(1.0) + scale + mag3 pa[k]!)
            if !((Pt3.dot rel sx - wx).abs ≤ tolT && (Pt3.dot rel uy - wy).abs ≤ tolT) then twisted := false
      if !rigid then c5 := c5 ++ ["ring_is_not_a_rigid_copy_of_the_profile_at_its_path_point"]
      if !perp then c5 := c5 ++ ["ring_not_perpendicular_to_local_path_direction"]
      if rigid && perp && !proper then c5 := c5 ++ ["ring_is_a_mirror_image_of_the_profile_seen_along_the_path"]
      if !twisted then c5 := c5 ++ ["ring_not_turned_by_k_times_the_per_step_twist"]
      if !closed then
        c5 := c5 ++ capOracle "start" ps (fs.take (n - 2)) 0 false
        c5 := c5 ++ capOracle "end" ps (fs.drop (fs.length - (n - 2))) ((len - 1) * n) true
    pure (model, result which c4 c5)

/-- Polyhedron transform methods move every point and leave faces untouched -/
def hXform (_which : Nat) : Handler := fun args impl => do
  let ((pts, fs, d, deg), _) ← (do
    let p ← listOf pt3; let f ← faces; let d ← pt3; let a ← f64; pure (p, f, d, a) : P _).run args
  let poly : Dim3.Polyhedron Float := ⟨pts, fs⟩
  let tr := poly.translate d
  let rx := poly.rotateX deg; let ry := poly.rotateY deg; let rz := poly.rotateZ deg
  let model : Res := [("translate", oList oPt3 tr.points), ("rotate_x", oList oPt3 rx.points),
    ("rotate_y", oList oPt3 ry.points), ("rotate_z", oList oPt3 rz.points),
    ("faces_after", oFaces fs)]
  let mut fails : List String := []
  let t ← impl.parse "translate" (listOf pt3)
  if t.length ≠ pts.length || !((pts.zip t).all fun (p, q) => q.x == p.x + d.x && q.y == p.y + d.y && q.z == p.z + d.z) then
    fails := fails ++ ["translate_moves_every_point"]
  for nme in ["rotate_x", "rotate_y", "rotate_z"] do
    let r ← impl.parse nme (listOf pt3)
    if r.length ≠ pts.length || !((pts.zip r).all fun (p, q) => close p.len2 q.len2 F!(1e-12)) then
      fails := fails ++ [s!"{nme}_moves_every_point_rigidly"]
  if impl.find "faces_after" ≠ some (oFaces fs) then fails := fails ++ ["transform_touched_faces"]
  pure (model, fails)

/-- `xformm pts faces matrix` : `Polyhedron::apply_matrix` is the full affine map, faces untouched -/
def hXformM (_which : Nat) : Handler := fun args impl => do
  let ((pts, fs, m), _) ← (do
    let p ← listOf pt3; let f ← faces; let m ← mt4; pure (p, f, m) : P _).run args
  let model : Res := [("apply_matrix", oList oPt3 (Mt4.applyMatrix pts m)), ("faces_after", oFaces fs)]
  let mut fails : List String := []
  let r ← impl.parse "apply_matrix" (listOf pt3)
  -- written out entry by entry (column-major: x is column 0, w is the translation column)
  let want (p : Pt3 Float) : Pt3 Float :=
    ⟨m.x.x * p.x + m.y.x * p.y + m.z.x * p.z + m.w.x, m.x.y * p.x + m.y.y * p.y + m.z.y * p.z + m.w.y,
     m.x.z * p.x + m.y.z * p.y + m.z.z * p.z + m.w.z⟩
  let tol (p : Pt3 Float) : Float := F!(1e-12) * (F!(1.0) + p.x.abs + p.y.abs + p.z.abs) *
    (F!(1.0) + m.x.x.abs + m.y.y.abs + m.z.z.abs + m.w.x.abs + m.w.y.abs + m.w.z.abs + m.x.y.abs + m.x.z.abs + m.y.x.abs + m.y.z.abs + m.z.x.abs + m.z.y.abs)
  if r.length ≠ pts.length || !((pts.zip r).all fun (p, q) =>
      let w := want p; (q.x - w.x).abs ≤ tol p && (q.y - w.y).abs ≤ tol p && (q.z - w.z).abs ≤ tol p) then
    fails := fails ++ ["apply_matrix_is_not_the_full_affine_map"]
  if impl.find "faces_after" ≠ some (oFaces fs) then fails := fails ++ ["transform_touched_faces"]
  pure (model, fails)

def handlers (which : Nat) : List (String × Handler) :=
  [("linear_extrude", hLinear which), ("loft", hLoft which), ("cylinder", hCylinder which),
   ("rotate_extrude", hRevolve which), ("sweep", hSweep which), ("xform", hXform which), ("xformm", hXformM which)]
end ScadVerif.Driver.C04
