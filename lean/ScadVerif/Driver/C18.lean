import ScadVerif.Driver.TreeF
import ScadVerif.Driver.Geo
import ScadVerif.Driver.C08
import ScadVerif.Driver.C04
import ScadVerif.Model.Viewer
namespace ScadVerif.Driver.C18
open ScadVerif ScadVerif.Driver ScadVerif.Viewer

def pOp : P (Op Float) := do
  let t ← tok
  match t with
  | "pt2" => return .pt2 (← pt2) (← kname)
  | "pt3" => return .pt3 (← pt3) (← kname)
  | "pt2s" => return .pt2s (← listOf pt2) (← kname)
  | "pt3s" => return .pt3s (← listOf pt3) (← kname)
  | "lines2d" => return .lines2d (← listOf (do return (← pt2, ← pt2))) (← kname)
  | "lines3d" => return .lines3d (← listOf (do return (← pt3, ← pt3))) (← kname)
  | "quad2" => return .quad2 (← pt2) (← pt2) (← pt2) (← nat)
  | "quad3" => return .quad3 (← pt3) (← pt3) (← pt3) (← nat)
  | "cubic2" => return .cubic2 (← pt2) (← pt2) (← pt2) (← pt2) (← nat)
  | "cubic3" => return .cubic3 (← pt3) (← pt3) (← pt3) (← pt3) (← nat)
  | "chain2" => return .chain2 (← listOf C08.pCurve2)
  | "chain3" => return .chain3 (← listOf C08.pCurve3)
  | _ => throw s!"unknown viewer op {t}"

/-- what a scene is made of -/
inductive Item where
  | sphere (center : Pt3 Float) (radius : Float) (fn : Option Nat) (colour : List Char)
  | mesh (points : List (Pt3 Float)) (faces : List (List Nat)) (colour : List Char)
  | other (what : String)

/-- flatten a scene to its items in order, composing translations and carrying the colour -/
partial def items (t : Scad Float) (shift : Pt3 Float) (colour : List Char) : List Item :=
  match t with
  | .mk .union cs => cs.toList.flatMap fun c => items c shift colour
  | .mk (.translate v) cs => cs.toList.flatMap fun c => items c (Pt3.add shift v) colour
  | .mk (.color none (some c) none _) cs => cs.toList.flatMap fun k => items k shift c
  | .mk (.sphere r _ _ fn) _ => [.sphere shift r fn colour]
  | .mk (.polyhedron pts fs _) _ => [.mesh (pts.map fun p => Pt3.add p shift) fs colour]
  | _ => [.other "unexpected_node"]

/-- the items one call describes -/
inductive Want where
  | sphere (center : Pt3 Float) (colour : List Char)
  | edge (a b : Pt3 Float) (colour : List Char)

def lift (p : Pt2 Float) : Pt3 Float := ⟨p.x, p.y, 0⟩
def curveWants (pts : List (Pt3 Float)) (handles : List (Pt3 Float × Pt3 Float)) (ctrl : List (Pt3 Float)) : List Want :=
  pts.map (.sphere · darkSlateGray) ++ (edges pts).map (fun (a, b) => .edge a b white) ++
  handles.map (fun (a, b) => .edge a b green) ++ ctrl.map (.sphere · green)

def wants : Op Float → List Want
  | .pt2 p c => [.sphere (lift p) c]
  | .pt3 p c => [.sphere p c]
  | .pt2s ps c => ps.map fun p => .sphere (lift p) c
  | .pt3s ps c => ps.map (.sphere · c)
  | .lines2d es c => es.map fun (a, b) => .edge (lift a) (lift b) c
  | .lines3d es c => es.map fun (a, b) => .edge a b c
  | .quad2 s c e n => curveWants ((Dim2.quadraticBezier s c e n).map lift) [(lift s, lift c), (lift e, lift c)] [lift c]
  | .quad3 s c e n => curveWants (Dim3.quadraticBezier s c e n) [(s, c), (e, c)] [c]
  | .cubic2 s c1 c2 e n =>
    curveWants ((Dim2.cubicBezier s c1 c2 e n).map lift) [(lift s, lift c1), (lift e, lift c2)] [lift c1, lift c2]
  | .cubic3 s c1 c2 e n => curveWants (Dim3.cubicBezier s c1 c2 e n) [(s, c1), (e, c2)] [c1, c2]
  | .chain2 cs => cs.flatMap fun c =>
    curveWants ((Dim2.cubicBezier c.start c.control1 c.control2 c.end_ c.segments).map lift)
      [(lift c.start, lift c.control1), (lift c.end_, lift c.control2)] [lift c.control1, lift c.control2]
  | .chain3 cs => cs.flatMap fun c =>
    curveWants (Dim3.cubicBezier c.start c.control1 c.control2 c.end_ c.segments)
      [(c.start, c.control1), (c.end_, c.control2)] [c.control1, c.control2]

def centroid (ps : List (Pt3 Float)) : Pt3 Float :=
  let s := ps.foldl Pt3.add ⟨0, 0, 0⟩
  Pt3.sdiv s ps.length.toFloat

def matchItem (pr er : Float) (seg : Nat) (w : Want) (it : Item) : Option String :=
  match w, it with
  | .sphere c col, .sphere c' r fn col' =>
    if !(c'.x == c.x && c'.y == c.y && c'.z == c.z) then some "sphere_not_at_its_point"
    else if !(r == pr && fn == some seg) then some "sphere_radius_or_segments"
    else if col != col' then some "sphere_colour"
    else none
  | .edge a b col, .mesh pts fs col' =>
    if col != col' then some "edge_colour" else
    match meshOracle pts fs false with
    | e :: _ => some ("edge_cylinder:" ++ e)
    | [] =>
      -- bottom ring centred on the start, top ring on the end, both of the edge radius
      let bot := pts.take seg; let top := pts.drop seg
      let len := (Pt3.sub b a).len
      let tol := F!(1e-9) * (F!(1.0) + len + er + C04.mag3 a + C04.mag3 b)
      if pts.length ≠ 2 * seg then some "edge_cylinder_point_count"
      else if !(C04.dist3 (centroid bot) a ≤ tol && C04.dist3 (centroid top) b ≤ tol) then
        some "edge_cylinder_does_not_run_from_start_to_end"
      else if !(bot.all (fun p => (C04.dist3 p a - er).abs ≤ tol) && top.all (fun p => (C04.dist3 p b - er).abs ≤ tol)) then
        some "edge_cylinder_radius"
      else none
  | _, .other w => some w
  | _, _ => some "item_kind_differs_from_call"

def handle : Handler := fun args impl => do
  let ((pr, er, seg, ops), _) ← (do
    let a ← f64; let b ← f64; let s ← nat; let o ← listOf pOp; pure (a, b, s, o) : P _).run args
  let m := (run pr er seg ops).bind intoScad
  let model : Res := [("tree", optTree m)]
  if ops.isEmpty then return (model, if impl.isPanic "tree" then [] else ["SKIP:empty_history"])
  if impl.isPanic "tree" then return (model, ["scene_panicked"])
  let t ← impl.parse "tree" treeF
  let its := items t ⟨0, 0, 0⟩ []
  let ws := ops.flatMap wants
  let mut fails : List String := []
  if its.length ≠ ws.length then
    fails := fails ++ [s!"scene_has_{its.length}_items_for_{ws.length}_described"]
  else
    let mut k := 0
    for (w, it) in ws.zip its do
      match matchItem pr er seg w it with
      | some e => fails := fails ++ [s!"{e}:item={k}"]; break
      | none => pure ()
      k := k + 1
  pure (model, fails)

def handlers : List (String × Handler) := [("scene", handle)]
end ScadVerif.Driver.C18
