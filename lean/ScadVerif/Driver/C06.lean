import ScadVerif.Driver.TreeF
import ScadVerif.Spec.OpenScadBind
import ScadVerif.Spec.ReadDouble
import ScadVerif.Gen.MacroArms
import ScadVerif.Spec.MacroMeaning
import ScadVerif.Model.Dim3
namespace ScadVerif.Driver.C06
open ScadVerif ScadVerif.Driver ScadVerif.Macro ScadVerif.Spec.MacroMeaning

/-- the argument value the harness passes in slot `i` of the given kind -/
def argVal (kind : String) (i : Nat) : Option (DVal Float) :=
  match kind with
  | "f" => some (.num ((i.toFloat + F!(1.0)) * F!(2.5) + F!(0.25)))
  | "u" => some (.nat (10 + i))
  | "b" => some (.bool (i % 2 == 0))
  | "s" => some (.str (("s" ++ toString i).toList))
  | "x" => some (.str (("#a" ++ toString i ++ "b1c2").toList))
  | "kh" => some (.enm c!"right")
  | "kv" => some (.enm c!"top")
  | "kd" => some (.enm c!"ttb")
  | "kc" => some (.enm c!"Red")
  | "pts2" => some (.pts2 [⟨i.toFloat, 1⟩, ⟨2, 3⟩, ⟨4, 5⟩])
  | "pts3" => some (.pts3 [⟨i.toFloat, 1, 2⟩, ⟨3, 4, 5⟩, ⟨6, 7, 8⟩, ⟨9, 10, 11⟩])
  | "paths" => some (.paths [[0, 1, 2], [2, 1, 0, i]])
  | "params" => some (.params [
      (c!"text", .str c!"t"), (c!"size", .num F!(12.5)), (c!"font", .str c!"f"), (c!"halign", .enm c!"center"),
      (c!"valign", .enm c!"bottom"), (c!"spacing", .num F!(1.5)), (c!"direction", .enm c!"rtl"),
      (c!"language", .str c!"l"), (c!"script", .str c!"c"), (c!"fn_", .opt (some (.nat 7)))])
  | _ => none

def childTree (j : Nat) : Scad Float :=
  let s := j.toFloat + F!(1.0)
  Scad.node (.cube ⟨s, s, s⟩ false) []

def hArm : Handler := fun args impl => do
  let ((k, nc, kinds), _) ← (do let k ← nat; let n ← nat; let ks ← listOf name; pure (k, n, ks) : P _).run args
  match Gen.arms[k]? with
  | none => throw s!"no arm {k}"
  | some a =>
    let arg (i : Nat) : Option (DVal Float) := (kinds[i]?).bind fun kd => argVal kd i
    let kids := (List.range nc).map childTree
    let m := a.expand arg kids
    let counts := match m with
      | some (_, log) => (List.range a.mvNames.length).map fun i => log.count i
      | none => []
    let model : Res := [
      ("node", match m with | some (t, _) => oTree t | none => ["PANIC"]),
      ("counts", oList (fun n => [oU n]) counts),
      ("child_counts", oList (fun n => [oU n]) (if a.hasChildren then List.replicate nc 1 else [])),
      -- the text is judged by the decode oracle below (the Float model has no `Display`)
      ("text", (impl.find "text").getD [])]
    let mut fails : List String := []
    -- every argument expression evaluated exactly once
    let c ← impl.parse "counts" (listOf nat)
    let macroName := String.ofList a.macroName
    match c.zipIdx.find? (fun (n, _) => n ≠ 1) with
    | some (n, i) =>
      fails := fails ++ [s!"argument_evaluated_{n}_times:{macroName}!:${String.ofList (a.mvNames.getD i [])}:arm={k}"]
    | none => pure ()
    let cc ← impl.parse "child_counts" (listOf nat)
    if cc.any (· ≠ 1) then fails := fails ++ [s!"child_not_evaluated_once:{macroName}!"]
    -- the node is what the same-looking OpenSCAD call means (Spec/MacroMeaning)
    if impl.isPanic "node" then fails := fails ++ ["macro_panicked"]
    else
      let want : Option (Scad Float) := do
        let fields ← expectedFields a
        let meaning : Arm := { a with fields := fields, lets := [] }
        let (t, _) ← meaning.expand arg kids
        pure t
      match want with
      | none => fails := fails ++ [s!"no_meaning_defined_for_this_form:{macroName}!"]
      | some w =>
        if impl.find "node" ≠ some (oTree w) then fails := fails ++ [s!"node_is_not_what_the_openscad_call_means:{macroName}!:arm={k}"]
        -- … and through emission: the text the crate prints for the node, parsed and bound by OpenSCAD's
        -- rules, denotes the same node
        let text ← impl.parse "text" str
        match Spec.parseProgram text.toList with
        | some [st] =>
          match Spec.decodeStmt FNum.read FNum.zero (Spec.completeStmt st) with
          | some t' =>
            if oTree (Scad.map FNum.val t') ≠ oTree w then
              fails := fails ++ [s!"emitted_call_means_a_different_node:{macroName}!:arm={k}"]
          | none => fails := fails ++ [s!"emitted_call_does_not_bind:{macroName}!:arm={k}"]
        | _ => fails := fails ++ [s!"emitted_text_is_not_one_statement:{macroName}!:arm={k}"]
    pure (model, fails)

mutual
/-- call names and children of a tree, as the emitter prints them -/
def shapeOf : Scad Float → Spec.Shape
  | .mk op cs => .node (((op.header fun _ => []).map (·.name)).getD []) (shapesOf cs)
def shapesOf : ScadList Float → List Spec.Shape
  | .nil => []
  | .cons h t => shapeOf h :: shapesOf t
end

def hAddSub : Handler := fun args impl => do
  let ((a, b), _) ← (do let a ← treeF; let b ← treeF; pure (a, b) : P _).run args
  -- the wrapped texts are judged by the shape oracle below (the Float model has no `Display`)
  let echo := ["in_minkowski", "in_difference", "in_intersection", "in_hull", "in_union"].filterMap fun k =>
    (impl.find k).map fun v => (k, v)
  let model : Res := [("add", oTree (Scad.add a b)), ("sub", oTree (Scad.sub a b))] ++ echo
  let mut fails : List String := []
  if impl.find "add" ≠ some (oTree (Scad.node .union [a, b])) then fails := fails ++ ["a_plus_b_is_not_union_of_a_b"]
  if impl.find "sub" ≠ some (oTree (Scad.node .difference [a, b])) then fails := fails ++ ["a_minus_b_is_not_difference_of_a_b"]
  -- `a + b` / `a - b` as operands: through emission each must remain ONE operand of its parent
  let sum := Scad.add a b; let dif := Scad.sub a b
  let parents : List (String × Scad Float) := [
    ("in_minkowski", Scad.node (.minkowski 3) [sum, b, dif]),
    ("in_difference", Scad.node .difference [sum, dif, b]),
    ("in_intersection", Scad.node .intersection [sum, b, dif]),
    ("in_hull", Scad.node .hull [sum, b, dif]),
    ("in_union", Scad.node .union [sum, b, dif])]
  for (key, t) in parents do
    match impl.find key with
    | none => pure ()      -- an older harness: nothing to check
    | some toks =>
      match (str.run toks) with
      | .ok (text, _) =>
        match Spec.parseProgram text.toList with
        | some [st] =>
          if st.shape != shapeOf t then fails := fails ++ [s!"operand_structure_lost_in_emission:{key}"]
        | _ => fails := fails ++ [s!"emitted_text_is_not_one_statement:{key}"]
      | .error _ => fails := fails ++ [s!"emission_panicked:{key}"]
  pure (model, fails)

def hInto : Handler := fun args impl => do
  let ((pts, fs, cv), _) ← (do let p ← listOf pt3; let f ← listOf (listOf nat); let c ← nat; pure (p, f, c) : P _).run args
  let plain : Scad Float := Scad.node (.polyhedron pts fs 1) []
  let withC : Scad Float := Scad.node (.polyhedron pts fs cv) []
  let model : Res := [("plain", oTree plain), ("with_convexity", oTree withC)]
  let mut fails : List String := []
  if impl.find "plain" ≠ some (oTree plain) then fails := fails ++ ["into_scad_changes_points_faces_or_convexity"]
  if impl.find "with_convexity" ≠ some (oTree withC) then fails := fails ++ ["into_scad_with_convexity_changes_something"]
  pure (model, fails)

def handlers : List (String × Handler) := [("arm", hArm), ("addsub", hAddSub), ("into_scad", hInto)]
end ScadVerif.Driver.C06
