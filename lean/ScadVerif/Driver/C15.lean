import ScadVerif.Driver.TreeF
import ScadVerif.Model.Parts
namespace ScadVerif.Driver.C15
open ScadVerif ScadVerif.Driver

def sameTree (a b : Scad Float) : Bool := oTree a == oTree b

/-- z-extent of an OpenSCAD cylinder primitive under a vertical shift -/
def zExtent (h : Float) (center : Bool) (shift : Float) : Float × Float :=
  if center then (shift - h / F!(2.0), shift + h / F!(2.0)) else (shift, shift + h)

/-- `straight|tapered od1 od2 wall length center fn` ↦ hollow and solid trees -/
def hStraight (tapered : Bool) : Handler := fun args impl => do
  let ((od1, od2, wall, length, center, fn), _) ← (do
    let a ← f64; let b ← f64; let w ← f64; let l ← f64; let c ← bool; let n ← nat
    pure (a, b, w, l, c, n) : P _).run args
  let hollow : Option (Scad Float) :=
    if tapered then Parts.Pipe.tapered od1 od2 wall length center fn else Parts.Pipe.straight od1 wall length center fn
  let solid : Scad Float :=
    if tapered then Parts.Pipe.taperedSolid od1 od2 length center fn else Parts.Pipe.straightSolid od1 length center fn
  let model : Res := [("hollow", optTree hollow), ("solid", oTree solid)]
  let admissible := od1 - F!(2.0) * wall > F!(0.0) && (!tapered || od2 - F!(2.0) * wall > F!(0.0)) && wall > F!(0.0)
  if !admissible then
    return (model, if impl.isPanic "hollow" || wall ≤ F!(0.0) then [] else ["bore_not_positive_must_panic"])
  if impl.isPanic "hollow" then return (model, ["builder_panicked"])
  let h ← impl.parse "hollow" treeF
  let s ← impl.parse "solid" treeF
  let mut fails : List String := []
  match h with
  | .mk .difference cs =>
    match cs.toList with
    | [body, .mk (.translate v) bs] =>
      if !sameTree body s then fails := fails ++ ["removing_the_bore_does_not_give_the_solid_pipe"]
      match body, bs.toList with
      | .mk (.cylinder bh br1 br2 bc _ _ _) _, [.mk (.cylinder h' r1 r2 c' _ _ _) _] =>
        if !(close (F!(2.0) * r1) (od1 - F!(2.0) * wall) F!(1e-12) && close (F!(2.0) * r2) ((if tapered then od2 else od1) - F!(2.0) * wall) F!(1e-12)) then
          fails := fails ++ ["bore_diameter_is_not_od_minus_two_walls"]
        if !(close (F!(2.0) * br1) od1 F!(1e-12) && close (F!(2.0) * br2) (if tapered then od2 else od1) F!(1e-12) && bh == length) then
          fails := fails ++ ["body_diameter_or_length"]
        if !(v.x == F!(0.0) && v.y == F!(0.0)) then fails := fails ++ ["bore_not_coaxial"]
        let (b0, b1) := zExtent bh bc F!(0.0)
        let (h0, h1) := zExtent h' c' v.z
        if !(h0 < b0 && b1 < h1) then
          fails := fails ++ [s!"bore_does_not_extend_beyond_both_ends:center={bc}:body=[{fmtF b0},{fmtF b1}]:bore=[{fmtF h0},{fmtF h1}]"]
      | _, _ => fails := fails ++ ["unexpected_pipe_structure"]
    | _ => fails := fails ++ ["unexpected_pipe_structure"]
  | _ => fails := fails ++ ["unexpected_pipe_structure"]
  pure (model, fails)

def hCurved : Handler := fun args impl => do
  let ((od, wall, deg, radius, fn), _) ← (do
    let a ← f64; let w ← f64; let d ← f64; let r ← f64; let n ← nat; pure (a, w, d, r, n) : P _).run args
  let hollow := Parts.Pipe.curved od wall deg radius fn
  let solid := Parts.Pipe.curvedSolid od deg radius fn
  let model : Res := [("hollow", optTree hollow), ("solid", optTree solid)]
  let admissible := od - F!(2.0) * wall > F!(0.0) && wall > F!(0.0) && F!(0.0) < deg && deg ≤ F!(360.0)
  if !admissible then
    return (model, if impl.isPanic "hollow" || !(F!(0.0) < deg && deg ≤ F!(360.0)) || wall ≤ F!(0.0) then [] else ["must_panic"])
  if impl.isPanic "hollow" || impl.isPanic "solid" then return (model, ["builder_panicked"])
  let h ← impl.parse "hollow" treeF
  let s ← impl.parse "solid" treeF
  let mut fails : List String := []
  -- translate [rotate [rotate_extrude [translate [section]]]]
  let peel (t : Scad Float) : Option (Pt3 Float × Pt3 Float × Float × Pt3 Float × Scad Float) :=
    match t with
    | .mk (.translate o) c1 => match c1.toList with
      | [.mk (.rotate none _ rv) c2] => match c2.toList with
        | [.mk (.rotateExtrude ang _ _ _ _) c3] => match c3.toList with
          | [.mk (.translate i) c4] => match c4.toList with
            | [sec] => some (o, rv, ang, i, sec)
            | _ => none
          | _ => none
        | _ => none
      | _ => none
    | _ => none
  match peel h, peel s with
  | some (o, rv, ang, i, sec), some (o', rv', ang', i', sec') =>
    -- the section centre (od/2 + radius, 0) is brought to the origin
    if !(o.x + i.x == F!(0.0) && o.y == F!(0.0) && o.z == F!(0.0) && i.y == F!(0.0) && i.z == F!(0.0)) then
      fails := fails ++ ["hollow_curved_pipe_section_not_centred_on_origin"]
    if !(o'.x + i'.x == F!(0.0) && o'.y == F!(0.0) && o'.z == F!(0.0)) then
      fails := fails ++ [s!"solid_curved_pipe_section_not_centred_on_origin:offset={fmtF (o'.x + i'.x)}"]
    if !(close i.x (od / F!(2.0) + radius) F!(1e-12) && ang == deg && ang' == deg) then fails := fails ++ ["bend_radius_or_angle"]
    if !(o.x == o'.x && rv == rv' && i == i') then fails := fails ++ ["solid_and_hollow_curved_pipe_placed_differently"]
    match sec with
    | .mk .difference cs => match cs.toList with
      | [outer, .mk (.circle r _ _ _) _] =>
        if !sameTree outer sec' then fails := fails ++ ["removing_the_bore_does_not_give_the_solid_pipe"]
        if !(close (F!(2.0) * r) (od - F!(2.0) * wall) F!(1e-12)) then fails := fails ++ ["bore_diameter_is_not_od_minus_two_walls"]
      | _ => fails := fails ++ ["unexpected_section_structure"]
    | _ => fails := fails ++ ["unexpected_section_structure"]
  | _, _ => fails := fails ++ ["unexpected_pipe_structure"]
  pure (model, fails)

def handlers : List (String × Handler) :=
  [("straight", hStraight false), ("tapered", hStraight true), ("curved", hCurved)]
end ScadVerif.Driver.C15
