/- Reading the harness' structural dump of a `Scad` tree; numbers carry their Rust `Display` text. -/
import ScadVerif.Driver.Proto
import ScadVerif.Model.Scad
import ScadVerif.Spec.OpenScadBind
import ScadVerif.Spec.ReadDouble
namespace ScadVerif.Driver
open ScadVerif

/-- an `f64` field together with the text Rust's `Display` printed for it -/
structure FNum where
  bits : UInt64
  txt : List Char
deriving Repr
instance : BEq FNum := ⟨fun a b => a.bits == b.bits⟩
def FNum.val (x : FNum) : Float := Float.ofBits x.bits
def FNum.show (x : FNum) : List Char := x.txt
def FNum.read (t : List Char) : Option FNum := (Spec.readDouble t).map fun b => ⟨b, t⟩
def FNum.zero : FNum := ⟨0, ['0']⟩

def strChars : P (List Char) := do return (← str).toList

def fnum : P FNum := do
  let cs ← tagged 'f'
  match parseHex cs with
  | none => throw "bad f64 token"
  | some n => let t ← strChars; pure ⟨n.toUInt64, t⟩

def npt2 : P (Pt2 FNum) := do return ⟨← fnum, ← fnum⟩
def npt3 : P (Pt3 FNum) := do return ⟨← fnum, ← fnum, ← fnum⟩
def npt4 : P (Pt4 FNum) := do return ⟨← fnum, ← fnum, ← fnum, ← fnum⟩
def kname : P (List Char) := do return (← name).toList
def paths : P (List (List Nat)) := listOf (listOf nat)

def opFields (n : String) : P (ScadOp FNum) :=
  if n = "Union" then pure ScadOp.union
  else if n = "Difference" then pure ScadOp.difference
  else if n = "Intersection" then pure ScadOp.intersection
  else if n = "Hull" then pure ScadOp.hull
  else if n = "Circle" then do return ScadOp.circle (← fnum) (← opt fnum) (← opt fnum) (← opt nat)
  else if n = "Sphere" then do return ScadOp.sphere (← fnum) (← opt fnum) (← opt fnum) (← opt nat)
  else if n = "Square" then do return ScadOp.square (← npt2) (← bool)
  else if n = "Cube" then do return ScadOp.cube (← npt3) (← bool)
  else if n = "Polygon" then do return ScadOp.polygon (← listOf npt2) (← opt paths) (← nat)
  else if n = "Text" then do
    let t ← strChars; let sz ← fnum; let font ← strChars; let h ← kname; let v ← kname
    let sp ← fnum; let d ← kname; let lang ← strChars; let scr ← strChars; let fn ← opt nat
    return ScadOp.text t sz font h v sp d lang scr fn
  else if n = "Import" then do return ScadOp.import_ (← strChars) (← nat)
  else if n = "Projection" then do return ScadOp.projection (← bool)
  else if n = "Cylinder" then do
    return ScadOp.cylinder (← fnum) (← fnum) (← fnum) (← bool) (← opt fnum) (← opt fnum) (← opt nat)
  else if n = "Polyhedron" then do return ScadOp.polyhedron (← listOf npt3) (← paths) (← nat)
  else if n = "LinearExtrude" then do
    return ScadOp.linearExtrude (← fnum) (← bool) (← nat) (← fnum) (← npt2) (← opt nat) (← opt nat)
  else if n = "RotateExtrude" then do
    return ScadOp.rotateExtrude (← fnum) (← nat) (← opt fnum) (← opt fnum) (← opt nat)
  else if n = "Surface" then do return ScadOp.surface (← strChars) (← bool) (← bool) (← nat)
  else if n = "Translate" then do return ScadOp.translate (← npt3)
  else if n = "Rotate" then do return ScadOp.rotate (← opt fnum) (← bool) (← npt3)
  else if n = "Scale" then do return ScadOp.scale (← npt3)
  else if n = "Resize" then do
    let ns ← npt3; let a ← bool; let iv ← bool; let x ← bool; let y ← bool; let z ← bool; let c ← nat
    return ScadOp.resize ns a iv (x, y, z) c
  else if n = "Mirror" then do return ScadOp.mirror (← npt3)
  else if n = "Color" then do return ScadOp.color (← opt npt4) (← opt kname) (← opt strChars) (← opt fnum)
  else if n = "Offset" then do return ScadOp.offset (← opt fnum) (← opt fnum) (← bool)
  else if n = "Minkowski" then do return ScadOp.minkowski (← nat)
  else throw s!"unknown op {n}"

/-- `N<Op> fields L<n> children` — iterative with an explicit stack would be safer for very deep
trees; the recursion depth here is the tree depth -/
partial def tree : P (Scad FNum) := do
  let cs ← tagged 'N'
  let op ← opFields (String.ofList cs)
  let kids ← listOf tree
  pure (Scad.node op kids)

/-! structural equality of trees -/
mutual
def scadBeq : Scad FNum → Scad FNum → Bool
  | .mk o1 c1, .mk o2 c2 => o1 == o2 && scadListBeq c1 c2
def scadListBeq : ScadList FNum → ScadList FNum → Bool
  | .nil, .nil => true
  | .cons a as, .cons b bs => scadBeq a b && scadListBeq as bs
  | _, _ => false
end

mutual
def scadShape : Scad FNum → Option Spec.Shape
  | .mk op cs => do
    let h ← op.header FNum.show
    pure (.node h.name (← scadShapes cs))
def scadShapes : ScadList FNum → Option (List Spec.Shape)
  | .nil => some []
  | .cons h t => do pure ((← scadShape h) :: (← scadShapes t))
end

/-- well-formedness of a tree (DESIGN C01): primitives have no children, `Color`/`Offset` have
exactly one alternative set, don't-care fields at their macro defaults -/
def opWF : ScadOp FNum → Bool
  | .color rgba col hex alpha =>
    (match rgba, col, hex with
     | some _, none, none => alpha.isNone
     | none, some _, none => true
     | none, none, some h => alpha.isNone && h.head? == some '#'
     | _, _, _ => false)
  | .offset r d ch => (match r, d with | some _, none => !ch | none, some _ => true | _, _ => false)
  | .rotate a sc v => (match a with
      | some _ => if sc then v.x.bits == 0 && v.y.bits == 0 && v.z.bits == 0 else true
      | none => !sc)
  | .resize _ auto isVec av _ => if isVec then !auto else av == (false, false, false)
  | _ => true
mutual
def scadWF : Scad FNum → Bool
  | .mk op cs => opWF op && (if op.isPrimitive then cs.isNil else true) && scadListWF cs
def scadListWF : ScadList FNum → Bool
  | .nil => true
  | .cons h t => scadWF h && scadListWF t
end

end ScadVerif.Driver
