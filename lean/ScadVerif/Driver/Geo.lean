/- shared helpers of the geometry drivers -/
import ScadVerif.Driver.Proto
import ScadVerif.Model.Dim3
import ScadVerif.Spec.Mesh
namespace ScadVerif.Driver
open ScadVerif ScadVerif.Spec

def optPts2 (o : Option (List (Pt2 Float))) : List String :=
  match o with | some l => oList oPt2 l | none => ["PANIC"]
def oFaces (fs : List (List Nat)) : List String := oList (fun f => oList (fun n => [oU n]) f) fs
def meshRes (o : Option (Dim3.Polyhedron Float)) : Res :=
  match o with
  | some p => [("pts", oList oPt3 p.points), ("faces", oFaces p.faces)]
  | none => [("pts", ["PANIC"]), ("faces", ["PANIC"])]
def faces : P (List (List Nat)) := listOf (listOf nat)

/-- do segments (a,b) and (c,d) intersect (closed)? -/
def segsMeet (a b c d : Pt2 Float) : Bool :=
  let o (p q r : Pt2 Float) : Float := (q.x - p.x) * (r.y - p.y) - (r.x - p.x) * (q.y - p.y)
  let d1 := o a b c; let d2 := o a b d; let d3 := o c d a; let d4 := o c d b
  if ((d1 > F!(0.0) && d2 < F!(0.0)) || (d1 < F!(0.0) && d2 > F!(0.0))) && ((d3 > F!(0.0) && d4 < F!(0.0)) || (d3 < F!(0.0) && d4 > F!(0.0))) then true
  else
    let on (p q r : Pt2 Float) : Bool :=
      fmax p.x q.x ≥ r.x && r.x ≥ (if p.x < q.x then p.x else q.x) &&
      fmax p.y q.y ≥ r.y && r.y ≥ (if p.y < q.y then p.y else q.y)
    (d1 == F!(0.0) && on a b c) || (d2 == F!(0.0) && on a b d) || (d3 == F!(0.0) && on c d a) || (d4 == F!(0.0) && on c d b)

/-- O(n²) simplicity test: non-adjacent edges do not meet, adjacent ones only share their vertex -/
def simpleB (poly : List (Pt2 Float)) : Bool := Id.run do
  let arr := poly.toArray
  let n := arr.size
  if n < 3 then return false
  for i in [0:n] do
    for j in [i+1:n] do
      let adjacent := j == i + 1 || (i == 0 && j == n - 1)
      if !adjacent then
        if segsMeet arr[i]! arr[(i + 1) % n]! arr[j]! arr[(j + 1) % n]! then return false
      else if arr[i]! == arr[j]! then return false
  return true

/-- smallest relative distance of a vertex from the open chord between two other vertices, not
counting chords that run along the polygon's own boundary (a straight run of edges with
straight-angle vertices): 0 means some vertex touches a potential *diagonal* -/
def degeneracyMargin (poly : List (Pt2 Float)) : Float := Id.run do
  let arr := poly.toArray
  let n := arr.size
  let mut best : Float := F!(1.0)
  let dist (a b c : Pt2 Float) : Float × Float :=      -- (parameter along ab, relative distance)
    let dx := b.x - a.x; let dy := b.y - a.y
    let l2 := dx * dx + dy * dy
    (((c.x - a.x) * dx + (c.y - a.y) * dy) / l2, (dx * (c.y - a.y) - dy * (c.x - a.x)).abs / l2)
  for i in [0:n] do
    for j in [i+1:n] do
      let a := arr[i]!; let b := arr[j]!
      if (b.x - a.x) * (b.x - a.x) + (b.y - a.y) * (b.y - a.y) > F!(0.0) then
        -- is the chord a straight run of the boundary (forwards i→j or backwards j→i)?
        let mut fwd := true
        for k in [i+1:j] do
          let (t, d) := dist a b arr[k]!
          if !(d < F!(1e-9) && F!(0.0) < t && t < F!(1.0)) then fwd := false
        let mut bwd := true
        for k in [0:n] do
          if k < i || k > j then
            let (t, d) := dist a b arr[k]!
            if !(d < F!(1e-9) && F!(0.0) < t && t < F!(1.0)) then bwd := false
        if !(fwd || bwd) || (j == i + 1) || (i == 0 && j == n - 1) then
          if !(j == i + 1) && !(i == 0 && j == n - 1) then
            for k in [0:n] do
              if k != i && k != j then
                let (t, d) := dist a b arr[k]!
                if F!(0.0) < t && t < F!(1.0) then
                  if d < best then best := d
  return best

/-- failures on inputs with a vertex within rounding distance of a chord are labelled as such
(known finding: the ear test uses plain floating-point predicates) -/
def labelDegenerate (poly : List (Pt2 Float)) (fails : List String) : List String :=
  if fails.isEmpty || poly.length > 400 then fails
  else if degeneracyMargin poly < F!(1e-9) then fails.map ("near_degenerate_input:" ++ ·) else fails


/-- mesh oracle shared by C04/C05/C07/C16/C18: closed, consistently oriented, outward -/
def meshOracle (pts : List (Pt3 Float)) (fs : List (List Nat)) (checkVolume : Bool) : List String :=
  let why := closedOrientedWhy pts.length fs
  let a := pts.toArray
  let vol := -(sixVolumeCCWAt (fun i => a.getD i ⟨0, 0, 0⟩) fs) / F!(6.0)
  (if why == "ok" then [] else [s!"mesh_not_closed_oriented:{why}"]) ++
  (if checkVolume && why == "ok" && !(vol > F!(0.0)) then [s!"mesh_inside_out:volume={fmtF vol}"] else [])

end ScadVerif.Driver
