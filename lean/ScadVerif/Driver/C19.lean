import ScadVerif.Driver.Proto
import ScadVerif.Model.Rng
import ScadVerif.Spec.MT19937
namespace ScadVerif.Driver.C19
open ScadVerif ScadVerif.Driver

def oG (x : Float32) : String := "g" ++ toHexPadded x.toBits.toNat 8
def f32 : P Float32 := do
  let cs ← tagged 'g'
  match parseHex cs with
  | some n => pure (Float32.ofBits n.toUInt32)
  | none => throw "bad f32 token"

def hStream : Handler := fun args impl => do
  let ((seed, count), _) ← (do let s ← nat; let c ← nat; pure (s, c) : P _).run args
  let outs := Rng.outputs count (Rng.withSeed seed.toUInt32)
  let toks := oList (fun (y : UInt32) => [oU y.toNat]) outs
  let model : Res := [("out", toks), ("out2", toks)]
  let got ← impl.parse "out" (listOf nat)
  let ref := (Spec.MT.stream seed.toUInt32 count).map (·.toNat)
  let mut fails : List String := []
  if got.length ≠ count then fails := fails ++ ["stream_length"]
  else
    match ((got.zip ref).zipIdx.find? fun ((a, b), _) => a ≠ b) with
    | some (_, k) => fails := fails ++ [s!"stream_differs_from_reference_mt19937_at_position:{k}"]
    | none => pure ()
  if impl.find "out2" ≠ impl.find "out" then fails := fails ++ ["stream_not_identical_on_second_run"]
  pure (model, fails)

/-- `state L624 words index count` — the generator started from an explicit state (hook) -/
def hState : Handler := fun args impl => do
  let ((buf, index, count), _) ← (do let b ← listOf nat; let i ← nat; let c ← nat; pure (b, i, c) : P _).run args
  if buf.length ≠ 624 || index > 624 then throw "state: 624 words and an index up to 624 expected"
  let st : Rng.MT := ⟨(buf.map (·.toUInt32)).toArray, index⟩
  let outs := Rng.outputs count st
  let model : Res := [("out", oList (fun (y : UInt32) => [oU y.toNat]) outs)]
  let got ← impl.parse "out" (listOf nat)
  let ref := (Spec.MT.streamFrom (buf.map (·.toUInt32)) index count).map (·.toNat)
  let mut fails : List String := []
  if got.length ≠ count then fails := fails ++ ["stream_length"]
  else
    match ((got.zip ref).zipIdx.find? fun ((a, b), _) => a ≠ b) with
    | some (_, k) => fails := fails ++ [s!"stream_from_state_differs_from_reference_recurrence_at_position:{k}"]
    | none => pure ()
  pure (model, fails)

/-- `maps u imin imax fmin fmax dmin dmax` — one raw output through every range map -/
def hMaps : Handler := fun args impl => do
  let ((u, imin, imax, fmin, fmax, dmin, dmax), _) ← (do
    let u ← nat; let a ← int; let b ← int; let c ← f32; let d ← f32; let e ← f64; let f ← f64
    pure (u, a, b, c, d, e, f) : P _).run args
  let raw := u.toUInt32
  let model : Res := [
    ("f01", [oG (Rng.f32_0_1 raw)]),
    ("i32", [oI (Rng.i32Minmax raw (Int32.ofInt imin) (Int32.ofInt imax)).toInt]),
    ("f32", [oG (Rng.f32Minmax raw fmin fmax)]),
    ("f64", [oF (Rng.f64Minmax raw dmin dmax)])]
  let mut fails : List String := []
  let v ← impl.parse "f01" f32
  if !(v ≥ 0 && v < 1) then fails := fails ++ [s!"f32_0_1_not_in_[0,1):raw={u}:value_bits={v.toBits}"]
  let i ← impl.parse "i32" int
  if imin < imax && imax - imin ≤ 16777216 then
    if !(imin ≤ i && i < imax) then fails := fails ++ [s!"i32_minmax_outside_[min,max):{i}_for_[{imin},{imax})"]
  let f ← impl.parse "f32" f32
  if fmin < fmax && (fmax - fmin).isFinite then
    if !(fmin ≤ f && f ≤ fmax) then fails := fails ++ ["f32_minmax_leaves_[min,max]"]
  let d ← impl.parse "f64" f64
  if dmin < dmax && (dmax - dmin).isFinite then
    if !(dmin ≤ d && d ≤ dmax) then fails := fails ++ ["f64_minmax_leaves_[min,max]"]
  pure (model, fails)

def handlers : List (String × Handler) := [("stream", hStream), ("state", hState), ("maps", hMaps)]
end ScadVerif.Driver.C19
