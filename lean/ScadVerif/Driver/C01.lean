import ScadVerif.Driver.Tree
namespace ScadVerif.Driver.C01
open ScadVerif ScadVerif.Driver ScadVerif.Spec

def opName : ScadOp FNum → String
  | .union => "Union" | .difference => "Difference" | .intersection => "Intersection"
  | .circle .. => "Circle" | .square .. => "Square" | .polygon .. => "Polygon" | .text .. => "Text"
  | .import_ .. => "Import" | .projection .. => "Projection" | .sphere .. => "Sphere" | .cube .. => "Cube"
  | .cylinder .. => "Cylinder" | .polyhedron .. => "Polyhedron" | .linearExtrude .. => "LinearExtrude"
  | .rotateExtrude .. => "RotateExtrude" | .surface .. => "Surface" | .translate .. => "Translate"
  | .rotate .. => "Rotate" | .scale .. => "Scale" | .resize .. => "Resize" | .mirror .. => "Mirror"
  | .color .. => "Color" | .offset .. => "Offset" | .hull => "Hull" | .minkowski .. => "Minkowski"

/-- integer fields of an op (for the "u64 above 2^53" diagnosis) -/
def natFields : ScadOp FNum → List Nat
  | .circle _ _ _ fn | .sphere _ _ _ fn => fn.toList
  | .polygon _ paths cv => cv :: (paths.getD []).flatten
  | .text _ _ _ _ _ _ _ _ _ fn => fn.toList
  | .import_ _ cv => [cv]
  | .cylinder _ _ _ _ _ _ fn => fn.toList
  | .polyhedron _ faces cv => cv :: faces.flatten
  | .linearExtrude _ _ cv _ _ sl fn => cv :: sl.toList ++ fn.toList
  | .rotateExtrude _ cv _ _ fn => cv :: fn.toList
  | .surface _ _ _ cv => [cv]
  | .resize _ _ _ _ cv => [cv]
  | .minkowski cv => [cv]
  | _ => []

/-- node-by-node diagnosis of why decoding the implementation's text does not give the tree back -/
partial def diag (t : Scad FNum) (s : Stmt) : List String :=
  match t, s with
  | .mk op cs, .mk name args body =>
    let here :=
      match decodeOp FNum.read FNum.zero name (completeArgs name args) with
      | some op' => if op' == op then [] else [s!"argument_binds_differently:{opName op}"]
      | none =>
        (match op with
         | .color _ (some c) _ _ =>
           if !knownColour c then [s!"colour_name_unknown_to_openscad:{String.ofList c}"] else []
         | _ => []) ++
        (if (natFields op).any (fun n => !exactInDouble n) then [s!"u64_not_exact_in_openscad_number:{opName op}"] else [])
        |> fun specific => if specific.isEmpty then [s!"arguments_do_not_decode:{opName op}"] else specific
    let kids := match body with
      | none => []
      | some b => (cs.toList.zip b.toList).flatMap fun (c, st) => diag c st
    here ++ kids

def firstN (l : List String) (n : Nat) : List String := l.take n

/-- `emit L<n> tree*` ↦ `@text s<hex>` -/
def handle (withBinding : Bool) : Handler := fun args impl => do
  let (ts, _) ← (listOf tree).run args
  let text := emitAll FNum.show ts
  let model : Res := [("text", [oStr (String.ofList text)])]
  if impl.isPanic "text" then
    return (model, ["emission_panicked"])
  let it ← impl.parse "text" str
  let cs := it.toList
  let allWF := ts.all scadWF
  if !allWF then return (model, ["SKIP:tree_not_well_formed"])
  let mut fails : List String := []
  if !braceDepthOK cs then fails := fails ++ ["opened_block_not_closed"]
  match parseProgram cs with
  | none => fails := fails ++ ["does_not_parse_as_openscad"]
  | some stmts =>
    if stmts.length ≠ ts.length then
      fails := fails ++ [s!"not_one_statement_per_tree:{stmts.length}_for_{ts.length}"]
    else
      let shapesT := ts.map scadShape
      let shapesS := stmts.map (fun s => some s.shape)
      if shapesT != shapesS then fails := fails ++ ["parsed_shape_differs_from_tree"]
      else if withBinding then
        for (t, s) in ts.zip stmts do
          match decodeStmt FNum.read FNum.zero (completeStmt s) with
          | some t' => if !scadBeq t t' then fails := fails ++ firstN (diag t s) 8
          | none => fails := fails ++ firstN (diag t s) 8
  pure (model, fails.eraseDups)

def handlers : List (String × Handler) := [("emit", handle false)]
def handlersC02 : List (String × Handler) := [("emit", handle true)]
end ScadVerif.Driver.C01
