import ScadVerif.Driver.TreeF
import ScadVerif.Model.Parts
namespace ScadVerif.Driver.C17
open ScadVerif ScadVerif.Driver

def sameTree (a b : Scad Float) : Bool := oTree a == oTree b

/-- placements of a left-deep `a + b` chain: the leaves with their Z rotation (none = unrotated) -/
partial def placements (t : Scad Float) : List (Option Float × Scad Float) :=
  match t with
  | .mk .union cs =>
    match cs.toList with
    | [l, .mk (.rotate none false v) rs] =>
      match rs.toList with
      | [leaf] => if v.x == F!(0.0) && v.y == F!(0.0) then placements l ++ [(some v.z, leaf)] else [(none, t)]
      | _ => [(none, t)]
    | _ => [(none, t)]
  | _ => [(none, t)]

def hPolar : Handler := fun args impl => do
  let ((s, count, deg), _) ← (do let s ← treeF; let c ← nat; let d ← f64; pure (s, c, d) : P _).run args
  let model : Res := [("tree", optTree (Parts.polarArray s count deg))]
  if deg > F!(360.0) then return (model, if impl.isPanic "tree" then [] else ["degrees_over_360_must_panic"])
  if impl.isPanic "tree" then return (model, ["builder_panicked"])
  let t ← impl.parse "tree" treeF
  let mut fails : List String := []
  -- `s` itself may be a union whose right child is a rotate: peel exactly `count` placements
  let rec peel (t : Scad Float) (k : Nat) : Option (List (Float × Scad Float) × Scad Float) :=
    match k with
    | 0 => some ([], t)
    | k + 1 =>
      match t with
      | .mk .union cs =>
        match cs.toList with
        | [l, .mk (.rotate none false v) rs] =>
          match rs.toList, peel l k with
          | [leaf], some (ps, base) =>
            if v.x == F!(0.0) && v.y == F!(0.0) then some (ps ++ [(v.z, leaf)], base) else none
          | _, _ => none
        | _ => none
      | _ => none
  match peel t count with
  | none => fails := fails ++ ["not_a_union_of_rotated_copies"]
  | some (ps, base) =>
    if !sameTree base s then fails := fails ++ ["first_copy_is_not_the_unmodified_subtree"]
    if !(ps.all fun (_, leaf) => sameTree leaf s) then fails := fails ++ ["a_copy_is_not_the_unmodified_subtree"]
    let step := if deg == F!(360.0) then F!(360.0) / count.toFloat else deg / (count - 1).toFloat
    let mut k := 0
    for (a, _) in ps do
      let want := -(k.toFloat * step)
      if !((a - want).abs ≤ F!(1e-9) * (F!(1.0) + want.abs)) then
        fails := fails ++ [s!"copy_{k}_rotated_by_{fmtF a}_want_{fmtF want}"]; break
      k := k + 1
  pure (model, fails)

def hCylChamfer : Handler := fun args impl => do
  let ((size, over, radius, height, seg), _) ← (do
    let a ← f64; let b ← f64; let c ← f64; let d ← f64; let s ← nat; pure (a, b, c, d, s) : P _).run args
  let model : Res := [("uncentred", oTree (Parts.externalCylinderChamfer size over radius height seg false)),
                      ("centred", oTree (Parts.externalCylinderChamfer size over radius height seg true))]
  let t ← impl.parse "uncentred" treeF
  let mut fails : List String := []
  -- the centred form is the un-centred one moved down by half the height: both rings keep their
  -- relative placement (the top one stays the mirror image of the bottom one about mid-height)
  let tc ← impl.parse "centred" treeF
  if !sameTree tc (Scad.node (.translate ⟨F!(0.0), F!(0.0), -height / F!(2.0)⟩) [t]) then
    fails := fails ++ ["centred_chamfer_is_not_the_uncentred_one_moved_by_half_the_height"]
  match t with
  | .mk .union cs =>
    match cs.toList with
    | [bottom, .mk (.translate v) ts] =>
      match ts.toList with
      | [.mk (.rotate none false rv) rs] =>
        match rs.toList with
        | [top] =>
          if !sameTree top bottom then fails := fails ++ ["top_cutter_is_not_the_same_ring_as_the_bottom_one"]
          -- mirror image about the mid-height plane: T(0,0,h) · Rx(180) on a full revolve about Z
          if !(v.x == F!(0.0) && v.y == F!(0.0) && v.z == height && rv.x == F!(180.0) && rv.y == F!(0.0) && rv.z == F!(0.0)) then
            fails := fails ++ ["top_cutter_is_not_the_mirror_image_about_mid_height"]
          match bottom with
          | .mk (.rotateExtrude ang _ _ _ fn) c1 =>
            if !(ang == F!(360.0) && fn == some seg) then fails := fails ++ ["cutter_not_revolved_with_requested_angle_and_segments"]
            match c1.toList with
            | [.mk (.translate _) c2] =>
              match c2.toList with
              | [.mk (.rotate (some a) true _) c3] =>
                match c3.toList with
                | [.mk (.polygon pts none _) _] =>
                  if !(a == F!(90.0)) then fails := fails ++ ["outline_not_turned_into_the_revolve_plane"]
                  let want : List (Pt2 Float) := Dim2.chamfer size over
                  if !(pts.length == want.length && (pts.zip want).all fun (p, q) => p.x == q.x && p.y == q.y) then
                    fails := fails ++ ["cutter_not_built_from_the_chamfer_outline"]
                | _ => fails := fails ++ ["unexpected_cutter_structure"]
              | _ => fails := fails ++ ["unexpected_cutter_structure"]
            | _ => fails := fails ++ ["unexpected_cutter_structure"]
          | _ => fails := fails ++ ["unexpected_cutter_structure"]
        | _ => fails := fails ++ ["unexpected_structure"]
      | _ => fails := fails ++ ["unexpected_structure"]
    | _ => fails := fails ++ ["unexpected_structure"]
  | _ => fails := fails ++ ["unexpected_structure"]
  pure (model, fails)

def handlers : List (String × Handler) := [("polar", hPolar), ("cylchamfer", hCylChamfer)]
end ScadVerif.Driver.C17
