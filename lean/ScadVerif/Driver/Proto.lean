/-
Line protocol between the Rust harness and the Lean driver (DESIGN appendix A).

A case line is   <op> <arg tokens>* TAB <impl result tokens>*
Result tokens are grouped: `@name tok*`.  The driver answers with one line
  <model result tokens>* TAB <oracle verdicts>*
where a verdict is `PASS`, or `FAIL:<oracle>:<detail>` (no spaces inside).
-/
import ScadVerif.Model.Mt4
namespace ScadVerif.Driver

/- `F!(1e-12)` : a `Float` literal evaluated at *compile* time.  (In Lean 4.33 a plain scientific
literal is converted by `Float.ofScientific` every time the expression runs — big-number
arithmetic, milliseconds for exponents like 1e300.) -/
open Lean in
macro:max "F!(" x:scientific ")" : term => do
  let (m, s, e) := x.getScientific
  let f := Float.ofScientific m s e
  `(Float.ofBits $(Syntax.mkNumLit (toString f.toBits.toNat)))

def hexDigit (c : Char) : Option Nat :=
  if '0' ≤ c ∧ c ≤ '9' then some (c.toNat - '0'.toNat)
  else if 'a' ≤ c ∧ c ≤ 'f' then some (c.toNat - 'a'.toNat + 10)
  else if 'A' ≤ c ∧ c ≤ 'F' then some (c.toNat - 'A'.toNat + 10)
  else none

def parseHex (s : List Char) : Option Nat :=
  s.foldlM (fun acc c => (hexDigit c).map (acc * 16 + ·)) 0

def hexChar (n : Nat) : Char :=
  if n < 10 then Char.ofNat ('0'.toNat + n) else Char.ofNat ('a'.toNat + n - 10)

def toHexPadded (n : Nat) (width : Nat) : String :=
  let rec go (n : Nat) (k : Nat) (acc : List Char) : List Char :=
    match k with
    | 0 => acc
    | k + 1 => go (n / 16) k (hexChar (n % 16) :: acc)
  String.ofList (go n width [])

/-- reader over a token list -/
abbrev P := StateT (List String) (Except String)

def tok : P String := do
  match (← get) with
  | [] => throw "unexpected end of tokens"
  | t :: ts => set ts; pure t

def peek? : P (Option String) := do
  match (← get) with
  | [] => pure none
  | t :: _ => pure (some t)

def atEnd : P Bool := do return (← get).isEmpty

def tagged (tag : Char) : P (List Char) := do
  let t ← tok
  match t.toList with
  | c :: rest => if c = tag then pure rest else throw s!"expected tag {tag} in token {t}"
  | [] => throw "empty token"

def f64 : P Float := do
  let cs ← tagged 'f'
  match parseHex cs with
  | some n => pure (Float.ofBits n.toUInt64)
  | none => throw s!"bad f64 token"

def nat : P Nat := do
  let cs ← tagged 'u'
  match (String.ofList cs).toNat? with
  | some n => pure n
  | none => throw "bad u token"

def int : P Int := do
  let cs ← tagged 'i'
  match (String.ofList cs).toInt? with
  | some n => pure n
  | none => throw "bad i token"

def bool : P Bool := do
  let cs ← tagged 'b'
  match cs with
  | ['0'] => pure false
  | ['1'] => pure true
  | _ => throw "bad b token"

/-- string as hex of UTF-8 bytes -/
def strBytes : P (List UInt8) := do
  let cs ← tagged 's'
  let rec go : List Char → Option (List UInt8)
    | [] => some []
    | a :: b :: rest => do
        let h ← hexDigit a; let l ← hexDigit b
        let r ← go rest
        pure ((h * 16 + l).toUInt8 :: r)
    | _ => none
  match go cs with
  | some bs => pure bs
  | none => throw "bad s token"

def str : P String := do
  let bs ← strBytes
  match String.fromUTF8? (ByteArray.mk bs.toArray) with
  | some s => pure s
  | none => throw "bad utf8"

def name : P String := do
  let cs ← tagged 'k'
  pure (String.ofList cs)

def listOf {α} (p : P α) : P (List α) := do
  let cs ← tagged 'L'
  match (String.ofList cs).toNat? with
  | none => throw "bad L token"
  | some n =>
    let mut out : Array α := #[]
    for _ in [0:n] do
      out := out.push (← p)
    pure out.toList

def opt {α} (p : P α) : P (Option α) := do
  let t ← tok
  if t = "o-" then pure none
  else if t = "o+" then some <$> p
  else throw s!"bad option token {t}"

instance : Inhabited (Pt2 Float) := ⟨⟨0, 0⟩⟩
instance : Inhabited (Pt3 Float) := ⟨⟨0, 0, 0⟩⟩
instance : Inhabited (Pt4 Float) := ⟨⟨0, 0, 0, 0⟩⟩
def pt2 : P (Pt2 Float) := do return ⟨← f64, ← f64⟩
def pt3 : P (Pt3 Float) := do return ⟨← f64, ← f64, ← f64⟩
def pt4 : P (Pt4 Float) := do return ⟨← f64, ← f64, ← f64, ← f64⟩
def mt4 : P (Mt4 Float) := do return ⟨← pt4, ← pt4, ← pt4, ← pt4⟩

/-! output -/
def oF (x : Float) : String := "f" ++ toHexPadded x.toBits.toNat 16
def oU (n : Nat) : String := "u" ++ toString n
def oI (n : Int) : String := "i" ++ toString n
def oB (b : Bool) : String := if b then "b1" else "b0"
def oPt2 (p : Pt2 Float) : List String := [oF p.x, oF p.y]
def oPt3 (p : Pt3 Float) : List String := [oF p.x, oF p.y, oF p.z]
def oPt4 (p : Pt4 Float) : List String := [oF p.x, oF p.y, oF p.z, oF p.w]
def oMt4 (m : Mt4 Float) : List String := oPt4 m.x ++ oPt4 m.y ++ oPt4 m.z ++ oPt4 m.w
def oList {α} (f : α → List String) (xs : List α) : List String :=
  s!"L{xs.length}" :: xs.flatMap f
def oStrBytes (bs : List UInt8) : String :=
  "s" ++ String.ofList (bs.flatMap fun b => [hexChar (b.toNat / 16), hexChar (b.toNat % 16)])
def oStr (s : String) : String := oStrBytes s.toUTF8.toList

/-- grouped result: `@name` followed by its tokens -/
abbrev Res := List (String × List String)
def Res.render (r : Res) : String :=
  " ".intercalate (r.flatMap fun (n, ts) => ("@" ++ n) :: ts)

/-- split the impl result tokens into groups -/
def parseGroups (ts : List String) : Res :=
  let rec go (ts : List String) (cur : Option (String × List String)) (acc : Res) : Res :=
    match ts with
    | [] => match cur with
      | some (n, xs) => (acc ++ [(n, xs.reverse)])
      | none => acc
    | t :: rest =>
      if t.startsWith "@" then
        let acc := match cur with
          | some (n, xs) => acc ++ [(n, xs.reverse)]
          | none => acc
        go rest (some ((t.drop 1).toString, [])) acc
      else
        match cur with
        | some (n, xs) => go rest (some (n, t :: xs)) acc
        | none => go rest none acc
  go ts none []

def Res.find (r : Res) (n : String) : Option (List String) :=
  (r.find? (·.1 = n)).map (·.2)

/-- run a token parser on a group of the impl result -/
def Res.parse {α} (r : Res) (n : String) (p : P α) : Except String α :=
  match r.find n with
  | none => .error s!"missing group {n}"
  | some ts =>
    if ts = ["PANIC"] then .error s!"group {n} panicked" else
    match p.run ts with
    | .ok (a, _) => .ok a
    | .error e => .error s!"group {n}: {e}"

def Res.isPanic (r : Res) (n : String) : Bool := r.find n = some ["PANIC"]

/-- a handler gets the argument tokens and the grouped impl result and returns the model
result and the list of oracle failures (`oracle:detail`, no spaces). -/
abbrev Handler := List String → Res → Except String (Res × List String)

/-- relative/absolute closeness used by float oracles (exploration support only) -/
def fmax (a b : Float) : Float := if a < b then b else a
def close (a b tol : Float) : Bool :=
  if a.isNaN || b.isNaN then false else
  (a - b).abs ≤ tol * (F!(1.0) + fmax a.abs b.abs) || a == b

def fmtF (x : Float) : String := (toString x).replace " " ""

end ScadVerif.Driver
