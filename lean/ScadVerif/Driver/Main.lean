import ScadVerif.Driver.C01
import ScadVerif.Driver.C03
import ScadVerif.Driver.C04
import ScadVerif.Driver.C06
import ScadVerif.Driver.C07
import ScadVerif.Driver.C08
import ScadVerif.Driver.C09
import ScadVerif.Driver.C10
import ScadVerif.Driver.C11
import ScadVerif.Driver.C12
import ScadVerif.Driver.C13
import ScadVerif.Driver.C15
import ScadVerif.Driver.C16
import ScadVerif.Driver.C17
import ScadVerif.Driver.C18
import ScadVerif.Driver.C19
open ScadVerif.Driver

def allHandlers : List (String × List (String × Handler)) :=
  [("C01", C01.handlers ++ [("file", C13.handle false)]), ("C02", C01.handlersC02), ("C03", C03.handlers), ("C04", C04.handlers 4), ("C05", C04.handlers 5), ("C06", C06.handlers), ("C07", C07.handlers), ("C08", C08.handlers), ("C09", C09.handlers), ("C10", C10.handlers), ("C11", C11.handlers), ("C12", C12.handlers), ("C13", C13.handlers), ("C14", C16.handlersC14), ("C15", C15.handlers), ("C16", C16.handlers), ("C17", C17.handlers), ("C18", C18.handlers), ("C19", C19.handlers)]

def processLine (hs : List (String × Handler)) (line : String) : String :=
  let parts := line.splitOn "\t"
  let req := (parts.getD 0 "").splitOn " " |>.filter (· ≠ "")
  let impl := (parts.getD 1 "").splitOn " " |>.filter (· ≠ "")
  match req with
  | [] => "ERROR empty\t"
  | op :: args =>
    match hs.find? (·.1 = op) with
    | none => s!"ERROR unknown-op:{op}\t"
    | some (_, h) =>
      match h args (parseGroups impl) with
      | .ok (model, fails) =>
        model.render ++ "\t" ++ (if fails.isEmpty then "PASS" else " ".intercalate (fails.map fun f => if f.startsWith "SKIP" then f else "FAIL:" ++ f))
      | .error e => "ERROR " ++ (e.replace "\t" " ") ++ "\t"

partial def loop (hin : IO.FS.Stream) (hout : IO.FS.Stream) (hs : List (String × Handler)) : IO Unit := do
  let line ← hin.getLine
  if line.isEmpty then return ()
  let line := (line.dropEndWhile (fun c => c = '\n' || c = '\r')).toString
  hout.putStrLn (processLine hs line)
  loop hin hout hs

def main (args : List String) : IO UInt32 := do
  match args with
  | [pid] =>
    match allHandlers.find? (·.1 = pid) with
    | none => IO.eprintln s!"unknown property {pid}"; return 2
    | some (_, hs) =>
      loop (← IO.getStdin) (← IO.getStdout) hs
      return 0
  | _ => IO.eprintln "usage: driver <ID> < cases > results"; return 2
