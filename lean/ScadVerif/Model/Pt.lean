/-
Model of scad_tree_math::{pt2, pt3, pt4}: points, operators, helpers, list wrappers.
Expression order follows the Rust source (left-to-right association).
-/
import ScadVerif.Model.Scalar
namespace ScadVerif

@[ext] structure Pt2 (α : Type) where
  x : α
  y : α
deriving Repr, DecidableEq, BEq

@[ext] structure Pt3 (α : Type) where
  x : α
  y : α
  z : α
deriving Repr, DecidableEq, BEq

@[ext] structure Pt4 (α : Type) where
  x : α
  y : α
  z : α
  w : α
deriving Repr, DecidableEq, BEq

section Ops
variable {α : Type}

/-! ### Pt2 -/
namespace Pt2
variable [Add α] [Sub α] [Mul α] [Div α] [Neg α] [OfNat α 0] [OfNat α 1]

def add (a b : Pt2 α) : Pt2 α := ⟨a.x + b.x, a.y + b.y⟩
def sub (a b : Pt2 α) : Pt2 α := ⟨a.x - b.x, a.y - b.y⟩
def smul (a : Pt2 α) (k : α) : Pt2 α := ⟨a.x * k, a.y * k⟩
def sdiv (a : Pt2 α) (k : α) : Pt2 α := ⟨a.x / k, a.y / k⟩
/-- `impl Neg`: `self * -1.0` -/
def neg (a : Pt2 α) : Pt2 α := smul a (-1)
instance : Add (Pt2 α) := ⟨add⟩
instance : Sub (Pt2 α) := ⟨sub⟩
instance : Neg (Pt2 α) := ⟨neg⟩
instance : HMul (Pt2 α) α (Pt2 α) := ⟨smul⟩
instance : HDiv (Pt2 α) α (Pt2 α) := ⟨sdiv⟩

/-- `Index<usize>`: `none` models the panic. -/
def get? (a : Pt2 α) : Nat → Option α
  | 0 => some a.x | 1 => some a.y | _ => none
/-- `IndexMut<usize>` followed by assignment. -/
def set? (a : Pt2 α) (i : Nat) (v : α) : Option (Pt2 α) :=
  match i with
  | 0 => some { a with x := v } | 1 => some { a with y := v } | _ => none

def dot (a b : Pt2 α) : α := a.x * b.x + a.y * b.y
def len2 (a : Pt2 α) : α := dot a a
def len [HasSqrt α] (a : Pt2 α) : α := sqrt (len2 a)
def normalized [HasSqrt α] (a : Pt2 α) : Pt2 α := let l := len a; ⟨a.x / l, a.y / l⟩
/-- `normalize(&mut self)`: `*self /= self.len()` -/
def normalize [HasSqrt α] (a : Pt2 α) : Pt2 α := sdiv a (len a)
/-- rotation core on a (cos, sin) pair -/
def rotatedCS (a : Pt2 α) (c s : α) : Pt2 α := ⟨a.x * c - a.y * s, a.x * s + a.y * c⟩
def rotated [OfNatCast α] [Trig α] (a : Pt2 α) (deg : α) : Pt2 α := rotatedCS a (dcos deg) (dsin deg)
def lerp (a b : Pt2 α) (t : α) : Pt2 α := add a (smul (sub b a) t)
def toXz (a : Pt2 α) : Pt3 α := ⟨a.x, 0, a.y⟩
def asPt3 (a : Pt2 α) (z : α) : Pt3 α := ⟨a.x, a.y, z⟩
end Pt2

/-! ### Pt3 -/
namespace Pt3
variable [Add α] [Sub α] [Mul α] [Div α] [Neg α] [OfNat α 0] [OfNat α 1]

def add (a b : Pt3 α) : Pt3 α := ⟨a.x + b.x, a.y + b.y, a.z + b.z⟩
def sub (a b : Pt3 α) : Pt3 α := ⟨a.x - b.x, a.y - b.y, a.z - b.z⟩
def smul (a : Pt3 α) (k : α) : Pt3 α := ⟨a.x * k, a.y * k, a.z * k⟩
def sdiv (a : Pt3 α) (k : α) : Pt3 α := ⟨a.x / k, a.y / k, a.z / k⟩
def neg (a : Pt3 α) : Pt3 α := smul a (-1)
instance : Add (Pt3 α) := ⟨add⟩
instance : Sub (Pt3 α) := ⟨sub⟩
instance : Neg (Pt3 α) := ⟨neg⟩
instance : HMul (Pt3 α) α (Pt3 α) := ⟨smul⟩
instance : HDiv (Pt3 α) α (Pt3 α) := ⟨sdiv⟩

def get? (a : Pt3 α) : Nat → Option α
  | 0 => some a.x | 1 => some a.y | 2 => some a.z | _ => none
def set? (a : Pt3 α) (i : Nat) (v : α) : Option (Pt3 α) :=
  match i with
  | 0 => some { a with x := v } | 1 => some { a with y := v } | 2 => some { a with z := v }
  | _ => none

def dot (a b : Pt3 α) : α := a.x * b.x + a.y * b.y + a.z * b.z
def cross (a b : Pt3 α) : Pt3 α :=
  ⟨a.y * b.z - a.z * b.y, a.z * b.x - a.x * b.z, a.x * b.y - a.y * b.x⟩
def len2 (a : Pt3 α) : α := dot a a
def len [HasSqrt α] (a : Pt3 α) : α := sqrt (len2 a)
def normalized [HasSqrt α] (a : Pt3 α) : Pt3 α := let l := len a; ⟨a.x / l, a.y / l, a.z / l⟩
def normalize [HasSqrt α] (a : Pt3 α) : Pt3 α := sdiv a (len a)
def rotatedXCS (a : Pt3 α) (c s : α) : Pt3 α := ⟨a.x, a.y * c - a.z * s, a.y * s + a.z * c⟩
/-- right-handed rotation about +Y (the repaired `rotated_y`) -/
def rotatedYCS (a : Pt3 α) (c s : α) : Pt3 α := ⟨a.x * c + a.z * s, a.y, a.z * c - a.x * s⟩
/-- `rotated_y` as first published (left-handed) -/
def rotatedYCSLegacy (a : Pt3 α) (c s : α) : Pt3 α := ⟨a.x * c - a.z * s, a.y, a.x * s + a.z * c⟩
def rotatedZCS (a : Pt3 α) (c s : α) : Pt3 α := ⟨a.x * c - a.y * s, a.x * s + a.y * c, a.z⟩
section
variable [OfNatCast α] [Trig α]
def rotatedX (a : Pt3 α) (deg : α) : Pt3 α := rotatedXCS a (dcos deg) (dsin deg)
def rotatedY (a : Pt3 α) (deg : α) : Pt3 α := rotatedYCS a (dcos deg) (dsin deg)
def rotatedZ (a : Pt3 α) (deg : α) : Pt3 α := rotatedZCS a (dcos deg) (dsin deg)
end
def lerp (a b : Pt3 α) (t : α) : Pt3 α := add a (smul (sub b a) t)
def asPt4 (a : Pt3 α) (w : α) : Pt4 α := ⟨a.x, a.y, a.z, w⟩
end Pt3

/-! ### Pt4 -/
namespace Pt4
variable [Add α] [Sub α] [Mul α] [Div α] [Neg α] [OfNat α 0] [OfNat α 1]

def add (a b : Pt4 α) : Pt4 α := ⟨a.x + b.x, a.y + b.y, a.z + b.z, a.w + b.w⟩
def sub (a b : Pt4 α) : Pt4 α := ⟨a.x - b.x, a.y - b.y, a.z - b.z, a.w - b.w⟩
def smul (a : Pt4 α) (k : α) : Pt4 α := ⟨a.x * k, a.y * k, a.z * k, a.w * k⟩
def sdiv (a : Pt4 α) (k : α) : Pt4 α := ⟨a.x / k, a.y / k, a.z / k, a.w / k⟩
def neg (a : Pt4 α) : Pt4 α := smul a (-1)
instance : Add (Pt4 α) := ⟨add⟩
instance : Sub (Pt4 α) := ⟨sub⟩
instance : Neg (Pt4 α) := ⟨neg⟩
instance : HMul (Pt4 α) α (Pt4 α) := ⟨smul⟩
instance : HDiv (Pt4 α) α (Pt4 α) := ⟨sdiv⟩

def get? (a : Pt4 α) : Nat → Option α
  | 0 => some a.x | 1 => some a.y | 2 => some a.z | 3 => some a.w | _ => none
def set? (a : Pt4 α) (i : Nat) (v : α) : Option (Pt4 α) :=
  match i with
  | 0 => some { a with x := v } | 1 => some { a with y := v } | 2 => some { a with z := v }
  | 3 => some { a with w := v } | _ => none

/-- `Pt4::dot` deliberately sums x, y, z only. -/
def dot (a b : Pt4 α) : α := a.x * b.x + a.y * b.y + a.z * b.z
/-- full four-component dot product (private `dot4` helper of mt4.rs after the repair) -/
def dot4 (a b : Pt4 α) : α := a.x * b.x + a.y * b.y + a.z * b.z + a.w * b.w
def cross (a b : Pt4 α) : Pt4 α :=
  ⟨a.y * b.z - a.z * b.y, a.z * b.x - a.x * b.z, a.x * b.y - a.y * b.x, 0⟩
def len2 (a : Pt4 α) : α := dot a a
def len [HasSqrt α] (a : Pt4 α) : α := sqrt (len2 a)
def normalized [HasSqrt α] (a : Pt4 α) : Pt4 α := let l := len a; ⟨a.x / l, a.y / l, a.z / l, 0⟩
def normalize [HasSqrt α] (a : Pt4 α) : Pt4 α := sdiv a (len a)
def lerp (a b : Pt4 α) (t : α) : Pt4 α := add a (smul (sub b a) t)
def asPt3 (a : Pt4 α) : Pt3 α := ⟨a.x, a.y, a.z⟩
end Pt4

/-! ### list wrappers (`Pt2s`, `Pt3s`) -/
section Lists
variable [Add α] [Sub α] [Mul α] [Div α] [Neg α] [OfNat α 0] [OfNat α 1]

def Pt2s.translate (ps : List (Pt2 α)) (d : Pt2 α) : List (Pt2 α) := ps.map (fun p => Pt2.add p d)
def Pt2s.rotate [OfNatCast α] [Trig α] (ps : List (Pt2 α)) (deg : α) : List (Pt2 α) :=
  ps.map (fun p => Pt2.rotated p deg)
def Pt3s.translate (ps : List (Pt3 α)) (d : Pt3 α) : List (Pt3 α) := ps.map (fun p => Pt3.add p d)
def Pt3s.fromPt2s (ps : List (Pt2 α)) (z : α) : List (Pt3 α) := ps.map (fun p => Pt2.asPt3 p z)
section
variable [OfNatCast α] [Trig α]
def Pt3s.rotateX (ps : List (Pt3 α)) (deg : α) : List (Pt3 α) := ps.map (fun p => Pt3.rotatedX p deg)
def Pt3s.rotateY (ps : List (Pt3 α)) (deg : α) : List (Pt3 α) := ps.map (fun p => Pt3.rotatedY p deg)
def Pt3s.rotateZ (ps : List (Pt3 α)) (deg : α) : List (Pt3 α) := ps.map (fun p => Pt3.rotatedZ p deg)
end
end Lists

end Ops
end ScadVerif
