/-
Scalar abstraction of the model.

Every numeric definition of the model is generic in the scalar type `α` and uses
core operator classes plus the small classes below.  Instances:
* `Float`  — executed by the driver (IEEE binary64, C libm) — this file;
* fields / `ℝ` — what the theorems talk about — `Lemmas/RealInst.lean`;
* `Int`, `Rat` — kernel-evaluable counter-witnesses.

This file imports nothing outside core so that the driver links as an executable.
-/
namespace ScadVerif

/-- Rust `n as f64` for an unsigned integer `n`. -/
class OfNatCast (α : Type) where
  cast : Nat → α

/-- libm functions. -/
class Trig (α : Type) where
  sin : α → α
  cos : α → α
  tan : α → α
  asin : α → α
  acos : α → α
  atan : α → α
  pi : α

class HasSqrt (α : Type) where
  sqrt : α → α

class HasAbs (α : Type) where
  abs : α → α

/-- Boolean comparisons (`<`, `<=`, `==` of Rust's `f64`). -/
class Cmp (α : Type) where
  ltb : α → α → Bool
  leb : α → α → Bool
  eqb : α → α → Bool

/-- Rust `x as usize` / `x as u64` on a float (saturating, NaN ↦ 0). -/
class HasTrunc (α : Type) where
  trunc : α → Nat

export OfNatCast (cast)
export HasSqrt (sqrt)

/-- literal `n` of the scalar type -/
@[reducible] def lit {α : Type} [OfNatCast α] (n : Nat) : α := OfNatCast.cast n

instance : OfNatCast Float := ⟨Float.ofNat⟩

def floatPi : Float := Float.ofBits 0x400921FB54442D18

instance : Trig Float where
  sin := Float.sin
  cos := Float.cos
  tan := Float.tan
  asin := Float.asin
  acos := Float.acos
  atan := Float.atan
  pi := floatPi

instance : HasSqrt Float := ⟨Float.sqrt⟩
instance : HasAbs Float := ⟨Float.abs⟩
instance : Cmp Float where
  ltb a b := decide (a < b)
  leb a b := decide (a ≤ b)
  eqb a b := a == b
instance : HasTrunc Float := ⟨fun x => x.toUInt64.toNat⟩

instance : OfNatCast Int := ⟨Int.ofNat⟩
instance : Cmp Int where
  ltb a b := decide (a < b)
  leb a b := decide (a ≤ b)
  eqb a b := decide (a = b)
instance : HasAbs Int := ⟨fun x => Int.ofNat x.natAbs⟩

section Degrees
variable {α : Type} [Mul α] [Div α] [OfNatCast α] [Trig α]

/-- Rust `f64::to_radians`: `x * (PI / 180.0)`. -/
def toRad (x : α) : α := x * (Trig.pi / lit 180)
/-- Rust `f64::to_degrees`: `x * (180.0 / PI)`. -/
def toDeg (x : α) : α := x * (lit 180 / Trig.pi)

def dsin (d : α) : α := Trig.sin (toRad d)
def dcos (d : α) : α := Trig.cos (toRad d)
def dtan (d : α) : α := Trig.tan (toRad d)
/-- scad_tree_math `dasin` after the repair: the arc-sine, in degrees. -/
def dasin (x : α) : α := toDeg (Trig.asin x)
def dacos (x : α) : α := toDeg (Trig.acos x)
def datan (x : α) : α := toDeg (Trig.atan x)
/-- the function as first published: converts the *argument* to radians. -/
def dasinLegacy (x : α) : α := Trig.asin (toRad x)
def dacosLegacy (x : α) : α := Trig.acos (toRad x)
def datanLegacy (x : α) : α := Trig.atan (toRad x)
end Degrees

/-- `approx_eq a b eps := (a - b).abs() < eps`. -/
def approxEq {α : Type} [Sub α] [HasAbs α] [Cmp α] (a b eps : α) : Bool :=
  Cmp.ltb (HasAbs.abs (a - b)) eps

end ScadVerif
