/-
Model of scad_tree::dim2 — 2D profile generators, Béziers, chains — after the repair of the
Bézier parameter (`t = i / segments`).
-/
import ScadVerif.Model.Pt
namespace ScadVerif.Dim2
variable {α : Type} [Add α] [Sub α] [Mul α] [Div α] [Neg α] [OfNat α 0] [OfNat α 1]
  [OfNatCast α] [Trig α]

/-- `arc(start, degrees, segments)`; `assert!(degrees <= 360.0)` is the `none` -/
def arc [Cmp α] (start : Pt2 α) (degrees : α) (segments : Nat) : Option (List (Pt2 α)) :=
  if !(Cmp.leb degrees (lit 360)) then none else
  let nPts := if Cmp.eqb degrees (lit 360) then segments else segments + 1
  some ((List.range nPts).map fun i => start.rotated (cast i * -degrees / cast segments))

def circle [Cmp α] (radius : α) (segments : Nat) : Option (List (Pt2 α)) :=
  arc ⟨radius, 0⟩ (lit 360) segments
def inscribedPolygon [Cmp α] (nSides : Nat) (radius : α) : Option (List (Pt2 α)) := circle radius nSides
def circumscribedPolygon [Cmp α] (nSides : Nat) (radius : α) : Option (List (Pt2 α)) :=
  inscribedPolygon nSides (radius / dcos (lit 180 / cast nSides))

def roundedRect [Cmp α] (width height radius : α) (segments : Nat) (center : Bool) : Option (List (Pt2 α)) := do
  let tr ← arc ⟨0, radius⟩ (lit 90) segments
  let tr := Pt2s.translate tr ⟨width - radius, height - radius⟩
  let br ← arc ⟨radius, 0⟩ (lit 90) segments
  let br := Pt2s.translate br ⟨width - radius, radius⟩
  let bl ← arc ⟨-0, -radius⟩ (lit 90) segments
  let bl := Pt2s.translate bl ⟨radius, radius⟩
  let tl ← arc ⟨-radius, 0⟩ (lit 90) segments
  let tl := Pt2s.translate tl ⟨radius, height - radius⟩
  let all := tr ++ br ++ bl ++ tl
  pure (if center then Pt2s.translate all ⟨-width / lit 2, -height / lit 2⟩ else all)

def chamfer (size oversize : α) : List (Pt2 α) :=
  [⟨0, size + oversize⟩, ⟨oversize, size + oversize⟩, ⟨oversize, size⟩, ⟨size, oversize⟩,
   ⟨size + oversize, oversize⟩, ⟨oversize + size, 0⟩, ⟨0, 0⟩]

/-- Bézier parameter of sample `i` (repaired: `i / segments`) -/
def param (i segments : Nat) : α := cast i / cast segments
/-- … as first published: `i * (1 / segments)` -/
def paramLegacy (i segments : Nat) : α := cast i * (1 / cast segments)

def quadPoint (s c e : Pt2 α) (t : α) : Pt2 α :=
  s * (1 - t) * (1 - t) + c * t * (1 - t) * (lit 2 : α) + e * t * t
def cubicPoint (s c1 c2 e : Pt2 α) (t : α) : Pt2 α :=
  s * (1 - t) * (1 - t) * (1 - t) + c1 * t * (1 - t) * (1 - t) * (lit 3 : α) + c2 * t * t * (1 - t) * (lit 3 : α)
    + e * t * t * t

def quadraticBezier (s c e : Pt2 α) (segments : Nat) : List (Pt2 α) :=
  (List.range (segments + 1)).map fun i => quadPoint s c e (param i segments)
def cubicBezier (s c1 c2 e : Pt2 α) (segments : Nat) : List (Pt2 α) :=
  (List.range (segments + 1)).map fun i => cubicPoint s c1 c2 e (param i segments)

/-- the literal `0.5` (digits over a power of ten, like every decimal literal of the model) -/
def half : α := lit 5 / lit 10

def star (nPoints : Nat) (inner outer : α) : List (Pt2 α) :=
  let angle : α := -(lit 360) / cast nPoints
  (List.range nPoints).flatMap fun i =>
    [⟨dcos (angle * cast i) * inner, dsin (angle * cast i) * inner⟩,
     ⟨dcos (angle * (cast i + half)) * outer, dsin (angle * (cast i + half)) * outer⟩]

/-! ### chains -/
/-- `QuadraticBezier2D` -/
structure Quadratic (α : Type) where
  start : Pt2 α
  control : Pt2 α
  end_ : Pt2 α
  segments : Nat

structure Cubic (α : Type) where
  start : Pt2 α
  control1 : Pt2 α
  control2 : Pt2 α
  end_ : Pt2 α
  segments : Nat

structure Chain (α : Type) where
  curves : List (Cubic α)
  closed : Bool

variable [HasSqrt α]

def Chain.new (s c1 c2 e : Pt2 α) (segments : Nat) : Chain α := ⟨[⟨s, c1, c2, e, segments⟩], false⟩

/-- the curve `add` appends: starts at the chain's end, first handle along the incoming tangent -/
def nextCurve (last : Cubic α) (len : α) (c2 e : Pt2 α) (segments : Nat) : Cubic α :=
  ⟨last.end_, last.end_ + (last.end_ - last.control2).normalized * len, c2, e, segments⟩

/-- `add`; a chain always has at least one curve (`new`), the `none` is unreachable -/
def Chain.add (ch : Chain α) (len : α) (c2 e : Pt2 α) (segments : Nat) : Chain α :=
  match ch.curves.getLast? with
  | some last => { ch with curves := ch.curves ++ [nextCurve last len c2 e segments] }
  | none => ch

def Chain.close (ch : Chain α) (len : α) (c2 : Pt2 α) (startLen : α) (segments : Nat) : Chain α :=
  match ch.curves with
  | [] => ch
  | first :: _ =>
    let ch1 := Chain.add { ch with closed := true } len c2 first.start segments
    match ch1.curves, ch1.curves.getLast? with
    | f :: rest, some last =>
      { ch1 with curves := { f with control1 := last.end_ + (last.end_ - last.control2).normalized * startLen } :: rest }
    | _, _ => ch1

def Chain.genPoints (ch : Chain α) : List (Pt2 α) :=
  let pts := ch.curves.foldl
    (fun acc c => acc.dropLast ++ cubicBezier c.start c.control1 c.control2 c.end_ c.segments) [⟨0, 0⟩]
  if ch.closed then pts.dropLast else pts

/-- `BezierStar::new(..).chain` -/
def bezierStarChain (nPoints : Nat) (innerR innerH outerR outerH : α) (segments : Nat) : Option (Chain α) :=
  let angle : α := -(lit 360) / cast nPoints
  let knots : List (Pt2 α) := (List.range nPoints).flatMap fun i =>
    [⟨dcos (angle * cast i) * outerR, dsin (angle * cast i) * outerR⟩,
     ⟨dcos (angle * (cast i + half)) * innerR, dsin (angle * (cast i + half)) * innerR⟩]
  let n := knots.length
  if n < 2 then none else
  let k (i : Nat) : Pt2 α := knots.getD i ⟨0, 0⟩
  let controls : List (Pt2 α) := (List.range n).map fun i =>
    k ((i + 1) % n) - (k ((i + 2) % n) - k i).normalized * (if i % 2 = 0 then innerH else outerH)
  let c (i : Nat) : Pt2 α := controls.getD i ⟨0, 0⟩
  let ch0 := Chain.new (k 0) (c 0) (c 0) (k 1) segments
  let ch := (List.range (n - 2)).foldl
    (fun ch j => let i := j + 1; Chain.add ch (if i % 2 = 0 then outerH else innerH) (c i) (k (i + 1)) segments) ch0
  some (Chain.close ch innerH (c (n - 1)) outerH segments)

/-- `bezier_star` (free function; the code is duplicated in dim2.rs) -/
def bezierStar (nPoints : Nat) (innerR innerH outerR outerH : α) (segments : Nat) : Option (List (Pt2 α)) :=
  (bezierStarChain nPoints innerR innerH outerR outerH segments).map Chain.genPoints

end ScadVerif.Dim2
