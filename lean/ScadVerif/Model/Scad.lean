/-
Model of scad_tree::scad — the operation tree and its emission as OpenSCAD text
(scad.rs `ScadOp`, `Scad`, `impl Display for Scad`, and the `Display` impls of
Pt2/Pt3/Pt4/Pt2s/Pt3s/Indices/Paths), in the form the code has after the repairs recorded in
known_findings.json (empty lists print `[]`, an operator always closes its block, `paths=…,`
comma, resize `auto` form, `import(file=…, convexity=…)`, own string escaper).

Emission is defined through *pieces* — tokens and white space — one group of pieces per
`write!` of the Rust source; `emit` is the concatenation of their characters.

`ν` is the type of `f64` fields; `showNum : ν → List Char` is Rust's `Display for f64`
(an external parameter of the model, DESIGN §3.4).  `u64` fields are `Nat`.
-/
import ScadVerif.Model.Pt
import ScadVerif.Model.Chars
namespace ScadVerif

/-! ## tokens and pieces -/
inductive Tok where
  | ident (s : List Char)
  | num (s : List Char)        -- numeral text
  | str (s : List Char)        -- the *denoted* characters (unescaped)
  | lparen | rparen | lbrack | rbrack | lbrace | rbrace | comma | semi | eq
deriving Repr, DecidableEq, BEq

/-- scad.rs string writer: `\\ \" \n \t \r` escaped, everything else verbatim -/
def escapeChar (c : Char) : List Char :=
  if c = '\\' then ['\\', '\\']
  else if c = '"' then ['\\', '"']
  else if c = '\n' then ['\\', 'n']
  else if c = '\t' then ['\\', 't']
  else if c = '\r' then ['\\', 'r']
  else [c]
def escape (s : List Char) : List Char := s.flatMap escapeChar

def Tok.chars : Tok → List Char
  | .ident s => s
  | .num s => s
  | .str s => '"' :: (escape s ++ ['"'])
  | .lparen => ['('] | .rparen => [')'] | .lbrack => ['['] | .rbrack => [']']
  | .lbrace => ['{'] | .rbrace => ['}'] | .comma => [','] | .semi => [';'] | .eq => ['=']

inductive Piece where
  | tok (t : Tok)
  | ws (s : List Char)
deriving Repr, DecidableEq, BEq

def Piece.chars : Piece → List Char
  | .tok t => t.chars
  | .ws s => s

def flatten (ps : List Piece) : List Char := ps.flatMap Piece.chars

/-! ## argument values -/
/-- a printed argument value -/
inductive Value where
  | num (txt : List Char)                 -- f64 through `Display`, or u64 in decimal
  | bool (b : Bool)
  | str (s : List Char)
  | undef
  | vec (spaced : Bool) (items : List Value)   -- `[a, b]` (spaced) or `[a,b]` (tight)
deriving Repr, BEq

mutual
def Value.pieces : Value → List Piece
  | .num t => [.tok (.num t)]
  | .bool b => [.tok (.ident (if b then c!"true" else c!"false"))]
  | .str s => [.tok (.str s)]
  | .undef => [.tok (.ident c!"undef")]
  | .vec sp items => .tok .lbrack :: (Value.piecesList sp items ++ [.tok .rbrack])
def Value.piecesList (sp : Bool) : List Value → List Piece
  | [] => []
  | [v] => v.pieces
  | v :: w :: rest =>
    v.pieces ++ (.tok .comma :: ((if sp then [Piece.ws [' ']] else []) ++ Value.piecesList sp (w :: rest)))
end

inductive Arg where
  | named (name : List Char) (v : Value)
  | pos (v : Value)
deriving Repr, BEq

def Arg.pieces : Arg → List Piece
  | .named n v => .tok (.ident n) :: .tok .eq :: v.pieces
  | .pos v => v.pieces

def argsPieces : List Arg → List Piece
  | [] => []
  | [a] => a.pieces
  | a :: b :: rest => a.pieces ++ (.tok .comma :: .ws [' '] :: argsPieces (b :: rest))

/-- what an operation prints before its children: call name and arguments.
`none`: nothing is printed (a `Color`/`Offset` node with no alternative set). -/
structure Header where
  name : List Char
  args : List Arg
deriving Repr, BEq

/-! ## the tree -/
inductive ScadOp (ν : Type) where
  | union | difference | intersection
  | circle (radius : ν) (fa fs : Option ν) (fn : Option Nat)
  | square (size : Pt2 ν) (center : Bool)
  | polygon (points : List (Pt2 ν)) (paths : Option (List (List Nat))) (convexity : Nat)
  | text (text : List Char) (size : ν) (font : List Char) (halign valign : List Char) (spacing : ν)
      (direction : List Char) (language script : List Char) (fn : Option Nat)
  | import_ (file : List Char) (convexity : Nat)
  | projection (cut : Bool)
  | sphere (radius : ν) (fa fs : Option ν) (fn : Option Nat)
  | cube (size : Pt3 ν) (center : Bool)
  | cylinder (height radius1 radius2 : ν) (center : Bool) (fa fs : Option ν) (fn : Option Nat)
  | polyhedron (points : List (Pt3 ν)) (faces : List (List Nat)) (convexity : Nat)
  | linearExtrude (height : ν) (center : Bool) (convexity : Nat) (twist : ν) (scale : Pt2 ν)
      (slices fn : Option Nat)
  | rotateExtrude (angle : ν) (convexity : Nat) (fa fs : Option ν) (fn : Option Nat)
  | surface (file : List Char) (center invert : Bool) (convexity : Nat)
  | translate (v : Pt3 ν)
  | rotate (a : Option ν) (aIsScalar : Bool) (v : Pt3 ν)
  | scale (v : Pt3 ν)
  | resize (newsize : Pt3 ν) (auto autoIsVec : Bool) (autovec : Bool × Bool × Bool) (convexity : Nat)
  | mirror (v : Pt3 ν)
  | color (rgba : Option (Pt4 ν)) (color : Option (List Char)) (hex : Option (List Char)) (alpha : Option ν)
  | offset (r delta : Option ν) (chamfer : Bool)
  | hull
  | minkowski (convexity : Nat)
deriving Repr, BEq

mutual
inductive Scad (ν : Type) where
  | mk (op : ScadOp ν) (children : ScadList ν)
inductive ScadList (ν : Type) where
  | nil
  | cons (head : Scad ν) (tail : ScadList ν)
end

namespace ScadList
variable {ν : Type}
def toList : ScadList ν → List (Scad ν)
  | .nil => []
  | .cons h t => h :: t.toList
def ofList : List (Scad ν) → ScadList ν
  | [] => .nil
  | h :: t => .cons h (ofList t)
def isNil : ScadList ν → Bool
  | .nil => true
  | .cons _ _ => false
@[simp] theorem toList_ofList (l : List (Scad ν)) : (ofList l).toList = l := by
  induction l with
  | nil => rfl
  | cons h t ih => simp [ofList, toList, ih]
@[simp] theorem ofList_toList : (l : ScadList ν) → ofList l.toList = l
  | .nil => rfl
  | .cons h t => by simp [ofList, toList, ofList_toList t]
end ScadList

def Scad.op {ν} : Scad ν → ScadOp ν | .mk o _ => o
def Scad.children {ν} : Scad ν → ScadList ν | .mk _ c => c
/-- `Scad { op, children: vec![…] }` -/
def Scad.node {ν} (op : ScadOp ν) (cs : List (Scad ν)) : Scad ν := .mk op (ScadList.ofList cs)

/-! ## headers -/
section Header
variable {ν : Type} (showNum : ν → List Char)

def natDigits (n : Nat) : List Char := Nat.toDigits 10 n
def vNum (x : ν) : Value := .num (showNum x)
def vNat (n : Nat) : Value := .num (natDigits n)
/-- `Display for Pt2/Pt3/Pt4`: `[x, y, z]` -/
def vPt2 (p : Pt2 ν) : Value := .vec true [vNum showNum p.x, vNum showNum p.y]
def vPt3 (p : Pt3 ν) : Value := .vec true [vNum showNum p.x, vNum showNum p.y, vNum showNum p.z]
def vPt4 (p : Pt4 ν) : Value :=
  .vec true [vNum showNum p.x, vNum showNum p.y, vNum showNum p.z, vNum showNum p.w]
/-- `Display for Pt2s/Pt3s`: points separated by `,` without a space -/
def vPt2s (ps : List (Pt2 ν)) : Value := .vec false (ps.map (vPt2 showNum))
def vPt3s (ps : List (Pt3 ν)) : Value := .vec false (ps.map (vPt3 showNum))
/-- `Display for Indices` / `Paths`: `, ` separated -/
def vIndices (is : List Nat) : Value := .vec true (is.map vNat)
def vPaths (ps : List (List Nat)) : Value := .vec true (ps.map vIndices)

/-- the optional `$fa`, `$fs`, `$fn` tail -/
def faFsFn (fa fs : Option ν) (fn : Option Nat) : List Arg :=
  (match fa with | some x => [Arg.named c!"$fa" (vNum showNum x)] | none => []) ++
  (match fs with | some x => [Arg.named c!"$fs" (vNum showNum x)] | none => []) ++
  (match fn with | some n => [Arg.named c!"$fn" (vNat n)] | none => [])
def optNat (name : List Char) (o : Option Nat) : List Arg :=
  match o with | some n => [Arg.named name (vNat n)] | none => []

/-- the ten primitives print `name(args);`, everything else opens a block -/
def ScadOp.isPrimitive : ScadOp ν → Bool
  | .circle .. | .square .. | .polygon .. | .text .. | .import_ .. | .sphere .. | .cube ..
  | .cylinder .. | .polyhedron .. | .surface .. => true
  | _ => false

def ScadOp.header : ScadOp ν → Option Header
  | .union => some ⟨c!"union", []⟩
  | .difference => some ⟨c!"difference", []⟩
  | .intersection => some ⟨c!"intersection", []⟩
  | .circle r fa fs fn => some ⟨c!"circle", .named c!"r" (vNum showNum r) :: faFsFn showNum fa fs fn⟩
  | .square size center =>
    some ⟨c!"square", [.named c!"size" (vPt2 showNum size), .named c!"center" (.bool center)]⟩
  | .polygon points paths convexity =>
    some ⟨c!"polygon", [.named c!"points" (vPt2s showNum points),
      .named c!"paths" (match paths with | some p => vPaths p | none => .undef),
      .named c!"convexity" (vNat convexity)]⟩
  | .text txt size font halign valign spacing direction language script fn =>
    some ⟨c!"text", [.named c!"text" (.str txt), .named c!"size" (vNum showNum size),
      .named c!"font" (.str font), .named c!"halign" (.str halign), .named c!"valign" (.str valign),
      .named c!"spacing" (vNum showNum spacing), .named c!"direction" (.str direction),
      .named c!"language" (.str language), .named c!"script" (.str script)] ++ optNat c!"$fn" fn⟩
  | .import_ file convexity =>
    some ⟨c!"import", [.named c!"file" (.str file), .named c!"convexity" (vNat convexity)]⟩
  | .projection cut => some ⟨c!"projection", [.named c!"cut" (.bool cut)]⟩
  | .sphere r fa fs fn => some ⟨c!"sphere", .named c!"r" (vNum showNum r) :: faFsFn showNum fa fs fn⟩
  | .cube size center =>
    some ⟨c!"cube", [.named c!"size" (vPt3 showNum size), .named c!"center" (.bool center)]⟩
  | .cylinder h r1 r2 center fa fs fn =>
    some ⟨c!"cylinder", [.named c!"h" (vNum showNum h), .named c!"r1" (vNum showNum r1),
      .named c!"r2" (vNum showNum r2), .named c!"center" (.bool center)] ++ faFsFn showNum fa fs fn⟩
  | .polyhedron points faces convexity =>
    some ⟨c!"polyhedron", [.named c!"points" (vPt3s showNum points), .named c!"faces" (vPaths faces),
      .named c!"convexity" (vNat convexity)]⟩
  | .linearExtrude height center convexity twist scl slices fn =>
    some ⟨c!"linear_extrude", [.named c!"height" (vNum showNum height), .named c!"center" (.bool center),
      .named c!"convexity" (vNat convexity), .named c!"twist" (vNum showNum twist),
      .named c!"scale" (vPt2 showNum scl)] ++ optNat c!"slices" slices ++ optNat c!"$fn" fn⟩
  | .rotateExtrude angle convexity fa fs fn =>
    some ⟨c!"rotate_extrude", [.named c!"angle" (vNum showNum angle), .named c!"convexity" (vNat convexity)]
      ++ faFsFn showNum fa fs fn⟩
  | .surface file center invert convexity =>
    some ⟨c!"surface", [.named c!"file" (.str file), .named c!"center" (.bool center),
      .named c!"invert" (.bool invert), .named c!"convexity" (vNat convexity)]⟩
  | .translate v => some ⟨c!"translate", [.named c!"v" (vPt3 showNum v)]⟩
  | .rotate a aIsScalar v =>
    match a with
    | some a =>
      if aIsScalar then some ⟨c!"rotate", [.named c!"a" (vNum showNum a)]⟩
      else some ⟨c!"rotate", [.named c!"a" (vNum showNum a), .named c!"v" (vPt3 showNum v)]⟩
    | none => some ⟨c!"rotate", [.named c!"a" (vPt3 showNum v)]⟩
  | .scale v => some ⟨c!"scale", [.named c!"v" (vPt3 showNum v)]⟩
  | .resize newsize auto autoIsVec autovec convexity =>
    some ⟨c!"resize", [.named c!"newsize" (vPt3 showNum newsize),
      .named c!"auto" (if autoIsVec then .vec true [.bool autovec.1, .bool autovec.2.1, .bool autovec.2.2]
                       else .bool auto),
      .named c!"convexity" (vNat convexity)]⟩
  | .mirror v => some ⟨c!"mirror", [.named c!"v" (vPt3 showNum v)]⟩
  | .color rgba col hex alpha =>
    match rgba, col, hex with
    | some rgba, _, _ => some ⟨c!"color", [.named c!"c" (vPt4 showNum rgba)]⟩
    | none, some col, _ =>
      some ⟨c!"color", .pos (.str col) ::
        (match alpha with | some a => [Arg.named c!"alpha" (vNum showNum a)] | none => [])⟩
    | none, none, some hex => some ⟨c!"color", [.pos (.str hex)]⟩
    | none, none, none => none
  | .offset r delta chamfer =>
    match r, delta with
    | some r, _ => some ⟨c!"offset", [.named c!"r" (vNum showNum r)]⟩
    | none, some d => some ⟨c!"offset", [.named c!"delta" (vNum showNum d), .named c!"chamfer" (.bool chamfer)]⟩
    | none, none => none
  | .hull => some ⟨c!"hull", []⟩
  | .minkowski convexity => some ⟨c!"minkowski", [.named c!"convexity" (vNat convexity)]⟩

def Header.pieces (h : Header) : List Piece :=
  .tok (.ident h.name) :: .tok .lparen :: (argsPieces h.args ++ [.tok .rparen])

/-! ## emission (`impl Display for Scad`) -/
mutual
def Scad.pieces : Scad ν → List Piece
  | .mk op cs =>
    (match op.header showNum with
     | some h => h.pieces ++ (if op.isPrimitive then [.tok .semi] else [.ws [' '], .tok .lbrace, .ws ['\n']])
     | none => []) ++
    ScadList.pieces cs ++
    (if op.isPrimitive then [] else [.tok .rbrace]) ++ [.ws ['\n']]
def ScadList.pieces : ScadList ν → List Piece
  | .nil => []
  | .cons h t => Scad.pieces h ++ ScadList.pieces t
end

/-- `format!("{}", tree)` -/
def Scad.emit (t : Scad ν) : List Char := flatten (t.pieces showNum)
def emitAll (ts : List (Scad ν)) : List Char := ts.flatMap (Scad.emit showNum)

end Header

/-! ## change of number type -/
def ScadOp.map {ν μ : Type} (f : ν → μ) : ScadOp ν → ScadOp μ
  | .union => .union | .difference => .difference | .intersection => .intersection | .hull => .hull
  | .circle r fa fs fn => .circle (f r) (fa.map f) (fs.map f) fn
  | .sphere r fa fs fn => .sphere (f r) (fa.map f) (fs.map f) fn
  | .square s c => .square ⟨f s.x, f s.y⟩ c
  | .cube s c => .cube ⟨f s.x, f s.y, f s.z⟩ c
  | .polygon pts paths cv => .polygon (pts.map fun p => ⟨f p.x, f p.y⟩) paths cv
  | .text t sz font h v sp d lang scr fn => .text t (f sz) font h v (f sp) d lang scr fn
  | .import_ file cv => .import_ file cv
  | .projection c => .projection c
  | .cylinder h r1 r2 c fa fs fn => .cylinder (f h) (f r1) (f r2) c (fa.map f) (fs.map f) fn
  | .polyhedron pts faces cv => .polyhedron (pts.map fun p => ⟨f p.x, f p.y, f p.z⟩) faces cv
  | .linearExtrude h c cv tw sc sl fn => .linearExtrude (f h) c cv (f tw) ⟨f sc.x, f sc.y⟩ sl fn
  | .rotateExtrude a cv fa fs fn => .rotateExtrude (f a) cv (fa.map f) (fs.map f) fn
  | .surface file c i cv => .surface file c i cv
  | .translate v => .translate ⟨f v.x, f v.y, f v.z⟩
  | .rotate a sc v => .rotate (a.map f) sc ⟨f v.x, f v.y, f v.z⟩
  | .scale v => .scale ⟨f v.x, f v.y, f v.z⟩
  | .resize ns a iv av cv => .resize ⟨f ns.x, f ns.y, f ns.z⟩ a iv av cv
  | .mirror v => .mirror ⟨f v.x, f v.y, f v.z⟩
  | .color rgba col hex alpha => .color (rgba.map fun p => ⟨f p.x, f p.y, f p.z, f p.w⟩) col hex (alpha.map f)
  | .offset r d ch => .offset (r.map f) (d.map f) ch
  | .minkowski cv => .minkowski cv

mutual
def Scad.map {ν μ : Type} (f : ν → μ) : Scad ν → Scad μ
  | .mk op cs => .mk (op.map f) (ScadList.map f cs)
def ScadList.map {ν μ : Type} (f : ν → μ) : ScadList ν → ScadList μ
  | .nil => .nil
  | .cons h t => .cons (Scad.map f h) (ScadList.map f t)
end

/-! ## files (`Scad::save`, `scad_file!`) -/
/-- the global settings a `scad_file!` form writes before the children -/
inductive Settings (ν : Type) where
  | none
  | fa (fa : ν)
  | fs (fs : ν)
  | faFs (fa fs : ν)
  | fn (n : Nat)

/-- `format!("$fa={};\n", fa)` … -/
def Settings.lines {ν : Type} (showNum : ν → List Char) : Settings ν → List Char
  | .none => []
  | .fa a => c!"$fa=" ++ showNum a ++ c!";\n"
  | .fs s => c!"$fs=" ++ showNum s ++ c!";\n"
  | .faFs a s => c!"$fa=" ++ showNum a ++ c!";\n" ++ (c!"$fs=" ++ showNum s ++ c!";\n")
  | .fn n => c!"$fn=" ++ natDigits n ++ c!";\n"

/-- the bytes of the file are the UTF-8 of: settings lines, then the emission of each child -/
def fileContent {ν : Type} (showNum : ν → List Char) (g : Settings ν) (children : List (Scad ν)) : List Char :=
  g.lines showNum ++ emitAll showNum children

/-- `Scad::save` -/
def saveContent {ν : Type} (showNum : ν → List Char) (t : Scad ν) : List Char := t.emit showNum

/-! ## `a + b`, `a - b` -/
def Scad.add {ν} (a b : Scad ν) : Scad ν := Scad.node .union [a, b]
def Scad.sub {ν} (a b : Scad ν) : Scad ν := Scad.node .difference [a, b]

end ScadVerif
