/-
Model of the construction macros of scad.rs as data: an arm is a matcher, the `ScadOp` variant it
builds and one small expression per field (Gen/MacroArms.lean is regenerated from the source on
every run).  `evalOrder` is the order in which an arm evaluates its argument expressions;
`expand` builds the node from argument values.
-/
import ScadVerif.Model.Scad
namespace ScadVerif.Macro
open ScadVerif

inductive PTok where
  | lit (s : List Char)
  | mv (i : Nat)
  | children
deriving Repr, DecidableEq

/-- field expressions of the arm bodies -/
inductive Tmpl where
  | mv (i : Nat)                    -- `$x`: the argument expression is evaluated here
  | loc (k : Nat)                   -- a local bound by the k-th `let x = $x;` of the arm
  | none_
  | boolLit (b : Bool)
  | numLit (num digits : Nat)       -- `10.0` ↦ 100, 1
  | natLit (n : Nat)
  | strLit (s : List Char)          -- `"en".to_string()`
  | enumLit (s : List Char)         -- `TextHalign::left`
  | some_ (t : Tmpl)
  | pt (args : List Tmpl)           -- `Pt2/Pt3/Pt4::new(..)`
  | tuple (args : List Tmpl)
  | half (t : Tmpl)                 -- `… / 2.0`
  | toStr (t : Tmpl)                -- `….to_string()`
  | field (t : Tmpl) (f : List Char)   -- `$params.size`
deriving Repr

mutual
def Tmpl.beq : Tmpl → Tmpl → Bool
  | .mv i, .mv j => i == j
  | .loc i, .loc j => i == j
  | .none_, .none_ => true
  | .boolLit a, .boolLit b => a == b
  | .numLit a b, .numLit c d => a == c && b == d
  | .natLit a, .natLit b => a == b
  | .strLit a, .strLit b => a == b
  | .enumLit a, .enumLit b => a == b
  | .some_ a, .some_ b => Tmpl.beq a b
  | .pt a, .pt b => Tmpl.beqList a b
  | .tuple a, .tuple b => Tmpl.beqList a b
  | .half a, .half b => Tmpl.beq a b
  | .toStr a, .toStr b => Tmpl.beq a b
  | .field a f, .field b g => Tmpl.beq a b && f == g
  | _, _ => false
def Tmpl.beqList : List Tmpl → List Tmpl → Bool
  | [], [] => true
  | a :: as, b :: bs => Tmpl.beq a b && Tmpl.beqList as bs
  | _, _ => false
end
instance : BEq Tmpl := ⟨Tmpl.beq⟩

structure Arm where
  macroName : List Char
  mvNames : List (List Char)
  pattern : List PTok
  op : List Char
  fields : List (List Char × Tmpl)
  hasChildren : Bool
  /-- metavariable bound by the k-th leading `let` -/
  lets : List Nat
deriving Repr

-- metavariables in the order a field expression evaluates them
mutual
def Tmpl.evals : Tmpl → List Nat
  | .mv i => [i]
  | .some_ t | .half t | .toStr t | .field t _ => t.evals
  | .pt args | .tuple args => Tmpl.evalsList args
  | _ => []
def Tmpl.evalsList : List Tmpl → List Nat
  | [] => []
  | t :: ts => t.evals ++ Tmpl.evalsList ts
end

/-- the order in which an arm evaluates its argument expressions: leading `let`s, then the
struct literal's fields top to bottom (children last, in their written order) -/
def Arm.evalOrder (a : Arm) : List Nat := a.lets ++ a.fields.flatMap fun (_, t) => t.evals

/-- every argument expression is evaluated exactly once -/
def Arm.usesOnce (a : Arm) : Bool :=
  (List.range a.mvNames.length).all fun i => a.evalOrder.count i == 1

/-! ### evaluation with an effect log (the "world" is the list of evaluated arguments) -/
/-- dynamic values -/
inductive DVal (ν : Type) where
  | num (x : ν)
  | nat (n : Nat)
  | bool (b : Bool)
  | str (s : List Char)
  | enm (s : List Char)
  | opt (o : Option (DVal ν))
  | pt (xs : List (DVal ν))
  | pts2 (ps : List (Pt2 ν))
  | pts3 (ps : List (Pt3 ν))
  | paths (ps : List (List Nat))
  | params (fields : List (List Char × DVal ν))
deriving Repr

section Eval
variable {ν : Type} [Div ν] [OfNatCast ν]

-- evaluate a field expression; `arg i` is the value of the i-th argument expression, `loc k`
-- the value bound by the k-th `let`; the second component logs which arguments were evaluated
mutual
def Tmpl.eval (arg : Nat → Option (DVal ν)) (loc : Nat → Option (DVal ν)) : Tmpl → Option (DVal ν × List Nat)
  | .mv i => (arg i).map fun v => (v, [i])
  | .loc k => (loc k).map fun v => (v, [])
  | .none_ => some (.opt none, [])
  | .boolLit b => some (.bool b, [])
  | .numLit n d => some (.num (cast n / cast (10 ^ d)), [])
  | .natLit n => some (.nat n, [])
  | .strLit s => some (.str s, [])
  | .enumLit s => some (.enm s, [])
  | .some_ t => (t.eval arg loc).map fun (v, l) => (.opt (some v), l)
  | .pt args => (Tmpl.evalList arg loc args).map fun (vs, l) => (.pt vs, l)
  | .tuple args => (Tmpl.evalList arg loc args).map fun (vs, l) => (.pt vs, l)
  | .half t => (t.eval arg loc).bind fun (v, l) =>
      match v with | .num x => some (.num (x / lit 2), l) | _ => none
  | .toStr t => (t.eval arg loc).bind fun (v, l) =>
      match v with | .str s => some (.str s, l) | _ => none
  | .field t f => (t.eval arg loc).bind fun (v, l) =>
      match v with
      | .params fs => (fs.find? (·.1 == f)).map fun (_, x) => (x, l)
      | _ => none
def Tmpl.evalList (arg : Nat → Option (DVal ν)) (loc : Nat → Option (DVal ν)) : List Tmpl → Option (List (DVal ν) × List Nat)
  | [] => some ([], [])
  | t :: ts => (t.eval arg loc).bind fun (v, l) =>
      (Tmpl.evalList arg loc ts).map fun (vs, l') => (v :: vs, l ++ l')
end

/-- evaluate all fields of an arm: values by field name and the evaluation log -/
def Arm.evalFields (a : Arm) (arg : Nat → Option (DVal ν)) : Option (List (List Char × DVal ν) × List Nat) :=
  let loc (k : Nat) : Option (DVal ν) := (a.lets[k]?).bind arg
  a.fields.foldlM (fun (acc : List (List Char × DVal ν) × List Nat) (f : List Char × Tmpl) =>
    (f.2.eval arg loc).map fun (v, l) => (acc.1 ++ [(f.1, v)], acc.2 ++ l)) ([], a.lets)

end Eval

/-! ### building the node -/
section Build
variable {ν : Type}

def look (fs : List (List Char × DVal ν)) (n : List Char) : Option (DVal ν) :=
  (fs.find? (·.1 == n)).map (·.2)

def fNum (fs : List (List Char × DVal ν)) (n : List Char) : Option ν :=
  match look fs n with | some (.num x) => some x | _ => none
def fNat (fs : List (List Char × DVal ν)) (n : List Char) : Option Nat :=
  match look fs n with | some (.nat x) => some x | _ => none
def fBool (fs : List (List Char × DVal ν)) (n : List Char) : Option Bool :=
  match look fs n with | some (.bool x) => some x | _ => none
def fStr (fs : List (List Char × DVal ν)) (n : List Char) : Option (List Char) :=
  match look fs n with | some (.str x) => some x | _ => none
def fEnm (fs : List (List Char × DVal ν)) (n : List Char) : Option (List Char) :=
  match look fs n with | some (.enm x) => some x | _ => none
def fOptNum (fs : List (List Char × DVal ν)) (n : List Char) : Option (Option ν) :=
  match look fs n with
  | some (.opt none) => some none | some (.opt (some (.num x))) => some (some x) | _ => none
def fOptNat (fs : List (List Char × DVal ν)) (n : List Char) : Option (Option Nat) :=
  match look fs n with
  | some (.opt none) => some none | some (.opt (some (.nat x))) => some (some x) | _ => none
def fOptStr (fs : List (List Char × DVal ν)) (n : List Char) : Option (Option (List Char)) :=
  match look fs n with
  | some (.opt none) => some none | some (.opt (some (.str x))) => some (some x) | _ => none
def fOptEnm (fs : List (List Char × DVal ν)) (n : List Char) : Option (Option (List Char)) :=
  match look fs n with
  | some (.opt none) => some none | some (.opt (some (.enm x))) => some (some x) | _ => none
def fPt2 (fs : List (List Char × DVal ν)) (n : List Char) : Option (Pt2 ν) :=
  match look fs n with | some (.pt [.num x, .num y]) => some ⟨x, y⟩ | _ => none
def fPt3 (fs : List (List Char × DVal ν)) (n : List Char) : Option (Pt3 ν) :=
  match look fs n with | some (.pt [.num x, .num y, .num z]) => some ⟨x, y, z⟩ | _ => none
def fOptPt4 (fs : List (List Char × DVal ν)) (n : List Char) : Option (Option (Pt4 ν)) :=
  match look fs n with
  | some (.opt none) => some none
  | some (.opt (some (.pt [.num x, .num y, .num z, .num w]))) => some (some ⟨x, y, z, w⟩)
  | _ => none
def fBool3 (fs : List (List Char × DVal ν)) (n : List Char) : Option (Bool × Bool × Bool) :=
  match look fs n with | some (.pt [.bool x, .bool y, .bool z]) => some (x, y, z) | _ => none
def fPts2 (fs : List (List Char × DVal ν)) (n : List Char) : Option (List (Pt2 ν)) :=
  match look fs n with | some (.pts2 p) => some p | _ => none
def fPts3 (fs : List (List Char × DVal ν)) (n : List Char) : Option (List (Pt3 ν)) :=
  match look fs n with | some (.pts3 p) => some p | _ => none
def fPaths (fs : List (List Char × DVal ν)) (n : List Char) : Option (List (List Nat)) :=
  match look fs n with | some (.paths p) => some p | _ => none
def fOptPaths (fs : List (List Char × DVal ν)) (n : List Char) : Option (Option (List (List Nat))) :=
  match look fs n with
  | some (.opt none) => some none | some (.opt (some (.paths p))) => some (some p) | _ => none

/-- the `ScadOp::<variant> { field: value, … }` literal -/
def mkOp (op : List Char) (fs : List (List Char × DVal ν)) : Option (ScadOp ν) :=
  if op = c!"Union" then some .union
  else if op = c!"Difference" then some .difference
  else if op = c!"Intersection" then some .intersection
  else if op = c!"Hull" then some .hull
  else if op = c!"Circle" then do
    pure (.circle (← fNum fs c!"radius") (← fOptNum fs c!"fa") (← fOptNum fs c!"fs") (← fOptNat fs c!"fn_"))
  else if op = c!"Sphere" then do
    pure (.sphere (← fNum fs c!"radius") (← fOptNum fs c!"fa") (← fOptNum fs c!"fs") (← fOptNat fs c!"fn_"))
  else if op = c!"Square" then do pure (.square (← fPt2 fs c!"size") (← fBool fs c!"center"))
  else if op = c!"Cube" then do pure (.cube (← fPt3 fs c!"size") (← fBool fs c!"center"))
  else if op = c!"Polygon" then do
    pure (.polygon (← fPts2 fs c!"points") (← fOptPaths fs c!"paths") (← fNat fs c!"convexity"))
  else if op = c!"Text" then do
    pure (.text (← fStr fs c!"text") (← fNum fs c!"size") (← fStr fs c!"font") (← fEnm fs c!"halign")
      (← fEnm fs c!"valign") (← fNum fs c!"spacing") (← fEnm fs c!"direction") (← fStr fs c!"language")
      (← fStr fs c!"script") (← fOptNat fs c!"fn_"))
  else if op = c!"Import" then do pure (.import_ (← fStr fs c!"file") (← fNat fs c!"convexity"))
  else if op = c!"Projection" then do pure (.projection (← fBool fs c!"cut"))
  else if op = c!"Cylinder" then do
    pure (.cylinder (← fNum fs c!"height") (← fNum fs c!"radius1") (← fNum fs c!"radius2") (← fBool fs c!"center")
      (← fOptNum fs c!"fa") (← fOptNum fs c!"fs") (← fOptNat fs c!"fn_"))
  else if op = c!"Polyhedron" then do
    pure (.polyhedron (← fPts3 fs c!"points") (← fPaths fs c!"faces") (← fNat fs c!"convexity"))
  else if op = c!"LinearExtrude" then do
    pure (.linearExtrude (← fNum fs c!"height") (← fBool fs c!"center") (← fNat fs c!"convexity")
      (← fNum fs c!"twist") (← fPt2 fs c!"scale") (← fOptNat fs c!"slices") (← fOptNat fs c!"fn_"))
  else if op = c!"RotateExtrude" then do
    pure (.rotateExtrude (← fNum fs c!"angle") (← fNat fs c!"convexity") (← fOptNum fs c!"fa")
      (← fOptNum fs c!"fs") (← fOptNat fs c!"fn_"))
  else if op = c!"Surface" then do
    pure (.surface (← fStr fs c!"file") (← fBool fs c!"center") (← fBool fs c!"invert") (← fNat fs c!"convexity"))
  else if op = c!"Translate" then do pure (.translate (← fPt3 fs c!"v"))
  else if op = c!"Rotate" then do
    pure (.rotate (← fOptNum fs c!"a") (← fBool fs c!"a_is_scalar") (← fPt3 fs c!"v"))
  else if op = c!"Scale" then do pure (.scale (← fPt3 fs c!"v"))
  else if op = c!"Resize" then do
    pure (.resize (← fPt3 fs c!"newsize") (← fBool fs c!"auto") (← fBool fs c!"auto_is_vec")
      (← fBool3 fs c!"autovec") (← fNat fs c!"convexity"))
  else if op = c!"Mirror" then do pure (.mirror (← fPt3 fs c!"v"))
  else if op = c!"Color" then do
    pure (.color (← fOptPt4 fs c!"rgba") (← fOptEnm fs c!"color") (← fOptStr fs c!"hex") (← fOptNum fs c!"alpha"))
  else if op = c!"Offset" then do
    pure (.offset (← fOptNum fs c!"r") (← fOptNum fs c!"delta") (← fBool fs c!"chamfer"))
  else if op = c!"Minkowski" then do pure (.minkowski (← fNat fs c!"convexity"))
  else none

/-- the node an arm builds from its argument values and children, with the evaluation log -/
def Arm.expand [Div ν] [OfNatCast ν] (a : Arm) (arg : Nat → Option (DVal ν)) (children : List (Scad ν)) :
    Option (Scad ν × List Nat) := do
  let (fs, log) ← a.evalFields arg
  let op ← mkOp a.op fs
  pure (Scad.node op (if a.hasChildren then children else []), log)

end Build
end ScadVerif.Macro
