/-
Model of scad_tree_math::mt4 (column-major 4×4 matrix: field `x` is column 0).
-/
import ScadVerif.Model.Pt
import ScadVerif.Gen.Mt4Cof
namespace ScadVerif

@[ext] structure Mt4 (α : Type) where
  x : Pt4 α
  y : Pt4 α
  z : Pt4 α
  w : Pt4 α
deriving Repr, DecidableEq, BEq

namespace Mt4
variable {α : Type} [Add α] [Sub α] [Mul α] [Div α] [Neg α] [OfNat α 0] [OfNat α 1]

def transposed (m : Mt4 α) : Mt4 α :=
  ⟨⟨m.x.x, m.y.x, m.z.x, m.w.x⟩, ⟨m.x.y, m.y.y, m.z.y, m.w.y⟩,
   ⟨m.x.z, m.y.z, m.z.z, m.w.z⟩, ⟨m.x.w, m.y.w, m.z.w, m.w.w⟩⟩

def identity : Mt4 α := ⟨⟨1, 0, 0, 0⟩, ⟨0, 1, 0, 0⟩, ⟨0, 0, 1, 0⟩, ⟨0, 0, 0, 1⟩⟩

def scaleMatrix (x y z : α) : Mt4 α :=
  let r : Mt4 α := identity
  { r with x := { r.x with x := x }, y := { r.y with y := y }, z := { r.z with z := z } }

def translateMatrix (x y z : α) : Mt4 α :=
  let r : Mt4 α := identity
  { r with w := { r.w with x := x, y := y, z := z } }

def rotXCS (c s : α) : Mt4 α :=
  transposed ⟨⟨1, 0, 0, 0⟩, ⟨0, c, -s, 0⟩, ⟨0, s, c, 0⟩, ⟨0, 0, 0, 1⟩⟩
def rotYCS (c s : α) : Mt4 α :=
  transposed ⟨⟨c, 0, s, 0⟩, ⟨0, 1, 0, 0⟩, ⟨-s, 0, c, 0⟩, ⟨0, 0, 0, 1⟩⟩
def rotZCS (c s : α) : Mt4 α :=
  transposed ⟨⟨c, -s, 0, 0⟩, ⟨s, c, 0, 0⟩, ⟨0, 0, 1, 0⟩, ⟨0, 0, 0, 1⟩⟩

/-- `rot_vec` (repaired: row 3 col 1 is `z*x*(1-c) - y*s`) -/
def rotVecCS (x y z c s : α) : Mt4 α :=
  transposed
    ⟨⟨c + x * x * (1 - c), x * y * (1 - c) - z * s, x * z * (1 - c) + y * s, 0⟩,
     ⟨y * x * (1 - c) + z * s, c + y * y * (1 - c), y * z * (1 - c) - x * s, 0⟩,
     ⟨z * x * (1 - c) - y * s, z * y * (1 - c) + x * s, c + z * z * (1 - c), 0⟩,
     ⟨0, 0, 0, 1⟩⟩
/-- `rot_vec` as first published (`- z*s` in row 3) -/
def rotVecCSLegacy (x y z c s : α) : Mt4 α :=
  transposed
    ⟨⟨c + x * x * (1 - c), x * y * (1 - c) - z * s, x * z * (1 - c) + y * s, 0⟩,
     ⟨y * x * (1 - c) + z * s, c + y * y * (1 - c), y * z * (1 - c) - x * s, 0⟩,
     ⟨z * x * (1 - c) - z * s, z * y * (1 - c) + x * s, c + z * z * (1 - c), 0⟩,
     ⟨0, 0, 0, 1⟩⟩

section
variable [OfNatCast α] [Trig α]
def rotXMatrix (deg : α) : Mt4 α := rotXCS (dcos deg) (dsin deg)
def rotYMatrix (deg : α) : Mt4 α := rotYCS (dcos deg) (dsin deg)
def rotZMatrix (deg : α) : Mt4 α := rotZCS (dcos deg) (dsin deg)
def rotVec (x y z deg : α) : Mt4 α := rotVecCS x y z (dcos deg) (dsin deg)
end

/-- `Mul<Pt4> for Mt4` (repaired: all four components) -/
def mulVec (m : Mt4 α) (p : Pt4 α) : Pt4 α :=
  let t := transposed m
  ⟨Pt4.dot4 t.x p, Pt4.dot4 t.y p, Pt4.dot4 t.z p, Pt4.dot4 t.w p⟩
/-- `Mul<Pt4> for Mt4` as first published: through `Pt4::dot`, which ignores `w` -/
def mulVecLegacy (m : Mt4 α) (p : Pt4 α) : Pt4 α :=
  let t := transposed m
  ⟨Pt4.dot t.x p, Pt4.dot t.y p, Pt4.dot t.z p, Pt4.dot t.w p⟩

/-- `Mul<Pt3> for Mt4`: linear part only -/
def mulPt3 (m : Mt4 α) (p : Pt3 α) : Pt3 α :=
  let t := transposed m
  ⟨Pt3.dot (Pt4.asPt3 t.x) p, Pt3.dot (Pt4.asPt3 t.y) p, Pt3.dot (Pt4.asPt3 t.z) p⟩

/-- `Mul<Mt4> for Mt4` (repaired) -/
def mul (a b : Mt4 α) : Mt4 α :=
  let t := transposed a
  ⟨⟨Pt4.dot4 t.x b.x, Pt4.dot4 t.y b.x, Pt4.dot4 t.z b.x, Pt4.dot4 t.w b.x⟩,
   ⟨Pt4.dot4 t.x b.y, Pt4.dot4 t.y b.y, Pt4.dot4 t.z b.y, Pt4.dot4 t.w b.y⟩,
   ⟨Pt4.dot4 t.x b.z, Pt4.dot4 t.y b.z, Pt4.dot4 t.z b.z, Pt4.dot4 t.w b.z⟩,
   ⟨Pt4.dot4 t.x b.w, Pt4.dot4 t.y b.w, Pt4.dot4 t.z b.w, Pt4.dot4 t.w b.w⟩⟩
def mulLegacy (a b : Mt4 α) : Mt4 α :=
  let t := transposed a
  ⟨⟨Pt4.dot t.x b.x, Pt4.dot t.y b.x, Pt4.dot t.z b.x, Pt4.dot t.w b.x⟩,
   ⟨Pt4.dot t.x b.y, Pt4.dot t.y b.y, Pt4.dot t.z b.y, Pt4.dot t.w b.y⟩,
   ⟨Pt4.dot t.x b.z, Pt4.dot t.y b.z, Pt4.dot t.z b.z, Pt4.dot t.w b.z⟩,
   ⟨Pt4.dot t.x b.w, Pt4.dot t.y b.w, Pt4.dot t.z b.w, Pt4.dot t.w b.w⟩⟩

instance : Mul (Mt4 α) := ⟨mul⟩
instance : HMul (Mt4 α) (Pt4 α) (Pt4 α) := ⟨mulVec⟩

/-- `Index<usize>`; total version (`0` outside 0..15), see `get?` for the panic -/
def get (m : Mt4 α) : Nat → α
  | 0 => m.x.x | 1 => m.x.y | 2 => m.x.z | 3 => m.x.w
  | 4 => m.y.x | 5 => m.y.y | 6 => m.y.z | 7 => m.y.w
  | 8 => m.z.x | 9 => m.z.y | 10 => m.z.z | 11 => m.z.w
  | 12 => m.w.x | 13 => m.w.y | 14 => m.w.z | 15 => m.w.w
  | _ => 0
def get? (m : Mt4 α) (i : Nat) : Option α := if i < 16 then some (get m i) else none

/-- matrix from its sixteen entries in index order -/
def ofFn (f : Nat → α) : Mt4 α :=
  ⟨⟨f 0, f 1, f 2, f 3⟩, ⟨f 4, f 5, f 6, f 7⟩, ⟨f 8, f 9, f 10, f 11⟩, ⟨f 12, f 13, f 14, f 15⟩⟩

def set? (m : Mt4 α) (i : Nat) (v : α) : Option (Mt4 α) :=
  if i < 16 then some (ofFn fun j => if j = i then v else get m j) else none

/-- determinant as `Mt4::inverse` computes it -/
def det (m : Mt4 α) : α := Gen.mt4Det (get m) (Gen.mt4Cof (get m))

/-- `Mt4::inverse` -/
def inverse [Cmp α] (m : Mt4 α) : Option (Mt4 α) :=
  let c := Gen.mt4Cof (get m)
  let d := Gen.mt4Det (get m) c
  if Cmp.eqb d 0 then none
  else
    let r := 1 / d
    some (ofFn fun i => c i * r)

/-- `look_at_matrix_lh` -/
def lookAtLh [HasSqrt α] [Cmp α] [OfNatCast α] [Trig α] (eye center up : Pt3 α) : Mt4 α :=
  let f0 := Pt3.sub center eye
  -- repaired: no direction to look in (a zero vector cannot be normalized)
  if Cmp.eqb f0.x 0 && Cmp.eqb f0.y 0 && Cmp.eqb f0.z 0 then identity else
  let f := Pt3.normalized f0
  let s := Pt3.cross up f
  if Cmp.eqb s.x 0 && Cmp.eqb s.y 0 && Cmp.eqb s.z 0 then
    if Cmp.ltb (Pt3.dot up f) 0 then rotXMatrix (lit 180) else identity
  else
    let s := Pt3.normalized s
    let u := Pt3.cross f s
    ⟨⟨s.x, s.y, s.z, -(Pt3.dot s eye)⟩, ⟨u.x, u.y, u.z, -(Pt3.dot u eye)⟩,
     ⟨f.x, f.y, f.z, -(Pt3.dot f eye)⟩, ⟨0, 0, 0, 1⟩⟩

/-- `look_at_matrix_lh` as first published: without the guard for `eye == center` (the zero vector
is normalized, every entry is NaN in doubles) -/
def lookAtLhLegacy [HasSqrt α] [Cmp α] [OfNatCast α] [Trig α] (eye center up : Pt3 α) : Mt4 α :=
  let f := Pt3.normalized (Pt3.sub center eye)
  let s := Pt3.cross up f
  if Cmp.eqb s.x 0 && Cmp.eqb s.y 0 && Cmp.eqb s.z 0 then
    if Cmp.ltb (Pt3.dot up f) 0 then rotXMatrix (lit 180) else identity
  else
    let s := Pt3.normalized s
    let u := Pt3.cross f s
    ⟨⟨s.x, s.y, s.z, -(Pt3.dot s eye)⟩, ⟨u.x, u.y, u.z, -(Pt3.dot u eye)⟩,
     ⟨f.x, f.y, f.z, -(Pt3.dot f eye)⟩, ⟨0, 0, 0, 1⟩⟩

/-- `Pt3s::apply_matrix` -/
def applyMatrix (ps : List (Pt3 α)) (m : Mt4 α) : List (Pt3 α) :=
  ps.map fun p => Pt4.asPt3 (mulVec m (Pt3.asPt4 p 1))
def applyMatrixLegacy (ps : List (Pt3 α)) (m : Mt4 α) : List (Pt3 α) :=
  ps.map fun p => Pt4.asPt3 (mulVecLegacy m (Pt3.asPt4 p 1))

end Mt4
end ScadVerif
