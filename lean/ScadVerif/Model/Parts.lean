/-
Model of the part builders: metric_thread::{threaded_rod, tap, hex_bolt, hex_nut},
Scad::{external_circle_chamfer, external_cylinder_chamfer, polar_array}, Pipe::*, Viewer —
after the repairs recorded in known_findings.json (no double centring in hex_bolt/hex_nut,
bore of a centred pipe, placement of curved_solid).
-/
import ScadVerif.Model.Thread
namespace ScadVerif.Parts
open ScadVerif ScadVerif.Thread
variable {α : Type} [Add α] [Sub α] [Mul α] [Div α] [Neg α] [OfNat α 0] [OfNat α 1]
  [OfNatCast α] [Trig α] [Cmp α] [HasAbs α] [HasSqrt α] [HasTrunc α]

/-! ### macro shorthands (the node each macro arm builds) -/
def translate (v : Pt3 α) (cs : List (Scad α)) : Scad α := Scad.node (.translate v) cs
def rotateV (v : Pt3 α) (cs : List (Scad α)) : Scad α := Scad.node (.rotate none false v) cs
def rotateA (a : α) (cs : List (Scad α)) : Scad α := Scad.node (.rotate (some a) true ⟨0, 0, 0⟩) cs
def union (cs : List (Scad α)) : Scad α := Scad.node .union cs
def difference (cs : List (Scad α)) : Scad α := Scad.node .difference cs
/-- `cylinder!(h=, d1=, d2=, center=, fn=)` -/
def cylinderD (h d1 d2 : α) (center : Bool) (fn : Nat) : Scad α :=
  Scad.node (.cylinder h (d1 / lit 2) (d2 / lit 2) center none none (some fn)) []
/-- `circle!(d=, fn=)` -/
def circleD (d : α) (fn : Nat) : Scad α := Scad.node (.circle (d / lit 2) none none (some fn)) []

/-! ### Scad::external_circle_chamfer / external_cylinder_chamfer / polar_array -/
def externalCircleChamfer (size oversize radius degrees : α) (segments : Nat) : Scad α :=
  Scad.node (.rotateExtrude degrees 5 none none (some segments))
    [translate ⟨radius + size / lit 2 + oversize / lit 2, -oversize, 0⟩
      [rotateA (lit 90) [Scad.node (.polygon (Dim2.chamfer size oversize) none 1) []]]]

def externalCylinderChamfer (size oversize radius height : α) (segments : Nat) (center : Bool) : Scad α :=
  let c := externalCircleChamfer size oversize radius (lit 360) segments
  let result := union [c, translate ⟨0, 0, height⟩ [rotateV ⟨lit 180, 0, 0⟩ [c]]]
  if center then translate ⟨0, 0, -height / lit 2⟩ [result] else result

/-- `polar_array(scad, count, degrees)`; `assert!(degrees <= 360.0)` -/
def polarArray (s : Scad α) (count : Nat) (degrees : α) : Option (Scad α) :=
  if !(Cmp.leb degrees (lit 360)) then none else
  let steps := if Cmp.eqb degrees (lit 360) then count else count - 1
  some ((List.range count).foldl (fun result i =>
    let a : α := cast i * -degrees / cast steps
    Scad.add result (rotateV ⟨0, 0, a⟩ [s])) s)

/-! ### metric_thread part builders -/
def rowVals (r : Gen.ThreadRow) : α × α × α × α × α :=
  (Gen.Dec.val r.pitch, Gen.Dec.val r.externalDMaj, Gen.Dec.val r.internalDMaj, Gen.Dec.val r.nutWidth,
   Gen.Dec.val r.chamferSize)

def threadedRod (m : Int) (length : α) (segments : Nat) (leadIn leadOut : α) (left center : Bool) :
    Option (Scad α) := do
  let r ← lookup m
  let pitch : α := Gen.Dec.val r.pitch
  let dMaj : α := Gen.Dec.val r.externalDMaj
  threadedCylinder (dMin dMaj pitch) dMaj pitch length segments leadIn leadOut left center

def tap (m : Int) (length : α) (segments : Nat) (left center : Bool) : Option (Scad α) := do
  let r ← lookup m
  let pitch : α := Gen.Dec.val r.pitch
  let dMaj : α := Gen.Dec.val r.internalDMaj
  threadedCylinder (dMin dMaj pitch) dMaj pitch length segments 0 0 left center

/-- radius of the chamfer ring of a hex head: √((w/4)² + (w/2)²); the literals `0.25`, `0.5` as digits over
a power of ten, like every decimal literal of the model -/
def hexChamferRadius (w : α) : α :=
  sqrt ((lit 25 / lit 100 : α) * w * (lit 25 / lit 100) * w + (lit 5 / lit 10 : α) * w * (lit 5 / lit 10) * w)

/-- the un-centred bolt -/
def hexBoltCore (m : Int) (length headHeight : α) (segments : Nat) (leadIn : α) (chamfered left : Bool) :
    Option (Scad α) := do
  let r ← lookup m
  let pitch : α := Gen.Dec.val r.pitch
  let dMaj : α := Gen.Dec.val r.externalDMaj
  let headD : α := Gen.Dec.val r.nutWidth
  let rod0 ← threadedCylinder (dMin dMaj pitch) dMaj pitch length segments 0 leadIn left false
  let rod := translate ⟨0, 0, headHeight⟩ [rod0]
  let hex ← Dim2.circumscribedPolygon 6 (headD / lit 2)
  let head0 ← Dim3.Polyhedron.linearExtrude hex headHeight
  let head1 := polyScad head0
  let head := if chamfered then
      Scad.sub head1 (externalCylinderChamfer (Gen.Dec.val r.chamferSize) 1 (hexChamferRadius headD) headHeight segments false)
    else head1
  pure (Scad.add rod head)

/-- `hex_bolt` (repaired: the chamfer cutters are built un-centred, the whole bolt is centred once) -/
def hexBolt (m : Int) (length headHeight : α) (segments : Nat) (leadIn : α) (chamfered left center : Bool) :
    Option (Scad α) :=
  (hexBoltCore m length headHeight segments leadIn chamfered left).map fun bolt =>
    if center then translate ⟨0, 0, -((headHeight + length) / lit 2)⟩ [bolt] else bolt

/-- the un-centred nut -/
def hexNutCore (m : Int) (height : α) (segments : Nat) (chamfered left : Bool) : Option (Scad α) := do
  let r ← lookup m
  let w : α := Gen.Dec.val r.nutWidth
  let tap0 ← tap m (height + lit 20) segments left false
  let nutTap := translate ⟨0, 0, -(lit 10)⟩ [tap0]
  let hex ← Dim2.circumscribedPolygon 6 (w / lit 2)
  let blank0 ← Dim3.Polyhedron.linearExtrude hex height
  let nut0 := Scad.sub (polyScad blank0) nutTap
  let nut := if chamfered then
      Scad.sub nut0 (externalCylinderChamfer (Gen.Dec.val r.chamferSize) 1 (hexChamferRadius w) height segments false)
    else nut0
  pure nut

/-- `hex_nut` (repaired likewise) -/
def hexNut (m : Int) (height : α) (segments : Nat) (chamfered left center : Bool) : Option (Scad α) :=
  (hexNutCore m height segments chamfered left).map fun nut =>
    if center then translate ⟨0, 0, -height / lit 2⟩ [nut] else nut

/-! ### Pipe -/
namespace Pipe
/-- the assertions `od - wall_thickness * 2.0 > 0.0` -/
def boreOk (od wall : α) : Bool := Cmp.ltb 0 (od - wall * lit 2)

/-- `Pipe::straight` (repaired: the bore overshoots both ends for either centre setting) -/
def straight (od wall length : α) (center : Bool) (fn : Nat) : Option (Scad α) :=
  if !boreOk od wall then none else
  let shift : α := if center then 0 else -(1)
  some (difference [cylinderD length od od center fn,
    translate ⟨0, 0, shift⟩ [cylinderD (length + lit 2) (od - wall * lit 2) (od - wall * lit 2) center fn]])
def straightSolid (od length : α) (center : Bool) (fn : Nat) : Scad α := cylinderD length od od center fn

def tapered (od1 od2 wall length : α) (center : Bool) (fn : Nat) : Option (Scad α) :=
  if !(boreOk od1 wall && boreOk od2 wall) then none else
  let shift : α := if center then 0 else -(lit 1 / lit 1000)
  some (difference [cylinderD length od1 od2 center fn,
    translate ⟨0, 0, shift⟩
      [cylinderD (length + lit 2 / lit 1000) (od1 - wall * lit 2) (od2 - wall * lit 2) center fn]])
def taperedSolid (od1 od2 length : α) (center : Bool) (fn : Nat) : Scad α := cylinderD length od1 od2 center fn

def degreesOk (degrees : α) : Bool := Cmp.ltb 0 degrees && Cmp.leb degrees (lit 360)

def curvedBody (od degrees radius : α) (fn : Nat) (sect : Scad α) : Scad α :=
  translate ⟨-od / lit 2 - radius, 0, 0⟩
    [rotateV ⟨lit 90, 0, 0⟩
      [Scad.node (.rotateExtrude degrees 4 none none (some fn))
        [translate ⟨od / lit 2 + radius, 0, 0⟩ [sect]]]]

def curved (od wall degrees radius : α) (fn : Nat) : Option (Scad α) :=
  if !(boreOk od wall && degreesOk degrees) then none else
  some (curvedBody od degrees radius fn (difference [circleD od fn, circleD (od - wall * lit 2) fn]))
/-- `Pipe::curved_solid` (repaired: same placement as the hollow pipe) -/
def curvedSolid (od degrees radius : α) (fn : Nat) : Option (Scad α) :=
  if !degreesOk degrees then none else some (curvedBody od degrees radius fn (circleD od fn))
end Pipe

end ScadVerif.Parts
