/-
Model of scad_tree::dim3 — Polyhedron and the mesh builders — after the repairs recorded in
known_findings.json (rotate_extrude accepts 360°, its side quads follow the library's winding,
the revolve end cap and the sweep start cap are triangulated in the ring's own plane).
-/
import ScadVerif.Model.Mt4
import ScadVerif.Model.Tri
import ScadVerif.Model.Dim2
namespace ScadVerif.Dim3
variable {α : Type} [Add α] [Sub α] [Mul α] [Div α] [Neg α] [OfNat α 0] [OfNat α 1]
  [OfNatCast α] [Trig α] [Cmp α] [HasAbs α] [HasSqrt α]

structure Polyhedron (α : Type) where
  points : List (Pt3 α)
  faces : List (List Nat)

/-- chop a flat index list into triangles, adding `off` to every index -/
def triFaces (off : Nat) : List Nat → List (List Nat)
  | a :: b :: c :: rest => [a + off, b + off, c + off] :: triFaces off rest
  | _ => []

/-- the quad strip between ring `lo` and ring `hi` (ring = `n` consecutive point indices) -/
def strip (n lo hi : Nat) : List (List Nat) :=
  (List.range n).map fun i => [lo * n + i, lo * n + (i + 1) % n, hi * n + (i + 1) % n, hi * n + i]

namespace Polyhedron

def translate (p : Polyhedron α) (d : Pt3 α) : Polyhedron α := { p with points := Pt3s.translate p.points d }
def applyMatrix (p : Polyhedron α) (m : Mt4 α) : Polyhedron α := { p with points := Mt4.applyMatrix p.points m }
def rotateX (p : Polyhedron α) (deg : α) : Polyhedron α := { p with points := Pt3s.rotateX p.points deg }
def rotateY (p : Polyhedron α) (deg : α) : Polyhedron α := { p with points := Pt3s.rotateY p.points deg }
def rotateZ (p : Polyhedron α) (deg : α) : Polyhedron α := { p with points := Pt3s.rotateZ p.points deg }

/-- `linear_extrude(points, height)` -/
def linearExtrude (points : List (Pt2 α)) (height : α) : Option (Polyhedron α) := do
  let n := points.length
  let bottom ← Tri.triangulate2dRev points
  let top ← Tri.triangulate2d points
  pure ⟨points.map (·.asPt3 0) ++ points.map (·.asPt3 height),
        triFaces 0 bottom ++ triFaces n top ++ strip n 0 1⟩

/-- `loft(lower, upper, height)`; differing lengths panic -/
def loft (lower upper : List (Pt2 α)) (height : α) : Option (Polyhedron α) := do
  if lower.length ≠ upper.length then none
  let n := lower.length
  let bottom ← Tri.triangulate2dRev lower
  let top ← Tri.triangulate2d upper
  pure ⟨lower.map (·.asPt3 0) ++ upper.map (·.asPt3 height),
        triFaces 0 bottom ++ triFaces n top ++ strip n 0 1⟩

def cylinder (radius height : α) (segments : Nat) : Option (Polyhedron α) := do
  linearExtrude (← Dim2.circle radius segments) height

/-- ring `k` of a revolve: the profile in the half-plane at angle `a·k` -/
def revolveRing (profile : List (Pt3 α)) (a : α) (k : Nat) : List (Pt3 α) :=
  let s := dsin (a * cast k); let c := dcos (a * cast k)
  profile.map fun p => ⟨p.x * c, p.x * s, p.z⟩

/-- quad strip of a revolve, wound like the library's convention (repaired) -/
def stripRev (n lo hi : Nat) : List (List Nat) :=
  (List.range n).map fun i => [lo * n + i, hi * n + i, hi * n + (i + 1) % n, lo * n + (i + 1) % n]

/-- `rotate_extrude(profile, degrees, segments)` (repaired) -/
def rotateExtrude (profile2 : List (Pt2 α)) (degrees : α) (segments : Nat) : Option (Polyhedron α) := do
  if !(Cmp.leb 0 degrees && Cmp.leb degrees (lit 360)) then none
  if segments < 3 then none
  let notClosed := !(Cmp.eqb degrees (lit 360))
  let profile : List (Pt3 α) := profile2.map fun p => ⟨p.x, 0, p.y⟩
  let n := profile.length
  let a := degrees / cast segments
  let startCap ← if notClosed then (Tri.triangulate3d profile ⟨0, -1, 0⟩).map (triFaces 0) else pure []
  let midPoints := (List.range (segments - 1)).flatMap fun j => revolveRing profile a (j + 1)
  let midFaces := (List.range (segments - 1)).flatMap fun j => stripRev n j (j + 1)
  if notClosed then
    let endCap ← Tri.triangulate3dRev profile ⟨0, -1, 0⟩
    pure ⟨profile ++ midPoints ++ revolveRing profile a segments,
          startCap ++ midFaces ++ stripRev n (segments - 1) segments ++ triFaces (segments * n) endCap⟩
  else
    pure ⟨profile ++ midPoints,
          midFaces ++ (List.range n).map fun i =>
            [(segments - 1) * n + i, i, (i + 1) % n, (segments - 1) * n + (i + 1) % n]⟩


/-- ring of a sweep: the profile turned by `tw` about Z, rotated by the look-at frame `m`
(as a direction when `w = 0`), moved to `at_` -/
def sweepRing (profile : List (Pt3 α)) (m : Mt4 α) (tw : Option α) (w : α) (at_ : Pt3 α) : List (Pt3 α) :=
  profile.map fun p =>
    let q := match tw with | some t => p.rotatedZ t | none => p
    Pt3.add (Pt4.asPt3 (Mt4.mulVec m (q.asPt4 w))) at_

/-- `sweep(profile, path, twist_degrees, closed)` (repaired start cap); a path shorter than two
points indexes out of bounds — `none` -/
def sweep (profile2 : List (Pt2 α)) (path : List (Pt3 α)) (twist : α) (closed : Bool) : Option (Polyhedron α) := do
  let profile : List (Pt3 α) := profile2.map (·.asPt3 0)
  let n := profile.length
  let len := path.length
  if len < 2 then none
  let pa (i : Nat) : Pt3 α := path.getD i ⟨0, 0, 0⟩
  let up : Pt3 α := ⟨0, 0, 1⟩
  let twistAngle := if closed then twist / cast len else twist / cast (len - 1)
  let m0 := if closed then Mt4.lookAtLh (pa (len - 1)) (pa 1) up else Mt4.lookAtLh (pa 0) (pa 1) up
  let first := sweepRing profile m0 none 1 (pa 0)
  let startCap ← if closed then pure [] else
    (Tri.triangulate3dRev first (Pt3.sub (pa 1) (pa 0))).map (triFaces 0)
  let midPoints := (List.range (len - 2)).flatMap fun j =>
    let i := j + 1
    sweepRing profile (Mt4.lookAtLh (pa (i - 1)) (pa (i + 1)) up) (some (twistAngle * cast i)) 0 (pa i)
  let midFaces := (List.range (len - 2)).flatMap fun j => strip n j (j + 1)
  let mL := if closed then Mt4.lookAtLh (pa (len - 2)) (pa 0) up else Mt4.lookAtLh (pa (len - 2)) (pa (len - 1)) up
  let last := sweepRing profile mL (some (twistAngle * cast (len - 1))) 0 (pa (len - 1))
  let lastFaces := strip n (len - 2) (len - 1)
  if closed then
    pure ⟨first ++ midPoints ++ last,
          startCap ++ midFaces ++ lastFaces ++ (List.range n).map fun i =>
            [(len - 1) * n + i, (len - 1) * n + (i + 1) % n, (i + 1) % n, i]⟩
  else
    let endCap ← Tri.triangulate3d last (Pt3.sub (pa (len - 1)) (pa (len - 2)))
    pure ⟨first ++ midPoints ++ last,
          startCap ++ midFaces ++ lastFaces ++ triFaces ((len - 1) * n) endCap⟩

end Polyhedron

/-! ### 3D Béziers and chains (the code of dim2.rs duplicated for `Pt3`) -/
def quadPoint (s c e : Pt3 α) (t : α) : Pt3 α :=
  s * (1 - t) * (1 - t) + c * t * (1 - t) * (lit 2 : α) + e * t * t
def cubicPoint (s c1 c2 e : Pt3 α) (t : α) : Pt3 α :=
  s * (1 - t) * (1 - t) * (1 - t) + c1 * t * (1 - t) * (1 - t) * (lit 3 : α)
    + c2 * t * t * (1 - t) * (lit 3 : α) + e * t * t * t
def quadraticBezier (s c e : Pt3 α) (segments : Nat) : List (Pt3 α) :=
  (List.range (segments + 1)).map fun i => quadPoint s c e (Dim2.param i segments)
def cubicBezier (s c1 c2 e : Pt3 α) (segments : Nat) : List (Pt3 α) :=
  (List.range (segments + 1)).map fun i => cubicPoint s c1 c2 e (Dim2.param i segments)

/-- `QuadraticBezier3D` -/
structure Quadratic (α : Type) where
  start : Pt3 α
  control : Pt3 α
  end_ : Pt3 α
  segments : Nat
structure Cubic (α : Type) where
  start : Pt3 α
  control1 : Pt3 α
  control2 : Pt3 α
  end_ : Pt3 α
  segments : Nat
structure Chain (α : Type) where
  curves : List (Cubic α)
  closed : Bool

def Chain.new (s c1 c2 e : Pt3 α) (segments : Nat) : Chain α := ⟨[⟨s, c1, c2, e, segments⟩], false⟩
def nextCurve (last : Cubic α) (len : α) (c2 e : Pt3 α) (segments : Nat) : Cubic α :=
  ⟨last.end_, last.end_ + (last.end_ - last.control2).normalized * len, c2, e, segments⟩
def Chain.add (ch : Chain α) (len : α) (c2 e : Pt3 α) (segments : Nat) : Chain α :=
  match ch.curves.getLast? with
  | some last => { ch with curves := ch.curves ++ [nextCurve last len c2 e segments] }
  | none => ch
def Chain.close (ch : Chain α) (len : α) (c2 : Pt3 α) (startLen : α) (segments : Nat) : Chain α :=
  match ch.curves with
  | [] => ch
  | first :: _ =>
    let ch1 := Chain.add { ch with closed := true } len c2 first.start segments
    match ch1.curves, ch1.curves.getLast? with
    | f :: rest, some last =>
      { ch1 with curves := { f with control1 := last.end_ + (last.end_ - last.control2).normalized * startLen } :: rest }
    | _, _ => ch1
def Chain.genPoints (ch : Chain α) : List (Pt3 α) :=
  let pts := ch.curves.foldl
    (fun acc c => acc.dropLast ++ cubicBezier c.start c.control1 c.control2 c.end_ c.segments) [⟨0, 0, 0⟩]
  if ch.closed then pts.dropLast else pts

end ScadVerif.Dim3
