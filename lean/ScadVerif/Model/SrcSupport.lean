/-
Support definitions for the generated transcriptions (Gen/Src*.lean).

`whileFuel cond body fuel s` is the Rust loop `while cond(s) { (s, broke) = body(s); if broke { break } }`
iterated at most `fuel` times: `some` of the final state if the loop has ended by then, `none` otherwise.
A transcription that uses it is therefore never wrong about the code — a bound that is too small only
makes it `none`, and the tie theorem (which proves `some`) then cannot be proved.
-/
namespace ScadVerif

def Src.whileFuel {σ : Type} (cond : σ → Bool) (body : σ → σ × Bool) : Nat → σ → Option σ
  | 0, _ => none
  | fuel + 1, s =>
    if cond s then
      let r := body s
      if r.2 then some r.1 else Src.whileFuel cond body fuel r.1
    else some s

end ScadVerif
