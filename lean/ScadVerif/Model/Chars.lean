/- `c!"text"` : the list of characters of a string literal, as a `List Char` literal
(strings do not reduce well in the kernel; the model keeps text as `List Char`). -/
namespace ScadVerif
open Lean in
macro:max "c!" s:str : term => do
  let cs := s.getString.toList
  let elems := cs.map fun c => Syntax.mkCharLit c
  `(([$(elems.toArray),*] : List Char))
end ScadVerif
