/-
Model of scad_tree::triangulate (ear clipping), in the form the code has after the repair
recorded in known_findings.json (exact zero tests instead of absolute 1e-5 tolerances, `usize`
loop counters).  A polygon is a list of (input index, point).
-/
import ScadVerif.Model.Pt
namespace ScadVerif.Tri
variable {α : Type} [Add α] [Sub α] [Mul α] [Div α] [Neg α] [OfNat α 0] [OfNat α 1] [Cmp α]

abbrev Poly (α : Type) := List (Nat × Pt2 α)

/-- twice the signed area of the triangle (a, b, c) as `is_ccw` computes it -/
def cross3 (a b c : Pt2 α) : α := (b.x - a.x) * (c.y - a.y) - (c.x - a.x) * (b.y - a.y)

/-- `is_ccw` -/
def isCcw (a b c : Pt2 α) : Bool := Cmp.ltb 0 (cross3 a b c)

/-- `in_triangle(p, a, b, c)` (repaired: `denom == 0.0`) -/
def inTriangle (p a b c : Pt2 α) : Bool :=
  let denom := (b.y - c.y) * (a.x - c.x) + (c.x - b.x) * (a.y - c.y)
  if Cmp.eqb denom 0 then true else
  let denom := 1 / denom
  let alpha := denom * ((b.y - c.y) * (p.x - c.x) + (c.x - b.x) * (p.y - c.y))
  if Cmp.ltb alpha 0 then false else
  let beta := denom * ((c.y - a.y) * (p.x - c.x) + (a.x - c.x) * (p.y - c.y))
  if Cmp.ltb beta 0 then false else
  let gamma := 1 - alpha - beta
  if Cmp.ltb gamma 0 then false else true

def prevIdx (n i : Nat) : Nat := if i = 0 then n - 1 else i - 1
def nextIdx (n i : Nat) : Nat := if i = n - 1 then 0 else i + 1

def pt (poly : Poly α) (i : Nat) : Pt2 α := (poly.getD i (0, ⟨0, 0⟩)).2
def idx (poly : Poly α) (i : Nat) : Nat := (poly.getD i (0, ⟨0, 0⟩)).1

/-- `l.any` with the element's index (starting at `k`) -/
def anyIdx {β : Type} : List β → Nat → (Nat → β → Bool) → Bool
  | [], _, _ => false
  | x :: xs, k, f => f k x || anyIdx xs (k + 1) f
/-- first index (starting at `k`) satisfying `f` -/
def findIdxFrom {β : Type} : List β → Nat → (Nat → β → Bool) → Option Nat
  | [], _, _ => none
  | x :: xs, k, f => if f k x then some k else findIdxFrom xs (k + 1) f
/-- left fold with the element's index -/
def foldIdx {β γ : Type} : List β → Nat → (γ → Nat → β → γ) → γ → γ
  | [], _, _, acc => acc
  | x :: xs, k, f, acc => foldIdx xs (k + 1) f (f acc k x)

/-- index of the "left-most" vertex: smallest x, ties broken by smaller y (repaired: exact tie) -/
def leftmost (poly : Poly α) : Nat :=
  let step (acc : Nat × Pt2 α) (i : Nat) (v : Nat × Pt2 α) : Nat × Pt2 α :=
    let p := v.2
    if Cmp.ltb p.x acc.2.x || (Cmp.eqb p.x acc.2.x && Cmp.ltb p.y acc.2.y) then (i, p) else acc
  (foldIdx poly 0 step (0, pt poly 0)).1

/-- reference orientation: the turn at the left-most vertex -/
def refCcw (poly : Poly α) : Bool :=
  let n := poly.length
  let i := leftmost poly
  isCcw (pt poly (prevIdx n i)) (pt poly i) (pt poly (nextIdx n i))

/-- is vertex `i` an ear under the scan rule: turns like the reference and no *later* vertex
(other than its neighbours) lies in the triangle -/
def isEar (poly : Poly α) (ccw : Bool) (i : Nat) : Bool :=
  let n := poly.length
  let p := prevIdx n i
  let nx := nextIdx n i
  let a := pt poly p; let b := pt poly i; let c := pt poly nx
  if isCcw a b c != ccw then false else
  !(anyIdx poly 0 fun j v => decide (i < j) && j != p && j != nx && inTriangle v.2 a b c)

/-- first ear in scan order -/
def findEar (poly : Poly α) (ccw : Bool) : Option Nat :=
  findIdxFrom poly 0 fun i _ => isEar poly ccw i

/-- the clipping loop; `fuel` ≥ number of vertices -/
def clip : Nat → Poly α → Bool → List Nat → List Nat
  | 0, _, _, acc => acc
  | fuel + 1, poly, ccw, acc =>
    if poly.length < 3 then acc else
    match findEar poly ccw with
    | none => acc
    | some e =>
      let n := poly.length
      clip fuel (poly.eraseIdx e) ccw (acc ++ [idx poly (prevIdx n e), idx poly e, idx poly (nextIdx n e)])

/-- private `triangulate` -/
def triangulate (poly : Poly α) : List Nat := clip poly.length poly (refCcw poly) []

/-- private `triangulate` with its own panics made explicit: it computes `polygon.len() - 2` and reads
`polygon[0]`, so fewer than two vertices never return (the public entry points assert more than three) -/
def triangulateChecked (poly : Poly α) : Option (List Nat) :=
  if poly.length < 2 then none else some (triangulate poly)

def indexed (vs : List (Pt2 α)) : Poly α := (List.range vs.length).zip vs

/-- `assert!(vertices.len() > 3)`: `none` models the panic -/
def triangulate2d (vs : List (Pt2 α)) : Option (List Nat) :=
  if vs.length > 3 then some (triangulate (indexed vs)) else none
def triangulate2dRev (vs : List (Pt2 α)) : Option (List Nat) :=
  if vs.length > 3 then some (triangulate (indexed vs).reverse) else none

/-! ### 3D variants: projection along the dominant axis of the normal -/
inductive NormalType | px | nx | py | ny | pz | nz | none_
deriving Repr, DecidableEq

def classify [HasAbs α] (nml : Pt3 α) : NormalType :=
  let ax := HasAbs.abs nml.x; let ay := HasAbs.abs nml.y; let az := HasAbs.abs nml.z
  if Cmp.leb ay ax && Cmp.leb az ax then (if Cmp.leb 0 nml.x then .px else .nx)
  else if Cmp.leb ax ay && Cmp.leb az ay then (if Cmp.leb 0 nml.y then .py else .ny)
  else if Cmp.leb ax az && Cmp.leb ay az then (if Cmp.leb 0 nml.z then .pz else .nz)
  else .none_

def project (t : NormalType) (v : Pt3 α) : Pt2 α :=
  match t with
  | .px => ⟨v.y, v.z⟩
  | .nx => ⟨-v.y, v.z⟩
  | .py => ⟨-v.x, v.z⟩
  | .ny => ⟨v.x, v.z⟩
  | .pz => ⟨v.x, v.y⟩
  | .nz => ⟨-v.x, v.y⟩
  | .none_ => ⟨0, 0⟩

/-- with a NaN normal no branch is taken and the polygon stays empty; `triangulate` then
indexes `polygon[0]` and panics -/
def triangulate3d [HasAbs α] (vs : List (Pt3 α)) (nml : Pt3 α) : Option (List Nat) :=
  if vs.length > 3 then
    match classify nml with
    | .none_ => none
    | t => some (triangulate (indexed (vs.map (project t))))
  else none
def triangulate3dRev [HasAbs α] (vs : List (Pt3 α)) (nml : Pt3 α) : Option (List Nat) :=
  if vs.length > 3 then
    match classify nml with
    | .none_ => none
    | t => some (triangulate (indexed (vs.map (project t))).reverse)
  else none

end ScadVerif.Tri
