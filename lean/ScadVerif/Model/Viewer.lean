/-
Model of scad_tree::viewer — a scene accumulated by `add_*` calls.
-/
import ScadVerif.Model.Parts
namespace ScadVerif.Viewer
open ScadVerif ScadVerif.Parts
variable {α : Type} [Add α] [Sub α] [Mul α] [Div α] [Neg α] [OfNat α 0] [OfNat α 1]
  [OfNatCast α] [Trig α] [Cmp α] [HasAbs α] [HasSqrt α] [HasTrunc α]

structure State (α : Type) where
  pointRadius : α
  edgeRadius : α
  segments : Nat
  scad : Option (Scad α)

/-- one `add_*` call -/
inductive Op (α : Type) where
  | pt2 (p : Pt2 α) (color : List Char)
  | pt3 (p : Pt3 α) (color : List Char)
  | pt2s (ps : List (Pt2 α)) (color : List Char)
  | pt3s (ps : List (Pt3 α)) (color : List Char)
  | lines2d (es : List (Pt2 α × Pt2 α)) (color : List Char)
  | lines3d (es : List (Pt3 α × Pt3 α)) (color : List Char)
  | quad2 (s c e : Pt2 α) (seg : Nat)
  | quad3 (s c e : Pt3 α) (seg : Nat)
  | cubic2 (s c1 c2 e : Pt2 α) (seg : Nat)
  | cubic3 (s c1 c2 e : Pt3 α) (seg : Nat)
  | chain2 (curves : List (Dim2.Cubic α))
  | chain3 (curves : List (Dim3.Cubic α))

def sphereFn (r : α) (fn : Nat) : Scad α := Scad.node (.sphere r none none (some fn)) []
/-- `color!(c=color, child)` -/
def colorC (c : List Char) (cs : List (Scad α)) : Scad α := Scad.node (.color none (some c) none none) cs
/-- the `Scad { op: Color { color, alpha: Some(1.0) }, children }` literal of the list adders -/
def colorA (c : List Char) (cs : List (Scad α)) : Scad α := Scad.node (.color none (some c) none (some 1)) cs

/-- `self.scad = Some(old + s)` / `Some(s)` -/
def push (st : State α) (s : Scad α) : State α :=
  { st with scad := some (match st.scad with | some old => Scad.add old s | none => s) }
/-- `Some(Scad { Union, [old, child] })` / `Some(Scad { Union, [child] })` -/
def pushGroup (st : State α) (child : Scad α) : State α :=
  { st with scad := some (match st.scad with | some old => union [old, child] | none => union [child]) }

/-- the mesh of one edge: a cylinder of the edge radius turned by the look-at frame and moved to `start` -/
def edgeMesh (st : State α) (start end_ : Pt3 α) : Option (Scad α) := do
  let m := Mt4.lookAtLh start end_ ⟨0, 0, 1⟩
  let c ← Dim3.Polyhedron.cylinder st.edgeRadius (Pt3.sub end_ start).len st.segments
  let c := (c.applyMatrix m).translate start
  pure (Scad.node (.polyhedron c.points c.faces 1) [])

/-- the mesh of one 2D edge, as `add_lines2d` builds it: the frame of the edge lifted to z = 0, the cylinder
as long as the *2D* distance (over the reals that is `edgeMesh` of the lifted end points, `C18.edgeMesh2_eq`) -/
def edgeMesh2 (st : State α) (start end_ : Pt2 α) : Option (Scad α) := do
  let m := Mt4.lookAtLh (start.asPt3 0) (end_.asPt3 0) ⟨0, 0, 1⟩
  let c ← Dim3.Polyhedron.cylinder st.edgeRadius (Pt2.sub end_ start).len st.segments
  let c := (c.applyMatrix m).translate (start.asPt3 0)
  pure (Scad.node (.polyhedron c.points c.faces 1) [])

def edges (ps : List β) : List (β × β) := ps.zip (ps.drop 1)

def white : List Char := c!"White"
def green : List Char := c!"Green"
def darkSlateGray : List Char := c!"DarkSlateGray"

/-- the basic adders; `none` = a panic (a cylinder with fewer than four segments) -/
def addPt2 (st : State α) (p : Pt2 α) (c : List Char) : State α :=
  push st (translate ⟨p.x, p.y, 0⟩ [colorC c [sphereFn st.pointRadius st.segments]])
def addPt3 (st : State α) (p : Pt3 α) (c : List Char) : State α :=
  push st (translate ⟨p.x, p.y, p.z⟩ [colorC c [sphereFn st.pointRadius st.segments]])
def addPt2s (st : State α) (ps : List (Pt2 α)) (c : List Char) : State α :=
  pushGroup st (colorA c (ps.map fun p => translate ⟨p.x, p.y, 0⟩ [sphereFn st.pointRadius st.segments]))
def addPt3s (st : State α) (ps : List (Pt3 α)) (c : List Char) : State α :=
  pushGroup st (colorA c (ps.map fun p => translate ⟨p.x, p.y, p.z⟩ [sphereFn st.pointRadius st.segments]))
def addLines3d (st : State α) (es : List (Pt3 α × Pt3 α)) (c : List Char) : Option (State α) := do
  let meshes ← es.mapM fun (a, b) => edgeMesh st a b
  pure (pushGroup st (colorA c meshes))
def addLines2d (st : State α) (es : List (Pt2 α × Pt2 α)) (c : List Char) : Option (State α) := do
  let meshes ← es.mapM fun (a, b) => edgeMesh2 st a b
  pure (pushGroup st (colorA c meshes))

def addQuad2 (st : State α) (s c e : Pt2 α) (seg : Nat) : Option (State α) := do
  let pts := Dim2.quadraticBezier s c e seg
  let st := addPt2s st pts darkSlateGray
  let st ← addLines2d st (edges pts) white
  let st ← addLines2d st [(s, c), (e, c)] green
  pure (addPt2 st c green)
def addQuad3 (st : State α) (s c e : Pt3 α) (seg : Nat) : Option (State α) := do
  let pts := Dim3.quadraticBezier s c e seg
  let st := addPt3s st pts darkSlateGray
  let st ← addLines3d st (edges pts) white
  let st ← addLines3d st [(s, c), (e, c)] green
  pure (addPt3 st c green)
def addCubic2 (st : State α) (s c1 c2 e : Pt2 α) (seg : Nat) : Option (State α) := do
  let pts := Dim2.cubicBezier s c1 c2 e seg
  let st := addPt2s st pts darkSlateGray
  let st ← addLines2d st (edges pts) white
  let st ← addLines2d st [(s, c1), (e, c2)] green
  pure (addPt2 (addPt2 st c1 green) c2 green)
def addCubic3 (st : State α) (s c1 c2 e : Pt3 α) (seg : Nat) : Option (State α) := do
  let pts := Dim3.cubicBezier s c1 c2 e seg
  let st := addPt3s st pts darkSlateGray
  let st ← addLines3d st (edges pts) white
  let st ← addLines3d st [(s, c1), (e, c2)] green
  pure (addPt3 (addPt3 st c1 green) c2 green)

def step (st : State α) : Op α → Option (State α)
  | .pt2 p c => some (addPt2 st p c)
  | .pt3 p c => some (addPt3 st p c)
  | .pt2s ps c => some (addPt2s st ps c)
  | .pt3s ps c => some (addPt3s st ps c)
  | .lines2d es c => addLines2d st es c
  | .lines3d es c => addLines3d st es c
  | .quad2 s c e n => addQuad2 st s c e n
  | .quad3 s c e n => addQuad3 st s c e n
  | .cubic2 s c1 c2 e n => addCubic2 st s c1 c2 e n
  | .cubic3 s c1 c2 e n => addCubic3 st s c1 c2 e n
  | .chain2 cs => cs.foldlM (fun st c => addCubic2 st c.start c.control1 c.control2 c.end_ c.segments) st
  | .chain3 cs => cs.foldlM (fun st c => addCubic3 st c.start c.control1 c.control2 c.end_ c.segments) st

def run (pr er : α) (seg : Nat) (h : List (Op α)) : Option (State α) :=
  h.foldlM step ⟨pr, er, seg, none⟩

/-- `into_scad`: `self.scad.unwrap()` -/
def intoScad (st : State α) : Option (Scad α) := st.scad

end ScadVerif.Viewer
