/-
Model of scad_tree_math::rng — MersenneTwister (state update in place, tempering, seeding) and
the range maps, after the repair of `f32_0_1` (24 random bits over 2²⁴).
Constants come from Gen/Consts.lean, regenerated from rng.rs on every run.
-/
import ScadVerif.Gen.Consts
namespace ScadVerif.Rng
open ScadVerif

/-- `y = (u & UPPER) | (l & LOWER);  (y >> 1) ^ mag[y & 1]` -/
def twist (u l : UInt32) : UInt32 :=
  let y := (u &&& Gen.mtUpper) ||| (l &&& Gen.mtLower)
  (y >>> 1) ^^^ (if y &&& 1 = 0 then 0 else Gen.mtMatrixA)

def temper (y : UInt32) : UInt32 :=
  let y := y ^^^ (y >>> Gen.mtShiftU.toUInt32)
  let y := y ^^^ ((y <<< Gen.mtShiftS.toUInt32) &&& Gen.mtMaskB)
  let y := y ^^^ ((y <<< Gen.mtShiftT.toUInt32) &&& Gen.mtMaskC)
  y ^^^ (y >>> Gen.mtShiftL.toUInt32)

structure MT where
  buf : Array UInt32
  index : Nat

def rd (b : Array UInt32) (i : Nat) : UInt32 := b.getD i 0
def wr (b : Array UInt32) (i : Nat) (v : UInt32) : Array UInt32 := b.setIfInBounds i v

/-- `with_seed`: buffer[0] = seed, buffer[i] = 6069 · buffer[i−1] mod 2³², index = N -/
def withSeed (seed : UInt32) : MT :=
  let b0 : Array UInt32 := (Array.replicate Gen.mtN 0).setIfInBounds 0 seed
  let b := (List.range (Gen.mtN - 1)).foldl (fun b j => wr b (j + 1) (Gen.mtSeedMul * rd b j)) b0
  ⟨b, Gen.mtN⟩

/-- the three loops that regenerate the state in place -/
def regen (b : Array UInt32) : Array UInt32 :=
  let n := Gen.mtN; let m := Gen.mtM
  let b1 := (List.range (n - m)).foldl
    (fun b kk => wr b kk (rd b (kk + m) ^^^ twist (rd b kk) (rd b (kk + 1)))) b
  let b2 := (List.range (n - 1 - (n - m))).foldl
    (fun b j => let kk := j + (n - m); wr b kk (rd b (kk + m - n) ^^^ twist (rd b kk) (rd b (kk + 1)))) b1
  wr b2 (n - 1) (rd b2 (m - 1) ^^^ twist (rd b2 (n - 1)) (rd b2 0))

/-- private `next` -/
def next (mt : MT) : UInt32 × MT :=
  let (b, i) := if mt.index ≥ Gen.mtN then (regen mt.buf, 0) else (mt.buf, mt.index)
  (temper (rd b i), ⟨b, i + 1⟩)

/-- the first `n` outputs -/
def outputs : Nat → MT → List UInt32
  | 0, _ => []
  | n + 1, mt => let (y, mt') := next mt; y :: outputs n mt'

/-! ### range maps on one raw output `u` -/
/-- `f32_0_1` (repaired): 24 random bits over 2²⁴ — exact in f32, always < 1 -/
def f32_0_1 (u : UInt32) : Float32 := (u >>> 8).toFloat32 / (16777216 : Float32)
/-- `f32_0_1` as first published -/
def f32_0_1_legacy (u : UInt32) : Float32 :=
  let u := if u = 0xffffffff then u - 1 else u
  u.toFloat32 / (0xffffffff : UInt32).toFloat32

/-- `i32_minmax`: `min + ((max - min) as f32 * f32_0_1()) as i32` (wrapping i32 arithmetic) -/
def i32Minmax (u : UInt32) (min max : Int32) : Int32 :=
  min + ((max - min).toFloat32 * f32_0_1 u).toInt32
def f32Minmax (u : UInt32) (min max : Float32) : Float32 := min + (max - min) * f32_0_1 u
def f64Minmax (u : UInt32) (min max : Float) : Float := min + (max - min) * (f32_0_1 u).toFloat

end ScadVerif.Rng
