/-
Model of scad_tree::metric_thread — table lookup, thread proportions, the thread mesh
(`threaded_cylinder`) and the part builders — after the repair of the double centring in
`hex_bolt`/`hex_nut`.
-/
import ScadVerif.Model.Scad
import ScadVerif.Model.Dim3
import ScadVerif.Gen.ThreadTable
namespace ScadVerif.Thread
open ScadVerif
variable {α : Type} [Add α] [Sub α] [Mul α] [Div α] [Neg α] [OfNat α 0] [OfNat α 1]
  [OfNatCast α] [Trig α] [Cmp α] [HasAbs α] [HasSqrt α] [HasTrunc α]

/-- value of a decimal literal: the correctly rounded quotient is the double the literal denotes -/
def Gen.Dec.val (d : Gen.Dec) : α := cast d.num / cast (10 ^ d.digits)

def findRow (k : Nat) : Option Gen.ThreadRow := Gen.threadTable.find? (·.key = k)

/-- the `loop { if contains(m) break; m -= 1 }` of `m_table_lookup`, counting down from `m` -/
def lookupFrom : Nat → Option Gen.ThreadRow
  | 0 => findRow 0
  | m + 1 => match findRow (m + 1) with
    | some r => some r
    | none => lookupFrom m

/-- `m_table_lookup(m)`: sizes below 2 are clamped to 2 -/
def lookup (m : Int) : Option Gen.ThreadRow := lookupFrom (if m < 2 then 2 else m.toNat)

/-- `thread_height_from_pitch`: √3 / 2 · pitch -/
def threadHeight (pitch : α) : α := sqrt (lit 3 : α) / lit 2 * pitch
/-- `d_min_from_d_maj_pitch`: d_maj − 2·5/8·H -/
def dMin (dMaj pitch : α) : α := dMaj - lit 2 * lit 5 / lit 8 * threadHeight pitch

/-- private `lerp(start, end, n_steps, step)` -/
def lerpSteps (s e : Pt3 α) (n step : Nat) : Pt3 α :=
  s + ((e - s) / (cast n : α) * (cast step : α))

structure Mesh (α : Type) where
  points : List (Pt3 α)
  faces : List (List Nat)
  convexity : Nat

/-- one ring of four vertices from a profile at the given (cos, sin) and height offset -/
def ring4 (c s z : α) (p0 p1 p2 p3 : Pt3 α) : List (Pt3 α) :=
  [⟨c * p0.x, s * p0.x, z + p0.z⟩, ⟨c * p1.x, s * p1.x, z + p1.z⟩,
   ⟨c * p2.x, s * p2.x, z + p2.z⟩, ⟨c * p3.x, s * p3.x, z + p3.z⟩]

/-- the eight triangles between ring `step` and ring `step + 1` -/
def stepFaces (left : Bool) (o : Nat) : List (List Nat) :=
  if left then
    [[3 + o, 5 + o, 1 + o], [7 + o, 5 + o, 3 + o], [1 + o, 4 + o, o], [5 + o, 4 + o, 1 + o],
     [o, 6 + o, 2 + o], [4 + o, 6 + o, o], [2 + o, 7 + o, 3 + o], [6 + o, 7 + o, 2 + o]]
  else
    [[1 + o, 5 + o, 3 + o], [3 + o, 5 + o, 7 + o], [o, 4 + o, 1 + o], [1 + o, 4 + o, 5 + o],
     [2 + o, 6 + o, o], [o, 6 + o, 4 + o], [3 + o, 7 + o, 2 + o], [2 + o, 7 + o, 6 + o]]

/-- loop state of the thread builder -/
structure St (α : Type) where
  leadInStep : Nat
  leadOutStep : Nat
  in1 : Pt3 α
  in3 : Pt3 α
  out1 : Pt3 α
  out3 : Pt3 α
  points : List (Pt3 α)     -- reversed chunks are avoided: appended per step
  faces : List (List Nat)

/-- the thread mesh of `threaded_cylinder` (first polyhedron of its result) -/
def threadMesh (dMin dMaj pitch length : α) (segments : Nat) (leadInDeg leadOutDeg : α) (left : Bool) :
    Option (Mesh α) :=
  let leadIn := Cmp.ltb 0 leadInDeg
  let leadOut := Cmp.ltb 0 leadOutDeg
  let threadLength := length - lit 7 / lit 10 * pitch
  let nRev := threadLength / pitch
  let nSteps := HasTrunc.trunc (nRev * cast segments)
  let zStep := threadLength / (cast nSteps : α)
  let stepAngle : α := lit 360 / cast segments
  let nIn := HasTrunc.trunc ((cast segments : α) * leadInDeg / lit 360 + lit 2)
  let nOut := HasTrunc.trunc ((cast segments : α) * leadOutDeg / lit 360)
  -- `n_steps - 1`, `n_steps - 2` and `n_steps - n_lead_out_steps` are usize subtractions
  if nSteps < 2 || nOut > nSteps then none else
  let half (x : α) : α := x / lit 2
  let tp0 : Pt3 α := ⟨half dMin, 0, lit 3 / lit 4 * pitch⟩
  let tp1 : Pt3 α := ⟨half dMaj, 0, lit 7 / lit 16 * pitch⟩
  let tp2 : Pt3 α := ⟨half dMin, 0, 0⟩
  let tp3 : Pt3 α := ⟨half dMaj, 0, lit 5 / lit 16 * pitch⟩
  let lp1 : Pt3 α := ⟨half dMin, 0, lit 7 / lit 16 * pitch⟩
  let lp3 : Pt3 α := ⟨half dMin, 0, lit 5 / lit 16 * pitch⟩
  let inStart1 := lerpSteps lp1 tp1 nIn 2
  let inStart3 := lerpSteps lp3 tp3 nIn 2
  let outEnd1 := lerpSteps lp1 tp1 nOut 1
  let outEnd3 := lerpSteps lp3 tp3 nOut 1
  let startFaces : List (List Nat) := if left then [[2, 1, 0], [3, 1, 2]] else [[0, 1, 2], [2, 1, 3]]
  let st0 : St α := ⟨3, nOut, inStart1, inStart3, tp1, tp3, [tp0, inStart1, tp2, inStart3], startFaces⟩
  let st := (List.range (nSteps - 1)).foldl (fun (st : St α) step =>
    let angle0 : α := stepAngle * cast (step + 1)
    let angle := if left then angle0 * (-1) else angle0
    let c := dcos angle; let s := dsin angle
    let z := zStep * cast step
    if st.leadInStep < nIn && leadIn then
      let li := st.leadInStep + 1
      { st with
        leadInStep := li
        in1 := lerpSteps inStart1 tp1 nIn li
        in3 := lerpSteps inStart3 tp3 nIn li
        points := st.points ++ ring4 c s z tp0 st.in1 tp2 st.in3
        faces := st.faces ++ stepFaces left (step * 4) }
    else if st.leadOutStep > 0 && step ≥ nSteps - nOut && leadOut then
      let lo := st.leadOutStep - 1
      { st with
        leadOutStep := lo
        out1 := lerpSteps tp1 outEnd1 nOut (nOut - lo)
        out3 := lerpSteps tp3 outEnd3 nOut (nOut - lo)
        points := st.points ++ ring4 c s z tp0 st.out1 tp2 st.out3
        faces := st.faces ++ stepFaces left (step * 4) }
    else
      { st with
        points := st.points ++ ring4 c s z tp0 tp1 tp2 tp3
        faces := st.faces ++ stepFaces left (step * 4) }) st0
  let o := (nSteps - 2) * 4
  let endFaces : List (List Nat) :=
    if left then [[5 + o, 7 + o, 6 + o], [4 + o, 5 + o, 6 + o]] else [[6 + o, 7 + o, 5 + o], [6 + o, 5 + o, 4 + o]]
  some ⟨st.points, st.faces ++ endFaces, HasTrunc.trunc (length / pitch) + 1⟩

/-- `Polyhedron::into_scad` -/
def polyScad (p : Dim3.Polyhedron α) : Scad α := Scad.node (.polyhedron p.points p.faces 1) []

/-- the un-centred thread with its core rod -/
def threadedCylinderCore (dMin dMaj pitch length : α) (segments : Nat) (leadInDeg leadOutDeg : α)
    (left : Bool) : Option (Scad α) := do
  let m ← threadMesh dMin dMaj pitch length segments leadInDeg leadOutDeg left
  let threads : Scad α := Scad.node (.polyhedron m.points m.faces m.convexity) []
  let rod ← Dim3.Polyhedron.cylinder (dMin / lit 2 + lit 1 / lit 10000) length segments
  pure (Scad.add threads (polyScad rod))

/-- `threaded_cylinder` -/
def threadedCylinder (dMin dMaj pitch length : α) (segments : Nat) (leadInDeg leadOutDeg : α)
    (left center : Bool) : Option (Scad α) :=
  (threadedCylinderCore dMin dMaj pitch length segments leadInDeg leadOutDeg left).map fun result =>
    if center then Scad.node (.translate ⟨0, 0, -length / lit 2⟩) [result] else result

end ScadVerif.Thread
