/-
The theorem of C13 restated about the *transcribed source*: what each `scad_file!` arm writes parses as the
assignments of its settings followed by exactly the children.
-/
import ScadVerif.Props.C13
import ScadVerif.Tie.File
namespace ScadVerif.SrcC13
open ScadVerif ScadVerif.Spec ScadVerif.ParserLemmas

variable {ν : Type} [OfNat ν 0] (showNum : ν → List Char)

theorem arm_fa_fs_parses (hnum : ∀ x, IsNumeral (showNum x) = true) (a s : ν) (cs : List (Scad ν))
    (hwf : ∀ t ∈ cs, C01.WellFormed showNum t) (hp : ∀ t ∈ cs, TieEmit.allPlain t) :
    parseFile (Src.scadFile.armFaFs showNum a s cs) =
      some (C13.settingTops showNum (.faFs a s) ++ cs.map fun t => Top.stmt (toStmt showNum t)) := by
  rw [TieFile.arm_fa_fs showNum a s cs hp]
  exact C13.fileContent_parses showNum hnum (.faFs a s) cs hwf

theorem arm_fn_parses (hnum : ∀ x, IsNumeral (showNum x) = true) (n : Nat) (cs : List (Scad ν))
    (hwf : ∀ t ∈ cs, C01.WellFormed showNum t) (hp : ∀ t ∈ cs, TieEmit.allPlain t) :
    parseFile (Src.scadFile.armFn showNum n cs) =
      some (C13.settingTops showNum (.fn n) ++ cs.map fun t => Top.stmt (toStmt showNum t)) := by
  rw [TieFile.arm_fn showNum n cs hp]
  exact C13.fileContent_parses showNum hnum (.fn n) cs hwf

theorem arm_plain_parses (hnum : ∀ x, IsNumeral (showNum x) = true) (cs : List (Scad ν))
    (hwf : ∀ t ∈ cs, C01.WellFormed showNum t) (hp : ∀ t ∈ cs, TieEmit.allPlain t) :
    parseFile (Src.scadFile.armPlain showNum cs) =
      some (C13.settingTops showNum .none ++ cs.map fun t => Top.stmt (toStmt showNum t)) := by
  rw [TieFile.arm_plain showNum cs hp]
  exact C13.fileContent_parses showNum hnum .none cs hwf

end ScadVerif.SrcC13
