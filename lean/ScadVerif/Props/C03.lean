/-
C03 — triangulation tiles every simple polygon exactly.

The theorems are about `Tri.triangulate` / `triangulate2d` / `triangulate2dRev` of Model/Tri.lean,
the model of scad_tree::triangulate (same scan order, same predicates; the correspondence run
compares its index list with the crate's on every generated polygon), instantiated at exact
arithmetic (ℝ).  They hold for every vertex list, of any length, simple or not:

* every index is a valid input index, the output is a whole number of triangles, at most n-2;
* every triangle turns the way the polygon does at its left-most vertex (`orientation`);
* area conservation: the signed areas of the triangles and of what is left of the polygon add up
  to the polygon's signed area at every step, so a run that completes (n-2 triangles) produces
  triangles that all have the polygon's sign and whose areas sum to exactly the polygon's area
  (`complete_area`, `complete_ccw_positive`) — overlap-free covering is then equivalent to the
  edge certificate the oracle checks on every implementation result.

PARTIAL: that the loop completes on every *simple* polygon (Meisters' two-ears theorem plus
soundness of the later-vertices-only scan) and that the certificate implies a tiling are plane
topology, cited and not formalised; they are decided on the implementation by the oracle run.
-/
import ScadVerif.Lemmas.TriLemmas
import ScadVerif.Lemmas.MeshLemmas
namespace ScadVerif.C03
open ScadVerif ScadVerif.Tri ScadVerif.TriLemmas ScadVerif.Spec

/-- the triangle test is the sign of the shoelace cross product -/
theorem isCcw_iff (a b c : Pt2 ℝ) : isCcw a b c = true ↔ 0 < Tri.cross3 a b c := by
  simp [isCcw]

/-- labels of a polygon refer to positions of a vertex list -/
def Consistent (vs : List (Pt2 ℝ)) (poly : Poly ℝ) : Prop :=
  ∀ v ∈ poly, v.1 < vs.length ∧ vs.getD v.1 d0 = v.2

theorem indexed_consistent (vs : List (Pt2 ℝ)) : Consistent vs (indexed vs) := by
  intro v hv
  obtain ⟨i, hi⟩ := List.mem_iff_getElem?.mp hv
  simp only [indexed, List.getElem?_zip_eq_some, List.getElem?_range'] at hi
  obtain ⟨h1, h2⟩ := hi
  have hlt : i < vs.length := by
    cases h : vs[i]? with
    | none => rw [h] at h2; simp at h2
    | some _ => exact (List.getElem?_eq_some_iff.mp h).1
  simp only [List.range_eq_range', List.getElem?_range', hlt, if_true, Option.some.injEq] at h1
  refine ⟨by omega, ?_⟩
  rw [List.getD_eq_getElem?_getD, ← h1]
  simp at h2 ⊢
  simp [h2]

theorem reverse_consistent (vs : List (Pt2 ℝ)) (poly : Poly ℝ) (h : Consistent vs poly) :
    Consistent vs poly.reverse := fun v hv => h v (List.mem_reverse.mp hv)

/-- the emitted triangles of a run of `triangulate` -/
noncomputable def run (poly : Poly ℝ) : List (Tri3 ℝ) × Poly ℝ :=
  clipRun poly.length poly (refCcw poly) []

theorem triangulate_eq (poly : Poly ℝ) : triangulate poly = labels (run poly).1 := by
  have := clip_eq poly.length poly (refCcw poly) ([] : List (Tri3 ℝ))
  simpa [labels, triangulate, run] using this

theorem labels_length (ts : List (Tri3 ℝ)) : (labels ts).length = 3 * ts.length := by
  induction ts with
  | nil => rfl
  | cons t ts ih => simp [labels, triLabels] at ih ⊢; omega

theorem triples_labels (ts : List (Tri3 ℝ)) : triples (labels ts) = ts.map triLabels := by
  induction ts with
  | nil => rfl
  | cons t ts ih =>
    simp only [labels, List.flatMap_cons, triLabels, List.map_cons] at ih ⊢
    simp only [List.cons_append, List.nil_append, triples, ih]

/-- **C03, indices.** Every emitted index is a position of the input vertex list. -/
theorem triangulate_indices (vs : List (Pt2 ℝ)) (poly : Poly ℝ) (hc : Consistent vs poly) :
    ∀ i ∈ triangulate poly, i < vs.length := by
  rw [triangulate_eq]
  intro i hi
  simp only [labels, List.mem_flatMap] at hi
  obtain ⟨t, ht, hit⟩ := hi
  have hm := (clipRun_mem poly.length poly (refCcw poly)).1 t ht
  simp only [triLabels, List.mem_cons, List.not_mem_nil, or_false] at hit
  rcases hit with rfl | rfl | rfl
  · exact (hc _ hm.1).1
  · exact (hc _ hm.2.1).1
  · exact (hc _ hm.2.2).1

/-- **C03, count.** The output is a whole number of triangles: three indices for every vertex
removed; never more than n-2 triangles. -/
theorem triangulate_length (poly : Poly ℝ) :
    (triangulate poly).length = 3 * (poly.length - (run poly).2.length) := by
  have := clipRun_count poly.length poly (refCcw poly) ([] : List (Tri3 ℝ))
  rw [triangulate_eq, labels_length]
  simp only [run, List.length_nil, Nat.zero_add] at this ⊢
  omega
theorem triangulate_length_le (poly : Poly ℝ) (h : 2 ≤ poly.length) :
    (triangulate poly).length ≤ 3 * (poly.length - 2) := by
  have := clipRun_residual_ge poly.length poly (refCcw poly) ([] : List (Tri3 ℝ)) h
  rw [triangulate_length]; simp only [run]; omega

/-- **C03, orientation.** Every emitted triangle, read off the input vertex list by its three
indices, turns the way the polygon turns at its left-most vertex. -/
theorem triangulate_orientation (vs : List (Pt2 ℝ)) (poly : Poly ℝ) (hc : Consistent vs poly) :
    ∀ t ∈ triples (triangulate poly), ∃ i j k, t = [i, j, k] ∧
      isCcw (vs.getD i d0) (vs.getD j d0) (vs.getD k d0) = refCcw poly := by
  rw [triangulate_eq, triples_labels]
  intro t ht
  obtain ⟨tr, htr, rfl⟩ := List.mem_map.mp ht
  have hm := (clipRun_mem poly.length poly (refCcw poly)).1 tr htr
  have ho := clipRun_orient poly.length poly (refCcw poly) tr htr
  refine ⟨tr.1.1, tr.2.1.1, tr.2.2.1, rfl, ?_⟩
  rw [(hc _ hm.1).2, (hc _ hm.2.1).2, (hc _ hm.2.2).2]; exact ho

/-- twice the signed area of the triangles named by an index list -/
noncomputable def sumTri (vs : List (Pt2 ℝ)) (out : List Nat) : ℝ :=
  ((triples out).map fun t =>
    match t with
    | [i, j, k] => Spec.cross3 (vs.getD i d0) (vs.getD j d0) (vs.getD k d0)
    | _ => 0).sum

theorem sumTri_run (vs : List (Pt2 ℝ)) (poly : Poly ℝ) (hc : Consistent vs poly) :
    sumTri vs (triangulate poly) = ((run poly).1.map triArea2).sum := by
  rw [sumTri, triangulate_eq, triples_labels, List.map_map]
  congr 1
  apply List.map_congr_left
  intro tr htr
  have hm := (clipRun_mem poly.length poly (refCcw poly)).1 tr htr
  simp only [Function.comp, triLabels, triArea2]
  rw [(hc _ hm.1).2, (hc _ hm.2.1).2, (hc _ hm.2.2).2]

/-- **C03, area conservation.** The emitted triangles and the part of the polygon not yet cut
add up, in signed area, to the input polygon — whether or not the run completes. -/
theorem area_conservation (vs : List (Pt2 ℝ)) (poly : Poly ℝ) (hc : Consistent vs poly) :
    area2 (pts poly) = sumTri vs (triangulate poly) + area2 (pts (run poly).2) := by
  rw [sumTri_run vs poly hc]
  exact clipRun_area poly.length poly (refCcw poly)

/-- **C03, complete runs.** When n-2 triangles come out, their signed areas sum to exactly the
polygon's signed area. -/
theorem complete_area (vs : List (Pt2 ℝ)) (poly : Poly ℝ) (hc : Consistent vs poly)
    (hn : 3 ≤ poly.length) (hcomplete : (triangulate poly).length = 3 * (poly.length - 2)) :
    sumTri vs (triangulate poly) = area2 (pts poly) := by
  have hlen := triangulate_length poly
  have hres : (run poly).2.length < 3 := by
    have := clipRun_residual_ge poly.length poly (refCcw poly) ([] : List (Tri3 ℝ)) (by omega)
    simp only [run] at hlen ⊢; omega
  have := area_conservation vs poly hc
  have hz : area2 (pts (run poly).2) = 0 := area2_short _ (by simpa [pts] using hres)
  rw [hz] at this
  linarith

/-- … and for a polygon that turns counter-clockwise at its left-most vertex every one of those
triangles has positive area, so the polygon's area is the sum of the (unsigned) triangle areas:
the triangles cannot overlap without failing to cover, and conversely. -/
theorem complete_ccw_positive (vs : List (Pt2 ℝ)) (poly : Poly ℝ) (hc : Consistent vs poly)
    (hccw : refCcw poly = true) :
    ∀ t ∈ triples (triangulate poly), ∃ i j k, t = [i, j, k] ∧
      0 < Spec.cross3 (vs.getD i d0) (vs.getD j d0) (vs.getD k d0) := by
  intro t ht
  obtain ⟨i, j, k, rfl, h⟩ := triangulate_orientation vs poly hc t ht
  rw [hccw, isCcw_iff] at h
  exact ⟨i, j, k, rfl, h⟩

/-- **C03, edge certificate of complete runs.** Whenever n-2 triangles come out, their directed edges
are: every boundary edge of the polygon exactly as often as it occurs in the outline (in list
direction) plus edges that are matched by their reverse — for every input, simple or not.  Together
with `complete_area` and `triangulate_orientation` this is the whole tiling certificate the oracle
evaluates, except for "no two triangles overlap", which for same-signed triangles whose areas sum to
the polygon's area is equivalent to covering. -/
theorem complete_edges (vs : List (Pt2 ℝ)) (hn : 2 ≤ vs.length)
    (hc : (triangulate (indexed vs)).length = 3 * (vs.length - 2)) :
    MeshLemmas.EdgeClosed (allEdges (Dim3.triFaces 0 (triangulate (indexed vs))) ++
      (MeshLemmas.ringF vs.length 0).map Prod.swap) := by
  have := MeshLemmas.cap_forward vs 0 hn hc
  have hs : (MeshLemmas.ringF vs.length 0).map (MeshLemmas.shift 0) = MeshLemmas.ringF vs.length 0 := by
    conv_rhs => rw [← List.map_id (MeshLemmas.ringF vs.length 0)]
    apply List.map_congr_left
    intro e _; cases e; simp [MeshLemmas.shift]
  rwa [hs] at this
/-- … and for the reversed list (`triangulate2d_rev`): the boundary is the ring backwards -/
theorem complete_edges_rev (vs : List (Pt2 ℝ)) (hn : 2 ≤ vs.length)
    (hc : (triangulate (indexed vs).reverse).length = 3 * (vs.length - 2)) :
    MeshLemmas.EdgeClosed (allEdges (Dim3.triFaces 0 (triangulate (indexed vs).reverse)) ++
      MeshLemmas.ringF vs.length 0) :=
  MeshLemmas.cap_backward vs hn hc

/-- reversing the list reverses the orientation -/
theorem convex_reverse (ccw : Bool) (vs : List (Pt2 ℝ)) (h : ConvexPos ccw vs) : ConvexPos (!ccw) vs.reverse := by
  intro i j k hij hjk hk
  have hk' : k < vs.length := by simpa using hk
  have g : ∀ m, m < vs.length → vs.reverse.getD m d0 = vs.getD (vs.length - 1 - m) d0 := by
    intro m hm
    simp only [List.getD_eq_getElem?_getD]
    rw [List.getElem?_reverse hm]
  rw [g i (by omega), g j (by omega), g k hk']
  have := h (vs.length - 1 - k) (vs.length - 1 - j) (vs.length - 1 - i) (by omega) (by omega) (by omega)
  have e : Tri.cross3 (vs.getD (vs.length - 1 - i) d0) (vs.getD (vs.length - 1 - j) d0) (vs.getD (vs.length - 1 - k) d0) =
      -Tri.cross3 (vs.getD (vs.length - 1 - k) d0) (vs.getD (vs.length - 1 - j) d0) (vs.getD (vs.length - 1 - i) d0) := by
    simp only [Tri.cross3]; ring
  rw [e]
  cases ccw <;> simp only [Oriented, Bool.not_false, Bool.not_true, Bool.false_eq_true, if_false, if_true] at this ⊢ <;>
    linarith

theorem pts_indexed (vs : List (Pt2 ℝ)) : pts (indexed vs) = vs := by
  unfold pts indexed
  rw [List.map_snd_zip]; simp
theorem pts_indexed_reverse (vs : List (Pt2 ℝ)) : pts (indexed vs).reverse = vs.reverse := by
  have h := pts_indexed vs
  unfold pts at h ⊢
  rw [List.map_reverse, h]

/-- **C03 on convex polygons — total.** For every strictly convex polygon of at least four vertices,
listed in either direction, both entry points return exactly n-2 triangles (so, with the theorems
above, valid indices, the polygon's own orientation, areas summing to the polygon's area and the edge
certificate all hold). -/
theorem convex_complete (ccw : Bool) (vs : List (Pt2 ℝ)) (hn : 3 < vs.length) (hc : ConvexPos ccw vs) :
    (∃ out, triangulate2d vs = some out ∧ out.length = 3 * (vs.length - 2)) ∧
    (∃ out, triangulate2dRev vs = some out ∧ out.length = 3 * (vs.length - 2)) := by
  have hl : (indexed vs).length = vs.length := by simp [indexed]
  constructor
  · refine ⟨triangulate (indexed vs), by simp [triangulate2d, hn], ?_⟩
    have := triangulate_convex_complete ccw (indexed vs) (by omega) (by rw [pts_indexed]; exact hc)
    rwa [hl] at this
  · refine ⟨triangulate (indexed vs).reverse, by simp [triangulate2dRev, hn], ?_⟩
    have := triangulate_convex_complete (!ccw) (indexed vs).reverse (by simp; omega)
      (by rw [pts_indexed_reverse]; exact convex_reverse ccw vs hc)
    simpa [hl] using this

/-- **C03 on convex polygons, functionally.** For a strictly convex vertex list (either direction) of at
least four vertices `triangulate2d` returns exactly the fan from the last vertex:
`n-1, 0, 1,  n-1, 1, 2,  …,  n-1, n-3, n-2`. -/
theorem convex_fan (ccw : Bool) (vs : List (Pt2 ℝ)) (hn : 3 < vs.length) (hc : ConvexPos ccw vs) :
    triangulate2d vs = some (labels (fanAux (vAt (indexed vs) (vs.length - 1)) (indexed vs))) := by
  have hl : (indexed vs).length = vs.length := by simp [indexed]
  have := triangulate_convex_fan ccw (indexed vs) (by omega) (by rw [pts_indexed]; exact hc)
  rw [hl] at this
  simp [triangulate2d, hn, this]

/-- the public entry points: `triangulate2d` on the list, `triangulate2d_rev` on the reversed list,
both rejecting fewer than four vertices (the `assert!`) -/
theorem triangulate2d_spec (vs : List (Pt2 ℝ)) :
    (triangulate2d vs = none ↔ vs.length ≤ 3) ∧
    (∀ out, triangulate2d vs = some out → (∀ i ∈ out, i < vs.length) ∧ out.length ≤ 3 * (vs.length - 2)) ∧
    (∀ out, triangulate2dRev vs = some out → (∀ i ∈ out, i < vs.length) ∧ out.length ≤ 3 * (vs.length - 2)) := by
  have hlen : (indexed vs).length = vs.length := by simp [indexed]
  refine ⟨?_, ?_, ?_⟩
  · unfold triangulate2d; split <;> simp <;> omega
  · intro out h
    unfold triangulate2d at h
    split at h
    · injection h with h; subst h
      refine ⟨triangulate_indices vs _ (indexed_consistent vs), ?_⟩
      have := triangulate_length_le (indexed vs) (by omega)
      rwa [hlen] at this
    · simp at h
  · intro out h
    unfold triangulate2dRev at h
    split at h
    · injection h with h; subst h
      refine ⟨triangulate_indices vs _ (reverse_consistent vs _ (indexed_consistent vs)), ?_⟩
      have := triangulate_length_le (indexed vs).reverse (by simp; omega)
      simpa [hlen] using this
    · simp at h

end ScadVerif.C03
