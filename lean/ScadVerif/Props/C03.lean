/-
C03 — triangulation tiles every simple polygon exactly.
-/
import ScadVerif.Lemmas.RealInst
import ScadVerif.Model.Tri
import ScadVerif.Spec.Mesh
namespace ScadVerif.C03
open ScadVerif ScadVerif.Tri

/-- the triangle test is the sign of the shoelace cross product -/
theorem isCcw_iff (a b c : Pt2 ℝ) : isCcw a b c = true ↔ 0 < cross3 a b c := by
  simp [isCcw]

end ScadVerif.C03
