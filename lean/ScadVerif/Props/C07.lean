/-
C07 — 2D profile generators give simple clockwise outlines of the stated size.

The theorems are about Model/Dim2.lean (the model of dim2.rs; the correspondence run compares every
generated outline with the crate's) over ℝ: documented point counts, every arc point on the start
point's circle and at the documented angle, clockwise for positive degrees (the angle decreases),
inscribed corners on the radius, circumscribed edges tangent to it, the rounded rectangle inside
its box, the chamfer outline as documented.

PARTIAL: simplicity (no self-intersection) of each outline and the outward orientation of its
extrusion are decided by the Lean oracle (`simpleB`, signed area, closed-oriented mesh, volume)
on every generated case, not proved.
-/
import ScadVerif.Props.C10
import ScadVerif.Props.C05
import ScadVerif.Model.Dim2
import ScadVerif.Spec.Mesh
import ScadVerif.Lemmas.TriLemmas
namespace ScadVerif.C07
open ScadVerif ScadVerif.Dim2 ScadVerif.TriLemmas

/-- documented point counts -/
theorem chamfer_length {α : Type} [Add α] [OfNat α 0] (s o : α) : (chamfer s o).length = 7 := rfl

/-- `arc` panics exactly for more than a full turn -/
theorem arc_none_iff (start : Pt2 ℝ) (degrees : ℝ) (n : Nat) : arc start degrees n = none ↔ 360 < degrees := by
  unfold arc
  by_cases h : degrees ≤ 360
  · have : Cmp.leb degrees (lit 360 : ℝ) = true := by simpa using h
    simp [this]
  · have : Cmp.leb degrees (lit 360 : ℝ) = false := by
      rw [Bool.eq_false_iff]; intro hc; exact h (by simpa using hc)
    simp [this]

/-- segments + 1 points for an open arc, `segments` for the full circle (no repeated point) -/
theorem arc_length (start : Pt2 ℝ) (degrees : ℝ) (n : Nat) (pts : List (Pt2 ℝ))
    (h : arc start degrees n = some pts) : pts.length = if degrees = 360 then n else n + 1 := by
  unfold arc at h
  split at h
  · simp at h
  · injection h with h; subst h
    by_cases hd : degrees = 360
    · have : Cmp.eqb degrees (lit 360 : ℝ) = true := by simpa using hd
      simp [this, hd]
    · have : Cmp.eqb degrees (lit 360 : ℝ) = false := by
        rw [Bool.eq_false_iff]; intro hc; exact hd (by simpa using hc)
      simp [this, hd]

/-- **arc points**: point `i` is the start point turned by `−i·degrees/segments`: the angle advances
by `degrees/segments` per point, clockwise for positive degrees -/
theorem arc_get (start : Pt2 ℝ) (degrees : ℝ) (n : Nat) (pts : List (Pt2 ℝ))
    (h : arc start degrees n = some pts) (i : Nat) (hi : i < pts.length) :
    pts[i] = start.rotated ((i : ℝ) * -degrees / (n : ℝ)) := by
  unfold arc at h
  split at h
  · simp at h
  · injection h with h; subst h
    simp

/-- a rotation keeps the distance from the origin -/
theorem rotated_len2 (p : Pt2 ℝ) (a : ℝ) : (p.rotated a).len2 = p.len2 := by
  simp only [Pt2.rotated, Pt2.len2, C10.rotated2_spec]
  exact C10.rot2_dot p p _ _ (C10.cs_unit a)

/-- **every arc point keeps the start point's distance from the origin** -/
theorem arc_radius (start : Pt2 ℝ) (degrees : ℝ) (n : Nat) (pts : List (Pt2 ℝ))
    (h : arc start degrees n = some pts) : ∀ p ∈ pts, p.len2 = start.len2 := by
  intro p hp
  obtain ⟨i, hi, rfl⟩ := List.getElem_of_mem hp
  rw [arc_get start degrees n pts h i hi, rotated_len2]

/-- consecutive arc points are one step of `−degrees/segments` apart -/
theorem arc_step (start : Pt2 ℝ) (degrees : ℝ) (n : Nat) (hn : n ≠ 0) (pts : List (Pt2 ℝ))
    (h : arc start degrees n = some pts) (i : Nat) (hi : i + 1 < pts.length) :
    pts[i + 1] = (pts[i]'(by omega)).rotated (-degrees / (n : ℝ)) := by
  rw [arc_get start degrees n pts h (i + 1) hi, arc_get start degrees n pts h i (by omega),
    C10.rot_add_2d]
  congr 1
  have : (n : ℝ) ≠ 0 := Nat.cast_ne_zero.mpr hn
  push_cast; field_simp; ring

/-- **circle / inscribed polygon**: `segments` corners, all on the radius, the first on +X -/
theorem circle_spec (r : ℝ) (n : Nat) (pts : List (Pt2 ℝ)) (h : circle r n = some pts) :
    pts.length = n ∧ (∀ p ∈ pts, p.x ^ 2 + p.y ^ 2 = r ^ 2) ∧
      ∀ i (hi : i < pts.length), pts[i] = ⟨r * dcos ((i : ℝ) * -360 / n), r * dsin ((i : ℝ) * -360 / n)⟩ := by
  unfold circle at h
  have e : (lit 360 : ℝ) = 360 := by simp
  rw [e] at h
  refine ⟨by simpa using arc_length _ _ _ _ h, ?_, ?_⟩
  · intro p hp
    have := arc_radius _ _ _ _ h p hp
    simp only [Pt2.len2, Pt2.dot] at this
    nlinarith [this]
  · intro i hi
    rw [arc_get _ _ _ _ h i hi]
    simp [Pt2.rotated, Pt2.rotatedCS]
theorem inscribed_eq_circle (n : Nat) (r : ℝ) : inscribedPolygon n r = circle r n := rfl

/-- **circumscribed polygon**: its corners lie on the radius `r / cos(180/n)` -/
theorem circumscribed_corners (n : Nat) (r : ℝ) (pts : List (Pt2 ℝ))
    (h : circumscribedPolygon n r = some pts) :
    pts.length = n ∧ ∀ p ∈ pts, p.x ^ 2 + p.y ^ 2 = (r / dcos (180 / (n : ℝ))) ^ 2 := by
  unfold circumscribedPolygon at h
  have e : (lit 180 : ℝ) = 180 := by simp
  rw [inscribed_eq_circle, e] at h
  have := circle_spec _ n pts h
  exact ⟨this.1, by simpa using this.2.1⟩

/-- the midpoint of a chord between two points of a circle is perpendicular to the chord: the edge
is tangent to the circle through its midpoint -/
theorem chord_midpoint_perp (p q : Pt2 ℝ) (h : p.len2 = q.len2) :
    ((p + q) / (2 : ℝ)).dot (q - p) = 0 := by
  simp only [Pt2.len2, Pt2.dot] at h
  show ((Pt2.sdiv (Pt2.add p q) 2).dot (Pt2.sub q p)) = 0
  simp only [Pt2.sdiv, Pt2.add, Pt2.sub, Pt2.dot]
  nlinarith [h]

/-- **tangency**: each edge midpoint of the circumscribed polygon is at distance exactly `r` from
the origin, and the edge is perpendicular to the radius there -/
theorem circumscribed_tangent (n : Nat) (hn : n ≠ 0) (r : ℝ) (hc : dcos (180 / (n : ℝ)) ≠ 0) (pts : List (Pt2 ℝ))
    (h : circumscribedPolygon n r = some pts) (i : Nat) (hi : i + 1 < pts.length) :
    let p := pts[i]'(by omega); let q := pts[i + 1]
    ((p + q) / (2 : ℝ)).len2 = r ^ 2 ∧ ((p + q) / (2 : ℝ)).dot (q - p) = 0 := by
  intro p q
  unfold circumscribedPolygon at h
  have e : (lit 180 : ℝ) = 180 := by simp
  rw [inscribed_eq_circle, e] at h
  unfold circle at h
  have e2 : (lit 360 : ℝ) = 360 := by simp
  rw [e2] at h
  have hp := arc_radius _ _ _ _ h p (List.getElem_mem _)
  have hq := arc_radius _ _ _ _ h q (List.getElem_mem _)
  refine ⟨?_, chord_midpoint_perp p q (hp.trans hq.symm)⟩
  -- q is p turned by −360/n
  have hstep := arc_step _ _ n hn pts h i hi
  have hq' : q = p.rotated (-360 / (n : ℝ)) := hstep
  set R := r / dcos (180 / (n : ℝ)) with hR
  have hpl : p.x ^ 2 + p.y ^ 2 = R ^ 2 := by
    simp only [Pt2.len2, Pt2.dot, cast_eq_natCast] at hp; rw [hR]; nlinarith [hp]
  -- half-angle: cos(360/n) = 2 cos²(180/n) − 1
  have hhalf : dcos (-360 / (n : ℝ)) = 2 * dcos (180 / (n : ℝ)) ^ 2 - 1 := by
    have h1 : (-360 / (n : ℝ)) = -(180 / (n : ℝ) + 180 / (n : ℝ)) := by ring
    rw [h1, C10.dcos_neg, C10.dcos_add]
    have := C10.cs_unit (180 / (n : ℝ))
    nlinarith [this]
  rw [hq']
  show (Pt2.sdiv (Pt2.add p (p.rotated (-360 / (n : ℝ)))) 2).len2 = r ^ 2
  simp only [Pt2.sdiv, Pt2.add, Pt2.rotated, Pt2.rotatedCS, Pt2.len2, Pt2.dot]
  have hcs := C10.cs_unit (-360 / (n : ℝ))
  set c := dcos (-360 / (n : ℝ))
  set s := dsin (-360 / (n : ℝ))
  have hr : r = R * dcos (180 / (n : ℝ)) := by rw [hR]; field_simp
  have key : ((p.x + (p.x * c - p.y * s)) / 2) * ((p.x + (p.x * c - p.y * s)) / 2) +
      ((p.y + (p.x * s + p.y * c)) / 2) * ((p.y + (p.x * s + p.y * c)) / 2) =
      (p.x ^ 2 + p.y ^ 2) * (1 + c) / 2 := by
    have : s * s = 1 - c * c := by linarith
    ring_nf
    nlinarith [this]
  rw [key, hpl, hhalf, hr]; ring

/-- **chamfer**: the documented outline, corner at the origin, legs `size + oversize` -/
theorem chamfer_points (s o : ℝ) :
    chamfer s o = [⟨0, s + o⟩, ⟨o, s + o⟩, ⟨o, s⟩, ⟨s, o⟩, ⟨s + o, o⟩, ⟨o + s, 0⟩, ⟨0, 0⟩] := rfl
/-- the chamfer's signed area is negative for positive sizes: it is wound clockwise -/
theorem chamfer_clockwise (s o : ℝ) (hs : 0 < s) (ho : 0 < o) : Spec.area2 (chamfer s o) < 0 := by
  simp only [chamfer, Spec.area2, Spec.area2.go]
  nlinarith [mul_pos hs ho, mul_pos hs hs, mul_pos ho ho]

/-- **star**: 2·n points, alternately on the inner and the outer radius -/
theorem star_length (n : Nat) (inner outer : ℝ) : (Dim2.star n inner outer).length = 2 * n := by
  simp [Dim2.star]; ring
theorem star_radii (n : Nat) (inner outer : ℝ) :
    ∀ p ∈ Dim2.star n inner outer, p.x ^ 2 + p.y ^ 2 = inner ^ 2 ∨ p.x ^ 2 + p.y ^ 2 = outer ^ 2 := by
  intro p hp
  simp only [Dim2.star, List.mem_flatMap, List.mem_range, List.mem_cons, List.not_mem_nil, or_false] at hp
  have key : ∀ t k : ℝ, (dcos t * k) ^ 2 + (dsin t * k) ^ 2 = k ^ 2 := fun t k => by
    have := C10.cs_unit t
    have e : (dcos t * k) ^ 2 + (dsin t * k) ^ 2 = (dcos t * dcos t + dsin t * dsin t) * k ^ 2 := by ring
    rw [e, this, one_mul]
  obtain ⟨i, _, rfl | rfl⟩ := hp
  · left; exact key _ _
  · right; exact key _ _

/-- **rounded rectangle**: four corner arcs of `segments + 1` points each -/
theorem roundedRect_length (w h r : ℝ) (n : Nat) (c : Bool) (pts : List (Pt2 ℝ))
    (hp : roundedRect w h r n c = some pts) : pts.length = 4 * (n + 1) := by
  unfold roundedRect at hp
  simp only [Option.bind_eq_bind, Option.pure_def] at hp
  have e : (lit 90 : ℝ) = 90 := by simp
  rw [e] at hp
  obtain ⟨a1, h1, hp⟩ := C05.bind_some hp
  obtain ⟨a2, h2, hp⟩ := C05.bind_some hp
  obtain ⟨a3, h3, hp⟩ := C05.bind_some hp
  obtain ⟨a4, h4, hp⟩ := C05.bind_some hp
  have l1 := arc_length _ _ _ _ h1
  have l2 := arc_length _ _ _ _ h2
  have l3 := arc_length _ _ _ _ h3
  have l4 := arc_length _ _ _ _ h4
  norm_num at l1 l2 l3 l4
  injection hp with hp; subst hp
  cases c <;> simp [Pt2s.translate, l1, l2, l3, l4] <;> ring

/-! ### the rounded rectangle lies inside its box -/
theorem abs_le_of_sq (x y r : ℝ) (hr : 0 ≤ r) (h : x * x + y * y = r * r) : -r ≤ x ∧ x ≤ r := by
  constructor <;> nlinarith [sq_nonneg y, sq_nonneg (x - r), sq_nonneg (x + r)]

/-- every point of a translated arc lies in the square of half-width |start| around the centre -/
theorem arc_in_square (start c : Pt2 ℝ) (r : ℝ) (hr : 0 ≤ r) (hs : start.x * start.x + start.y * start.y = r * r)
    (deg : ℝ) (n : Nat) (a : List (Pt2 ℝ)) (h : arc start deg n = some a) :
    ∀ p ∈ Pt2s.translate a c, c.x - r ≤ p.x ∧ p.x ≤ c.x + r ∧ c.y - r ≤ p.y ∧ p.y ≤ c.y + r := by
  intro p hp
  simp only [Pt2s.translate, List.mem_map] at hp
  obtain ⟨q, hq, rfl⟩ := hp
  have hl := arc_radius start deg n a h q hq
  simp only [Pt2.len2, Pt2.dot] at hl
  rw [hs] at hl
  have hx := abs_le_of_sq q.x q.y r hr hl
  have hy := abs_le_of_sq q.y q.x r hr (by linarith)
  show c.x - r ≤ (Pt2.add q c).x ∧ (Pt2.add q c).x ≤ c.x + r ∧ c.y - r ≤ (Pt2.add q c).y ∧ (Pt2.add q c).y ≤ c.y + r
  simp only [Pt2.add]
  refine ⟨by linarith [hx.1], by linarith [hx.2], by linarith [hy.1], by linarith [hy.2]⟩

/-- **the rounded rectangle lies inside its width × height box** -/
theorem roundedRect_in_box (w h r : ℝ) (n : Nat) (pts : List (Pt2 ℝ)) (hr : 0 < r) (hw : 2 * r ≤ w) (hh : 2 * r ≤ h)
    (hp : roundedRect w h r n false = some pts) : ∀ p ∈ pts, 0 ≤ p.x ∧ p.x ≤ w ∧ 0 ≤ p.y ∧ p.y ≤ h := by
  unfold roundedRect at hp
  simp only [Option.bind_eq_bind, Option.pure_def] at hp
  have e : (lit 90 : ℝ) = 90 := by simp
  rw [e] at hp
  obtain ⟨a1, h1, hp⟩ := C05.bind_some hp
  obtain ⟨a2, h2, hp⟩ := C05.bind_some hp
  obtain ⟨a3, h3, hp⟩ := C05.bind_some hp
  obtain ⟨a4, h4, hp⟩ := C05.bind_some hp
  injection hp with hp
  simp only [Bool.false_eq_true, if_false] at hp
  subst hp
  have s1 := arc_in_square ⟨0, r⟩ ⟨w - r, h - r⟩ r hr.le (by simp) 90 n a1 h1
  have s2 := arc_in_square ⟨r, 0⟩ ⟨w - r, r⟩ r hr.le (by simp) 90 n a2 h2
  have s3 := arc_in_square ⟨-0, -r⟩ ⟨r, r⟩ r hr.le (by simp) 90 n a3 h3
  have s4 := arc_in_square ⟨-r, 0⟩ ⟨r, h - r⟩ r hr.le (by simp) 90 n a4 h4
  intro p hp
  simp only [List.mem_append] at hp
  rcases hp with ((hp | hp) | hp) | hp
  · have := s1 p hp; simp only at this; refine ⟨by linarith, by linarith, by linarith, by linarith⟩
  · have := s2 p hp; simp only at this; refine ⟨by linarith, by linarith, by linarith, by linarith⟩
  · have := s3 p hp; simp only at this; refine ⟨by linarith, by linarith, by linarith, by linarith⟩
  · have := s4 p hp; simp only at this; refine ⟨by linarith, by linarith, by linarith, by linarith⟩


/-! ### the circle is strictly convex, clockwise -/
theorem trig_id (x y : ℝ) :
    Real.sin (2 * x) + Real.sin (2 * y) - Real.sin (2 * x + 2 * y) = 4 * Real.sin x * Real.sin y * Real.sin (x + y) := by
  have hx := Real.sin_sq_add_cos_sq x
  have hy := Real.sin_sq_add_cos_sq y
  rw [show 2 * x + 2 * y = 2 * (x + y) by ring, Real.sin_two_mul, Real.sin_two_mul, Real.sin_two_mul,
    Real.sin_add, Real.cos_add]
  linear_combination (-2 * Real.sin x * Real.cos x) * hy + (-2 * Real.sin y * Real.cos y) * hx

/-- twice the signed area of a triangle inscribed in a circle -/
theorem circ_cross3 (r a b c : ℝ) :
    Tri.cross3 (⟨r * Real.cos a, r * Real.sin a⟩ : Pt2 ℝ) ⟨r * Real.cos b, r * Real.sin b⟩ ⟨r * Real.cos c, r * Real.sin c⟩ =
      r ^ 2 * (4 * Real.sin ((b - a) / 2) * Real.sin ((c - b) / 2) * Real.sin ((c - a) / 2)) := by
  have h := trig_id ((b - a) / 2) ((c - b) / 2)
  have e1 : 2 * ((b - a) / 2) = b - a := by ring
  have e2 : 2 * ((c - b) / 2) = c - b := by ring
  have e3 : 2 * ((b - a) / 2) + 2 * ((c - b) / 2) = c - a := by ring
  have e4 : (b - a) / 2 + (c - b) / 2 = (c - a) / 2 := by ring
  rw [e3, e1, e2, e4] at h
  rw [← h, Real.sin_sub, Real.sin_sub, Real.sin_sub]
  simp only [Tri.cross3]
  ring

/-- the angle of corner `i` of an n-gon, in radians -/
noncomputable def ang (n i : Nat) : ℝ := toRad ((i : ℝ) * -360 / (n : ℝ))
theorem ang_eq (n i : Nat) (hn : n ≠ 0) : ang n i = -(2 * Real.pi * i / n) := by
  have : (n : ℝ) ≠ 0 := Nat.cast_ne_zero.mpr hn
  simp only [ang, toRad, pi_real, cast_eq_natCast]
  field_simp
  ring

theorem sin_neg_frac (n m : Nat) (hm : 0 < m) (hmn : m < n) : Real.sin (-(Real.pi * m / n)) < 0 := by
  rw [Real.sin_neg, neg_neg_iff_pos]
  have hn : (0 : ℝ) < n := by exact_mod_cast (by omega : 0 < n)
  apply Real.sin_pos_of_pos_of_lt_pi
  · have : (0 : ℝ) < m := by exact_mod_cast hm
    positivity
  · rw [div_lt_iff₀ hn]
    have : (m : ℝ) < n := by exact_mod_cast hmn
    nlinarith [Real.pi_pos]

/-- **the corners of `circle` / `inscribed_polygon` are in strictly convex position, clockwise** -/
theorem circle_convex (r : ℝ) (hr : 0 < r) (n : Nat) (pts : List (Pt2 ℝ)) (h : circle r n = some pts) :
    ConvexPos false pts := by
  obtain ⟨hlen, _, hget⟩ := circle_spec r n pts h
  intro i j k hij hjk hk
  have hn : n ≠ 0 := by omega
  have gi := hget i (by omega)
  have gj := hget j (by omega)
  have gk := hget k hk
  simp only [Oriented, Bool.false_eq_true, if_false]
  rw [List.getD_eq_getElem?_getD, List.getD_eq_getElem?_getD, List.getD_eq_getElem?_getD,
    List.getElem?_eq_getElem (by omega), List.getElem?_eq_getElem (by omega), List.getElem?_eq_getElem hk]
  simp only [Option.getD_some, gi, gj, gk, dcos, dsin, cos_real, sin_real]
  have ei := ang_eq n i hn
  have ej := ang_eq n j hn
  have ek := ang_eq n k hn
  simp only [ang] at ei ej ek
  rw [ei, ej, ek, circ_cross3]
  have hnR : (n : ℝ) ≠ 0 := Nat.cast_ne_zero.mpr hn
  have a1 : (-(2 * Real.pi * j / n) - -(2 * Real.pi * i / n)) / 2 = -(Real.pi * ((j - i : Nat) : ℝ) / n) := by
    rw [Nat.cast_sub (by omega)]; field_simp; ring
  have a2 : (-(2 * Real.pi * k / n) - -(2 * Real.pi * j / n)) / 2 = -(Real.pi * ((k - j : Nat) : ℝ) / n) := by
    rw [Nat.cast_sub (by omega)]; field_simp; ring
  have a3 : (-(2 * Real.pi * k / n) - -(2 * Real.pi * i / n)) / 2 = -(Real.pi * ((k - i : Nat) : ℝ) / n) := by
    rw [Nat.cast_sub (by omega)]; field_simp; ring
  rw [a1, a2, a3]
  have s1 := sin_neg_frac n (j - i) (by omega) (by omega)
  have s2 := sin_neg_frac n (k - j) (by omega) (by omega)
  have s3 := sin_neg_frac n (k - i) (by omega) (by omega)
  have hr2 : 0 < r ^ 2 := by positivity
  have p12 : 0 < Real.sin (-(Real.pi * ((j - i : Nat) : ℝ) / n)) * Real.sin (-(Real.pi * ((k - j : Nat) : ℝ) / n)) :=
    mul_pos_of_neg_of_neg s1 s2
  nlinarith [mul_neg_of_pos_of_neg p12 s3]


end ScadVerif.C07
