/-
C07 — 2D profile generators give simple clockwise outlines of the stated size.
-/
import ScadVerif.Lemmas.PtReal
import ScadVerif.Model.Dim2
import ScadVerif.Spec.Mesh
namespace ScadVerif.C07
open ScadVerif ScadVerif.Dim2

/-- documented point counts -/
theorem chamfer_length {α : Type} [Add α] [OfNat α 0] (s o : α) : (chamfer s o).length = 7 := rfl

end ScadVerif.C07
