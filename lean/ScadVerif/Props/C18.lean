/-
C18 — a Viewer scene contains everything added, where it was added.
-/
import ScadVerif.Lemmas.PtReal
import ScadVerif.Model.Viewer
set_option linter.unusedSectionVars false
namespace ScadVerif.C18
open ScadVerif ScadVerif.Viewer ScadVerif.Parts

noncomputable instance : HasTrunc ℝ := ⟨fun x => ⌊x⌋₊⟩

/-- after any `add_*` call the viewer has a scene -/
theorem push_some (st : State ℝ) (s : Scad ℝ) : (push st s).scad.isSome = true := by simp [push]
theorem pushGroup_some (st : State ℝ) (s : Scad ℝ) : (pushGroup st s).scad.isSome = true := by simp [pushGroup]

end ScadVerif.C18
