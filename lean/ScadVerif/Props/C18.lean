/-
C18 — a Viewer scene contains everything added, where it was added.

The theorems are about Model/Viewer.lean (the model of viewer.rs; the correspondence run compares
the scene tree after every generated history with the crate's, and the Lean oracle checks every
edge cylinder and every sphere of it geometrically).  They hold for every history of `add_*`
calls, of any length, with arbitrary (also empty) arguments:

* the scene only grows: after any call the previous scene is still there, unchanged, as the first
  child on the spine of unions (`Extends`), so every item of every earlier call is retained, in
  order (`step_extends`, `history_extends`);
* the radii and the segment count never change (`step_consts`);
* what the point adders add is exactly a sphere of the point radius, with `$fn` = the viewer's
  segment count, in the requested colour, translated to the point (`addPt3_item`, …), and the list
  adders add one group holding one such item per element, in order (`addPt3s_item`,
  `addLines3d_item`: one edge mesh per edge).

PARTIAL: that an edge mesh is a closed cylinder running from start to end is geometry of
`look_at_matrix_lh` and of the C04 mesh builder; it is checked by the oracle on every edge.
-/
import ScadVerif.Lemmas.PtReal
import ScadVerif.Model.Viewer
import ScadVerif.Props.C04
import ScadVerif.Props.C09
set_option linter.unusedSectionVars false
namespace ScadVerif.C18
open ScadVerif ScadVerif.Viewer ScadVerif.Parts


/-- after any `add_*` call the viewer has a scene -/
theorem push_some (st : State ℝ) (s : Scad ℝ) : (push st s).scad.isSome = true := by simp [push]
theorem pushGroup_some (st : State ℝ) (s : Scad ℝ) : (pushGroup st s).scad.isSome = true := by simp [pushGroup]

/-- `new` is `old` with items added: `old` sits, unchanged, at the end of the first-child spine of
unions, each union adding one item to its right -/
inductive Extends : Scad ℝ → Scad ℝ → Prop
  | refl (s : Scad ℝ) : Extends s s
  | item (old mid x : Scad ℝ) : Extends old mid → Extends old (Scad.node .union [mid, x])

theorem Extends.trans {a b c : Scad ℝ} (h1 : Extends a b) (h2 : Extends b c) : Extends a c := by
  induction h2 with
  | refl => exact h1
  | item mid x _ ih => exact Extends.item _ _ _ ih

/-- the constants of a viewer -/
def consts (st : State ℝ) : ℝ × ℝ × Nat := (st.pointRadius, st.edgeRadius, st.segments)

/-- `st'` is `st` after some calls: same constants, a scene is present, and the previous scene (if
any) is retained -/
def Grows (st st' : State ℝ) : Prop :=
  consts st' = consts st ∧ ∀ old, st.scad = some old → ∃ new, st'.scad = some new ∧ Extends old new

theorem Grows.refl (st : State ℝ) : Grows st st := ⟨rfl, fun old h => ⟨old, h, Extends.refl _⟩⟩
theorem Grows.trans {a b c : State ℝ} (h1 : Grows a b) (h2 : Grows b c) : Grows a c := by
  refine ⟨h2.1.trans h1.1, fun old ho => ?_⟩
  obtain ⟨mid, hm, e1⟩ := h1.2 old ho
  obtain ⟨new, hn, e2⟩ := h2.2 mid hm
  exact ⟨new, hn, e1.trans e2⟩

theorem push_grows (st : State ℝ) (s : Scad ℝ) : Grows st (push st s) := by
  refine ⟨rfl, fun old ho => ?_⟩
  exact ⟨Scad.add old s, by simp [push, ho], Extends.item _ _ _ (Extends.refl _)⟩
theorem pushGroup_grows (st : State ℝ) (s : Scad ℝ) : Grows st (pushGroup st s) := by
  refine ⟨rfl, fun old ho => ?_⟩
  exact ⟨union [old, s], by simp [pushGroup, ho], Extends.item _ _ _ (Extends.refl _)⟩

theorem addLines3d_grows (st st' : State ℝ) (es : List (Pt3 ℝ × Pt3 ℝ)) (c : List Char)
    (h : addLines3d st es c = some st') : Grows st st' := by
  unfold addLines3d at h
  cases hm : es.mapM (fun x => match x with | (a, b) => edgeMesh st a b) with
  | none => simp [hm] at h
  | some ms =>
    simp only [hm, Option.bind_eq_bind, Option.bind_some, Option.pure_def, Option.some.injEq] at h
    subst h; exact pushGroup_grows _ _
theorem addLines2d_grows (st st' : State ℝ) (es : List (Pt2 ℝ × Pt2 ℝ)) (c : List Char)
    (h : addLines2d st es c = some st') : Grows st st' := by
  unfold addLines2d at h
  cases hm : es.mapM (fun x => match x with | (a, b) => edgeMesh2 st a b) with
  | none => simp [hm] at h
  | some ms =>
    simp only [hm, Option.bind_eq_bind, Option.bind_some, Option.pure_def, Option.some.injEq] at h
    subst h; exact pushGroup_grows _ _

/-- a 2D edge is the 3D edge between the end points lifted to z = 0 (the source measures the cylinder's
length in 2D; over the reals that is the 3D distance of the lifted points) -/
theorem edgeMesh2_eq (st : State ℝ) (a b : Pt2 ℝ) : edgeMesh2 st a b = edgeMesh st (a.asPt3 0) (b.asPt3 0) := by
  have hlen : (Pt2.sub b a).len = (Pt3.sub (b.asPt3 0) (a.asPt3 0)).len := by
    simp [Pt2.len, Pt3.len, Pt2.len2, Pt3.len2, Pt2.dot, Pt3.dot, Pt2.sub, Pt3.sub, Pt2.asPt3]
  unfold edgeMesh2 edgeMesh
  rw [hlen]

theorem mapM_congr {β γ : Type} (f g : β → Option γ) (l : List β) (h : ∀ x, f x = g x) : l.mapM f = l.mapM g := by
  have : f = g := funext h
  rw [this]

/-- `add_lines2d` is `add_lines3d` of the lifted edges -/
theorem addLines2d_eq (st : State ℝ) (es : List (Pt2 ℝ × Pt2 ℝ)) (c : List Char) :
    addLines2d st es c = addLines3d st (es.map fun e => (e.1.asPt3 0, e.2.asPt3 0)) c := by
  unfold addLines2d addLines3d
  rw [List.mapM_map]
  congr 1
  exact mapM_congr _ _ _ (fun x => by obtain ⟨a, b⟩ := x; exact edgeMesh2_eq st a b)

theorem bind_some {β γ : Type} {o : Option β} {f : β → Option γ} {y : γ} (h : o.bind f = some y) :
    ∃ x, o = some x ∧ f x = some y := by
  cases o with
  | none => simp at h
  | some x => exact ⟨x, rfl, h⟩

theorem addQuad2_grows (st st' : State ℝ) (s c e : Pt2 ℝ) (n : Nat)
    (h : addQuad2 st s c e n = some st') : Grows st st' := by
  unfold addQuad2 at h
  simp only [Option.bind_eq_bind, Option.pure_def] at h
  obtain ⟨s1, h1, h⟩ := bind_some h
  obtain ⟨s2, h2, h⟩ := bind_some h
  injection h with h; subst h
  exact (pushGroup_grows _ _).trans ((addLines2d_grows _ _ _ _ h1).trans
    ((addLines2d_grows _ _ _ _ h2).trans (push_grows _ _)))
theorem addQuad3_grows (st st' : State ℝ) (s c e : Pt3 ℝ) (n : Nat)
    (h : addQuad3 st s c e n = some st') : Grows st st' := by
  unfold addQuad3 at h
  simp only [Option.bind_eq_bind, Option.pure_def] at h
  obtain ⟨s1, h1, h⟩ := bind_some h
  obtain ⟨s2, h2, h⟩ := bind_some h
  injection h with h; subst h
  exact (pushGroup_grows _ _).trans ((addLines3d_grows _ _ _ _ h1).trans
    ((addLines3d_grows _ _ _ _ h2).trans (push_grows _ _)))
theorem addCubic2_grows (st st' : State ℝ) (s c1 c2 e : Pt2 ℝ) (n : Nat)
    (h : addCubic2 st s c1 c2 e n = some st') : Grows st st' := by
  unfold addCubic2 at h
  simp only [Option.bind_eq_bind, Option.pure_def] at h
  obtain ⟨s1, h1, h⟩ := bind_some h
  obtain ⟨s2, h2, h⟩ := bind_some h
  injection h with h; subst h
  exact (pushGroup_grows _ _).trans ((addLines2d_grows _ _ _ _ h1).trans
    ((addLines2d_grows _ _ _ _ h2).trans ((push_grows _ _).trans (push_grows _ _))))
theorem addCubic3_grows (st st' : State ℝ) (s c1 c2 e : Pt3 ℝ) (n : Nat)
    (h : addCubic3 st s c1 c2 e n = some st') : Grows st st' := by
  unfold addCubic3 at h
  simp only [Option.bind_eq_bind, Option.pure_def] at h
  obtain ⟨s1, h1, h⟩ := bind_some h
  obtain ⟨s2, h2, h⟩ := bind_some h
  injection h with h; subst h
  exact (pushGroup_grows _ _).trans ((addLines3d_grows _ _ _ _ h1).trans
    ((addLines3d_grows _ _ _ _ h2).trans ((push_grows _ _).trans (push_grows _ _))))

theorem foldlM_grows {β : Type} (f : State ℝ → β → Option (State ℝ))
    (hf : ∀ st x st', f st x = some st' → Grows st st') :
    ∀ (l : List β) (st st' : State ℝ), l.foldlM f st = some st' → Grows st st'
  | [], st, st', h => by
    simp only [List.foldlM_nil, Option.pure_def, Option.some.injEq] at h; subst h; exact Grows.refl _
  | x :: xs, st, st', h => by
    simp only [List.foldlM_cons, Option.bind_eq_bind] at h
    obtain ⟨s1, h1, h⟩ := bind_some h
    exact (hf _ _ _ h1).trans (foldlM_grows f hf xs s1 st' h)

/-- **C18, one call.** Whatever the call and its arguments, the scene afterwards retains the whole
previous scene and the viewer's constants. -/
theorem step_grows (st st' : State ℝ) (op : Op ℝ) (h : step st op = some st') : Grows st st' := by
  cases op with
  | pt2 p c => simp only [step, Option.some.injEq] at h; subst h; exact push_grows _ _
  | pt3 p c => simp only [step, Option.some.injEq] at h; subst h; exact push_grows _ _
  | pt2s ps c => simp only [step, Option.some.injEq] at h; subst h; exact pushGroup_grows _ _
  | pt3s ps c => simp only [step, Option.some.injEq] at h; subst h; exact pushGroup_grows _ _
  | lines2d es c => exact addLines2d_grows _ _ _ _ h
  | lines3d es c => exact addLines3d_grows _ _ _ _ h
  | quad2 s c e n => exact addQuad2_grows _ _ _ _ _ _ h
  | quad3 s c e n => exact addQuad3_grows _ _ _ _ _ _ h
  | cubic2 s c1 c2 e n => exact addCubic2_grows _ _ _ _ _ _ _ h
  | cubic3 s c1 c2 e n => exact addCubic3_grows _ _ _ _ _ _ _ h
  | chain2 cs =>
    exact foldlM_grows _ (fun st c st' hc => addCubic2_grows _ _ _ _ _ _ _ hc) cs st st' h
  | chain3 cs =>
    exact foldlM_grows _ (fun st c st' hc => addCubic3_grows _ _ _ _ _ _ _ hc) cs st st' h

/-- **C18, histories.** After any sequence of calls continuing from any state, everything that was
in the scene before is still there, in place. -/
theorem history_grows (h : List (Op ℝ)) (st st' : State ℝ) (hr : h.foldlM step st = some st') :
    Grows st st' :=
  foldlM_grows step (fun a x b hx => step_grows a b x hx) h st st' hr

/-- … in particular the scene after `h₁ ++ h₂` extends the scene after `h₁` -/
theorem prefix_retained (pr er : ℝ) (seg : Nat) (h1 h2 : List (Op ℝ)) (st : State ℝ)
    (hr : run pr er seg (h1 ++ h2) = some st) :
    ∃ mid, run pr er seg h1 = some mid ∧ Grows mid st := by
  unfold run at hr ⊢
  rw [List.foldlM_append] at hr
  obtain ⟨mid, hm, hr⟩ := bind_some hr
  exact ⟨mid, hm, history_grows h2 mid st hr⟩

/-- a non-empty history that succeeds leaves a scene: `into_scad` does not panic -/
theorem step_scene (st st' : State ℝ) (op : Op ℝ) (hop2 : ∀ cs, op ≠ .chain2 cs) (hop3 : ∀ cs, op ≠ .chain3 cs)
    (h : step st op = some st') : (intoScad st').isSome = true := by
  cases op with
  | pt2 p c => simp only [step, Option.some.injEq] at h; subst h; simp [intoScad, addPt2, push]
  | pt3 p c => simp only [step, Option.some.injEq] at h; subst h; simp [intoScad, addPt3, push]
  | pt2s ps c => simp only [step, Option.some.injEq] at h; subst h; simp [intoScad, addPt2s, pushGroup]
  | pt3s ps c => simp only [step, Option.some.injEq] at h; subst h; simp [intoScad, addPt3s, pushGroup]
  | lines2d es c =>
    simp only [step, addLines2d, Option.bind_eq_bind, Option.pure_def] at h
    obtain ⟨ms, _, h⟩ := bind_some h
    injection h with h; subst h; simp [intoScad, pushGroup]
  | lines3d es c =>
    simp only [step, addLines3d, Option.bind_eq_bind, Option.pure_def] at h
    obtain ⟨ms, _, h⟩ := bind_some h
    injection h with h; subst h; simp [intoScad, pushGroup]
  | quad2 s c e n =>
    simp only [step, addQuad2, Option.bind_eq_bind, Option.pure_def] at h
    obtain ⟨s1, _, h⟩ := bind_some h
    obtain ⟨s2, _, h⟩ := bind_some h
    injection h with h; subst h; simp [intoScad, addPt2, push]
  | quad3 s c e n =>
    simp only [step, addQuad3, Option.bind_eq_bind, Option.pure_def] at h
    obtain ⟨s1, _, h⟩ := bind_some h
    obtain ⟨s2, _, h⟩ := bind_some h
    injection h with h; subst h; simp [intoScad, addPt3, push]
  | cubic2 s c1 c2 e n =>
    simp only [step, addCubic2, Option.bind_eq_bind, Option.pure_def] at h
    obtain ⟨s1, _, h⟩ := bind_some h
    obtain ⟨s2, _, h⟩ := bind_some h
    injection h with h; subst h; simp [intoScad, addPt2, push]
  | cubic3 s c1 c2 e n =>
    simp only [step, addCubic3, Option.bind_eq_bind, Option.pure_def] at h
    obtain ⟨s1, _, h⟩ := bind_some h
    obtain ⟨s2, _, h⟩ := bind_some h
    injection h with h; subst h; simp [intoScad, addPt3, push]
  | chain2 cs => exact absurd rfl (hop2 cs)
  | chain3 cs => exact absurd rfl (hop3 cs)

/-! ### what each adder adds -/
/-- the new scene of a single-item adder -/
def withItem (st : State ℝ) (x : Scad ℝ) : Option (Scad ℝ) :=
  some (match st.scad with | some old => Scad.add old x | none => x)
def withGroup (st : State ℝ) (x : Scad ℝ) : Option (Scad ℝ) :=
  some (match st.scad with | some old => union [old, x] | none => union [x])

/-- a point: a sphere of the point radius (`$fn` = viewer segments) in the requested colour at the
point -/
theorem addPt3_item (st : State ℝ) (p : Pt3 ℝ) (c : List Char) :
    (addPt3 st p c).scad = withItem st
      (Scad.node (.translate ⟨p.x, p.y, p.z⟩)
        [Scad.node (.color none (some c) none none)
          [Scad.node (.sphere st.pointRadius none none (some st.segments)) []]]) := by
  cases h : st.scad <;> simp [addPt3, push, withItem, translate, colorC, sphereFn, h]
theorem addPt2_item (st : State ℝ) (p : Pt2 ℝ) (c : List Char) :
    (addPt2 st p c).scad = withItem st
      (Scad.node (.translate ⟨p.x, p.y, 0⟩)
        [Scad.node (.color none (some c) none none)
          [Scad.node (.sphere st.pointRadius none none (some st.segments)) []]]) := by
  cases h : st.scad <;> simp [addPt2, push, withItem, translate, colorC, sphereFn, h]
/-- a point list: one coloured group with one sphere per point, in order (also for the empty list) -/
theorem addPt3s_item (st : State ℝ) (ps : List (Pt3 ℝ)) (c : List Char) :
    (addPt3s st ps c).scad = withGroup st
      (Scad.node (.color none (some c) none (some 1))
        (ps.map fun p => Scad.node (.translate ⟨p.x, p.y, p.z⟩)
          [Scad.node (.sphere st.pointRadius none none (some st.segments)) []])) := by
  cases h : st.scad <;> simp [addPt3s, pushGroup, withGroup, translate, colorA, sphereFn, h]
theorem addPt2s_item (st : State ℝ) (ps : List (Pt2 ℝ)) (c : List Char) :
    (addPt2s st ps c).scad = withGroup st
      (Scad.node (.color none (some c) none (some 1))
        (ps.map fun p => Scad.node (.translate ⟨p.x, p.y, 0⟩)
          [Scad.node (.sphere st.pointRadius none none (some st.segments)) []])) := by
  cases h : st.scad <;> simp [addPt2s, pushGroup, withGroup, translate, colorA, sphereFn, h]
theorem mapM_length {β γ : Type} (f : β → Option γ) : ∀ (l : List β) (ms : List γ),
    l.mapM f = some ms → ms.length = l.length
  | [], ms, h => by simp at h; subst h; rfl
  | x :: xs, ms, h => by
    simp only [List.mapM_cons, Option.bind_eq_bind, Option.pure_def] at h
    obtain ⟨y, _, h⟩ := bind_some h
    obtain ⟨ys, hys, h⟩ := bind_some h
    injection h with h; subst h
    simp [mapM_length f xs ys hys]

/-- an edge list: one coloured group with one edge mesh per edge, in order -/
theorem addLines3d_item (st st' : State ℝ) (es : List (Pt3 ℝ × Pt3 ℝ)) (c : List Char)
    (h : addLines3d st es c = some st') :
    ∃ meshes, es.mapM (fun e => edgeMesh st e.1 e.2) = some meshes ∧ meshes.length = es.length ∧
      st'.scad = withGroup st (Scad.node (.color none (some c) none (some 1)) meshes) := by
  unfold addLines3d at h
  simp only [Option.bind_eq_bind, Option.pure_def] at h
  obtain ⟨ms, hm, h⟩ := bind_some h
  injection h with h; subst h
  refine ⟨ms, hm, ?_, by cases h : st.scad <;> simp [pushGroup, withGroup, colorA, h]⟩
  exact mapM_length _ es ms hm

/-- **every edge mesh is a closed surface with valid indices**: it is a cylinder (C04
`cylinder_closed`, unconditional) moved by a matrix and a translation, which leave the faces
untouched -/
theorem edgeMesh_closed (st : State ℝ) (hr : 0 < st.edgeRadius) (a b : Pt3 ℝ) (s : Scad ℝ)
    (h : edgeMesh st a b = some s) :
    ∃ pts faces, s = Scad.node (.polyhedron pts faces 1) [] ∧
      MeshLemmas.EdgeClosed (Spec.allEdges faces) ∧
      ∀ f ∈ faces, (∀ v ∈ f, v < pts.length) ∧ (f.length = 3 ∨ f.length = 4) := by
  unfold edgeMesh at h
  simp only [Option.bind_eq_bind, Option.pure_def] at h
  obtain ⟨c, hc, h⟩ := bind_some h
  injection h with h; subst h
  refine ⟨_, _, rfl, ?_, ?_⟩
  · exact C04.cylinder_closed _ _ hr _ c hc
  · have hv := C04.cylinder_valid _ _ _ c hc
    intro f hf
    have := hv f hf
    simpa [Dim3.Polyhedron.translate, Dim3.Polyhedron.applyMatrix, Pt3s.translate, Mt4.applyMatrix] using this

/-- … and it satisfies the oracle's full `closedOriented` predicate (every directed edge in exactly
one face, its reverse in exactly one other): C04 `cylinder_closedOriented` -/
theorem edgeMesh_closedOriented (st : State ℝ) (hr : 0 < st.edgeRadius) (a b : Pt3 ℝ) (s : Scad ℝ)
    (h : edgeMesh st a b = some s) :
    ∃ pts faces, s = Scad.node (.polyhedron pts faces 1) [] ∧ Spec.closedOriented pts.length faces = true := by
  unfold edgeMesh at h
  simp only [Option.bind_eq_bind, Option.pure_def] at h
  obtain ⟨c, hc, h⟩ := bind_some h
  injection h with h; subst h
  refine ⟨_, _, rfl, ?_⟩
  have := C04.cylinder_closedOriented _ _ hr _ c hc
  simpa [Dim3.Polyhedron.translate, Dim3.Polyhedron.applyMatrix, Pt3s.translate, Mt4.applyMatrix] using this

/-! ### where an edge cylinder is put -/
/-- `look_at_matrix_lh` has no translation part in the slots `apply_matrix` reads -/
theorem lookAt_w (eye center up : Pt3 ℝ) :
    (Mt4.lookAtLh eye center up).w.x = 0 ∧ (Mt4.lookAtLh eye center up).w.y = 0 ∧
      (Mt4.lookAtLh eye center up).w.z = 0 := by
  unfold Mt4.lookAtLh
  simp only []
  split
  · simp [Mt4.identity]
  · split
    · split <;> simp [Mt4.rotXMatrix, Mt4.rotXCS, Mt4.identity, Mt4.transposed]
    · simp

/-- where a point of the un-placed edge cylinder ends up -/
noncomputable def placed (start end_ : Pt3 ℝ) (p : Pt3 ℝ) : Pt3 ℝ :=
  Pt3.add (Mt4.mulPt3 (Mt4.lookAtLh start end_ ⟨0, 0, 1⟩) p) start

theorem edgeMesh_points (st : State ℝ) (a b : Pt3 ℝ) (s : Scad ℝ) (h : edgeMesh st a b = some s) :
    ∃ c, Dim3.Polyhedron.cylinder st.edgeRadius (Pt3.sub b a).len st.segments = some c ∧
      s = Scad.node (.polyhedron (c.points.map (placed a b)) c.faces 1) [] := by
  unfold edgeMesh at h
  simp only [Option.bind_eq_bind, Option.pure_def] at h
  obtain ⟨c, hc, h⟩ := bind_some h
  injection h with h; subst h
  refine ⟨c, hc, ?_⟩
  obtain ⟨w1, w2, w3⟩ := lookAt_w a b ⟨0, 0, 1⟩
  have hpts : ((c.applyMatrix (Mt4.lookAtLh a b ⟨0, 0, 1⟩)).translate a).points = c.points.map (placed a b) := by
    simp only [Dim3.Polyhedron.translate, Dim3.Polyhedron.applyMatrix, C09.applyMatrix_affine, Pt3s.translate,
      List.map_map, w1, w2, w3]
    apply List.map_congr_left
    intro p _
    simp only [Function.comp, placed]
    show Pt3.add (Pt3.add (Mt4.mulPt3 _ p) ⟨0, 0, 0⟩) a = _
    simp [Pt3.add]
  rw [hpts]; rfl

/-- the axis of the placed cylinder, given that the frame maps +Z to the unit vector towards the end -/
theorem axis_of_frame (start end_ : Pt3 ℝ) (hne : Pt3.sub end_ start ≠ ⟨0, 0, 0⟩)
    (hz : Mt4.mulPt3 (Mt4.lookAtLh start end_ ⟨0, 0, 1⟩) ⟨0, 0, 1⟩ = Pt3.normalized (Pt3.sub end_ start)) :
    placed start end_ ⟨0, 0, 0⟩ = start ∧ placed start end_ ⟨0, 0, (Pt3.sub end_ start).len⟩ = end_ := by
  have hcol : ∀ z : ℝ, Mt4.mulPt3 (Mt4.lookAtLh start end_ ⟨0, 0, 1⟩) ⟨0, 0, z⟩ =
      Pt3.smul (Pt3.normalized (Pt3.sub end_ start)) z := by
    intro z
    rw [C10.mulPt3_columns, ← hz, C10.mulPt3_columns]
    ext <;> simp [Pt3.add, Pt3.smul]
  have hlen : 0 < (Pt3.sub end_ start).len := Pt3.len_pos hne
  constructor
  · simp only [placed, hcol]
    ext <;> simp [Pt3.add, Pt3.smul]
  · simp only [placed, hcol, Pt3.normalized_comp]
    have hL : (Pt3.sub end_ start).len ≠ 0 := ne_of_gt hlen
    ext <;> simp only [Pt3.add, Pt3.smul] <;> rw [div_mul_cancel₀ _ hL] <;> simp [Pt3.sub]

/-- **the edge cylinder runs from the start to the end of the edge**: the cylinder's axis point at
height `z` is placed at `start + z·f`, `f` the unit vector towards the end point, so the bottom
centre sits at the start and the top centre, at height `|end − start|`, at the end — for edges in
every direction that is not vertical … -/
theorem edge_axis (start end_ : Pt3 ℝ) (hne : Pt3.sub end_ start ≠ ⟨0, 0, 0⟩)
    (hup : Pt3.cross ⟨0, 0, 1⟩ (Pt3.normalized (Pt3.sub end_ start)) ≠ ⟨0, 0, 0⟩) :
    placed start end_ ⟨0, 0, 0⟩ = start ∧ placed start end_ ⟨0, 0, (Pt3.sub end_ start).len⟩ = end_ :=
  axis_of_frame start end_ hne (C10.lookAt_rotation start end_ ⟨0, 0, 1⟩ hne hup).2.1

/-- … and for vertical edges, upwards or downwards -/
theorem edge_axis_vertical (start end_ : Pt3 ℝ) (hx : end_.x = start.x) (hy : end_.y = start.y)
    (hz : end_.z ≠ start.z) :
    placed start end_ ⟨0, 0, 0⟩ = start ∧ placed start end_ ⟨0, 0, (Pt3.sub end_ start).len⟩ = end_ := by
  apply axis_of_frame start end_ _ (C10.lookAt_vertical start end_ hx hy hz).2
  intro h
  have := congrArg Pt3.z h
  simp only [Pt3.sub] at this
  exact hz (by linarith)


end ScadVerif.C18
