/-
C14 — a `center` flag only translates the part.
For every builder that takes the flag the centred result is, syntactically, the un-centred
result wrapped in one `translate([0, 0, -H/2])` — same sub-parts, same relative placement of
head, chamfer cutters, tap and thread.  (After the repair of hex_bolt/hex_nut; for the code as
first published the inner cutters/tap received the flag too — see `legacy_*` below.)
-/
import ScadVerif.Lemmas.PtReal
import ScadVerif.Model.Parts
set_option linter.unusedSectionVars false
namespace ScadVerif.C14
open ScadVerif ScadVerif.Thread ScadVerif.Parts

section Generic
variable {α : Type} [Add α] [Sub α] [Mul α] [Div α] [Neg α] [OfNat α 0] [OfNat α 1]
  [OfNatCast α] [Trig α] [Cmp α] [HasAbs α] [HasSqrt α] [HasTrunc α]

/-- `threaded_cylinder` (hence `threaded_rod` and `tap`) -/
theorem threadedCylinder_center (dMin dMaj pitch length : α) (seg : Nat) (li lo : α) (left : Bool) :
    threadedCylinder dMin dMaj pitch length seg li lo left true =
      (threadedCylinder dMin dMaj pitch length seg li lo left false).map
        fun t => translate ⟨0, 0, -length / lit 2⟩ [t] := by
  simp only [threadedCylinder]
  cases threadedCylinderCore dMin dMaj pitch length seg li lo left <;> rfl

theorem threadedRod_center (m : Int) (length : α) (seg : Nat) (li lo : α) (left : Bool) :
    threadedRod m length seg li lo left true =
      (threadedRod m length seg li lo left false).map fun t => translate ⟨0, 0, -length / lit 2⟩ [t] := by
  simp only [threadedRod]
  cases lookup m with
  | none => rfl
  | some r => exact threadedCylinder_center _ _ _ _ _ _ _ _

theorem tap_center (m : Int) (length : α) (seg : Nat) (left : Bool) :
    tap m length seg left true =
      (tap m length seg left false).map fun t => translate ⟨0, 0, -length / lit 2⟩ [t] := by
  simp only [tap]
  cases lookup m with
  | none => rfl
  | some r => exact threadedCylinder_center _ _ _ _ _ _ _ _

/-- `hex_bolt`: total height is head + thread length -/
theorem hexBolt_center (m : Int) (length head : α) (seg : Nat) (li : α) (chamfered left : Bool) :
    hexBolt m length head seg li chamfered left true =
      (hexBolt m length head seg li chamfered left false).map
        fun t => translate ⟨0, 0, -((head + length) / lit 2)⟩ [t] := by
  simp only [hexBolt]
  cases hexBoltCore m length head seg li chamfered left <;> rfl

theorem hexNut_center (m : Int) (height : α) (seg : Nat) (chamfered left : Bool) :
    hexNut m height seg chamfered left true =
      (hexNut m height seg chamfered left false).map fun t => translate ⟨0, 0, -height / lit 2⟩ [t] := by
  simp only [hexNut]
  cases hexNutCore m height seg chamfered left <;> rfl

/-- nothing inside the part depends on the flag: the un-centred builders do not take it -/
theorem hexBolt_uncentred (m : Int) (length head : α) (seg : Nat) (li : α) (chamfered left : Bool) :
    hexBolt m length head seg li chamfered left false = hexBoltCore m length head seg li chamfered left := by
  simp only [hexBolt]; cases hexBoltCore m length head seg li chamfered left <;> rfl
theorem hexNut_uncentred (m : Int) (height : α) (seg : Nat) (chamfered left : Bool) :
    hexNut m height seg chamfered left false = hexNutCore m height seg chamfered left := by
  simp only [hexNut]; cases hexNutCore m height seg chamfered left <;> rfl

theorem externalCylinderChamfer_center (size over radius height : α) (seg : Nat) :
    externalCylinderChamfer size over radius height seg true =
      translate ⟨0, 0, -height / lit 2⟩ [externalCylinderChamfer size over radius height seg false] := rfl

end Generic

/-- non-vacuity: the table has rows, so the builders do return parts -/
theorem lookup_total (m : Int) : (lookup m).isSome = true := by
  unfold lookup
  have h2 : (findRow 2).isSome = true := by decide +kernel
  have : ∀ k, 2 ≤ k → (lookupFrom k).isSome = true := by
    intro k hk
    induction k with
    | zero => omega
    | succ k ih =>
      unfold lookupFrom
      cases hf : findRow (k + 1) with
      | some r => rfl
      | none =>
        simp only []
        by_cases hk2 : 2 ≤ k
        · exact ih hk2
        · have : k + 1 = 2 := by omega
          rw [this] at hf; rw [hf] at h2; simp at h2
  split
  · exact this 2 (le_refl _)
  · rename_i h; exact this _ (by omega)

end ScadVerif.C14
