/-
C09 — Mt4 obeys 4×4 matrix algebra.
Theorems over an arbitrary commutative ring (field for `inverse`).  The sixteen cofactor
expressions and the determinant expression are regenerated from mt4.rs on every run
(Gen/Mt4Cof.lean), so `mul_inverse`/`inverse_mul` are re-proved against the current source.
-/
import ScadVerif.Lemmas.RealInst
import ScadVerif.Model.Mt4
set_option linter.unusedSectionVars false
namespace ScadVerif.C09
open ScadVerif

section Ring
variable {α : Type} [CommRing α]

local macro "mt4_ext" : tactic =>
  `(tactic| (ext <;> simp only [Mt4.mul, Mt4.mulVec, Mt4.transposed, Mt4.identity, Pt4.dot4,
      Mt4.scaleMatrix, Mt4.translateMatrix] <;> ring))

theorem one_mul (a : Mt4 α) : Mt4.mul Mt4.identity a = a := by mt4_ext
theorem mul_one (a : Mt4 α) : Mt4.mul a Mt4.identity = a := by mt4_ext
theorem mul_assoc (a b c : Mt4 α) : Mt4.mul (Mt4.mul a b) c = Mt4.mul a (Mt4.mul b c) := by mt4_ext
/-- (A*B)*p = A*(B*p) -/
theorem mulVec_assoc (a b : Mt4 α) (p : Pt4 α) :
    Mt4.mulVec (Mt4.mul a b) p = Mt4.mulVec a (Mt4.mulVec b p) := by mt4_ext
theorem one_mulVec (p : Pt4 α) : Mt4.mulVec Mt4.identity p = p := by mt4_ext
theorem transposed_transposed (a : Mt4 α) : a.transposed.transposed = a := rfl
theorem transposed_mul (a b : Mt4 α) :
    (Mt4.mul a b).transposed = Mt4.mul b.transposed a.transposed := by mt4_ext
theorem transposed_identity : (Mt4.identity : Mt4 α).transposed = Mt4.identity := rfl

/-- a point (w = 1) is moved by t -/
theorem translate_point (x y z : α) (p : Pt3 α) :
    Mt4.mulVec (Mt4.translateMatrix x y z) (p.asPt4 1) = (Pt3.add p ⟨x, y, z⟩).asPt4 1 := by
  ext <;> simp only [Mt4.mulVec, Mt4.transposed, Mt4.translateMatrix, Mt4.identity, Pt4.dot4,
    Pt3.asPt4, Pt3.add] <;> ring
/-- a direction (w = 0) is left alone -/
theorem translate_direction (x y z : α) (p : Pt3 α) :
    Mt4.mulVec (Mt4.translateMatrix x y z) (p.asPt4 0) = p.asPt4 0 := by
  ext <;> simp only [Mt4.mulVec, Mt4.transposed, Mt4.translateMatrix, Mt4.identity, Pt4.dot4,
    Pt3.asPt4] <;> ring
theorem scale_apply (x y z : α) (p : Pt4 α) :
    Mt4.mulVec (Mt4.scaleMatrix x y z) p = ⟨x * p.x, y * p.y, z * p.z, p.w⟩ := by
  ext <;> simp only [Mt4.mulVec, Mt4.transposed, Mt4.scaleMatrix, Mt4.identity, Pt4.dot4] <;> ring
theorem translate_compose (a b c x y z : α) :
    Mt4.mul (Mt4.translateMatrix a b c) (Mt4.translateMatrix x y z) =
      Mt4.translateMatrix (a + x) (b + y) (c + z) := by mt4_ext

/-- `Pt3s::apply_matrix` applies the full affine map: linear part plus translation column -/
theorem applyMatrix_affine (m : Mt4 α) (ps : List (Pt3 α)) :
    Mt4.applyMatrix ps m = ps.map (fun p => Pt3.add (Mt4.mulPt3 m p) ⟨m.w.x, m.w.y, m.w.z⟩) := by
  unfold Mt4.applyMatrix
  apply List.map_congr_left
  intro p _
  ext <;> simp only [Mt4.mulVec, Mt4.mulPt3, Mt4.transposed, Pt4.dot4, Pt3.dot, Pt3.asPt4,
    Pt4.asPt3, Pt3.add] <;> ring
theorem applyMatrix_length (m : Mt4 α) (ps : List (Pt3 α)) :
    (Mt4.applyMatrix ps m).length = ps.length := by simp [Mt4.applyMatrix]
theorem applyMatrix_translate (x y z : α) (ps : List (Pt3 α)) :
    Mt4.applyMatrix ps (Mt4.translateMatrix x y z) = Pt3s.translate ps ⟨x, y, z⟩ := by
  unfold Mt4.applyMatrix Pt3s.translate
  apply List.map_congr_left
  intro p _
  ext <;> simp only [Mt4.mulVec, Mt4.transposed, Mt4.translateMatrix, Mt4.identity, Pt4.dot4,
    Pt3.asPt4, Pt4.asPt3, Pt3.add] <;> ring
theorem applyMatrix_mul (a b : Mt4 α) (ps : List (Pt3 α)) (ha : a.x.w = 0 ∧ a.y.w = 0 ∧ a.z.w = 0 ∧ a.w.w = 1)
    (hb : b.x.w = 0 ∧ b.y.w = 0 ∧ b.z.w = 0 ∧ b.w.w = 1) :
    Mt4.applyMatrix ps (Mt4.mul a b) = Mt4.applyMatrix (Mt4.applyMatrix ps b) a := by
  unfold Mt4.applyMatrix
  rw [List.map_map]
  apply List.map_congr_left
  intro p _
  obtain ⟨a1, a2, a3, a4⟩ := ha
  obtain ⟨b1, b2, b3, b4⟩ := hb
  ext <;> simp only [Function.comp, Mt4.mul, Mt4.mulVec, Mt4.transposed, Pt4.dot4, Pt3.asPt4, Pt4.asPt3,
    a1, a2, a3, a4, b1, b2, b3, b4] <;> ring

/-- indexing 0..15 addresses the entries column by column -/
theorem index_column_major (m : Mt4 α) :
    [m.get? 0, m.get? 1, m.get? 2, m.get? 3, m.get? 4, m.get? 5, m.get? 6, m.get? 7,
     m.get? 8, m.get? 9, m.get? 10, m.get? 11, m.get? 12, m.get? 13, m.get? 14, m.get? 15] =
    [m.x.x, m.x.y, m.x.z, m.x.w, m.y.x, m.y.y, m.y.z, m.y.w,
     m.z.x, m.z.y, m.z.z, m.z.w, m.w.x, m.w.y, m.w.z, m.w.w].map some := rfl
theorem index_out_of_range (m : Mt4 α) (i : Nat) (h : 16 ≤ i) : m.get? i = none := by
  simp [Mt4.get?]; omega
theorem ofFn_get (m : Mt4 α) : Mt4.ofFn m.get = m := rfl
theorem set_get (m : Mt4 α) (i j : Nat) (v : α) (hi : i < 16) (hj : j < 16) :
    (m.set? i v).bind (·.get? j) = if j = i then some v else m.get? j := by
  simp only [Mt4.set?, hi, if_true, Option.bind_some, Mt4.get?, hj]
  interval_cases j <;> simp only [Mt4.ofFn, Mt4.get] <;> split <;> rfl
end Ring

/-! ## inverse -/
section Field
variable {α : Type} [Field α]

/-- adj(A)·A = det·I and A·adj(A) = det·I for the cofactors exactly as written in mt4.rs -/
theorem cof_mul (a : Mt4 α) :
    Mt4.mul (Mt4.ofFn (Gen.mt4Cof a.get)) a =
      Mt4.ofFn (fun i => if i % 5 = 0 then a.det else 0) := by
  ext <;> simp only [Mt4.mul, Mt4.transposed, Pt4.dot4, Mt4.ofFn, Mt4.det, Gen.mt4Det, Gen.mt4Cof, Mt4.get] <;>
    norm_num <;> ring
theorem mul_cof (a : Mt4 α) :
    Mt4.mul a (Mt4.ofFn (Gen.mt4Cof a.get)) =
      Mt4.ofFn (fun i => if i % 5 = 0 then a.det else 0) := by
  ext <;> simp only [Mt4.mul, Mt4.transposed, Pt4.dot4, Mt4.ofFn, Mt4.det, Gen.mt4Det, Gen.mt4Cof, Mt4.get] <;>
    norm_num <;> ring


variable [Cmp α] [LawfulEqb α]

/-- `inverse` returns `None` exactly when the determinant is zero -/
theorem inverse_none_iff (a : Mt4 α) : a.inverse = none ↔ a.det = 0 := by
  unfold Mt4.inverse Mt4.det
  simp only []
  split
  · rename_i h; simpa using (LawfulEqb.eqb_iff _ _).mp h
  · rename_i h; simp only [reduceCtorEq, false_iff]; exact fun hc => h ((LawfulEqb.eqb_iff _ _).mpr hc)

private theorem scaled_cof_mul (a : Mt4 α) (r : α) :
    Mt4.mul (Mt4.ofFn fun i => Gen.mt4Cof a.get i * r) a =
      Mt4.ofFn (fun i => (Mt4.mul (Mt4.ofFn (Gen.mt4Cof a.get)) a).get i * r) := by
  ext <;> simp only [Mt4.mul, Mt4.transposed, Pt4.dot4, Mt4.ofFn, Mt4.get] <;> ring
private theorem mul_scaled_cof (a : Mt4 α) (r : α) :
    Mt4.mul a (Mt4.ofFn fun i => Gen.mt4Cof a.get i * r) =
      Mt4.ofFn (fun i => (Mt4.mul a (Mt4.ofFn (Gen.mt4Cof a.get))).get i * r) := by
  ext <;> simp only [Mt4.mul, Mt4.transposed, Pt4.dot4, Mt4.ofFn, Mt4.get] <;> ring

/-- otherwise the result is a two-sided inverse -/
theorem inverse_mul (a b : Mt4 α) (h : a.inverse = some b) :
    Mt4.mul b a = Mt4.identity ∧ Mt4.mul a b = Mt4.identity := by
  have hd : a.det ≠ 0 := fun hc => by rw [(inverse_none_iff a).mpr hc] at h; cases h
  unfold Mt4.inverse at h
  simp only [] at h
  split at h
  · cases h
  · injection h with h
    subst h
    change Mt4.mul (Mt4.ofFn fun i => Gen.mt4Cof a.get i * (1 / a.det)) a = _ ∧
      Mt4.mul a (Mt4.ofFn fun i => Gen.mt4Cof a.get i * (1 / a.det)) = _
    rw [scaled_cof_mul, mul_scaled_cof, cof_mul, mul_cof]
    constructor <;>
    · ext <;> simp [Mt4.ofFn, Mt4.get, Mt4.identity, hd]

/-- the determinant expression of mt4.rs is multiplicative, so a matrix with determinant 0
has no inverse at all: `None` is returned only when no inverse exists -/
theorem det_mul (a b : Mt4 α) : (Mt4.mul a b).det = a.det * b.det := by
  simp only [Mt4.det, Gen.mt4Det, Gen.mt4Cof, Mt4.get, Mt4.mul, Mt4.transposed, Pt4.dot4]
  ring
theorem det_identity : (Mt4.identity : Mt4 α).det = 1 := by
  simp [Mt4.det, Gen.mt4Det, Gen.mt4Cof, Mt4.get, Mt4.identity]
theorem none_only_if_singular (a : Mt4 α) (h : a.inverse = none) :
    ¬ ∃ b : Mt4 α, Mt4.mul a b = Mt4.identity := by
  rintro ⟨b, hb⟩
  have := congrArg Mt4.det hb
  rw [det_mul, (inverse_none_iff a).mp h, det_identity] at this
  simp at this

end Field

/-! ## the product as first published (through `Pt4::dot`, which ignores `w`) is not the
matrix product: counter-witnesses decided over ℤ -/
example : Mt4.mulVecLegacy (Mt4.translateMatrix (1 : Int) 2 3) ⟨0, 0, 0, 1⟩ = ⟨0, 0, 0, 0⟩ := by decide
example : Mt4.mulVec (Mt4.translateMatrix (1 : Int) 2 3) ⟨0, 0, 0, 1⟩ = ⟨1, 2, 3, 1⟩ := by decide
example : Mt4.mulLegacy (Mt4.identity : Mt4 Int) (Mt4.translateMatrix 1 2 3) ≠ Mt4.translateMatrix 1 2 3 := by decide

/-- non-vacuity for `inverse_mul`: an invertible integer-valued matrix over ℚ-like data -/
example : (Mt4.translateMatrix (1 : Int) 2 3).det = 1 := by decide

end ScadVerif.C09
