/-
C15 — pipes have the stated bore, a through hole, and matching solid variants.
Theorems over ℝ about the tree builders of Model/Parts.lean (after the two repairs).
-/
import ScadVerif.Lemmas.PtReal
import ScadVerif.Model.Parts
set_option linter.unusedSectionVars false
namespace ScadVerif.C15
open ScadVerif ScadVerif.Parts ScadVerif.Parts.Pipe

noncomputable instance : HasTrunc ℝ := ⟨fun x => ⌊x⌋₊⟩

/-- z-extent of an OpenSCAD `cylinder(h, center)` moved by `shift` along Z -/
noncomputable def zExtent (h : ℝ) (center : Bool) (shift : ℝ) : ℝ × ℝ :=
  if center then (shift - h / 2, shift + h / 2) else (shift, shift + h)

theorem boreOk_iff (od wall : ℝ) : boreOk od wall = true ↔ od - wall * 2 > 0 := by
  simp [boreOk, lit]

/-- a straight pipe is the solid pipe minus a coaxial bore of diameter od − 2·wall -/
theorem straight_structure (od wall L : ℝ) (center : Bool) (fn : Nat) (h : od - wall * 2 > 0) :
    ∃ shift : ℝ, straight od wall L center fn = some (difference [straightSolid od L center fn,
      translate ⟨0, 0, shift⟩ [cylinderD (L + 2) (od - wall * 2) (od - wall * 2) center fn]]) ∧
      shift = if center then 0 else -1 := by
  refine ⟨if center then 0 else -1, ?_, rfl⟩
  have hb : boreOk od wall = true := (boreOk_iff od wall).mpr h
  simp [straight, hb, straightSolid, lit]

/-- the bore of a straight pipe extends strictly beyond both ends for either centre setting -/
theorem straight_through (L : ℝ) (center : Bool) :
    let shift : ℝ := if center then 0 else -1
    (zExtent (L + 2) center shift).1 < (zExtent L center 0).1 ∧
    (zExtent L center 0).2 < (zExtent (L + 2) center shift).2 := by
  cases center <;> simp [zExtent] <;> (try constructor) <;> (try norm_num) <;> linarith

theorem tapered_structure (od1 od2 wall L : ℝ) (center : Bool) (fn : Nat)
    (h1 : od1 - wall * 2 > 0) (h2 : od2 - wall * 2 > 0) :
    ∃ shift : ℝ, tapered od1 od2 wall L center fn = some (difference [taperedSolid od1 od2 L center fn,
      translate ⟨0, 0, shift⟩ [cylinderD (L + 2 / 1000) (od1 - wall * 2) (od2 - wall * 2) center fn]]) ∧
      shift = if center then 0 else -(1 / 1000) := by
  refine ⟨if center then 0 else -(1 / 1000), ?_, rfl⟩
  have hb1 : boreOk od1 wall = true := (boreOk_iff od1 wall).mpr h1
  have hb2 : boreOk od2 wall = true := (boreOk_iff od2 wall).mpr h2
  simp [tapered, hb1, hb2, taperedSolid, lit]

theorem tapered_through (L : ℝ) (center : Bool) :
    let shift : ℝ := if center then 0 else -(1 / 1000)
    (zExtent (L + 2 / 1000) center shift).1 < (zExtent L center 0).1 ∧
    (zExtent L center 0).2 < (zExtent (L + 2 / 1000) center shift).2 := by
  cases center <;> simp [zExtent] <;> (try constructor) <;> (try norm_num) <;> linarith

/-- the bore cylinder has diameter od − 2·wall (stored as half) -/
theorem bore_diameter (h d1 d2 : ℝ) (center : Bool) (fn : Nat) :
    cylinderD h d1 d2 center fn = Scad.node (.cylinder h (d1 / 2) (d2 / 2) center none none (some fn)) [] := by
  simp [cylinderD, lit]

/-- curved pipes: hollow and solid share the body `curvedBody`, whose two translations cancel in
x, so the cross-section centre (od/2 + radius, 0) of the profile plane lands on the origin -/
theorem curved_structure (od wall deg radius : ℝ) (fn : Nat) (h : od - wall * 2 > 0) (hd : 0 < deg ∧ deg ≤ 360) :
    curved od wall deg radius fn =
      some (curvedBody od deg radius fn (difference [circleD od fn, circleD (od - wall * 2) fn])) ∧
    curvedSolid od deg radius fn = some (curvedBody od deg radius fn (circleD od fn)) := by
  have hb : boreOk od wall = true := (boreOk_iff od wall).mpr h
  have hdeg : degreesOk deg = true := by simp [degreesOk, lit, hd.1, hd.2]
  simp [curved, curvedSolid, hb, hdeg]
theorem curved_section_centred (od radius : ℝ) :
    (-od / 2 - radius) + (od / 2 + radius) = 0 := by ring

/-- assertions of the code: a bore that is not positive, or an angle outside (0, 360], panics -/
theorem straight_rejects (od wall L : ℝ) (center : Bool) (fn : Nat) (h : ¬ od - wall * 2 > 0) :
    straight od wall L center fn = none := by
  have hb : boreOk od wall = false := by
    rw [Bool.eq_false_iff]; intro hc; exact h ((boreOk_iff od wall).mp hc)
  simp [straight, hb]

/-- non-vacuity -/
example : (10 : ℝ) - 1 * 2 > 0 := by norm_num

end ScadVerif.C15
