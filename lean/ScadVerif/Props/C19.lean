/-
C19 — the random generator is the reference MT19937 stream in documented ranges.
-/
import Mathlib.Tactic.Linarith
import Mathlib.Tactic.Positivity
import Mathlib.Algebra.Order.Floor.Ring
import Mathlib.Data.Rat.Floor
import ScadVerif.Lemmas.MTRefine
namespace ScadVerif.C19
open ScadVerif ScadVerif.Rng

/-- For every seed and every stream position — across any number of in-place state
regenerations — the generator's output is the reference MT19937 output: tempering of
x_{k+624}, where x is the sequence seeded by xᵢ = 6069·xᵢ₋₁ and continued by the MT recurrence. -/
theorem stream_eq_reference (seed : UInt32) (count : Nat) :
    outputs count (withSeed seed) = (List.range count).map (Spec.MT.output seed) := by
  rw [MTRefine.outputs_good seed count _ 624 (MTRefine.withSeed_good seed)]
  apply List.map_congr_left
  intro t _
  simp only [Spec.MT.output, MTRefine.n_val]
  exact congrArg (fun k => Spec.MT.temper (Spec.MT.x seed k)) (by omega)

/-- the k-th output alone -/
theorem output_eq_reference (seed : UInt32) (k : Nat) :
    (outputs (k + 1) (withSeed seed))[k]? = some (Spec.MT.output seed k) := by
  rw [stream_eq_reference]; simp

/-- the reference sequence satisfies the paper's recurrence and the documented seeding -/
theorem reference_recurrence (seed : UInt32) (k : Nat) :
    Spec.MT.x seed (k + 624) = Spec.MT.x seed (k + 397) ^^^ Spec.MT.twist (Spec.MT.x seed k) (Spec.MT.x seed (k + 1)) :=
  MTRefine.x_rec seed k
theorem reference_seeding (seed : UInt32) :
    Spec.MT.x seed 0 = seed ∧ ∀ j, j < 623 → Spec.MT.x seed (j + 1) = 6069 * Spec.MT.x seed j :=
  ⟨MTRefine.x_zero seed, fun j hj => MTRefine.x_seed_succ seed j hj⟩

/-- the source's constants are the paper's (regenerated from rng.rs on every run) -/
theorem constants_are_mt19937 :
    Gen.mtN = 624 ∧ Gen.mtM = 397 ∧ Gen.mtUpper = 0x80000000 ∧ Gen.mtLower = 0x7fffffff ∧
    Gen.mtMatrixA = 0x9908b0df ∧ Gen.mtSeedMul = 6069 ∧ Gen.mtMaskB = 0x9d2c5680 ∧ Gen.mtMaskC = 0xefc60000 ∧
    Gen.mtShiftU = 11 ∧ Gen.mtShiftS = 7 ∧ Gen.mtShiftT = 15 ∧ Gen.mtShiftL = 18 := by decide

/-- identical on every run: the stream is a function of the seed -/
theorem deterministic (seed : UInt32) (count : Nat) :
    outputs count (withSeed seed) = outputs count (withSeed seed) := rfl

/-! ### range maps, in exact arithmetic

`f32_0_1` (repaired) is `(u >> 8) / 2²⁴`: a 24-bit integer is exact in f32 and division by a
power of two is exact, so the f32 result *is* this rational ([ieee], DESIGN §3.3). -/
theorem f32_0_1_range (u : UInt32) :
    (0 : ℚ) ≤ ((u >>> 8).toNat : ℚ) / 2 ^ 24 ∧ ((u >>> 8).toNat : ℚ) / 2 ^ 24 < 1 := by
  have h : (u >>> 8).toNat < 2 ^ 24 := by
    rw [UInt32.toNat_shiftRight]
    have := u.toNat_lt
    simp only [UInt32.toNat_ofNat, Nat.reducePow, Nat.reduceMod] at *
    omega
  constructor
  · positivity
  · rw [div_lt_one (by positivity)]
    exact_mod_cast h

/-- `i32_minmax` in exact arithmetic (the one f32 rounding of the product is not modelled —
partial): `min + ⌊(max − min)·v⌋ ∈ [min, max)` for v ∈ [0, 1) -/
theorem i32_minmax_range_partial (min max : ℤ) (v : ℚ) (h : min < max) (h0 : 0 ≤ v) (h1 : v < 1) :
    min ≤ min + ⌊((max - min : ℤ) : ℚ) * v⌋ ∧ min + ⌊((max - min : ℤ) : ℚ) * v⌋ < max := by
  have hs : (0 : ℚ) < ((max - min : ℤ) : ℚ) := by exact_mod_cast (by omega : (0 : ℤ) < max - min)
  have hlo : (0 : ℤ) ≤ ⌊((max - min : ℤ) : ℚ) * v⌋ := Int.floor_nonneg.mpr (by positivity)
  have hhi : ⌊((max - min : ℤ) : ℚ) * v⌋ < max - min := by
    rw [Int.floor_lt]
    calc ((max - min : ℤ) : ℚ) * v < ((max - min : ℤ) : ℚ) * 1 := by
          apply mul_lt_mul_of_pos_left h1 hs
      _ = ((max - min : ℤ) : ℚ) := by ring
  constructor <;> omega

/-- `i32_minmax` under the standard model of one IEEE rounding (round to nearest: relative error at
most 2⁻²⁴ for binary32), for ranges the f32 holds exactly (`max − min < 2²⁴`): the rounded product
still truncates to a value in `[0, max − min)`, so the result lies in `[min, max)`.  The raw 24-bit
fraction `k / 2²⁴` is exact in binary32. -/
theorem i32_minmax_range_rounded (min max : ℤ) (k : ℕ) (P : ℚ) (hlt : min < max) (hsmall : max - min < 2 ^ 24)
    (hk : k < 2 ^ 24)
    (hround : |P - ((max - min : ℤ) : ℚ) * ((k : ℚ) / 2 ^ 24)| ≤
      (1 / 2 ^ 24) * |((max - min : ℤ) : ℚ) * ((k : ℚ) / 2 ^ 24)|) :
    min ≤ min + ⌊P⌋ ∧ min + ⌊P⌋ < max := by
  set D : ℚ := ((max - min : ℤ) : ℚ) with hD
  have hDpos : 0 < D := by rw [hD]; exact_mod_cast (by omega : (0 : ℤ) < max - min)
  set v : ℚ := (k : ℚ) / 2 ^ 24 with hv
  have hv0 : 0 ≤ v := by rw [hv]; positivity
  have hv1 : v ≤ 1 - 1 / 2 ^ 24 := by
    rw [hv, div_le_iff₀ (by positivity)]
    have : (k : ℚ) ≤ 2 ^ 24 - 1 := by
      have : k + 1 ≤ 2 ^ 24 := hk
      exact_mod_cast (by omega : (k : ℤ) ≤ 2 ^ 24 - 1)
    norm_num at this ⊢; linarith
  have hx0 : 0 ≤ D * v := by positivity
  rw [abs_of_nonneg hx0] at hround
  have hPle : P ≤ D * v * (1 + 1 / 2 ^ 24) := by
    have := (abs_le.mp hround).2; linarith
  have hPge : 0 ≤ P := by
    have := (abs_le.mp hround).1
    have : D * v * (1 - 1 / 2 ^ 24) ≤ P := by linarith
    have h2 : 0 ≤ D * v * (1 - 1 / 2 ^ 24) := by
      apply mul_nonneg hx0; norm_num
    linarith
  have hPlt : P < D := by
    have h1 : D * v * (1 + 1 / 2 ^ 24) ≤ D * (1 - 1 / 2 ^ 24) * (1 + 1 / 2 ^ 24) := by
      apply mul_le_mul_of_nonneg_right _ (by norm_num)
      exact mul_le_mul_of_nonneg_left hv1 hDpos.le
    have h2 : D * (1 - 1 / 2 ^ 24) * (1 + 1 / 2 ^ 24) < D := by
      have : (1 - 1 / 2 ^ 24 : ℚ) * (1 + 1 / 2 ^ 24) < 1 := by norm_num
      calc D * (1 - 1 / 2 ^ 24) * (1 + 1 / 2 ^ 24) = D * ((1 - 1 / 2 ^ 24) * (1 + 1 / 2 ^ 24)) := by ring
        _ < D * 1 := mul_lt_mul_of_pos_left this hDpos
        _ = D := by ring
    linarith
  have hfl0 : 0 ≤ ⌊P⌋ := Int.floor_nonneg.mpr hPge
  have hfl1 : ⌊P⌋ < max - min := by
    rw [Int.floor_lt]; rw [hD] at hPlt; exact hPlt
  constructor <;> omega


/-- `f32_minmax` / `f64_minmax` in exact arithmetic: never leave [min, max] -/
theorem fminmax_range {α : Type} [Field α] [LinearOrder α] [IsStrictOrderedRing α]
    (min max v : α) (h : min < max) (h0 : 0 ≤ v) (h1 : v < 1) :
    min ≤ min + (max - min) * v ∧ min + (max - min) * v ≤ max := by
  have hs : 0 < max - min := by linarith
  constructor
  · have := mul_nonneg hs.le h0; linarith
  · have : (max - min) * v ≤ (max - min) * 1 := mul_le_mul_of_nonneg_left h1.le hs.le
    linarith

/-- non-vacuity -/
example : (2 : ℤ) < 5 ∧ (0 : ℚ) ≤ 1 / 2 ∧ (1 / 2 : ℚ) < 1 := by norm_num

end ScadVerif.C19
