/-
C06 — every macro form builds the node its OpenSCAD spelling denotes, once.

Gen/MacroArms.lean is regenerated from scad.rs on every run; `all_arms_ok` is therefore
re-checked against the current source each time.
-/
import ScadVerif.Gen.MacroArms
import ScadVerif.Spec.MacroMeaning
namespace ScadVerif.C06
open ScadVerif ScadVerif.Macro ScadVerif.Spec.MacroMeaning

/-- there are 136 construction-macro arms and 5 `scad_file!` arms -/
theorem arm_count : Gen.arms.length = 136 ∧ Gen.scadFileArms.length = 5 := by decide +kernel

/-- every arm builds, field by field, what the same-looking OpenSCAD call means: named and
positional arguments land in their parameters unchanged, a diameter is stored as half, a single
size applies to every axis, omitted parameters take OpenSCAD's defaults, positional slots keep
OpenSCAD's order, and children are passed through -/
theorem all_arms_mean_their_openscad_call : ∀ a ∈ Gen.arms, ArmMeaningOK a = true := by decide +kernel

/-- … and evaluates every argument expression exactly once -/
theorem all_arms_ok : ∀ a ∈ Gen.arms, ArmOK a = true := by decide +kernel

/-- the `scad_file!` arms write exactly the settings their form names, `$fa` before `$fs` -/
theorem scad_file_settings :
    Gen.scadFileArms.map (·.2) = [[c!"fa", c!"fs"], [c!"fn"], [c!"fs"], [c!"fa"], []] := by decide +kernel

/-- `a + b` / `a - b` are the union / difference of a and b in that order -/
theorem add_is_union {ν : Type} (a b : Scad ν) : Scad.add a b = Scad.node .union [a, b] := rfl
theorem sub_is_difference {ν : Type} (a b : Scad ν) : Scad.sub a b = Scad.node .difference [a, b] := rfl

end ScadVerif.C06
