/-
C05 — mesh builders put every ring where documented.

The theorems are about Model/Dim3.lean (the model of dim3.rs; the correspondence run compares every
point of every generated mesh with the crate's) over ℝ.  They hold for every profile, height,
angle, segment count and path.

PARTIAL: "every end cap is a valid triangulation of the ring it closes" and the volume statement
rest on C03's partial part and are decided by the oracle run on every generated mesh.
-/
import ScadVerif.Props.C10
import ScadVerif.Model.Dim3
import ScadVerif.Spec.Mesh
namespace ScadVerif.C05
open ScadVerif ScadVerif.Dim3 ScadVerif.Dim3.Polyhedron

noncomputable instance : HasTrunc ℝ := ⟨fun x => ⌊x⌋₊⟩

/-- the quad strip between two rings has one quad per profile edge -/
theorem strip_length (n lo hi : Nat) : (strip n lo hi).length = n := by simp [strip]

theorem bind_some {β γ : Type} {o : Option β} {f : β → Option γ} {y : γ} (h : o.bind f = some y) :
    ∃ x, o = some x ∧ f x = some y := by
  cases o with
  | none => simp at h
  | some x => exact ⟨x, rfl, h⟩

/-- **linear_extrude** places the profile unchanged at z = 0 and at z = height: 2n points, point `i`
is `(xᵢ, yᵢ, 0)`, point `n + i` is `(xᵢ, yᵢ, height)` -/
theorem linearExtrude_points (profile : List (Pt2 ℝ)) (height : ℝ) (p : Polyhedron ℝ)
    (h : linearExtrude profile height = some p) :
    p.points = profile.map (·.asPt3 0) ++ profile.map (·.asPt3 height) := by
  unfold linearExtrude at h
  simp only [Option.bind_eq_bind, Option.pure_def] at h
  obtain ⟨b, _, h⟩ := bind_some h
  obtain ⟨t, _, h⟩ := bind_some h
  injection h with h; subst h; rfl

theorem linearExtrude_ring (profile : List (Pt2 ℝ)) (height : ℝ) (p : Polyhedron ℝ)
    (h : linearExtrude profile height = some p) (i : Nat) (hi : i < profile.length) :
    p.points[i]? = some ⟨profile[i].x, profile[i].y, 0⟩ ∧
    p.points[profile.length + i]? = some ⟨profile[i].x, profile[i].y, height⟩ := by
  rw [linearExtrude_points profile height p h]
  constructor
  · rw [List.getElem?_append_left (by simpa using hi)]; simp [hi, Pt2.asPt3]
  · rw [List.getElem?_append_right (by simp)]; simp [hi, Pt2.asPt3]

/-- **loft** places `lower` at z = 0 and `upper` at z = height, and rejects differing lengths -/
theorem loft_points (lower upper : List (Pt2 ℝ)) (height : ℝ) (p : Polyhedron ℝ)
    (h : loft lower upper height = some p) :
    lower.length = upper.length ∧
      p.points = lower.map (·.asPt3 0) ++ upper.map (·.asPt3 height) := by
  unfold loft at h
  by_cases hl : lower.length = upper.length
  · simp only [hl, ne_eq, not_true_eq_false, if_false, Option.bind_eq_bind, Option.pure_def] at h
    obtain ⟨b, _, h⟩ := bind_some h
    obtain ⟨t, _, h⟩ := bind_some h
    injection h with h; subst h; exact ⟨hl, rfl⟩
  · simp [hl] at h

/-- **cylinder** is the linear extrusion of the `segments`-gon -/
theorem cylinder_points (r height : ℝ) (seg : Nat) (p : Polyhedron ℝ)
    (h : cylinder r height seg = some p) :
    ∃ c, Dim2.circle r seg = some c ∧ p.points = c.map (·.asPt3 0) ++ c.map (·.asPt3 height) := by
  unfold cylinder at h
  simp only [Option.bind_eq_bind] at h
  obtain ⟨c, hc, h⟩ := bind_some h
  exact ⟨c, hc, linearExtrude_points c height p h⟩

/-! ### rotate_extrude -/
/-- **copy k of the profile** lies in the half-plane at angle `k·a` about Z: point `(x, z)` of the
profile goes to `(x·cos ka, x·sin ka, z)` — radius and height are kept -/
theorem revolveRing_get (profile : List (Pt3 ℝ)) (a : ℝ) (k i : Nat) (hi : i < profile.length) :
    (revolveRing profile a k)[i]? =
      some ⟨profile[i].x * dcos (a * k), profile[i].x * dsin (a * k), profile[i].z⟩ := by
  simp [revolveRing, hi]
theorem revolveRing_length (profile : List (Pt3 ℝ)) (a : ℝ) (k : Nat) :
    (revolveRing profile a k).length = profile.length := by simp [revolveRing]
theorem revolve_keeps_radius (x a : ℝ) (k : Nat) :
    (x * dcos (a * k)) ^ 2 + (x * dsin (a * k)) ^ 2 = x ^ 2 := by
  have := C10.cs_unit (a * k)
  nlinarith [this]
/-- copy 0 is the profile itself (in the XZ half-plane) -/
theorem revolveRing_zero (profile2 : List (Pt2 ℝ)) (a : ℝ) :
    revolveRing (profile2.map fun p => (⟨p.x, 0, p.y⟩ : Pt3 ℝ)) a 0 =
      profile2.map fun p => (⟨p.x, 0, p.y⟩ : Pt3 ℝ) := by
  simp [revolveRing, dsin, dcos, toRad]

/-- the point list of a revolve: the profile, then copies 1 … segments-1, then (for a partial
revolve) copy `segments` at the full angle -/
theorem rotateExtrude_points (profile2 : List (Pt2 ℝ)) (degrees : ℝ) (segments : Nat) (p : Polyhedron ℝ)
    (h : rotateExtrude profile2 degrees segments = some p) :
    let profile : List (Pt3 ℝ) := profile2.map fun q => ⟨q.x, 0, q.y⟩
    let a := degrees / (segments : ℝ)
    (0 ≤ degrees ∧ degrees ≤ 360 ∧ 3 ≤ segments) ∧
    p.points = profile ++ ((List.range (segments - 1)).flatMap fun j => revolveRing profile a (j + 1)) ++
      (if degrees = 360 then [] else revolveRing profile a segments) := by
  intro profile a
  unfold rotateExtrude at h
  by_cases hr : (0 ≤ degrees ∧ degrees ≤ 360)
  · by_cases hs : segments < 3
    · simp [hr, hs] at h
    · by_cases hd : degrees = 360
      · have e : Cmp.eqb (360 : ℝ) 360 = true := (eqb_real _ _).mpr rfl
        subst hd
        simp [hs, e] at h
        subst h
        refine ⟨⟨by norm_num, by norm_num, by omega⟩, ?_⟩
        simp [profile, a]
      · have e : Cmp.eqb degrees (360 : ℝ) = false := by
          rw [Bool.eq_false_iff]; intro hc; exact hd ((eqb_real _ _).mp hc)
        simp [hr, hs, e] at h
        obtain ⟨sc, _, h⟩ := bind_some h
        obtain ⟨ec, _, h⟩ := bind_some h
        injection h with h; subst h
        refine ⟨⟨hr.1, hr.2, by omega⟩, ?_⟩
        simp [hd, profile, a]
  · have hc : (decide (0 ≤ degrees) && decide (degrees ≤ 360)) = false := by
      rw [Bool.eq_false_iff]; intro hc; simp at hc; exact hr hc
    simp [hc] at h
    exact absurd h.1 hr

/-! ### sweep -/
theorem sweepRing_length (profile : List (Pt3 ℝ)) (m : Mt4 ℝ) (tw : Option ℝ) (w : ℝ) (at_ : Pt3 ℝ) :
    (sweepRing profile m tw w at_).length = profile.length := by simp [sweepRing]
/-- ring point `i`: the profile point, turned about Z by the twist, mapped by the frame as a
direction (`w = 0`) or point, moved to the path point -/
theorem sweepRing_get (profile : List (Pt3 ℝ)) (m : Mt4 ℝ) (t w : ℝ) (at_ : Pt3 ℝ) (i : Nat)
    (hi : i < profile.length) :
    (sweepRing profile m (some t) w at_)[i]? =
      some (Pt3.add (Pt4.asPt3 (Mt4.mulVec m ((profile[i].rotatedZ t).asPt4 w))) at_) := by
  simp [sweepRing, hi]

/-- squared distance -/
def dist2 (a b : Pt3 ℝ) : ℝ := (Pt3.sub a b).dot (Pt3.sub a b)

/-- a frame with orthonormal columns moves points rigidly, as points (`w = 1`) or as directions
(`w = 0`), whatever the translation -/
theorem frame_rigid (m : Mt4 ℝ) (hm : Spec.IsProperRotation (C10.cols m)) (w : ℝ) (at_ u v : Pt3 ℝ) :
    dist2 (Pt3.add (Pt4.asPt3 (Mt4.mulVec m (u.asPt4 w))) at_)
          (Pt3.add (Pt4.asPt3 (Mt4.mulVec m (v.asPt4 w))) at_) = dist2 u v := by
  obtain ⟨h1, h2, h3, h4, h5, h6, _⟩ := hm
  simp only [C10.cols, Pt3.dot, Pt4.asPt3] at h1 h2 h3 h4 h5 h6
  simp only [dist2, Pt3.sub, Pt3.add, Pt3.dot, Pt4.asPt3, Mt4.mulVec, Mt4.transposed, Pt4.dot4, Pt3.asPt4]
  linear_combination ((u.x - v.x) * (u.x - v.x)) * h1 + ((u.y - v.y) * (u.y - v.y)) * h2 +
    ((u.z - v.z) * (u.z - v.z)) * h3 + (2 * (u.x - v.x) * (u.y - v.y)) * h4 +
    (2 * (u.x - v.x) * (u.z - v.z)) * h5 + (2 * (u.y - v.y) * (u.z - v.z)) * h6

/-- the twist about Z is rigid -/
theorem twist_rigid (p q : Pt3 ℝ) (t : ℝ) : dist2 (p.rotatedZ t) (q.rotatedZ t) = dist2 p q := by
  have h := C10.cs_unit t
  simp only [dist2, Pt3.sub, Pt3.dot, Pt3.rotatedZ, Pt3.rotatedZCS]
  linear_combination ((p.x - q.x) * (p.x - q.x) + (p.y - q.y) * (p.y - q.y)) * h

/-- **C05, sweep rings are rigid copies of the profile**: for a frame with orthonormal columns
(which `look_at_matrix_lh` is whenever the path direction is defined and not vertical — C10
`lookAt_rotation`; and for vertical directions — `lookAt_vertical`), any twist, any path point: the
distance between any two ring points equals the distance between the two profile points -/
theorem sweepRing_rigid (profile : List (Pt3 ℝ)) (m : Mt4 ℝ) (hm : Spec.IsProperRotation (C10.cols m))
    (tw : Option ℝ) (w : ℝ) (at_ : Pt3 ℝ) (i j : Nat) (hi : i < profile.length) (hj : j < profile.length) :
    ∃ P Q, (sweepRing profile m tw w at_)[i]? = some P ∧ (sweepRing profile m tw w at_)[j]? = some Q ∧
      dist2 P Q = dist2 profile[i] profile[j] := by
  cases tw with
  | none =>
    refine ⟨Pt3.add (Pt4.asPt3 (Mt4.mulVec m (profile[i].asPt4 w))) at_,
      Pt3.add (Pt4.asPt3 (Mt4.mulVec m (profile[j].asPt4 w))) at_, by simp [sweepRing, hi],
      by simp [sweepRing, hj], ?_⟩
    exact frame_rigid m hm w at_ _ _
  | some t =>
    refine ⟨Pt3.add (Pt4.asPt3 (Mt4.mulVec m ((profile[i].rotatedZ t).asPt4 w))) at_,
      Pt3.add (Pt4.asPt3 (Mt4.mulVec m ((profile[j].rotatedZ t).asPt4 w))) at_, by simp [sweepRing, hi],
      by simp [sweepRing, hj], ?_⟩
    rw [frame_rigid m hm w at_, twist_rigid]


/-! ### transforms move points and leave faces untouched -/
theorem translate_faces (p : Polyhedron ℝ) (d : Pt3 ℝ) : (p.translate d).faces = p.faces := rfl
theorem applyMatrix_faces (p : Polyhedron ℝ) (m : Mt4 ℝ) : (p.applyMatrix m).faces = p.faces := rfl
theorem rotateX_faces (p : Polyhedron ℝ) (a : ℝ) : (p.rotateX a).faces = p.faces := rfl
theorem rotateY_faces (p : Polyhedron ℝ) (a : ℝ) : (p.rotateY a).faces = p.faces := rfl
theorem rotateZ_faces (p : Polyhedron ℝ) (a : ℝ) : (p.rotateZ a).faces = p.faces := rfl
theorem translate_points (p : Polyhedron ℝ) (d : Pt3 ℝ) :
    (p.translate d).points = Pt3s.translate p.points d := rfl
theorem applyMatrix_points (p : Polyhedron ℝ) (m : Mt4 ℝ) :
    (p.applyMatrix m).points = Mt4.applyMatrix p.points m := rfl
theorem transforms_keep_count (p : Polyhedron ℝ) (d : Pt3 ℝ) (m : Mt4 ℝ) (a : ℝ) :
    (p.translate d).points.length = p.points.length ∧
    (p.applyMatrix m).points.length = p.points.length ∧
    (p.rotateX a).points.length = p.points.length ∧
    (p.rotateY a).points.length = p.points.length ∧
    (p.rotateZ a).points.length = p.points.length := by
  simp [Polyhedron.translate, Polyhedron.applyMatrix, Polyhedron.rotateX, Polyhedron.rotateY,
    Polyhedron.rotateZ, Pt3s.translate, Mt4.applyMatrix, Pt3s.rotateX, Pt3s.rotateY, Pt3s.rotateZ]

end ScadVerif.C05
