/-
The end-to-end theorem of C02 restated about the *transcribed source*: what the transcribed
`impl Display for Scad` writes, parsed and bound by OpenSCAD's rules, gives back exactly the tree.
-/
import ScadVerif.Props.C02
import ScadVerif.Tie.File
namespace ScadVerif.SrcC02
open ScadVerif ScadVerif.Spec ScadVerif.ParserLemmas ScadVerif.DecodeLemmas

variable {ν : Type} [OfNat ν 0] (showNum : ν → List Char) (readNum : List Char → Option ν) (zero : ν)

theorem written_arguments_denote_parameters (hnum : ∀ x, IsNumeral (showNum x) = true)
    (hread : ∀ x, readNum (showNum x) = some x) (ts : List (Scad ν))
    (hwf : ∀ t ∈ ts, C01.WellFormed showNum t) (hg : ∀ t ∈ ts, C02.TreeGood zero t)
    (hp : ∀ t ∈ ts, TieEmit.allPlain t) :
    (parseProgram (ts.flatMap (fun t => Src.Scad.fmt showNum t))).bind
      (fun stmts => stmts.mapM (decodeStmt readNum zero)) = some ts := by
  rw [TieFile.children_eq showNum ts hp]
  exact C02.emitted_arguments_denote_parameters showNum readNum zero hnum hread ts hwf hg

end ScadVerif.SrcC02
