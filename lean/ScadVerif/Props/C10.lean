/-
C10 — all rotation routes agree and follow the right-hand rule.

Every rotation of the model is defined through a core taking the pair (c, s); the degree-taking
functions are that core at (dcos d, dsin d).  The algebra is proved for every commutative ring
and every pair with c² + s² = 1, then specialised to ℝ with Mathlib's trigonometric laws.
-/
import ScadVerif.Lemmas.PtReal
import ScadVerif.Spec.Rotation
set_option linter.unusedSectionVars false
namespace ScadVerif.C10
open ScadVerif

section Ring
variable {α : Type} [CommRing α]

/-! ### every route is the reference (right-handed) rotation -/
theorem rotated2_spec (p : Pt2 α) (c s : α) : p.rotatedCS c s = Spec.rot2 c s p := by
  ext <;> simp only [Pt2.rotatedCS, Spec.rot2] <;> ring
theorem rotatedX_spec (p : Pt3 α) (c s : α) : p.rotatedXCS c s = Spec.rotX c s p := by
  ext <;> simp only [Pt3.rotatedXCS, Spec.rotX] <;> ring
theorem rotatedY_spec (p : Pt3 α) (c s : α) : p.rotatedYCS c s = Spec.rotY c s p := by
  ext <;> simp only [Pt3.rotatedYCS, Spec.rotY] <;> ring
theorem rotatedZ_spec (p : Pt3 α) (c s : α) : p.rotatedZCS c s = Spec.rotZ c s p := by
  ext <;> simp only [Pt3.rotatedZCS, Spec.rotZ] <;> ring

local macro "mat_pt" : tactic =>
  `(tactic| (ext <;> simp only [Mt4.mulVec, Mt4.mulPt3, Mt4.transposed, Mt4.rotXCS, Mt4.rotYCS,
      Mt4.rotZCS, Mt4.rotVecCS, Pt4.dot4, Pt3.dot, Pt3.asPt4, Pt4.asPt3, Spec.rotX, Spec.rotY,
      Spec.rotZ, Spec.rodrigues] <;> ring))

/-- `Mt4 * Pt4` with the rotation matrices (any w) -/
theorem rotXMatrix_spec (p : Pt3 α) (c s w : α) :
    (Mt4.mulVec (Mt4.rotXCS c s) (p.asPt4 w)).asPt3 = Spec.rotX c s p := by mat_pt
theorem rotYMatrix_spec (p : Pt3 α) (c s w : α) :
    (Mt4.mulVec (Mt4.rotYCS c s) (p.asPt4 w)).asPt3 = Spec.rotY c s p := by mat_pt
theorem rotZMatrix_spec (p : Pt3 α) (c s w : α) :
    (Mt4.mulVec (Mt4.rotZCS c s) (p.asPt4 w)).asPt3 = Spec.rotZ c s p := by mat_pt
theorem rot_matrix_keeps_w (p : Pt3 α) (c s w : α) :
    (Mt4.mulVec (Mt4.rotXCS c s) (p.asPt4 w)).w = w ∧ (Mt4.mulVec (Mt4.rotYCS c s) (p.asPt4 w)).w = w ∧
    (Mt4.mulVec (Mt4.rotZCS c s) (p.asPt4 w)).w = w := by
  refine ⟨?_, ?_, ?_⟩ <;>
    simp only [Mt4.mulVec, Mt4.transposed, Mt4.rotXCS, Mt4.rotYCS, Mt4.rotZCS, Pt4.dot4, Pt3.asPt4] <;> ring
/-- `Mt4 * Pt3` with the rotation matrices -/
theorem rotXMatrix_pt3 (p : Pt3 α) (c s : α) : Mt4.mulPt3 (Mt4.rotXCS c s) p = Spec.rotX c s p := by mat_pt
theorem rotYMatrix_pt3 (p : Pt3 α) (c s : α) : Mt4.mulPt3 (Mt4.rotYCS c s) p = Spec.rotY c s p := by mat_pt
theorem rotZMatrix_pt3 (p : Pt3 α) (c s : α) : Mt4.mulPt3 (Mt4.rotZCS c s) p = Spec.rotZ c s p := by mat_pt

/-- `rot_vec` is Rodrigues' rotation about the given axis -/
theorem rotVec_rodrigues (k p : Pt3 α) (c s w : α) :
    (Mt4.mulVec (Mt4.rotVecCS k.x k.y k.z c s) (p.asPt4 w)).asPt3 = Spec.rodrigues k c s p := by mat_pt
/-- about the basis vectors it is the matching axis rotation -/
theorem rotVec_ex (c s : α) : Mt4.rotVecCS 1 0 0 c s = Mt4.rotXCS c s := by
  ext <;> simp only [Mt4.rotVecCS, Mt4.rotXCS, Mt4.transposed] <;> ring
theorem rotVec_ey (c s : α) : Mt4.rotVecCS 0 1 0 c s = Mt4.rotYCS c s := by
  ext <;> simp only [Mt4.rotVecCS, Mt4.rotYCS, Mt4.transposed] <;> ring
theorem rotVec_ez (c s : α) : Mt4.rotVecCS 0 0 1 c s = Mt4.rotZCS c s := by
  ext <;> simp only [Mt4.rotVecCS, Mt4.rotZCS, Mt4.transposed] <;> ring

/-! ### right-hand rule: a quarter turn (c, s) = (0, 1) takes x→y about Z, y→z about X, z→x about Y -/
theorem right_hand_z : Spec.rotZ (0 : α) 1 ⟨1, 0, 0⟩ = ⟨0, 1, 0⟩ := by ext <;> simp [Spec.rotZ]
theorem right_hand_x : Spec.rotX (0 : α) 1 ⟨0, 1, 0⟩ = ⟨0, 0, 1⟩ := by ext <;> simp [Spec.rotX]
theorem right_hand_y : Spec.rotY (0 : α) 1 ⟨0, 0, 1⟩ = ⟨1, 0, 0⟩ := by ext <;> simp [Spec.rotY]

/-! ### isometry, composition, inverse — for every pair with c² + s² = 1 -/
theorem rot2_dot (p q : Pt2 α) (c s : α) (h : c * c + s * s = 1) :
    (Spec.rot2 c s p).dot (Spec.rot2 c s q) = p.dot q := by
  simp only [Spec.rot2, Pt2.dot]; linear_combination (p.x * q.x + p.y * q.y) * h
theorem rotX_dot (p q : Pt3 α) (c s : α) (h : c * c + s * s = 1) :
    (Spec.rotX c s p).dot (Spec.rotX c s q) = p.dot q := by
  simp only [Spec.rotX, Pt3.dot]; linear_combination (p.y * q.y + p.z * q.z) * h
theorem rotY_dot (p q : Pt3 α) (c s : α) (h : c * c + s * s = 1) :
    (Spec.rotY c s p).dot (Spec.rotY c s q) = p.dot q := by
  simp only [Spec.rotY, Pt3.dot]; linear_combination (p.x * q.x + p.z * q.z) * h
theorem rotZ_dot (p q : Pt3 α) (c s : α) (h : c * c + s * s = 1) :
    (Spec.rotZ c s p).dot (Spec.rotZ c s q) = p.dot q := by
  simp only [Spec.rotZ, Pt3.dot]; linear_combination (p.x * q.x + p.y * q.y) * h

/-- rotating by (c₂,s₂) then (c₁,s₁) is rotating by the angle sum -/
theorem rot2_comp (p : Pt2 α) (c₁ s₁ c₂ s₂ : α) :
    Spec.rot2 c₁ s₁ (Spec.rot2 c₂ s₂ p) = Spec.rot2 (c₁ * c₂ - s₁ * s₂) (s₁ * c₂ + c₁ * s₂) p := by
  ext <;> simp only [Spec.rot2] <;> ring
theorem rotX_comp (p : Pt3 α) (c₁ s₁ c₂ s₂ : α) :
    Spec.rotX c₁ s₁ (Spec.rotX c₂ s₂ p) = Spec.rotX (c₁ * c₂ - s₁ * s₂) (s₁ * c₂ + c₁ * s₂) p := by
  ext <;> simp only [Spec.rotX] <;> ring
theorem rotY_comp (p : Pt3 α) (c₁ s₁ c₂ s₂ : α) :
    Spec.rotY c₁ s₁ (Spec.rotY c₂ s₂ p) = Spec.rotY (c₁ * c₂ - s₁ * s₂) (s₁ * c₂ + c₁ * s₂) p := by
  ext <;> simp only [Spec.rotY] <;> ring
theorem rotZ_comp (p : Pt3 α) (c₁ s₁ c₂ s₂ : α) :
    Spec.rotZ c₁ s₁ (Spec.rotZ c₂ s₂ p) = Spec.rotZ (c₁ * c₂ - s₁ * s₂) (s₁ * c₂ + c₁ * s₂) p := by
  ext <;> simp only [Spec.rotZ] <;> ring
/-- rotating by −a (c, −s) undoes a -/
theorem rot2_inv (p : Pt2 α) (c s : α) (h : c * c + s * s = 1) : Spec.rot2 c (-s) (Spec.rot2 c s p) = p := by
  ext <;> simp only [Spec.rot2]
  · linear_combination p.x * h
  · linear_combination p.y * h
theorem rotX_inv (p : Pt3 α) (c s : α) (h : c * c + s * s = 1) : Spec.rotX c (-s) (Spec.rotX c s p) = p := by
  ext <;> simp only [Spec.rotX]
  · linear_combination p.y * h
  · linear_combination p.z * h
theorem rotY_inv (p : Pt3 α) (c s : α) (h : c * c + s * s = 1) : Spec.rotY c (-s) (Spec.rotY c s p) = p := by
  ext <;> simp only [Spec.rotY]
  · linear_combination p.x * h
  · linear_combination p.z * h
theorem rotZ_inv (p : Pt3 α) (c s : α) (h : c * c + s * s = 1) : Spec.rotZ c (-s) (Spec.rotZ c s p) = p := by
  ext <;> simp only [Spec.rotZ]
  · linear_combination p.x * h
  · linear_combination p.y * h

/-- Rodrigues' rotation about a unit axis preserves dot products (lengths and angles) -/
theorem rodrigues_dot (k p q : Pt3 α) (c s : α) (h : c * c + s * s = 1)
    (hk : k.x * k.x + k.y * k.y + k.z * k.z = 1) :
    (Spec.rodrigues k c s p).dot (Spec.rodrigues k c s q) = p.dot q := by
  simp only [Spec.rodrigues, Pt3.dot]
  linear_combination (k.x*k.x*k.x*k.x*p.x*q.x + k.x*k.x*k.x*k.y*p.x*q.y + k.x*k.x*k.x*k.y*p.y*q.x + k.x*k.x*k.x*k.z*p.x*q.z + k.x*k.x*k.x*k.z*p.z*q.x + k.x*k.x*k.y*k.y*p.x*q.x + k.x*k.x*k.y*k.y*p.y*q.y + k.x*k.x*k.y*k.z*p.y*q.z + k.x*k.x*k.y*k.z*p.z*q.y + k.x*k.x*k.z*k.z*p.x*q.x + k.x*k.x*k.z*k.z*p.z*q.z - 2*k.x*k.x*p.x*q.x + k.x*k.y*k.y*k.y*p.x*q.y + k.x*k.y*k.y*k.y*p.y*q.x + k.x*k.y*k.y*k.z*p.x*q.z + k.x*k.y*k.y*k.z*p.z*q.x + k.x*k.y*k.z*k.z*p.x*q.y + k.x*k.y*k.z*k.z*p.y*q.x - 2*k.x*k.y*p.x*q.y - 2*k.x*k.y*p.y*q.x + k.x*k.z*k.z*k.z*p.x*q.z + k.x*k.z*k.z*k.z*p.z*q.x - 2*k.x*k.z*p.x*q.z - 2*k.x*k.z*p.z*q.x + k.y*k.y*k.y*k.y*p.y*q.y + k.y*k.y*k.y*k.z*p.y*q.z + k.y*k.y*k.y*k.z*p.z*q.y + k.y*k.y*k.z*k.z*p.y*q.y + k.y*k.y*k.z*k.z*p.z*q.z - 2*k.y*k.y*p.y*q.y + k.y*k.z*k.z*k.z*p.y*q.z + k.y*k.z*k.z*k.z*p.z*q.y - 2*k.y*k.z*p.y*q.z - 2*k.y*k.z*p.z*q.y + k.z*k.z*k.z*k.z*p.z*q.z - 2*k.z*k.z*p.z*q.z + p.x*q.x + p.y*q.y + p.z*q.z) * h + (-2*c*k.x*k.x*p.x*q.x - 2*c*k.x*k.y*p.x*q.y - 2*c*k.x*k.y*p.y*q.x - 2*c*k.x*k.z*p.x*q.z - 2*c*k.x*k.z*p.z*q.x - 2*c*k.y*k.y*p.y*q.y - 2*c*k.y*k.z*p.y*q.z - 2*c*k.y*k.z*p.z*q.y - 2*c*k.z*k.z*p.z*q.z - k.x*k.x*p.x*q.x*s*s + 2*k.x*k.x*p.x*q.x - k.x*k.y*p.x*q.y*s*s + 2*k.x*k.y*p.x*q.y - k.x*k.y*p.y*q.x*s*s + 2*k.x*k.y*p.y*q.x - k.x*k.z*p.x*q.z*s*s + 2*k.x*k.z*p.x*q.z - k.x*k.z*p.z*q.x*s*s + 2*k.x*k.z*p.z*q.x - k.y*k.y*p.y*q.y*s*s + 2*k.y*k.y*p.y*q.y - k.y*k.z*p.y*q.z*s*s + 2*k.y*k.z*p.y*q.z - k.y*k.z*p.z*q.y*s*s + 2*k.y*k.z*p.z*q.y - k.z*k.z*p.z*q.z*s*s + 2*k.z*k.z*p.z*q.z + p.x*q.x*s*s + p.y*q.y*s*s + p.z*q.z*s*s) * hk


/-- a frame (s, f×s, f) built from a unit vector f and a unit vector s ⟂ f is a proper rotation:
orthonormal columns and determinant 1 -/
theorem frame_rotation (s f : Pt3 α) (hs : s.dot s = 1) (hf : f.dot f = 1) (hsf : s.dot f = 0) :
    let u := f.cross s
    u.dot u = 1 ∧ u.dot s = 0 ∧ u.dot f = 0 ∧ s.dot (u.cross f) = 1 := by
  simp only [Pt3.dot, Pt3.cross] at *
  refine ⟨?_, ?_, ?_, ?_⟩
  · linear_combination (s.x * s.x + s.y * s.y + s.z * s.z) * hf + hs - (s.x * f.x + s.y * f.y + s.z * f.z) * hsf
  · ring
  · ring
  · linear_combination (s.x * s.x + s.y * s.y + s.z * s.z) * hf + hs - (s.x * f.x + s.y * f.y + s.z * f.z) * hsf

/-- `Mt4 * Pt3` is the linear combination of the first three columns -/
theorem mulPt3_columns (m : Mt4 α) (p : Pt3 α) :
    Mt4.mulPt3 m p = Pt3.add (Pt3.add (Pt3.smul m.x.asPt3 p.x) (Pt3.smul m.y.asPt3 p.y)) (Pt3.smul m.z.asPt3 p.z) := by
  ext <;> simp only [Mt4.mulPt3, Mt4.transposed, Pt3.dot, Pt4.asPt3, Pt3.add, Pt3.smul] <;> ring
/-- acting on directions (w = 0), `Mt4 * Pt4` is the same linear map -/
theorem mulVec_direction (m : Mt4 α) (p : Pt3 α) :
    (Mt4.mulVec m (p.asPt4 0)).asPt3 = Mt4.mulPt3 m p := by
  ext <;> simp only [Mt4.mulVec, Mt4.mulPt3, Mt4.transposed, Pt4.dot4, Pt3.dot, Pt4.asPt3, Pt3.asPt4] <;> ring

/-! ### the routes as first published disagree (counter-witnesses at the quarter turn, over ℤ) -/
end Ring

example : Pt3.rotatedYCSLegacy (⟨0, 0, 1⟩ : Pt3 Int) 0 1 = ⟨-1, 0, 0⟩ := by decide
example : Spec.rotY (0 : Int) 1 ⟨0, 0, 1⟩ = ⟨1, 0, 0⟩ := by decide
example : (Mt4.mulVec (Mt4.rotVecCSLegacy (0 : Int) 0 1 0 1) ⟨0, 1, 0, 0⟩).asPt3 = ⟨-1, 0, 0⟩ ∧
    (Mt4.mulVec (Mt4.rotVecCSLegacy (0 : Int) 0 1 0 1) ⟨1, 0, 0, 0⟩).asPt3 = ⟨0, 1, -1⟩ := by decide
example : Spec.rotZ (0 : Int) 1 ⟨1, 0, 0⟩ = ⟨0, 1, 0⟩ := by decide

/-! ### degrees over ℝ -/
section Real
open Real

theorem cs_unit (d : ℝ) : dcos d * dcos d + dsin d * dsin d = 1 := by
  simp only [dcos, dsin, cos_real, sin_real]; nlinarith [Real.sin_sq_add_cos_sq (toRad d)]
theorem dcos_add (a b : ℝ) : dcos (a + b) = dcos a * dcos b - dsin a * dsin b := by
  simp only [dcos, dsin, toRad, cos_real, sin_real, add_mul, Real.cos_add]
theorem dsin_add (a b : ℝ) : dsin (a + b) = dsin a * dcos b + dcos a * dsin b := by
  simp only [dcos, dsin, toRad, cos_real, sin_real, add_mul, Real.sin_add]
theorem dcos_neg (a : ℝ) : dcos (-a) = dcos a := by simp [dcos, toRad]
theorem dsin_neg (a : ℝ) : dsin (-a) = -dsin a := by simp [dsin, toRad]

/-- every route gives the reference rotation by `d` degrees -/
theorem routes_agree_x (p : Pt3 ℝ) (d : ℝ) :
    p.rotatedX d = Spec.rotX (dcos d) (dsin d) p ∧
    (Mt4.mulVec (Mt4.rotXMatrix d) (p.asPt4 1)).asPt3 = Spec.rotX (dcos d) (dsin d) p ∧
    Mt4.mulPt3 (Mt4.rotXMatrix d) p = Spec.rotX (dcos d) (dsin d) p ∧
    (Mt4.mulVec (Mt4.rotVec 1 0 0 d) (p.asPt4 1)).asPt3 = Spec.rotX (dcos d) (dsin d) p :=
  ⟨rotatedX_spec _ _ _, rotXMatrix_spec _ _ _ _, rotXMatrix_pt3 _ _ _, by
    rw [Mt4.rotVec, rotVec_ex]; exact rotXMatrix_spec _ _ _ _⟩
theorem routes_agree_y (p : Pt3 ℝ) (d : ℝ) :
    p.rotatedY d = Spec.rotY (dcos d) (dsin d) p ∧
    (Mt4.mulVec (Mt4.rotYMatrix d) (p.asPt4 1)).asPt3 = Spec.rotY (dcos d) (dsin d) p ∧
    Mt4.mulPt3 (Mt4.rotYMatrix d) p = Spec.rotY (dcos d) (dsin d) p ∧
    (Mt4.mulVec (Mt4.rotVec 0 1 0 d) (p.asPt4 1)).asPt3 = Spec.rotY (dcos d) (dsin d) p :=
  ⟨rotatedY_spec _ _ _, rotYMatrix_spec _ _ _ _, rotYMatrix_pt3 _ _ _, by
    rw [Mt4.rotVec, rotVec_ey]; exact rotYMatrix_spec _ _ _ _⟩
theorem routes_agree_z (p : Pt3 ℝ) (d : ℝ) :
    p.rotatedZ d = Spec.rotZ (dcos d) (dsin d) p ∧
    (Mt4.mulVec (Mt4.rotZMatrix d) (p.asPt4 1)).asPt3 = Spec.rotZ (dcos d) (dsin d) p ∧
    Mt4.mulPt3 (Mt4.rotZMatrix d) p = Spec.rotZ (dcos d) (dsin d) p ∧
    (Mt4.mulVec (Mt4.rotVec 0 0 1 d) (p.asPt4 1)).asPt3 = Spec.rotZ (dcos d) (dsin d) p :=
  ⟨rotatedZ_spec _ _ _, rotZMatrix_spec _ _ _ _, rotZMatrix_pt3 _ _ _, by
    rw [Mt4.rotVec, rotVec_ez]; exact rotZMatrix_spec _ _ _ _⟩
theorem routes_agree_2d (p : Pt2 ℝ) (d : ℝ) : p.rotated d = Spec.rot2 (dcos d) (dsin d) p :=
  rotated2_spec _ _ _
/-- list and Polyhedron forms rotate every element and only the elements -/
theorem list_forms (ps : List (Pt3 ℝ)) (d : ℝ) :
    Pt3s.rotateX ps d = ps.map (Spec.rotX (dcos d) (dsin d)) ∧
    Pt3s.rotateY ps d = ps.map (Spec.rotY (dcos d) (dsin d)) ∧
    Pt3s.rotateZ ps d = ps.map (Spec.rotZ (dcos d) (dsin d)) := by
  refine ⟨?_, ?_, ?_⟩ <;> apply List.map_congr_left <;> intro p _
  · exact rotatedX_spec _ _ _
  · exact rotatedY_spec _ _ _
  · exact rotatedZ_spec _ _ _

/-- the quarter turn: 90° is (c, s) = (0, 1), so the routes follow the right-hand rule -/
theorem quarter_turn : dcos (90 : ℝ) = 0 ∧ dsin (90 : ℝ) = 1 := by
  have e : toRad (90 : ℝ) = π / 2 := by simp [toRad]; ring
  simp [dcos, dsin, e]

/-- rotating by b then a is rotating by a + b; rotating by −a undoes a; lengths and angles are kept -/
theorem rot_add_z (p : Pt3 ℝ) (a b : ℝ) : (p.rotatedZ b).rotatedZ a = p.rotatedZ (a + b) := by
  simp only [Pt3.rotatedZ, rotatedZ_spec, rotZ_comp, dcos_add, dsin_add]
theorem rot_add_x (p : Pt3 ℝ) (a b : ℝ) : (p.rotatedX b).rotatedX a = p.rotatedX (a + b) := by
  simp only [Pt3.rotatedX, rotatedX_spec, rotX_comp, dcos_add, dsin_add]
theorem rot_add_y (p : Pt3 ℝ) (a b : ℝ) : (p.rotatedY b).rotatedY a = p.rotatedY (a + b) := by
  simp only [Pt3.rotatedY, rotatedY_spec, rotY_comp, dcos_add, dsin_add]
theorem rot_add_2d (p : Pt2 ℝ) (a b : ℝ) : (p.rotated b).rotated a = p.rotated (a + b) := by
  simp only [Pt2.rotated, rotated2_spec, rot2_comp, dcos_add, dsin_add]
theorem rot_neg_z (p : Pt3 ℝ) (a : ℝ) : (p.rotatedZ a).rotatedZ (-a) = p := by
  simp only [Pt3.rotatedZ, rotatedZ_spec, dcos_neg, dsin_neg]; exact rotZ_inv _ _ _ (cs_unit a)
theorem rot_neg_x (p : Pt3 ℝ) (a : ℝ) : (p.rotatedX a).rotatedX (-a) = p := by
  simp only [Pt3.rotatedX, rotatedX_spec, dcos_neg, dsin_neg]; exact rotX_inv _ _ _ (cs_unit a)
theorem rot_neg_y (p : Pt3 ℝ) (a : ℝ) : (p.rotatedY a).rotatedY (-a) = p := by
  simp only [Pt3.rotatedY, rotatedY_spec, dcos_neg, dsin_neg]; exact rotY_inv _ _ _ (cs_unit a)
theorem rot_neg_2d (p : Pt2 ℝ) (a : ℝ) : (p.rotated a).rotated (-a) = p := by
  simp only [Pt2.rotated, rotated2_spec, dcos_neg, dsin_neg]; exact rot2_inv _ _ _ (cs_unit a)
theorem rot_isometry (p q : Pt3 ℝ) (d : ℝ) :
    (p.rotatedX d).dot (q.rotatedX d) = p.dot q ∧ (p.rotatedY d).dot (q.rotatedY d) = p.dot q ∧
    (p.rotatedZ d).dot (q.rotatedZ d) = p.dot q := by
  simp only [Pt3.rotatedX, Pt3.rotatedY, Pt3.rotatedZ, rotatedX_spec, rotatedY_spec, rotatedZ_spec]
  exact ⟨rotX_dot _ _ _ _ (cs_unit d), rotY_dot _ _ _ _ (cs_unit d), rotZ_dot _ _ _ _ (cs_unit d)⟩
theorem rotVec_isometry (k p q : Pt3 ℝ) (d : ℝ) (hk : k.x * k.x + k.y * k.y + k.z * k.z = 1) :
    (Mt4.mulVec (Mt4.rotVec k.x k.y k.z d) (p.asPt4 1)).asPt3.dot
      (Mt4.mulVec (Mt4.rotVec k.x k.y k.z d) (q.asPt4 1)).asPt3 = p.dot q := by
  rw [Mt4.rotVec, rotVec_rodrigues, rotVec_rodrigues]
  exact rodrigues_dot _ _ _ _ _ (cs_unit d) hk


/-! ### look_at_matrix_lh -/

/-- columns of the linear part of a model matrix -/
def cols (m : Mt4 ℝ) : Spec.Mt4Cols ℝ := ⟨m.x.asPt3, m.y.asPt3, m.z.asPt3⟩

/-- away from `eye = center` the repaired function is the published one; at `eye = center` it is the
identity (the published one normalizes the zero vector) -/
theorem lookAtLh_of_ne (eye center up : Pt3 ℝ) (hne : Pt3.sub center eye ≠ ⟨0, 0, 0⟩) :
    Mt4.lookAtLh eye center up = Mt4.lookAtLhLegacy eye center up := by
  unfold Mt4.lookAtLh Mt4.lookAtLhLegacy
  simp only []
  rw [if_neg]
  intro hc
  simp only [Bool.and_eq_true, eqb_real] at hc
  apply hne
  ext <;> simp [hc.1.1, hc.1.2, hc.2]
theorem lookAtLh_same (p up : Pt3 ℝ) : Mt4.lookAtLh p p up = Mt4.identity := by
  unfold Mt4.lookAtLh
  simp [Pt3.sub, eqb_real]

/-- For eye ≠ center and up not parallel to the direction f = (center − eye)/|center − eye|,
`look_at_matrix_lh` acts on vectors as a proper rotation taking +Z to f and +X to a vector
perpendicular to up. -/
theorem lookAt_rotation (eye center up : Pt3 ℝ)
    (hne : Pt3.sub center eye ≠ ⟨0, 0, 0⟩)
    (hup : Pt3.cross up (Pt3.normalized (Pt3.sub center eye)) ≠ ⟨0, 0, 0⟩) :
    let m := Mt4.lookAtLh eye center up
    let f := Pt3.normalized (Pt3.sub center eye)
    Spec.IsProperRotation (cols m) ∧ Mt4.mulPt3 m ⟨0, 0, 1⟩ = f ∧ (Mt4.mulPt3 m ⟨1, 0, 0⟩).dot up = 0 := by
  intro m f
  set w := Pt3.cross up f with hw
  have hf1 : f.dot f = 1 := Pt3.normalized_len2 hne
  have hs1 : (Pt3.normalized w).dot (Pt3.normalized w) = 1 := Pt3.normalized_len2 hup
  have hwl : 0 < w.len := Pt3.len_pos hup
  have hsf : (Pt3.normalized w).dot f = 0 := by
    have : w.dot f = 0 := by simp only [hw, Pt3.cross, Pt3.dot]; ring
    simp only [Pt3.normalized_comp, Pt3.dot] at this ⊢
    field_simp
    linarith
  have hsu : (Pt3.normalized w).dot up = 0 := by
    have : w.dot up = 0 := by simp only [hw, Pt3.cross, Pt3.dot]; ring
    simp only [Pt3.normalized_comp, Pt3.dot] at this ⊢
    field_simp
    linarith
  have hcond : (Cmp.eqb w.x 0 && Cmp.eqb w.y 0 && Cmp.eqb w.z 0) = false := by
    rw [Bool.eq_false_iff]
    intro hc
    simp only [Bool.and_eq_true, eqb_real] at hc
    apply hup
    ext <;> simp [hc.1.1, hc.1.2, hc.2]
  have hm : m = ⟨⟨(Pt3.normalized w).x, (Pt3.normalized w).y, (Pt3.normalized w).z, -(Pt3.dot (Pt3.normalized w) eye)⟩,
      ⟨(Pt3.cross f (Pt3.normalized w)).x, (Pt3.cross f (Pt3.normalized w)).y, (Pt3.cross f (Pt3.normalized w)).z,
        -(Pt3.dot (Pt3.cross f (Pt3.normalized w)) eye)⟩,
      ⟨f.x, f.y, f.z, -(Pt3.dot f eye)⟩, ⟨0, 0, 0, 1⟩⟩ := by
    show Mt4.lookAtLh eye center up = _
    rw [lookAtLh_of_ne eye center up hne]
    unfold Mt4.lookAtLhLegacy
    simp only []
    rw [if_neg]
    exact (Bool.eq_false_iff.mp hcond)
  obtain ⟨hu1, hus, huf, hdet⟩ := frame_rotation (Pt3.normalized w) f hs1 hf1 hsf
  refine ⟨?_, ?_, ?_⟩
  · rw [hm]
    simp only [cols, Pt4.asPt3, Spec.IsProperRotation]
    have hsu' : (Pt3.normalized w).dot (Pt3.cross f (Pt3.normalized w)) = 0 := by
      simp only [Pt3.dot, Pt3.cross]; ring
    have hfu' : (Pt3.cross f (Pt3.normalized w)).dot f = 0 := huf
    exact ⟨hs1, hu1, hf1, hsu', hsf, hfu', hdet⟩
  · rw [hm]; ext <;> simp [Mt4.mulPt3, Mt4.transposed, Pt3.dot, Pt4.asPt3]
  · rw [hm]
    have : Mt4.mulPt3 (⟨⟨(Pt3.normalized w).x, (Pt3.normalized w).y, (Pt3.normalized w).z, -(Pt3.dot (Pt3.normalized w) eye)⟩,
      ⟨(Pt3.cross f (Pt3.normalized w)).x, (Pt3.cross f (Pt3.normalized w)).y, (Pt3.cross f (Pt3.normalized w)).z,
        -(Pt3.dot (Pt3.cross f (Pt3.normalized w)) eye)⟩,
      ⟨f.x, f.y, f.z, -(Pt3.dot f eye)⟩, ⟨0, 0, 0, 1⟩⟩ : Mt4 ℝ) ⟨1, 0, 0⟩ = Pt3.normalized w := by
      ext <;> simp [Mt4.mulPt3, Mt4.transposed, Pt3.dot, Pt4.asPt3]
    rw [this]; exact hsu

/-- the library's own up = +Z with a direction straight up or straight down: the special
branch returns the identity resp. the half turn about X — again a proper rotation taking +Z to
the direction. -/
theorem lookAt_vertical (eye center : Pt3 ℝ) (hx : center.x = eye.x) (hy : center.y = eye.y)
    (hz : center.z ≠ eye.z) :
    let m := Mt4.lookAtLh eye center ⟨0, 0, 1⟩
    let f := Pt3.normalized (Pt3.sub center eye)
    Spec.IsProperRotation (cols m) ∧ Mt4.mulPt3 m ⟨0, 0, 1⟩ = f := by
  intro m f
  have hd : center.z - eye.z ≠ 0 := sub_ne_zero.mpr hz
  have hlen : (Pt3.sub center eye).len = |center.z - eye.z| := by
    simp [Pt3.len, Pt3.len2, Pt3.dot, Pt3.sub, hx, hy, ← sq, Real.sqrt_sq_eq_abs]
  have hf : f = ⟨0, 0, (center.z - eye.z) / |center.z - eye.z|⟩ := by
    show Pt3.normalized (Pt3.sub center eye) = _
    rw [Pt3.normalized_comp, hlen]; simp [Pt3.sub, hx, hy]
  have hcross : Pt3.cross (⟨0, 0, 1⟩ : Pt3 ℝ) f = ⟨0, 0, 0⟩ := by rw [hf]; simp [Pt3.cross]
  have hdot : Pt3.dot (⟨0, 0, 1⟩ : Pt3 ℝ) f = (center.z - eye.z) / |center.z - eye.z| := by
    rw [hf]; simp [Pt3.dot]
  have e180 : toRad (lit 180 : ℝ) = Real.pi := by simp [toRad, lit]; field_simp
  have hm : m = if (center.z - eye.z) / |center.z - eye.z| < 0 then Mt4.rotXCS (-1) 0 else Mt4.identity := by
    show Mt4.lookAtLh eye center ⟨0, 0, 1⟩ = _
    rw [lookAtLh_of_ne eye center ⟨0, 0, 1⟩ (by
      intro h0
      have := congrArg Pt3.z h0
      simp [Pt3.sub] at this
      exact hd this)]
    unfold Mt4.lookAtLhLegacy
    simp only []
    change (if (Cmp.eqb (Pt3.cross (⟨0, 0, 1⟩ : Pt3 ℝ) f).x 0 && Cmp.eqb (Pt3.cross (⟨0, 0, 1⟩ : Pt3 ℝ) f).y 0
      && Cmp.eqb (Pt3.cross (⟨0, 0, 1⟩ : Pt3 ℝ) f).z 0) = true then
        (if Cmp.ltb (Pt3.dot (⟨0, 0, 1⟩ : Pt3 ℝ) f) 0 = true then Mt4.rotXMatrix (lit 180) else Mt4.identity) else _) = _
    rw [hcross, hdot]
    simp only [Mt4.rotXMatrix, dcos, dsin, e180, cos_real, sin_real, Real.cos_pi, Real.sin_pi, ltb_real]
    simp [Cmp.eqb]
  rcases lt_or_gt_of_ne hd with hneg | hpos
  · have hq : (center.z - eye.z) / |center.z - eye.z| = -1 := by
      rw [abs_of_neg hneg]; field_simp
    rw [hm, hf, hq, if_pos (by norm_num)]
    refine ⟨?_, ?_⟩
    · simp [cols, Spec.IsProperRotation, Mt4.rotXCS, Mt4.transposed, Pt4.asPt3, Pt3.dot, Pt3.cross]
    · ext <;> simp [Mt4.mulPt3, Mt4.rotXCS, Mt4.transposed, Pt3.dot, Pt4.asPt3]
  · have hq : (center.z - eye.z) / |center.z - eye.z| = 1 := by
      rw [abs_of_pos hpos]; field_simp
    rw [hm, hf, hq, if_neg (by norm_num)]
    refine ⟨?_, ?_⟩
    · simp [cols, Spec.IsProperRotation, Mt4.identity, Pt4.asPt3, Pt3.dot, Pt3.cross]
    · ext <;> simp [Mt4.mulPt3, Mt4.identity, Mt4.transposed, Pt3.dot, Pt4.asPt3]

/-- non-vacuity: eye = 0, center = e_x, up = e_z satisfies the hypotheses of `lookAt_rotation` -/
example : Pt3.sub (⟨1, 0, 0⟩ : Pt3 ℝ) ⟨0, 0, 0⟩ ≠ ⟨0, 0, 0⟩ := by
  intro h; have := congrArg Pt3.x h; simp [Pt3.sub] at this

end Real
end ScadVerif.C10
