/-
The headline theorem of C03 restated about the *transcribed source* (`Src.*`, regenerated from /repo on
every run) instead of the hand-written model: the model's theorem composed with the tie theorems of
`Tie/*.lean`.  If the source changes, `Gen/Src*.lean` changes and a tie or this theorem stops checking.
-/
import ScadVerif.Props.C03
import ScadVerif.Tie.Tri
import ScadVerif.Tie.TriLoop
namespace ScadVerif.SrcC03
open ScadVerif ScadVerif.Spec ScadVerif.TriLemmas

/-! ### C03: the transcribed `triangulate2d` on strictly convex polygons returns n − 2 triangles -/
theorem triangulate2d_convex (ccw : Bool) (vs : List (Pt2 ℝ)) (hn : 3 < vs.length) (hc : ConvexPos ccw vs) :
    (∃ out, Src.triangulate.triangulate2d vs = some out ∧ out.length = 3 * (vs.length - 2)) ∧
    (∃ out, Src.triangulate.triangulate2d_rev vs = some out ∧ out.length = 3 * (vs.length - 2)) := by
  rw [TieTri.triangulate2d, TieTri.triangulate2d_rev]
  exact C03.convex_complete ccw vs hn hc

/-- the transcribed private loop never returns more than n − 2 triangles -/
theorem triangulate_loop_length_le (poly : Tri.Poly ℝ) (h : 2 ≤ poly.length) :
    ∃ out, Src.triangulate.triangulate poly = some out ∧ out.length ≤ 3 * (poly.length - 2) := by
  refine ⟨Tri.triangulate poly, ?_, C03.triangulate_length_le poly h⟩
  rw [TieTriLoop.triangulate poly h, TieTri.checked_of_length poly h]

end ScadVerif.SrcC03
