/-
The headline theorem of C19 restated about the *transcribed source* (`Src.*`, regenerated from /repo on
every run) instead of the hand-written model: the model's theorem composed with the tie theorems of
`Tie/*.lean`.  If the source changes, `Gen/Src*.lean` changes and a tie or this theorem stops checking.
-/
import ScadVerif.Props.C19
import ScadVerif.Tie.Rng
namespace ScadVerif.SrcC19
open ScadVerif ScadVerif.Spec

/-! ### C19: the transcribed generator produces the reference MT19937 stream -/
/-- `count` raw outputs drawn with the transcribed `next` -/
def srcOutputs : Nat → Rng.MT → List UInt32
  | 0, _ => []
  | n + 1, mt => (Src.MersenneTwister.next mt).1 :: srcOutputs n (Src.MersenneTwister.next mt).2

theorem srcOutputs_eq : ∀ (n : Nat) (mt : Rng.MT), srcOutputs n mt = Rng.outputs n mt
  | 0, _ => rfl
  | n + 1, mt => by
    rw [srcOutputs, TieRng.next, srcOutputs_eq n]
    rfl

theorem src_stream_eq_reference (seed : UInt32) (count : Nat) :
    srcOutputs count (Src.MersenneTwister.with_seed seed) = (List.range count).map (Spec.MT.output seed) := by
  rw [srcOutputs_eq, TieRng.with_seed]
  exact C19.stream_eq_reference seed count

end ScadVerif.SrcC19
