/-
A chain theorem of C08 restated about the *transcribed source* (`Tie/Chain.lean`).
-/
import ScadVerif.Props.C08
import ScadVerif.Tie.Chain
namespace ScadVerif.SrcC08
open ScadVerif ScadVerif.Dim2

/-- the transcribed `CubicBezierChain2D::gen_points` returns one point per segment plus one for an open
chain and exactly one per segment for a closed chain -/
theorem gen_points_length (ch : Chain ℝ) :
    (Src.CubicBezierChain2D.gen_points ch).length =
      if ch.closed then C08.segSum ch.curves else C08.segSum ch.curves + 1 := by
  rw [TieChain.chain_gen_points2]
  exact C08.genPoints_length ch

end ScadVerif.SrcC08
