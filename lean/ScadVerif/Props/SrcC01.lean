/-
The headline theorem of C01 restated about the *transcribed source* (`Src.*`, regenerated from /repo on
every run) instead of the hand-written model: the model's theorem composed with the tie theorems of
`Tie/*.lean`.  If the source changes, `Gen/Src*.lean` changes and a tie or this theorem stops checking.
-/
import ScadVerif.Props.C01
import ScadVerif.Tie.Emit
namespace ScadVerif.SrcC01
open ScadVerif ScadVerif.Spec ScadVerif.ParserLemmas

/-! ### C01: what `impl Display for Scad` writes parses as one statement with the tree's shape -/
section
variable {ν : Type} [OfNat ν 0] (showNum : ν → List Char) (hnum : ∀ x, IsNumeral (showNum x) = true)
include hnum

theorem fmt_parses (t : Scad ν) (hwf : C01.WellFormed showNum t) (hp : TieEmit.allPlain t) :
    parseProgram (Src.Scad.fmt showNum t) = some [toStmt showNum t] := by
  rw [TieEmit.emit_eq showNum t hp]
  exact C01.emit_parses showNum hnum t hwf
end

end ScadVerif.SrcC01
