/-
Theorems of C07 restated about the *transcribed source* (`Tie/Geom.lean`, all `rfl`).
-/
import ScadVerif.Props.C07
import ScadVerif.Tie.Geom
namespace ScadVerif.SrcC07
open ScadVerif ScadVerif.TriLemmas

/-- the corners the transcribed `circle` returns are in strictly convex position, clockwise -/
theorem circle_convex (r : ℝ) (hr : 0 < r) (n : Nat) (pts : List (Pt2 ℝ)) (h : Src.dim2.circle r n = some pts) :
    ConvexPos false pts := by
  rw [TieGeom.circle] at h
  exact C07.circle_convex r hr n pts h

/-- the transcribed `arc` returns `segments + 1` points, `segments` for a full turn -/
theorem arc_length (start : Pt2 ℝ) (degrees : ℝ) (n : Nat) (pts : List (Pt2 ℝ))
    (h : Src.dim2.arc start degrees n = some pts) : pts.length = if degrees = 360 then n else n + 1 := by
  rw [TieGeom.arc] at h
  exact C07.arc_length start degrees n pts h

end ScadVerif.SrcC07
