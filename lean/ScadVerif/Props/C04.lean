/-
C04 — see DESIGN.md §5.
-/
import ScadVerif.Lemmas.PtReal
import ScadVerif.Model.Dim3
import ScadVerif.Spec.Mesh
namespace ScadVerif.C04
open ScadVerif ScadVerif.Dim3

/-- the quad strip between two rings has one quad per profile edge -/
theorem strip_length (n lo hi : Nat) : (strip n lo hi).length = n := by simp [strip]

end ScadVerif.C04
