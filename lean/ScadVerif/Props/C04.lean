/-
C04 — built polyhedra are closed, consistently oriented, outward.

The theorems are about Model/Dim3.lean over ℝ (the correspondence run compares every face of every
generated mesh with the crate's).  Proved for every profile and every n:

* `linear_extrude` / `loft` / `cylinder`: the face list is bottom cap, top cap, quad strip; every
  face index refers to an existing point; every face has three or four vertices;
* the directed edges of a quad strip are its lower ring forwards, its upper ring backwards and every
  vertical edge once in each direction (`strip_edges`, for all n);
* **gluing** (`linearExtrude_closed`): if the two caps tile their rings — the C03 certificate: ring
  edges once, in the stated direction, every other edge in both directions — then in the whole
  mesh every directed edge is matched by its reverse.

PARTIAL: that the caps tile their rings is C03's partial part (two-ears); `each directed edge occurs
in exactly one face` (no duplicates), the revolve/sweep/thread face lists, and the sign of the
volume are decided by the Lean oracle (`closedOriented`, `signedVolumeCW`) on every generated mesh.
-/
import ScadVerif.Props.C03
import ScadVerif.Props.C05
import ScadVerif.Props.C07
import ScadVerif.Lemmas.MeshLemmas
import ScadVerif.Lemmas.ThreadClosed
import ScadVerif.Lemmas.FanClosed
namespace ScadVerif.C04
open ScadVerif ScadVerif.Dim3 ScadVerif.Dim3.Polyhedron ScadVerif.Spec ScadVerif.MeshLemmas ScadVerif.TriLemmas

/-- the quad strip between two rings has one quad per profile edge -/
theorem strip_length (n lo hi : Nat) : (strip n lo hi).length = n := by simp [strip]

/-- directed edges of a quad strip, for every n -/
theorem strip_edges (n lo hi : Nat) :
    (allEdges (strip n lo hi)).Perm
      (ringF n lo ++ ups n lo hi ++ (ringF n hi).map Prod.swap ++ (ups n lo hi).map Prod.swap) :=
  MeshLemmas.strip_edges n lo hi

/-- the faces of a linear extrusion: bottom cap (reversed outline), top cap, side quads -/
theorem linearExtrude_faces (profile : List (Pt2 ℝ)) (height : ℝ) (p : Polyhedron ℝ)
    (h : linearExtrude profile height = some p) :
    ∃ bottom top, Tri.triangulate2dRev profile = some bottom ∧ Tri.triangulate2d profile = some top ∧
      p.faces = triFaces 0 bottom ++ triFaces profile.length top ++ strip profile.length 0 1 ∧
      p.points.length = 2 * profile.length := by
  unfold linearExtrude at h
  simp only [Option.bind_eq_bind, Option.pure_def] at h
  obtain ⟨b, hb, h⟩ := C05.bind_some h
  obtain ⟨t, ht, h⟩ := C05.bind_some h
  injection h with h; subst h
  exact ⟨b, t, hb, ht, rfl, by simp; omega⟩

theorem loft_faces (lower upper : List (Pt2 ℝ)) (height : ℝ) (p : Polyhedron ℝ)
    (h : loft lower upper height = some p) :
    lower.length = upper.length ∧
    ∃ bottom top, Tri.triangulate2dRev lower = some bottom ∧ Tri.triangulate2d upper = some top ∧
      p.faces = triFaces 0 bottom ++ triFaces lower.length top ++ strip lower.length 0 1 ∧
      p.points.length = 2 * lower.length := by
  unfold loft at h
  by_cases hl : lower.length = upper.length
  · simp only [hl, ne_eq, not_true_eq_false, if_false, Option.bind_eq_bind, Option.pure_def] at h
    obtain ⟨b, hb, h⟩ := C05.bind_some h
    obtain ⟨t, ht, h⟩ := C05.bind_some h
    injection h with h; subst h
    exact ⟨hl, b, t, hb, ht, by rw [hl], by simp; omega⟩
  · simp [hl] at h

/-- shared by both: a capped strip over two rings of `n` points has only valid indices and only
triangles and quads -/
theorem capped_valid (n : Nat) (bottom top : List Nat) (hb : ∀ i ∈ bottom, i < n) (ht : ∀ i ∈ top, i < n) :
    ∀ f ∈ triFaces 0 bottom ++ triFaces n top ++ strip n 0 1,
      (∀ v ∈ f, v < 2 * n) ∧ (f.length = 3 ∨ f.length = 4) := by
  intro f hf
  simp only [List.mem_append] at hf
  rcases hf with (hf | hf) | hf
  · exact ⟨fun v hv => by have := triFaces_indices 0 n bottom hb f hf v hv; omega,
      Or.inl (triFaces_tri 0 bottom f hf)⟩
  · exact ⟨fun v hv => by have := triFaces_indices n n top ht f hf v hv; omega,
      Or.inl (triFaces_tri n top f hf)⟩
  · exact ⟨fun v hv => by have := strip_indices n 0 1 f hf v hv; simpa using this,
      Or.inr (strip_quads n 0 1 f hf)⟩

/-- **C04, indices and face sizes.** Every face index of a linear extrusion refers to an existing
point and every face is a triangle or a quad. -/
theorem linearExtrude_valid (profile : List (Pt2 ℝ)) (height : ℝ) (p : Polyhedron ℝ)
    (h : linearExtrude profile height = some p) :
    ∀ f ∈ p.faces, (∀ v ∈ f, v < p.points.length) ∧ (f.length = 3 ∨ f.length = 4) := by
  obtain ⟨b, t, hb, ht, hf, hp⟩ := linearExtrude_faces profile height p h
  have sb := (C03.triangulate2d_spec profile).2.2 b hb
  have st := (C03.triangulate2d_spec profile).2.1 t ht
  rw [hf, hp]
  exact capped_valid profile.length b t sb.1 st.1

theorem loft_valid (lower upper : List (Pt2 ℝ)) (height : ℝ) (p : Polyhedron ℝ)
    (h : loft lower upper height = some p) :
    ∀ f ∈ p.faces, (∀ v ∈ f, v < p.points.length) ∧ (f.length = 3 ∨ f.length = 4) := by
  obtain ⟨hl, b, t, hb, ht, hf, hp⟩ := loft_faces lower upper height p h
  have sb := (C03.triangulate2d_spec lower).2.2 b hb
  have st := (C03.triangulate2d_spec upper).2.1 t ht
  rw [hf, hp]
  exact capped_valid lower.length b t sb.1 (fun i hi => by rw [hl]; exact st.1 i hi)

theorem cylinder_valid (r height : ℝ) (seg : Nat) (p : Polyhedron ℝ) (h : cylinder r height seg = some p) :
    ∀ f ∈ p.faces, (∀ v ∈ f, v < p.points.length) ∧ (f.length = 3 ∨ f.length = 4) := by
  unfold cylinder at h
  simp only [Option.bind_eq_bind] at h
  obtain ⟨c, _, h⟩ := C05.bind_some h
  exact linearExtrude_valid c height p h

/-- the C03 certificate for a cap: the ring's edges once each, in the stated direction, every other
edge of the cap in both directions -/
def CapTiles (n r : Nat) (forward : Bool) (cap : List (List Nat)) : Prop :=
  ∃ d : List MeshLemmas.Edge, (allEdges cap).Perm
    ((if forward then ringF n r else (ringF n r).map Prod.swap) ++ d ++ d.map Prod.swap)

theorem allEdges_append (a b : List (List Nat)) : allEdges (a ++ b) = allEdges a ++ allEdges b := by
  simp [allEdges]

/-- **C04, gluing.** When both caps tile their rings, every directed edge of a linear extrusion is
matched by its reverse: the surface is closed and consistently oriented (as edge multisets). -/
theorem linearExtrude_closed (profile : List (Pt2 ℝ)) (height : ℝ) (p : Polyhedron ℝ)
    (h : linearExtrude profile height = some p)
    (hcaps : ∀ bottom top, Tri.triangulate2dRev profile = some bottom → Tri.triangulate2d profile = some top →
      CapTiles profile.length 0 false (triFaces 0 bottom) ∧
      CapTiles profile.length 1 true (triFaces profile.length top)) :
    EdgeClosed (allEdges p.faces) := by
  obtain ⟨b, t, hb, ht, hf, _⟩ := linearExtrude_faces profile height p h
  obtain ⟨⟨d1, h1⟩, ⟨d2, h2⟩⟩ := hcaps b t hb ht
  rw [hf, allEdges_append, allEdges_append]
  exact capped_strip_closed profile.length 0 1 _ _ d1 d2 (by simpa using h1) (by simpa using h2)

theorem loft_closed (lower upper : List (Pt2 ℝ)) (height : ℝ) (p : Polyhedron ℝ)
    (h : loft lower upper height = some p)
    (hcaps : ∀ bottom top, Tri.triangulate2dRev lower = some bottom → Tri.triangulate2d upper = some top →
      CapTiles lower.length 0 false (triFaces 0 bottom) ∧
      CapTiles lower.length 1 true (triFaces lower.length top)) :
    EdgeClosed (allEdges p.faces) := by
  obtain ⟨_, b, t, hb, ht, hf, _⟩ := loft_faces lower upper height p h
  obtain ⟨⟨d1, h1⟩, ⟨d2, h2⟩⟩ := hcaps b t hb ht
  rw [hf, allEdges_append, allEdges_append]
  exact capped_strip_closed lower.length 0 1 _ _ d1 d2 (by simpa using h1) (by simpa using h2)

/-- the face list of a revolve -/
theorem rotateExtrude_faces (profile2 : List (Pt2 ℝ)) (degrees : ℝ) (segments : Nat) (p : Polyhedron ℝ)
    (h : rotateExtrude profile2 degrees segments = some p) :
    let n := profile2.length
    let body := (List.range (segments - 1)).flatMap fun j => stripRev n j (j + 1)
    (degrees = 360 ∧ p.faces = body ++ (List.range n).map fun i =>
        [(segments - 1) * n + i, i, (i + 1) % n, (segments - 1) * n + (i + 1) % n]) ∨
    (degrees ≠ 360 ∧ ∃ sc ec,
      Tri.triangulate3d (profile2.map fun q => (⟨q.x, 0, q.y⟩ : Pt3 ℝ)) ⟨0, -1, 0⟩ = some sc ∧
      Tri.triangulate3dRev (profile2.map fun q => (⟨q.x, 0, q.y⟩ : Pt3 ℝ)) ⟨0, -1, 0⟩ = some ec ∧
      p.faces = triFaces 0 sc ++ body ++ stripRev n (segments - 1) segments ++ triFaces (segments * n) ec) := by
  intro n body
  unfold rotateExtrude at h
  by_cases hr : (0 ≤ degrees ∧ degrees ≤ 360)
  · by_cases hs : segments < 3
    · simp [hr, hs] at h
    · by_cases hd : degrees = 360
      · have e : Cmp.eqb (360 : ℝ) 360 = true := (eqb_real _ _).mpr rfl
        subst hd
        simp [hs, e] at h
        subst h
        left
        exact ⟨rfl, by simp [body, n]⟩
      · have e : Cmp.eqb degrees (360 : ℝ) = false := by
          rw [Bool.eq_false_iff]; intro hc; exact hd ((eqb_real _ _).mp hc)
        simp [hr, hs, e] at h
        obtain ⟨sc, hsc, h⟩ := C05.bind_some h
        obtain ⟨ec, hec, h⟩ := C05.bind_some h
        injection h with h; subst h
        right
        refine ⟨hd, ?_⟩
        cases hsc' : Tri.triangulate3d (profile2.map fun q => (⟨q.x, 0, q.y⟩ : Pt3 ℝ)) ⟨0, -1, 0⟩ with
        | none => simp [hsc'] at hsc
        | some sc0 =>
          simp [hsc'] at hsc
          subst hsc
          exact ⟨sc0, ec, rfl, hec, by simp [body, n]⟩
  · have hc : (decide (0 ≤ degrees) && decide (degrees ≤ 360)) = false := by
      rw [Bool.eq_false_iff]; intro hc; simp at hc; exact hr hc
    simp [hc] at h
    exact absurd h.1 hr

/-- the face list of a sweep -/
theorem sweep_faces (profile2 : List (Pt2 ℝ)) (path : List (Pt3 ℝ)) (twist : ℝ) (closed : Bool) (p : Polyhedron ℝ)
    (h : sweep profile2 path twist closed = some p) :
    let n := profile2.length
    let len := path.length
    let body := ((List.range (len - 2)).flatMap fun j => strip n j (j + 1)) ++ strip n (len - 2) (len - 1)
    2 ≤ len ∧
    ((closed = true ∧ p.faces = body ++ (List.range n).map fun i =>
        [(len - 1) * n + i, (len - 1) * n + (i + 1) % n, (i + 1) % n, i]) ∨
     (closed = false ∧ ∃ sc ec : List Nat, p.faces = triFaces 0 sc ++ body ++ triFaces ((len - 1) * n) ec)) := by
  intro n len body
  unfold sweep at h
  simp only [] at h
  by_cases hl : path.length < 2
  · simp [hl] at h
  · refine ⟨by omega, ?_⟩
    cases closed with
    | true =>
      simp [hl] at h
      subst h
      left
      exact ⟨rfl, by simp [body, n, len]⟩
    | false =>
      simp [hl] at h
      obtain ⟨sc, hsc, h⟩ := C05.bind_some h
      obtain ⟨ec, _, h⟩ := C05.bind_some h
      injection h with h; subst h
      right
      refine ⟨rfl, ?_⟩
      obtain ⟨sc0, _, rfl⟩ := Option.map_eq_some_iff.mp hsc
      exact ⟨sc0, ec, by simp [body, n, len]⟩


/-- **C04, full revolve.** A 360° `rotate_extrude` is closed and consistently oriented at the level
of edge multisets — every directed edge is matched by its reverse — for every profile and every
segment count, unconditionally (it has no caps). -/
theorem rotateExtrude_full_closed (profile2 : List (Pt2 ℝ)) (segments : Nat) (p : Polyhedron ℝ)
    (h : rotateExtrude profile2 360 segments = some p) : EdgeClosed (allEdges p.faces) := by
  rcases rotateExtrude_faces profile2 360 segments p h with ⟨_, hf⟩ | ⟨hne, _⟩
  · rw [hf]; exact fullRevolve_closed profile2.length segments
  · exact absurd rfl hne

/-- **C04, partial revolve.** With caps that tile their rings the surface is closed. -/
theorem rotateExtrude_partial_closed (profile2 : List (Pt2 ℝ)) (degrees : ℝ) (segments : Nat) (p : Polyhedron ℝ)
    (h : rotateExtrude profile2 degrees segments = some p) (hd : degrees ≠ 360) (hs : 1 ≤ segments)
    (hcaps : ∀ sc ec,
      Tri.triangulate3d (profile2.map fun q => (⟨q.x, 0, q.y⟩ : Pt3 ℝ)) ⟨0, -1, 0⟩ = some sc →
      Tri.triangulate3dRev (profile2.map fun q => (⟨q.x, 0, q.y⟩ : Pt3 ℝ)) ⟨0, -1, 0⟩ = some ec →
      CapTiles profile2.length 0 true (triFaces 0 sc) ∧
      CapTiles profile2.length segments false (triFaces (segments * profile2.length) ec)) :
    EdgeClosed (allEdges p.faces) := by
  rcases rotateExtrude_faces profile2 degrees segments p h with ⟨he, _⟩ | ⟨_, sc, ec, h1, h2, hf⟩
  · exact absurd he hd
  · obtain ⟨⟨d1, c1⟩, ⟨d2, c2⟩⟩ := hcaps sc ec h1 h2
    have hb : ((List.range (segments - 1)).flatMap fun j => stripRev profile2.length j (j + 1)) ++
        stripRev profile2.length (segments - 1) segments = revolveBody profile2.length segments := by
      have : segments = (segments - 1) + 1 := by omega
      conv_rhs => rw [this, revolveBody_succ]
      rw [← this]; rfl
    rw [hf, List.append_assoc (triFaces 0 sc), hb, allEdges_append, allEdges_append]
    exact partialRevolve_closed profile2.length segments _ _ d1 d2 (by simpa using c1) (by simpa using c2)

/-- **C04, closed sweep.** A sweep along a closed path is closed — for every profile, path and
twist, unconditionally. -/
theorem sweep_closed_closed (profile2 : List (Pt2 ℝ)) (path : List (Pt3 ℝ)) (twist : ℝ) (p : Polyhedron ℝ)
    (h : sweep profile2 path twist true = some p) : EdgeClosed (allEdges p.faces) := by
  obtain ⟨hl, ⟨_, hf⟩ | ⟨hc, _⟩⟩ := sweep_faces profile2 path twist true p h
  · have hb : ((List.range (path.length - 2)).flatMap fun j => strip profile2.length j (j + 1)) ++
        strip profile2.length (path.length - 2) (path.length - 1) = sweepBody profile2.length (path.length - 1) := by
      have : path.length - 1 = (path.length - 2) + 1 := by omega
      rw [this, sweepBody_succ]; rfl
    rw [hf, hb]
    exact closedSweep_closed profile2.length path.length
  · simp at hc

/-- no directed edge occurs twice in a quad strip between two different rings -/
theorem strip_edges_nodup (n lo hi : Nat) (h : lo ≠ hi) : (allEdges (strip n lo hi)).Nodup :=
  MeshLemmas.strip_edges_nodup n lo hi h

/-- **C04, no certificate needed.** A linear extrusion whose two cap triangulations are complete
(n-2 triangles each — which the loop reports by its output length) is closed: every directed edge is
matched by its reverse.  The edge half of the tiling certificate is a theorem about every complete
run (`complete_run_boundary`), so only completeness is assumed. -/
theorem linearExtrude_closed_of_complete (profile : List (Pt2 ℝ)) (height : ℝ) (p : Polyhedron ℝ)
    (h : linearExtrude profile height = some p)
    (hcomplete : ∀ bottom top, Tri.triangulate2dRev profile = some bottom → Tri.triangulate2d profile = some top →
      bottom.length = 3 * (profile.length - 2) ∧ top.length = 3 * (profile.length - 2)) :
    EdgeClosed (allEdges p.faces) := by
  obtain ⟨b, t, hb, ht, hf, _⟩ := linearExtrude_faces profile height p h
  obtain ⟨cb, ct⟩ := hcomplete b t hb ht
  have hn : 3 < profile.length := by
    unfold Tri.triangulate2d at ht; split at ht
    · assumption
    · simp at ht
  have eb : b = Tri.triangulate (Tri.indexed profile).reverse := by
    unfold Tri.triangulate2dRev at hb; rw [if_pos hn] at hb; injection hb with hb; exact hb.symm
  have et : t = Tri.triangulate (Tri.indexed profile) := by
    unfold Tri.triangulate2d at ht; rw [if_pos hn] at ht; injection ht with ht; exact ht.symm
  subst eb; subst et
  rw [hf, allEdges_append, allEdges_append]
  apply capped_strip_closed' profile.length 0 1
  · exact cap_backward profile (by omega) cb
  · have := cap_forward profile profile.length (by omega) ct
    rwa [ringF_shift] at this

/-- the same for `loft` -/
theorem loft_closed_of_complete (lower upper : List (Pt2 ℝ)) (height : ℝ) (p : Polyhedron ℝ)
    (h : loft lower upper height = some p)
    (hcomplete : ∀ bottom top, Tri.triangulate2dRev lower = some bottom → Tri.triangulate2d upper = some top →
      bottom.length = 3 * (lower.length - 2) ∧ top.length = 3 * (lower.length - 2)) :
    EdgeClosed (allEdges p.faces) := by
  obtain ⟨hl, b, t, hb, ht, hf, _⟩ := loft_faces lower upper height p h
  obtain ⟨cb, ct⟩ := hcomplete b t hb ht
  have hn : 3 < upper.length := by
    unfold Tri.triangulate2d at ht; split at ht
    · assumption
    · simp at ht
  have eb : b = Tri.triangulate (Tri.indexed lower).reverse := by
    unfold Tri.triangulate2dRev at hb; rw [if_pos (by omega)] at hb; injection hb with hb; exact hb.symm
  have et : t = Tri.triangulate (Tri.indexed upper) := by
    unfold Tri.triangulate2d at ht; rw [if_pos hn] at ht; injection ht with ht; exact ht.symm
  subst eb; subst et
  rw [hf, allEdges_append, allEdges_append]
  apply capped_strip_closed' lower.length 0 1
  · exact cap_backward lower (by omega) cb
  · have := cap_forward upper lower.length (by omega) (by rw [← hl]; exact ct)
    rw [← hl] at this
    rwa [ringF_shift] at this

/-- **C04, cylinders — unconditional.** Every cylinder the library builds (viewer edges, thread cores,
`cylinder` itself) is a closed, consistently oriented surface at the level of edge multisets, for
every radius > 0, height and segment count: the circle is strictly convex (C07 `circle_convex`), the
ear-clipping loop completes on convex polygons (C03 `convex_complete`), complete caps have their ring
as boundary (`complete_edges`), and caps glue to the strip. -/
theorem cylinder_closed (r height : ℝ) (hr : 0 < r) (seg : Nat) (p : Polyhedron ℝ)
    (h : cylinder r height seg = some p) : EdgeClosed (allEdges p.faces) := by
  unfold cylinder at h
  simp only [Option.bind_eq_bind] at h
  obtain ⟨c, hc, h⟩ := C05.bind_some h
  have hconv := C07.circle_convex r hr seg c hc
  apply linearExtrude_closed_of_complete c height p h
  intro bottom top hb ht
  have hn : 3 < c.length := by
    unfold Tri.triangulate2d at ht; split at ht
    · assumption
    · simp at ht
  obtain ⟨⟨t', ht', hlt⟩, ⟨b', hb', hlb⟩⟩ := C03.convex_complete false c hn hconv
  rw [ht] at ht'; rw [hb] at hb'
  injection ht' with ht'; injection hb' with hb'
  subst ht'; subst hb'
  exact ⟨hlb, hlt⟩

/-! ### revolve and sweep: closed whenever their cap runs are complete -/
theorem ringF_shift_mul (n r k : Nat) : (ringF n r).map (shift (k * n)) = ringF n (r + k) := by
  simp only [ringF, List.map_map]
  apply List.map_congr_left
  intro i _
  simp only [Function.comp, shift, Nat.add_mul]
  apply Prod.ext <;> (simp only []; omega)

theorem tri3d_eq (vs : List (Pt3 ℝ)) (nml : Pt3 ℝ) (out : List Nat) (h : Tri.triangulate3d vs nml = some out) :
    3 < vs.length ∧ out = Tri.triangulate (Tri.indexed (vs.map (Tri.project (Tri.classify nml)))) := by
  unfold Tri.triangulate3d at h
  split at h
  · rename_i hn
    refine ⟨hn, ?_⟩
    cases hcl : Tri.classify nml <;> simp [hcl] at h ⊢ <;> exact h.symm
  · simp at h
theorem tri3dRev_eq (vs : List (Pt3 ℝ)) (nml : Pt3 ℝ) (out : List Nat) (h : Tri.triangulate3dRev vs nml = some out) :
    3 < vs.length ∧ out = Tri.triangulate (Tri.indexed (vs.map (Tri.project (Tri.classify nml)))).reverse := by
  unfold Tri.triangulate3dRev at h
  split at h
  · rename_i hn
    refine ⟨hn, ?_⟩
    cases hcl : Tri.classify nml <;> simp [hcl] at h ⊢ <;> exact h.symm
  · simp at h

theorem allEdges_triFaces_shift (off : Nat) : ∀ l : List Nat,
    (allEdges (triFaces 0 l)).map (shift off) = allEdges (triFaces off l)
  | [] => by simp [triFaces, allEdges]
  | [_] => by simp [triFaces, allEdges]
  | [_, _] => by simp [triFaces, allEdges]
  | a :: b :: c :: rest => by
    have ih := allEdges_triFaces_shift off rest
    simp only [triFaces, allEdges, List.flatMap_cons, faceEdges_tri, List.map_append, List.map_cons,
      List.map_nil, shift, Nat.add_zero] at ih ⊢
    rw [ih]

/-- a complete 3D cap run (forward list) offset by `off` has the shifted ring 0 as boundary -/
theorem cap3d_forward (vs : List (Pt3 ℝ)) (nml : Pt3 ℝ) (out : List Nat) (off : Nat)
    (h : Tri.triangulate3d vs nml = some out) (hc : out.length = 3 * (vs.length - 2)) :
    EdgeClosed (allEdges (triFaces off out) ++ ((ringF vs.length 0).map (shift off)).map Prod.swap) := by
  obtain ⟨hn, rfl⟩ := tri3d_eq vs nml out h
  have := cap_forward (vs.map (Tri.project (Tri.classify nml))) off (by simp; omega) (by simpa using hc)
  simpa using this

/-- a complete 3D cap run on the reversed list has the shifted ring 0 *backwards* as boundary -/
theorem cap3d_backward (vs : List (Pt3 ℝ)) (nml : Pt3 ℝ) (out : List Nat) (off : Nat)
    (h : Tri.triangulate3dRev vs nml = some out) (hc : out.length = 3 * (vs.length - 2)) :
    EdgeClosed (allEdges (triFaces off out) ++ (ringF vs.length 0).map (shift off)) := by
  obtain ⟨hn, rfl⟩ := tri3dRev_eq vs nml out h
  have h0 := cap_backward (vs.map (Tri.project (Tri.classify nml))) (by simp; omega) (by simpa using hc)
  simp only [List.length_map] at h0
  have hs := edgeClosed_shift off _ h0
  rw [List.map_append, allEdges_triFaces_shift] at hs
  exact hs


theorem partialRevolve_closed' (n k : Nat) (capStart capEnd : List MeshLemmas.Edge)
    (hS : EdgeClosed (capStart ++ (ringF n 0).map Prod.swap)) (hE : EdgeClosed (capEnd ++ ringF n k)) :
    EdgeClosed (capStart ++ allEdges (revolveBody n k) ++ capEnd) := by
  have hb := revolveBody_closed n k
  unfold EdgeClosed at hb hS hE ⊢
  rw [List.perm_iff_count] at hb hS hE ⊢
  intro x
  have h1 := hb x
  have s1 := hS x
  have e1 := hE x
  simp only [List.map_append, List.count_append, MeshLemmas.count_map_swap, Prod.swap_swap] at h1 s1 e1 ⊢
  omega

theorem openSweep_closed' (n k : Nat) (capStart capEnd : List MeshLemmas.Edge)
    (hS : EdgeClosed (capStart ++ ringF n 0)) (hE : EdgeClosed (capEnd ++ (ringF n k).map Prod.swap)) :
    EdgeClosed (capStart ++ allEdges (sweepBody n k) ++ capEnd) := by
  have hb := sweepBody_closed n k
  unfold EdgeClosed at hb hS hE ⊢
  rw [List.perm_iff_count] at hb hS hE ⊢
  intro x
  have h1 := hb x
  have s1 := hS x
  have e1 := hE x
  simp only [List.map_append, List.count_append, MeshLemmas.count_map_swap, Prod.swap_swap] at h1 s1 e1 ⊢
  omega

/-- **C04, partial revolve — no certificate needed.** A `rotate_extrude` by less than 360° whose two
cap triangulations are complete is closed. -/
theorem rotateExtrude_closed_of_complete (profile2 : List (Pt2 ℝ)) (degrees : ℝ) (segments : Nat)
    (p : Polyhedron ℝ) (h : rotateExtrude profile2 degrees segments = some p) (hd : degrees ≠ 360)
    (hcomplete : ∀ sc ec,
      Tri.triangulate3d (profile2.map fun q => (⟨q.x, 0, q.y⟩ : Pt3 ℝ)) ⟨0, -1, 0⟩ = some sc →
      Tri.triangulate3dRev (profile2.map fun q => (⟨q.x, 0, q.y⟩ : Pt3 ℝ)) ⟨0, -1, 0⟩ = some ec →
      sc.length = 3 * (profile2.length - 2) ∧ ec.length = 3 * (profile2.length - 2)) :
    EdgeClosed (allEdges p.faces) := by
  have hseg : 3 ≤ segments := (C05.rotateExtrude_points profile2 degrees segments p h).1.2.2
  rcases rotateExtrude_faces profile2 degrees segments p h with ⟨he, _⟩ | ⟨_, sc, ec, h1, h2, hf⟩
  · exact absurd he hd
  · obtain ⟨c1, c2⟩ := hcomplete sc ec h1 h2
    have hb : ((List.range (segments - 1)).flatMap fun j => stripRev profile2.length j (j + 1)) ++
        stripRev profile2.length (segments - 1) segments = revolveBody profile2.length segments := by
      have : segments = (segments - 1) + 1 := by omega
      conv_rhs => rw [this, revolveBody_succ]
      rw [← this]; rfl
    rw [hf, List.append_assoc (triFaces 0 sc), hb, allEdges_append, allEdges_append]
    apply partialRevolve_closed'
    · have := cap3d_forward _ _ sc 0 h1 (by simpa using c1)
      have hs : ∀ l : List MeshLemmas.Edge, l.map (shift 0) = l := by
        intro l
        conv_rhs => rw [← List.map_id l]
        apply List.map_congr_left
        intro e _; cases e; simp [shift]
      simpa [hs] using this
    · have := cap3d_backward _ _ ec (segments * profile2.length) h2 (by simpa using c2)
      simp only [List.length_map] at this
      rwa [ringF_shift_mul, Nat.zero_add] at this


theorem flatMap_length_const {β γ : Type} (l : List β) (f : β → List γ) (k : Nat) (h : ∀ x ∈ l, (f x).length = k) :
    (l.flatMap f).length = l.length * k := by
  induction l with
  | nil => simp
  | cons a t ih =>
    rw [List.flatMap_cons, List.length_append, h a (by simp), ih (fun x hx => h x (by simp [hx]))]
    simp [Nat.succ_mul]; omega

/-- the parts of an open sweep: first ring, middle rings, last ring, and the two cap triangulations -/
theorem sweep_open_parts (profile2 : List (Pt2 ℝ)) (path : List (Pt3 ℝ)) (twist : ℝ) (p : Polyhedron ℝ)
    (h : sweep profile2 path twist false = some p) :
    2 ≤ path.length ∧ ∃ (first mid last : List (Pt3 ℝ)) (d0 dL : Pt3 ℝ) (sc ec : List Nat),
      first.length = profile2.length ∧ mid.length = (path.length - 2) * profile2.length ∧
      last.length = profile2.length ∧
      Tri.triangulate3dRev first d0 = some sc ∧ Tri.triangulate3d last dL = some ec ∧
      p.points = first ++ mid ++ last ∧
      p.faces = triFaces 0 sc ++ sweepBody profile2.length (path.length - 1) ++
        triFaces ((path.length - 1) * profile2.length) ec := by
  unfold sweep at h
  simp only [] at h
  by_cases hl : path.length < 2
  · simp [hl] at h
  · refine ⟨by omega, ?_⟩
    simp only [hl, if_false, Bool.false_eq_true, Option.bind_eq_bind, Option.pure_def] at h
    obtain ⟨scF, hsc, h⟩ := C05.bind_some h
    obtain ⟨ec, hec, h⟩ := C05.bind_some h
    injection h with h; subst h
    obtain ⟨sc0, hsc0, rfl⟩ := Option.map_eq_some_iff.mp hsc
    refine ⟨_, _, _, _, _, sc0, ec, ?_, ?_, ?_, hsc0, hec, rfl, ?_⟩
    · simp [sweepRing]
    · rw [flatMap_length_const _ _ profile2.length (fun x _ => by simp [sweepRing])]
      simp
    · simp [sweepRing]
    · have hb : ((List.range (path.length - 2)).flatMap fun j => strip profile2.length j (j + 1)) ++
          strip profile2.length (path.length - 2) (path.length - 1) = sweepBody profile2.length (path.length - 1) := by
        have : path.length - 1 = (path.length - 2) + 1 := by omega
        rw [this, sweepBody_succ]; rfl
      simp only [List.length_map]
      rw [← hb]
      simp only [List.append_assoc]

/-- **C04, open sweep — no certificate needed.** An open sweep whose two cap triangulations (of its
first and last ring, as they sit in the result's point list) are complete is closed. -/
theorem sweep_open_closed_of_complete (profile2 : List (Pt2 ℝ)) (path : List (Pt3 ℝ)) (twist : ℝ)
    (p : Polyhedron ℝ) (h : sweep profile2 path twist false = some p)
    (hcomplete : ∀ d0 dL sc ec,
      Tri.triangulate3dRev (p.points.take profile2.length) d0 = some sc →
      Tri.triangulate3d (p.points.drop ((path.length - 1) * profile2.length)) dL = some ec →
      sc.length = 3 * (profile2.length - 2) ∧ ec.length = 3 * (profile2.length - 2)) :
    EdgeClosed (allEdges p.faces) := by
  obtain ⟨hl, first, mid, last, d0, dL, sc, ec, h1, h2, h3, hsc, hec, hp, hf⟩ := sweep_open_parts profile2 path twist p h
  have htake : p.points.take profile2.length = first := by
    rw [hp, List.append_assoc, List.take_left' h1]
  have hdrop : p.points.drop ((path.length - 1) * profile2.length) = last := by
    rw [hp]
    have : (first ++ mid).length = (path.length - 1) * profile2.length := by
      rw [List.length_append, h1, h2]
      have : path.length - 1 = (path.length - 2) + 1 := by omega
      rw [this, Nat.succ_mul]; omega
    rw [List.drop_left' this]
  obtain ⟨c1, c2⟩ := hcomplete d0 dL sc ec (by rw [htake]; exact hsc) (by rw [hdrop]; exact hec)
  rw [hf, allEdges_append, allEdges_append]
  have hs0 : ∀ l : List MeshLemmas.Edge, l.map (shift 0) = l := by
    intro l
    conv_rhs => rw [← List.map_id l]
    apply List.map_congr_left
    intro e _; cases e; simp [shift]
  apply openSweep_closed'
  · have := cap3d_backward first d0 sc 0 hsc (by rw [h1]; exact c1)
    rw [h1, hs0] at this; exact this
  · have := cap3d_forward last dL ec ((path.length - 1) * profile2.length) hec (by rw [h3]; exact c2)
    rw [h3, ringF_shift_mul, Nat.zero_add] at this; exact this


theorem stripRev_indices (n lo hi : Nat) : ∀ f ∈ stripRev n lo hi, f.length = 4 ∧ ∀ v ∈ f, v < (max lo hi + 1) * n := by
  intro f hf
  simp only [stripRev, List.mem_map, List.mem_range] at hf
  obtain ⟨i, hi', rfl⟩ := hf
  refine ⟨rfl, ?_⟩
  have hm : (i + 1) % n < n := Nat.mod_lt _ (by omega)
  have h1 : lo * n + n ≤ (max lo hi + 1) * n := by
    have : lo + 1 ≤ max lo hi + 1 := by omega
    calc lo * n + n = (lo + 1) * n := (Nat.succ_mul lo n).symm
      _ ≤ (max lo hi + 1) * n := Nat.mul_le_mul_right _ this
  have h2 : hi * n + n ≤ (max lo hi + 1) * n := by
    have : hi + 1 ≤ max lo hi + 1 := by omega
    calc hi * n + n = (hi + 1) * n := (Nat.succ_mul hi n).symm
      _ ≤ (max lo hi + 1) * n := Nat.mul_le_mul_right _ this
  intro v hv
  simp only [List.mem_cons, List.not_mem_nil, or_false] at hv
  rcases hv with rfl | rfl | rfl | rfl <;> omega

theorem mul_mono_lt (a b n : Nat) (h : a + 1 ≤ b) : (a + 1) * n ≤ b * n := Nat.mul_le_mul_right _ h

/-- **C04, full revolve: indices and face sizes.** Every face of a 360° `rotate_extrude` is a quad
whose four indices refer to existing points. -/
theorem rotateExtrude_full_valid (profile2 : List (Pt2 ℝ)) (segments : Nat) (p : Polyhedron ℝ)
    (h : rotateExtrude profile2 360 segments = some p) :
    p.points.length = segments * profile2.length ∧
    ∀ f ∈ p.faces, f.length = 4 ∧ ∀ v ∈ f, v < p.points.length := by
  obtain ⟨⟨_, _, hseg⟩, hp⟩ := C05.rotateExtrude_points profile2 360 segments p h
  have hlen : p.points.length = segments * profile2.length := by
    rw [hp]
    simp only [if_true, List.append_nil, List.length_append, List.length_map]
    rw [flatMap_length_const _ _ profile2.length (fun j _ => by simp [revolveRing])]
    simp only [List.length_range]
    have : segments = (segments - 1) + 1 := by omega
    conv_rhs => rw [this, Nat.succ_mul]
    omega
  refine ⟨hlen, ?_⟩
  rcases rotateExtrude_faces profile2 360 segments p h with ⟨_, hf⟩ | ⟨hne, _⟩
  · intro f hfm
    rw [hf] at hfm
    rw [hlen]
    rcases List.mem_append.mp hfm with hfm | hfm
    · simp only [List.mem_flatMap, List.mem_range] at hfm
      obtain ⟨j, hj, hfj⟩ := hfm
      obtain ⟨h4, hv⟩ := stripRev_indices profile2.length j (j + 1) f hfj
      refine ⟨h4, fun v hvm => ?_⟩
      have := hv v hvm
      have hle : (max j (j + 1) + 1) * profile2.length ≤ segments * profile2.length :=
        Nat.mul_le_mul_right _ (by omega)
      omega
    · rw [closing_strip] at hfm
      obtain ⟨h4, hv⟩ := stripRev_indices profile2.length (segments - 1) 0 f hfm
      refine ⟨h4, fun v hvm => ?_⟩
      have := hv v hvm
      have hle : (max (segments - 1) 0 + 1) * profile2.length ≤ segments * profile2.length :=
        Nat.mul_le_mul_right _ (by omega)
      omega
  · exact absurd rfl hne

/-- the four vertices of a revolve quad are distinct (different rings, n ≥ 2) -/
theorem stripRev_quad_nodup (n lo hi : Nat) (hne : lo ≠ hi) (hn : 2 ≤ n) : ∀ f ∈ stripRev n lo hi, f.Nodup := by
  intro f hf
  simp only [stripRev, List.mem_map, List.mem_range] at hf
  obtain ⟨i, hi', rfl⟩ := hf
  have hm : (i + 1) % n < n := Nat.mod_lt _ (by omega)
  have hs : (i + 1) % n ≠ i := by
    by_cases h : i + 1 < n
    · rw [Nat.mod_eq_of_lt h]; omega
    · have : i + 1 = n := by omega
      rw [this, Nat.mod_self]; omega
  have hr : ∀ a b, a < n → b < n → lo * n + a ≠ hi * n + b := by
    intro a b ha hb heq
    rcases Nat.lt_or_gt_of_ne hne with h | h
    · have : (lo + 1) * n ≤ hi * n := Nat.mul_le_mul_right _ h
      rw [Nat.succ_mul] at this; omega
    · have : (hi + 1) * n ≤ lo * n := Nat.mul_le_mul_right _ h
      rw [Nat.succ_mul] at this; omega
  simp only [List.nodup_cons, List.mem_cons, List.not_mem_nil, or_false, not_or, List.nodup_nil, and_true,
    not_false_eq_true]
  refine ⟨⟨hr i i hi' hi', hr i _ hi' hm, by omega⟩, ⟨by omega, fun h => hr _ i hm hi' h.symm⟩, fun h => hr _ _ hm hm h.symm⟩

/-! ### capstone: the oracle's Boolean, as a theorem, for two builders -/
/-- **C04, full revolve — complete.** For every profile of at least three points and every segment
count the builder accepts, a 360° `rotate_extrude` satisfies `closedOriented` — the very predicate
the Lean oracle evaluates on every mesh: every index valid, every face with at least three distinct
vertices, every directed edge in exactly one face and its reverse in exactly one other face. -/
theorem rotateExtrude_full_closedOriented (profile2 : List (Pt2 ℝ)) (segments : Nat) (p : Polyhedron ℝ)
    (h : rotateExtrude profile2 360 segments = some p) (hn : 3 ≤ profile2.length) :
    closedOriented p.points.length p.faces = true := by
  obtain ⟨⟨_, _, hseg⟩, _⟩ := C05.rotateExtrude_points profile2 360 segments p h
  obtain ⟨hlen, hvalid⟩ := rotateExtrude_full_valid profile2 segments p h
  have hfaces : p.faces = fullStrips profile2.length segments := by
    rcases rotateExtrude_faces profile2 360 segments p h with ⟨_, hf⟩ | ⟨hne, _⟩
    · rw [hf, closing_strip]
      exact fullStrips_eq profile2.length segments (by omega)
    · exact absurd rfl hne
  apply closedOriented_of
  · intro f hf
    obtain ⟨h4, hv⟩ := hvalid f hf
    refine ⟨by omega, hv, ?_⟩
    rw [hfaces] at hf
    simp only [fullStrips, List.mem_flatMap, List.mem_range] at hf
    obtain ⟨j, hj, hfj⟩ := hf
    apply stripRev_quad_nodup profile2.length j ((j + 1) % segments) _ (by omega) f hfj
    by_cases hj1 : j + 1 < segments
    · rw [Nat.mod_eq_of_lt hj1]; omega
    · have : j + 1 = segments := by omega
      rw [this, Nat.mod_self]; omega
  · rw [hfaces]; exact fullStrips_nodup profile2.length segments hn hseg
  · exact rotateExtrude_full_closed profile2 segments p h

theorem strip_quad_nodup (n lo hi : Nat) (hne : lo ≠ hi) (hn : 2 ≤ n) : ∀ f ∈ strip n lo hi, f.Nodup := by
  intro f hf
  simp only [strip, List.mem_map, List.mem_range] at hf
  obtain ⟨i, hi', rfl⟩ := hf
  have hm : (i + 1) % n < n := Nat.mod_lt _ (by omega)
  have hs : (i + 1) % n ≠ i := by
    by_cases h : i + 1 < n
    · rw [Nat.mod_eq_of_lt h]; omega
    · have : i + 1 = n := by omega
      rw [this, Nat.mod_self]; omega
  have hr : ∀ a b, a < n → b < n → lo * n + a ≠ hi * n + b := by
    intro a b ha hb heq
    rcases Nat.lt_or_gt_of_ne hne with h | h
    · have : (lo + 1) * n ≤ hi * n := Nat.mul_le_mul_right _ h
      rw [Nat.succ_mul] at this; omega
    · have : (hi + 1) * n ≤ lo * n := Nat.mul_le_mul_right _ h
      rw [Nat.succ_mul] at this; omega
  simp only [List.nodup_cons, List.mem_cons, List.not_mem_nil, or_false, not_or, List.nodup_nil, and_true,
    not_false_eq_true]
  refine ⟨⟨by omega, hr i _ hi' hm, hr i i hi' hi'⟩, ⟨hr _ _ hm hm, hr _ i hm hi'⟩, by omega⟩

/-- the point list of a closed sweep has one ring per path point -/
theorem sweep_closed_points_length (profile2 : List (Pt2 ℝ)) (path : List (Pt3 ℝ)) (twist : ℝ) (p : Polyhedron ℝ)
    (h : sweep profile2 path twist true = some p) : p.points.length = path.length * profile2.length := by
  unfold sweep at h
  simp only [] at h
  by_cases hl : path.length < 2
  · simp [hl] at h
  · simp [hl] at h
    subst h
    simp only [List.length_append, C05.sweepRing_length, List.length_map]
    rw [flatMap_length_const _ _ profile2.length (fun j _ => by simp [sweepRing])]
    simp only [List.length_range]
    have : path.length = (path.length - 2) + 1 + 1 := by omega
    conv_rhs => rw [this, Nat.succ_mul, Nat.succ_mul]
    omega

/-- **C04, closed sweep — complete.** For every profile of at least three points, every closed path
of at least three points and every twist, the sweep satisfies the oracle's `closedOriented`. -/
theorem sweep_closed_closedOriented (profile2 : List (Pt2 ℝ)) (path : List (Pt3 ℝ)) (twist : ℝ) (p : Polyhedron ℝ)
    (h : sweep profile2 path twist true = some p) (hn : 3 ≤ profile2.length) (hl : 3 ≤ path.length) :
    closedOriented p.points.length p.faces = true := by
  have hlen := sweep_closed_points_length profile2 path twist p h
  have hfaces : p.faces = closedStrips profile2.length path.length := by
    obtain ⟨_, ⟨_, hf⟩ | ⟨hc, _⟩⟩ := sweep_faces profile2 path twist true p h
    · have hb : ((List.range (path.length - 2)).flatMap fun j => strip profile2.length j (j + 1)) ++
          strip profile2.length (path.length - 2) (path.length - 1) = sweepBody profile2.length (path.length - 1) := by
        have : path.length - 1 = (path.length - 2) + 1 := by omega
        rw [this, sweepBody_succ]; rfl
      rw [hf, hb, closing_sweep_strip]
      exact closedStrips_eq profile2.length path.length (by omega)
    · simp at hc
  apply closedOriented_of
  · intro f hf
    rw [hfaces] at hf
    simp only [closedStrips, List.mem_flatMap, List.mem_range] at hf
    obtain ⟨j, hj, hfj⟩ := hf
    have hne : j ≠ (j + 1) % path.length := by
      by_cases hj1 : j + 1 < path.length
      · rw [Nat.mod_eq_of_lt hj1]; omega
      · have : j + 1 = path.length := by omega
        rw [this, Nat.mod_self]; omega
    have hm : (j + 1) % path.length < path.length := Nat.mod_lt _ (by omega)
    refine ⟨by rw [strip_quads _ _ _ f hfj]; omega, ?_, strip_quad_nodup _ _ _ hne (by omega) f hfj⟩
    intro v hv
    have := strip_indices profile2.length j ((j + 1) % path.length) f hfj v hv
    rw [hlen]
    have hle : (max j ((j + 1) % path.length) + 1) * profile2.length ≤ path.length * profile2.length :=
      Nat.mul_le_mul_right _ (by omega)
    omega
  · rw [hfaces]; exact closedStrips_nodup profile2.length path.length hn hl
  · exact sweep_closed_closed profile2 path twist p h


/-! ### enclosed volume (clockwise-outside convention) -/
/-- six times the signed volume contributed by one face (fan from its first vertex) -/
noncomputable def faceVol (p : Nat → Pt3 ℝ) : List Nat → ℝ
  | v0 :: rest => sixVolumeCCWAt.fan p (p v0) rest
  | [] => 0

theorem six_eq_sum (p : Nat → Pt3 ℝ) (faces : List (List Nat)) :
    sixVolumeCCWAt p faces = (faces.map (faceVol p)).sum := by
  unfold sixVolumeCCWAt
  have : ∀ (l : List (List Nat)) (init : ℝ),
      l.foldl (fun acc f => match f with | v0 :: rest => acc + sixVolumeCCWAt.fan p (p v0) rest | [] => acc) init =
        init + (l.map (faceVol p)).sum := by
    intro l
    induction l with
    | nil => intro init; simp
    | cons f fs ih =>
      intro init
      rw [List.foldl_cons, ih]
      cases f with
      | nil => simp [faceVol]
      | cons v0 rest => simp [faceVol]; ring
  exact (this faces 0).trans (zero_add _)

theorem six_append (p : Nat → Pt3 ℝ) (a b : List (List Nat)) :
    sixVolumeCCWAt p (a ++ b) = sixVolumeCCWAt p a + sixVolumeCCWAt p b := by
  simp [six_eq_sum]

theorem faceVol_tri (p : Nat → Pt3 ℝ) (a b c : Nat) :
    faceVol p [a, b, c] = Pt3.dot (p a) (Pt3.cross (p b) (p c)) := by
  simp [faceVol, sixVolumeCCWAt.fan]
theorem faceVol_quad (p : Nat → Pt3 ℝ) (a b c d : Nat) :
    faceVol p [a, b, c, d] = Pt3.dot (p a) (Pt3.cross (p b) (p c)) + Pt3.dot (p a) (Pt3.cross (p c) (p d)) := by
  simp [faceVol, sixVolumeCCWAt.fan]

/-- the point function of a linear extrusion -/
noncomputable def exPt (profile : List (Pt2 ℝ)) (h : ℝ) (i : Nat) : Pt3 ℝ :=
  (profile.map (·.asPt3 0) ++ profile.map (·.asPt3 h)).getD i ⟨0, 0, 0⟩

theorem exPt_lo (profile : List (Pt2 ℝ)) (h : ℝ) (i : Nat) (hi : i < profile.length) :
    exPt profile h i = ⟨(profile.getD i d0).x, (profile.getD i d0).y, 0⟩ := by
  simp [exPt, List.getD_eq_getElem?_getD, List.getElem?_append_left, hi, Pt2.asPt3]
theorem exPt_hi (profile : List (Pt2 ℝ)) (h : ℝ) (i : Nat) (hi : i < profile.length) :
    exPt profile h (i + profile.length) = ⟨(profile.getD i d0).x, (profile.getD i d0).y, h⟩ := by
  simp [exPt, List.getD_eq_getElem?_getD, List.getElem?_append_right, hi, Pt2.asPt3]

/-- a triangle in the plane z = 0 spans no volume with the origin -/
theorem det_z0 (a b c : Pt2 ℝ) :
    Pt3.dot (⟨a.x, a.y, 0⟩ : Pt3 ℝ) (Pt3.cross ⟨b.x, b.y, 0⟩ ⟨c.x, c.y, 0⟩) = 0 := by
  simp [Pt3.dot, Pt3.cross]
/-- a triangle in the plane z = h -/
theorem det_zh (a b c : Pt2 ℝ) (h : ℝ) :
    Pt3.dot (⟨a.x, a.y, h⟩ : Pt3 ℝ) (Pt3.cross ⟨b.x, b.y, h⟩ ⟨c.x, c.y, h⟩) = h * Spec.cross3 a b c := by
  simp only [Pt3.dot, Pt3.cross, Spec.cross3]; ring
/-- a side quad -/
theorem det_quad (a b : Pt2 ℝ) (h : ℝ) :
    Pt3.dot (⟨a.x, a.y, 0⟩ : Pt3 ℝ) (Pt3.cross ⟨b.x, b.y, 0⟩ ⟨b.x, b.y, h⟩) +
      Pt3.dot (⟨a.x, a.y, 0⟩ : Pt3 ℝ) (Pt3.cross ⟨b.x, b.y, h⟩ ⟨a.x, a.y, h⟩) = 2 * h * cross2 a b := by
  simp only [Pt3.dot, Pt3.cross, cross2]; ring


theorem chain_range : ∀ (l : List (Pt2 ℝ)),
    chain l = ((List.range (l.length - 1)).map fun i => cross2 (l.getD i d0) (l.getD (i + 1) d0)).sum
  | [] => by simp [chain]
  | [_] => by simp [chain]
  | a :: b :: rest => by
    have ih := chain_range (b :: rest)
    simp only [chain, List.length_cons, Nat.add_sub_cancel] at ih ⊢
    rw [ih, List.range_succ_eq_map, List.map_cons, List.sum_cons, List.map_map]
    simp [Function.comp_def, List.getD_cons_succ]

/-- the shoelace sum by position, with the wrap-around index `(i+1) % n` the builders use -/
theorem area2_range (l : List (Pt2 ℝ)) (hn : 1 ≤ l.length) :
    area2 l = ((List.range l.length).map fun i => cross2 (l.getD i d0) (l.getD ((i + 1) % l.length) d0)).sum := by
  obtain ⟨k, hk⟩ : ∃ k, l.length = k + 1 := ⟨l.length - 1, by omega⟩
  rw [area2_eq, chain_range, hk, List.range_succ, List.map_append, List.sum_append]
  simp only [Nat.add_sub_cancel, List.map_cons, List.map_nil, List.sum_cons, List.sum_nil, add_zero,
    Nat.mod_self]
  congr 1
  apply congrArg
  apply List.map_congr_left
  intro i hi
  simp only [List.mem_range] at hi
  rw [Nat.mod_eq_of_lt (by omega)]

theorem bottom_zero (profile : List (Pt2 ℝ)) (h : ℝ) : ∀ (l : List Nat), (∀ i ∈ l, i < profile.length) →
    sixVolumeCCWAt (exPt profile h) (triFaces 0 l) = 0
  | [], _ => by simp [triFaces, sixVolumeCCWAt]
  | [_], _ => by simp [triFaces, sixVolumeCCWAt]
  | [_, _], _ => by simp [triFaces, sixVolumeCCWAt]
  | a :: b :: c :: rest, hl => by
    have ih := bottom_zero profile h rest (fun i hi => hl i (by simp [hi]))
    have ha := hl a (by simp); have hb := hl b (by simp); have hc := hl c (by simp)
    rw [six_eq_sum] at ih ⊢
    simp only [triFaces, List.map_cons, List.sum_cons, ih, add_zero, Nat.add_zero, faceVol_tri,
      exPt_lo profile h _ ha, exPt_lo profile h _ hb, exPt_lo profile h _ hc, det_z0]

theorem top_sum (profile : List (Pt2 ℝ)) (h : ℝ) : ∀ (l : List Nat), (∀ i ∈ l, i < profile.length) →
    sixVolumeCCWAt (exPt profile h) (triFaces profile.length l) = h * C03.sumTri profile l
  | [], _ => by simp [triFaces, sixVolumeCCWAt, C03.sumTri, triples]
  | [_], _ => by simp [triFaces, sixVolumeCCWAt, C03.sumTri, triples]
  | [_, _], _ => by simp [triFaces, sixVolumeCCWAt, C03.sumTri, triples]
  | a :: b :: c :: rest, hl => by
    have ih := top_sum profile h rest (fun i hi => hl i (by simp [hi]))
    have ha := hl a (by simp); have hb := hl b (by simp); have hc := hl c (by simp)
    rw [six_eq_sum] at ih ⊢
    simp only [C03.sumTri] at ih ⊢
    simp only [triFaces, triples, List.map_cons, List.sum_cons, ih, faceVol_tri,
      exPt_hi profile h _ ha, exPt_hi profile h _ hb, exPt_hi profile h _ hc, det_zh]
    ring

theorem strip_sum (profile : List (Pt2 ℝ)) (h : ℝ) (hn : 1 ≤ profile.length) :
    sixVolumeCCWAt (exPt profile h) (strip profile.length 0 1) = 2 * h * area2 profile := by
  rw [six_eq_sum, area2_range profile hn, strip, List.map_map, ← List.sum_map_mul_left]
  congr 1
  apply List.map_congr_left
  intro i hi
  simp only [List.mem_range] at hi
  have hs : (i + 1) % profile.length < profile.length := Nat.mod_lt _ (by omega)
  simp only [Function.comp, faceVol_quad, Nat.zero_mul, Nat.zero_add, Nat.one_mul]
  rw [exPt_lo profile h i hi, exPt_lo profile h _ hs, Nat.add_comm profile.length ((i + 1) % profile.length),
    Nat.add_comm profile.length i, exPt_hi profile h _ hs, exPt_hi profile h i hi, det_quad]


/-- **C05, volume of a linear extrusion.** When the top cap is complete, the enclosed volume measured
under the library's clockwise-outside convention is exactly `height · area`, where `area =
−area2/2` is the (positive) area of a clockwise profile — for every profile, simple or not. -/
theorem linearExtrude_volume (profile : List (Pt2 ℝ)) (height : ℝ) (p : Polyhedron ℝ)
    (h : linearExtrude profile height = some p)
    (hcomplete : ∀ top, Tri.triangulate2d profile = some top → top.length = 3 * (profile.length - 2)) :
    signedVolumeCW p.points p.faces = height * (-(area2 profile) / 2) := by
  obtain ⟨b, t, hb, ht, hf, _⟩ := linearExtrude_faces profile height p h
  have hp := C05.linearExtrude_points profile height p h
  have hn : 3 < profile.length := by
    unfold Tri.triangulate2d at ht; split at ht
    · assumption
    · simp at ht
  have sb := (C03.triangulate2d_spec profile).2.2 b hb
  have st := (C03.triangulate2d_spec profile).2.1 t ht
  have et : t = Tri.triangulate (Tri.indexed profile) := by
    unfold Tri.triangulate2d at ht; rw [if_pos hn] at ht; injection ht with ht; exact ht.symm
  have hc := hcomplete t ht
  have harea : C03.sumTri profile t = area2 profile := by
    rw [et] at hc ⊢
    have hl : (Tri.indexed profile).length = profile.length := by simp [Tri.indexed]
    have := C03.complete_area profile (Tri.indexed profile) (C03.indexed_consistent profile) (by omega)
      (by rw [hl]; exact hc)
    rwa [C03.pts_indexed] at this
  have hsix : sixVolumeCCW p.points p.faces = 3 * height * area2 profile := by
    unfold sixVolumeCCW
    rw [hp, hf]
    show sixVolumeCCWAt (exPt profile height) _ = _
    rw [six_append, six_append, bottom_zero profile height b sb.1, top_sum profile height t st.1,
      strip_sum profile height (by omega), harea]
    ring
  unfold signedVolumeCW
  rw [hsix]
  simp only [cast_eq_natCast]
  norm_num
  ring


/-- a strictly convex clockwise polygon has negative signed area -/
theorem convex_area_neg : ∀ (n : Nat) (l : List (Pt2 ℝ)), l.length = n + 3 → ConvexPos false l → area2 l < 0
  | 0, l, hl, hc => by
    have h := area2_eraseIdx l 0 (by omega) (by omega)
    have hz : area2 (l.eraseIdx 0) = 0 := area2_short _ (by rw [List.length_eraseIdx, if_pos (by omega)]; omega)
    have ho := hc 0 1 2 (by omega) (by omega) (by omega)
    simp only [Oriented, Bool.false_eq_true, if_false] at ho
    have hp : Tri.prevIdx l.length 0 = 2 := by simp [Tri.prevIdx, hl]
    have hx : Tri.nextIdx l.length 0 = 1 := by unfold Tri.nextIdx; rw [if_neg (by omega)]
    rw [hp, hx, hz] at h
    have : Spec.cross3 (l.getD 2 d0) (l.getD 0 d0) (l.getD 1 d0) = Tri.cross3 (l.getD 0 d0) (l.getD 1 d0) (l.getD 2 d0) := by
      simp only [Spec.cross3, Tri.cross3]; ring
    rw [h, this]; linarith
  | n + 1, l, hl, hc => by
    have h := area2_eraseIdx l 0 (by omega) (by omega)
    have ih := convex_area_neg n (l.eraseIdx 0) (by rw [List.length_eraseIdx, if_pos (by omega)]; omega) (convex_tail false l hc)
    have ho := hc 0 1 (l.length - 1) (by omega) (by omega) (by omega)
    simp only [Oriented, Bool.false_eq_true, if_false] at ho
    have hp : Tri.prevIdx l.length 0 = l.length - 1 := by simp [Tri.prevIdx]
    have hx : Tri.nextIdx l.length 0 = 1 := by unfold Tri.nextIdx; rw [if_neg (by omega)]
    rw [hp, hx] at h
    have : Spec.cross3 (l.getD (l.length - 1) d0) (l.getD 0 d0) (l.getD 1 d0) =
        Tri.cross3 (l.getD 0 d0) (l.getD 1 d0) (l.getD (l.length - 1) d0) := by
      simp only [Spec.cross3, Tri.cross3]; ring
    rw [h, this]; linarith

/-- **C04/C05, cylinders.** Every cylinder (radius > 0, height > 0, any segment count the builder
accepts) encloses exactly `height ·` (area of its n-gon) under the clockwise-outside convention, and
that is positive: its faces wind clockwise seen from outside. -/
theorem cylinder_volume (r height : ℝ) (hr : 0 < r) (hh : 0 < height) (seg : Nat) (p : Polyhedron ℝ)
    (h : cylinder r height seg = some p) :
    ∃ c, Dim2.circle r seg = some c ∧ signedVolumeCW p.points p.faces = height * (-(area2 c) / 2) ∧
      0 < signedVolumeCW p.points p.faces := by
  unfold cylinder at h
  simp only [Option.bind_eq_bind] at h
  obtain ⟨c, hc, h⟩ := C05.bind_some h
  have hconv := C07.circle_convex r hr seg c hc
  obtain ⟨b, t, hb, ht, _, _⟩ := linearExtrude_faces c height p h
  have hn : 3 < c.length := by
    unfold Tri.triangulate2d at ht; split at ht
    · assumption
    · simp at ht
  have hvol := linearExtrude_volume c height p h (by
    intro top htop
    obtain ⟨⟨t', ht', hlt⟩, _⟩ := C03.convex_complete false c hn hconv
    rw [htop] at ht'; injection ht' with ht'; subst ht'; exact hlt)
  have hneg := convex_area_neg (c.length - 3) c (by omega) hconv
  refine ⟨c, hc, hvol, ?_⟩
  rw [hvol]
  have : 0 < -(area2 c) / 2 := by linarith
  positivity


/-- non-vacuity of the certificate: the two triangles of a square tile its ring -/
example : CapTiles 4 0 true [[0, 1, 2], [0, 2, 3]] :=
  ⟨[(2, 0)], by decide⟩

/-! ### convex outlines: the complete statement, at the level of the oracle's Boolean -/
/-- **C04 for every strictly convex outline (either direction, any size ≥ 4): `linear_extrude` yields a
mesh that satisfies `closedOriented`** — valid indices, faces of three or four pairwise distinct
vertices, every directed edge in exactly one face and its reverse in exactly one other face.  No
hypothesis about the triangulator: on convex outlines the loop emits the fan (C03 `convex_fan`), a fan
has no directed edge twice (Lemmas/FanClosed), a cap never repeats a forward ring edge of the strip
(`cap_avoids_ring`), and the caps glue to the strip (`linearExtrude_closed_of_complete`). -/
theorem linearExtrude_convex_closedOriented (ccw : Bool) (c : List (Pt2 ℝ)) (height : ℝ) (p : Polyhedron ℝ)
    (hconv : TriLemmas.ConvexPos ccw c) (h : linearExtrude c height = some p) :
    closedOriented p.points.length p.faces = true := by
  obtain ⟨b, t, hb, ht, hf, hp⟩ := linearExtrude_faces c height p h
  have hn : 3 < c.length := by
    unfold Tri.triangulate2d at ht; split at ht
    · assumption
    · simp at ht
  have eb : b = Tri.triangulate (Tri.indexed c).reverse := by
    unfold Tri.triangulate2dRev at hb; rw [if_pos hn] at hb; injection hb with hb; exact hb.symm
  have et : t = Tri.triangulate (Tri.indexed c) := by
    unfold Tri.triangulate2d at ht; rw [if_pos hn] at ht; injection ht with ht; exact ht.symm
  have hl : (Tri.indexed c).length = c.length := by simp [Tri.indexed]
  have hlr : (Tri.indexed c).reverse.length = c.length := by simp [Tri.indexed]
  -- the two fans
  have fanT := TriLemmas.triangulate_convex_fan ccw (Tri.indexed c) (by omega)
    (by rw [C03.pts_indexed]; exact hconv)
  have fanB := TriLemmas.triangulate_convex_fan (!ccw) (Tri.indexed c).reverse (by omega)
    (by rw [C03.pts_indexed_reverse]; exact C03.convex_reverse ccw c hconv)
  have cT := TriLemmas.triangulate_convex_complete ccw (Tri.indexed c) (by omega)
    (by rw [C03.pts_indexed]; exact hconv)
  have cB := TriLemmas.triangulate_convex_complete (!ccw) (Tri.indexed c).reverse (by omega)
    (by rw [C03.pts_indexed_reverse]; exact C03.convex_reverse ccw c hconv)
  rw [hl] at cT; rw [hlr] at cB
  have labT : (TriLemmas.lab (Tri.indexed c)).Nodup := by rw [lab_indexed]; exact List.nodup_range
  have labB : (TriLemmas.lab (Tri.indexed c).reverse).Nodup := by
    have : TriLemmas.lab (Tri.indexed c).reverse = (TriLemmas.lab (Tri.indexed c)).reverse := by
      simp [TriLemmas.lab]
    rw [this, List.nodup_reverse]; exact labT
  have neT : Tri.indexed c ≠ [] := by intro h0; rw [h0] at hl; simp at hl; omega
  have neB : (Tri.indexed c).reverse ≠ [] := by intro h0; rw [h0] at hlr; simp at hlr; omega
  obtain ⟨ndT, memT⟩ := FanClosed.fanAux_nodup (Tri.indexed c) neT labT
  obtain ⟨ndB, memB⟩ := FanClosed.fanAux_nodup (Tri.indexed c).reverse neB labB
  have labmemT : ∀ x ∈ TriLemmas.lab (Tri.indexed c), x < c.length := by
    intro x hx; rw [lab_indexed] at hx; exact List.mem_range.mp hx
  have labmemB : ∀ x ∈ TriLemmas.lab (Tri.indexed c).reverse, x < c.length := by
    intro x hx
    have : TriLemmas.lab (Tri.indexed c).reverse = (TriLemmas.lab (Tri.indexed c)).reverse := by
      simp [TriLemmas.lab]
    rw [this, List.mem_reverse] at hx; exact labmemT x hx
  subst eb; subst et
  rw [hf, hp]
  have hX : allEdges (triFaces 0 (Tri.triangulate (Tri.indexed c).reverse)) =
      (TriLemmas.runEdges (TriLemmas.fanAux (TriLemmas.vAt (Tri.indexed c).reverse ((Tri.indexed c).reverse.length - 1))
        (Tri.indexed c).reverse)).map (shift 0) := by rw [fanB, triFaces_labels]
  have hY : allEdges (triFaces c.length (Tri.triangulate (Tri.indexed c))) =
      (TriLemmas.runEdges (TriLemmas.fanAux (TriLemmas.vAt (Tri.indexed c) ((Tri.indexed c).length - 1))
        (Tri.indexed c))).map (shift c.length) := by rw [fanT, triFaces_labels]
  apply closedOriented_of
  · -- faces
    intro f hfm
    have hv := capped_valid c.length _ _
      ((C03.triangulate2d_spec c).2.2 _ hb).1 ((C03.triangulate2d_spec c).2.1 _ ht).1 f hfm
    refine ⟨by rcases hv.2 with h3 | h4 <;> omega, hv.1, ?_⟩
    simp only [List.mem_append] at hfm
    rcases hfm with (hfm | hfm) | hfm
    · rw [fanB] at hfm; exact FanClosed.fanAux_faces_nodup _ neB labB 0 f hfm
    · rw [fanT] at hfm; exact FanClosed.fanAux_faces_nodup _ neT labT c.length f hfm
    · exact FanClosed.strip_faces_nodup c.length 0 1 (by omega) (by omega) f hfm
  · -- no directed edge twice
    rw [allEdges_append, allEdges_append]
    apply FanClosed.capped_strip_nodup c.length (by omega)
    · rw [hX]; exact FanClosed.nodup_shift 0 _ ndB
    · rw [hY]; exact FanClosed.nodup_shift c.length _ ndT
    · intro e he
      rw [hX, List.mem_map] at he
      obtain ⟨a, ha, rfl⟩ := he
      have := memB a ha
      simp only [shift]
      exact ⟨by have := labmemB _ this.1; omega, by have := labmemB _ this.2; omega⟩
    · intro e he
      rw [hY, List.mem_map] at he
      obtain ⟨a, ha, rfl⟩ := he
      simp only [shift]
      exact ⟨by omega, by omega⟩
    · exact cap_backward c (by omega) cB
    · have := cap_forward c c.length (by omega) cT
      rwa [ringF_shift] at this
  · -- every directed edge matched by its reverse
    have := linearExtrude_closed_of_complete c height p h (by
      intro b' t' hb' ht'
      rw [hb] at hb'; rw [ht] at ht'
      injection hb' with hb'; injection ht' with ht'
      subst hb'; subst ht'
      exact ⟨cB, cT⟩)
    rwa [hf] at this

/-- **every cylinder satisfies `closedOriented`** (any radius > 0, height, segment count for which the
builder returns a mesh): hence every viewer edge mesh and every thread core rod. -/
theorem cylinder_closedOriented (r height : ℝ) (hr : 0 < r) (seg : Nat) (p : Polyhedron ℝ)
    (h : cylinder r height seg = some p) : closedOriented p.points.length p.faces = true := by
  unfold cylinder at h
  simp only [Option.bind_eq_bind] at h
  obtain ⟨c, hc, h⟩ := C05.bind_some h
  exact linearExtrude_convex_closedOriented false c height p (C07.circle_convex r hr seg c hc) h

/-- **the thread and rod meshes inside threaded parts are closed, consistently oriented surfaces**:
every mesh `threaded_cylinder` builds — any diameters, pitch, length, segment count, lead-in/out
angle, either hand — satisfies `closedOriented` (Lemmas/ThreadClosed.lean: telescoping of the
four-vertex rings, no directed edge twice). -/
theorem threadMesh_closedOriented (dMin dMaj pitch length : ℝ) (segments : Nat) (li lo : ℝ) (left : Bool)
    (m : Thread.Mesh ℝ) (h : Thread.threadMesh dMin dMaj pitch length segments li lo left = some m) :
    closedOriented m.points.length m.faces = true :=
  ThreadClosed.threadMesh_closedOriented dMin dMaj pitch length segments li lo left m h

end ScadVerif.C04
