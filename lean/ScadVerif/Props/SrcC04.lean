/-
A headline theorem of C04 restated about the *transcribed source*: the model's theorem composed with the
tie (`Tie/Polyhedron.lean`).
-/
import ScadVerif.Props.C04
import ScadVerif.Tie.Polyhedron
namespace ScadVerif.SrcC04
open ScadVerif ScadVerif.Spec

/-- every mesh the transcribed `Polyhedron::cylinder` returns — any radius > 0, height, segment count — is a
closed, consistently oriented surface (the oracle's own predicate) -/
theorem cylinder_closedOriented (r height : ℝ) (hr : 0 < r) (seg : Nat) (p : Dim3.Polyhedron ℝ)
    (h : Src.Polyhedron.cylinder r height seg = some p) : closedOriented p.points.length p.faces = true := by
  rw [TiePoly.cylinder] at h
  exact C04.cylinder_closedOriented r height hr seg p h

end ScadVerif.SrcC04
