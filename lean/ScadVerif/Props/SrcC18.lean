/-
Theorems of C18 restated about the *transcribed source* (`Tie/Viewer.lean`): every transcribed adder of
viewer.rs keeps the viewer's constants and retains the whole previous scene.
-/
import ScadVerif.Props.C18
import ScadVerif.Tie.Viewer
namespace ScadVerif.SrcC18
open ScadVerif ScadVerif.Viewer

theorem add_pt3_grows (st : State ℝ) (p : Pt3 ℝ) (c : List Char) : C18.Grows st (Src.Viewer.add_pt3 st p c) := by
  rw [TieViewer.add_pt3]; exact C18.push_grows _ _
theorem add_pt3s_grows (st : State ℝ) (ps : List (Pt3 ℝ)) (c : List Char) :
    C18.Grows st (Src.Viewer.add_pt3s st ps c) := by
  rw [TieViewer.add_pt3s]; exact C18.pushGroup_grows _ _
theorem add_lines3d_grows (st st' : State ℝ) (es : List (Pt3 ℝ × Pt3 ℝ)) (c : List Char)
    (h : Src.Viewer.add_lines3d st es c = some st') : C18.Grows st st' := by
  rw [TieViewer.add_lines3d] at h; exact C18.addLines3d_grows st st' es c h
theorem add_lines2d_grows (st st' : State ℝ) (es : List (Pt2 ℝ × Pt2 ℝ)) (c : List Char)
    (h : Src.Viewer.add_lines2d st es c = some st') : C18.Grows st st' := by
  rw [TieViewer.add_lines2d] at h; exact C18.addLines2d_grows st st' es c h
theorem add_cubic_bezier_chain3d_grows (st st' : State ℝ) (ch : Dim3.Chain ℝ)
    (h : Src.Viewer.add_cubic_bezier_chain3d st ch = some st') : C18.Grows st st' := by
  rw [TieViewer.add_cubic_bezier_chain3d] at h; exact C18.step_grows st st' _ h
theorem add_bezier_star_grows (st st' : State ℝ) (ch : Dim2.Chain ℝ)
    (h : Src.Viewer.add_bezier_star st ch = some st') : C18.Grows st st' := by
  rw [TieViewer.add_bezier_star] at h; exact C18.step_grows st st' _ h

end ScadVerif.SrcC18
