/-
C16 — metric threads: sizes come from the table, the minor diameter follows the ISO proportion,
a missing size uses the next smaller listed one, and the nut's thread is larger than the bolt's.

`Gen.threadTable` is regenerated from metric_thread.rs on every run; the table facts below are
`decide +kernel` over the regenerated table, so an edited row breaks the proof obligation.  The
thread mesh itself (start at z = 0, radii between minor and major, one pitch per turn, handedness)
is compared vertex by vertex with the crate's mesh and checked by the Lean oracle on every case of
the run; its structure, radii, helix, pitch per turn and closedness are theorems for every parameter
set (below).
-/
import ScadVerif.Lemmas.PtReal
import ScadVerif.Model.Parts
import ScadVerif.Lemmas.ThreadLemmas
import ScadVerif.Lemmas.ThreadClosed
namespace ScadVerif.C16
open ScadVerif ScadVerif.Thread

/-- the table has a row for M2, so the lookup loop terminates for every requested size -/
theorem m2_listed : (findRow 2).isSome = true := by decide +kernel

/-! ### the lookup -/
theorem findRow_key (k : Nat) (r : Gen.ThreadRow) (h : findRow k = some r) : r.key = k := by
  have := List.find?_some h
  simpa using this

/-- counting down from `n` returns the largest listed size not above `n` -/
theorem lookupFrom_spec (n : Nat) (r : Gen.ThreadRow) (h : lookupFrom n = some r) :
    r.key ≤ n ∧ findRow r.key = some r ∧ ∀ k, r.key < k → k ≤ n → findRow k = none := by
  induction n with
  | zero =>
    simp only [lookupFrom] at h
    have := findRow_key 0 r h
    exact ⟨by omega, by rw [this]; exact h, fun k h1 h2 => by omega⟩
  | succ m ih =>
    simp only [lookupFrom] at h
    cases hf : findRow (m + 1) with
    | some r' =>
      rw [hf] at h
      injection h with h; subst h
      have := findRow_key (m + 1) r' hf
      exact ⟨by omega, by rw [this]; exact hf, fun k h1 h2 => by omega⟩
    | none =>
      rw [hf] at h
      obtain ⟨h1, h2, h3⟩ := ih h
      refine ⟨by omega, h2, fun k hk1 hk2 => ?_⟩
      by_cases hk : k = m + 1
      · subst hk; exact hf
      · exact h3 k hk1 (by omega)

theorem lookupFrom_some (n : Nat) (hn : 2 ≤ n) : (lookupFrom n).isSome = true := by
  induction n with
  | zero => omega
  | succ m ih =>
    simp only [lookupFrom]
    cases hf : findRow (m + 1) with
    | some r => rfl
    | none =>
      by_cases hm : m + 1 = 2
      · rw [hm] at hf; have := m2_listed; rw [hf] at this; simp at this
      · exact ih (by omega)

/-- the size actually looked up: requests below 2 are clamped to 2 -/
def effective (m : Int) : Nat := if m < 2 then 2 else m.toNat

/-- **C16, lookup.** For every `m : i32` (indeed every integer) the lookup succeeds and returns the
row of the largest listed size not above `max m 2`: the size itself when it is listed, the next
smaller listed size otherwise, M2 below the table. -/
theorem lookup_spec (m : Int) :
    ∃ r, lookup m = some r ∧ r.key ≤ effective m ∧ findRow r.key = some r ∧
      ∀ k, r.key < k → k ≤ effective m → findRow k = none := by
  have h2 : 2 ≤ effective m := by unfold effective; split <;> omega
  have hs := lookupFrom_some (effective m) h2
  cases h : lookupFrom (effective m) with
  | none => rw [h] at hs; simp at hs
  | some r => exact ⟨r, h, lookupFrom_spec _ r h⟩

theorem lookup_listed (m : Int) (hm : 2 ≤ m) (r : Gen.ThreadRow) (h : findRow m.toNat = some r) :
    lookup m = some r := by
  obtain ⟨r', h1, h2, h3, h4⟩ := lookup_spec m
  have he : effective m = m.toNat := by unfold effective; split <;> omega
  rw [he] at h2 h4
  by_cases hk : r'.key = m.toNat
  · rw [hk] at h3; rw [h1, ← h3, h]
  · have := h4 m.toNat (by omega) (Nat.le_refl _)
    rw [this] at h; simp at h

theorem lookup_below_two (m : Int) (hm : m < 2) : lookup m = findRow 2 := by
  obtain ⟨r, h1, h2, h3, h4⟩ := lookup_spec m
  have he : effective m = 2 := by unfold effective; simp [hm]
  rw [he] at h2 h4
  have hk : r.key = 2 := by
    by_contra hne
    have := h4 2 (by omega) (Nat.le_refl _)
    have h2l := m2_listed; rw [this] at h2l; simp at h2l
  rw [h1, ← h3, hk]

/-- the largest listed size is M100 -/
theorem table_top : (∀ r ∈ Gen.threadTable, r.key ≤ 100) ∧ (findRow 100).isSome = true := by
  decide +kernel

theorem lookup_above_table (m : Int) (hm : 100 ≤ m) : lookup m = findRow 100 := by
  obtain ⟨r, h1, h2, h3, h4⟩ := lookup_spec m
  have he : effective m = m.toNat := by unfold effective; split <;> omega
  rw [he] at h2 h4
  have hmem : r ∈ Gen.threadTable := List.mem_of_find?_eq_some h3
  have hle := table_top.1 r hmem
  have hk : r.key = 100 := by
    by_contra hne
    have := h4 100 (by omega) (by omega)
    have ht := table_top.2; rw [this] at ht; simp at ht
  rw [h1, ← h3, hk]

/-- the keys are distinct and sorted: "next smaller listed size" is unambiguous -/
theorem table_sorted : (Gen.threadTable.map (·.key)).Pairwise (· < ·) := by decide +kernel

/-! ### proportions -/
/-- **C16, minor diameter**: `minor = major − 2·(5/8)·(√3/2)·pitch` -/
theorem dMin_formula (dMaj pitch : ℝ) :
    (dMin dMaj pitch : ℝ) = dMaj - 2 * (5 / 8) * (Real.sqrt 3 / 2) * pitch := by
  simp [dMin, threadHeight]; ring
theorem dMin_lt_dMaj (dMaj pitch : ℝ) (hp : 0 < pitch) : (dMin dMaj pitch : ℝ) < dMaj := by
  rw [dMin_formula]
  have : 0 < Real.sqrt 3 := Real.sqrt_pos.mpr (by norm_num)
  have : 0 < 2 * (5 / 8) * (Real.sqrt 3 / 2) * pitch := by positivity
  linarith
/-- with the same pitch the larger major diameter has the larger minor diameter -/
theorem dMin_mono (a b pitch : ℝ) (h : a < b) : (dMin a pitch : ℝ) < dMin b pitch := by
  rw [dMin_formula, dMin_formula]; linarith

/-! ### table facts over the regenerated table -/
/-- comparison of two decimal literals by cross-multiplication -/
def decLt (a b : Gen.Dec) : Bool := a.num * 10 ^ b.digits < b.num * 10 ^ a.digits

theorem decLt_val (a b : Gen.Dec) (h : decLt a b = true) :
    (Gen.Dec.val a : ℝ) < Gen.Dec.val b := by
  simp only [decLt, decide_eq_true_eq] at h
  simp only [Gen.Dec.val, cast_eq_natCast]
  have ha : (0 : ℝ) < ((10 ^ a.digits : Nat) : ℝ) := by positivity
  have hb : (0 : ℝ) < ((10 ^ b.digits : Nat) : ℝ) := by positivity
  rw [div_lt_div_iff₀ ha hb]
  exact_mod_cast h

theorem rows_internal_larger :
    ∀ r ∈ Gen.threadTable, decLt r.externalDMaj r.internalDMaj = true ∧ 0 < r.pitch.num := by
  decide +kernel

/-- **C16, fit.** For every listed size the internal (nut, tap) thread is larger than the external
(bolt, rod) thread, in major and in minor diameter, and the pitch is positive. -/
theorem nut_fits_bolt (r : Gen.ThreadRow) (hr : r ∈ Gen.threadTable) :
    (Gen.Dec.val r.externalDMaj : ℝ) < Gen.Dec.val r.internalDMaj ∧
    (dMin (Gen.Dec.val r.externalDMaj) (Gen.Dec.val r.pitch) : ℝ) <
      dMin (Gen.Dec.val r.internalDMaj) (Gen.Dec.val r.pitch) ∧
    (0 : ℝ) < Gen.Dec.val r.pitch := by
  obtain ⟨h1, h2⟩ := rows_internal_larger r hr
  have hlt := decLt_val _ _ h1
  refine ⟨hlt, dMin_mono _ _ _ hlt, ?_⟩
  simp only [Gen.Dec.val, cast_eq_natCast]
  have : (0 : ℝ) < (r.pitch.num : ℝ) := by exact_mod_cast h2
  positivity

/-- and since every request resolves to a listed row, that holds for every size `m` -/
theorem nut_fits_bolt_every_size (m : Int) :
    ∃ r, lookup m = some r ∧ (Gen.Dec.val r.externalDMaj : ℝ) < Gen.Dec.val r.internalDMaj := by
  obtain ⟨r, h1, _, h3, _⟩ := lookup_spec m
  exact ⟨r, h1, (nut_fits_bolt r (List.mem_of_find?_eq_some h3)).1⟩

/-- √3 < 1.7321, used to bound the thread depth -/
theorem sqrt3_lt : Real.sqrt 3 < 1.7321 := by
  rw [Real.sqrt_lt' (by norm_num)]; norm_num

/-- the minor diameter of every listed external thread is positive (the thread does not cut
through the core): `8·d_maj > 5·1.7321·pitch` row by row -/
theorem rows_core_positive :
    ∀ r ∈ Gen.threadTable,
      5 * 17321 * r.pitch.num * 10 ^ r.externalDMaj.digits <
        8 * 10000 * r.externalDMaj.num * 10 ^ r.pitch.digits := by
  decide +kernel

theorem minor_positive (r : Gen.ThreadRow) (hr : r ∈ Gen.threadTable) :
    (0 : ℝ) < dMin (Gen.Dec.val r.externalDMaj) (Gen.Dec.val r.pitch) := by
  have h := rows_core_positive r hr
  rw [dMin_formula]
  simp only [Gen.Dec.val, cast_eq_natCast]
  have ha : (0 : ℝ) < ((10 ^ r.externalDMaj.digits : Nat) : ℝ) := by positivity
  have hb : (0 : ℝ) < ((10 ^ r.pitch.digits : Nat) : ℝ) := by positivity
  have hs := sqrt3_lt
  have hs0 : 0 ≤ Real.sqrt 3 := Real.sqrt_nonneg 3
  have hp : (0 : ℝ) ≤ (r.pitch.num : ℝ) / ((10 ^ r.pitch.digits : Nat) : ℝ) := by positivity
  have hR : (5 * 17321 * (r.pitch.num : ℝ) * ((10 ^ r.externalDMaj.digits : Nat) : ℝ)) <
      8 * 10000 * (r.externalDMaj.num : ℝ) * ((10 ^ r.pitch.digits : Nat) : ℝ) := by exact_mod_cast h
  have key : 5 * 1.7321 * ((r.pitch.num : ℝ) / ((10 ^ r.pitch.digits : Nat) : ℝ)) <
      8 * ((r.externalDMaj.num : ℝ) / ((10 ^ r.externalDMaj.digits : Nat) : ℝ)) := by
    rw [mul_div_assoc', mul_div_assoc', div_lt_div_iff₀ hb ha]
    nlinarith
  nlinarith

/-! ### the thread mesh: structure for every parameter set -/
/-- **C16/C04, thread mesh.** Whatever the diameters, pitch, length, segment count, lead-in/out
angles and hand: the mesh has 4 points per step, 8 triangles per step (minus the 4 saved at the two
ends), only triangles, only valid indices, and starts on the minor radius at z = 0
(point 2 is `(d_min/2, 0, 0)`). -/
theorem threadMesh_structure (dMin dMaj pitch length : ℝ) (segments : Nat) (li lo : ℝ) (left : Bool)
    (m : Mesh ℝ) (h : threadMesh dMin dMaj pitch length segments li lo left = some m) :
    ∃ nSteps, 2 ≤ nSteps ∧ m.points.length = 4 * nSteps ∧ m.faces.length = 8 * nSteps - 4 ∧
      (∀ f ∈ m.faces, f.length = 3 ∧ ∀ v ∈ f, v < m.points.length) ∧
      m.points[2]? = some ⟨dMin / 2, 0, 0⟩ := by
  obtain ⟨n, hn, sh⟩ := ThreadLemmas.threadMesh_shape dMin dMaj pitch length segments li lo left m h
  exact ⟨n, hn, sh.points, sh.faces, fun f hf => ⟨sh.tri f hf, sh.valid f hf⟩, sh.startZ⟩

/-- **C16, radii.** Every vertex of the thread mesh lies between the minor radius `d_min/2` and the
major radius `d_maj/2` (for 0 ≤ d_min ≤ d_maj and a lead-in angle ≥ 0), for every pitch, length,
segment count, lead-out angle and hand — proved by a second loop invariant over the builder's fold
(the interpolated lead-in/lead-out profile points never leave `[d_min/2, d_maj/2]`). -/
theorem threadMesh_radii (dMin dMaj pitch length : ℝ) (segments : Nat) (li lo : ℝ) (left : Bool) (m : Mesh ℝ)
    (h : threadMesh dMin dMaj pitch length segments li lo left = some m)
    (h0 : 0 ≤ dMin) (h1 : dMin ≤ dMaj) (hli : 0 ≤ li) :
    ∀ p ∈ m.points, (dMin / 2) ^ 2 ≤ p.x ^ 2 + p.y ^ 2 ∧ p.x ^ 2 + p.y ^ 2 ≤ (dMaj / 2) ^ 2 :=
  ThreadLemmas.threadMesh_radii dMin dMaj pitch length segments li lo left m h h0 h1 hli

/-- **C16, helix and hand.** Step `j` of the builder writes its root-line vertex (index `4(j+1)+2`) on the
minor radius at angle `±(j+1)·360/segments` degrees — `+` (counter-clockwise going up) for a right-hand
thread, `−` (clockwise) for a left-hand one — and at height `j · zStep`, `zStep = threadLength/nSteps`. -/
theorem threadMesh_helix (dMin dMaj pitch length : ℝ) (segments : Nat) (li lo : ℝ) (left : Bool) (m : Mesh ℝ)
    (h : threadMesh dMin dMaj pitch length segments li lo left = some m) :
    ∃ nSteps, 2 ≤ nSteps ∧
      nSteps = HasTrunc.trunc ((length - lit 7 / lit 10 * pitch) / pitch * (cast segments : ℝ)) ∧
      ∀ j, j < nSteps - 1 → m.points[4 * (j + 1) + 2]? =
        some (ThreadLemmas.rootPoint dMin segments left ((length - lit 7 / lit 10 * pitch) / (cast nSteps : ℝ)) j) :=
  ThreadLemmas.threadMesh_helix dMin dMaj pitch length segments li lo left m h

/-- **C16, one pitch per revolution** (within the one-step rounding of the step count): `segments`
steps lift the thread by `segments · zStep`, and `pitch ≤ segments · zStep < pitch · (1 + 1/nSteps)`. -/
theorem pitch_per_turn (pitch threadLength : ℝ) (segments : Nat) (hp : 0 < pitch) (hs : 0 < segments)
    (nSteps : Nat) (hn : nSteps = ⌊threadLength / pitch * (segments : ℝ)⌋₊) (hpos : 1 ≤ nSteps) :
    pitch ≤ (segments : ℝ) * (threadLength / (nSteps : ℝ)) ∧
      (segments : ℝ) * (threadLength / (nSteps : ℝ)) * (nSteps : ℝ) < pitch * ((nSteps : ℝ) + 1) :=
  ThreadLemmas.pitch_per_turn pitch threadLength segments hp hs nSteps hn hpos

/-- **C16/C04, the thread mesh is a closed surface.** For every parameter set for which the builder
returns a mesh (any number of steps ≥ 2, both hands, any lead-in/lead-out): the face list is exactly
two start triangles, eight triangles per step, two end triangles (`threadMesh_faceList`), and it
satisfies `closedOriented` — valid indices, three distinct vertices per face, no directed edge in two
faces, every directed edge matched by its reverse in another face. -/
theorem threadMesh_faceList (dMin dMaj pitch length : ℝ) (segments : Nat) (li lo : ℝ) (left : Bool)
    (m : Mesh ℝ) (h : threadMesh dMin dMaj pitch length segments li lo left = some m) :
    ∃ n, 2 ≤ n ∧ m.faces = ThreadClosed.threadFaces left n ∧ m.points.length = 4 * n :=
  ThreadClosed.threadMesh_faces dMin dMaj pitch length segments li lo left m h

theorem threadMesh_closed (dMin dMaj pitch length : ℝ) (segments : Nat) (li lo : ℝ) (left : Bool)
    (m : Mesh ℝ) (h : threadMesh dMin dMaj pitch length segments li lo left = some m) :
    Spec.closedOriented m.points.length m.faces = true :=
  ThreadClosed.threadMesh_closedOriented dMin dMaj pitch length segments li lo left m h

/-- non-vacuity: the smallest thread mesh (two rings) and a left-handed one with five rings -/
example : (ThreadClosed.threadFaces false 2).length = 12 ∧
    (Spec.allEdges (ThreadClosed.threadFaces false 2)).Nodup ∧
    MeshLemmas.EdgeClosed (Spec.allEdges (ThreadClosed.threadFaces false 2)) := by
  unfold MeshLemmas.EdgeClosed; decide
example : (Spec.allEdges (ThreadClosed.threadFaces true 4)).Nodup ∧
    MeshLemmas.EdgeClosed (Spec.allEdges (ThreadClosed.threadFaces true 4)) := by
  unfold MeshLemmas.EdgeClosed; decide

end ScadVerif.C16
