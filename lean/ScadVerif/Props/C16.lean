/-
C16 — see DESIGN.md §5.
-/
import ScadVerif.Lemmas.PtReal
import ScadVerif.Model.Parts
namespace ScadVerif.C16
open ScadVerif ScadVerif.Thread

/-- the table has a row for M2, so the lookup loop terminates for every requested size -/
theorem m2_listed : (findRow 2).isSome = true := by decide +kernel

end ScadVerif.C16
