/-
The lookup theorem of C16 restated about the *transcribed source* (`Tie/ThreadLookup.lean`).
-/
import ScadVerif.Props.C16
import ScadVerif.Tie.ThreadLookup
namespace ScadVerif.SrcC16
open ScadVerif ScadVerif.Thread

/-- for every `i32` the transcribed `m_table_lookup` returns the row of the largest listed size not above the
requested one (sizes below 2 count as 2); the walk never runs out of its bound and the final indexing never
misses -/
theorem m_table_lookup_spec (m : Int) :
    ∃ r, Src.metric_thread.m_table_lookup m = some r ∧ r.key ≤ C16.effective m ∧ findRow r.key = some r ∧
      ∀ k, r.key < k → k ≤ C16.effective m → findRow k = none := by
  rw [TieThreadLookup.m_table_lookup]
  exact C16.lookup_spec m

end ScadVerif.SrcC16
