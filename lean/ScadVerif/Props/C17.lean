/-
C17 — polar_array and cylinder chamfers place unchanged copies symmetrically.
-/
import ScadVerif.Lemmas.PtReal
import ScadVerif.Model.Parts
import ScadVerif.Spec.Rotation
set_option linter.unusedSectionVars false
namespace ScadVerif.C17
open ScadVerif ScadVerif.Parts

noncomputable instance : HasTrunc ℝ := ⟨fun x => ⌊x⌋₊⟩

/-- peel `n` placements `… + rotate([0,0,a]) { leaf }` off a left-deep union:
the placements (outermost last) and what remains -/
def peel {ν : Type} : Nat → Scad ν → Option (List (ν × Scad ν) × Scad ν)
  | 0, t => some ([], t)
  | n + 1, .mk .union (.cons l (.cons (.mk (.rotate none false v) (.cons leaf .nil)) .nil)) =>
    (peel n l).map fun (ps, base) => (ps ++ [(v.z, leaf)], base)
  | _ + 1, _ => none

/-- adding the placements `as` one after another -/
def addAll (s : Scad ℝ) (as : List ℝ) (base : Scad ℝ) : Scad ℝ :=
  as.foldl (fun r a => Scad.add r (rotateV ⟨0, 0, a⟩ [s])) base

theorem peel_addAll (s base : Scad ℝ) (as : List ℝ) :
    peel as.length (addAll s as base) = some (as.map (·, s), base) := by
  induction as using List.reverseRecOn with
  | nil => simp [addAll, peel]
  | append_singleton as a ih =>
    have e : addAll s (as ++ [a]) base = Scad.add (addAll s as base) (rotateV ⟨0, 0, a⟩ [s]) := by
      simp [addAll, List.foldl_append]
    rw [e, List.length_append, List.length_singleton]
    simp only [Scad.add, rotateV, Scad.node, ScadList.ofList, peel, ih, Option.map_some, List.map_append,
      List.map_cons, List.map_nil]

/-- the rotation angle of copy `i` -/
noncomputable def angle (count : Nat) (degrees : ℝ) (i : Nat) : ℝ :=
  (i : ℝ) * -degrees / ((if degrees = 360 then count else count - 1 : Nat) : ℝ)

/-- `polar_array(s, count, degrees)` is `s` plus, for k = 0 … count−1, the unmodified `s` rotated
about Z by `angle k = −k·step` -/
theorem polarArray_placements (s : Scad ℝ) (count : Nat) (degrees : ℝ) (h : degrees ≤ 360) :
    ∃ t, polarArray s count degrees = some t ∧
      peel count t = some ((List.range count).map fun i => (angle count degrees i, s), s) := by
  have hle : Cmp.leb degrees (lit 360 : ℝ) = true := by simp [lit, h]
  refine ⟨addAll s ((List.range count).map (angle count degrees)) s, ?_, ?_⟩
  · simp only [polarArray, hle, Bool.not_true, Bool.false_eq_true, if_false, addAll, List.foldl_map]
    have hf : (fun (result : Scad ℝ) (i : Nat) => Scad.add result (rotateV
          ⟨0, 0, cast i * -degrees / cast (if Cmp.eqb degrees (lit 360) = true then count else count - 1)⟩ [s])) =
        (fun x y => Scad.add x (rotateV ⟨0, 0, angle count degrees y⟩ [s])) := by
      funext r i
      simp only [angle, lit, cast_eq_natCast]
      by_cases hd : degrees = 360
      · simp [hd, Cmp.eqb]
      · simp [hd, Cmp.eqb]
    rw [hf]
  · have := peel_addAll s s ((List.range count).map (angle count degrees))
    rw [List.length_map, List.length_range, List.map_map] at this
    exact this

/-- the step: 360/count for a full circle, degrees/(count−1) otherwise -/
theorem angle_full (count i : Nat) (hc : 0 < count) : angle count 360 i = -((i : ℝ) * (360 / count)) := by
  simp [angle]; field_simp
theorem angle_partial (count i : Nat) (degrees : ℝ) (hd : degrees ≠ 360) (hc : 1 < count) :
    angle count degrees i = -((i : ℝ) * (degrees / ((count : ℝ) - 1))) := by
  simp only [angle, hd, if_false]
  have : ((count - 1 : Nat) : ℝ) = (count : ℝ) - 1 := by
    rw [Nat.cast_sub (by omega)]; simp
  rw [this]
  have hne : (count : ℝ) - 1 ≠ 0 := by
    have : (1 : ℝ) < count := by exact_mod_cast hc
    linarith
  field_simp
theorem angle_zero (count : Nat) (degrees : ℝ) : angle count degrees 0 = 0 := by simp [angle]

/-- the assertion `degrees <= 360` -/
theorem polarArray_rejects (s : Scad ℝ) (count : Nat) (degrees : ℝ) (h : 360 < degrees) :
    polarArray s count degrees = none := by
  have hle : Cmp.leb degrees (lit 360 : ℝ) = false := by
    rw [Bool.eq_false_iff]; simp [lit]; exact h
  simp [polarArray, hle, h]

/-! ### cylinder chamfers -/
/-- one ring cutter at the bottom and *the same* ring, turned by rotate([180,0,0]) and lifted by
the height, at the top -/
theorem chamfer_union (size over radius height : ℝ) (seg : Nat) :
    externalCylinderChamfer size over radius height seg false =
      union [externalCircleChamfer size over radius 360 seg,
        translate ⟨0, 0, height⟩ [rotateV ⟨180, 0, 0⟩ [externalCircleChamfer size over radius 360 seg]]] := by
  simp [externalCylinderChamfer, lit]
/-- the ring is the chamfer outline revolved with the requested angle and segment count -/
theorem circle_chamfer_structure (size over radius degrees : ℝ) (seg : Nat) :
    externalCircleChamfer size over radius degrees seg =
      Scad.node (.rotateExtrude degrees 5 none none (some seg))
        [translate ⟨radius + size / 2 + over / 2, -over, 0⟩
          [rotateA 90 [Scad.node (.polygon (Dim2.chamfer size over) none 1) []]]] := by
  simp [externalCircleChamfer, lit]
/-- `translate([0,0,h]) rotate([180,0,0])` maps (x, y, z) to (x, −y, h − z): the mirror image
about the mid-height plane z = h/2 composed with the reflection y ↦ −y, which fixes every full
revolve about Z -/
theorem top_is_mirror (h : ℝ) (p : Pt3 ℝ) :
    Pt3.add (Spec.rotX (-1) 0 p) ⟨0, 0, h⟩ = ⟨p.x, -p.y, h - p.z⟩ := by
  ext <;> simp [Spec.rotX, Pt3.add]; ring
theorem revolve_symmetric (ρ z φ : ℝ) :
    (⟨ρ * Real.cos φ, -(ρ * Real.sin φ), z⟩ : Pt3 ℝ) = ⟨ρ * Real.cos (-φ), ρ * Real.sin (-φ), z⟩ := by
  simp

/-- non-vacuity of `polarArray_placements`: three copies over a full circle -/
example : (360 : ℝ) ≤ 360 := le_refl _

end ScadVerif.C17
