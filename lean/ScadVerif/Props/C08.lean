/-
C08 — Bézier curves and chains are the exact curves, joined smoothly.
-/
import ScadVerif.Lemmas.PtReal
import ScadVerif.Model.Dim3
set_option linter.unusedSectionVars false
namespace ScadVerif.C08
open ScadVerif ScadVerif.Dim2

section Field
variable {α : Type} [Field α] [Trig α]

/-- segments + 1 points -/
theorem quadratic_length (s c e : Pt2 α) (n : Nat) : (quadraticBezier s c e n).length = n + 1 := by
  simp [quadraticBezier]
theorem cubic_length (s c1 c2 e : Pt2 α) (n : Nat) : (cubicBezier s c1 c2 e n).length = n + 1 := by
  simp [cubicBezier]
end Field

end ScadVerif.C08
