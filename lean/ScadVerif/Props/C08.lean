/-
C08 — Bézier curves and chains are the exact curves, joined smoothly.

The theorems are about Model/Dim2.lean and Model/Dim3.lean (the models of the free functions and
of the chain builders of dim2.rs / dim3.rs; the correspondence run compares every generated curve,
chain history and star with the crate's output) over an arbitrary field of characteristic zero, and
over ℝ where an order or a square root is needed.  They hold for all control points, all segment
counts ≥ 1 and all histories `new → add* → [close]`.
-/
import ScadVerif.Lemmas.PtReal
import ScadVerif.Model.Dim3
set_option linter.unusedSectionVars false
namespace ScadVerif.C08
open ScadVerif ScadVerif.Dim2

section Ext
variable {α : Type} [Field α]
theorem pt2_ext {a b : Pt2 α} (hx : a.x = b.x) (hy : a.y = b.y) : a = b := by
  cases a; cases b; simp_all
theorem pt3_ext {a b : Pt3 α} (hx : a.x = b.x) (hy : a.y = b.y) (hz : a.z = b.z) : a = b := by
  cases a; cases b; simp_all

theorem add_x (a b : Pt2 α) : (a + b).x = a.x + b.x := rfl
theorem add_y (a b : Pt2 α) : (a + b).y = a.y + b.y := rfl
theorem sub_x (a b : Pt2 α) : (a - b).x = a.x - b.x := rfl
theorem sub_y (a b : Pt2 α) : (a - b).y = a.y - b.y := rfl
theorem smul_x (a : Pt2 α) (k : α) : (a * k).x = a.x * k := rfl
theorem smul_y (a : Pt2 α) (k : α) : (a * k).y = a.y * k := rfl
theorem add3_x (a b : Pt3 α) : (a + b).x = a.x + b.x := rfl
theorem add3_y (a b : Pt3 α) : (a + b).y = a.y + b.y := rfl
theorem add3_z (a b : Pt3 α) : (a + b).z = a.z + b.z := rfl
theorem smul3_x (a : Pt3 α) (k : α) : (a * k).x = a.x * k := rfl
theorem smul3_y (a : Pt3 α) (k : α) : (a * k).y = a.y * k := rfl
theorem smul3_z (a : Pt3 α) (k : α) : (a * k).z = a.z * k := rfl

end Ext

section Field
variable {α : Type} [Field α] [CharZero α] [Trig α]

/-- segments + 1 points -/
theorem quadratic_length (s c e : Pt2 α) (n : Nat) : (quadraticBezier s c e n).length = n + 1 := by
  simp [quadraticBezier]
theorem cubic_length (s c1 c2 e : Pt2 α) (n : Nat) : (cubicBezier s c1 c2 e n).length = n + 1 := by
  simp [cubicBezier]
theorem quadratic3_length (s c e : Pt3 α) (n : Nat) : (Dim3.quadraticBezier s c e n).length = n + 1 := by
  simp [Dim3.quadraticBezier]
theorem cubic3_length (s c1 c2 e : Pt3 α) (n : Nat) : (Dim3.cubicBezier s c1 c2 e n).length = n + 1 := by
  simp [Dim3.cubicBezier]

/-- the sample parameters are `i / segments` -/
theorem param_eq (i n : Nat) : (param i n : α) = (i : α) / (n : α) := by simp [param]
theorem param_zero (n : Nat) : (param 0 n : α) = 0 := by simp [param]
theorem param_last (n : Nat) (hn : n ≠ 0) : (param n n : α) = 1 := by
  simp [param, Nat.cast_ne_zero.mpr hn]

/-- **the sample points**: point `i` is the curve's point at `t = i / segments` -/
theorem quadratic_get (s c e : Pt2 α) (n i : Nat) (h : i ≤ n) :
    (quadraticBezier s c e n)[i]? = some (quadPoint s c e ((i : α) / (n : α))) := by
  simp [quadraticBezier, List.getElem?_map, List.getElem?_range (show i < n + 1 by omega), param_eq]
theorem cubic_get (s c1 c2 e : Pt2 α) (n i : Nat) (h : i ≤ n) :
    (cubicBezier s c1 c2 e n)[i]? = some (cubicPoint s c1 c2 e ((i : α) / (n : α))) := by
  simp [cubicBezier, List.getElem?_map, List.getElem?_range (show i < n + 1 by omega), param_eq]

/-- **exact end points** -/
theorem quadPoint_zero (s c e : Pt2 α) : quadPoint s c e 0 = s := by
  apply pt2_ext <;> simp [quadPoint, add_x, add_y, smul_x, smul_y]
theorem quadPoint_one (s c e : Pt2 α) : quadPoint s c e 1 = e := by
  apply pt2_ext <;> simp [quadPoint, add_x, add_y, smul_x, smul_y]
theorem cubicPoint_zero (s c1 c2 e : Pt2 α) : cubicPoint s c1 c2 e 0 = s := by
  apply pt2_ext <;> simp [cubicPoint, add_x, add_y, smul_x, smul_y]
theorem cubicPoint_one (s c1 c2 e : Pt2 α) : cubicPoint s c1 c2 e 1 = e := by
  apply pt2_ext <;> simp [cubicPoint, add_x, add_y, smul_x, smul_y]

theorem quadratic_first (s c e : Pt2 α) (n : Nat) : (quadraticBezier s c e n)[0]? = some s := by
  rw [quadratic_get s c e n 0 (Nat.zero_le _)]; simp [quadPoint_zero]
theorem quadratic_last (s c e : Pt2 α) (n : Nat) (hn : n ≠ 0) : (quadraticBezier s c e n)[n]? = some e := by
  rw [quadratic_get s c e n n (Nat.le_refl _), div_self (Nat.cast_ne_zero.mpr hn), quadPoint_one]
theorem cubic_first (s c1 c2 e : Pt2 α) (n : Nat) : (cubicBezier s c1 c2 e n)[0]? = some s := by
  rw [cubic_get s c1 c2 e n 0 (Nat.zero_le _)]; simp [cubicPoint_zero]
theorem cubic_last (s c1 c2 e : Pt2 α) (n : Nat) (hn : n ≠ 0) : (cubicBezier s c1 c2 e n)[n]? = some e := by
  rw [cubic_get s c1 c2 e n n (Nat.le_refl _), div_self (Nat.cast_ne_zero.mpr hn), cubicPoint_one]

/-- linear interpolation, as de Casteljau uses it -/
def mix (a b : Pt2 α) (t : α) : Pt2 α := a * (1 - t) + b * t

/-- **Bernstein form = de Casteljau's construction** -/
theorem quad_deCasteljau (s c e : Pt2 α) (t : α) :
    quadPoint s c e t = mix (mix s c t) (mix c e t) t := by
  apply pt2_ext <;> simp [quadPoint, mix, add_x, add_y, smul_x, smul_y] <;> ring
theorem cubic_deCasteljau (s c1 c2 e : Pt2 α) (t : α) :
    cubicPoint s c1 c2 e t =
      mix (mix (mix s c1 t) (mix c1 c2 t) t) (mix (mix c1 c2 t) (mix c2 e t) t) t := by
  apply pt2_ext <;> simp [cubicPoint, mix, add_x, add_y, smul_x, smul_y] <;> ring

/-- **2D and 3D agree on planar input**, in any plane `z = const` -/
theorem quad_planar (s c e : Pt2 α) (z t : α) :
    Dim3.quadPoint (s.asPt3 z) (c.asPt3 z) (e.asPt3 z) t = (quadPoint s c e t).asPt3 z := by
  apply pt3_ext <;>
    simp [Dim3.quadPoint, quadPoint, Pt2.asPt3, add3_x, add3_y, add3_z, smul3_x, smul3_y, smul3_z, add_x,
      add_y, smul_x, smul_y] <;> ring
theorem cubic_planar (s c1 c2 e : Pt2 α) (z t : α) :
    Dim3.cubicPoint (s.asPt3 z) (c1.asPt3 z) (c2.asPt3 z) (e.asPt3 z) t =
      (cubicPoint s c1 c2 e t).asPt3 z := by
  apply pt3_ext <;>
    simp [Dim3.cubicPoint, cubicPoint, Pt2.asPt3, add3_x, add3_y, add3_z, smul3_x, smul3_y, smul3_z, add_x,
      add_y, smul_x, smul_y] <;> ring
theorem cubicBezier_planar (s c1 c2 e : Pt2 α) (z : α) (n : Nat) :
    Dim3.cubicBezier (s.asPt3 z) (c1.asPt3 z) (c2.asPt3 z) (e.asPt3 z) n =
      (cubicBezier s c1 c2 e n).map (·.asPt3 z) := by
  simp [Dim3.cubicBezier, cubicBezier, cubic_planar, Function.comp_def]
theorem quadraticBezier_planar (s c e : Pt2 α) (z : α) (n : Nat) :
    Dim3.quadraticBezier (s.asPt3 z) (c.asPt3 z) (e.asPt3 z) n =
      (quadraticBezier s c e n).map (·.asPt3 z) := by
  simp [Dim3.quadraticBezier, quadraticBezier, quad_planar, Function.comp_def]

/-- 3D curves: exact end points -/
theorem cubic3_zero (s c1 c2 e : Pt3 α) : Dim3.cubicPoint s c1 c2 e 0 = s := by
  apply pt3_ext <;> simp [Dim3.cubicPoint, add3_x, add3_y, add3_z, smul3_x, smul3_y, smul3_z]
theorem cubic3_one (s c1 c2 e : Pt3 α) : Dim3.cubicPoint s c1 c2 e 1 = e := by
  apply pt3_ext <;> simp [Dim3.cubicPoint, add3_x, add3_y, add3_z, smul3_x, smul3_y, smul3_z]
theorem quad3_zero (s c e : Pt3 α) : Dim3.quadPoint s c e 0 = s := by
  apply pt3_ext <;> simp [Dim3.quadPoint, add3_x, add3_y, add3_z, smul3_x, smul3_y, smul3_z]
theorem quad3_one (s c e : Pt3 α) : Dim3.quadPoint s c e 1 = e := by
  apply pt3_ext <;> simp [Dim3.quadPoint, add3_x, add3_y, add3_z, smul3_x, smul3_y, smul3_z]

end Field

/-! ### convex hull (needs an order) -/
section Hull
/-- the Bernstein weights are non-negative on [0,1] and sum to one: every sample is a convex
combination of the control points, so the curve stays inside their convex hull -/
theorem cubic_hull (s c1 c2 e : Pt2 ℝ) (t : ℝ) (h0 : 0 ≤ t) (h1 : t ≤ 1) :
    ∃ w0 w1 w2 w3 : ℝ, 0 ≤ w0 ∧ 0 ≤ w1 ∧ 0 ≤ w2 ∧ 0 ≤ w3 ∧ w0 + w1 + w2 + w3 = 1 ∧
      cubicPoint s c1 c2 e t = s * w0 + c1 * w1 + c2 * w2 + e * w3 := by
  have h2 : 0 ≤ 1 - t := by linarith
  refine ⟨(1 - t) * (1 - t) * (1 - t), 3 * t * (1 - t) * (1 - t), 3 * t * t * (1 - t), t * t * t,
    by positivity, by positivity, by positivity, by positivity, by ring, ?_⟩
  apply pt2_ext <;> simp [cubicPoint, add_x, add_y, smul_x, smul_y] <;> ring
theorem quad_hull (s c e : Pt2 ℝ) (t : ℝ) (h0 : 0 ≤ t) (h1 : t ≤ 1) :
    ∃ w0 w1 w2 : ℝ, 0 ≤ w0 ∧ 0 ≤ w1 ∧ 0 ≤ w2 ∧ w0 + w1 + w2 = 1 ∧
      quadPoint s c e t = s * w0 + c * w1 + e * w2 := by
  have h2 : 0 ≤ 1 - t := by linarith
  refine ⟨(1 - t) * (1 - t), 2 * t * (1 - t), t * t, by positivity, by positivity, by positivity,
    by ring, ?_⟩
  apply pt2_ext <;> simp [quadPoint, add_x, add_y, smul_x, smul_y] <;> ring
/-- every sample parameter lies in [0,1] -/
theorem param_unit (i n : Nat) (h : i ≤ n) (hn : n ≠ 0) : 0 ≤ (param i n : ℝ) ∧ (param i n : ℝ) ≤ 1 := by
  rw [param_eq]
  have hn' : (0 : ℝ) < n := by exact_mod_cast Nat.pos_of_ne_zero hn
  constructor
  · positivity
  · rw [div_le_one hn']; exact_mod_cast h
end Hull

/-! ### chains: every history `new → add* → [close]` -/
section Chains
variable {α : Type} [Field α] [Trig α] [HasSqrt α]

/-- consecutive curves share their end point exactly, and the outgoing handle is the incoming
tangent direction scaled (tangent continuity) -/
def JoinedPair (a b : Cubic α) : Prop :=
  b.start = a.end_ ∧ ∃ k : α, b.control1 - b.start = (a.end_ - a.control2).normalized * k

def Joined : List (Cubic α) → Prop
  | a :: b :: rest => JoinedPair a b ∧ Joined (b :: rest)
  | _ => True

theorem sub_add_cancel_pt (a b : Pt2 α) : a + b - a = b := by
  apply pt2_ext <;> simp [add_x, add_y, sub_x, sub_y]

theorem nextCurve_joined (last : Cubic α) (len : α) (c2 e : Pt2 α) (n : Nat) :
    JoinedPair last (nextCurve last len c2 e n) :=
  ⟨rfl, len, by simp only [nextCurve]; exact sub_add_cancel_pt _ _⟩

theorem joined_append (cs : List (Cubic α)) (last c : Cubic α) (hl : cs.getLast? = some last)
    (hj : Joined cs) (hp : JoinedPair last c) : Joined (cs ++ [c]) := by
  induction cs with
  | nil => simp at hl
  | cons a t ih =>
    cases t with
    | nil =>
      simp only [List.getLast?_singleton, Option.some.injEq] at hl
      subst hl
      exact ⟨hp, True.intro⟩
    | cons b t' =>
      have hl' : (b :: t').getLast? = some last := by simpa [List.getLast?_cons_cons] using hl
      exact ⟨hj.1, ih hl' hj.2⟩

/-- a chain built by `new` and any number of `add`s -/
inductive Built : Chain α → Prop
  | new (s c1 c2 e : Pt2 α) (n : Nat) : Built (Chain.new s c1 c2 e n)
  | add (ch : Chain α) (len : α) (c2 e : Pt2 α) (n : Nat) : Built ch → Built (ch.add len c2 e n)

theorem built_nonempty (ch : Chain α) (h : Built ch) : ch.curves ≠ [] := by
  induction h with
  | new => simp [Chain.new]
  | add ch len c2 e n _ ih =>
    unfold Chain.add
    cases hl : ch.curves.getLast? with
    | none => simpa using ih
    | some last => simp

/-- **every joint of every history is smooth** -/
theorem built_joined (ch : Chain α) (h : Built ch) : Joined ch.curves := by
  induction h with
  | new => simp [Chain.new, Joined]
  | add ch len c2 e n hb ih =>
    unfold Chain.add
    cases hl : ch.curves.getLast? with
    | none => simpa using ih
    | some last => exact joined_append _ last _ hl ih (nextCurve_joined last len c2 e n)

/-- `add` ends the chain at the new knot, keeps every earlier curve, and is open -/
theorem add_last (ch : Chain α) (h : Built ch) (len : α) (c2 e : Pt2 α) (n : Nat) :
    ((ch.add len c2 e n).curves.getLast?.map (·.end_) = some e) ∧
      (ch.add len c2 e n).curves.length = ch.curves.length + 1 ∧
      (ch.add len c2 e n).curves.take ch.curves.length = ch.curves := by
  have hne := built_nonempty ch h
  unfold Chain.add
  cases hl : ch.curves.getLast? with
  | none => simp [List.getLast?_eq_none_iff] at hl; exact absurd hl hne
  | some last => simp [nextCurve]

theorem built_open (ch : Chain α) (h : Built ch) : ch.closed = false := by
  induction h with
  | new => rfl
  | add ch len c2 e n _ ih =>
    unfold Chain.add
    cases ch.curves.getLast? <;> simpa using ih

/-- what `close` builds: the closing curve `nc` is appended and the first curve's first handle is
re-aimed along `nc`'s incoming tangent -/
theorem close_eq (ch : Chain α) (f last : Cubic α) (rest : List (Cubic α)) (hc : ch.curves = f :: rest)
    (hl : (f :: rest).getLast? = some last) (len : α) (c2 : Pt2 α) (startLen : α) (n : Nat) :
    ch.close len c2 startLen n =
      ⟨{ f with control1 := (nextCurve last len c2 f.start n).end_ +
          ((nextCurve last len c2 f.start n).end_ - (nextCurve last len c2 f.start n).control2).normalized *
            startLen } :: (rest ++ [nextCurve last len c2 f.start n]), true⟩ := by
  have h1 : (f :: (rest ++ [nextCurve last len c2 f.start n])).getLast? =
      some (nextCurve last len c2 f.start n) := by
    rw [← List.cons_append]; exact List.getLast?_concat ..
  simp only [Chain.close, hc, Chain.add, hl, List.cons_append, h1]

/-- **closing**: the closing curve ends at the first knot, and the first curve's outgoing handle is
re-aimed along the closing curve's incoming tangent: the start knot is smooth too -/
theorem close_spec (ch : Chain α) (h : Built ch) (len : α) (c2 : Pt2 α) (startLen : α) (n : Nat) :
    (ch.close len c2 startLen n).closed = true ∧
    (ch.close len c2 startLen n).curves.length = ch.curves.length + 1 ∧
    ∃ first last, (ch.close len c2 startLen n).curves.head? = some first ∧
      (ch.close len c2 startLen n).curves.getLast? = some last ∧
      last.end_ = first.start ∧
      first.control1 - first.start = (last.end_ - last.control2).normalized * startLen := by
  have hne := built_nonempty ch h
  cases hc : ch.curves with
  | nil => exact absurd hc hne
  | cons f rest =>
    cases hl : (f :: rest).getLast? with
    | none => simp at hl
    | some last =>
      rw [close_eq ch f last rest hc hl]
      refine ⟨rfl, by simp, _, nextCurve last len c2 f.start n, rfl, ?_, rfl, ?_⟩
      · rw [← List.cons_append]; exact List.getLast?_concat ..
      · exact sub_add_cancel_pt _ _

/-- … and every joint of the closed chain is smooth as well -/
theorem close_joined (ch : Chain α) (h : Built ch) (len : α) (c2 : Pt2 α) (startLen : α) (n : Nat) :
    Joined (ch.close len c2 startLen n).curves := by
  have hne := built_nonempty ch h
  have hj := built_joined ch h
  cases hc : ch.curves with
  | nil => exact absurd hc hne
  | cons f rest =>
    cases hl : (f :: rest).getLast? with
    | none => simp at hl
    | some last =>
      rw [close_eq ch f last rest hc hl]
      rw [hc] at hj
      have := joined_append (f :: rest) last _ hl hj (nextCurve_joined last len c2 f.start n)
      simp only [List.cons_append] at this ⊢
      cases hr : rest ++ [nextCurve last len c2 f.start n] with
      | nil => exact True.intro
      | cons g r =>
        rw [hr] at this
        exact ⟨⟨this.1.1, this.1.2⟩, this.2⟩

/-- `bezier_star` is `BezierStar::new(..).gen_points()` -/
theorem bezierStar_eq [CharZero α] (nPoints : Nat) (innerR innerH outerR outerH : α) (segments : Nat) :
    bezierStar nPoints innerR innerH outerR outerH segments =
      (bezierStarChain nPoints innerR innerH outerR outerH segments).map Chain.genPoints := rfl

end Chains

/-! ### the points of a chain -/
section GenPoints
set_option linter.unusedVariables false
variable {α : Type} [Field α] [CharZero α] [Trig α] [HasSqrt α]

/-- one step of `gen_points`: drop the joint (it is repeated by the next curve) and append the samples -/
def gstep (acc : List (Pt2 α)) (c : Cubic α) : List (Pt2 α) :=
  acc.dropLast ++ cubicBezier c.start c.control1 c.control2 c.end_ c.segments

def segSum (cs : List (Cubic α)) : Nat := (cs.map (·.segments)).sum

theorem gstep_length (acc : List (Pt2 α)) (c : Cubic α) (h : 1 ≤ acc.length) :
    (gstep acc c).length = acc.length + c.segments := by
  simp [gstep, cubic_length]; omega

theorem gfold_length : ∀ (cs : List (Cubic α)) (acc : List (Pt2 α)), 1 ≤ acc.length →
    (cs.foldl gstep acc).length = acc.length + segSum cs
  | [], acc, _ => by simp [segSum]
  | c :: cs, acc, h => by
    rw [List.foldl_cons, gfold_length cs (gstep acc c) (by rw [gstep_length acc c h]; omega),
      gstep_length acc c h]
    simp [segSum]; omega

/-- **point count of a chain**: an open chain has one point per segment plus one, a closed chain
one per segment (the first point is not repeated) -/
theorem genPoints_length (ch : Chain α) :
    ch.genPoints.length = if ch.closed then segSum ch.curves else segSum ch.curves + 1 := by
  have h := gfold_length ch.curves [(⟨0, 0⟩ : Pt2 α)] (by simp)
  have e : ch.curves.foldl (fun acc c => acc.dropLast ++ cubicBezier c.start c.control1 c.control2 c.end_ c.segments)
      [(⟨0, 0⟩ : Pt2 α)] = ch.curves.foldl gstep [(⟨0, 0⟩ : Pt2 α)] := rfl
  unfold Chain.genPoints
  simp only [e]
  split
  · simp [h]
  · simp [h]; omega

/-- earlier points survive a step (only the last one is replaced) -/
theorem gstep_prefix (acc : List (Pt2 α)) (c : Cubic α) (i : Nat) (hi : i + 1 < acc.length) :
    (gstep acc c)[i]? = acc[i]? := by
  unfold gstep
  rw [List.getElem?_append_left (by simp; omega)]
  simp [List.getElem?_dropLast, hi]

theorem gfold_prefix : ∀ (cs : List (Cubic α)) (acc : List (Pt2 α)) (i : Nat), i + 1 < acc.length →
    (cs.foldl gstep acc)[i]? = acc[i]?
  | [], _, _, _ => rfl
  | c :: cs, acc, i, hi => by
    rw [List.foldl_cons, gfold_prefix cs (gstep acc c) i (by rw [gstep_length acc c (by omega)]; omega),
      gstep_prefix acc c i hi]

/-- the joint written by a step is the new curve's start point -/
theorem gstep_joint (acc : List (Pt2 α)) (c : Cubic α) (h : 1 ≤ acc.length) :
    (gstep acc c)[acc.length - 1]? = some c.start := by
  unfold gstep
  rw [List.getElem?_append_right (by simp)]
  simp only [List.length_dropLast, Nat.sub_self]
  exact cubic_first c.start c.control1 c.control2 c.end_ c.segments

/-- **a chain passes through every knot, in order**: the point at position `Σ_{j<k} segments_j` is the
start point of curve `k` (all segment counts ≥ 1) -/
theorem gfold_knots : ∀ (cs : List (Cubic α)) (acc : List (Pt2 α)) (k : Nat) (c : Cubic α), 1 ≤ acc.length →
    (∀ x ∈ cs, 1 ≤ x.segments) → cs[k]? = some c →
    (cs.foldl gstep acc)[acc.length - 1 + segSum (cs.take k)]? = some c.start
  | [], _, k, _, _, _, hk => by simp at hk
  | x :: xs, acc, 0, c, h, hs, hk => by
    simp only [List.getElem?_cons_zero, Option.some.injEq] at hk
    subst hk
    have hx := hs x (by simp)
    rw [List.foldl_cons, List.take_zero]
    simp only [segSum, List.map_nil, List.sum_nil, Nat.add_zero]
    rw [gfold_prefix xs (gstep acc x) (acc.length - 1) (by rw [gstep_length acc x h]; omega)]
    exact gstep_joint acc x h
  | x :: xs, acc, k + 1, c, h, hs, hk => by
    simp only [List.getElem?_cons_succ] at hk
    have ih := gfold_knots xs (gstep acc x) k c (by rw [gstep_length acc x h]; omega)
      (fun y hy => hs y (by simp [hy])) hk
    rw [List.foldl_cons]
    rw [gstep_length acc x h] at ih
    have : acc.length - 1 + segSum ((x :: xs).take (k + 1)) = acc.length + x.segments - 1 + segSum (xs.take k) := by
      simp [segSum]; omega
    rw [this]; exact ih


theorem segSum_take_lt (cs : List (Cubic α)) (k : Nat) (c : Cubic α) (hs : ∀ x ∈ cs, 1 ≤ x.segments)
    (hk : cs[k]? = some c) : segSum (cs.take k) + 1 ≤ segSum cs := by
  induction cs generalizing k with
  | nil => simp at hk
  | cons x xs ih =>
    cases k with
    | zero =>
      have := hs x (by simp)
      simp [segSum]; omega
    | succ k =>
      simp only [List.getElem?_cons_succ] at hk
      have := ih k (fun y hy => hs y (by simp [hy])) hk
      simp [segSum] at this ⊢; omega

/-- **C08, chains pass through every knot in order** (open or closed): with `kₖ = Σ_{j<k} segmentsⱼ`,
point `kₖ` of `gen_points` is the start point of curve `k` -/
theorem genPoints_knots (ch : Chain α) (k : Nat) (c : Cubic α) (hs : ∀ x ∈ ch.curves, 1 ≤ x.segments)
    (hk : ch.curves[k]? = some c) : ch.genPoints[segSum (ch.curves.take k)]? = some c.start := by
  have h := gfold_knots ch.curves [(⟨0, 0⟩ : Pt2 α)] k c (by simp) hs hk
  have hl := gfold_length ch.curves [(⟨0, 0⟩ : Pt2 α)] (by simp)
  have hlt := segSum_take_lt ch.curves k c hs hk
  have e : ch.curves.foldl (fun acc c => acc.dropLast ++ cubicBezier c.start c.control1 c.control2 c.end_ c.segments)
      [(⟨0, 0⟩ : Pt2 α)] = ch.curves.foldl gstep [(⟨0, 0⟩ : Pt2 α)] := rfl
  simp only [List.length_singleton, Nat.sub_self, Nat.zero_add] at h hl
  unfold Chain.genPoints
  simp only [e]
  split
  · rw [List.getElem?_dropLast, if_pos (by rw [hl]; omega)]; exact h
  · exact h


end GenPoints

/-- the first published parameter, `i * (1/segments)`, misses the end point in floating point; in
exact arithmetic both agree, which is why only the implementation run could expose it -/
theorem paramLegacy_eq_param {α : Type} [Field α] (i n : Nat) : (paramLegacy i n : α) = param i n := by
  simp [paramLegacy, param, div_eq_mul_inv]

end ScadVerif.C08
