/-
C12 — degree-based trig helpers are the trig functions in degrees.
Theorems over ℝ with Mathlib's sin/cos/tan/arcsin/arccos/arctan (DESIGN §3.3: libm = real functions).
-/
import ScadVerif.Lemmas.RealInst
namespace ScadVerif.C12
open ScadVerif Real

theorem toRad_eq (d : ℝ) : toRad d = d * (π / 180) := by simp [toRad]
theorem toDeg_eq (r : ℝ) : toDeg r = r * (180 / π) := by simp [toDeg]

theorem toDeg_toRad (d : ℝ) : toDeg (toRad d) = d := by
  rw [toRad_eq, toDeg_eq]; field_simp

theorem dsin_eq (d : ℝ) : dsin d = sin (d * (π / 180)) := by simp [dsin, toRad]
theorem dcos_eq (d : ℝ) : dcos d = cos (d * (π / 180)) := by simp [dcos, toRad]
theorem dtan_eq (d : ℝ) : dtan d = tan (d * (π / 180)) := by simp [dtan, toRad]
theorem dasin_eq (x : ℝ) : dasin x = arcsin x * (180 / π) := by simp [dasin, toDeg]
theorem dacos_eq (x : ℝ) : dacos x = arccos x * (180 / π) := by simp [dacos, toDeg]
theorem datan_eq (x : ℝ) : datan x = arctan x * (180 / π) := by simp [datan, toDeg]

/-- `dasin` inverts `dsin` on [-90, 90] -/
theorem dasin_dsin {a : ℝ} (h₁ : -90 ≤ a) (h₂ : a ≤ 90) : dasin (dsin a) = a := by
  have hp := pi_pos
  have e : dasin (dsin a) = toDeg (arcsin (sin (toRad a))) := rfl
  rw [e, arcsin_sin, toDeg_toRad]
  · rw [toRad_eq]; nlinarith
  · rw [toRad_eq]; nlinarith

/-- `dacos` inverts `dcos` on [0, 180] -/
theorem dacos_dcos {a : ℝ} (h₁ : 0 ≤ a) (h₂ : a ≤ 180) : dacos (dcos a) = a := by
  have hp := pi_pos
  have e : dacos (dcos a) = toDeg (arccos (cos (toRad a))) := rfl
  rw [e, arccos_cos, toDeg_toRad]
  · rw [toRad_eq]; positivity
  · rw [toRad_eq]; nlinarith

/-- `datan` inverts `dtan` on (-90, 90) -/
theorem datan_dtan {a : ℝ} (h₁ : -90 < a) (h₂ : a < 90) : datan (dtan a) = a := by
  have hp := pi_pos
  have e : datan (dtan a) = toDeg (arctan (tan (toRad a))) := rfl
  rw [e, arctan_tan, toDeg_toRad]
  · rw [toRad_eq]; nlinarith
  · rw [toRad_eq]; nlinarith

/-- the results are angles in degrees: ranges of the inverse functions -/
theorem dasin_range (x : ℝ) : -90 ≤ dasin x ∧ dasin x ≤ 90 := by
  have hp := pi_pos
  rw [dasin_eq]
  have h1 := neg_pi_div_two_le_arcsin x
  have h2 := arcsin_le_pi_div_two x
  have hk : 0 < 180 / π := by positivity
  have e90 : (90 : ℝ) = π / 2 * (180 / π) := by field_simp; ring
  constructor
  · calc (-90 : ℝ) = -(π / 2) * (180 / π) := by rw [neg_mul, ← e90]
      _ ≤ arcsin x * (180 / π) := mul_le_mul_of_nonneg_right h1 hk.le
  · calc arcsin x * (180 / π) ≤ π / 2 * (180 / π) := mul_le_mul_of_nonneg_right h2 hk.le
      _ = 90 := e90.symm

theorem approxEq_iff (a b e : ℝ) : approxEq a b e = true ↔ |a - b| < e := by
  simp [approxEq]

/-- non-vacuity of the interval hypotheses -/
example : (-90 : ℝ) ≤ 30 ∧ (30 : ℝ) ≤ 90 := by norm_num

/-- The function as first published (`asin` of the argument converted to radians) is not the
inverse: at 90° it returns `arcsin(π/180) ≤ π/2 < 90`. -/
theorem dasinLegacy_not_inverse : dasinLegacy (dsin (90 : ℝ)) ≠ 90 := by
  have h : dasinLegacy (dsin (90 : ℝ)) ≤ π / 2 := by
    simp only [dasinLegacy, asin_real]; exact arcsin_le_pi_div_two _
  have : π / 2 < 90 := by nlinarith [pi_le_four]
  intro hc; rw [hc] at h; linarith

end ScadVerif.C12
