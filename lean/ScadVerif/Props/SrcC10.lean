/-
Theorems of C10 restated about the *transcribed source* (`Tie/Math.lean`, all `rfl`).
-/
import ScadVerif.Props.C10
import ScadVerif.Tie.Math
namespace ScadVerif.SrcC10
open ScadVerif

/-- the transcribed `look_at_matrix_lh` with eye == center is the identity (no direction to look in) -/
theorem look_at_same (p up : Pt3 ℝ) : Src.Mt4.look_at_matrix_lh p p up = Mt4.identity := by
  rw [Tie.Mt4_look_at_matrix_lh]
  exact C10.lookAtLh_same p up

end ScadVerif.SrcC10
