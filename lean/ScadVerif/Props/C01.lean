/-
C01 — emitted text is well-formed OpenSCAD with the same shape as the tree.

The theorems are about `Scad.emit` / `emitAll` of Model/Scad.lean (the model of `impl Display for
Scad`, tied to the Rust code by the correspondence run of this check) and the parser of
Spec/OpenScad.lean (OpenSCAD's module-instantiation grammar).  They hold for every tree, of any
depth and fan-out, and every list of trees.  Proofs of the consumption lemmas are in
Lemmas/Parser.lean.

The number type `ν` stands for the finite numbers; the one assumption on its printer,
`hnum : ∀ x, IsNumeral (showNum x)`, says that a finite number prints as `-?digits(.digits)?`,
which is what Rust's `Display for f64` does (trusted, and exercised by every case of the
correspondence run: a number printed in any other form makes the driver's parse fail).
-/
import ScadVerif.Lemmas.Parser
import ScadVerif.Lemmas.Brace
namespace ScadVerif.C01
open ScadVerif ScadVerif.Spec ScadVerif.ParserLemmas

variable {ν : Type} (showNum : ν → List Char)

/-- emitting several trees one after another is the concatenation of their texts -/
theorem emitAll_append (a b : List (Scad ν)) :
    emitAll showNum (a ++ b) = emitAll showNum a ++ emitAll showNum b := by
  simp [emitAll]
theorem emitAll_cons (t : Scad ν) (ts : List (Scad ν)) :
    emitAll showNum (t :: ts) = t.emit showNum ++ emitAll showNum ts := by
  simp [emitAll]

/- The trees the property quantifies over: primitives have no children, operators and transforms
have any number (including none); every node prints a call (a `Color`/`Offset` node built with no
alternative at all prints nothing and is excluded); strings are Unicode scalar values without NUL. -/
mutual
def WellFormed : Scad ν → Prop
  | .mk op cs =>
    (op.header showNum).isSome = true ∧ (∀ s ∈ op.strings, NoNul s) ∧
      (op.isPrimitive = true → cs = .nil) ∧ WellFormedList cs
def WellFormedList : ScadList ν → Prop
  | .nil => True
  | .cons h t => WellFormed h ∧ WellFormedList t
end

/- the shape of a tree: the call name at every node and the children in order -/
mutual
def treeShape : Scad ν → Shape
  | .mk op cs => .node ((op.header showNum).map (·.name) |>.getD []) (treeShapes cs)
def treeShapes : ScadList ν → List Shape
  | .nil => []
  | .cons h t => treeShape h :: treeShapes t
end

section
variable (hnum : ∀ x, IsNumeral (showNum x) = true)
include hnum

mutual
theorem treeOK_of_wellFormed : (t : Scad ν) → WellFormed showNum t → TreeOK showNum t
  | .mk op cs, ⟨hh, hs, hp, hcs⟩ => by
    refine ⟨?_, hp, treesOK_of_wellFormed cs hcs⟩
    cases hop : op.header showNum with
    | none => rw [hop] at hh; simp at hh
    | some h => exact ⟨h, rfl, header_ok showNum hnum op hs h hop⟩
theorem treesOK_of_wellFormed : (cs : ScadList ν) → WellFormedList showNum cs → TreesOK showNum cs
  | .nil, _ => True.intro
  | .cons h t, ⟨h1, h2⟩ => ⟨treeOK_of_wellFormed h h1, treesOK_of_wellFormed t h2⟩
end

/-- **C01, sequences.** The text emitted for any list of well-formed trees parses under OpenSCAD's
grammar as exactly that many statements, the `i`-th being the statement form of the `i`-th tree. -/
theorem emitAll_parses (ts : List (Scad ν)) (hwf : ∀ t ∈ ts, WellFormed showNum t) :
    parseProgram (emitAll showNum ts) = some (ts.map (toStmt showNum)) :=
  parseProgram_emitAll showNum ts fun t ht => treeOK_of_wellFormed showNum hnum t (hwf t ht)

/-- **C01, one tree.** The emitted text is exactly one complete statement. -/
theorem emit_parses (t : Scad ν) (hwf : WellFormed showNum t) :
    parseProgram (t.emit showNum) = some [toStmt showNum t] := by
  have := emitAll_parses showNum hnum [t] (by simpa using hwf)
  simpa [emitAll] using this

/-- … and a statement is followed by nothing but the line end: parsing stops exactly there, whatever
comes next. -/
theorem emit_consumed_exactly (t : Scad ν) (hwf : WellFormed showNum t) (rest : List Char) :
    pStmt ((t.emit showNum ++ rest).length + 1) (t.emit showNum ++ rest) =
      some (toStmt showNum t, '\n' :: rest) := by
  apply pStmt_pieces showNum t rest _ (treeOK_of_wellFormed showNum hnum t hwf)
  have := tsize_le showNum t (treeOK_of_wellFormed showNum hnum t hwf)
  simp only [Scad.emit, List.length_append]; omega
omit hnum

mutual
/-- **C01, shape.** The parsed statement has the same call at every node and the same children in the
same order as the tree; a block is present exactly at the non-primitive nodes. -/
theorem shape_preserved : (t : Scad ν) → WellFormed showNum t →
    (toStmt showNum t).shape = treeShape showNum t
  | .mk op cs, ⟨hh, _, hp, hcs⟩ => by
    cases hop : op.header showNum with
    | none => rw [hop] at hh; simp at hh
    | some h =>
      cases hprim : op.isPrimitive with
      | true =>
        have := hp hprim; subst this
        simp [toStmt, hop, hprim, Stmt.shape, treeShape, treeShapes]
      | false =>
        simp [toStmt, hop, hprim, Stmt.shape, treeShape, shapes_preserved cs hcs]
theorem shapes_preserved : (cs : ScadList ν) → WellFormedList showNum cs →
    (toStmts showNum cs).shapes = treeShapes showNum cs
  | .nil, _ => by simp [toStmts, StmtList.shapes, treeShapes]
  | .cons h t, ⟨h1, h2⟩ => by
    simp [toStmts, StmtList.shapes, treeShapes, shape_preserved h h1, shapes_preserved t h2]
end

/-- a block `{ … }` is opened (and, since the text parses, closed) exactly for non-primitives -/
theorem block_iff_not_primitive (op : ScadOp ν) (cs : ScadList ν) (h : WellFormed showNum (.mk op cs)) :
    ((toStmt showNum (.mk op cs)).body.isSome = !op.isPrimitive) := by
  obtain ⟨hh, _⟩ := h
  cases hop : op.header showNum with
  | none => rw [hop] at hh; simp at hh
  | some hd => cases hprim : op.isPrimitive <;> simp [toStmt, hop, hprim, Stmt.body]
end

/-- **C01, every opened block is closed.** The brace counter the oracle runs over the crate's text
(`braceDepthOK`: never negative, zero at the end, braces inside string literals ignored) accepts
the emitted text of every list of well-formed trees. -/
theorem braces_balanced (hnum : ∀ x, IsNumeral (showNum x) = true) (ts : List (Scad ν))
    (hwf : ∀ t ∈ ts, WellFormed showNum t) : braceDepthOK (emitAll showNum ts) = true := by
  have := BraceLemmas.neutral_emitAll showNum ts (fun t ht => treeOK_of_wellFormed showNum hnum t (hwf t ht)) [] 0
  rw [List.append_nil] at this
  unfold braceDepthOK
  rw [this, braceDepthOK.go]
  simp


/-! non-vacuity: a concrete tree over `Nat` (printed in decimal) meets the hypotheses, including an
operator with no children and an empty point list -/
example : ∀ x : Nat, IsNumeral (natDigits x) = true := natDigits_numeral
example : WellFormed natDigits
    (Scad.node .union [Scad.node (.circle 3 none none (some 12)) [], Scad.node .hull [],
      Scad.node (.polygon [] none 1) []]) := by
  simp [WellFormed, WellFormedList, Scad.node, ScadList.ofList, ScadOp.header, ScadOp.isPrimitive,
    ScadOp.strings]

end ScadVerif.C01
