/-
C01 — emitted text is well-formed OpenSCAD with the same shape as the tree.
-/
import ScadVerif.Spec.OpenScadBind
namespace ScadVerif.C01
open ScadVerif ScadVerif.Spec

variable {ν : Type} (showNum : ν → List Char)

/-- emitting several trees one after another is the concatenation of their texts -/
theorem emitAll_append (a b : List (Scad ν)) :
    emitAll showNum (a ++ b) = emitAll showNum a ++ emitAll showNum b := by
  simp [emitAll]
theorem emitAll_cons (t : Scad ν) (ts : List (Scad ν)) :
    emitAll showNum (t :: ts) = t.emit showNum ++ emitAll showNum ts := by
  simp [emitAll]

end ScadVerif.C01
