/-
C13 — a saved file is exactly the global settings plus the emitted trees.
-/
import ScadVerif.Spec.OpenScadBind
namespace ScadVerif.C13
open ScadVerif

variable {ν : Type} (showNum : ν → List Char)

/-- `Scad::save` writes the emission of the tree and nothing else -/
theorem save_eq (t : Scad ν) : saveContent showNum t = fileContent showNum .none [t] := by
  simp [saveContent, fileContent, Settings.lines, emitAll]

/-- the file is the settings lines followed by the children's texts in the written order -/
theorem fileContent_append (g : Settings ν) (a b : List (Scad ν)) :
    fileContent showNum g (a ++ b) = fileContent showNum g a ++ emitAll showNum b := by
  simp [fileContent, emitAll]

/-- without settings nothing precedes the children -/
theorem fileContent_none (cs : List (Scad ν)) : fileContent showNum .none cs = emitAll showNum cs := by
  simp [fileContent, Settings.lines]

end ScadVerif.C13
