/-
C13 — a saved file is exactly the global settings plus the emitted trees.

`fileContent` (Model/Scad.lean) is the model of what the five `scad_file!` arms and `Scad::save`
write; the correspondence run reads the real files back and compares them byte for byte.  The
theorems below are about that content for every setting, every value and every list of trees.
-/
import ScadVerif.Props.C01
namespace ScadVerif.C13
open ScadVerif ScadVerif.Spec ScadVerif.ParserLemmas

variable {ν : Type} (showNum : ν → List Char)

/-- `Scad::save` writes the emission of the tree and nothing else -/
theorem save_eq (t : Scad ν) : saveContent showNum t = fileContent showNum .none [t] := by
  simp [saveContent, fileContent, Settings.lines, emitAll]

/-- the file is the settings lines followed by the children's texts in the written order -/
theorem fileContent_append (g : Settings ν) (a b : List (Scad ν)) :
    fileContent showNum g (a ++ b) = fileContent showNum g a ++ emitAll showNum b := by
  simp [fileContent, emitAll]

/-- without settings nothing precedes the children -/
theorem fileContent_none (cs : List (Scad ν)) : fileContent showNum .none cs = emitAll showNum cs := by
  simp [fileContent, Settings.lines]

/-- the assignments a `scad_file!` form writes before the children -/
def settingTops : Settings ν → List Top
  | .none => []
  | .fa a => [.assign c!"$fa" (.num (showNum a))]
  | .fs s => [.assign c!"$fs" (.num (showNum s))]
  | .faFs a s => [.assign c!"$fa" (.num (showNum a)), .assign c!"$fs" (.num (showNum s))]
  | .fn n => [.assign c!"$fn" (.num (natDigits n))]

/-- **C13.** For every `scad_file!` form, setting value and list of well-formed trees, the file
content parses as an OpenSCAD program: one assignment per global setting given, with the exact
printed value, followed by exactly the children as top-level statements in the written order — and
nothing else (the parser consumes the whole content). -/
theorem fileContent_parses (hnum : ∀ x, IsNumeral (showNum x) = true) (g : Settings ν)
    (children : List (Scad ν)) (hwf : ∀ t ∈ children, C01.WellFormed showNum t) :
    parseFile (fileContent showNum g children) =
      some (settingTops showNum g ++ children.map fun t => Top.stmt (toStmt showNum t)) := by
  have hok : ∀ t ∈ children, TreeOK showNum t :=
    fun t ht => C01.treeOK_of_wellFormed showNum hnum t (hwf t ht)
  have hlen := length_le_emitAll showNum children hok
  have hfa : IsIdent c!"$fa" = true := by decide
  have hfs : IsIdent c!"$fs" = true := by decide
  have hfn : IsIdent c!"$fn" = true := by decide
  have tail : ∀ k, children.length < k →
      pFileAux k ('\n' :: emitAll showNum children) =
        some (children.map fun t => Top.stmt (toStmt showNum t)) :=
    fun k hk => pFileAux_emitAll showNum children k hok hk ['\n'] (by decide)
  cases g with
  | none =>
    have := pFileAux_emitAll showNum children ((emitAll showNum children).length + 1) hok (by omega) []
      (by decide)
    simpa [parseFile, fileContent, Settings.lines, settingTops] using this
  | fa a =>
    have e : fileContent showNum (.fa a) children =
        [] ++ (c!"$fa" ++ '=' :: (showNum a ++ ';' :: '\n' :: emitAll showNum children)) := by
      simp [fileContent, Settings.lines]
    rw [parseFile, e, pFileAux_assign_step _ [] _ _ _ (by decide) hfa (hnum a), tail]
    · rfl
    · simp only [List.length_append, List.length_cons]; omega
  | fs a =>
    have e : fileContent showNum (.fs a) children =
        [] ++ (c!"$fs" ++ '=' :: (showNum a ++ ';' :: '\n' :: emitAll showNum children)) := by
      simp [fileContent, Settings.lines]
    rw [parseFile, e, pFileAux_assign_step _ [] _ _ _ (by decide) hfs (hnum a), tail]
    · rfl
    · simp only [List.length_append, List.length_cons]; omega
  | fn n =>
    have e : fileContent showNum (.fn n) children =
        [] ++ (c!"$fn" ++ '=' :: (natDigits n ++ ';' :: '\n' :: emitAll showNum children)) := by
      simp [fileContent, Settings.lines]
    rw [parseFile, e, pFileAux_assign_step _ [] _ _ _ (by decide) hfn (natDigits_numeral n), tail]
    · rfl
    · simp only [List.length_append, List.length_cons]; omega
  | faFs a b =>
    have e : fileContent showNum (.faFs a b) children =
        [] ++ (c!"$fa" ++ '=' :: (showNum a ++ ';' :: (['\n'] ++ (c!"$fs" ++ '=' :: (showNum b ++ ';' :: '\n' ::
          emitAll showNum children))))) := by
      simp [fileContent, Settings.lines]
    have hl : (fileContent showNum (.faFs a b) children).length =
        (showNum a).length + (showNum b).length + (emitAll showNum children).length + 12 := by
      simp [fileContent, Settings.lines]; omega
    rw [parseFile, hl, e]
    rw [show (showNum a).length + (showNum b).length + (emitAll showNum children).length + 12 + 1 =
      ((showNum a).length + (showNum b).length + (emitAll showNum children).length + 11) + 1 + 1 from rfl]
    rw [pFileAux_assign_step _ [] _ _ _ (by decide) hfa (hnum a),
      pFileAux_assign_step _ ['\n'] _ _ _ (by decide) hfs (hnum b), tail]
    · rfl
    · omega

end ScadVerif.C13
