/-
C02 — emitted arguments denote the node's parameters exactly.
-/
import ScadVerif.Lemmas.Decode
import ScadVerif.Props.C01
import ScadVerif.Gen.Enums
namespace ScadVerif.C02
open ScadVerif ScadVerif.Spec

/-- a string of Unicode scalar values without NUL -/
def NoNul (s : List Char) : Prop := ∀ c ∈ s, c ≠ '\x00'

/-- one escaped character is read back as that character -/
theorem pStrBody_escapeChar (c : Char) (hc : c ≠ '\x00') (tail : List Char) :
    pStrBody (escapeChar c ++ tail) = (pStrBody tail).map fun (s, r) => (c :: s, r) := by
  unfold escapeChar
  by_cases h1 : c = '\\'
  · subst h1; simp [pStrBody]
  by_cases h2 : c = '"'
  · subst h2; simp [pStrBody]
  by_cases h3 : c = '\n'
  · subst h3; simp [pStrBody]
  by_cases h4 : c = '\t'
  · subst h4; simp [pStrBody]
  by_cases h5 : c = '\r'
  · subst h5; simp [pStrBody]
  simp only [h1, h2, h3, h4, h5, if_false, List.cons_append, List.nil_append]
  rw [pStrBody]
  · simp [hc]
  all_goals first | exact h2 | exact h1 | exact h3 | (intros; simp_all)

/-- OpenSCAD's string lexer reads the library's escaped form back to the same characters,
for every string without NUL (quotes, backslashes, control characters, any script) -/
theorem unescape_escape (s rest : List Char) (h : NoNul s) :
    pStrBody (escape s ++ '"' :: rest) = some (s, rest) := by
  induction s with
  | nil => simp [escape, pStrBody]
  | cons c s ih =>
    have hs : NoNul s := fun d hd => h d (List.mem_cons_of_mem _ hd)
    have hc : c ≠ '\x00' := h c (List.mem_cons_self ..)
    have e : escape (c :: s) ++ '"' :: rest = escapeChar c ++ (escape s ++ '"' :: rest) := by
      simp [escape]
    rw [e, pStrBody_escapeChar c hc, ih hs]; rfl

/-- every colour variant prints a name OpenSCAD knows — except `Browns` (known finding 7) -/
theorem colour_known_except_Browns :
    ∀ n ∈ Gen.colorNames, n ≠ c!"Browns" → knownColour n = true := by decide +kernel
/-- … and `Browns` is not one -/
theorem Browns_unknown : c!"Browns" ∈ Gen.colorNames ∧ knownColour c!"Browns" = false := by decide +kernel

/-- the alignment / direction keywords the enums print are the ones OpenSCAD's `text()` accepts -/
theorem keywords_known :
    (∀ n ∈ Gen.halignNames, halignKw.contains n = true) ∧
    (∀ n ∈ Gen.valignNames, valignKw.contains n = true) ∧
    (∀ n ∈ Gen.directionNames, directionKw.contains n = true) := by decide +kernel
/-- … and distinct variants print distinct keywords / colour names -/
theorem names_distinct :
    Gen.colorNames.Nodup ∧ Gen.halignNames.Nodup ∧ Gen.valignNames.Nodup ∧ Gen.directionNames.Nodup := by
  decide +kernel

/-- integers up to 2^53 survive OpenSCAD's number type; 2^53+1 does not (finding 20) -/
theorem small_ints_exact (n : Nat) (h : n < 2 ^ 53) : exactInDouble n = true := by
  unfold exactInDouble
  have : Nat.log2 n ≤ 52 := by
    by_cases hn : n = 0
    · subst hn; decide
    · have := (Nat.log2_lt hn).mpr (show n < 2 ^ 53 from h); omega
  simp [this]
example : exactInDouble (2 ^ 53 + 1) = false := by decide +kernel

/-! ## binding and decoding the emitted arguments -/
section Decode
open ScadVerif.ParserLemmas ScadVerif.DecodeLemmas
variable {ν : Type} (showNum : ν → List Char) (readNum : List Char → Option ν) (zero : ν)

/-- the unsigned integer parameters of a node -/
def nats : ScadOp ν → List Nat
  | .circle _ _ _ fn | .sphere _ _ _ fn | .cylinder _ _ _ _ _ _ fn => fn.toList
  | .polygon _ paths cv => (paths.getD []).flatten ++ [cv]
  | .text _ _ _ _ _ _ _ _ _ fn => fn.toList
  | .import_ _ cv | .surface _ _ _ cv | .minkowski cv | .resize _ _ _ _ cv => [cv]
  | .polyhedron _ faces cv => faces.flatten ++ [cv]
  | .linearExtrude _ _ cv _ _ slices fn => cv :: (slices.toList ++ fn.toList)
  | .rotateExtrude _ cv _ _ fn => cv :: fn.toList
  | _ => []

/-- The nodes the property speaks of: the alignment/direction keywords are ones `text()` accepts,
a colour name is one OpenSCAD knows, a hex colour starts with `#`, exactly one alternative of
`Color`/`Offset` is set, and fields the node does not use hold the value the macros store there
(so that "recovers every parameter" can be stated as equality of nodes). -/
def OpOK : ScadOp ν → Prop
  | .text _ _ _ halign valign _ direction _ _ _ =>
    halignKw.contains halign = true ∧ valignKw.contains valign = true ∧ directionKw.contains direction = true
  | .color rgba col hex alpha =>
    match rgba, col, hex with
    | some _, none, none => alpha = none
    | none, some c, none => knownColour c = true ∧ c.head? ≠ some '#'
    | none, none, some h => alpha = none ∧ h.head? = some '#'
    | _, _, _ => False
  | .offset r d ch =>
    match r, d with
    | some _, none => ch = false
    | none, some _ => True
    | _, _ => False
  | .rotate a sc v =>
    match a with
    | some _ => sc = true → v = ⟨zero, zero, zero⟩
    | none => sc = false
  | .resize _ auto isVec av _ => if isVec then auto = false else av = (false, false, false)
  | _ => True



set_option hygiene false in
local macro "dec" : tactic => `(tactic|
  simp_all [decodeOp, signature, bindArgs, accepted, toPArg, faFsFn, optNat, req, Env.get, optNum, optNat', nats,
    vNat_back, vBool?, vStr?, toVal, vIndices_back, vPaths_back, OpOK])

set_option maxHeartbeats 1000000 in
theorem decode_header (hread : ∀ x, readNum (showNum x) = some x) (op : ScadOp ν)
    (hok : OpOK zero op) (hn : ∀ n ∈ nats op, exactInDouble n = true) (h : Header)
    (hh : op.header showNum = some h) :
    decodeOp readNum zero h.name (h.args.map toPArg) = some op := by
  have b1 := vNum_back showNum readNum hread
  have b3 := vPt2_back showNum readNum hread
  have b4 := vPt3_back showNum readNum hread
  have b5 := vPt4_back showNum readNum hread
  have b6 := vPt2s_back showNum readNum hread
  have b7 := vPt3s_back showNum readNum hread
  cases op <;> simp only [ScadOp.header] at hh
  case union | difference | intersection | hull =>
    injection hh with hh; subst hh
    simp [decodeOp, signature, bindArgs, accepted]
  case circle r fa fs fn =>
    injection hh with hh; subst hh
    cases fa <;> cases fs <;> cases fn <;>
      simp_all [decodeOp, signature, bindArgs, accepted, toPArg, faFsFn, req, Env.get, optNum, optNat', nats,
        vNat_back]
  case sphere r fa fs fn =>
    injection hh with hh; subst hh
    cases fa <;> cases fs <;> cases fn <;> dec
  case cylinder hgt r1 r2 c fa fs fn =>
    injection hh with hh; subst hh
    cases fa <;> cases fs <;> cases fn <;> dec
  case rotateExtrude a cv fa fs fn =>
    injection hh with hh; subst hh
    cases fa <;> cases fs <;> cases fn <;> dec
  case square sz c => injection hh with hh; subst hh; dec
  case cube sz c => injection hh with hh; subst hh; dec
  case projection c => injection hh with hh; subst hh; dec
  case translate v => injection hh with hh; subst hh; dec
  case scale v => injection hh with hh; subst hh; dec
  case mirror v => injection hh with hh; subst hh; dec
  case minkowski cv => injection hh with hh; subst hh; dec
  case import_ f cv => injection hh with hh; subst hh; dec
  case surface f c i cv => injection hh with hh; subst hh; dec
  case polygon pts paths cv =>
    injection hh with hh; subst hh
    cases paths with
    | none => dec
    | some v =>
      dec
      have hp := vPaths_back v (fun p hp n hnp => hn n (Or.inl ⟨p, hp, hnp⟩))
      simp only [vPaths, toVal] at hp ⊢
      simp [hp]
  case polyhedron pts faces cv =>
    injection hh with hh; subst hh; dec
    rw [vPaths_back faces (fun p hp n hnp => hn n (Or.inl ⟨p, hp, hnp⟩))]; rfl
  case text t sz f ha va sp d l sc fn =>
    injection hh with hh; subst hh
    cases fn <;> dec
  case linearExtrude hgt c cv tw sc sl fn =>
    injection hh with hh; subst hh
    cases sl <;> cases fn <;> dec
  case offset r d ch =>
    cases r with
    | some r => injection hh with hh; subst hh; cases d <;> dec
    | none =>
      cases d with
      | some d => injection hh with hh; subst hh; dec
      | none => simp at hh
  case rotate a sc v =>
    cases a with
    | none =>
      injection hh with hh; subst hh; dec
      simp [vPt3, vNum, toVal, toVals, vPt3?, vNum?, hread]
    | some a =>
      cases sc
      · simp only [if_false, Bool.false_eq_true] at hh
        injection hh with hh; subst hh; dec
        simp [vPt3, vNum, toVal, toVals, vPt3?, vNum?, hread]
      · simp only [if_true] at hh
        injection hh with hh; subst hh; dec
        simp [vNum, toVal, hread]
  case resize ns au isv av cv =>
    injection hh with hh; subst hh
    cases isv
    · dec
    · dec
      simp [toVals, toVal]
  case color rgba col hex alpha =>
    cases rgba with
    | some c =>
      injection hh with hh; subst hh
      cases col <;> cases hex <;> dec
      simp [vPt4, vNum, toVal, toVals, vPt4?, vNum?, hread]
    | none =>
      cases col with
      | some c =>
        injection hh with hh; subst hh
        cases hex <;> cases alpha <;> dec
        all_goals
          split
          · rename_i heq; simp at hok
          · rfl
      | none =>
        cases hex with
        | some x =>
          injection hh with hh; subst hh; dec
          cases x with
          | nil => simp at hok
          | cons ch t =>
            simp only [List.head?_cons, Option.some.injEq] at hok
            obtain ⟨_, rfl⟩ := hok
            rfl
        | none => simp at hh

/-! ### whole trees -/
/- the trees of the property: well-formed (C01) and every node `OpOK` with integers a double holds -/
mutual
def TreeGood : Scad ν → Prop
  | .mk op cs => OpOK zero op ∧ (∀ n ∈ nats op, exactInDouble n = true) ∧ TreesGood cs
def TreesGood : ScadList ν → Prop
  | .nil => True
  | .cons h t => TreeGood h ∧ TreesGood t
end

mutual
theorem decodeStmt_toStmt (hread : ∀ x, readNum (showNum x) = some x) :
    (t : Scad ν) → C01.WellFormed showNum t → TreeGood zero t →
    decodeStmt readNum zero (toStmt showNum t) = some t
  | .mk op cs, ⟨hh, _, hp, hcs⟩, ⟨hok, hn, hg⟩ => by
    cases hop : op.header showNum with
    | none => rw [hop] at hh; simp at hh
    | some h =>
      have hd := decode_header showNum readNum zero hread op hok hn h hop
      cases hprim : op.isPrimitive with
      | true =>
        have := hp hprim; subst this
        simp [toStmt, hop, hprim, decodeStmt, hd]
      | false =>
        have ih := decodeStmts_toStmts hread cs hcs hg
        simp [toStmt, hop, hprim, decodeStmt, hd, ih]
theorem decodeStmts_toStmts (hread : ∀ x, readNum (showNum x) = some x) :
    (cs : ScadList ν) → C01.WellFormedList showNum cs → TreesGood zero cs →
    decodeStmts readNum zero (toStmts showNum cs) = some cs
  | .nil, _, _ => by simp [toStmts, decodeStmts]
  | .cons t ts, ⟨h1, h2⟩, ⟨g1, g2⟩ => by
    simp [toStmts, decodeStmts, decodeStmt_toStmt hread t h1 g1, decodeStmts_toStmts hread ts h2 g2]
end

/-- **C02, end to end.** Parsing the emitted text of any list of good trees and binding every
statement's arguments by OpenSCAD's rules (positional order, parameter names, defaults, no unknown
or duplicate name) recovers exactly the trees: every parameter of every node, optional settings
present exactly when set, scalar-or-vector choices in the recorded form. -/
theorem emitted_arguments_denote_parameters (hnum : ∀ x, IsNumeral (showNum x) = true)
    (hread : ∀ x, readNum (showNum x) = some x) (ts : List (Scad ν))
    (hwf : ∀ t ∈ ts, C01.WellFormed showNum t) (hg : ∀ t ∈ ts, TreeGood zero t) :
    (parseProgram (emitAll showNum ts)).bind (fun stmts => stmts.mapM (decodeStmt readNum zero)) = some ts := by
  rw [C01.emitAll_parses showNum hnum ts hwf]
  simp only [Option.bind_some]
  have : ∀ l : List (Scad ν), (∀ t ∈ l, C01.WellFormed showNum t) → (∀ t ∈ l, TreeGood zero t) →
      (l.map (toStmt showNum)).mapM (decodeStmt readNum zero) = some l := by
    intro l
    induction l with
    | nil => intros; rfl
    | cons a t ih =>
      intro h1 h2
      simp only [List.map_cons, List.mapM_cons, Option.bind_eq_bind, Option.pure_def]
      rw [decodeStmt_toStmt showNum readNum zero hread a (h1 a (by simp)) (h2 a (by simp)),
        ih (fun x hx => h1 x (by simp [hx])) (fun x hx => h2 x (by simp [hx]))]
      rfl
  exact this ts hwf hg

end Decode

/-! non-vacuity of the two hypotheses on the number printer: the integers below 2^53, printed in
decimal and read back by `readNat`, satisfy both -/
def Small := { n : Nat // n < 2 ^ 53 }
def showSmall (x : Small) : List Char := natDigits x.1
def readSmall (t : List Char) : Option Small :=
  (readNat t).bind fun n => if h : n < 2 ^ 53 then some ⟨n, h⟩ else none
example : (∀ x : Small, IsNumeral (showSmall x) = true) ∧ (∀ x : Small, readSmall (showSmall x) = some x) := by
  refine ⟨fun x => ParserLemmas.natDigits_numeral x.1, fun x => ?_⟩
  obtain ⟨n, hn⟩ := x
  simp [readSmall, showSmall, DecodeLemmas.readNat_natDigits n (small_ints_exact n hn), hn]

end ScadVerif.C02
