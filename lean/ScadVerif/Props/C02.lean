/-
C02 — emitted arguments denote the node's parameters exactly.
-/
import ScadVerif.Spec.OpenScadBind
import ScadVerif.Gen.Enums
namespace ScadVerif.C02
open ScadVerif ScadVerif.Spec

/-- a string of Unicode scalar values without NUL -/
def NoNul (s : List Char) : Prop := ∀ c ∈ s, c ≠ '\x00'

/-- one escaped character is read back as that character -/
theorem pStrBody_escapeChar (c : Char) (hc : c ≠ '\x00') (tail : List Char) :
    pStrBody (escapeChar c ++ tail) = (pStrBody tail).map fun (s, r) => (c :: s, r) := by
  unfold escapeChar
  by_cases h1 : c = '\\'
  · subst h1; simp [pStrBody]
  by_cases h2 : c = '"'
  · subst h2; simp [pStrBody]
  by_cases h3 : c = '\n'
  · subst h3; simp [pStrBody]
  by_cases h4 : c = '\t'
  · subst h4; simp [pStrBody]
  by_cases h5 : c = '\r'
  · subst h5; simp [pStrBody]
  simp only [h1, h2, h3, h4, h5, if_false, List.cons_append, List.nil_append]
  rw [pStrBody]
  · simp [hc]
  all_goals first | exact h2 | exact h1 | exact h3 | (intros; simp_all)

/-- OpenSCAD's string lexer reads the library's escaped form back to the same characters,
for every string without NUL (quotes, backslashes, control characters, any script) -/
theorem unescape_escape (s rest : List Char) (h : NoNul s) :
    pStrBody (escape s ++ '"' :: rest) = some (s, rest) := by
  induction s with
  | nil => simp [escape, pStrBody]
  | cons c s ih =>
    have hs : NoNul s := fun d hd => h d (List.mem_cons_of_mem _ hd)
    have hc : c ≠ '\x00' := h c (List.mem_cons_self ..)
    have e : escape (c :: s) ++ '"' :: rest = escapeChar c ++ (escape s ++ '"' :: rest) := by
      simp [escape]
    rw [e, pStrBody_escapeChar c hc, ih hs]; rfl

/-- every colour variant prints a name OpenSCAD knows — except `Browns` (known finding 7) -/
theorem colour_known_except_Browns :
    ∀ n ∈ Gen.colorNames, n ≠ c!"Browns" → knownColour n = true := by decide +kernel
/-- … and `Browns` is not one -/
theorem Browns_unknown : c!"Browns" ∈ Gen.colorNames ∧ knownColour c!"Browns" = false := by decide +kernel

/-- the alignment / direction keywords the enums print are the ones OpenSCAD's `text()` accepts -/
theorem keywords_known :
    (∀ n ∈ Gen.halignNames, halignKw.contains n = true) ∧
    (∀ n ∈ Gen.valignNames, valignKw.contains n = true) ∧
    (∀ n ∈ Gen.directionNames, directionKw.contains n = true) := by decide +kernel
/-- … and distinct variants print distinct keywords / colour names -/
theorem names_distinct :
    Gen.colorNames.Nodup ∧ Gen.halignNames.Nodup ∧ Gen.valignNames.Nodup ∧ Gen.directionNames.Nodup := by
  decide +kernel

/-- integers up to 2^53 survive OpenSCAD's number type; 2^53+1 does not (finding 20) -/
theorem small_ints_exact (n : Nat) (h : n < 2 ^ 53) : exactInDouble n = true := by
  unfold exactInDouble
  have : Nat.log2 n ≤ 52 := by
    by_cases hn : n = 0
    · subst hn; decide
    · have := (Nat.log2_lt hn).mpr (show n < 2 ^ 53 from h); omega
  simp [this]
example : exactInDouble (2 ^ 53 + 1) = false := by decide +kernel

end ScadVerif.C02
