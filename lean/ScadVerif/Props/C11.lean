/-
C11 — Pt2/Pt3/Pt4 arithmetic is component-wise vector arithmetic.

Property theorems only.  `α` is an arbitrary commutative ring / field; `ℝ` where a
square root is needed.  Floating-point rounding is outside these statements (DESIGN §3.3).
-/
import ScadVerif.Lemmas.PtReal
set_option linter.unusedSectionVars false
namespace ScadVerif.C11
open ScadVerif

/-! ## Component-wise action (every component, `w` included) -/
section Components
variable {α : Type} [Field α]

theorem pt2_add (a b : Pt2 α) : a + b = ⟨a.x + b.x, a.y + b.y⟩ := rfl
theorem pt2_sub (a b : Pt2 α) : a - b = ⟨a.x - b.x, a.y - b.y⟩ := rfl
theorem pt2_smul (a : Pt2 α) (k : α) : a * k = ⟨a.x * k, a.y * k⟩ := rfl
theorem pt2_sdiv (a : Pt2 α) (k : α) : a / k = ⟨a.x / k, a.y / k⟩ := rfl
theorem pt2_neg (a : Pt2 α) : -a = ⟨-a.x, -a.y⟩ := by
  show Pt2.neg a = _; simp [Pt2.neg, Pt2.smul]

theorem pt3_add (a b : Pt3 α) : a + b = ⟨a.x + b.x, a.y + b.y, a.z + b.z⟩ := rfl
theorem pt3_sub (a b : Pt3 α) : a - b = ⟨a.x - b.x, a.y - b.y, a.z - b.z⟩ := rfl
theorem pt3_smul (a : Pt3 α) (k : α) : a * k = ⟨a.x * k, a.y * k, a.z * k⟩ := rfl
theorem pt3_sdiv (a : Pt3 α) (k : α) : a / k = ⟨a.x / k, a.y / k, a.z / k⟩ := rfl
theorem pt3_neg (a : Pt3 α) : -a = ⟨-a.x, -a.y, -a.z⟩ := by
  show Pt3.neg a = _; simp [Pt3.neg, Pt3.smul]

theorem pt4_add (a b : Pt4 α) : a + b = ⟨a.x + b.x, a.y + b.y, a.z + b.z, a.w + b.w⟩ := rfl
theorem pt4_sub (a b : Pt4 α) : a - b = ⟨a.x - b.x, a.y - b.y, a.z - b.z, a.w - b.w⟩ := rfl
theorem pt4_smul (a : Pt4 α) (k : α) : a * k = ⟨a.x * k, a.y * k, a.z * k, a.w * k⟩ := rfl
theorem pt4_sdiv (a : Pt4 α) (k : α) : a / k = ⟨a.x / k, a.y / k, a.z / k, a.w / k⟩ := rfl
theorem pt4_neg (a : Pt4 α) : -a = ⟨-a.x, -a.y, -a.z, -a.w⟩ := by
  show Pt4.neg a = _; simp [Pt4.neg, Pt4.smul]

/-! ## The operators agree with each other (vector-space laws) -/

theorem pt2_sub_eq_add_neg (a b : Pt2 α) : a - b = a + -b := by
  rw [pt2_neg, pt2_sub, pt2_add]; simp [sub_eq_add_neg]
theorem pt3_sub_eq_add_neg (a b : Pt3 α) : a - b = a + -b := by
  rw [pt3_neg, pt3_sub, pt3_add]; simp [sub_eq_add_neg]
theorem pt4_sub_eq_add_neg (a b : Pt4 α) : a - b = a + -b := by
  rw [pt4_neg, pt4_sub, pt4_add]; simp [sub_eq_add_neg]

theorem pt2_add_sub_cancel (a b : Pt2 α) : a + b - b = a := by
  rw [pt2_add, pt2_sub]; simp
theorem pt3_add_sub_cancel (a b : Pt3 α) : a + b - b = a := by
  rw [pt3_add, pt3_sub]; simp
theorem pt4_add_sub_cancel (a b : Pt4 α) : a + b - b = a := by
  rw [pt4_add, pt4_sub]; simp

theorem pt2_smul_sdiv (a : Pt2 α) {k : α} (hk : k ≠ 0) : a * k / k = a := by
  rw [pt2_smul, pt2_sdiv]; simp [hk]
theorem pt3_smul_sdiv (a : Pt3 α) {k : α} (hk : k ≠ 0) : a * k / k = a := by
  rw [pt3_smul, pt3_sdiv]; simp [hk]
theorem pt4_smul_sdiv (a : Pt4 α) {k : α} (hk : k ≠ 0) : a * k / k = a := by
  rw [pt4_smul, pt4_sdiv]; simp [hk]

theorem pt2_sdiv_eq_smul_inv (a : Pt2 α) (k : α) : a / k = a * k⁻¹ := by
  rw [pt2_smul, pt2_sdiv]; simp [div_eq_mul_inv]
theorem pt3_sdiv_eq_smul_inv (a : Pt3 α) (k : α) : a / k = a * k⁻¹ := by
  rw [pt3_smul, pt3_sdiv]; simp [div_eq_mul_inv]
theorem pt4_sdiv_eq_smul_inv (a : Pt4 α) (k : α) : a / k = a * k⁻¹ := by
  rw [pt4_smul, pt4_sdiv]; simp [div_eq_mul_inv]

theorem pt2_smul_add (a b : Pt2 α) (k : α) : (a + b) * k = a * k + b * k := by
  simp only [pt2_add, pt2_smul]; congr 1 <;> ring
theorem pt3_smul_add (a b : Pt3 α) (k : α) : (a + b) * k = a * k + b * k := by
  simp only [pt3_add, pt3_smul]; congr 1 <;> ring
theorem pt4_smul_add (a b : Pt4 α) (k : α) : (a + b) * k = a * k + b * k := by
  simp only [pt4_add, pt4_smul]; congr 1 <;> ring

/-! ## Indexing reads and writes the i-th named component; out of range panics -/

theorem pt2_get (a : Pt2 α) : a.get? 0 = some a.x ∧ a.get? 1 = some a.y ∧ ∀ i, 2 ≤ i → a.get? i = none := by
  refine ⟨rfl, rfl, fun i hi => ?_⟩
  match i, hi with
  | i + 2, _ => rfl
theorem pt3_get (a : Pt3 α) :
    a.get? 0 = some a.x ∧ a.get? 1 = some a.y ∧ a.get? 2 = some a.z ∧ ∀ i, 3 ≤ i → a.get? i = none := by
  refine ⟨rfl, rfl, rfl, fun i hi => ?_⟩
  match i, hi with
  | i + 3, _ => rfl
theorem pt4_get (a : Pt4 α) :
    a.get? 0 = some a.x ∧ a.get? 1 = some a.y ∧ a.get? 2 = some a.z ∧ a.get? 3 = some a.w ∧
      ∀ i, 4 ≤ i → a.get? i = none := by
  refine ⟨rfl, rfl, rfl, rfl, fun i hi => ?_⟩
  match i, hi with
  | i + 4, _ => rfl

/-- writing component `i` then reading `j`: the new value at `i`, the old one elsewhere -/
theorem pt2_get_set (a : Pt2 α) (i j : Nat) (v : α) (hi : i < 2) (hj : j < 2) :
    (a.set? i v).bind (·.get? j) = if j = i then some v else a.get? j := by
  have : i = 0 ∨ i = 1 := by omega
  have : j = 0 ∨ j = 1 := by omega
  rcases ‹i = 0 ∨ i = 1› with rfl | rfl <;> rcases ‹j = 0 ∨ j = 1› with rfl | rfl <;> rfl
theorem pt3_get_set (a : Pt3 α) (i j : Nat) (v : α) (hi : i < 3) (hj : j < 3) :
    (a.set? i v).bind (·.get? j) = if j = i then some v else a.get? j := by
  have hi' : i = 0 ∨ i = 1 ∨ i = 2 := by omega
  have hj' : j = 0 ∨ j = 1 ∨ j = 2 := by omega
  rcases hi' with rfl | rfl | rfl <;> rcases hj' with rfl | rfl | rfl <;> rfl
theorem pt4_get_set (a : Pt4 α) (i j : Nat) (v : α) (hi : i < 4) (hj : j < 4) :
    (a.set? i v).bind (·.get? j) = if j = i then some v else a.get? j := by
  have hi' : i = 0 ∨ i = 1 ∨ i = 2 ∨ i = 3 := by omega
  have hj' : j = 0 ∨ j = 1 ∨ j = 2 ∨ j = 3 := by omega
  rcases hi' with rfl | rfl | rfl | rfl <;> rcases hj' with rfl | rfl | rfl | rfl <;> rfl
theorem pt2_set_out_of_range (a : Pt2 α) (i : Nat) (v : α) (hi : 2 ≤ i) : a.set? i v = none := by
  match i, hi with
  | i + 2, _ => rfl
theorem pt3_set_out_of_range (a : Pt3 α) (i : Nat) (v : α) (hi : 3 ≤ i) : a.set? i v = none := by
  match i, hi with
  | i + 3, _ => rfl
theorem pt4_set_out_of_range (a : Pt4 α) (i : Nat) (v : α) (hi : 4 ≤ i) : a.set? i v = none := by
  match i, hi with
  | i + 4, _ => rfl

/-! ## dot, cross, len2, lerp -/

theorem pt2_dot (a b : Pt2 α) : a.dot b = a.x * b.x + a.y * b.y := rfl
theorem pt3_dot (a b : Pt3 α) : a.dot b = a.x * b.x + a.y * b.y + a.z * b.z := rfl
/-- `Pt4::dot` acts on the xyz part -/
theorem pt4_dot_xyz (a b : Pt4 α) : a.dot b = a.asPt3.dot b.asPt3 := rfl
theorem pt2_len2 (a : Pt2 α) : a.len2 = a.x ^ 2 + a.y ^ 2 := by simp [Pt2.len2, Pt2.dot]; ring
theorem pt3_len2 (a : Pt3 α) : a.len2 = a.x ^ 2 + a.y ^ 2 + a.z ^ 2 := by
  simp [Pt3.len2, Pt3.dot]; ring
theorem pt4_len2_xyz (a : Pt4 α) : a.len2 = a.asPt3.len2 := rfl

theorem pt3_cross_perp_left (a b : Pt3 α) : (a.cross b).dot a = 0 := by
  simp only [Pt3.cross, Pt3.dot]; ring
theorem pt3_cross_perp_right (a b : Pt3 α) : (a.cross b).dot b = 0 := by
  simp only [Pt3.cross, Pt3.dot]; ring
/-- Lagrange: |a × b|² = |a|²|b|² − (a·b)² -/
theorem pt3_lagrange (a b : Pt3 α) :
    (a.cross b).len2 = a.len2 * b.len2 - (a.dot b) ^ 2 := by
  simp only [Pt3.cross, Pt3.dot, Pt3.len2]; ring
theorem pt3_cross_anticomm (a b : Pt3 α) : a.cross b = -(b.cross a) := by
  rw [pt3_neg]; simp only [Pt3.cross]; congr 1 <;> ring

theorem pt4_cross_xyz (a b : Pt4 α) : (a.cross b).asPt3 = a.asPt3.cross b.asPt3 := rfl
theorem pt4_cross_w (a b : Pt4 α) : (a.cross b).w = 0 := rfl
theorem pt4_cross_perp_left (a b : Pt4 α) : (a.cross b).dot a = 0 := by
  simp only [Pt4.cross, Pt4.dot]; ring
theorem pt4_cross_perp_right (a b : Pt4 α) : (a.cross b).dot b = 0 := by
  simp only [Pt4.cross, Pt4.dot]; ring
theorem pt4_lagrange (a b : Pt4 α) :
    (a.cross b).len2 = a.len2 * b.len2 - (a.dot b) ^ 2 := by
  simp only [Pt4.cross, Pt4.dot, Pt4.len2]; ring

theorem pt2_lerp_zero (a b : Pt2 α) : a.lerp b 0 = a := by
  simp [Pt2.lerp, Pt2.add, Pt2.smul, Pt2.sub]
theorem pt2_lerp_one (a b : Pt2 α) : a.lerp b 1 = b := by
  simp [Pt2.lerp, Pt2.add, Pt2.smul, Pt2.sub]
theorem pt3_lerp_zero (a b : Pt3 α) : a.lerp b 0 = a := by
  simp [Pt3.lerp, Pt3.add, Pt3.smul, Pt3.sub]
theorem pt3_lerp_one (a b : Pt3 α) : a.lerp b 1 = b := by
  simp [Pt3.lerp, Pt3.add, Pt3.smul, Pt3.sub]
theorem pt4_lerp_zero (a b : Pt4 α) : a.lerp b 0 = a := by
  simp [Pt4.lerp, Pt4.add, Pt4.smul, Pt4.sub]
theorem pt4_lerp_one (a b : Pt4 α) : a.lerp b 1 = b := by
  simp [Pt4.lerp, Pt4.add, Pt4.smul, Pt4.sub]
/-- lerp is the affine combination (1-t)·a + t·b -/
theorem pt3_lerp_affine (a b : Pt3 α) (t : α) :
    a.lerp b t = a * (1 - t) + b * t := by
  simp only [Pt3.lerp, pt3_add, pt3_smul, Pt3.add, Pt3.smul, Pt3.sub]; congr 1 <;> ring

/-! ## conversions keep coordinates in the named slots -/
theorem toXz_slots (a : Pt2 α) : a.toXz = ⟨a.x, 0, a.y⟩ := rfl
theorem asPt3_slots (a : Pt2 α) (z : α) : a.asPt3 z = ⟨a.x, a.y, z⟩ := rfl
theorem asPt4_slots (a : Pt3 α) (w : α) : a.asPt4 w = ⟨a.x, a.y, a.z, w⟩ := rfl
theorem pt4_asPt3_slots (a : Pt4 α) : a.asPt3 = ⟨a.x, a.y, a.z⟩ := rfl
theorem asPt4_asPt3 (a : Pt3 α) (w : α) : (a.asPt4 w).asPt3 = a := rfl

/-! ## list wrappers act on every element and only on the elements -/
theorem pt2s_translate_length (ps : List (Pt2 α)) (d : Pt2 α) :
    (Pt2s.translate ps d).length = ps.length := by simp [Pt2s.translate]
theorem pt2s_translate_get (ps : List (Pt2 α)) (d : Pt2 α) (i : Nat) :
    (Pt2s.translate ps d)[i]? = (ps[i]?).map (· + d) := by simp [Pt2s.translate]; rfl
theorem pt3s_translate_length (ps : List (Pt3 α)) (d : Pt3 α) :
    (Pt3s.translate ps d).length = ps.length := by simp [Pt3s.translate]
theorem pt3s_translate_get (ps : List (Pt3 α)) (d : Pt3 α) (i : Nat) :
    (Pt3s.translate ps d)[i]? = (ps[i]?).map (· + d) := by simp [Pt3s.translate]; rfl
theorem pt3s_fromPt2s_get (ps : List (Pt2 α)) (z : α) (i : Nat) :
    (Pt3s.fromPt2s ps z)[i]? = (ps[i]?).map (fun p => ⟨p.x, p.y, z⟩) := by
  simp [Pt3s.fromPt2s]; rfl
theorem pt2s_translate_nil (d : Pt2 α) : Pt2s.translate ([] : List (Pt2 α)) d = [] := rfl
theorem pt3s_translate_nil (d : Pt3 α) : Pt3s.translate ([] : List (Pt3 α)) d = [] := rfl

end Components

/-! ## len / normalized over ℝ -/
section Real

theorem pt2_len_sq (a : Pt2 ℝ) : a.len ^ 2 = a.len2 := Pt2.len_sq a
theorem pt3_len_sq (a : Pt3 ℝ) : a.len ^ 2 = a.len2 := Pt3.len_sq a
theorem pt2_len_pos {a : Pt2 ℝ} (h : a ≠ ⟨0, 0⟩) : 0 < a.len := Pt2.len_pos h
theorem pt3_len_pos {a : Pt3 ℝ} (h : a ≠ ⟨0, 0, 0⟩) : 0 < a.len := Pt3.len_pos h

/-- same direction: `normalized = (1/len) • a` -/
theorem pt2_normalized_eq (a : Pt2 ℝ) : a.normalized = a * (1 / a.len) := by
  simp [Pt2.normalized, pt2_smul, div_eq_mul_inv]
theorem pt3_normalized_eq (a : Pt3 ℝ) : a.normalized = a * (1 / a.len) := by
  simp [Pt3.normalized, pt3_smul, div_eq_mul_inv]
/-- the in-place form is the same vector -/
theorem pt2_normalize_eq (a : Pt2 ℝ) : a.normalize = a.normalized := rfl
theorem pt3_normalize_eq (a : Pt3 ℝ) : a.normalize = a.normalized := rfl

theorem pt2_len_normalized {a : Pt2 ℝ} (h : a ≠ ⟨0, 0⟩) : a.normalized.len = 1 := by
  simp [Pt2.len, Pt2.normalized_len2 h]
theorem pt3_len_normalized {a : Pt3 ℝ} (h : a ≠ ⟨0, 0, 0⟩) : a.normalized.len = 1 := by
  simp [Pt3.len, Pt3.normalized_len2 h]

/-- `Pt4::normalized` normalises the xyz part and clears `w` -/
theorem pt4_normalized_xyz (a : Pt4 ℝ) : a.normalized.asPt3 = a.asPt3.normalized := rfl
theorem pt4_normalized_w (a : Pt4 ℝ) : a.normalized.w = 0 := rfl
theorem pt4_len_xyz (a : Pt4 ℝ) : a.len = a.asPt3.len := rfl
/-- the in-place form agrees with `normalized` on the xyz part (it scales `w` too) -/
theorem pt4_normalize_xyz (a : Pt4 ℝ) : a.normalize.asPt3 = a.normalized.asPt3 := rfl

/-- non-vacuity: a concrete non-zero vector meets the hypotheses -/
example : (⟨3, 4⟩ : Pt2 ℝ) ≠ ⟨0, 0⟩ := by
  intro h; have := congrArg Pt2.x h; norm_num at this

end Real
end ScadVerif.C11
