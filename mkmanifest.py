#!/usr/bin/env python3
"""Writes MANIFEST.json from the table below (kept in one place so it stays valid)."""
import json
CLAIMED = {
 "C11": ("Component laws of Pt2/Pt3/Pt4 (operators incl. w, indexing with the panic, dot/cross/Lagrange, lerp, normalized over R, list wrappers, conversions) are Lean theorems about the generic model over an arbitrary field / R; the model is tied to the crate on every run by a bit-exact correspondence run at alpha=Float and by oracles evaluated on the implementation's outputs.",
         "Theorems are about exact arithmetic (fields, R), not IEEE rounding; the model is hand-written and tied to the code by differential execution of ~3k (quick) / 64k (thorough) generated operand sets, so the tie is only as good as that generator; Lean kernel + propext/Classical.choice/Quot.sound.",
         "Lean 4 theorems over a generic field model + differential correspondence harness", "5/C11"),
}
NOT_YET = {
}
ALL = ["C%02d" % i for i in range(1, 20)]
m = {
 "version": 1,
 "setup_cmd": "./check --setup",
 "hooks": {
  "guard": "cargo feature verif_hooks (scad_tree, scad_tree_math)",
  "enable": "harness/Cargo.toml depends on /repo/scad_tree and /repo/scad_tree_math by path with features=[\"verif_hooks\"]",
  "baseline_off_cmd": "cd /repo && cargo test --workspace --no-fail-fast --offline",
  "source_commits": [],
  "add_only": True,
 },
 "engines": [
  {"name": "lean-model", "path": "lean/", "serves_properties": sorted(CLAIMED), "kind_free_text": "Lean 4 model (Model/, Spec/, translator-regenerated Gen/), lemmas and property theorems (Props/), compiled driver"},
  {"name": "rust-harness", "path": "harness/", "serves_properties": sorted(CLAIMED), "kind_free_text": "in-process driver of the real crates: generators, line protocol, catch_unwind"},
  {"name": "translator", "path": "translator/", "serves_properties": ["C09"], "kind_free_text": "Python extractors regenerating Gen/*.lean tables from /repo on every run"},
 ],
 "checks": [],
 "notes": "All checks: ./check <ID> --tier quick|thorough; see DESIGN.md.",
 "not_applicable": [],
}
for pid in ALL:
    if pid in CLAIMED:
        text, note, tech, ref = CLAIMED[pid]
        m["checks"].append({
            "property_id": pid,
            "quick_cmd": f"./check {pid} --tier quick",
            "thorough_cmd": f"./check {pid} --tier thorough",
            "evidence_file": f"evidence/{pid}.json",
            "replay_cmd_template": f"./check {pid} --replay {{path}}",
            "engine": "lean-model",
            "level_claimed": {"category": "proof", "text": text, "design_ref": "DESIGN.md §" + ref},
            "level_note": note,
            "technique": tech,
        })
    else:
        m["not_applicable"].append({"property_id": pid, "reason": NOT_YET.get(pid, "check not built yet (work in progress; the design in DESIGN.md §5 applies and the property will be claimed once its model, theorems and correspondence run exist)")})
json.dump(m, open("MANIFEST.json", "w"), indent=1)
print("claimed", len(m["checks"]), "unclaimed", len(m["not_applicable"]))
