#!/usr/bin/env python3
"""Writes MANIFEST.json from the table below (kept in one place so it stays valid)."""
import json
CLAIMED = {
 "C11": ("Component laws of Pt2/Pt3/Pt4 (operators incl. w, indexing with the panic, dot/cross/Lagrange, lerp, normalized over R, list wrappers, conversions) are Lean theorems about the generic model over an arbitrary field / R; the model is tied to the crate on every run by a bit-exact correspondence run at alpha=Float and by oracles evaluated on the implementation's outputs.",
         "Theorems are about exact arithmetic (fields, R), not IEEE rounding; the model is hand-written and tied to the code by differential execution of ~3k (quick) / 64k (thorough) generated operand sets, so the tie is only as good as that generator; Lean kernel + propext/Classical.choice/Quot.sound.",
         "Lean 4 theorems over a generic field model + differential correspondence harness", "5/C11"),
}
CLAIMED["C12"] = ("dsin/dcos/dtan are sin/cos/tan of x*pi/180 and dasin/dacos/datan invert them on the stated intervals, as Lean theorems over R (Mathlib arcsin_sin, arccos_cos, arctan_tan); approx_eq iff |a-b|<eps. Model tied to the crate by a bit-exact correspondence run (Lean Float calls the same libm) and by oracles that feed the implementation's results back through Lean's own sin/cos/tan.",
  "libm functions are taken to be the real functions (R) / Lean's libm bindings (Float); rounding is outside the theorems; tie is differential over every integer degree -360..360 plus ~8k (quick) / 250k (thorough) generated arguments.",
  "Lean 4 theorems over R (Mathlib inverse-trig lemmas) + differential correspondence harness", "5/C12")
CLAIMED["C09"] = ("Matrix algebra of the Mt4 model as Lean theorems over every commutative ring: identity neutral, associativity, (A*B)*p=A*(B*p), transposition laws, translate/scale action, apply_matrix = full affine map, column-major indexing with the panic; over every field: inverse = None iff det = 0, otherwise a two-sided inverse, det multiplicative (so None only when no inverse exists). The 16 cofactor expressions and the determinant are regenerated from mt4.rs on every run, so the inverse theorems are re-proved against the current source; the rest of the model is tied by correspondence (bit-exact today) and oracles on implementation outputs.",
  "Exact arithmetic, not IEEE; 'to rounding' for A*inverse(A) is an oracle (tolerance scaled by norms) and not a theorem; hand-written parts of the model tied by differential execution over five matrix families.",
  "Lean 4 theorems over commutative rings/fields (ring, field_simp) with translator-regenerated cofactor table + differential correspondence harness", "5/C09")
CLAIMED["C10"] = ("Every rotation route of the model (Pt2::rotated, Pt3::rotated_x/y/z, rot_x/y/z_matrix through Mt4*Pt4 and Mt4*Pt3, rot_vec) is proved equal to the reference right-handed rotation / Rodrigues' formula for every (c,s) over any commutative ring; isometry, composition (a then b = a+b) and inverse (-a) for c^2+s^2=1 and over R in degrees with Mathlib's sin_add/cos_add; look_at_matrix_lh is proved a proper rotation (orthonormal columns, det 1) taking +Z to the unit direction and +X perpendicular to up for eye != center and up not parallel, and for up=+Z with exactly vertical directions. Tied to the crate by correspondence (all routes for one (point, angle, axis) in one case) and route-agreement oracles.",
  "OpenSCAD's rotate() is represented by the hand-transcribed standard right-handed matrices (Spec/Rotation.lean); real arithmetic, not IEEE (sin(180 deg) is 1.2e-16 in doubles, 0 in the theorem); in-place/list/Polyhedron forms are tied by the harness (they are maps in the model).",
  "Lean 4 theorems over commutative rings and R (ring, linear_combination, Mathlib trig) + differential correspondence harness", "5/C10")
CLAIMED["C01"] = ("Emission is modelled piece by piece (one group of tokens per write! of scad.rs) and the model's text equals the crate's text character for character on every generated tree (all 25 operations, fan-out 0..6 including childless operators, empty lists, sequences, deep chains, macro- and Viewer-built trees); a Lean transcription of OpenSCAD's statement grammar (Spec/OpenScad.lean) parses the implementation's text on every case and the parsed shape is compared with the tree. Theorems: see evidence (obligations); the character-level round trip parse(emit t) = t is being extended.",
  "OpenSCAD's grammar is a hand transcription (no OpenSCAD binary in the sandbox); Rust's Display for f64/u64/bool is an external parameter of the model (its text is passed in and checked against the numeral grammar); theorems are about the model, tied by exact text comparison.",
  "Lean 4 model of the emitter + Lean-executed OpenSCAD parser as oracle + differential correspondence harness", "5/C01")
CLAIMED["C02"] = ("OpenSCAD's string lexer reads the library's escaped strings back to the same characters for every NUL-free string (theorem by induction on the string); every ScadColor variant prints an SVG colour keyword except Browns and every alignment/direction keyword is one text() accepts (decide +kernel over variant lists regenerated from scad.rs each run); integers below 2^53 survive OpenSCAD's double. On every generated tree the implementation's text is parsed, bound by OpenSCAD's positional/named rules (Spec/OpenScadBind.lean) and decoded back to the node, and compared field by field — numbers through an exact correctly-rounded decimal-to-binary64 reader.",
  "Binding tables and number/string lexing are hand transcriptions of the OpenSCAD manual/lexer; number round trip relies on Rust's Display (external) and is checked per run, not proved; known findings: Browns, u64 above 2^53.",
  "Lean 4 theorems (induction, decide +kernel over regenerated enum tables) + Lean-executed binder/decoder as oracle + differential correspondence harness", "5/C02")
CLAIMED["C03"] = ("PARTIAL. The ear-clipping loop is modelled exactly (same scan order, same predicates) and its output equals the crate's index list on every generated polygon; theorems about the model are listed in the evidence (loop invariants: indices, orientation of every emitted triangle, area conservation); completion for arbitrary simple polygons (Meisters' two-ears theorem for the remaining polygon, soundness of the later-vertices-only scan) and 'certificate implies no overlap' are plane-topology facts that are cited, not formalised. Every implementation result is checked against the tiling certificate (n-2 triangles, indices, winding, boundary edges once / diagonals twice, areas) by the Lean oracle.",
  "Exact arithmetic in the theorems; floating-point robustness is outside them (known finding: vertices within rounding distance of a chord). Polygon generators are simple by construction (convex, star-shaped, comb, spiral, staircase, the library's own outlines) x winding x list rotation x scale 1e-6..1e6 x 3D embeddings.",
  "Lean 4 model + loop-invariant theorems (partial) + Lean-executed tiling certificate as oracle + differential correspondence harness", "5/C03")
CLAIMED["C07"] = ("PARTIAL. The generators are modelled expression by expression and equal the crate's output bit for bit on every generated argument set; point counts and per-point formulas are theorems about the model (see evidence), simplicity of star/rounded_rect outlines is the plane-geometry fact 'angularly monotone about an interior point implies simple', which is cited and checked per run by an O(n^2) segment test, not formalised. Oracles on implementation output: counts, radius kept / tangency / box and corner arcs, clockwise area, simplicity, and closed-oriented-outward linear extrusion.",
  "Real arithmetic in theorems; libm = real functions; known findings: chamfer with oversize >= size self-intersects; near-degenerate chamfer outlines can defeat the floating-point ear test.",
  "Lean 4 model + theorems (partial) + Lean-executed geometric oracles + differential correspondence harness", "5/C07")
CLAIMED["C08"] = ("The Bezier functions, chain builders and bezier_star are modelled and equal the crate bit for bit over random control points, segment counts (every count 1..300 quick / 1..2000 thorough for the end-point law) and random histories new -> add* -> [close]; theorems about the model are listed in the evidence. Oracles on implementation output: segments+1 points, first/last point exactly the start/end point, de Casteljau points at i/segments, control box, 2D = 3D on planar input, chains pass through every knot in order with shared joints and continuous tangent direction, closed chains do not repeat the first point, bezier_star = BezierStar::new(..).gen_points().",
  "Real arithmetic in theorems; the exact end-point law is stated from laws valid for finite IEEE doubles (0/n = 0, n/n = 1, x*1 = x, x*0 = 0, 0 + x = x).",
  "Lean 4 model + theorems + Lean-executed oracles + differential correspondence harness", "5/C08")
CLAIMED["C04"] = ("PARTIAL. linear_extrude, loft, cylinder, rotate_extrude (open and 360) and sweep (open, closed, twisted) are modelled with the crate's exact index arithmetic and equal its points and faces bit for bit on every generated case; index-pattern theorems are listed in the evidence; 'closed and consistently oriented' is proved from the strip/cap structure as far as listed there and otherwise decided by the exact combinatorial oracle (every directed edge in exactly one face, its reverse in exactly one other) on every implementation mesh, and outwardness by the signed volume under the clockwise-outside convention. Cap certificates for non-convex profiles inherit C03's unformalised plane geometry. Thread and viewer meshes are checked by the same oracle in C16/C18.",
  "Real arithmetic; volume positivity for revolve/sweep is evaluated, not proved; generators keep profiles simple and clockwise, sweeps non-self-intersecting when volume is checked.",
  "Lean 4 model + index-structure theorems (partial) + exact closed-oriented-surface oracle + differential correspondence harness", "5/C04")
CLAIMED["C05"] = ("PARTIAL. Same models as C04. Oracles on implementation meshes: extrusion/loft rings are the given profiles unchanged at z = 0 and z = height (exact), revolve ring k is the profile in the half-plane at k*degrees/segments with radius and height kept, sweep ring k is a rigid copy at path point k perpendicular to the chord between its neighbours, Polyhedron transforms move every point and leave faces untouched, linear-extrusion volume = area x height, every end cap is a tiling certificate of the ring it closes (in that ring's own plane) with the right winding. Theorems: see evidence.",
  "Real arithmetic; cap certificates for concave rings inherit C03's gap; per-ring twist amount is tied by the bit-exact correspondence with the model.",
  "Lean 4 model + theorems (partial) + Lean-executed placement/cap oracles + differential correspondence harness", "5/C05")
CLAIMED["C14"] = ("For threaded_rod, tap, hex_bolt, hex_nut and external_cylinder_chamfer the model builds the centred part as translate([0,0,-H/2]) of the un-centred part (a syntactic equality of trees, theorems in the evidence) and the model's trees equal the crate's trees node for node and number for number; on every case the implementation's centred tree is compared token-exactly with translate([0,0,-H/2]) wrapped around its own un-centred tree.",
  "Thread table regenerated from metric_thread.rs each run; mesh leaves are compared as data; H is length, head+length, nut height or cylinder height.",
  "Lean 4 model with syntactic tree equality theorems + exact structural oracle + differential correspondence harness", "5/C14")
CLAIMED["C16"] = ("The size-table lookup (next smaller listed size, M2 below) and the table facts (internal > external, pitch < diameter, chamfer size above the oversize the builders pass) are kernel-decided over the 56 rows regenerated from metric_thread.rs on every run; threaded_cylinder is modelled step by step (lead-in/out counters, profiles, 8-triangle strips, both hands) and equals the crate's mesh bit for bit, for table sizes through the public builders and for free proportions through the hook. Oracles on implementation meshes: closed/oriented/outward, starts at z = 0, every vertex between minor and major radius with minor = major - 2*(5/8)*(sqrt 3/2)*pitch, one pitch per revolution within the step-count rounding, hand.",
  "Real arithmetic for the proportion theorems; radii/pitch/hand of the generated mesh are checked per run (tolerance 1e-9), the invariant proof of the step fold is listed in the evidence as far as it is closed.",
  "Lean 4 model + decide +kernel over the regenerated thread table + Lean-executed oracles + differential correspondence harness", "5/C16")
CLAIMED["C15"] = ("The six Pipe builders are modelled as trees; theorems over R: a straight/tapered pipe is the solid pipe minus a coaxial bore of diameter od - 2*wall (so removing the bore gives exactly the *_solid pipe), the bore's z-extent strictly contains the body's for either centre setting, hollow and solid curved pipes share one body whose translations cancel so the cross-section starts centred on the origin, and the assertions (bore not positive, angle outside (0,360]) reject. The model equals the crate's trees exactly; the same relations are evaluated on every implementation tree.",
  "z-extents use the documented meaning of OpenSCAD's cylinder(h, center); real arithmetic.",
  "Lean 4 theorems over R on the tree model + exact structural oracle + differential correspondence harness", "5/C15")
CLAIMED["C17"] = ("polar_array is proved (for every subtree, count and degrees <= 360) to be the subtree plus exactly count placements rotate([0,0,-k*step]) of the unmodified subtree, with step = 360/count for a full circle and degrees/(count-1) otherwise (peeling theorem by induction over the fold); external_cylinder_chamfer is proved to be the union of one ring cutter and the same ring under translate([0,0,h]) rotate([180,0,0]) — the mirror image about the mid-height plane composed with y -> -y, which fixes a full revolve — built from the chamfer outline revolved with the requested angle and $fn. Model = crate on every generated case; the same structure is checked on the implementation's trees.",
  "Real arithmetic; 'distinct placements' is read as the placement list (copy 0 coincides with the unrotated base).",
  "Lean 4 theorems (induction over the fold) + exact structural oracle + differential correspondence harness", "5/C17")
CLAIMED["C19"] = ("Refinement theorem: for every seed and every output position, across any number of in-place regenerations, the model generator's output equals temper(x_{k+624}) of the reference sequence (x_0 = seed, x_i = 6069*x_{i-1}, x_{k+624} = x_{k+397} xor twist(x_k, x_{k+1})) — proved by a loop invariant over the three regeneration loops (cells below kk already hold the next block), with the constants regenerated from rng.rs on every run and kernel-checked against the paper's. Range maps: f32_0_1 in [0,1) (exact rational (u>>8)/2^24, which f32 represents exactly), i32_minmax in [min,max) and f32/f64_minmax in [min,max] in exact arithmetic. The model equals the crate bit for bit (u32 stream, f32 and f64 results) and the reference stream, executed independently in Lean, is compared with the implementation's stream for fixed and random seeds over thousands of positions; every raw value near the top of the range goes through the maps.",
  "PARTIAL for i32_minmax/f32_minmax: the f32 rounding of the product is not modelled (exact arithmetic only; checked per run on the implementation). The 6069 seeding multiplier is the documented one (the 1998 reference code used 69069). MersenneTwister::new (clock seed) is not modelled.",
  "Lean 4 refinement proof (loop invariant over array updates) + decide over regenerated constants + reference stream oracle + differential correspondence harness", "5/C19")
NOT_YET = {
}
ALL = ["C%02d" % i for i in range(1, 20)]
m = {
 "version": 1,
 "setup_cmd": "./check --setup",
 "hooks": {
  "guard": "cargo feature verif_hooks (scad_tree, scad_tree_math)",
  "enable": "harness/Cargo.toml depends on /repo/scad_tree and /repo/scad_tree_math by path with features=[\"verif_hooks\"]",
  "baseline_off_cmd": "cd /repo && cargo test --workspace --no-fail-fast --offline",
  "source_commits": [],
  "add_only": True,
 },
 "engines": [
  {"name": "lean-model", "path": "lean/", "serves_properties": sorted(CLAIMED), "kind_free_text": "Lean 4 model (Model/, Spec/, translator-regenerated Gen/), lemmas and property theorems (Props/), compiled driver"},
  {"name": "rust-harness", "path": "harness/", "serves_properties": sorted(CLAIMED), "kind_free_text": "in-process driver of the real crates: generators, line protocol, catch_unwind"},
  {"name": "translator", "path": "translator/", "serves_properties": ["C09"], "kind_free_text": "Python extractors regenerating Gen/*.lean tables from /repo on every run"},
 ],
 "checks": [],
 "notes": "All checks: ./check <ID> --tier quick|thorough; see DESIGN.md.",
 "not_applicable": [],
}
for pid in ALL:
    if pid in CLAIMED:
        text, note, tech, ref = CLAIMED[pid]
        m["checks"].append({
            "property_id": pid,
            "quick_cmd": f"./check {pid} --tier quick",
            "thorough_cmd": f"./check {pid} --tier thorough",
            "evidence_file": f"evidence/{pid}.json",
            "replay_cmd_template": f"./check {pid} --replay {{path}}",
            "engine": "lean-model",
            "level_claimed": {"category": "proof", "text": text, "design_ref": "DESIGN.md §" + ref},
            "level_note": note,
            "technique": tech,
        })
    else:
        m["not_applicable"].append({"property_id": pid, "reason": NOT_YET.get(pid, "check not built yet (work in progress; the design in DESIGN.md §5 applies and the property will be claimed once its model, theorems and correspondence run exist)")})
json.dump(m, open("MANIFEST.json", "w"), indent=1)
print("claimed", len(m["checks"]), "unclaimed", len(m["not_applicable"]))
