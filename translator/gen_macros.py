#!/usr/bin/env python3
"""Regenerate Gen/MacroArms.lean and harness/src/gen_macros.rs from the `macro_rules!` definitions
of scad_tree/src/scad.rs: for every arm its matcher (literal tokens, `$x:expr`, the child
repetition), the ScadOp variant it builds and one small expression tree per field.  Refuses on
any construct outside this grammar (a broken tie, never a silent skip)."""
import re, sys

class Refuse(SystemExit):
    pass

def refuse(msg):
    raise Refuse("gen_macros: " + msg)

# ---------------------------------------------------------------- parsing
def split_arms(body, name):
    arms = []
    pos = 0
    # an arm:  (pattern) => { ... };
    for m in re.finditer(r"\n\s*\((?P<pat>[^\n]*)\) => \{", body):
        start = m.end()
        depth = 1
        i = start
        while depth:
            c = body[i]
            if c == "{":
                depth += 1
            elif c == "}":
                depth -= 1
            i += 1
        arms.append((m.group("pat"), body[start:i - 1]))
    return arms

def tok_pattern(pat, macro):
    toks, mvs = [], []
    i = 0
    child = False
    while i < len(pat):
        c = pat[i]
        if c.isspace():
            i += 1; continue
        m = re.match(r"\$\(\$child:expr\);\+;", pat[i:])
        if m:
            toks.append(("children",)); child = True; i += m.end(); continue
        m = re.match(r"\$(\w+):expr", pat[i:])
        if m:
            if m.group(1) in mvs:
                refuse(f"{macro}: metavariable ${m.group(1)} bound twice")
            mvs.append(m.group(1)); toks.append(("mv", len(mvs) - 1)); i += m.end(); continue
        m = re.match(r"[A-Za-z_][A-Za-z0-9_]*", pat[i:])
        if m:
            toks.append(("lit", m.group(0))); i += m.end(); continue
        if c in "=,[]":
            toks.append(("lit", c)); i += 1; continue
        refuse(f"{macro}: unexpected pattern text {pat[i:i+20]!r}")
    return toks, mvs, child

NUM = r"(\d+)\.(\d+)"

def parse_expr(e, mvs, lets, macro):
    """-> tuple tree"""
    e = e.strip()
    def var(name):
        # `$name` or a local bound by `let name = $name;`
        if name.startswith("$"):
            n = name[1:]
            if n not in mvs:
                refuse(f"{macro}: unknown metavariable {name}")
            return ("mv", mvs.index(n))
        if name in lets:
            return ("local", lets.index(name))
        refuse(f"{macro}: unknown identifier {name!r} in template")
    V = r"(\$\w+|[a-z_][a-z0-9_]*)"
    if e == "None":
        return ("none",)
    if e in ("true", "false"):
        return ("bool", e == "true")
    m = re.fullmatch(NUM, e)
    if m:
        return ("num", int(m.group(1) + m.group(2)), len(m.group(2)))
    if re.fullmatch(r"\d+", e):
        return ("nat", int(e))
    m = re.fullmatch(r'"([^"\\]*)"\.to_string\(\)', e)
    if m:
        return ("str", m.group(1))
    m = re.fullmatch(r"(TextHalign|TextValign|TextDirection)::(\w+)", e)
    if m:
        return ("enum", m.group(2))
    m = re.fullmatch(r"Some\((.*)\)", e)
    if m:
        return ("some", parse_expr(m.group(1), mvs, lets, macro))
    m = re.fullmatch(r"Pt[234]::new\((.*)\)", e)
    if m:
        return ("pt", [parse_expr(x, mvs, lets, macro) for x in m.group(1).split(",")])
    m = re.fullmatch(r"\((.*,.*)\)", e)
    if m:
        return ("tuple", [parse_expr(x, mvs, lets, macro) for x in m.group(1).split(",")])
    m = re.fullmatch(V + r" / 2\.0", e)
    if m:
        return ("half", var(m.group(1)))
    m = re.fullmatch(V + r"\.to_string\(\)", e)
    if m:
        return ("tostr", var(m.group(1)))
    m = re.fullmatch(V + r"\.(\w+)", e)
    if m:
        return ("field", var(m.group(1)), m.group(2))
    m = re.fullmatch(V, e)
    if m and not re.fullmatch(r"[a-z_][a-z0-9_]*", e) or (m and e in lets):
        return var(e)
    refuse(f"{macro}: template expression outside the grammar: {e!r}")

def parse_template(body, mvs, macro):
    b = body.strip()
    lets = []
    if b.startswith("{"):
        # `{ let a = $a; ... Scad { ... } }`
        if not b.endswith("}"):
            refuse(f"{macro}: unbalanced block")
        b = b[1:-1].strip()
        while True:
            m = re.match(r"let (\w+) = \$(\w+);\s*", b)
            if not m:
                break
            if m.group(2) not in mvs:
                refuse(f"{macro}: let binds unknown ${m.group(2)}")
            lets.append((m.group(1), mvs.index(m.group(2))))
            b = b[m.end():]
    m = re.fullmatch(r"Scad \{\s*op: ScadOp::(\w+)(?: \{(.*?)\})?,\s*children: (vec!\[\$\(\$child,\)\+\]|Vec::new\(\)),?\s*\}", b, re.S)
    if not m:
        refuse(f"{macro}: arm body is not a `Scad {{ op: …, children: … }}` literal: {b[:60]!r}")
    op, fields_txt, ch = m.groups()
    let_names = [n for n, _ in lets]
    fields = []
    if fields_txt:
        # split on top-level commas
        depth, cur, parts = 0, "", []
        for c in fields_txt:
            if c in "([":
                depth += 1
            elif c in ")]":
                depth -= 1
            if c == "," and depth == 0:
                parts.append(cur); cur = ""
            else:
                cur += c
        if cur.strip():
            parts.append(cur)
        for p in parts:
            fm = re.fullmatch(r"\s*(\w+):\s*(.*)", p.strip(), re.S)
            if not fm:
                refuse(f"{macro}: cannot read field {p!r}")
            fields.append((fm.group(1), parse_expr(" ".join(fm.group(2).split()), mvs, let_names, macro)))
    return op, fields, ch.startswith("vec!"), lets

def parse_macros(src):
    cut = src.index("#[cfg(test)]") if "#[cfg(test)]" in src else len(src)
    src = src[:cut]
    out = []
    for name, body in re.findall(r"macro_rules! (\w+) \{(.*?)\n\}\n", src, re.S):
        if name == "scad_file":
            continue
        for pat, tmpl in split_arms(body, name):
            toks, mvs, child = tok_pattern(pat, name)
            op, fields, has_children, lets = parse_template(tmpl, mvs, name)
            if has_children != child:
                refuse(f"{name}: children of the pattern and of the template differ")
            out.append(dict(macro=name, pattern=toks, mvs=mvs, op=op, fields=fields, children=child, lets=lets))
    return out

def parse_scad_file(src):
    m = re.search(r"macro_rules! scad_file \{(.*?)\n\}\n", src, re.S)
    if not m:
        refuse("scad_file! not found")
    arms = []
    for pat, body in split_arms(m.group(1), "scad_file"):
        toks, mvs, child = tok_pattern(pat, "scad_file")
        b = " ".join(body.split())
        shape = (r"let t = fat_thread!\(\$stack_size, \{ let children = vec!\[\$\(\$child,\)\+\]; "
                 r"let mut file = std::fs::File::create\(\$path\)\.unwrap\(\); (?P<hdr>(?:file\.write_all\(format!\(\"\$f[asn]=\{\};\\n\", \$f[asn]\)\.as_bytes\(\)\)\.unwrap\(\); )*)"
                 r"for child in children \{ let s = format!\(\"\{\}\", child\); file\.write_all\(s\.as_bytes\(\)\)\.unwrap\(\); \} "
                 r"file\.flush\(\)\.unwrap\(\); \}\); t\.join\(\)\.unwrap\(\);")
        mm = re.fullmatch(shape, b)
        if not mm:
            refuse("scad_file!: an arm has an unexpected shape: " + b[:120])
        hdr = re.findall(r'format!\("\$(f[asn])=\{\};\\n", \$(f[asn])\)', mm.group("hdr"))
        for a, bb in hdr:
            if a != bb:
                refuse("scad_file!: header line prints a different variable than it names")
        arms.append(dict(mvs=mvs, settings=[a for a, _ in hdr], pattern=toks))
    return arms

# ---------------------------------------------------------------- Lean output
def chars(s):
    return "[" + ", ".join("'%s'" % c.replace("\\", "\\\\").replace("'", "\\'") for c in s) + "]"

def lean_tmpl(t):
    k = t[0]
    if k == "mv":
        return f"(.mv {t[1]})"
    if k == "local":
        return f"(.loc {t[1]})"
    if k == "none":
        return ".none_"
    if k == "bool":
        return f"(.boolLit {'true' if t[1] else 'false'})"
    if k == "num":
        return f"(.numLit {t[1]} {t[2]})"
    if k == "nat":
        return f"(.natLit {t[1]})"
    if k == "str":
        return f"(.strLit {chars(t[1])})"
    if k == "enum":
        return f"(.enumLit {chars(t[1])})"
    if k == "some":
        return f"(.some_ {lean_tmpl(t[1])})"
    if k == "pt":
        return "(.pt [" + ", ".join(lean_tmpl(x) for x in t[1]) + "])"
    if k == "tuple":
        return "(.tuple [" + ", ".join(lean_tmpl(x) for x in t[1]) + "])"
    if k == "half":
        return f"(.half {lean_tmpl(t[1])})"
    if k == "tostr":
        return f"(.toStr {lean_tmpl(t[1])})"
    if k == "field":
        return f"(.field {lean_tmpl(t[1])} {chars(t[2])})"
    refuse("internal: " + k)

def lean_ptok(t):
    if t[0] == "children":
        return ".children"
    if t[0] == "mv":
        return f"(.mv {t[1]})"
    return f"(.lit {chars(t[1])})"

def gen_lean(arms, sf):
    L = ["/- GENERATED by translator/gen_macros.py from scad_tree/src/scad.rs — do not edit. -/",
         "import ScadVerif.Model.Macro", "namespace ScadVerif.Gen", "open ScadVerif.Macro", "",
         f"/-- the {len(arms)} arms of the construction macros, in source order -/",
         "def arms : List Arm := ["]
    rows = []
    for a in arms:
        fields = ", ".join(f"({chars(f)}, {lean_tmpl(t)})" for f, t in a["fields"])
        lets = ", ".join(str(i) for _, i in a["lets"])
        rows.append("  { macroName := %s, mvNames := [%s], pattern := [%s], op := %s, fields := [%s], hasChildren := %s, lets := [%s] }" % (
            chars(a["macro"]), ", ".join(chars(m) for m in a["mvs"]), ", ".join(lean_ptok(t) for t in a["pattern"]),
            chars(a["op"]), fields, "true" if a["children"] else "false", lets))
    L.append(",\n".join(rows))
    L.append("]")
    L.append("")
    L.append("/-- the five `scad_file!` arms: metavariables and the settings lines written, in order -/")
    L.append("def scadFileArms : List (List (List Char) × List (List Char)) := [")
    L.append(",\n".join("  ([%s], [%s])" % (", ".join(chars(m) for m in a["mvs"]), ", ".join(chars(s) for s in a["settings"])) for a in sf))
    L.append("]")
    L += ["", "end ScadVerif.Gen"]
    return "\n".join(L) + "\n"

# ---------------------------------------------------------------- Rust output
KIND = {}
for n in "dia r fa fs size x y z height radius radius1 radius2 diameter diameter1 diameter2 twist scale scale_x scale_y angle a alpha delta spacing g b".split():
    KIND[n] = "f"
for n in "fn convexity slices".split():
    KIND[n] = "u"
for n in "center cut invert auto auto_x auto_y auto_z chamfer".split():
    KIND[n] = "b"
for n in "text font language script file".split():
    KIND[n] = "s"
KIND.update(hex="x", halign="kh", valign="kv", direction="kd", color="kc", paths="paths", faces="paths", params="params")

def kind_of(macro, mv):
    if mv == "points":
        return "pts2" if macro == "polygon" else "pts3"
    if mv not in KIND:
        refuse(f"{macro}: no value kind known for metavariable ${mv}")
    return KIND[mv]

def gen_rust(arms):
    R = ["// GENERATED by translator/gen_macros.py from scad_tree/src/scad.rs - do not edit.",
         "#![allow(unused_variables, unused_mut, clippy::all)]",
         "use crate::macrovals::*;", "use scad_tree::prelude::*;", "",
         f"pub const N_ARMS: usize = {len(arms)};", "",
         "/// invoke arm `k` with counted argument expressions; `nc` children",
         "pub fn invoke(k: usize, nc: usize) -> Scad {", "    match k {"]
    for k, a in enumerate(arms):
        def argexpr(i):
            kind = kind_of(a["macro"], a["mvs"][i])
            return "{ hit(%d); val_%s(%d) }" % (i, kind, i)
        variants = []
        for nc in (1, 2, 3):
            parts = []
            for t in a["pattern"]:
                if t[0] == "lit":
                    parts.append(t[1])
                elif t[0] == "mv":
                    parts.append(argexpr(t[1]))
                else:
                    parts.append(" ".join("{ hit_child(%d); child(%d) };" % (j, j) for j in range(nc)))
            # join tokens; literal punctuation needs no spaces, identifiers do
            text = " ".join(parts)
            variants.append(f"{a['macro']}!({text})")
            if not a["children"]:
                break
        if a["children"]:
            R.append(f"        {k} => match nc {{ 1 => {variants[0]}, 2 => {variants[1]}, _ => {variants[2]} }},")
        else:
            R.append(f"        {k} => {variants[0]},")
    R.append('        _ => panic!("no such arm"),')
    R.append("    }")
    R.append("}")
    R.append("")
    R.append("/// value kinds of the metavariables of every arm")
    R.append("pub const KINDS: &[&[&str]] = &[")
    for a in arms:
        R.append("    &[" + ", ".join('"%s"' % kind_of(a["macro"], m) for m in a["mvs"]) + "],")
    R.append("];")
    R.append("pub const HAS_CHILDREN: &[bool] = &[" + ", ".join("true" if a["children"] else "false" for a in arms) + "];")
    return "\n".join(R) + "\n"

def generate(repo):
    src = open(f"{repo}/scad_tree/src/scad.rs").read()
    arms = parse_macros(src)
    sf = parse_scad_file(src)
    return {"MacroArms.lean": gen_lean(arms, sf), "harness:gen_macros.rs": gen_rust(arms)}

if __name__ == "__main__":
    out = generate(sys.argv[1])
    for fn, text in out.items():
        print(fn, len(text))
