#!/usr/bin/env python3
"""Regenerate Gen/SrcMetricThread.lean from scad_tree/src/metric_thread.rs (see geomsrc.py for the rules and the function list)."""
import os, sys
sys.path.insert(0, os.path.dirname(os.path.abspath(__file__)))
import geomsrc


def generate(repo):
    return geomsrc.generate_file(repo, "metric_thread")
