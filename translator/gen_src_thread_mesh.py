#!/usr/bin/env python3
"""Regenerate Gen/SrcThreadMesh.lean from scad_tree/src/metric_thread.rs: `threaded_cylinder`, the thread mesh
loop (a fold over the tuple of the variables the loop updates; see treesrc.py)."""
import os, sys
sys.path.insert(0, os.path.dirname(os.path.abspath(__file__)))
import treesrc


def generate(repo):
    return treesrc.generate_file(repo, "thread_mesh")
