#!/usr/bin/env python3
"""Regenerate Gen/SrcThreadParts.lean from scad_tree/src/metric_thread.rs: threaded_rod, tap, hex_bolt, hex_nut
(see treesrc.py for the rules, the function list and the hand-modelled callees named directly)."""
import os, sys
sys.path.insert(0, os.path.dirname(os.path.abspath(__file__)))
import treesrc


def generate(repo):
    return treesrc.generate_file(repo, "thread_parts")
