#!/usr/bin/env python3
"""Regenerate Gen/SrcDim2.lean from scad_tree/src/dim2.rs (see geomsrc.py for the rules and the function list)."""
import os, sys
sys.path.insert(0, os.path.dirname(os.path.abspath(__file__)))
import geomsrc


def generate(repo):
    return geomsrc.generate_file(repo, "dim2")
