#!/usr/bin/env python3
"""Regenerate Gen/SrcScad.lean from scad_tree/src/scad.rs (see treesrc.py for the rules and the function list)."""
import os, sys
sys.path.insert(0, os.path.dirname(os.path.abspath(__file__)))
import treesrc


def generate(repo):
    return treesrc.generate_file(repo, "scad")
