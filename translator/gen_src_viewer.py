#!/usr/bin/env python3
"""Regenerate Gen/SrcViewer.lean from scad_tree/src/viewer.rs: every function of `impl Viewer` (see treesrc.py)."""
import os, sys
sys.path.insert(0, os.path.dirname(os.path.abspath(__file__)))
import treesrc


def generate(repo):
    return treesrc.generate_file(repo, "viewer")
