#!/usr/bin/env python3
"""Regenerate Gen/SrcPolyhedron.lean from scad_tree/src/dim3.rs: Polyhedron::{into_scad, into_scad_with_convexity,
translate, apply_matrix, rotate_x/y/z, linear_extrude, loft, cylinder, rotate_extrude, sweep} (see treesrc.py)."""
import os, sys
sys.path.insert(0, os.path.dirname(os.path.abspath(__file__)))
import treesrc


def generate(repo):
    return treesrc.generate_file(repo, "poly")
