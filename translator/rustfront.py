#!/usr/bin/env python3
"""A small front end for the subset of Rust that scad_tree_math is written in.

tokenise -> items (struct / impl / fn) -> statements and expressions (Pratt parser).
Anything outside the subset raises `Unsupported`; the caller decides whether that is a
broken tie (a function that used to be translated) or an expected skip (an allow-listed one).
"""
import re


class Unsupported(Exception):
    pass


TOKEN_RE = re.compile(r"""
    (?P<ws>\s+)
  | (?P<lc>//[^\n]*)
  | (?P<bc>/\*.*?\*/)
  | (?P<str>"(?:\\.|[^"\\])*")
  | (?P<hex>0x[0-9a-fA-F_]+(?:u32|u64|usize)?)
  | (?P<num>\d[\d_]*(?:\.\d[\d_]*)?(?:[eE][-+]?\d+)?(?:_?(?:f64|f32|usize|isize|u64|u32|i32|i64|u16|i16|u8))?)
  | (?P<chr>'(?:\\.|\\u\{[0-9a-fA-F]+\}|[^'\\])')
  | (?P<life>'[a-zA-Z_]\w*)
  | (?P<id>[A-Za-z_]\w*)
  | (?P<op>::|->|=>|==|!=|<<=|>>=|<<|>>|<=|>=|&&|\|\||\+=|-=|\*=|/=|\^=|\|=|&=|\.\.=|\.\.|[-+*/%=<>!&|.,;:(){}\[\]#?@^$~])
""", re.S | re.X)


def tokenize(src):
    src = src.replace("\r", "")
    out, i = [], 0
    while i < len(src):
        m = TOKEN_RE.match(src, i)
        if not m:
            raise Unsupported(f"cannot tokenise at {src[i:i+30]!r}")
        i = m.end()
        k = m.lastgroup
        if k in ("ws", "lc", "bc"):
            continue
        if k == "hex":
            out.append(("num", str(int(re.sub(r"(u32|u64|usize)$", "", m.group(k)).replace("_", ""), 16))))
            continue
        out.append((k, m.group(k)))
    out.append(("eof", ""))
    return out


class P:
    """token cursor"""
    def __init__(self, toks):
        self.t, self.i = toks, 0

    def peek(self, k=0):
        return self.t[min(self.i + k, len(self.t) - 1)]

    def at(self, v, k=0):
        return self.peek(k)[1] == v and self.peek(k)[0] != "str"

    def next(self):
        tok = self.t[self.i]
        self.i += 1
        return tok

    def eat(self, v):
        if self.at(v):
            self.i += 1
            return True
        return False

    def expect(self, v):
        if v == ">" and self.at(">>"):
            # `Vec<Vec<T>>`: the tokeniser's shift operator closes two generic lists
            self.t[self.i] = ("op", ">")
            return
        if not self.eat(v):
            raise Unsupported(f"expected {v!r}, found {self.peek()[1]!r}")

    def ident(self):
        k, v = self.next()
        if k != "id":
            raise Unsupported(f"expected identifier, found {v!r}")
        return v


# ------------------------------------------------------------------ types
def parse_type(p):
    """returns a string: f64, usize, bool, Pt3, Self, Vec<Pt3>, &T (as T), &mut T (as T)"""
    if p.eat("&"):
        if p.peek()[0] == "life":
            p.next()
        p.eat("mut")
        return parse_type(p)
    if p.eat("("):
        if p.eat(")"):
            return "()"
        parts = [parse_type(p)]
        while p.eat(","):
            parts.append(parse_type(p))
        p.expect(")")
        return "(" + ",".join(parts) + ")"
    if p.eat("["):
        inner = parse_type(p)
        if p.eat(";"):
            p.next()
        p.expect("]")
        return "[" + inner + "]"
    if p.peek()[0] == "life":
        p.next()
        return "'_"
    name = p.ident()
    while p.eat("::"):
        name = name + "::" + p.ident()
    if p.eat("<"):
        args = [parse_type(p)]
        while p.eat(","):
            args.append(parse_type(p))
        p.expect(">")
        name = name + "<" + ",".join(args) + ">"
    return name


# ------------------------------------------------------------------ expressions
BINPREC = {"||": 1, "&&": 2, "==": 3, "!=": 3, "<": 3, "<=": 3, ">": 3, ">=": 3,
           "|": 4, "^": 5, "&": 6, "<<": 7, ">>": 7,
           "+": 8, "-": 8, "*": 9, "/": 9, "%": 9}


def parse_expr(p, minprec=0, nostruct=False):
    lhs = parse_unary(p, nostruct)
    while True:
        k, v = p.peek()
        if k == "id" and v == "as":
            p.next()
            lhs = ("cast", lhs, parse_type(p))
            continue
        if k == "op" and v in BINPREC and BINPREC[v] >= minprec and BINPREC[v] > 0:
            prec = BINPREC[v]
            if prec < minprec:
                break
            p.next()
            rhs = parse_expr(p, prec + 1, nostruct)
            lhs = ("bin", v, lhs, rhs)
            continue
        break
    return lhs


def parse_unary(p, nostruct):
    if p.at("|") or p.at("||"):
        params = []
        if not p.eat("||"):
            p.expect("|")
            while not p.at("|"):
                p.eat("&"); p.eat("mut")
                params.append(p.ident())
                if p.eat(":"):
                    parse_type(p)
                if not p.eat(","):
                    break
            p.expect("|")
        if p.at("{"):
            return ("closure", params, ("block", parse_block(p)))
        return ("closure", params, parse_expr(p, 0, nostruct))
    if p.eat("-"):
        return ("neg", parse_unary(p, nostruct))
    if p.eat("!"):
        return ("not", parse_unary(p, nostruct))
    if p.eat("*"):
        return ("deref", parse_unary(p, nostruct))
    if p.eat("&"):
        mut = p.eat("mut")
        return ("ref", mut, parse_unary(p, nostruct))
    return parse_postfix(p, parse_primary(p, nostruct), nostruct)


def parse_args(p, close=")"):
    args = []
    while not p.at(close):
        args.append(parse_expr(p))
        if not p.eat(","):
            break
    p.expect(close)
    return args


def parse_postfix(p, e, nostruct):
    while True:
        if p.at("."):
            p.next()
            k, v = p.next()
            if k == "num":
                if not v.isdigit():
                    raise Unsupported(f"tuple field {v}")
                e = ("tfield", e, int(v))
                continue
            if k != "id":
                raise Unsupported(f"after '.': {v!r}")
            if p.eat("("):
                e = ("mcall", e, v, parse_args(p))
            else:
                e = ("field", e, v)
            continue
        if p.at("["):
            p.next()
            idx = parse_expr(p)
            p.expect("]")
            e = ("index", e, idx)
            continue
        if p.at("?"):
            p.next()
            e = ("try", e)
            continue
        return e


def parse_primary(p, nostruct):
    k, v = p.peek()
    if k == "num":
        p.next()
        return ("num", v)
    if k == "str":
        p.next()
        return ("str", v)
    if k == "chr":
        p.next()
        return ("chr", v)
    if v == "[" and k == "op":
        p.next()
        return ("array", parse_args(p, "]"))
    if v == "(" and k == "op":
        p.next()
        e = parse_expr(p)
        if p.at("..") or p.at("..="):
            incl = p.next()[1] == "..="
            hi = parse_expr(p)
            e = ("range", e, hi, incl)
        if p.at(","):
            items = [e]
            while p.eat(","):
                if p.at(")"):
                    break
                items.append(parse_expr(p))
            p.expect(")")
            return ("tuple", items)
        p.expect(")")
        return ("paren", e)
    if k == "id" and v == "if":
        return parse_if(p)
    if k == "id" and v == "match":
        p.next()
        scrut = parse_expr(p, nostruct=True)
        p.expect("{")
        arms = []
        while not p.at("}"):
            if p.at("_"):
                p.next()
                pat = ("wild",)
            elif p.peek()[0] == "chr":
                pat = ("chr", p.next()[1])
            elif p.peek()[0] == "id" and (p.at("::", 1) or p.at("{", 1)):
                path = [p.ident()]
                while p.eat("::"):
                    path.append(p.ident())
                fields = None
                if p.eat("{"):
                    fields = []
                    while not p.at("}"):
                        if p.eat(".."):
                            fields.append("..")
                        else:
                            fields.append(p.ident())
                        if not p.eat(","):
                            break
                    p.expect("}")
                pat = ("pstruct", path, fields)
            else:
                kk, vv = p.next()
                if kk == "id":
                    pat = ("path", [vv])          # a constant
                elif kk != "num":
                    raise Unsupported(f"match pattern {vv!r}")
                else:
                    pat = ("num", vv)
            p.expect("=>")
            if p.at("{"):
                arms.append((pat, ("block", parse_block(p))))
                p.eat(",")
                continue
            arms.append((pat, parse_expr(p)))
            if not p.eat(","):
                break
        p.expect("}")
        return ("match", scrut, arms)
    if k == "id" and v in ("true", "false"):
        p.next()
        return ("bool", v == "true")
    if k == "id":
        path = [p.ident()]
        while p.at("::"):
            p.next()
            path.append(p.ident())
        if p.at("!"):
            p.next()
            opener = p.next()[1]
            closer = {"(": ")", "[": "]", "{": "}"}[opener]
            depth, toks = 1, []
            while depth:
                kk, vv = p.next()
                if kk == "eof":
                    raise Unsupported("unterminated macro")
                if kk == "op" and vv == opener:
                    depth += 1
                elif kk == "op" and vv == closer:
                    depth -= 1
                if depth:
                    toks.append(vv)
            return ("macro", "::".join(path), toks)
        if p.at("("):
            p.next()
            return ("call", path, parse_args(p))
        if p.at("{") and not nostruct and path[-1][0].isupper():
            p.next()
            fields = []
            while not p.at("}"):
                fname = p.ident()
                if p.eat(":"):
                    fields.append((fname, parse_expr(p)))
                else:
                    fields.append((fname, ("path", [fname])))
                if not p.eat(","):
                    break
            p.expect("}")
            return ("struct", path, fields)
        return ("path", path)
    raise Unsupported(f"unexpected token {v!r}")


def parse_if(p):
    p.expect("if")
    if p.at("let"):
        # `if let Some(x) = e { .. } else { .. }`
        p.next()
        ctor = p.ident()
        if ctor != "Some":
            raise Unsupported(f"if let pattern {ctor}")
        p.expect("(")
        var = p.ident()
        p.expect(")")
        p.expect("=")
        scrut = parse_expr(p, nostruct=True)
        th = parse_block(p)
        el = None
        if p.eat("else"):
            el = [("expr", parse_if(p))] if p.at("if") else parse_block(p)
        return ("iflet", var, scrut, th, el)
    c = parse_expr(p, nostruct=True)
    th = parse_block(p)
    el = None
    if p.eat("else"):
        if p.at("if"):
            el = [("expr", parse_if(p))]
        else:
            el = parse_block(p)
    return ("if", c, th, el)


# ------------------------------------------------------------------ statements
def parse_block(p):
    """{ stmt* [expr] } -> list of statements; a trailing expression is ("expr", e)"""
    p.expect("{")
    out = []
    while not p.at("}"):
        out.append(parse_stmt(p))
    p.expect("}")
    return out


def parse_stmt(p):
    k, v = p.peek()
    if k == "id" and v == "let":
        p.next()
        mut = p.eat("mut")
        name = p.ident()
        ty = None
        if p.eat(":"):
            ty = parse_type(p)
        if p.eat(";"):
            return ("let", name, mut, ty, None)      # declared, assigned later
        p.expect("=")
        e = parse_expr(p)
        p.expect(";")
        return ("let", name, mut, ty, e)
    if k == "id" and v == "const":
        p.next()
        name = p.ident()
        p.expect(":")
        ty = parse_type(p)
        p.expect("=")
        e = parse_expr(p)
        p.expect(";")
        return ("let", name, False, ty, e)            # a local constant is an immutable binding
    if k == "id" and v == "return":
        p.next()
        e = None if p.at(";") else parse_expr(p)
        p.eat(";")
        return ("return", e)
    if k == "id" and v == "for":
        p.next()
        if p.at("("):
            p.next()
            names = [p.ident()]
            while p.eat(","):
                names.append(p.ident())
            p.expect(")")
            var = tuple(names)
        else:
            var = p.ident()
        p.expect("in")
        it = parse_expr(p, nostruct=True)
        if p.at("..") or p.at("..="):
            incl = p.next()[1] == "..="
            hi = parse_expr(p, nostruct=True)
            it = ("range", it, hi, incl)
        body = parse_block(p)
        return ("for", var, it, body)
    if k == "id" and v == "use":
        while not p.eat(";"):
            p.next()
        return ("use",)
    if k == "id" and v in ("break", "continue") and p.at(";", 1):
        p.next(); p.next()
        return (v,)
    if k == "id" and v == "while":
        p.next()
        c = parse_expr(p, nostruct=True)
        return ("while", c, parse_block(p))
    if k == "id" and v == "unsafe" and p.at("{", 1):
        p.next()
        return ("unsafe", parse_block(p))
    if k == "id" and v == "loop" and p.at("{", 1):
        p.next()
        return ("while", ("bool", True), parse_block(p))
    e = parse_expr(p)
    for op in ("=", "+=", "-=", "*=", "/=", "^=", "|=", "&=", "<<=", ">>="):
        if p.at(op):
            p.next()
            rhs = parse_expr(p)
            p.eat(";")
            return ("assign", op, e, rhs)
    if p.eat(";"):
        return ("semi", e)
    return ("expr", e)


# ------------------------------------------------------------------ items
def skip_attrs(p):
    while p.at("#"):
        p.next()
        p.eat("!")
        p.expect("[")
        depth = 1
        while depth:
            k, v = p.next()
            if k == "op" and v == "[":
                depth += 1
            elif k == "op" and v == "]":
                depth -= 1


def skip_balanced(p, opener="{", closer="}"):
    p.expect(opener)
    depth = 1
    while depth:
        k, v = p.next()
        if k == "eof":
            raise Unsupported("unbalanced")
        if k == "op" and v == opener:
            depth += 1
        elif k == "op" and v == closer:
            depth -= 1


def parse_fn(p):
    """at `fn`; returns dict(name, params[(name, type, mode)], ret, body | error)"""
    p.expect("fn")
    name = p.ident()
    if p.at("<"):
        raise Unsupported("generic fn")
    p.expect("(")
    params = []
    while not p.at(")"):
        if p.at("&"):
            p.next()
            if p.peek()[0] == "life":
                p.next()
            mut = p.eat("mut")
            p.expect("self")
            params.append(("self", "Self", "mutref" if mut else "ref"))
        elif p.at("mut") and p.at("self", 1):
            p.next(); p.next()
            params.append(("self", "Self", "val"))
        elif p.at("self"):
            p.next()
            params.append(("self", "Self", "val"))
        else:
            p.eat("mut")
            pn = p.ident()
            p.expect(":")
            isref = p.at("&")
            ismut = isref and p.at("mut", 1)
            params.append((pn, parse_type(p), "mutref" if ismut else ("ref" if isref else "val")))
        if not p.eat(","):
            break
    p.expect(")")
    ret = "()"
    if p.eat("->"):
        ret = parse_type(p)
    start = p.i
    fn = {"name": name, "params": params, "ret": ret}
    # remember where the body is so a failed parse can be skipped
    q = P(p.t)
    q.i = start
    skip_balanced(q)
    end = q.i
    try:
        fn["body"] = parse_block(p)
        if p.i != end:
            raise Unsupported("body parse stopped early")
    except Unsupported as ex:
        fn["error"] = str(ex)
        p.i = end
    fn["tokens"] = [v for _, v in p.t[start:end]]
    return fn


def parse_file(src):
    """returns dict(structs={name:{fields:[(n,t)], derives:[..]}}, impls=[{trait, targ, ty, assoc, fns}], fns=[..])"""
    p = P(tokenize(src))
    structs, impls, fns = {}, [], []
    derives = []
    while p.peek()[0] != "eof":
        if p.at("#"):
            # keep derive lists for the next struct
            j = p.i
            skip_attrs(p)
            txt = " ".join(v for _, v in p.t[j:p.i])
            m = re.search(r"derive \( ([^)]*) \)", txt)
            if m:
                derives = [d.strip() for d in m.group(1).split(",") if d.strip()]
            continue
        p.eat("pub")
        if p.at("(") :
            skip_balanced(p, "(", ")")
        if p.at("mod") and p.peek(1)[0] == "id" and p.at("{", 2):
            p.next(); p.next()
            skip_balanced(p)
            continue
        if p.at("use") or p.at("mod"):
            while not p.eat(";"):
                if p.at("{"):
                    skip_balanced(p)
                else:
                    p.next()
            continue
        if p.at("struct"):
            p.next()
            name = p.ident()
            fields = []
            if p.eat("{"):
                while not p.at("}"):
                    skip_attrs(p)
                    p.eat("pub")
                    fn_ = p.ident()
                    p.expect(":")
                    fields.append((fn_, parse_type(p)))
                    if not p.eat(","):
                        break
                p.expect("}")
            else:
                while not p.eat(";"):
                    p.next()
            structs[name] = {"fields": fields, "derives": derives}
            derives = []
            continue
        if p.at("enum"):
            p.next()
            ename = p.ident()
            p.expect("{")
            variants = []
            while not p.at("}"):
                skip_attrs(p)
                vname = p.ident()
                vfields = []
                if p.at("{"):
                    p.next()
                    while not p.at("}"):
                        skip_attrs(p)
                        fn_ = p.ident()
                        p.expect(":")
                        vfields.append((fn_, parse_type(p)))
                        if not p.eat(","):
                            break
                    p.expect("}")
                elif p.at("("):
                    skip_balanced(p, "(", ")")
                if p.eat("="):
                    p.next()
                variants.append((vname, vfields))
                if not p.eat(","):
                    break
            p.expect("}")
            structs["enum " + ename] = {"variants": variants, "derives": derives, "fields": []}
            derives = []
            continue
        if p.at("impl"):
            p.next()
            first = parse_type(p)
            trait, ty = None, first
            if p.eat("for"):
                trait, ty = first, parse_type(p)
            p.expect("{")
            assoc, ifns = {}, []
            while not p.at("}"):
                skip_attrs(p)
                p.eat("pub")
                if p.at("type"):
                    p.next()
                    an = p.ident()
                    p.expect("=")
                    assoc[an] = parse_type(p)
                    p.expect(";")
                elif p.at("fn"):
                    ifns.append(parse_fn(p))
                elif p.at("const"):
                    while not p.eat(";"):
                        p.next()
                else:
                    raise Unsupported(f"impl item {p.peek()[1]!r}")
            p.expect("}")
            impls.append({"trait": trait, "ty": ty, "assoc": assoc, "fns": ifns})
            continue
        if p.at("fn"):
            fns.append(parse_fn(p))
            continue
        if p.at("macro_rules"):
            p.next(); p.expect("!"); p.ident()
            skip_balanced(p)
            continue
        if p.at("const") or p.at("static") or p.at("type"):
            while not p.eat(";"):
                p.next()
            continue
        raise Unsupported(f"top-level item {p.peek()[1]!r}")
    return {"structs": structs, "impls": impls, "fns": fns}


if __name__ == "__main__":
    import sys, pprint
    pprint.pprint(parse_file(open(sys.argv[1]).read()), width=140)
