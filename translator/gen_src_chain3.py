#!/usr/bin/env python3
"""Regenerate Gen/SrcChain3.lean from scad_tree/src/dim3.rs: the Bézier structs, the cubic chain
(new, add, close, gen_points) (see treesrc.py)."""
import os, sys
sys.path.insert(0, os.path.dirname(os.path.abspath(__file__)))
import treesrc


def generate(repo):
    return treesrc.generate_file(repo, "chain3")
