#!/usr/bin/env python3
"""Regenerate Gen/SrcEmit.lean: mechanical transcription of the text writers of the two crates —
`impl Display for Scad` and `ScadStr` (scad.rs), `Display for Indices / Paths` (lib.rs; `Faces` is a type alias of
`Paths`), `Display for Pt2 / Pt3 / Pt4 / Pt2s / Pt3s` (scad_tree_math) — as functions returning the characters
written (`List Char`).

Rules (the trusted part; `?` only propagates `fmt::Error`, which a `String` sink never raises):
  `write!(f, "lit{}lit{:?}", a, b)?;`   -> the literal pieces (`{{` `}}` and string escapes undone) and the printed
                                          arguments, concatenated, then the rest of the block
  `writeln!(f, ..)`                      -> the same followed by a newline; `writeln!(f)` -> a newline
  `f.write_char(c)` / `f.write_str(s)`   -> `[c]` / the literal
  `return write!(..)` / a tail `write!`  -> that text (nothing after it)
  `if c { A } rest` with A returning     -> `if c then A else rest`;  `if c { A } [else { B }] rest` -> `(if ..) ++ rest`
  `if let Some(x) = e { A } [else B]`    -> `match e with | some x => A | none => B` (B = nothing if absent)
  `for i in 0..N { S }`                  -> `(List.range N).flatMap (fun i => S)`
  `for c in s.chars() { match c {..} }`  -> `s.flatMap (fun c => if c = 'x' then .. else ..)`
  `match &self.op { ScadOp::V { fields } => {..} }` -> one equation per constructor (fields in declaration order)
  `for i in 0..self.children.len() { write!(f, "{}", self.children[i])?; }` -> the children's texts in order
                                          (structural recursion over the child list)
  `matches!(self.op, A {..} | B {..})`   -> a Boolean match on the constructor
an argument is printed by its Rust type: f64 -> the model's `showNum` (Display for f64, an external parameter),
u64/usize -> decimal digits, bool -> true/false, a Pt / list wrapper / ScadStr / Scad -> its own transcribed writer,
`{:?}` on a field-less enum (colour, text alignment) -> the variant name (how the model stores those fields).
"""
import os, re, sys
sys.path.insert(0, os.path.dirname(os.path.abspath(__file__)))
from rustfront import parse_file, Unsupported, P, tokenize, parse_args

LEAN_OP = {"Import": "import_"}
NAME_ENUMS = {"ScadColor", "TextHalign", "TextValign", "TextDirection"}
FIELDS = {"Pt2": {"x": "f64", "y": "f64"}, "Pt3": {"x": "f64", "y": "f64", "z": "f64"},
          "Pt4": {"x": "f64", "y": "f64", "z": "f64", "w": "f64"}}
ELEM = {"Pt2s": "Pt2", "Pt3s": "Pt3", "Pt4s": "Pt4", "Indices": "u64", "Paths": "Indices", "Faces": "Indices"}
DEFAULT = {"Pt2": "⟨0, 0⟩", "Pt3": "⟨0, 0, 0⟩", "Pt4": "⟨0, 0, 0, 0⟩", "u64": "0", "Indices": "[]"}
LEAN_TY = {"f64": "ν", "u64": "Nat", "usize": "Nat", "bool": "Bool", "Pt2": "Pt2 ν", "Pt3": "Pt3 ν", "Pt4": "Pt4 ν",
           "Pt2s": "List (Pt2 ν)", "Pt3s": "List (Pt3 ν)", "Pt4s": "List (Pt4 ν)", "Indices": "List Nat",
           "Paths": "List (List Nat)", "Faces": "List (List Nat)", "String": "List Char", "&str": "List Char"}


def lean_chars(s):
    """a Lean term for the character list of the (already unescaped) text s"""
    if s == "":
        return "([] : List Char)"
    esc = s.replace("\\", "\\\\").replace('"', '\\"').replace("\n", "\\n").replace("\t", "\\t").replace("\r", "\\r")
    return f'c!"{esc}"'


def rust_unescape(lit):
    body = lit[1:-1]
    out, i = [], 0
    while i < len(body):
        c = body[i]
        if c == "\\":
            n = body[i + 1]
            out.append({"n": "\n", "t": "\t", "r": "\r", "\\": "\\", '"': '"', "'": "'", "0": "\0"}[n])
            i += 2
        else:
            out.append(c); i += 1
    return "".join(out)


def split_format(fmt):
    """format string -> list of ("lit", text) / ("arg", spec)"""
    parts, cur, i = [], "", 0
    while i < len(fmt):
        c = fmt[i]
        if c == "{" and fmt[i:i + 2] == "{{":
            cur += "{"; i += 2
        elif c == "}" and fmt[i:i + 2] == "}}":
            cur += "}"; i += 2
        elif c == "{":
            j = fmt.index("}", i)
            if cur:
                parts.append(("lit", cur)); cur = ""
            spec = fmt[i + 1:j]
            if spec not in ("", ":?"):
                raise Unsupported(f"format spec {{{spec}}}")
            parts.append(("arg", spec)); i = j + 1
        else:
            cur += c; i += 1
    if cur:
        parts.append(("lit", cur))
    return parts


class Tr:
    def __init__(self, self_ty, variants=None):
        self.self_ty = self_ty
        self.variants = variants or {}

    # ---- expressions: (lean term, rust type)
    def expr(self, e, env):
        k = e[0]
        if k in ("ref", "deref", "paren"):
            return self.expr(e[-1], env)
        if k == "path" and len(e[1]) == 1 and e[1][0] in env:
            return env[e[1][0]]
        if k == "field":
            s, t = self.expr(e[1], env)
            if t in FIELDS and e[2] in FIELDS[t]:
                return f"{s}.{e[2]}", FIELDS[t][e[2]]
            raise Unsupported(f"field {e[2]} of {t}")
        if k == "tfield":
            s, t = self.expr(e[1], env)
            if t == "(bool,bool,bool)":
                return f"{s}" + [".1", ".2.1", ".2.2"][e[2]], "bool"
            if t == "ScadStr" and e[2] == 0:
                return s, "String"
            raise Unsupported(f"tuple field of {t}")
        if k == "index":
            s, t = self.expr(e[1], env)
            i, it = self.expr(e[2], env)
            if t in ELEM and it in ("usize", "u64"):
                return f"({s}.getD {i} {DEFAULT[ELEM[t]]})", ELEM[t]
            raise Unsupported(f"indexing {t}")
        if k == "mcall" and e[2] == "len" and not e[3]:
            s, t = self.expr(e[1], env)
            if t in ELEM:
                return f"(List.length {s})", "usize"
        if k == "mcall" and e[2] == "is_empty" and not e[3]:
            s, t = self.expr(e[1], env)
            if t in ELEM:
                return f"(List.isEmpty {s})", "bool"
        if k == "num" and e[1].isdigit():
            return e[1], "usize"
        if k == "bin" and e[1] in ("-", "+"):
            a, at = self.expr(e[2], env); b, bt = self.expr(e[3], env)
            if at in ("usize", "u64") and bt in ("usize", "u64"):
                return f"({a} {e[1]} {b})", "usize"
        if k == "not":
            s, t = self.expr(e[1], env)
            if t == "bool":
                return f"(!{s})", "bool"
        if k == "call" and e[1] == ["ScadStr"] and len(e[2]) == 1:
            s, t = self.expr(e[2][0], env)
            if t in ("String", "&str"):
                return s, "ScadStr"
        if k == "macro" and e[1] == "matches":
            toks = e[2]
            if toks[:4] != ["self", ".", "op", ","]:
                raise Unsupported("matches! of this shape")
            alts, cur = [], []
            for t_ in toks[4:]:
                if t_ == "|":
                    alts.append(cur); cur = []
                else:
                    cur.append(t_)
            alts.append(cur)
            names = []
            for a in alts:
                if not (len(a) == 6 and a[:2] == ["ScadOp", "::"] and a[3:] == ["{", "..", "}"] and a[2] in self.variants):
                    raise Unsupported("matches! alternative")
                names.append(a[2])
            arms = " ".join(f"| .{ctor(n)} .. => true" for n in names)
            return f"(match {env['self'][0]}.op with {arms} | _ => false)", "bool"
        raise Unsupported(f"expression {k}")

    def show(self, e, spec, env):
        s, t = self.expr(e, env)
        if spec == ":?":
            if t in NAME_ENUMS:
                return s
            raise Unsupported(f"{{:?}} of {t}")
        if t == "f64":
            return f"showNum {s}"
        if t in ("u64", "usize"):
            return f"Src.fmt.u64 {s}"
        if t == "bool":
            return f"Src.fmt.bool {s}"
        if t in ("Pt2", "Pt3", "Pt4", "Pt2s", "Pt3s", "Pt4s"):
            return f"Src.{t}.fmt showNum {s}"
        if t == "Indices":
            return f"Src.Indices.fmt {s}"
        if t in ("Paths", "Faces"):
            return f"Src.Paths.fmt {s}"
        if t == "ScadStr":
            return f"Src.ScadStr.fmt {s}"
        raise Unsupported(f"printing a value of type {t}")

    def write(self, toks, env, newline):
        p = P(tokenize(" ".join(toks) + " )"))
        args = parse_args(p, ")")
        if not args or args[0] != ("path", ["f"]):
            raise Unsupported("write! to something other than f")
        pieces = []
        if len(args) > 1:
            if args[1][0] != "str":
                raise Unsupported("write! without a literal format string")
            parts = split_format(rust_unescape(args[1][1]))
            rest = list(args[2:])
            for kind, v in parts:
                if kind == "lit":
                    pieces.append(lean_chars(v))
                else:
                    if not rest:
                        raise Unsupported("write!: too few arguments")
                    pieces.append("(" + self.show(rest.pop(0), v, env) + ")")
            if rest:
                raise Unsupported("write!: too many arguments")
        if newline:
            pieces.append("['\\n']")
        return pieces or ["([] : List Char)"]

    def piece(self, e, env):
        """text written by an expression statement; returns list of lean terms"""
        if e[0] == "try":
            e = e[1]
        if e[0] == "macro" and e[1] in ("write", "writeln"):
            return self.write(e[2], env, e[1] == "writeln")
        if e[0] == "mcall" and e[1] == ("path", ["f"]) and e[2] == "write_char" and len(e[3]) == 1:
            a = e[3][0]
            if a[0] == "chr":
                return ["[" + a[1] + "]"]
            s, t = self.expr(a, env)
            if t == "char":
                return [f"[{s}]"]
        if e[0] == "mcall" and e[1] == ("path", ["f"]) and e[2] == "write_str" and len(e[3]) == 1 and e[3][0][0] == "str":
            return [lean_chars(rust_unescape(e[3][0][1]))]
        raise Unsupported(f"statement expression {e[0]}")

    def cat(self, terms):
        terms = [t for t in terms if t != "([] : List Char)"] or ["([] : List Char)"]
        return " ++ ".join(terms)

    def block(self, stmts, env):
        """lean term (List Char) for the text a statement list writes"""
        if not stmts:
            return "([] : List Char)"
        st, rest = stmts[0], stmts[1:]
        k = st[0]
        if k == "use":
            return self.block(rest, env)
        if k == "return":
            return self.cat(self.piece(st[1], env))
        if k == "let":
            s, t = self.expr(st[4], env)
            env = dict(env); env[st[1]] = (s, t)
            return self.block(rest, env)
        if k == "for":
            _, var, it, body = st
            if it[0] == "range" and it[1] == ("num", "0") and not it[3]:
                if (len(body) == 1 and body[0][0] in ("semi", "expr") and self_children_write(body[0][1], var)
                        and it[2] == ("mcall", ("field", ("path", ["self"]), "children"), "len", [])):
                    here = f"Src.ScadList.fmt {env['self'][0]}.children"
                else:
                    hs, ht = self.expr(it[2], env)
                    benv = dict(env); benv[var] = (var, "usize")
                    here = f"(List.range {hs}).flatMap (fun ({var} : Nat) => {self.block(body, benv)})"
            elif it[0] == "mcall" and it[2] == "chars" and not it[3]:
                s, t = self.expr(it[1], env)
                if t not in ("String", "&str"):
                    raise Unsupported("chars() of a non-string")
                benv = dict(env); benv[var] = (var, "char")
                here = f"({s}).flatMap (fun ({var} : Char) => {self.block(body, benv)})"
            else:
                raise Unsupported("for header")
            r = self.block(rest, env)
            return self.cat([f"({here})", r])
        if k in ("semi", "expr"):
            e = st[1]
            if e[0] == "if":
                _, c, th, el = e
                cs, ct = self.expr(c, env)
                if ct != "bool":
                    raise Unsupported("if on a non-bool")
                if el is None and th and th[-1][0] == "return":
                    return f"(if {cs} then {self.block(th, env)} else {self.block(rest, env)})"
                a = self.block(th, env)
                b = self.block(el, env) if el else "([] : List Char)"
                return self.cat([f"(if {cs} then {a} else {b})", self.block(rest, env)])
            if e[0] == "iflet":
                _, pv, scrut, th, el = e
                ss, stt = self.expr(scrut, env)
                m = re.fullmatch(r"Option<(.*)>", stt)
                if not m:
                    raise Unsupported("if let on a non-Option")
                aenv = dict(env); aenv[pv] = (pv, m.group(1))
                a = self.block(th, aenv)
                b = self.block(el, env) if el else "([] : List Char)"
                return self.cat([f"(match {ss} with | some {pv} => {a} | none => {b})", self.block(rest, env)])
            if e[0] == "match" and e[1][0] == "path" and env.get(e[1][1][0], (None, None))[1] == "char":
                # match on a character: literal arms then a catch-all binding
                cv = env[e[1][1][0]][0]
                out = None
                for pat, body in reversed(e[2]):
                    bt = self.cat(self.piece(body, env if pat[0] == "chr" else {**env, pat[1][0]: (cv, "char")}))
                    if pat[0] == "chr":
                        if out is None:
                            raise Unsupported("char match without a catch-all arm")
                        out = f"(if {cv} = {pat[1]} then {bt} else {out})"
                    elif pat[0] == "path" and out is None:
                        out = bt
                    else:
                        raise Unsupported("char match arm")
                return self.cat([out, self.block(rest, env)])
            return self.cat(self.piece(e, env) + [self.block(rest, env)])
        raise Unsupported(f"statement {k}")


def lean_ty(t):
    m = re.fullmatch(r"Option<(.*)>", t)
    if m:
        return f"Option ({lean_ty(m.group(1))})"
    if t in NAME_ENUMS:
        return "List Char"
    if t == "(bool,bool,bool)":
        return "Bool × Bool × Bool"
    return LEAN_TY[t]


def uses_shownum(text):
    return "showNum" in text.split(":=", 1)[1]


def self_children_write(e, var):
    if e[0] == "try":
        e = e[1]
    return e == ("macro", "write", ["f", ",", '"{}"', ",", "self", ".", "children", "[", var, "]"])


def ctor(v):
    return LEAN_OP.get(v, v[0].lower() + v[1:])


def find_display(d, ty):
    for im in d["impls"]:
        if im["trait"] and "Display" in im["trait"] and im["ty"].split("<")[0] == ty:
            fn = im["fns"][0]
            if "error" in fn:
                raise Unsupported(f"Display for {ty}: {fn['error']}")
            return fn
    raise SystemExit(f"gen_src_emit: impl Display for {ty} not found")


def generate(repo):
    out = ["/- GENERATED by translator/gen_src_emit.py from the Display impls of scad.rs, lib.rs, pt2/pt3/pt4.rs — do not edit. -/",
           "import ScadVerif.Model.Scad", "set_option linter.unusedVariables false", "namespace ScadVerif",
           "section", "variable {ν : Type} [OfNat ν 0] (showNum : ν → List Char)", "",
           "/-- Rust's `Display for bool` / for unsigned integers (external behaviour, DESIGN §3.4) -/",
           "def Src.fmt.bool (b : Bool) : List Char := if b then c!\"true\" else c!\"false\"",
           "def Src.fmt.u64 (n : Nat) : List Char := Nat.toDigits 10 n", ""]
    errors = []
    def emit(name, binder, body_fn):
        try:
            out.append(f"def {name} {binder} : List Char :=\n  {body_fn()}\n")
        except Unsupported as ex:
            errors.append(f"{name}: not translatable ({ex})")
    # points and point lists
    for f in ("pt2", "pt3", "pt4"):
        d = parse_file(open(f"{repo}/scad_tree_math/src/{f}.rs").read())
        T = f.capitalize()
        fn = find_display(d, T)
        emit(f"Src.{T}.fmt", f"(self : {T} ν)", lambda fn=fn, T=T: Tr(T).block(fn["body"], {"self": ("self", T)}))
        if f != "pt4":
            fn = find_display(d, T + "s")
            emit(f"Src.{T}s.fmt", f"(self : List ({T} ν))", lambda fn=fn, T=T: Tr(T + "s").block(fn["body"], {"self": ("self", T + "s")}))
    d = parse_file(open(f"{repo}/scad_tree/src/lib.rs").read())
    if not re.search(r"pub\s+type\s+Faces\s*=\s*Paths\s*;", open(f"{repo}/scad_tree/src/lib.rs").read()):
        errors.append("lib.rs: `pub type Faces = Paths;` not found")
    out.insert(out.index("section"), "")
    fn = find_display(d, "Indices")
    idx_def = len(out)
    emit("Src.Indices.fmt", "(self : List Nat)", lambda: Tr("Indices").block(fn["body"], {"self": ("self", "Indices")}))
    fn2 = find_display(d, "Paths")
    emit("Src.Paths.fmt", "(self : List (List Nat))", lambda: Tr("Paths").block(fn2["body"], {"self": ("self", "Paths")}))
    src = open(f"{repo}/scad_tree/src/scad.rs").read()
    d = parse_file(src)
    fn3 = find_display(d, "ScadStr")
    emit("Src.ScadStr.fmt", "(self : List Char)", lambda: Tr("ScadStr").block(fn3["body"], {"self": ("self", "ScadStr")}))
    # the emitter
    variants = dict(d["structs"]["enum ScadOp"]["variants"])
    fn4 = find_display(d, "Scad")
    body = fn4["body"]
    try:
        if not (body and body[0][0] in ("semi", "expr") and body[0][1][0] == "match"
                and body[0][1][1] in (("ref", False, ("field", ("path", ["self"]), "op")), ("field", ("path", ["self"]), "op"))):
            raise Unsupported("Display for Scad does not start with `match &self.op`")
        tr = Tr("Scad", variants)
        eqs, seen, helpers = [], set(), []
        for pat, arm in body[0][1][2]:
            if pat[0] != "pstruct" or pat[1][0] != "ScadOp" or pat[1][1] not in variants or arm[0] != "block":
                raise Unsupported("match arm of Display for Scad")
            v = pat[1][1]
            decl = variants[v]
            bound = pat[2] or []
            if ".." in bound or [f for f, _ in decl] != bound:
                raise Unsupported(f"pattern of ScadOp::{v} does not bind the fields in declaration order")
            env = {f: (f, t) for f, t in decl}
            seen.add(v)
            # one definition per arm (keeps the equations of the dispatching `match` small)
            binders = "".join(f" ({f} : {lean_ty(t)})" for f, t in decl)
            helpers.append(f"/-- arm `ScadOp::{v}` -/\ndef Src.ScadOp.fmtHead.{ctor(v)}{binders} : List Char :=\n  {tr.block(arm[1], env)}\n")
            eqs.append(f"  | .{ctor(v)}" + "".join(f" {f}" for f, _ in decl) + f" => Src.ScadOp.fmtHead.{ctor(v)}" + (" showNum" if uses_shownum(helpers[-1]) else "") + "".join(f" {f}" for f, _ in decl))
        missing = [v for v in variants if v not in seen]
        if missing:
            raise Unsupported("no match arm for " + ", ".join(missing))
        out.extend(helpers)
        out.append("/-- the `match &self.op { .. }` of `Display for Scad`: what is written before the children -/")
        out.append("def Src.ScadOp.fmtHead : ScadOp ν → List Char\n" + "\n".join(eqs) + "\n")
        # `let opened_block = !matches!(self.op, ..);` depends on the operation only: hoisted into its own definition
        # (a `match` inside the recursive function would make Lean split its equations by constructor)
        rest_ = list(body[1:])
        env_ = {"self": ("self", "Scad")}
        for i_, st_ in enumerate(rest_):
            if st_[0] == "let" and st_[1] == "opened_block":
                val_, ty_ = tr.expr(st_[4], env_)
                out.append("/-- `let opened_block = !matches!(self.op, <the ten primitives>)` -/")
                out.append("def Src.ScadOp.openedBlock (op : ScadOp ν) : Bool :=\n  " + val_.replace("self.op", "op") + "\n")
                env_["opened_block"] = ("(Src.ScadOp.openedBlock self.op)", "bool")
                del rest_[i_]
                break
        tail = tr.block(rest_, env_)
        out.append("mutual")
        out.append("/-- `impl Display for Scad` -/")
        out.append("def Src.Scad.fmt : Scad ν → List Char\n  | .mk op children =>\n    Src.ScadOp.fmtHead showNum op ++ " + tail.replace("self.children", "children").replace("self.op", "op") + "\n")
        out.append("def Src.ScadList.fmt : ScadList ν → List Char\n  | .nil => []\n  | .cons h t => Src.Scad.fmt h ++ Src.ScadList.fmt t")
        out.append("end\n")
    except Unsupported as ex:
        errors.append(f"Display for Scad: not translatable ({ex})")
    if errors:
        raise SystemExit("gen_src_emit: " + "; ".join(errors))
    out.append("end")
    out.append("\nend ScadVerif")
    return {"SrcEmit.lean": "\n".join(out) + "\n"}


if __name__ == "__main__":
    for fn, text in generate("/repo").items():
        print(text)
