#!/usr/bin/env python3
"""Transcription of the tree-building functions of scad_tree (pipe.rs: the six `Pipe::*` builders;
scad.rs: `Scad::external_circle_chamfer`, `external_cylinder_chamfer`, `polar_array`, `impl Add`,
`impl Sub`) into Lean, with the same translator as gen_mathsrc.py / geomsrc.py plus:

  a construction-macro invocation `name!(tokens)`  ->  the node its first matching arm builds:
      the arms (matcher, ScadOp variant, one expression tree per field) are extracted from the
      `macro_rules!` definitions of scad.rs by gen_macros.py; `$x:expr` binds a Rust expression,
      `$($child:expr);+;` the children; the fields are laid out in the declaration order of the
      `ScadOp` variant (read from the enum), which is the argument order of the Lean constructor
  `for i in 0..N { let ..; acc = f(acc, i); }`     ->  `List.foldl (fun acc i => ..) acc (List.range N)`
  `x.clone()`                                      ->  `x`
"""
import os, re, sys
sys.path.insert(0, os.path.dirname(os.path.abspath(__file__)))
import gen_mathsrc as G
import geomsrc
import gen_macros
from rustfront import parse_file, Unsupported

TRANSLATE = {
    "pipe": [("Pipe", "straight"), ("Pipe", "straight_solid"), ("Pipe", "curved"), ("Pipe", "curved_solid"),
             ("Pipe", "tapered"), ("Pipe", "tapered_solid")],
    "scad": [("Scad", "add_Scad"), ("Scad", "sub_Scad"), ("Scad", "external_circle_chamfer"),
             ("Scad", "external_cylinder_chamfer"), ("Scad", "polar_array")],
}
TRANSLATE["poly"] = [("Polyhedron", "into_scad"), ("Polyhedron", "into_scad_with_convexity"), ("Polyhedron", "translate"),
                     ("Polyhedron", "apply_matrix"), ("Polyhedron", "rotate_x"), ("Polyhedron", "rotate_y"), ("Polyhedron", "rotate_z"),
                     ("Polyhedron", "linear_extrude"), ("Polyhedron", "loft"), ("Polyhedron", "cylinder"),
                     ("Polyhedron", "rotate_extrude"), ("Polyhedron", "sweep")]
TRANSLATE["chain2"] = [("QuadraticBezier2D", "new"), ("QuadraticBezier2D", "gen_points"), ("CubicBezier2D", "new"), ("CubicBezier2D", "gen_points"),
                       ("CubicBezierChain2D", "new"), ("CubicBezierChain2D", "add"), ("CubicBezierChain2D", "close"),
                       ("CubicBezierChain2D", "gen_points"), ("BezierStar", "new"), ("BezierStar", "gen_points"), (None, "bezier_star")]
TRANSLATE["chain3"] = [("QuadraticBezier3D", "new"), ("QuadraticBezier3D", "gen_points"), ("CubicBezier3D", "new"), ("CubicBezier3D", "gen_points"),
                       ("CubicBezierChain3D", "new"), ("CubicBezierChain3D", "add"), ("CubicBezierChain3D", "close"),
                       ("CubicBezierChain3D", "gen_points")]
# the Bézier record structs are the model's structures (field for field; `end` is `end_`); `BezierStar` wraps one
# chain and is translated as that chain
CHAIN_RECORDS = {
    "chain2": ({"QuadraticBezier2D": "Dim2.Quadratic α", "CubicBezier2D": "Dim2.Cubic α", "CubicBezierChain2D": "Dim2.Chain α"},
               {"CubicBezier2D": "(⟨⟨0, 0⟩, ⟨0, 0⟩, ⟨0, 0⟩, ⟨0, 0⟩, 0⟩ : Dim2.Cubic α)"},
               {"BezierStar": ("chain", "CubicBezierChain2D")}),
    "chain3": ({"QuadraticBezier3D": "Dim3.Quadratic α", "CubicBezier3D": "Dim3.Cubic α", "CubicBezierChain3D": "Dim3.Chain α"},
               {"CubicBezier3D": "(⟨⟨0, 0, 0⟩, ⟨0, 0, 0⟩, ⟨0, 0, 0⟩, ⟨0, 0, 0⟩, 0⟩ : Dim3.Cubic α)"},
               {}),
}
TRANSLATE["viewer"] = [("Viewer", n) for n in (
    "new", "add_pt2", "add_pt3", "add_pt2s", "add_pt3s", "add_lines2d", "add_lines3d", "add_quadratic_bezier2d",
    "add_quadratic_bezier3d", "add_cubic_bezier2d", "add_cubic_bezier3d", "add_cubic_bezier_chain2d",
    "add_cubic_bezier_chain3d", "add_bezier_star", "into_scad")]
# what viewer.rs calls in dim2.rs / dim3.rs: named by their own transcriptions (Gen/SrcChain2, SrcChain3, SrcPolyhedron)
VIEWER_EXTERNS = {
    ("Polyhedron", "cylinder"): {"lean": "Src.Polyhedron.cylinder", "params": [("radius", "f64", "val"), ("height", "f64", "val"), ("segments", "u64", "val")], "ret": "Polyhedron", "selfmode": None, "partial": True},
    ("Polyhedron", "apply_matrix"): {"lean": "Src.Polyhedron.apply_matrix", "params": [("self", "Polyhedron", "mutref"), ("matrix", "Mt4", "ref")], "ret": "Polyhedron", "selfmode": "mutref"},
    ("Polyhedron", "translate"): {"lean": "Src.Polyhedron.translate", "params": [("self", "Polyhedron", "mutref"), ("point", "Pt3", "val")], "ret": "Polyhedron", "selfmode": "mutref"},
    ("QuadraticBezier2D", "gen_points"): {"lean": "Src.QuadraticBezier2D.gen_points", "params": [("self", "QuadraticBezier2D", "ref")], "ret": "Pt2s", "selfmode": "ref"},
    ("QuadraticBezier3D", "gen_points"): {"lean": "Src.QuadraticBezier3D.gen_points", "params": [("self", "QuadraticBezier3D", "ref")], "ret": "Pt3s", "selfmode": "ref"},
    ("CubicBezier2D", "gen_points"): {"lean": "Src.CubicBezier2D.gen_points", "params": [("self", "CubicBezier2D", "ref")], "ret": "Pt2s", "selfmode": "ref"},
    ("CubicBezier3D", "gen_points"): {"lean": "Src.CubicBezier3D.gen_points", "params": [("self", "CubicBezier3D", "ref")], "ret": "Pt3s", "selfmode": "ref"},
}
TRANSLATE["thread_mesh"] = [(None, "threaded_cylinder")]
THREAD_MESH_EXTERNS = {
    (None, "lerp"): {"lean": "Src.metric_thread.lerp", "params": [("start", "Pt3", "val"), ("end", "Pt3", "val"), ("n_steps", "usize", "val"), ("step", "usize", "val")], "ret": "Pt3", "selfmode": None},
    ("Polyhedron", "cylinder"): {"lean": "Src.Polyhedron.cylinder", "params": [("radius", "f64", "val"), ("height", "f64", "val"), ("segments", "u64", "val")], "ret": "Polyhedron", "selfmode": None, "partial": True},
    ("Polyhedron", "into_scad"): {"lean": "Src.Polyhedron.into_scad", "params": [("self", "Polyhedron", "val")], "ret": "Scad", "selfmode": "val"},
}
TRANSLATE["thread_lookup"] = [(None, "m_table_lookup")]
TRANSLATE["thread_parts"] = [(None, "threaded_rod"), (None, "tap"), (None, "hex_bolt"), (None, "hex_nut")]
SOURCE = {"pipe": "pipe", "scad": "scad", "thread_parts": "metric_thread", "poly": "dim3", "chain2": "dim2", "chain3": "dim3", "viewer": "viewer", "thread_mesh": "metric_thread", "thread_lookup": "metric_thread"}
OUTNAME = {"pipe": "SrcPipe", "scad": "SrcScad", "thread_parts": "SrcThreadParts", "poly": "SrcPolyhedron",
           "chain2": "SrcChain2", "chain3": "SrcChain3", "viewer": "SrcViewer", "thread_mesh": "SrcThreadMesh", "thread_lookup": "SrcThreadLookup"}
# the ear-clipping entry points stay hand-modelled (Model/Tri.lean): named directly in the mesh builders
POLY_EXTERNS = {
    (None, "triangulate2d"): {"lean": "Tri.triangulate2d", "params": [("vertices", "Pt2s", "ref")], "ret": "Indices", "selfmode": None, "partial": True},
    (None, "triangulate2d_rev"): {"lean": "Tri.triangulate2dRev", "params": [("vertices", "Pt2s", "ref")], "ret": "Indices", "selfmode": None, "partial": True},
    (None, "triangulate3d"): {"lean": "Tri.triangulate3d", "params": [("vertices", "Pt3s", "ref"), ("normal", "Pt3", "val")], "ret": "Indices", "selfmode": None, "partial": True},
    (None, "triangulate3d_rev"): {"lean": "Tri.triangulate3dRev", "params": [("vertices", "Pt3s", "ref"), ("normal", "Pt3", "val")], "ret": "Indices", "selfmode": None, "partial": True},
}
# functions the part builders call that stay hand-modelled: their model is named directly
# (each is tied to the crate separately: the table by gen_thread.py and the C16 lookup run, the mesh
# builders by the C04/C16 correspondence)
EXTERNS = {
    (None, "m_table_lookup"): {"lean": "Thread.lookup", "params": [("m", "i32", "val")], "ret": "ThreadInfo", "selfmode": None, "partial": True},
    (None, "threaded_cylinder"): {"lean": "Thread.threadedCylinder", "params": [("d_min", "f64", "val"), ("d_maj", "f64", "val"), ("pitch", "f64", "val"), ("length", "f64", "val"), ("segments", "u64", "val"), ("li", "f64", "val"), ("lo", "f64", "val"), ("left", "bool", "val"), ("center", "bool", "val")], "ret": "Scad", "selfmode": None, "partial": True},
    (None, "d_min_from_d_maj_pitch"): {"lean": "Src.metric_thread.d_min_from_d_maj_pitch", "params": [("d_maj", "f64", "val"), ("pitch", "f64", "val")], "ret": "f64", "selfmode": None},
    ("Polyhedron", "linear_extrude"): {"lean": "Dim3.Polyhedron.linearExtrude", "params": [("points", "Pt2s", "ref"), ("height", "f64", "val")], "ret": "Polyhedron", "selfmode": None, "partial": True},
    ("Polyhedron", "into_scad"): {"lean": "Thread.polyScad", "params": [("self", "Polyhedron", "val")], "ret": "Scad", "selfmode": "val"},
    ("Scad", "external_cylinder_chamfer"): {"lean": "Src.Scad.external_cylinder_chamfer", "params": [("size", "f64", "val"), ("oversize", "f64", "val"), ("radius", "f64", "val"), ("height", "f64", "val"), ("segments", "u64", "val"), ("center", "bool", "val")], "ret": "Scad", "selfmode": None},
}


def generate_file(repo, only):
    ctx, _ = G.collect(repo)
    ctx.modules = {"dim2", "dim3"}
    scad_src = open(f"{repo}/scad_tree/src/scad.rs").read().replace("\r", "")
    arms = {}
    for a in gen_macros.parse_macros(scad_src):
        arms.setdefault(a["macro"], []).append(a)
    ctx.macro_arms = arms
    scad_items = parse_file(scad_src)
    ctx.op_fields = {v: [f for f, _ in fs] for v, fs in scad_items["structs"]["enum ScadOp"]["variants"]}
    # free functions of dim2 that the builders call (chamfer): signatures only
    d2 = parse_file(open(f"{repo}/scad_tree/src/dim2.rs").read())
    d2_partial = geomsrc.partial_set({fn["name"]: fn for fn in d2["fns"]}, geomsrc.TRANSLATE["dim2"])
    for fn in d2["fns"]:
        if fn["name"] in geomsrc.TRANSLATE["dim2"]:
            params = [(pn, G.norm_type(t, None), m) for pn, t, m in fn["params"]]
            ctx.sigs[(None, fn["name"])] = {"lean": f"Src.dim2.{G.lname(fn['name'])}", "params": params,
                                            "ret": G.norm_type(fn["ret"], None), "selfmode": None,
                                            "partial": fn["name"] in d2_partial}
    d = scad_items if only == "scad" else parse_file(open(f"{repo}/scad_tree/src/{SOURCE[only]}.rs").read())
    G.REC_LEAN.clear(); G.REC_DEFAULT.clear(); G.NEWTYPES.clear()
    G.FIELD_LEAN.clear()
    if only == "viewer":
        # the viewer reads the Bézier records of dim2.rs / dim3.rs and its own state record
        for tgt_ in ("chain2", "chain3"):
            rec, dflt, newt = CHAIN_RECORDS[tgt_]
            G.REC_LEAN.update(rec); G.NEWTYPES.update(newt)
            dd = parse_file(open(f"{repo}/scad_tree/src/{SOURCE[tgt_]}.rs").read())
            for nm_ in list(rec) + list(newt):
                if nm_ not in dd["structs"]:
                    raise SystemExit(f"gen_src_{only}: struct {nm_} not found in {SOURCE[tgt_]}.rs")
                ctx.structs[nm_] = {"fields": [(f_, G.norm_type(t_, nm_)) for f_, t_ in dd["structs"][nm_]["fields"]], "derives": []}
        G.REC_LEAN["Viewer"] = "Viewer.State α"
        G.FIELD_LEAN.update({("Viewer", "point_radius"): "pointRadius", ("Viewer", "edge_radius"): "edgeRadius"})
        ctx.structs["Viewer"] = {"fields": [(f_, G.norm_type(t_, "Viewer")) for f_, t_ in d["structs"]["Viewer"]["fields"]], "derives": []}
        ctx.structs["Polyhedron"] = {"fields": [("points", "Pt3s"), ("faces", "Faces")], "derives": []}
        ctx.record_structs = set(G.REC_LEAN) | {"Polyhedron"}
        ctx.sigs.update(VIEWER_EXTERNS)
        ctx.ops[("+", "Scad", "Scad")] = ("Src.Scad.add_Scad", "Scad")
        ctx.color_variants = {v for v, _ in scad_items["structs"]["enum ScadColor"]["variants"]}
    if only in CHAIN_RECORDS:
        rec, dflt, newt = CHAIN_RECORDS[only]
        G.REC_LEAN.update(rec); G.REC_DEFAULT.update(dflt); G.NEWTYPES.update(newt)
        ctx.record_structs = set(rec)
        for nm_ in list(rec) + list(newt):
            if nm_ not in d["structs"]:
                raise SystemExit(f"gen_src_{only}: struct {nm_} not found in {SOURCE[only]}.rs")
            ctx.structs[nm_] = {"fields": [(f_, G.norm_type(t_, nm_)) for f_, t_ in d["structs"][nm_]["fields"]], "derives": []}
        for nm_, (f_, t_) in newt.items():
            if ctx.structs[nm_]["fields"] != [(f_, t_)]:
                raise SystemExit(f"gen_src_{only}: {nm_} is no longer a wrapper of one {t_}")
        if only == "chain3":
            d3 = parse_file(open(f"{repo}/scad_tree/src/dim3.rs").read())
            d3_partial = geomsrc.partial_set({fn["name"]: fn for fn in d3["fns"]}, geomsrc.TRANSLATE["dim3"])
            for fn in d3["fns"]:
                if fn["name"] in geomsrc.TRANSLATE["dim3"]:
                    params = [(pn, G.norm_type(t, None), m) for pn, t, m in fn["params"]]
                    ctx.sigs[(None, fn["name"])] = {"lean": f"Src.dim3.{G.lname(fn['name'])}", "params": params,
                                                    "ret": G.norm_type(fn["ret"], None), "selfmode": None,
                                                    "partial": fn["name"] in d3_partial}
    if only == "poly":
        ctx.sigs.update(POLY_EXTERNS)
        ctx.structs["Polyhedron"] = {"fields": [("points", "Pt3s"), ("faces", "Faces")], "derives": []}
        ctx.record_structs = {"Polyhedron"}
    if only == "thread_lookup":
        # the table itself is regenerated by gen_thread.py (Gen/ThreadTable.lean); `m_table()` names it
        ctx.sigs[(None, "m_table")] = {"lean": "Gen.threadTable", "params": [], "ret": "ThreadTable", "selfmode": None}
        ctx.while_fuel = {"m_table_lookup": "Int.toNat m"}
    if only == "thread_mesh":
        ctx.sigs.update(THREAD_MESH_EXTERNS)
        ctx.ops[("+", "Scad", "Scad")] = ("Src.Scad.add_Scad", "Scad")
        ctx.structs["Polyhedron"] = {"fields": [("points", "Pt3s"), ("faces", "Faces")], "derives": []}
        ctx.record_structs = {"Polyhedron"}
    if only == "thread_parts":
        ctx.sigs.update(EXTERNS)
        ctx.ops[("-", "Scad", "Scad")] = ("Src.Scad.sub_Scad", "Scad")
        ctx.ops[("+", "Scad", "Scad")] = ("Src.Scad.add_Scad", "Scad")
    wanted = TRANSLATE[only]
    # collect the impl functions of this file, register signatures and operators
    found = {}
    for im in d["impls"]:
        ty = im["ty"]
        trait = im["trait"]
        tname = None
        if trait:
            m = re.fullmatch(r"(?:std::ops::|std::fmt::)?(\w+)(?:<(.*)>)?", trait)
            tname = m.group(1) if m else trait
        for fn in im["fns"]:
            nm = fn["name"]
            if tname in ("Add", "Sub"):
                nm = f"{nm}_{ty}"
            found[(ty, nm)] = (fn, tname)
    for fn in d["fns"]:
        found[(None, fn["name"])] = (fn, None)
    errors, skipped = [], []
    for key in wanted:
        if key not in found:
            errors.append(f"{only}.rs: {key[0]}::{key[1]} not found")
    if errors:
        raise SystemExit(f"gen_src_{only}: " + "; ".join(errors))
    for key, (fn, tname) in found.items():
        if key not in wanted and not (key[0] is None and key[1] in geomsrc.TRANSLATE.get(SOURCE[only], ())):
            skipped.append(f"{SOURCE[only]}.rs {(key[0] + '::') if key[0] else ''}{key[1]}")
    # partial (asserting) functions among the wanted ones: own assert!s or calls of partial functions
    def is_partial(fn, known):
        if "error" in fn:
            return False
        if geomsrc.has_assert(fn["body"]):
            return True
        names = geomsrc.calls(fn["body"], set())
        if only == "viewer":
            # methods called on `self` (asserting adders), and `Option::unwrap`
            def mcalls(x, acc):
                if isinstance(x, tuple):
                    if x and x[0] == "mcall" and (x[1] == ("path", ["self"]) or x[2] == "unwrap"):
                        acc.add(x[2])
                    for y in x:
                        mcalls(y, acc)
                elif isinstance(x, list):
                    for y in x:
                        mcalls(y, acc)
                return acc
            ms = mcalls(fn["body"], set())
            if "unwrap" in ms or ms & known:
                return True
        return any((k[1] in names) for k, sg in list(ctx.sigs.items()) if sg.get("partial")) or bool(names & known)
    partial_names = {"m_table_lookup"} if only == "thread_lookup" else set()
    changed = True
    while changed:
        changed = False
        for (ty, nm) in wanted:
            if nm not in partial_names and is_partial(found[(ty, nm)][0], partial_names):
                partial_names.add(nm); changed = True
    for (ty, nm) in wanted:
        fn, tname = found[(ty, nm)]
        params = [(pn, G.norm_type(t, ty), m) for pn, t, m in fn["params"]]
        ret = G.norm_type(fn["ret"], ty).replace("@OUT", ty or "")
        partial = nm in partial_names
        lean_name = f"Src.{ty}.{G.lname(nm)}" if ty else f"Src.{SOURCE[only]}.{G.lname(nm)}"
        selfmode = next((m_ for n_, _, m_ in params if n_ == "self"), None)
        if selfmode == "mutref" and ret in ("()", ty):
            ret = ty
        sig = {"lean": lean_name, "params": params, "ret": ret, "selfmode": selfmode, "partial": partial}
        fn["_sig"] = sig
        if tname in ("Add", "Sub"):
            ctx.ops[({"Add": "+", "Sub": "-"}[tname], ty, ty)] = (sig["lean"], ret)
        else:
            ctx.sigs[(ty, fn["name"])] = sig
    ctx.mut_methods = {k[1] for k in wanted if found[k][0]["_sig"]["selfmode"] == "mutref"}
    ctx.partial_methods = {k[1] for k in wanted if found[k][0]["_sig"]["selfmode"] == "mutref" and found[k][0]["_sig"]["partial"]}
    out = [f"/- GENERATED by translator/gen_src_{only}.py (treesrc.py) from scad_tree/src/{SOURCE[only]}.rs — do not edit. -/",
           "import ScadVerif.Gen.MathSrc", "import ScadVerif.Gen.SrcDim2", "import ScadVerif.Model.Scad"] + (
           ["import ScadVerif.Gen.SrcScad", "import ScadVerif.Gen.SrcMetricThread", "import ScadVerif.Model.Thread"] if only == "thread_parts" else []) + (
           ["import ScadVerif.Model.Dim3"] if only == "poly" else []) + (
           ["import ScadVerif.Model.Dim2"] if only == "chain2" else []) + (
           ["import ScadVerif.Gen.SrcScad", "import ScadVerif.Gen.SrcMetricThread", "import ScadVerif.Gen.SrcPolyhedron"] if only == "thread_mesh" else []) + (
           ["import ScadVerif.Model.Thread", "import ScadVerif.Model.SrcSupport"] if only == "thread_lookup" else []) + (
           ["import ScadVerif.Gen.SrcScad", "import ScadVerif.Gen.SrcChain2", "import ScadVerif.Gen.SrcChain3", "import ScadVerif.Gen.SrcPolyhedron",
            "import ScadVerif.Model.Viewer"] if only == "viewer" else []) + (
           ["import ScadVerif.Model.Dim3", "import ScadVerif.Gen.SrcDim3"] if only == "chain3" else []) + [
           "set_option linter.unusedVariables false",
           "namespace ScadVerif",
           "variable {α : Type} [Add α] [Sub α] [Mul α] [Div α] [Neg α] [OfNat α 0] [OfNat α 1]",
           "  [OfNatCast α] [Trig α] [HasSqrt α] [HasAbs α] [Cmp α]" + (" [HasTrunc α]" if only in ("thread_parts", "thread_mesh") else ""), ""]
    for (ty, nm) in wanted:
        fn, tname = found[(ty, nm)]
        sig = fn["_sig"]
        try:
            if "error" in fn:
                raise Unsupported(fn["error"])
            tr = G.FnTr(ctx, ty, fn, ty)
            tr.partial = sig["partial"]
            env, binders = {}, []
            for pn, t, m in sig["params"]:
                env[pn] = t
                binders.append(f"({G.lname(pn)} : {G.lean_type(t)})")
            body, _ = tr.block(fn["body"], env, "self" if sig["selfmode"] == "mutref" else "value", top=True)
            rt = G.lean_type(sig["ret"])
            if sig["partial"]:
                rt = f"Option ({rt})"
            out.append(f"/-- {SOURCE[only]}.rs{' (asserting: `none` is the panic)' if sig['partial'] else ''} -/\ndef {sig['lean']} {' '.join(binders)} : {rt} :=\n  {body}\n")
        except Unsupported as ex:
            errors.append(f"{only}.rs: {ty}::{nm}: not translatable ({ex})")
    if errors:
        raise SystemExit(f"gen_src_{only}: " + "; ".join(errors))
    G.REC_LEAN.clear(); G.REC_DEFAULT.clear(); G.NEWTYPES.clear(); G.FIELD_LEAN.clear()
    out.append(f"def Src.{only}.translated : List String := [" + ", ".join(f'"{found[k][0]["_sig"]["lean"]}"' for k in wanted) + "]")
    out.append(f"def Src.{only}.skipped : List String := [" + ", ".join(f'"{x}"' for x in skipped) + "]")
    out.append("\nend ScadVerif")
    return {OUTNAME[only] + ".lean": "\n".join(out) + "\n"}


if __name__ == "__main__":
    for fn, text in generate_file("/repo", sys.argv[1]).items():
        print(text)
