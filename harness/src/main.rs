#![allow(dead_code)]
//! Correspondence / oracle harness: drives the real scad_tree crates in-process and writes
//! one case per line (`request TAB implementation-result`).  Every random choice derives from
//! the seed.  usage: harness <ID> <quick|thorough> <seed> <out-file>
mod proto;
mod parse;
mod gen_enums;
mod tree;
mod treeparse;
mod polys;
mod c01;
mod c03;
mod c04;
mod gen_macros;
mod macrovals;
mod c06;
mod c07;
mod c08;
mod c09;
mod c13;
mod gen_many;
mod c15;
mod c16;
mod c18;
mod c19;
mod c10;
mod c11;
mod c12;

use proto::*;

fn main() {
    let t = std::thread::Builder::new().stack_size(1 << 30).spawn(real_main).unwrap();
    t.join().unwrap();
}

fn real_main() {
    let args: Vec<String> = std::env::args().collect();
    if args.len() < 5 {
        eprintln!("usage: harness <ID> <quick|thorough> <seed> <out-file> [replay-request-file]");
        std::process::exit(2);
    }
    let id = args[1].as_str();
    let thorough = args[2] == "thorough";
    let seed: u64 = args[3].parse().unwrap_or(0);
    // silence the default panic message: panics are expected outcomes here
    std::panic::set_hook(Box::new(|_| {}));
    let mut rng = Rng::new(seed);
    let mut out = Out::new();
    if args.len() >= 6 {
        // replay mode: re-execute the request lines of a file
        let text = std::fs::read_to_string(&args[5]).expect("replay file");
        for line in text.lines() {
            let req = line.split('\t').next().unwrap_or("").trim();
            if req.is_empty() {
                continue;
            }
            let toks: Vec<&str> = req.split(' ').collect();
            let ok = match id {
                "C01" | "C02" => c01::replay(&toks, &mut out, req),
                "C03" => c03::replay(&toks, &mut out),
                "C04" | "C05" => c04::replay(&toks, &mut out),
                "C06" => c06::replay(&toks, &mut out),
                "C07" => c07::replay(&toks, &mut out),
                "C08" => c08::replay(&toks, &mut out),
                "C09" => c09::replay(&toks, &mut out),
                "C13" => c13::replay(&toks, &mut out, req),
                "C14" | "C16" => c16::replay(&toks, &mut out),
                "C15" | "C17" => c15::replay(&toks, &mut out),
                "C18" => c18::replay(&toks, &mut out),
                "C19" => c19::replay(&toks, &mut out),
                "C10" => c10::replay(&toks, &mut out),
                "C11" => c11::replay(&toks, &mut out),
                "C12" => c12::replay(&toks, &mut out),
                _ => false,
            };
            if !ok {
                eprintln!("harness: cannot replay request: {}", req);
                std::process::exit(3);
            }
        }
    } else {
        match id {
            "C01" => c01::generate(&mut rng, thorough, &mut out, false),
            "C02" => c01::generate(&mut rng, thorough, &mut out, true),
            "C03" => c03::generate(&mut rng, thorough, &mut out),
            "C04" | "C05" => c04::generate(&mut rng, thorough, &mut out),
            "C06" => c06::generate(&mut rng, thorough, &mut out),
            "C07" => c07::generate(&mut rng, thorough, &mut out),
            "C08" => c08::generate(&mut rng, thorough, &mut out),
            "C09" => c09::generate(&mut rng, thorough, &mut out),
            "C13" => c13::generate(&mut rng, thorough, &mut out),
            "C14" => c16::generate(&mut rng, thorough, &mut out, true),
            "C16" => c16::generate(&mut rng, thorough, &mut out, false),
            "C15" => c15::generate_pipes(&mut rng, thorough, &mut out),
            "C17" => c15::generate_arrays(&mut rng, thorough, &mut out),
            "C18" => c18::generate(&mut rng, thorough, &mut out),
            "C19" => c19::generate(&mut rng, thorough, &mut out),
            "C10" => c10::generate(&mut rng, thorough, &mut out),
            "C11" => c11::generate(&mut rng, thorough, &mut out),
            "C12" => c12::generate(&mut rng, thorough, &mut out),
            _ => {
                eprintln!("harness: unknown property {}", id);
                std::process::exit(2);
            }
        }
    }
    let mut text = out.lines.join("\n");
    text.push('\n');
    std::fs::write(&args[4], text).expect("write cases");
}
