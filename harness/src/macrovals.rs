//! Argument values and evaluation counters for the generated macro invocations (C06).
use scad_tree::prelude::*;
use std::cell::RefCell;

thread_local! {
    pub static HITS: RefCell<Vec<u64>> = RefCell::new(vec![0; 16]);
    pub static CHILD_HITS: RefCell<Vec<u64>> = RefCell::new(vec![0; 8]);
}
pub fn reset() {
    HITS.with(|h| h.borrow_mut().iter_mut().for_each(|x| *x = 0));
    CHILD_HITS.with(|h| h.borrow_mut().iter_mut().for_each(|x| *x = 0));
}
pub fn hit(i: usize) {
    HITS.with(|h| h.borrow_mut()[i] += 1);
}
pub fn hit_child(i: usize) {
    CHILD_HITS.with(|h| h.borrow_mut()[i] += 1);
}
pub fn val_f(i: usize) -> f64 {
    (i as f64 + 1.0) * 2.5 + 0.25
}
pub fn val_u(i: usize) -> u64 {
    10 + i as u64
}
pub fn val_b(i: usize) -> bool {
    i % 2 == 0
}
pub fn val_s(i: usize) -> String {
    format!("s{}", i)
}
pub fn val_x(i: usize) -> String {
    format!("#a{}b1c2", i)
}
pub fn val_kh(_i: usize) -> TextHalign {
    TextHalign::right
}
pub fn val_kv(_i: usize) -> TextValign {
    TextValign::top
}
pub fn val_kd(_i: usize) -> TextDirection {
    TextDirection::ttb
}
pub fn val_kc(_i: usize) -> ScadColor {
    ScadColor::Red
}
pub fn val_pts2(i: usize) -> Pt2s {
    Pt2s::from_pt2s(vec![Pt2::new(i as f64, 1.0), Pt2::new(2.0, 3.0), Pt2::new(4.0, 5.0)])
}
pub fn val_pts3(i: usize) -> Pt3s {
    Pt3s::from_pt3s(vec![Pt3::new(i as f64, 1.0, 2.0), Pt3::new(3.0, 4.0, 5.0), Pt3::new(6.0, 7.0, 8.0), Pt3::new(9.0, 10.0, 11.0)])
}
pub fn val_paths(i: usize) -> Paths {
    Paths::from_paths(vec![Indices::from_indices(vec![0, 1, 2]), Indices::from_indices(vec![2, 1, 0, i as u64])])
}
pub fn val_params(_i: usize) -> TextParams {
    TextParams {
        text: "t".to_string(),
        size: 12.5,
        font: "f".to_string(),
        halign: TextHalign::center,
        valign: TextValign::bottom,
        spacing: 1.5,
        direction: TextDirection::rtl,
        language: "l".to_string(),
        script: "c".to_string(),
        fn_: Some(7),
    }
}
pub fn child(j: usize) -> Scad {
    cube!(j as f64 + 1.0)
}
