//! C06: every macro arm, invoked through code regenerated from scad.rs on every run, with
//! counting argument expressions; plus `a + b`, `a - b` and Polyhedron::into_scad.
use crate::gen_macros::{invoke, HAS_CHILDREN, KINDS, N_ARMS};
use crate::macrovals::*;
use crate::proto::*;
use crate::tree::*;
use scad_tree::prelude::*;

fn run_arm(k: usize, nc: usize) -> (String, Res) {
    let mut req = format!("arm {} {} L{}", tu(k as u64), tu(nc as u64), KINDS[k].len());
    for kind in KINDS[k] {
        req.push_str(&format!(" k{}", kind));
    }
    let mut r = Res::new();
    reset();
    let (node, text) = match std::panic::catch_unwind(move || {
        let t = invoke(k, nc);
        let mut o = String::new();
        dump(&t, &mut o);
        (o, ts(&format!("{}", t)))
    }) {
        Ok(x) => x,
        Err(_) => ("PANIC".to_string(), "PANIC".to_string()),
    };
    r.g("node", node);
    let m = KINDS[k].len();
    r.g("counts", HITS.with(|h| tus(&h.borrow()[..m])));
    let ncc = if HAS_CHILDREN[k] { nc } else { 0 };
    r.g("child_counts", CHILD_HITS.with(|h| tus(&h.borrow()[..ncc])));
    r.g("text", text);
    (req, r)
}

fn run_ops(a: Scad, b: Scad) -> (String, Res) {
    let mut da = String::new();
    dump(&a, &mut da);
    let mut db = String::new();
    dump(&b, &mut db);
    let req = format!("addsub {} {}", da, db);
    let mut r = Res::new();
    let (a2, b2) = (a.clone(), b.clone());
    let mut o = String::new();
    dump(&(a + b), &mut o);
    r.g("add", o);
    let mut o = String::new();
    dump(&(a2.clone() - b2.clone()), &mut o);
    r.g("sub", o);
    // the sum and the difference as operands of every operator that treats its children
    // individually: the emitted text must keep them as one operand each
    let (x, y) = (a2, b2);
    let wrap = |name: &str, t: Scad, r: &mut Res| {
        let txt = match std::panic::catch_unwind(std::panic::AssertUnwindSafe(|| format!("{}", t))) {
            Ok(s) => ts(&s),
            Err(_) => "PANIC".to_string(),
        };
        r.g(name, txt);
    };
    wrap("in_minkowski", minkowski!(3, x.clone() + y.clone(); y.clone(); x.clone() - y.clone();), &mut r);
    wrap("in_difference", difference!(x.clone() + y.clone(); x.clone() - y.clone(); y.clone();), &mut r);
    wrap("in_intersection", intersection!(x.clone() + y.clone(); y.clone(); x.clone() - y.clone();), &mut r);
    wrap("in_hull", hull!(x.clone() + y.clone(); y.clone(); x.clone() - y.clone();), &mut r);
    wrap("in_union", union!(x.clone() + y.clone(); y.clone(); x.clone() - y.clone();), &mut r);
    (req, r)
}

fn run_into(pts: Vec<Pt3>, faces: Vec<Vec<u64>>, conv: u64) -> (String, Res) {
    let f = Faces::from_faces(faces.iter().map(|x| Indices::from_indices(x.clone())).collect());
    let req = format!("into_scad {} {} {}", tpt3s(&pts), crate::c07::tfaces(&f), tu(conv));
    let mut r = Res::new();
    let p = Polyhedron { points: Pt3s::from_pt3s(pts), faces: f };
    let mut o = String::new();
    dump(&p.clone().into_scad(), &mut o);
    r.g("plain", o);
    let mut o = String::new();
    dump(&p.into_scad_with_convexity(conv), &mut o);
    r.g("with_convexity", o);
    (req, r)
}

pub fn generate(rng: &mut Rng, _thorough: bool, out: &mut Out) {
    set_plain(true);
    for k in 0..N_ARMS {
        for nc in 1..=(if HAS_CHILDREN[k] { 3 } else { 1 }) {
            let (q, r) = run_arm(k, nc);
            out.case(q, r);
        }
    }
    let g = Gen { values: false, huge_ints: false };
    for _ in 0..60 {
        let (da, db) = (rng.below(3) as u32, rng.below(3) as u32);
        let (a, b) = (g.tree(rng, da), g.tree(rng, db));
        let (q, r) = run_ops(a, b);
        out.case(q, r);
    }
    for _ in 0..40 {
        let m = rng.below(8) as usize;
        let pts: Vec<Pt3> = (0..m).map(|_| Pt3::new(rng.f(), rng.f(), rng.f())).collect();
        let faces: Vec<Vec<u64>> = (0..rng.below(5)).map(|_| (0..rng.range(0, 5)).map(|_| rng.below(9)).collect()).collect();
        let (q, r) = run_into(pts, faces, rng.below(20));
        out.case(q, r);
    }
    set_plain(false);
}

pub fn replay(toks: &[&str], out: &mut Out) -> bool {
    set_plain(true);
    let mut t = crate::parse::Tk::new(&toks[1..]);
    let ok = match toks[0] {
        "arm" => {
            let k = t.u() as usize;
            let nc = t.u() as usize;
            if k < N_ARMS {
                let (q, r) = run_arm(k, nc);
                out.case(q, r);
                true
            } else {
                false
            }
        }
        "addsub" => {
            let a = crate::treeparse::tree_plain(&mut t);
            let b = crate::treeparse::tree_plain(&mut t);
            let (q, r) = run_ops(a, b);
            out.case(q, r);
            true
        }
        "into_scad" => {
            let pts = t.pt3s();
            let k = t.len();
            let faces = (0..k).map(|_| t.us()).collect();
            let (q, r) = run_into(pts, faces, t.u());
            out.case(q, r);
            true
        }
        _ => false,
    };
    set_plain(false);
    ok
}
