//! C07: 2D profile generators (and their linear extrusion).
use crate::parse::Tk;
use crate::proto::*;
use scad_tree::prelude::*;

pub fn tfaces(f: &Faces) -> String {
    let mut o = format!("L{}", f.len());
    for face in f.iter() {
        o.push(' ');
        o.push_str(&tus(face));
    }
    o
}
pub fn mesh_groups(r: &mut Res, prefix: &str, f: impl FnOnce() -> Polyhedron + std::panic::UnwindSafe) {
    match std::panic::catch_unwind(f) {
        Ok(p) => {
            r.g(&format!("{}pts", prefix), tpt3s(&p.points));
            r.g(&format!("{}faces", prefix), tfaces(&p.faces));
        }
        Err(_) => {
            r.g(&format!("{}pts", prefix), "PANIC".into());
            r.g(&format!("{}faces", prefix), "PANIC".into());
        }
    }
}
fn outline(req: String, f: impl FnOnce() -> Pt2s + std::panic::UnwindSafe, extrude: bool) -> (String, Res) {
    let mut r = Res::new();
    match std::panic::catch_unwind(f) {
        Ok(p) => {
            r.g("pts", tpt2s(&p));
            if extrude && p.len() >= 4 {
                mesh_groups(&mut r, "mesh_", move || Polyhedron::linear_extrude(&p, 1.0));
            }
        }
        Err(_) => {
            r.g("pts", "PANIC".into());
        }
    }
    (req, r)
}

fn run_arc(start: Pt2, deg: f64, seg: u64) -> (String, Res) {
    outline(format!("arc {} {} {}", tpt2(start), tf(deg), tu(seg)), move || dim2::arc(start, deg, seg), false)
}
fn run_round(kind: &'static str, n: u64, r: f64) -> (String, Res) {
    outline(format!("{} {} {}", kind, tu(n), tf(r)), move || match kind {
        "circle" => dim2::circle(r, n),
        "inscribed" => dim2::inscribed_polygon(n, r),
        _ => dim2::circumscribed_polygon(n, r),
    }, true)
}
fn run_rect(w: f64, h: f64, r: f64, seg: u64, center: bool) -> (String, Res) {
    outline(format!("rounded_rect {} {} {} {} {}", tf(w), tf(h), tf(r), tu(seg), tb(center)), move || dim2::rounded_rect(w, h, r, seg, center), true)
}
fn run_chamfer(size: f64, over: f64) -> (String, Res) {
    outline(format!("chamfer {} {}", tf(size), tf(over)), move || dim2::chamfer(size, over), over > 0.0)
}
fn run_star(n: u64, inner: f64, outer: f64) -> (String, Res) {
    outline(format!("star {} {} {}", tu(n), tf(inner), tf(outer)), move || dim2::star(n as usize, inner, outer), true)
}

fn radius(rng: &mut Rng) -> f64 {
    match rng.below(4) {
        0 => rng.range(1, 20) as f64,
        1 => rng.uniform(1e-3, 1.0),
        2 => rng.uniform(10.0, 1e4),
        _ => rng.uniform(0.5, 10.0),
    }
}
fn segs(rng: &mut Rng, lo: u64) -> u64 {
    match rng.below(4) {
        0 => lo,
        1 => lo + rng.below(8),
        2 => rng.range(lo as i64, 720) as u64,
        _ => rng.range(lo as i64, 64) as u64,
    }
}

pub fn generate(rng: &mut Rng, thorough: bool, out: &mut Out) {
    // the documented self-intersecting chamfer (known finding) and the plain triangle
    for (s, o) in [(1.0, 2.0), (1.0, 1.0), (1.0, 0.0), (1.0, 0.5)] {
        let (q, r) = run_chamfer(s, o);
        out.case(q, r);
    }
    let n = if thorough { 20000 } else { 4000 };
    for i in 0..n {
        let (q, r) = match i % 7 {
            0 => {
                let r0 = radius(rng);
                let a0 = rng.uniform(0.0, 360.0_f64).to_radians();
                let deg = match rng.below(6) {
                    0 => *rng.pick(&[360.0, -360.0, 90.0, -90.0, 180.0, 0.5, 270.0]),
                    1 => rng.uniform(360.0001, 400.0), // must panic
                    _ => rng.uniform(-360.0, 360.0),
                };
                run_arc(Pt2::new(r0 * a0.cos(), r0 * a0.sin()), deg, segs(rng, 1))
            }
            1 => run_round("circle", segs(rng, 3), radius(rng)),
            2 => run_round("inscribed", segs(rng, 3).min(100), radius(rng)),
            3 => run_round("circumscribed", segs(rng, 3).min(100), radius(rng)),
            4 => {
                let (w, h) = (radius(rng), radius(rng));
                let r = w.min(h) / 2.0 * rng.uniform(0.01, 0.99);
                run_rect(w, h, r, segs(rng, 1).min(90), rng.chance(0.5))
            }
            5 => {
                let s = radius(rng);
                // oversize on both sides of size; the part builders pass oversize 1 with size > 1
                let o = if rng.chance(0.8) { s * rng.uniform(0.01, 0.99) } else { s * rng.uniform(1.0, 3.0) };
                run_chamfer(s, o)
            }
            _ => {
                let a = radius(rng);
                let b = a * rng.uniform(0.1, 3.0);
                run_star(rng.range(2, if thorough { 60 } else { 30 }) as u64, a, b)
            }
        };
        out.case(q, r);
    }
}

pub fn replay(toks: &[&str], out: &mut Out) -> bool {
    let mut t = Tk::new(&toks[1..]);
    let (q, r) = match toks[0] {
        "arc" => run_arc(t.pt2(), t.f(), t.u()),
        "circle" => run_round("circle", t.u(), t.f()),
        "inscribed" => run_round("inscribed", t.u(), t.f()),
        "circumscribed" => run_round("circumscribed", t.u(), t.f()),
        "rounded_rect" => run_rect(t.f(), t.f(), t.f(), t.u(), t.b()),
        "chamfer" => run_chamfer(t.f(), t.f()),
        "star" => run_star(t.u(), t.f(), t.f()),
        _ => return false,
    };
    out.case(q, r);
    true
}
