//! C16 / C14: metric threads and part builders (both centre settings per case).
use crate::parse::Tk;
use crate::proto::*;
use crate::tree::*;
use scad_tree::metric_thread::{self, verif_hooks};
use scad_tree::prelude::*;

fn dump1(f: impl FnOnce() -> Scad + std::panic::UnwindSafe) -> String {
    guard(move || {
        let t = f();
        let mut o = String::new();
        dump(&t, &mut o);
        o
    })
}

fn run_lookup(m: i64) -> (String, Res) {
    let req = format!("lookup {}", ti(m));
    let mut r = Res::new();
    r.g("row", guard(move || {
        let row = verif_hooks::m_table_lookup(m as i32);
        row.iter().map(|x| tf(*x)).collect::<Vec<_>>().join(" ")
    }));
    (req, r)
}
fn run_table() -> (String, Res) {
    let mut r = Res::new();
    let rows = verif_hooks::m_table();
    let mut o = format!("L{}", rows.len());
    for (k, row) in rows {
        o.push_str(&format!(" {}", tu(k as u64)));
        for x in row {
            o.push(' ');
            o.push_str(&tf(x));
        }
    }
    r.g("rows", o);
    ("table".to_string(), r)
}
#[allow(clippy::too_many_arguments)]
fn run_tcyl(dmin: f64, dmaj: f64, pitch: f64, length: f64, seg: u64, li: f64, lo: f64, left: bool, center: bool) -> (String, Res) {
    let req = format!("tcyl {} {} {} {} {} {} {} {} {}", tf(dmin), tf(dmaj), tf(pitch), tf(length), tu(seg), tf(li), tf(lo), tb(left), tb(center));
    let mut r = Res::new();
    r.g("tree", dump1(move || verif_hooks::threaded_cylinder(dmin, dmaj, pitch, length, seg, li, lo, left, center)));
    (req, r)
}
fn first_poly(t: &Scad) -> Option<(&Pt3s, usize)> {
    if let ScadOp::Polyhedron { points, faces, .. } = &t.op {
        return Some((points, faces.len()));
    }
    for c in &t.children {
        if let Some(r) = first_poly(c) {
            return Some(r);
        }
    }
    None
}
/// long fine threads (tens of thousands of steps): only the points of the thread mesh are passed on,
/// the Lean side evaluates the oracles on them (no model run: the model's builder is quadratic)
#[allow(clippy::too_many_arguments)]
fn run_tcylbig(dmin: f64, dmaj: f64, pitch: f64, length: f64, seg: u64, li: f64, lo: f64, left: bool) -> (String, Res) {
    let req = format!("tcylbig {} {} {} {} {} {} {} {}", tf(dmin), tf(dmaj), tf(pitch), tf(length), tu(seg), tf(li), tf(lo), tb(left));
    let mut r = Res::new();
    r.g("pts", guard(move || {
        let t = verif_hooks::threaded_cylinder(dmin, dmaj, pitch, length, seg, li, lo, left, false);
        let (pts, nf) = first_poly(&t).expect("thread mesh");
        let mut o = format!("{} L{}", tu(nf as u64), pts.len());
        for p in pts.iter() {
            o.push(' ');
            o.push_str(&tf(p.x));
            o.push(' ');
            o.push_str(&tf(p.y));
            o.push(' ');
            o.push_str(&tf(p.z));
        }
        o
    }));
    (req, r)
}
#[allow(clippy::too_many_arguments)]
fn run_part(kind: &'static str, m: i64, length: f64, head: f64, seg: u64, li: f64, lo: f64, chamf: bool, left: bool) -> (String, Res) {
    let req = format!("{} {} {} {} {} {} {} {} {}", kind, ti(m), tf(length), tf(head), tu(seg), tf(li), tf(lo), tb(chamf), tb(left));
    let mut r = Res::new();
    let build = move |center: bool| -> Scad {
        match kind {
            "rod" => metric_thread::threaded_rod(m as i32, length, seg, li, lo, left, center),
            "tap" => metric_thread::tap(m as i32, length, seg, left, center),
            "bolt" => metric_thread::hex_bolt(m as i32, length, head, seg, li, chamf, left, center),
            _ => metric_thread::hex_nut(m as i32, length, seg, chamf, left, center),
        }
    };
    r.g("uncentred", dump1(move || build(false)));
    r.g("centred", dump1(move || build(true)));
    (req, r)
}
fn run_cylchamfer(size: f64, over: f64, radius: f64, height: f64, seg: u64) -> (String, Res) {
    let req = format!("cylchamfer {} {} {} {} {}", tf(size), tf(over), tf(radius), tf(height), tu(seg));
    let mut r = Res::new();
    r.g("uncentred", dump1(move || Scad::external_cylinder_chamfer(size, over, radius, height, seg, false)));
    r.g("centred", dump1(move || Scad::external_cylinder_chamfer(size, over, radius, height, seg, true)));
    (req, r)
}

fn lead(rng: &mut Rng) -> f64 {
    match rng.below(5) {
        0 => 0.0,
        1 => 360.0,
        2 => *rng.pick(&[45.0, 90.0, 180.0, 270.0]),
        _ => rng.uniform(0.0, 360.0),
    }
}

pub fn generate(rng: &mut Rng, thorough: bool, out: &mut Out, for_c14: bool) {
    set_plain(true);
    if !for_c14 {
        let (q, r) = run_table();
        out.case(q, r);
        for m in -50..=150 {
            let (q, r) = run_lookup(m);
            out.case(q, r);
        }
        let extremes: Vec<i64> = if thorough { vec![-1000000, 1000000, i32::MIN as i64, 100000] } else { vec![-100000, 3000] };
        for m in extremes {
            let (q, r) = run_lookup(m);
            out.case(q, r);
        }
    }
    let keys: Vec<i64> = verif_hooks::m_table().iter().map(|r| r.0 as i64).collect();
    let n = if thorough { 1200 } else { 280 };
    for i in 0..n {
        // sizes: every listed key in turn, plus unlisted and out-of-range ones
        let m = match i % 4 {
            0 => keys[(i / 4) % keys.len()],
            1 => *rng.pick(&keys),
            2 => rng.range(-5, 110),
            _ => rng.range(2, 30),
        };
        let row = verif_hooks::m_table_lookup(m as i32);
        let pitch = row[0];
        let seg = rng.range(4, if thorough { 48 } else { 24 }) as u64;
        let length = pitch * rng.uniform(2.2, 8.0);
        let left = rng.chance(0.5);
        let chamf = rng.chance(0.5);
        let (q, r) = match i % 5 {
            0 => run_part("rod", m, length, 0.0, seg, lead(rng), lead(rng), false, left),
            1 => run_part("tap", m, length, 0.0, seg, 0.0, 0.0, false, left),
            2 => run_part("bolt", m, length, rng.uniform(1.0, 8.0), seg, lead(rng), 0.0, chamf, left),
            3 => run_part("nut", m, rng.uniform(1.0, 10.0), 0.0, seg, 0.0, 0.0, chamf, left),
            _ => run_cylchamfer(rng.uniform(1.1, 4.0), if rng.chance(0.7) { 1.0 } else { rng.uniform(0.1, 1.0) }, rng.uniform(1.0, 30.0), rng.uniform(0.5, 20.0), seg),
        };
        out.case(q, r);
        if !for_c14 && i % 3 == 0 {
            // free proportions through the hook
            let dmaj = rng.uniform(1.0, 40.0);
            let pitch = dmaj * rng.uniform(0.05, 0.2);
            let dmin = dmaj - 1.0825 * pitch;
            let (q, r) = run_tcyl(dmin, dmaj, pitch, pitch * rng.uniform(2.2, 6.0), seg, lead(rng), lead(rng), left, rng.chance(0.5));
            out.case(q, r);
        }
    }
    // short rods whose lead-in and lead-out tapers together are longer than the thread (lengths just
    // above two pitches, leads up to a full turn each): every flag combination
    {
        let mut k = 0usize;
        for &ratio in &[2.05f64, 2.2, 2.5, 2.69, 3.0] {
            for &(li, lo) in &[(360.0f64, 360.0f64), (350.0, 360.0), (360.0, 180.0), (180.0, 360.0), (0.0, 360.0), (360.0, 0.0)] {
                k += 1;
                if !thorough && k % 2 == 0 {
                    continue;
                }
                let m = [8i64, 3, 20, 12][k % 4];
                let pitch = verif_hooks::m_table_lookup(m as i32)[0];
                let seg = [16u64, 8, 12][k % 3];
                let left = k % 2 == 1;
                let (q, r) = run_part("rod", m, pitch * ratio, 0.0, seg, li, lo, false, left);
                out.case(q, r);
                let (q, r) = run_part("bolt", m, pitch * ratio, 2.0, seg, li, 0.0, k % 3 == 0, left);
                out.case(q, r);
            }
        }
    }
    if !for_c14 {
        // long, fine threads: step counts past 2^13 (quick) and 2^16 (both tiers: one case), many segments
        let mut big: Vec<(f64, f64, f64, u64)> = vec![(2.0, 0.4, 100.0, 360), (3.0, 0.5, 20.0, 256)];
        if thorough {
            big.push((1.6, 0.35, 150.0, 400));
            big.push((6.0, 1.0, 300.0, 128));
        }
        for (k, (dmaj, pitch, length, seg)) in big.into_iter().enumerate() {
            let dmin = dmaj - 1.0825 * pitch;
            let (q, r) = run_tcylbig(dmin, dmaj, pitch, length, seg, if k % 2 == 0 { 0.0 } else { 90.0 }, if k % 2 == 0 { 0.0 } else { 45.0 }, k % 2 == 1);
            out.case(q, r);
        }
    }
    set_plain(false);
}

pub fn replay(toks: &[&str], out: &mut Out) -> bool {
    set_plain(true);
    let mut t = Tk::new(&toks[1..]);
    let (q, r) = match toks[0] {
        "lookup" => run_lookup(t.i()),
        "table" => run_table(),
        "tcylbig" => run_tcylbig(t.f(), t.f(), t.f(), t.f(), t.u(), t.f(), t.f(), t.b()),
        "tcyl" => run_tcyl(t.f(), t.f(), t.f(), t.f(), t.u(), t.f(), t.f(), t.b(), t.b()),
        "rod" => run_part("rod", t.i(), t.f(), t.f(), t.u(), t.f(), t.f(), t.b(), t.b()),
        "tap" => run_part("tap", t.i(), t.f(), t.f(), t.u(), t.f(), t.f(), t.b(), t.b()),
        "bolt" => run_part("bolt", t.i(), t.f(), t.f(), t.u(), t.f(), t.f(), t.b(), t.b()),
        "nut" => run_part("nut", t.i(), t.f(), t.f(), t.u(), t.f(), t.f(), t.b(), t.b()),
        "cylchamfer" => run_cylchamfer(t.f(), t.f(), t.f(), t.f(), t.u()),
        _ => {
            set_plain(false);
            return false;
        }
    };
    out.case(q, r);
    set_plain(false);
    true
}
