//! C08: Bezier curves and chains.
use crate::parse::Tk;
use crate::proto::*;
use scad_tree::prelude::*;
use scad_tree::dim3;

fn lift(p: Pt2) -> Pt3 {
    Pt3::new(p.x, p.y, 0.0)
}

fn run_curve2(cubic: bool, c: Vec<Pt2>, seg: u64) -> (String, Res) {
    let mut req = String::from(if cubic { "cubic2" } else { "quad2" });
    for p in &c {
        req.push(' ');
        req.push_str(&tpt2(*p));
    }
    req.push(' ');
    req.push_str(&tu(seg));
    let mut r = Res::new();
    if cubic {
        r.g("free", tpt2s(&dim2::cubic_bezier(c[0], c[1], c[2], c[3], seg)));
        r.g("struct", tpt2s(&CubicBezier2D::new(c[0], c[1], c[2], c[3], seg).gen_points()));
        r.g("lifted3d", tpt3s(&dim3::cubic_bezier(lift(c[0]), lift(c[1]), lift(c[2]), lift(c[3]), seg)));
    } else {
        r.g("free", tpt2s(&dim2::quadratic_bezier(c[0], c[1], c[2], seg)));
        r.g("struct", tpt2s(&QuadraticBezier2D::new(c[0], c[1], c[2], seg).gen_points()));
        r.g("lifted3d", tpt3s(&dim3::quadratic_bezier(lift(c[0]), lift(c[1]), lift(c[2]), seg)));
    }
    (req, r)
}
fn run_curve3(cubic: bool, c: Vec<Pt3>, seg: u64) -> (String, Res) {
    let mut req = String::from(if cubic { "cubic3" } else { "quad3" });
    for p in &c {
        req.push(' ');
        req.push_str(&tpt3(*p));
    }
    req.push(' ');
    req.push_str(&tu(seg));
    let mut r = Res::new();
    if cubic {
        r.g("free", tpt3s(&dim3::cubic_bezier(c[0], c[1], c[2], c[3], seg)));
        r.g("struct", tpt3s(&CubicBezier3D::new(c[0], c[1], c[2], c[3], seg).gen_points()));
    } else {
        r.g("free", tpt3s(&dim3::quadratic_bezier(c[0], c[1], c[2], seg)));
        r.g("struct", tpt3s(&QuadraticBezier3D::new(c[0], c[1], c[2], seg).gen_points()));
    }
    (req, r)
}

pub struct Hist2 {
    pub first: (Pt2, Pt2, Pt2, Pt2, u64),
    pub adds: Vec<(f64, Pt2, Pt2, u64)>,
    pub close: Option<(f64, Pt2, f64, u64)>,
}
fn run_chain2(h: Hist2) -> (String, Res) {
    let f = &h.first;
    let mut req = format!("chain2 {} {} {} {} {} L{}", tpt2(f.0), tpt2(f.1), tpt2(f.2), tpt2(f.3), tu(f.4), h.adds.len());
    for a in &h.adds {
        req.push_str(&format!(" {} {} {} {}", tf(a.0), tpt2(a.1), tpt2(a.2), tu(a.3)));
    }
    match &h.close {
        Some(c) => req.push_str(&format!(" o+ {} {} {} {}", tf(c.0), tpt2(c.1), tf(c.2), tu(c.3))),
        None => req.push_str(" o-"),
    }
    let mut ch = CubicBezierChain2D::new(f.0, f.1, f.2, f.3, f.4);
    for a in &h.adds {
        ch.add(a.0, a.1, a.2, a.3);
    }
    if let Some(c) = &h.close {
        ch.close(c.0, c.1, c.2, c.3);
    }
    let mut r = Res::new();
    let mut cs = format!("L{}", ch.curves.len());
    for c in &ch.curves {
        cs.push_str(&format!(" {} {} {} {} {}", tpt2(c.start), tpt2(c.control1), tpt2(c.control2), tpt2(c.end), tu(c.segments)));
    }
    r.g("curves", cs);
    r.g("pts", tpt2s(&ch.gen_points()));
    (req, r)
}
pub struct Hist3 {
    pub first: (Pt3, Pt3, Pt3, Pt3, u64),
    pub adds: Vec<(f64, Pt3, Pt3, u64)>,
    pub close: Option<(f64, Pt3, f64, u64)>,
}
fn run_chain3(h: Hist3) -> (String, Res) {
    let f = &h.first;
    let mut req = format!("chain3 {} {} {} {} {} L{}", tpt3(f.0), tpt3(f.1), tpt3(f.2), tpt3(f.3), tu(f.4), h.adds.len());
    for a in &h.adds {
        req.push_str(&format!(" {} {} {} {}", tf(a.0), tpt3(a.1), tpt3(a.2), tu(a.3)));
    }
    match &h.close {
        Some(c) => req.push_str(&format!(" o+ {} {} {} {}", tf(c.0), tpt3(c.1), tf(c.2), tu(c.3))),
        None => req.push_str(" o-"),
    }
    let mut ch = CubicBezierChain3D::new(f.0, f.1, f.2, f.3, f.4);
    for a in &h.adds {
        ch.add(a.0, a.1, a.2, a.3);
    }
    if let Some(c) = &h.close {
        ch.close(c.0, c.1, c.2, c.3);
    }
    let mut r = Res::new();
    let mut cs = format!("L{}", ch.curves.len());
    for c in &ch.curves {
        cs.push_str(&format!(" {} {} {} {} {}", tpt3(c.start), tpt3(c.control1), tpt3(c.control2), tpt3(c.end), tu(c.segments)));
    }
    r.g("curves", cs);
    r.g("pts", tpt3s(&ch.gen_points()));
    (req, r)
}
fn run_star(n: u64, ir: f64, ih: f64, or: f64, oh: f64, seg: u64) -> (String, Res) {
    let req = format!("bstar {} {} {} {} {} {}", tu(n), tf(ir), tf(ih), tf(or), tf(oh), tu(seg));
    let mut r = Res::new();
    r.g("free", guard(move || tpt2s(&dim2::bezier_star(n, ir, ih, or, oh, seg))));
    r.g("struct", guard(move || tpt2s(&BezierStar::new(n, ir, ih, or, oh, seg).gen_points())));
    (req, r)
}

fn p2(rng: &mut Rng) -> Pt2 {
    Pt2::new(rng.f(), rng.f())
}
fn p3(rng: &mut Rng) -> Pt3 {
    Pt3::new(rng.f(), rng.f(), rng.f())
}
fn seg(rng: &mut Rng) -> u64 {
    match rng.below(5) {
        0 => 1,
        1 => *rng.pick(&[49u64, 98, 103, 107, 161, 187, 196]),
        2 => rng.range(1, 2000) as u64,
        _ => rng.range(1, 40) as u64,
    }
}
fn handle_len(rng: &mut Rng) -> f64 {
    match rng.below(6) {
        0 => 0.0,
        1 => 1e6,
        2 => -rng.uniform(0.1, 5.0),
        _ => rng.uniform(0.01, 10.0),
    }
}

pub fn generate(rng: &mut Rng, thorough: bool, out: &mut Out) {
    // end-point exactness for every segment count in a range
    let top = if thorough { 2000 } else { 300 };
    for s in 1..=top {
        let (q, r) = run_curve2(true, vec![Pt2::new(0.25, -3.0), Pt2::new(1.5, 7.0), Pt2::new(-2.0, 0.1), Pt2::new(9.7, 4.3)], s);
        out.case(q, r);
    }
    // collapsed control polygons: handles sitting on their knots, repeated points
    for k in 0..(if thorough { 400 } else { 80 }) {
        let (a, b, c, d) = (p2(rng), p2(rng), p2(rng), p2(rng));
        let sg = [3u64, 4, 7, 16][k % 4];
        let polys: Vec<Vec<Pt2>> = vec![
            vec![a, a, d, d], vec![a, a, c, d], vec![a, b, d, d], vec![a, d, a, d], vec![a, a, a, d], vec![a, a, a, a],
            vec![a, b, b, d],
        ];
        for pl in polys {
            let (q, r) = run_curve2(true, pl.clone(), sg);
            out.case(q, r);
            let (q, r) = run_curve3(true, pl.iter().map(|p| Pt3::new(p.x, p.y, p.x - p.y)).collect(), sg);
            out.case(q, r);
        }
        for pl in [vec![a, a, d], vec![a, d, d], vec![a, a, a]] {
            let (q, r) = run_curve2(false, pl.clone(), sg);
            out.case(q, r);
            let (q, r) = run_curve3(false, pl.iter().map(|p| Pt3::new(p.x, p.y, p.x + p.y)).collect(), sg);
            out.case(q, r);
        }
        // chain links with zero-length handles and control2 on the end knot
        let h = Hist2 {
            first: (a, a, b, b, sg),
            adds: vec![(0.0, c, c, sg), (0.0, d, d, sg), (1.5, a, a, sg)],
            close: if k % 2 == 0 { Some((0.0, a, 0.0, sg)) } else { None },
        };
        let (q, r) = run_chain2(h);
        out.case(q, r);
        let l = |p: Pt2| Pt3::new(p.x, p.y, 1.0);
        let h = Hist3 {
            first: (l(a), l(a), l(b), l(b), sg),
            adds: vec![(0.0, l(c), l(c), sg), (0.0, l(d), l(d), sg)],
            close: None,
        };
        let (q, r) = run_chain3(h);
        out.case(q, r);
        // very short but non-zero incoming handles: the tangent direction is still defined and must be kept
        let eps = [1e-4f64, 1e-5, 1e-7, 1e-9, 1e-10, 1e-12, 1e-14, 5.820766091346741e-11, 2.842170943040401e-14][k % 9];
        let (u, v) = (Pt2::new(0.6 * eps, 0.8 * eps), Pt2::new(-0.8 * eps, 0.6 * eps));
        let h = Hist2 {
            first: (a, b, c - u, c, sg),
            adds: vec![(1.5, d - v, d, sg), (2.0, b - u, b, sg), (0.75, c, d, sg)],
            close: if k % 2 == 0 { Some((1.0, a - v, 0.5, sg)) } else { None },
        };
        let (q, r) = run_chain2(h);
        out.case(q, r);
        let (u3, v3) = (Pt3::new(0.6 * eps, 0.0, 0.8 * eps), Pt3::new(0.0, -0.8 * eps, 0.6 * eps));
        let h = Hist3 {
            first: (l(a), l(b), l(c) - u3, l(c), sg),
            adds: vec![(1.5, l(d) - v3, l(d), sg), (2.0, l(b) - u3, l(b), sg), (0.75, l(c), l(d), sg)],
            close: if k % 2 == 1 { Some((1.0, l(a) - v3, 0.5, sg)) } else { None },
        };
        let (q, r) = run_chain3(h);
        out.case(q, r);
    }
    let n = if thorough { 20000 } else { 4000 };
    for i in 0..n {
        match i % 7 {
            0 => {
                let (q, r) = run_curve2(false, vec![p2(rng), p2(rng), p2(rng)], seg(rng));
                out.case(q, r);
            }
            1 => {
                let (q, r) = run_curve2(true, vec![p2(rng), p2(rng), p2(rng), p2(rng)], seg(rng));
                out.case(q, r);
            }
            2 => {
                let (q, r) = run_curve3(false, vec![p3(rng), p3(rng), p3(rng)], seg(rng));
                out.case(q, r);
            }
            3 => {
                let (q, r) = run_curve3(true, vec![p3(rng), p3(rng), p3(rng), p3(rng)], seg(rng));
                out.case(q, r);
            }
            4 => {
                let k = rng.below(13) as usize;
                let start = p2(rng);
                let mut adds: Vec<(f64, Pt2, Pt2, u64)> = (0..k).map(|_| (handle_len(rng), p2(rng), p2(rng), seg(rng).min(60))).collect();
                // coincidences between knots: the chain comes back to its first point without `close`,
                // or visits a knot twice
                if k > 0 && rng.chance(0.2) {
                    adds[k - 1].2 = start;
                }
                if k > 2 && rng.chance(0.1) {
                    adds[k - 1].2 = adds[0].2;
                }
                let h = Hist2 {
                    first: (start, p2(rng), p2(rng), p2(rng), seg(rng).min(60)),
                    adds,
                    close: if rng.chance(0.5) { Some((handle_len(rng), p2(rng), handle_len(rng), seg(rng).min(60))) } else { None },
                };
                let (q, r) = run_chain2(h);
                out.case(q, r);
            }
            5 => {
                let k = rng.below(13) as usize;
                let start = p3(rng);
                let mut adds: Vec<(f64, Pt3, Pt3, u64)> = (0..k).map(|_| (handle_len(rng), p3(rng), p3(rng), seg(rng).min(60))).collect();
                if k > 0 && rng.chance(0.2) {
                    adds[k - 1].2 = start;
                }
                if k > 2 && rng.chance(0.1) {
                    adds[k - 1].2 = adds[0].2;
                }
                let h = Hist3 {
                    first: (start, p3(rng), p3(rng), p3(rng), seg(rng).min(60)),
                    adds,
                    close: if rng.chance(0.5) { Some((handle_len(rng), p3(rng), handle_len(rng), seg(rng).min(60))) } else { None },
                };
                let (q, r) = run_chain3(h);
                out.case(q, r);
            }
            _ => {
                let (q, r) = run_star(rng.range(1, 12) as u64, rng.uniform(0.2, 3.0), rng.uniform(0.0, 1.0), rng.uniform(0.5, 6.0), rng.uniform(0.0, 2.0), seg(rng).min(50));
                out.case(q, r);
            }
        }
    }
}

pub fn replay(toks: &[&str], out: &mut Out) -> bool {
    let mut t = Tk::new(&toks[1..]);
    let (q, r) = match toks[0] {
        "quad2" => run_curve2(false, vec![t.pt2(), t.pt2(), t.pt2()], t.u()),
        "cubic2" => run_curve2(true, vec![t.pt2(), t.pt2(), t.pt2(), t.pt2()], t.u()),
        "quad3" => run_curve3(false, vec![t.pt3(), t.pt3(), t.pt3()], t.u()),
        "cubic3" => run_curve3(true, vec![t.pt3(), t.pt3(), t.pt3(), t.pt3()], t.u()),
        "chain2" => {
            let first = (t.pt2(), t.pt2(), t.pt2(), t.pt2(), t.u());
            let k = t.len();
            let adds = (0..k).map(|_| (t.f(), t.pt2(), t.pt2(), t.u())).collect();
            let close = t.opt(|t| (t.f(), t.pt2(), t.f(), t.u()));
            run_chain2(Hist2 { first, adds, close })
        }
        "chain3" => {
            let first = (t.pt3(), t.pt3(), t.pt3(), t.pt3(), t.u());
            let k = t.len();
            let adds = (0..k).map(|_| (t.f(), t.pt3(), t.pt3(), t.u())).collect();
            let close = t.opt(|t| (t.f(), t.pt3(), t.f(), t.u()));
            run_chain3(Hist3 { first, adds, close })
        }
        "bstar" => run_star(t.u(), t.f(), t.f(), t.f(), t.f(), t.u()),
        _ => return false,
    };
    out.case(q, r);
    true
}
