//! Line protocol helpers (DESIGN appendix A).
use scad_tree::prelude::*;
use scad_tree::{Mt4, Pt4s};

pub struct Rng(pub u64);
impl Rng {
    pub fn new(seed: u64) -> Self {
        Rng(seed.wrapping_mul(0x9E3779B97F4A7C15) ^ 0xD1B54A32D192ED03)
    }
    pub fn next(&mut self) -> u64 {
        // splitmix64
        self.0 = self.0.wrapping_add(0x9E3779B97F4A7C15);
        let mut z = self.0;
        z = (z ^ (z >> 30)).wrapping_mul(0xBF58476D1CE4E5B9);
        z = (z ^ (z >> 27)).wrapping_mul(0x94D049BB133111EB);
        z ^ (z >> 31)
    }
    pub fn below(&mut self, n: u64) -> u64 {
        if n == 0 { 0 } else { self.next() % n }
    }
    pub fn range(&mut self, lo: i64, hi: i64) -> i64 {
        lo + self.below((hi - lo + 1) as u64) as i64
    }
    pub fn unit(&mut self) -> f64 {
        (self.next() >> 11) as f64 / (1u64 << 53) as f64
    }
    pub fn uniform(&mut self, lo: f64, hi: f64) -> f64 {
        lo + (hi - lo) * self.unit()
    }
    pub fn chance(&mut self, p: f64) -> bool {
        self.unit() < p
    }
    pub fn pick<'a, T>(&mut self, xs: &'a [T]) -> &'a T {
        &xs[self.below(xs.len() as u64) as usize]
    }
    /// a "generic" finite double: mixed magnitudes, signs, integers, dyadics
    pub fn f(&mut self) -> f64 {
        match self.below(10) {
            0 => self.range(-20, 20) as f64,
            1 => self.range(-2000, 2000) as f64 / 8.0,
            2 => self.uniform(-1.0, 1.0),
            3 => self.uniform(-1e3, 1e3),
            4 => self.uniform(-1e-3, 1e-3),
            5 => {
                let e = self.range(-8, 8) as i32;
                self.uniform(-10.0, 10.0) * 10f64.powi(e)
            }
            _ => self.uniform(-100.0, 100.0),
        }
    }
    /// non-zero, away from zero
    pub fn fnz(&mut self) -> f64 {
        loop {
            let x = self.f();
            if x.abs() > 1e-6 {
                return x;
            }
        }
    }
}

pub fn tf(x: f64) -> String {
    format!("f{:016x}", x.to_bits())
}
pub fn tu(x: u64) -> String {
    format!("u{}", x)
}
pub fn ti(x: i64) -> String {
    format!("i{}", x)
}
pub fn tb(x: bool) -> String {
    (if x { "b1" } else { "b0" }).to_string()
}
pub fn ts(s: &str) -> String {
    let mut o = String::from("s");
    for b in s.as_bytes() {
        o.push_str(&format!("{:02x}", b));
    }
    o
}
pub fn tpt2(p: Pt2) -> String {
    format!("{} {}", tf(p.x), tf(p.y))
}
pub fn tpt3(p: Pt3) -> String {
    format!("{} {} {}", tf(p.x), tf(p.y), tf(p.z))
}
pub fn tpt4(p: Pt4) -> String {
    format!("{} {} {} {}", tf(p.x), tf(p.y), tf(p.z), tf(p.w))
}
pub fn tmt4(m: &Mt4) -> String {
    format!("{} {} {} {}", tpt4(m.x), tpt4(m.y), tpt4(m.z), tpt4(m.w))
}
pub fn tpt2s(ps: &[Pt2]) -> String {
    let mut o = format!("L{}", ps.len());
    for p in ps {
        o.push(' ');
        o.push_str(&tpt2(*p));
    }
    o
}
pub fn tpt3s(ps: &[Pt3]) -> String {
    let mut o = format!("L{}", ps.len());
    for p in ps {
        o.push(' ');
        o.push_str(&tpt3(*p));
    }
    o
}
#[allow(dead_code)]
pub fn tpt4s(ps: &Pt4s) -> String {
    let mut o = format!("L{}", ps.len());
    for p in ps.iter() {
        o.push(' ');
        o.push_str(&tpt4(*p));
    }
    o
}
pub fn tus(xs: &[u64]) -> String {
    let mut o = format!("L{}", xs.len());
    for x in xs {
        o.push(' ');
        o.push_str(&tu(*x));
    }
    o
}

/// Run `f`, mapping a panic to the token `PANIC`.
pub fn guard<F: FnOnce() -> String + std::panic::UnwindSafe>(f: F) -> String {
    match std::panic::catch_unwind(f) {
        Ok(s) => s,
        Err(_) => "PANIC".to_string(),
    }
}

/// Result builder: `@name tokens`.
#[derive(Default)]
pub struct Res(pub String);
impl Res {
    pub fn new() -> Self {
        Res(String::new())
    }
    pub fn g(&mut self, name: &str, toks: String) -> &mut Self {
        if !self.0.is_empty() {
            self.0.push(' ');
        }
        self.0.push('@');
        self.0.push_str(name);
        if !toks.is_empty() {
            self.0.push(' ');
            self.0.push_str(&toks);
        }
        self
    }
}

pub struct Out {
    pub lines: Vec<String>,
}
impl Out {
    pub fn new() -> Self {
        Out { lines: Vec::new() }
    }
    pub fn case(&mut self, req: String, res: Res) {
        self.lines.push(format!("{}\t{}", req, res.0));
    }
}
