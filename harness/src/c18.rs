//! C18: Viewer scenes from random histories of add_* calls.
use crate::gen_enums::COLORS;
use crate::parse::Tk;
use crate::proto::*;
use crate::tree::*;
use scad_tree::prelude::*;

#[derive(Clone)]
pub enum VOp {
    Pt2(Pt2, ScadColor),
    Pt3(Pt3, ScadColor),
    Pt2s(Vec<Pt2>, ScadColor),
    Pt3s(Vec<Pt3>, ScadColor),
    Lines2d(Vec<(Pt2, Pt2)>, ScadColor),
    Lines3d(Vec<(Pt3, Pt3)>, ScadColor),
    Quad2(Pt2, Pt2, Pt2, u64),
    Quad3(Pt3, Pt3, Pt3, u64),
    Cubic2(Pt2, Pt2, Pt2, Pt2, u64),
    Cubic3(Pt3, Pt3, Pt3, Pt3, u64),
    Chain2(CubicBezierChain2D),
    Chain3(CubicBezierChain3D),
    Star(BezierStar),
}

fn color_by_name(name: &str) -> ScadColor {
    *COLORS.iter().find(|c| format!("{:?}", c) == name).expect("colour")
}

fn op_tokens(op: &VOp) -> String {
    match op {
        VOp::Pt2(p, c) => format!("pt2 {} k{:?}", tpt2(*p), c),
        VOp::Pt3(p, c) => format!("pt3 {} k{:?}", tpt3(*p), c),
        VOp::Pt2s(ps, c) => format!("pt2s {} k{:?}", tpt2s(ps), c),
        VOp::Pt3s(ps, c) => format!("pt3s {} k{:?}", tpt3s(ps), c),
        VOp::Lines2d(es, c) => {
            let mut o = format!("lines2d L{}", es.len());
            for (a, b) in es {
                o.push_str(&format!(" {} {}", tpt2(*a), tpt2(*b)));
            }
            format!("{} k{:?}", o, c)
        }
        VOp::Lines3d(es, c) => {
            let mut o = format!("lines3d L{}", es.len());
            for (a, b) in es {
                o.push_str(&format!(" {} {}", tpt3(*a), tpt3(*b)));
            }
            format!("{} k{:?}", o, c)
        }
        VOp::Quad2(s, c, e, n) => format!("quad2 {} {} {} {}", tpt2(*s), tpt2(*c), tpt2(*e), tu(*n)),
        VOp::Quad3(s, c, e, n) => format!("quad3 {} {} {} {}", tpt3(*s), tpt3(*c), tpt3(*e), tu(*n)),
        VOp::Cubic2(s, a, b, e, n) => format!("cubic2 {} {} {} {} {}", tpt2(*s), tpt2(*a), tpt2(*b), tpt2(*e), tu(*n)),
        VOp::Cubic3(s, a, b, e, n) => format!("cubic3 {} {} {} {} {}", tpt3(*s), tpt3(*a), tpt3(*b), tpt3(*e), tu(*n)),
        VOp::Chain2(ch) => {
            let mut o = format!("chain2 L{}", ch.curves.len());
            for c in &ch.curves {
                o.push_str(&format!(" {} {} {} {} {}", tpt2(c.start), tpt2(c.control1), tpt2(c.control2), tpt2(c.end), tu(c.segments)));
            }
            o
        }
        VOp::Star(st) => op_tokens(&VOp::Chain2(st.chain.clone())),
        VOp::Chain3(ch) => {
            let mut o = format!("chain3 L{}", ch.curves.len());
            for c in &ch.curves {
                o.push_str(&format!(" {} {} {} {} {}", tpt3(c.start), tpt3(c.control1), tpt3(c.control2), tpt3(c.end), tu(c.segments)));
            }
            o
        }
    }
}

fn apply(v: &mut Viewer, op: &VOp) {
    match op {
        VOp::Pt2(p, c) => v.add_pt2(*p, *c),
        VOp::Pt3(p, c) => v.add_pt3(*p, *c),
        VOp::Pt2s(ps, c) => v.add_pt2s(&Pt2s::from_pt2s(ps.clone()), *c),
        VOp::Pt3s(ps, c) => v.add_pt3s(&Pt3s::from_pt3s(ps.clone()), *c),
        VOp::Lines2d(es, c) => v.add_lines2d(es, *c),
        VOp::Lines3d(es, c) => v.add_lines3d(es, *c),
        VOp::Quad2(s, c, e, n) => v.add_quadratic_bezier2d(&QuadraticBezier2D::new(*s, *c, *e, *n)),
        VOp::Quad3(s, c, e, n) => v.add_quadratic_bezier3d(&QuadraticBezier3D::new(*s, *c, *e, *n)),
        VOp::Cubic2(s, a, b, e, n) => v.add_cubic_bezier2d(&CubicBezier2D::new(*s, *a, *b, *e, *n)),
        VOp::Cubic3(s, a, b, e, n) => v.add_cubic_bezier3d(&CubicBezier3D::new(*s, *a, *b, *e, *n)),
        VOp::Chain2(ch) => v.add_cubic_bezier_chain2d(ch),
        VOp::Chain3(ch) => v.add_cubic_bezier_chain3d(ch),
        VOp::Star(st) => v.add_bezier_star(st),
    }
}

pub fn run_scene(pr: f64, er: f64, seg: u64, ops: Vec<VOp>) -> (String, Res) {
    let mut req = format!("scene {} {} {} L{}", tf(pr), tf(er), tu(seg), ops.len());
    for op in &ops {
        req.push(' ');
        req.push_str(&op_tokens(op));
    }
    let mut r = Res::new();
    r.g("tree", guard(move || {
        let mut v = Viewer::new(pr, er, seg);
        for op in &ops {
            apply(&mut v, op);
        }
        let t = v.into_scad();
        let mut o = String::new();
        dump(&t, &mut o);
        o
    }));
    (req, r)
}

fn p2(rng: &mut Rng) -> Pt2 {
    Pt2::new(rng.uniform(-20.0, 20.0), rng.uniform(-20.0, 20.0))
}
fn p3(rng: &mut Rng) -> Pt3 {
    Pt3::new(rng.uniform(-20.0, 20.0), rng.uniform(-20.0, 20.0), rng.uniform(-20.0, 20.0))
}
fn edge3(rng: &mut Rng) -> (Pt3, Pt3) {
    let a = p3(rng);
    let dirs = [
        Pt3::new(0.0, 0.0, 1.0), Pt3::new(0.0, 0.0, -1.0), Pt3::new(1.0, 0.0, 0.0), Pt3::new(0.0, -1.0, 0.0),
        Pt3::new(1.0, 1.0, 0.0), Pt3::new(1.0, 1.0, 1.0), Pt3::new(-1.0, 1.0, -1.0), Pt3::new(0.0, 1.0, 1.0),
    ];
    match rng.below(3) {
        0 => (a, a + *rng.pick(&dirs) * rng.uniform(0.5, 10.0)), // axis / diagonal, incl. exactly vertical
        _ => (a, p3(rng)),
    }
}

pub fn random_op(rng: &mut Rng) -> VOp {
    let c = *rng.pick(COLORS);
    let n = |rng: &mut Rng| match rng.below(4) {
        0 => 0usize,
        1 => 1,
        _ => rng.below(5) as usize + 2,
    };
    match rng.below(13) {
        0 => VOp::Pt2(p2(rng), c),
        1 => VOp::Pt3(p3(rng), c),
        2 => {
            let k = n(rng);
            VOp::Pt2s((0..k).map(|_| p2(rng)).collect(), c)
        }
        3 => {
            let k = n(rng);
            VOp::Pt3s((0..k).map(|_| p3(rng)).collect(), c)
        }
        4 => {
            let k = n(rng);
            VOp::Lines2d((0..k).map(|_| (p2(rng), p2(rng))).collect(), c)
        }
        5 => {
            let k = n(rng);
            VOp::Lines3d((0..k).map(|_| edge3(rng)).collect(), c)
        }
        // curves: one in four is a closed loop (end exactly on start), one in eight has a control point on a knot
        6 => {
            let (s, c) = (p2(rng), p2(rng));
            let e = if rng.chance(0.25) { s } else { p2(rng) };
            VOp::Quad2(s, if rng.chance(0.125) { s } else { c }, e, rng.range(1, 6) as u64)
        }
        7 => {
            let (s, c) = (p3(rng), p3(rng));
            let e = if rng.chance(0.25) { s } else { p3(rng) };
            VOp::Quad3(s, if rng.chance(0.125) { e } else { c }, e, rng.range(1, 6) as u64)
        }
        8 => {
            let (s, a, b) = (p2(rng), p2(rng), p2(rng));
            let e = if rng.chance(0.25) { s } else { p2(rng) };
            VOp::Cubic2(s, if rng.chance(0.125) { s } else { a }, b, e, rng.range(1, 6) as u64)
        }
        9 => {
            let (s, a, b) = (p3(rng), p3(rng), p3(rng));
            let e = if rng.chance(0.25) { s } else { p3(rng) };
            VOp::Cubic3(s, a, if rng.chance(0.125) { e } else { b }, e, rng.range(1, 6) as u64)
        }
        10 => {
            let mut ch = CubicBezierChain2D::new(p2(rng), p2(rng), p2(rng), p2(rng), rng.range(1, 4) as u64);
            for _ in 0..rng.below(3) {
                ch.add(rng.uniform(0.1, 5.0), p2(rng), p2(rng), rng.range(1, 4) as u64);
            }
            if rng.chance(0.4) {
                ch.close(rng.uniform(0.1, 5.0), p2(rng), rng.uniform(0.1, 5.0), rng.range(1, 4) as u64);
            }
            VOp::Chain2(ch)
        }
        11 => {
            let mut ch = CubicBezierChain3D::new(p3(rng), p3(rng), p3(rng), p3(rng), rng.range(1, 4) as u64);
            for _ in 0..rng.below(3) {
                ch.add(rng.uniform(0.1, 5.0), p3(rng), p3(rng), rng.range(1, 4) as u64);
            }
            VOp::Chain3(ch)
        }
        _ => VOp::Star(BezierStar::new(rng.range(2, 4) as u64, 1.0, 0.3, 2.5, 0.4, rng.range(1, 3) as u64)),
    }
}

pub fn generate(rng: &mut Rng, thorough: bool, out: &mut Out) {
    set_plain(true);
    // empty inputs first in the history
    for first in [VOp::Pt2s(vec![], ScadColor::Red), VOp::Lines3d(vec![], ScadColor::Blue), VOp::Lines2d(vec![], ScadColor::Blue)] {
        let (q, r) = run_scene(0.1, 0.05, 6, vec![first, VOp::Pt3(Pt3::new(1.0, 2.0, 3.0), ScadColor::Green)]);
        out.case(q, r);
    }
    // the empty history: `into_scad` panics (stated hypothesis of the property, not a violation)
    let (q, r) = run_scene(0.1, 0.05, 6, vec![]);
    out.case(q, r);
    let n = if thorough { 3000 } else { 800 };
    for _ in 0..n {
        let k = match rng.below(5) {
            0 => 1,
            1 => 2,
            _ => rng.range(1, if thorough { 40 } else { 12 }) as usize,
        };
        let ops: Vec<VOp> = (0..k).map(|_| random_op(rng)).collect();
        let (q, r) = run_scene(rng.uniform(0.01, 1.0), rng.uniform(0.01, 0.5), rng.range(4, 16) as u64, ops);
        out.case(q, r);
    }
    set_plain(false);
}

pub fn replay(toks: &[&str], out: &mut Out) -> bool {
    if toks[0] != "scene" {
        return false;
    }
    set_plain(true);
    let mut t = Tk::new(&toks[1..]);
    let (pr, er, seg) = (t.f(), t.f(), t.u());
    let k = t.len();
    let mut ops = Vec::new();
    for _ in 0..k {
        let name = t.tok();
        let op = match name {
            "pt2" => VOp::Pt2(t.pt2(), color_by_name(t.k())),
            "pt3" => VOp::Pt3(t.pt3(), color_by_name(t.k())),
            "pt2s" => VOp::Pt2s(t.pt2s(), color_by_name(t.k())),
            "pt3s" => VOp::Pt3s(t.pt3s(), color_by_name(t.k())),
            "lines2d" => {
                let m = t.len();
                let es = (0..m).map(|_| (t.pt2(), t.pt2())).collect();
                VOp::Lines2d(es, color_by_name(t.k()))
            }
            "lines3d" => {
                let m = t.len();
                let es = (0..m).map(|_| (t.pt3(), t.pt3())).collect();
                VOp::Lines3d(es, color_by_name(t.k()))
            }
            "quad2" => VOp::Quad2(t.pt2(), t.pt2(), t.pt2(), t.u()),
            "quad3" => VOp::Quad3(t.pt3(), t.pt3(), t.pt3(), t.u()),
            "cubic2" => VOp::Cubic2(t.pt2(), t.pt2(), t.pt2(), t.pt2(), t.u()),
            "cubic3" => VOp::Cubic3(t.pt3(), t.pt3(), t.pt3(), t.pt3(), t.u()),
            "chain2" => {
                let m = t.len();
                let mut ch: Option<CubicBezierChain2D> = None;
                for _ in 0..m {
                    let c = CubicBezier2D::new(t.pt2(), t.pt2(), t.pt2(), t.pt2(), t.u());
                    match &mut ch {
                        None => ch = Some(CubicBezierChain2D::new(c.start, c.control1, c.control2, c.end, c.segments)),
                        Some(x) => x.curves.push(c),
                    }
                }
                match ch {
                    Some(x) => VOp::Chain2(x),
                    None => VOp::Pt2s(vec![], ScadColor::Red),
                }
            }
            "chain3" => {
                let m = t.len();
                let mut ch: Option<CubicBezierChain3D> = None;
                for _ in 0..m {
                    let c = CubicBezier3D::new(t.pt3(), t.pt3(), t.pt3(), t.pt3(), t.u());
                    match &mut ch {
                        None => ch = Some(CubicBezierChain3D::new(c.start, c.control1, c.control2, c.end, c.segments)),
                        Some(x) => x.curves.push(c),
                    }
                }
                match ch {
                    Some(x) => VOp::Chain3(x),
                    None => VOp::Pt2s(vec![], ScadColor::Red),
                }
            }
            _ => {
                set_plain(false);
                return false;
            }
        };
        ops.push(op);
    }
    let (q, r) = run_scene(pr, er, seg, ops);
    out.case(q, r);
    set_plain(false);
    true
}
