//! C10: rotation routes.
use crate::parse::Tk;
use crate::proto::*;
use scad_tree::prelude::*;
use scad_tree::Mt4;

fn run_rot(p: Pt3, deg: f64, deg2: f64, k: Pt3) -> (String, Res) {
    let req = format!("rot {} {} {} {}", tpt3(p), tf(deg), tf(deg2), tpt3(k));
    let mut r = Res::new();
    let q = Pt3::new(p.z, p.x, p.y);
    let faces = Faces::from_faces(vec![Indices::from_indices(vec![0, 1, 0])]);
    macro_rules! axis {
        ($name:literal, $rotated:ident, $rotate:ident, $matrix:ident, $ax:expr) => {{
            r.g(concat!($name, "_pt"), tpt3(p.$rotated(deg)));
            let mut c = p;
            c.$rotate(deg);
            r.g(concat!($name, "_inplace"), tpt3(c));
            let mut l = Pt3s::from_pt3s(vec![p, q]);
            l.$rotate(deg);
            r.g(concat!($name, "_list"), tpt3s(&l));
            let mut poly = Polyhedron { points: Pt3s::from_pt3s(vec![p, q]), faces: faces.clone() };
            poly.$rotate(deg);
            r.g(concat!($name, "_poly"), tpt3s(&poly.points));
            r.g(concat!($name, "_mat"), tpt4(Mt4::$matrix(deg) * p.as_pt4(1.0)));
            r.g(concat!($name, "_mat3"), tpt3(Mt4::$matrix(deg) * p));
            let a: Pt3 = $ax;
            r.g(concat!($name, "_vec"), tpt4(Mt4::rot_vec(a.x, a.y, a.z, deg) * p.as_pt4(1.0)));
            r.g(concat!($name, "_a_b"), tpt3(p.$rotated(deg).$rotated(deg2)));
            r.g(concat!($name, "_sum"), tpt3(p.$rotated(deg + deg2)));
            r.g(concat!($name, "_back"), tpt3(p.$rotated(deg).$rotated(-deg)));
        }};
    }
    axis!("x", rotated_x, rotate_x, rot_x_matrix, Pt3::new(1.0, 0.0, 0.0));
    axis!("y", rotated_y, rotate_y, rot_y_matrix, Pt3::new(0.0, 1.0, 0.0));
    axis!("z", rotated_z, rotate_z, rot_z_matrix, Pt3::new(0.0, 0.0, 1.0));
    let m = Mt4::rot_vec(k.x, k.y, k.z, deg);
    r.g("k_mat", tmt4(&m));
    let kp = m * p.as_pt4(1.0);
    r.g("k_vec", tpt4(kp));
    r.g("k_back", tpt4(Mt4::rot_vec(k.x, k.y, k.z, -deg) * kp));
    let p2 = Pt2::new(p.x, p.y);
    r.g("r2", tpt2(p2.rotated(deg)));
    let mut c2 = p2;
    c2.rotate(deg);
    r.g("r2_inplace", tpt2(c2));
    let mut l2 = Pt2s::from_pt2s(vec![p2, Pt2::new(p.y, p.z)]);
    l2.rotate(deg);
    r.g("r2_list", tpt2s(&l2));
    (req, r)
}

fn run_look(eye: Pt3, center: Pt3, up: Pt3) -> (String, Res) {
    let req = format!("look {} {} {}", tpt3(eye), tpt3(center), tpt3(up));
    let mut r = Res::new();
    r.g("m", tmt4(&Mt4::look_at_matrix_lh(eye, center, up)));
    (req, r)
}

fn unit(rng: &mut Rng) -> Pt3 {
    match rng.below(4) {
        0 => {
            let axes = [
                Pt3::new(1.0, 0.0, 0.0), Pt3::new(-1.0, 0.0, 0.0), Pt3::new(0.0, 1.0, 0.0),
                Pt3::new(0.0, -1.0, 0.0), Pt3::new(0.0, 0.0, 1.0), Pt3::new(0.0, 0.0, -1.0),
            ];
            *rng.pick(&axes)
        }
        _ => loop {
            let v = Pt3::new(rng.uniform(-1.0, 1.0), rng.uniform(-1.0, 1.0), rng.uniform(-1.0, 1.0));
            if v.len() > 0.1 {
                return v.normalized();
            }
        },
    }
}
fn angle(rng: &mut Rng) -> f64 {
    match rng.below(5) {
        0 => *rng.pick(&[0.0, 90.0, -90.0, 180.0, 270.0, 360.0, 45.0, 30.0, -45.0, 1.0]),
        1 => rng.range(-360, 360) as f64,
        2 => rng.uniform(-1e4, 1e4),
        _ => rng.uniform(-360.0, 360.0),
    }
}
fn pt(rng: &mut Rng) -> Pt3 {
    loop {
        let p = Pt3::new(rng.f(), rng.f(), rng.f());
        // pairwise distinct magnitudes so that a swapped component shows
        if p.x.abs() != p.y.abs() && p.y.abs() != p.z.abs() && p.x.abs() != p.z.abs() {
            return p;
        }
    }
}

pub fn generate(rng: &mut Rng, thorough: bool, out: &mut Out) {
    // basis vectors at the quarter turn: the right-hand rule in its plainest form
    for p in [Pt3::new(1.0, 0.0, 0.0), Pt3::new(0.0, 1.0, 0.0), Pt3::new(0.0, 0.0, 1.0)] {
        for k in [Pt3::new(1.0, 0.0, 0.0), Pt3::new(0.0, 1.0, 0.0), Pt3::new(0.0, 0.0, 1.0)] {
            let (q, r) = run_rot(p, 90.0, 30.0, k);
            out.case(q, r);
        }
    }
    let n = if thorough { 30000 } else { 1500 };
    for _ in 0..n {
        let (q, r) = run_rot(pt(rng), angle(rng), angle(rng), unit(rng));
        out.case(q, r);
    }
    let up = Pt3::new(0.0, 0.0, 1.0);
    let m = if thorough { 30000 } else { 1500 };
    for i in 0..m {
        let eye = Pt3::new(rng.f(), rng.f(), rng.f());
        let (center, u) = match i % 6 {
            // exactly vertical, library's own up
            0 => (Pt3::new(eye.x, eye.y, eye.z + rng.fnz().abs()), up),
            1 => (Pt3::new(eye.x, eye.y, eye.z - rng.fnz().abs()), up),
            // near-vertical
            2 => (Pt3::new(eye.x + 1e-9 * rng.fnz(), eye.y, eye.z + rng.fnz()), up),
            // axis-aligned horizontal
            3 => {
                let d = unit(rng);
                (eye + d * rng.fnz().abs(), up)
            }
            // arbitrary up
            4 => {
                let d = unit(rng);
                let mut u = unit(rng);
                while u.cross(d).len() < 0.05 {
                    u = unit(rng);
                }
                (eye + d * rng.fnz().abs(), u * rng.uniform(0.5, 3.0))
            }
            _ => (Pt3::new(rng.f(), rng.f(), rng.f()), up),
        };
        if center == eye {
            continue;
        }
        let (q, r) = run_look(eye, center, u);
        out.case(q, r);
    }
}

pub fn replay(toks: &[&str], out: &mut Out) -> bool {
    let mut t = Tk::new(&toks[1..]);
    let (q, r) = match toks[0] {
        "rot" => run_rot(t.pt3(), t.f(), t.f(), t.pt3()),
        "look" => run_look(t.pt3(), t.pt3(), t.pt3()),
        _ => return false,
    };
    out.case(q, r);
    true
}
