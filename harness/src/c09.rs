//! C09: Mt4 algebra.
use crate::parse::Tk;
use crate::proto::*;
use scad_tree::prelude::*;
use scad_tree::Mt4;

fn opt_mt4(m: Option<Mt4>) -> String {
    match m {
        Some(m) => format!("o+ {}", tmt4(&m)),
        None => "o-".to_string(),
    }
}

fn run_mm(a: Mt4, b: Mt4, p: Pt4) -> (String, Res) {
    let req = format!("mm {} {} {}", tmt4(&a), tmt4(&b), tpt4(p));
    let mut r = Res::new();
    let i = Mt4::identity();
    r.g("ab", tmt4(&(a * b))).g("abp", tpt4((a * b) * p)).g("a_bp", tpt4(a * (b * p)));
    r.g("ia", tmt4(&(i * a))).g("ai", tmt4(&(a * i))).g("ip", tpt4(i * p));
    r.g("tt", tmt4(&a.transposed().transposed())).g("t", tmt4(&a.transposed()));
    r.g("t_ab", tmt4(&(a * b).transposed())).g("tb_ta", tmt4(&(b.transposed() * a.transposed())));
    r.g("ap", tpt4(a * p)).g("ap3", tpt3(a * p.as_pt3()));
    (req, r)
}

fn run_tr(t: Pt3, p: Pt3, w: f64) -> (String, Res) {
    let req = format!("tr {} {} {}", tpt3(t), tpt3(p), tf(w));
    let mut r = Res::new();
    let m = Mt4::translate_matrix(t.x, t.y, t.z);
    let s = Mt4::scale_matrix(t.x, t.y, t.z);
    r.g("tm", tmt4(&m)).g("sm", tmt4(&s));
    r.g("pt", tpt4(m * p.as_pt4(1.0))).g("dir", tpt4(m * p.as_pt4(0.0))).g("gen", tpt4(m * p.as_pt4(w)));
    r.g("sc", tpt4(s * p.as_pt4(w)));
    r.g("tm_sm", tmt4(&(m * s))).g("sm_tm", tmt4(&(s * m)));
    (req, r)
}

fn run_inv(a: Mt4, singular: bool) -> (String, Res) {
    let req = format!("inv {} {}", tmt4(&a), tb(singular));
    let mut r = Res::new();
    let inv = a.inverse();
    r.g("inv", opt_mt4(inv));
    if let Some(inv) = inv {
        r.g("a_inv", tmt4(&(a * inv))).g("inv_a", tmt4(&(inv * a)));
    }
    (req, r)
}

fn run_idx(a: Mt4, i: u64, v: f64) -> (String, Res) {
    let req = format!("idx {} {} {}", tmt4(&a), tu(i), tf(v));
    let mut r = Res::new();
    r.g("get", guard(move || tf(a[i as usize])));
    r.g("set", guard(move || {
        let mut c = a;
        c[i as usize] = v;
        tmt4(&c)
    }));
    (req, r)
}

fn run_apply(a: Mt4, ps: Vec<Pt3>) -> (String, Res) {
    let req = format!("apply {} {}", tmt4(&a), tpt3s(&ps));
    let mut r = Res::new();
    let mut w = Pt3s::from_pt3s(ps.clone());
    w.apply_matrix(&a);
    r.g("pts", tpt3s(&w));
    // the Polyhedron form: points mapped, faces untouched
    let faces = Faces::from_faces(vec![Indices::from_indices(vec![0, 1, 2]), Indices::from_indices(vec![2, 1, 0, 3])]);
    let mut poly = Polyhedron { points: Pt3s::from_pt3s(ps), faces };
    poly.apply_matrix(&a);
    r.g("poly_pts", tpt3s(&poly.points));
    let mut f = format!("L{}", poly.faces.len());
    for face in poly.faces.iter() {
        f.push(' ');
        f.push_str(&tus(face));
    }
    r.g("poly_faces", f);
    (req, r)
}

fn distinct16(rng: &mut Rng) -> [f64; 16] {
    loop {
        let mut v = [0.0; 16];
        for x in v.iter_mut() {
            *x = match rng.below(3) {
                0 => rng.range(-9, 9) as f64,
                1 => rng.range(-64, 64) as f64 / 4.0,
                _ => rng.uniform(-10.0, 10.0),
            };
        }
        let mut ok = true;
        for i in 0..16 {
            for j in 0..i {
                if v[i] == v[j] {
                    ok = false;
                }
            }
        }
        if ok {
            return v;
        }
    }
}
fn from16(v: &[f64; 16]) -> Mt4 {
    Mt4::new(
        Pt4::new(v[0], v[1], v[2], v[3]),
        Pt4::new(v[4], v[5], v[6], v[7]),
        Pt4::new(v[8], v[9], v[10], v[11]),
        Pt4::new(v[12], v[13], v[14], v[15]),
    )
}
/// matrix families: random projective, affine with translation, products of constructors
fn matrix(rng: &mut Rng) -> Mt4 {
    match rng.below(4) {
        0 => from16(&distinct16(rng)),
        1 => {
            let mut v = distinct16(rng);
            v[3] = 0.0;
            v[7] = 0.0;
            v[11] = 0.0;
            v[15] = 1.0;
            from16(&v)
        }
        2 => {
            Mt4::translate_matrix(rng.f(), rng.f(), rng.f())
                * Mt4::rot_z_matrix(rng.uniform(-360.0, 360.0))
                * Mt4::scale_matrix(rng.fnz(), rng.fnz(), rng.fnz())
        }
        _ => {
            Mt4::rot_x_matrix(rng.uniform(-360.0, 360.0))
                * Mt4::translate_matrix(rng.f(), rng.f(), rng.f())
                * Mt4::rot_y_matrix(rng.uniform(-360.0, 360.0))
        }
    }
}
/// singular matrices of rank 0..3 with small integer entries (exactly singular in f64)
fn singular(rng: &mut Rng) -> Mt4 {
    let rank = rng.below(4) as usize;
    let mut rows = [[0i64; 4]; 4];
    let mut basis = Vec::new();
    for _ in 0..rank {
        basis.push([rng.range(-4, 4), rng.range(-4, 4), rng.range(-4, 4), rng.range(-4, 4)]);
    }
    for row in rows.iter_mut() {
        for b in &basis {
            let k = rng.range(-3, 3);
            for c in 0..4 {
                row[c] += k * b[c];
            }
        }
    }
    let mut v = [0.0; 16];
    for c in 0..4 {
        for r in 0..4 {
            v[c * 4 + r] = rows[r][c] as f64;
        }
    }
    from16(&v)
}
fn point4(rng: &mut Rng) -> Pt4 {
    let w = match rng.below(3) {
        0 => 0.0,
        1 => 1.0,
        _ => rng.f(),
    };
    Pt4::new(rng.f(), rng.f(), rng.f(), w)
}

pub fn generate(rng: &mut Rng, thorough: bool, out: &mut Out) {
    let n = if thorough { 40000 } else { 2500 };
    // the counter-witness of the published product first
    {
        let (q, r) = run_tr(Pt3::new(1.0, 2.0, 3.0), Pt3::new(0.0, 0.0, 0.0), 1.0);
        out.case(q, r);
    }
    for it in 0..n {
        match it % 5 {
            0 => {
                let (q, r) = run_mm(matrix(rng), matrix(rng), point4(rng));
                out.case(q, r);
            }
            1 => {
                let (q, r) = run_tr(
                    Pt3::new(rng.f(), rng.f(), rng.f()),
                    Pt3::new(rng.f(), rng.f(), rng.f()),
                    rng.f(),
                );
                out.case(q, r);
            }
            2 => {
                let (q, r) = if rng.chance(0.3) { run_inv(singular(rng), true) } else { run_inv(matrix(rng), false) };
                out.case(q, r);
            }
            3 => {
                let i = if rng.chance(0.1) { 16 + rng.below(20) } else { rng.below(16) };
                let (q, r) = run_idx(from16(&distinct16(rng)), i, rng.f());
                out.case(q, r);
            }
            _ => {
                let len = [0usize, 1, 7][rng.below(3) as usize];
                let ps: Vec<Pt3> = (0..len).map(|_| Pt3::new(rng.f(), rng.f(), rng.f())).collect();
                let (q, r) = run_apply(matrix(rng), ps);
                out.case(q, r);
            }
        }
    }
}

pub fn replay(toks: &[&str], out: &mut Out) -> bool {
    let mut t = Tk::new(&toks[1..]);
    let (q, r) = match toks[0] {
        "mm" => run_mm(t.mt4(), t.mt4(), t.pt4()),
        "tr" => run_tr(t.pt3(), t.pt3(), t.f()),
        "inv" => run_inv(t.mt4(), t.b()),
        "idx" => run_idx(t.mt4(), t.u(), t.f()),
        "apply" => run_apply(t.mt4(), t.pt3s()),
        _ => return false,
    };
    out.case(q, r);
    true
}
