//! C13: Scad::save and the five scad_file! forms, over pre-existing files, in $VERIF_TMP.
use crate::proto::*;
use crate::tree::*;
use scad_tree::prelude::*;

fn tmp_path(name: &str) -> String {
    let dir = std::env::var("VERIF_TMP").unwrap_or_else(|_| "/verif/.build/tmp".into());
    let _ = std::fs::create_dir_all(&dir);
    format!("{}/{}", dir, name)
}

/// length of what is about to be written (the emission of the trees plus the settings lines): used only to
/// prepare a pre-existing file of exactly that length
fn content_len(g: &G, trees: &[Scad]) -> usize {
    let settings = match g {
        G::None => String::new(),
        G::Fa(a) => format!("$fa={};\n", a),
        G::Fs(s) => format!("$fs={};\n", s),
        G::FaFs(a, s) => format!("$fa={};\n$fs={};\n", a, s),
        G::Fn(n) => format!("$fn={};\n", n),
    };
    let body = std::panic::catch_unwind(|| trees.iter().map(|t| format!("{}", t).len()).sum::<usize>()).unwrap_or(0);
    settings.len() + body
}

fn prefill_len(path: &str, kind: u64, same_len: usize) {
    if kind == 4 {
        // a file of exactly the length of the new content but different bytes: a writer that decides by size
        // whether anything changed keeps it
        std::fs::write(path, vec![b'#'; same_len]).unwrap();
    } else {
        prefill(path, kind);
    }
}

fn prefill(path: &str, kind: u64) {
    match kind {
        0 => {
            let _ = std::fs::remove_file(path);
        }
        1 => std::fs::write(path, b"").unwrap(),
        2 => std::fs::write(path, vec![b'#'; 200000]).unwrap(), // longer than any new content of a small tree
        _ => std::fs::write(path, b"cube(1);\n").unwrap(),
    }
}

#[derive(Clone)]
pub enum G {
    None,
    Fa(f64),
    Fs(f64),
    FaFs(f64, f64),
    Fn(u64),
}

pub fn run_file(g: G, trees: Vec<Scad>, pre: u64, stack_mb: usize, id: u64) -> (String, Res) {
    let gt = match &g {
        G::None => "gnone".to_string(),
        G::Fa(a) => format!("gfa {}", tn(*a)),
        G::Fs(s) => format!("gfs {}", tn(*s)),
        G::FaFs(a, s) => format!("gfafs {} {}", tn(*a), tn(*s)),
        G::Fn(n) => format!("gfn {}", tu(*n)),
    };
    let req = format!("file {} {}", gt, dump_all(&trees));
    let mut r = Res::new();
    let path = tmp_path(&format!("c13_{}.scad", id));
    prefill_len(&path, pre, content_len(&g, &trees));
    let fmt: String = {
        let ts2 = trees.clone();
        guard(move || {
            let mut s = String::new();
            for t in &ts2 {
                s.push_str(&format!("{}", t));
            }
            ts(&s)
        })
    };
    // the macro takes `$child;` expressions: use the documented multi-child form with up to four
    // children and a union for longer lists is NOT equivalent, so children are passed one by one
    let p2 = path.clone();
    let status = std::panic::catch_unwind(move || {
        let mut it = trees.into_iter();
        macro_rules! call {
            ($($c:ident),+) => {{
                $(let $c = it.next().unwrap();)+
                match g {
                    G::None => { scad_file!(stack_mb, &p2, $($c);+;); }
                    G::Fa(a) => { scad_file!(stack_mb, &p2, fa=a, $($c);+;); }
                    G::Fs(s) => { scad_file!(stack_mb, &p2, fs=s, $($c);+;); }
                    G::FaFs(a, s) => { scad_file!(stack_mb, &p2, fa=a, fs=s, $($c);+;); }
                    G::Fn(n) => { scad_file!(stack_mb, &p2, fn=n, $($c);+;); }
                }
            }};
        }
        match it.len() {
            1 => call!(a),
            2 => call!(a, b),
            3 => call!(a, b, c),
            4 => call!(a, b, c, d),
            5 => call!(a, b, c, d, e),
            _ => call!(a, b, c, d, e, f),
        }
    });
    match status {
        Ok(()) => match std::fs::read(&path) {
            Ok(bytes) => {
                r.g("bytes", ts(&String::from_utf8_lossy(&bytes)));
            }
            Err(_) => {
                r.g("bytes", "PANIC".into());
            }
        },
        Err(_) => {
            r.g("bytes", "PANIC".into());
        }
    }
    r.g("format", fmt);
    let _ = std::fs::remove_file(&path);
    (req, r)
}

fn run_save(tree: Scad, pre: u64, id: u64) -> (String, Res) {
    let mut d = String::new();
    dump(&tree, &mut d);
    let req = format!("save {}", d);
    let mut r = Res::new();
    let path = tmp_path(&format!("c13_save_{}.scad", id));
    prefill_len(&path, pre, content_len(&G::None, std::slice::from_ref(&tree)));
    let fmt = {
        let t2 = tree.clone();
        guard(move || ts(&format!("{}", t2)))
    };
    let p2 = path.clone();
    let status = std::panic::catch_unwind(move || tree.save(&p2));
    match (status, std::fs::read(&path)) {
        (Ok(()), Ok(bytes)) => {
            r.g("bytes", ts(&String::from_utf8_lossy(&bytes)));
        }
        _ => {
            r.g("bytes", "PANIC".into());
        }
    }
    r.g("format", fmt);
    let _ = std::fs::remove_file(&path);
    (req, r)
}

/// sequences with repeated children: adjacent equal trees, all equal, a-b-a, equal first and last
/// (a writer that merges, sorts or de-duplicates its children is only visible on these)
pub fn dup_stream(rng: &mut Rng, n: u64, id: &mut u64, out: &mut Out) {
    let g = Gen { values: true, huge_ints: false };
    for i in 0..n {
        *id += 1;
        let k = rng.range(2, 6) as usize;
        let mut trees: Vec<Scad> = (0..k).map(|_| {
            let d = rng.below(3) as u32;
            g.tree(rng, d)
        }).collect();
        match i % 4 {
            0 => {
                let j = rng.below((k - 1) as u64) as usize;
                trees[j + 1] = trees[j].clone();
            }
            1 => {
                let t = trees[0].clone();
                for x in trees.iter_mut() {
                    *x = t.clone();
                }
            }
            2 => {
                let t = trees[0].clone();
                trees[k - 1] = t;
            }
            _ => {
                // runs: a a b b
                for j in (0..k - 1).step_by(2) {
                    trees[j + 1] = trees[j].clone();
                }
            }
        }
        let setting = match i % 5 {
            0 => G::None,
            1 => G::Fa(g.num(rng)),
            2 => G::Fs(g.num(rng)),
            3 => G::FaFs(g.num(rng), g.num(rng)),
            _ => G::Fn(g.int(rng)),
        };
        let (q, r) = run_file(setting, trees, rng.below(5), 8, *id);
        out.case(q, r);
    }
}

/// long child lists (a writer that batches or buffers its children shows only past its batch size):
/// every form with 65, 130 and (thorough) 1000 small children
pub fn many_children(rng: &mut Rng, thorough: bool, id: &mut u64, out: &mut Out) {
    let g = Gen { values: true, huge_ints: false };
    let sizes: Vec<usize> = if thorough { vec![33, 65, 130, 257, 1000] } else { vec![65, 130] };
    for (j, n) in sizes.into_iter().enumerate() {
        for form in 0..5 {
            *id += 1;
            let trees: Vec<Scad> = (0..n).map(|i| { translate!([i as f64, j as f64, form as f64], cube!(1.0);) }).collect();
            let setting = match form {
                0 => G::None,
                1 => G::Fa(g.num(rng)),
                2 => G::Fs(g.num(rng)),
                3 => G::FaFs(g.num(rng), g.num(rng)),
                _ => G::Fn(g.int(rng)),
            };
            let (q, r) = run_file_many(setting, trees, rng.below(5), *id);
            out.case(q, r);
        }
    }
}

/// like `run_file`, for child lists longer than the macro call sites spelled out there: the macro is
/// invoked with a repetition generated by a helper macro
fn run_file_many(g: G, trees: Vec<Scad>, pre: u64, id: u64) -> (String, Res) {
    let gt = match &g {
        G::None => "gnone".to_string(),
        G::Fa(a) => format!("gfa {}", tn(*a)),
        G::Fs(s) => format!("gfs {}", tn(*s)),
        G::FaFs(a, s) => format!("gfafs {} {}", tn(*a), tn(*s)),
        G::Fn(n) => format!("gfn {}", tu(*n)),
    };
    let req = format!("file {} {}", gt, dump_all(&trees));
    let mut r = Res::new();
    let path = tmp_path(&format!("c13_many_{}.scad", id));
    prefill_len(&path, pre, content_len(&g, &trees));
    let fmt: String = {
        let ts2 = trees.clone();
        guard(move || {
            let mut s = String::new();
            for t in &ts2 {
                s.push_str(&format!("{}", t));
            }
            ts(&s)
        })
    };
    let p2 = path.clone();
    let n = trees.len();
    let status = std::panic::catch_unwind(move || {
        let mut it = trees.into_iter();
        crate::gen_many::many_dispatch(n, g, &mut it, p2.clone());
    });
    match status {
        Ok(()) => match std::fs::read(&path) {
            Ok(bytes) => {
                r.g("bytes", ts(&String::from_utf8_lossy(&bytes)));
            }
            Err(_) => {
                r.g("bytes", "PANIC".into());
            }
        },
        Err(_) => {
            r.g("bytes", "PANIC".into());
        }
    }
    r.g("format", fmt);
    let _ = std::fs::remove_file(&path);
    (req, r)
}

pub fn generate(rng: &mut Rng, thorough: bool, out: &mut Out) {
    let g = Gen { values: true, huge_ints: false };
    let n = if thorough { 1500 } else { 400 };
    let mut id = 0u64;
    for i in 0..n {
        id += 1;
        if i % 6 == 5 {
            let d = rng.below(5) as u32;
            let (q, r) = run_save(g.tree(rng, d), rng.below(5), id);
            out.case(q, r);
            continue;
        }
        let setting = match i % 5 {
            0 => G::None,
            1 => G::Fa(g.num(rng)),
            2 => G::Fs(g.num(rng)),
            3 => G::FaFs(g.num(rng), g.num(rng)),
            _ => G::Fn(g.int(rng)),
        };
        let k = rng.range(1, 6) as usize;
        let trees: Vec<Scad> = (0..k).map(|_| {
            let d = rng.below(4) as u32;
            g.tree(rng, d)
        }).collect();
        let (q, r) = run_file(setting, trees, rng.below(5), 8, id);
        out.case(q, r);
    }
    dup_stream(rng, if thorough { 200 } else { 40 }, &mut id, out);
    many_children(rng, thorough, &mut id, out);
    // deep chains that need the enlarged stack of the saving thread
    let depths: Vec<usize> = if thorough { vec![2000, 20000] } else { vec![2000] };
    for d in depths {
        id += 1;
        let mut t = cube!(1.0);
        for _ in 0..d {
            t = translate!([1.0, 0.0, 0.0], t;);
        }
        let (q, r) = run_file(G::Fn(32), vec![t], 3, 512, id);
        out.case(q, r);
    }
}

pub fn replay(_toks: &[&str], out: &mut Out, line: &str) -> bool {
    let toks: Vec<&str> = line.split(' ').collect();
    let mut t = crate::parse::Tk::new(&toks[1..]);
    match toks[0] {
        "save" => {
            let tree = crate::treeparse::tree(&mut t);
            let (q, r) = run_save(tree, 3, 999001);
            out.case(q, r);
            true
        }
        "file" => {
            let mut num = |t: &mut crate::parse::Tk| {
                let x = t.f();
                let _ = t.tok();
                x
            };
            let g = match t.tok() {
                "gnone" => G::None,
                "gfa" => G::Fa(num(&mut t)),
                "gfs" => G::Fs(num(&mut t)),
                "gfafs" => G::FaFs(num(&mut t), num(&mut t)),
                _ => G::Fn(t.u()),
            };
            let n = t.len();
            let trees: Vec<Scad> = (0..n).map(|_| crate::treeparse::tree(&mut t)).collect();
            let (q, r) = run_file(g, trees, 3, 512, 999002);
            out.case(q, r);
            true
        }
        _ => false,
    }
}
