//! Rebuild `Scad` trees from their dump (replay).
use crate::gen_enums::*;
use crate::parse::Tk;
use scad_tree::prelude::*;

thread_local! { static PLAIN: std::cell::Cell<bool> = std::cell::Cell::new(false); }
fn n(t: &mut Tk) -> f64 {
    let x = t.f();
    if !PLAIN.with(|p| p.get()) {
        let _ = t.tok(); // display text
    }
    x
}
/// parse a dump written without display texts
pub fn tree_plain(t: &mut Tk) -> Scad {
    PLAIN.with(|p| p.set(true));
    let r = tree(t);
    PLAIN.with(|p| p.set(false));
    r
}
fn on(t: &mut Tk) -> Option<f64> {
    if t.tok() == "o+" { Some(n(t)) } else { None }
}
fn ou(t: &mut Tk) -> Option<u64> {
    if t.tok() == "o+" { Some(t.u()) } else { None }
}
fn p2(t: &mut Tk) -> Pt2 {
    Pt2::new(n(t), n(t))
}
fn p3(t: &mut Tk) -> Pt3 {
    Pt3::new(n(t), n(t), n(t))
}
fn paths(t: &mut Tk) -> Paths {
    let k = t.len();
    Paths::from_paths((0..k).map(|_| Indices::from_indices(t.us())).collect())
}
fn by_name<T: Copy + std::fmt::Debug>(all: &[T], name: &str) -> T {
    *all.iter().find(|v| format!("{:?}", v) == name).expect("enum variant")
}

pub fn tree(t: &mut Tk) -> Scad {
    let head = t.tok();
    let op = match &head[1..] {
        "Union" => ScadOp::Union,
        "Difference" => ScadOp::Difference,
        "Intersection" => ScadOp::Intersection,
        "Hull" => ScadOp::Hull,
        "Circle" => ScadOp::Circle { radius: n(t), fa: on(t), fs: on(t), fn_: ou(t) },
        "Sphere" => ScadOp::Sphere { radius: n(t), fa: on(t), fs: on(t), fn_: ou(t) },
        "Square" => ScadOp::Square { size: p2(t), center: t.b() },
        "Cube" => ScadOp::Cube { size: p3(t), center: t.b() },
        "Polygon" => {
            let k = t.len();
            let points = Pt2s::from_pt2s((0..k).map(|_| p2(t)).collect());
            let pa = if t.tok() == "o+" { Some(paths(t)) } else { None };
            ScadOp::Polygon { points, paths: pa, convexity: t.u() }
        }
        "Text" => ScadOp::Text {
            text: t.s(),
            size: n(t),
            font: t.s(),
            halign: by_name(HALIGNS, t.k()),
            valign: by_name(VALIGNS, t.k()),
            spacing: n(t),
            direction: by_name(DIRECTIONS, t.k()),
            language: t.s(),
            script: t.s(),
            fn_: ou(t),
        },
        "Import" => ScadOp::Import { file: t.s(), convexity: t.u() },
        "Projection" => ScadOp::Projection { cut: t.b() },
        "Cylinder" => ScadOp::Cylinder { height: n(t), radius1: n(t), radius2: n(t), center: t.b(), fa: on(t), fs: on(t), fn_: ou(t) },
        "Polyhedron" => {
            let k = t.len();
            let points = Pt3s::from_pt3s((0..k).map(|_| p3(t)).collect());
            ScadOp::Polyhedron { points, faces: paths(t), convexity: t.u() }
        }
        "LinearExtrude" => ScadOp::LinearExtrude { height: n(t), center: t.b(), convexity: t.u(), twist: n(t), scale: p2(t), slices: ou(t), fn_: ou(t) },
        "RotateExtrude" => ScadOp::RotateExtrude { angle: n(t), convexity: t.u(), fa: on(t), fs: on(t), fn_: ou(t) },
        "Surface" => ScadOp::Surface { file: t.s(), center: t.b(), invert: t.b(), convexity: t.u() },
        "Translate" => ScadOp::Translate { v: p3(t) },
        "Rotate" => ScadOp::Rotate { a: on(t), a_is_scalar: t.b(), v: p3(t) },
        "Scale" => ScadOp::Scale { v: p3(t) },
        "Resize" => ScadOp::Resize { newsize: p3(t), auto: t.b(), auto_is_vec: t.b(), autovec: (t.b(), t.b(), t.b()), convexity: t.u() },
        "Mirror" => ScadOp::Mirror { v: p3(t) },
        "Color" => {
            let rgba = if t.tok() == "o+" { Some(Pt4::new(n(t), n(t), n(t), n(t))) } else { None };
            let color = if t.tok() == "o+" { Some(by_name(COLORS, t.k())) } else { None };
            let hex = if t.tok() == "o+" { Some(t.s()) } else { None };
            ScadOp::Color { rgba, color, hex, alpha: on(t) }
        }
        "Offset" => ScadOp::Offset { r: on(t), delta: on(t), chamfer: t.b() },
        "Minkowski" => ScadOp::Minkowski { convexity: t.u() },
        other => panic!("unknown op {}", other),
    };
    let k = t.len();
    let children = (0..k).map(|_| tree(t)).collect();
    Scad { op, children }
}
