//! C01 / C02: emission of trees.  The request is the structural dump of the trees, the result
//! the text `format!("{}", tree)` produced (concatenated for sequences) or PANIC.
use crate::proto::*;
use crate::tree::*;
use scad_tree::prelude::*;

pub fn run_emit(trees: Vec<Scad>) -> (String, Res) {
    let req = format!("emit {}", dump_all(&trees));
    let mut r = Res::new();
    let text = guard(move || {
        let mut s = String::new();
        for t in &trees {
            s.push_str(&format!("{}", t));
        }
        ts(&s)
    });
    r.g("text", text);
    (req, r)
}

fn macro_trees(rng: &mut Rng) -> Vec<Scad> {
    // the glue around the core: macros, operators, Into conversions, Viewer with empty input
    let mut v = Vec::new();
    v.push(union!(cube!(1.0); sphere!(d = 3.0, fn = 12);));
    v.push(cube!([1.0, 2.0, 3.0], true) + cylinder!(h = 4.0, d = 2.0) - sphere!(1.5));
    v.push(translate!([1.0, 0.5, -2.0], rotate!(45.0, color!(c = ScadColor::Red, square!(2.0););); ));
    v.push(text!("hello \"world\"\\", 12.0, "Liberation Sans:style=Bold"));
    v.push(polygon!(dim2::star(5, 1.0, 2.0), Paths::from_paths(vec![Indices::from_indices(vec![0, 1, 2])]), 3));
    v.push(import!("model.stl", 7));
    v.push(resize!([1.0, 2.0, 3.0], true, cube!(1.0);));
    v.push(resize!([1.0, 2.0, 3.0], [true, false, true], cube!(1.0);));
    let mut viewer = Viewer::new(0.1, 0.05, 6);
    viewer.add_pt2s(&Pt2s::new(), ScadColor::Blue);
    viewer.add_pt3(Pt3::new(rng.f(), 1.0, 2.0), ScadColor::Green);
    viewer.add_lines3d(&Vec::new(), ScadColor::White);
    v.push(viewer.into_scad());
    v.push(Scad::polar_array(&cube!(1.0), 3, 360.0));
    v.push(Polyhedron::cylinder(1.0, 2.0, 5).into_scad());
    v
}

pub fn generate(rng: &mut Rng, thorough: bool, out: &mut Out, values: bool) {
    let g = Gen { values, huge_ints: values };
    for t in macro_trees(rng) {
        let (q, r) = run_emit(vec![t]);
        out.case(q, r);
    }
    // empty lists and zero-children operators, one by one
    let singles = vec![
        Scad { op: ScadOp::Polygon { points: Pt2s::new(), paths: None, convexity: 1 }, children: vec![] },
        Scad { op: ScadOp::Polygon { points: Pt2s::from_pt2s(vec![Pt2::new(0.0, 0.0)]), paths: Some(Paths::new()), convexity: 1 }, children: vec![] },
        Scad { op: ScadOp::Polygon { points: Pt2s::from_pt2s(vec![Pt2::new(0.0, 0.0)]), paths: Some(Paths::from_paths(vec![Indices::new()])), convexity: 1 }, children: vec![] },
        Scad { op: ScadOp::Polyhedron { points: Pt3s::new(), faces: Faces::new(), convexity: 1 }, children: vec![] },
        Scad { op: ScadOp::Union, children: vec![] },
        Scad { op: ScadOp::Translate { v: Pt3::new(1.0, 2.0, 3.0) }, children: vec![] },
        Scad { op: ScadOp::Hull, children: vec![Scad { op: ScadOp::Difference, children: vec![] }] },
    ];
    for t in singles {
        let (q, r) = run_emit(vec![t]);
        out.case(q, r);
    }
    // every colour, every keyword
    if values {
        for c in crate::gen_enums::COLORS {
            let t = Scad { op: ScadOp::Color { rgba: None, color: Some(*c), hex: None, alpha: if rng.chance(0.5) { Some(g.num(rng)) } else { None } }, children: vec![cube!(1.0)] };
            let (q, r) = run_emit(vec![t]);
            out.case(q, r);
        }
        for h in crate::gen_enums::HALIGNS {
            for v in crate::gen_enums::VALIGNS {
                for d in crate::gen_enums::DIRECTIONS {
                    let mut p = TextParams::default();
                    p.text = g.string(rng);
                    p.halign = *h;
                    p.valign = *v;
                    p.direction = *d;
                    let (q, r) = run_emit(vec![text!(text_params = p)]);
                    out.case(q, r);
                }
            }
        }
    }
    let n = if thorough { 60000 } else { 6000 };
    let maxd = if thorough { 9 } else { 5 };
    for i in 0..n {
        let k = match i % 10 {
            0 => 0,
            1 => 2,
            2 => rng.below(6) as usize,
            _ => 1,
        };
        let depth = rng.below(maxd) as u32;
        let trees: Vec<Scad> = (0..k).map(|_| g.tree(rng, depth)).collect();
        let (q, r) = run_emit(trees);
        out.case(q, r);
    }
    // sequences with repeated trees, emitted in memory and through scad_file! (the property's third
    // observation point); the file cases use the C13 `file` op
    for i in 0..(if thorough { 400 } else { 60 }) {
        let k = rng.range(2, 6) as usize;
        let mut trees: Vec<Scad> = (0..k).map(|_| g.tree(rng, 2)).collect();
        let j = rng.below((k - 1) as u64) as usize;
        trees[j + 1] = trees[j].clone();
        if i % 3 == 0 {
            trees[k - 1] = trees[0].clone();
        }
        let (q, r) = run_emit(trees);
        out.case(q, r);
    }
    if !values {
        let mut id = 500000u64;
        crate::c13::dup_stream(rng, if thorough { 100 } else { 20 }, &mut id, out);
    }
    // deep chains
    let deep = if thorough { vec![64, 500, 3000] } else { vec![64] };
    for d in deep {
        let mut t = Scad { op: g.primitive(rng), children: vec![] };
        for _ in 0..d {
            t = Scad { op: g.operator(rng), children: vec![t] };
        }
        let (q, r) = run_emit(vec![t]);
        out.case(q, r);
    }
}

pub fn replay(_toks: &[&str], _out: &mut Out, line: &str) -> bool {
    // rebuild the trees from the dump
    let toks: Vec<&str> = line.split(' ').collect();
    if toks[0] == "file" {
        return crate::c13::replay(_toks, _out, line);
    }
    if toks[0] != "emit" {
        return false;
    }
    let mut t = crate::parse::Tk::new(&toks[1..]);
    let n = t.len();
    let trees: Vec<Scad> = (0..n).map(|_| crate::treeparse::tree(&mut t)).collect();
    let (q, r) = run_emit(trees);
    _out.case(q, r);
    true
}
