//! Token parsing for replay.
use scad_tree::prelude::*;
use scad_tree::Mt4;

pub struct Tk<'a> {
    pub t: &'a [&'a str],
    pub i: usize,
}
impl<'a> Tk<'a> {
    pub fn new(t: &'a [&'a str]) -> Self {
        Tk { t, i: 0 }
    }
    pub fn tok(&mut self) -> &'a str {
        let s = self.t[self.i];
        self.i += 1;
        s
    }
    pub fn f(&mut self) -> f64 {
        let s = self.tok();
        f64::from_bits(u64::from_str_radix(&s[1..], 16).unwrap())
    }
    pub fn u(&mut self) -> u64 {
        let s = self.tok();
        s[1..].parse().unwrap()
    }
    pub fn i(&mut self) -> i64 {
        let s = self.tok();
        s[1..].parse().unwrap()
    }
    pub fn b(&mut self) -> bool {
        self.tok() == "b1"
    }
    pub fn s(&mut self) -> String {
        let s = self.tok();
        let h = &s[1..];
        let bytes: Vec<u8> = (0..h.len() / 2)
            .map(|k| u8::from_str_radix(&h[2 * k..2 * k + 2], 16).unwrap())
            .collect();
        String::from_utf8(bytes).unwrap()
    }
    pub fn k(&mut self) -> &'a str {
        &self.tok()[1..]
    }
    pub fn len(&mut self) -> usize {
        let s = self.tok();
        s[1..].parse().unwrap()
    }
    pub fn pt2(&mut self) -> Pt2 {
        Pt2::new(self.f(), self.f())
    }
    pub fn pt3(&mut self) -> Pt3 {
        Pt3::new(self.f(), self.f(), self.f())
    }
    pub fn pt4(&mut self) -> Pt4 {
        Pt4::new(self.f(), self.f(), self.f(), self.f())
    }
    pub fn mt4(&mut self) -> Mt4 {
        Mt4::new(self.pt4(), self.pt4(), self.pt4(), self.pt4())
    }
    pub fn pt2s(&mut self) -> Vec<Pt2> {
        let n = self.len();
        (0..n).map(|_| self.pt2()).collect()
    }
    pub fn pt3s(&mut self) -> Vec<Pt3> {
        let n = self.len();
        (0..n).map(|_| self.pt3()).collect()
    }
    pub fn us(&mut self) -> Vec<u64> {
        let n = self.len();
        (0..n).map(|_| self.u()).collect()
    }
    pub fn opt<T>(&mut self, f: impl FnOnce(&mut Self) -> T) -> Option<T> {
        if self.tok() == "o+" {
            Some(f(self))
        } else {
            None
        }
    }
}
